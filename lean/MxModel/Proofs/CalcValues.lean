import MxModel.Proofs.CalcRun
import MxModel.Proofs.CalcValued
/-!
# The values a plan's run leaves are the directly evaluated ones

`VCache.Cons D` ("every entry is the value `D` gives its element") is kept by every action of a plan's
run, for every solution `D` of the evaluation equations: a `'calc'` runs a formula only when everything
it reads is held (the step invariant `SInv` of `Proofs/CalcExec.lean`, read on the erased cache), a
`'paste'` assigns the value it read, a `'clear'` only removes.
-/
namespace MxModel.CalcSteps

variable {V : Type}

/-! ## primitives -/

theorem value_of_held {c : VCache V} {n : Node} (h : n ∈ c.erase.held) :
    ∃ v, c.value n = some v ∧ (n, v) ∈ c.data := by
  unfold VCache.value
  cases hf : c.data.find? (fun e => e.1 == n) with
  | none =>
    have hn := List.find?_eq_none.mp hf
    obtain ⟨e, he, hen⟩ := List.mem_map.mp h
    exact (hn e he (by simp [hen])).elim
  | some e =>
    have h1 := List.find?_some hf
    have h2 := List.mem_of_find?_eq_some hf
    have : e.1 = n := by simpa using h1
    refine ⟨e.2, rfl, ?_⟩
    rw [← this]; exact h2

theorem held_of_value {c : VCache V} {n : Node} {v : V} (h : c.value n = some v) : n ∈ c.data.map (·.1) := by
  unfold VCache.value at h
  cases hf : c.data.find? (fun e => e.1 == n) with
  | none => rw [hf] at h; cases h
  | some e =>
    have h1 := List.find?_some hf
    have h2 := List.mem_of_find?_eq_some hf
    have : e.1 = n := by simpa using h1
    exact List.mem_map.mpr ⟨e, h2, this⟩

theorem VCache.Cons.value {D : Node → V} {c : VCache V} (hc : c.Cons D) {n : Node} {v : V}
    (h : c.value n = some v) : v = D n := by
  unfold VCache.value at h
  cases hf : c.data.find? (fun e => e.1 == n) with
  | none => rw [hf] at h; cases h
  | some e =>
    rw [hf] at h
    have h1 := List.find?_some hf
    have h2 := List.mem_of_find?_eq_some hf
    have : e.1 = n := by simpa using h1
    cases h
    rw [← this]; exact hc e h2

theorem VCache.Cons.value_held {D : Node → V} {c : VCache V} (hc : c.Cons D) {n : Node}
    (h : n ∈ c.erase.held) : c.value n = some (D n) := by
  obtain ⟨v, hv, _⟩ := value_of_held h
  rw [hv, hc.value hv]

theorem evalNodeV_held (f : Node → List (Option V) → V) (preds : Node → List Node) (fuel : Nat) (n : Node)
    (c : VCache V) (h : n ∈ c.erase.held) : evalNodeV f preds fuel n c = c := by
  cases fuel with
  | zero => rfl
  | succ fuel =>
    have h' : n ∈ c.data.map (·.1) := h
    simp [evalNodeV, h']

theorem evalNodeV_ready_fold (f : Node → List (Option V) → V) (preds : Node → List Node) (fuel : Nat) (n : Node)
    (ps : List Node) (c : VCache V) (h : ∀ p ∈ ps, p ∈ c.erase.held) :
    ps.foldl (fun c p => (evalNodeV f preds fuel p c).addEdge p n) c
      = { c with edges := c.edges ++ ps.map (fun p => (p, n)) } := by
  induction ps generalizing c with
  | nil => simp
  | cons p ps ih =>
    simp only [List.foldl_cons]
    rw [evalNodeV_held f preds fuel p c (h p (by simp))]
    rw [ih _ (fun q hq => by
      have := h q (List.mem_cons_of_mem _ hq); simpa [VCache.addEdge, VCache.erase] using this)]
    simp [VCache.addEdge]

/-- a formula that runs while everything it reads is held stores the value `D` gives it -/
theorem evalNodeV_ready_cons (f : Node → List (Option V) → V) (preds : Node → List Node) (D : Node → V)
    (fuel : Nat) (n : Node) (c : VCache V) (hc : c.Cons D)
    (hp : ∀ p ∈ preds n, p ∈ c.erase.held)
    (hD : D n = f n ((preds n).map (fun p => some (D p)))) :
    (evalNodeV f preds (fuel + 1) n c).Cons D := by
  by_cases hn : n ∈ c.erase.held
  · rw [evalNodeV_held f preds _ n c hn]; exact hc
  · have hn' : n ∉ c.data.map (·.1) := hn
    unfold evalNodeV
    rw [if_neg hn']
    have hf := evalNodeV_ready_fold f preds fuel n (preds n) (c.enter n)
      (by simpa [VCache.enter, VCache.erase] using hp)
    simp only
    rw [hf]
    have hv : (preds n).map (VCache.value { c.enter n with edges := (c.enter n).edges ++ (preds n).map (fun p => (p, n)) }) =
        (preds n).map (fun p => some (D p)) := by
      apply List.map_congr_left
      intro p hpm
      have : VCache.value { c.enter n with edges := (c.enter n).edges ++ (preds n).map (fun p => (p, n)) } p =
          c.value p := rfl
      rw [this]
      exact hc.value_held (hp p hpm)
    rw [hv, ← hD]
    intro e he
    simp only [VCache.store, VCache.enter, List.mem_append, List.mem_singleton] at he
    rcases he with he | he
    · exact hc e he
    · rw [he]

theorem clearAtV_data_sub (n : Node) (c : VCache V) : ∀ e ∈ (clearAtV n c).data, e ∈ c.data := by
  intro e he
  unfold clearAtV at he
  split at he
  · exact (List.mem_filter.mp he).1
  · exact he

theorem clearAtV_cons {D : Node → V} (n : Node) (c : VCache V) (hc : c.Cons D) : (clearAtV n c).Cons D :=
  fun e he => hc e (clearAtV_data_sub n c e he)

theorem setValueV_cons {D : Node → V} (n : Node) (v : V) (c : VCache V) (hc : c.Cons D) (hv : v = D n) :
    (setValueV n v c).Cons D := by
  intro e he
  simp only [setValueV, List.mem_append, List.mem_singleton] at he
  rcases he with he | he
  · exact hc e (clearAtV_data_sub n c e he)
  · rw [he]; exact hv

theorem evalV_all_held (f : Node → List (Option V) → V) (preds : Node → List Node) (fuel : Nat) (ns : List Node)
    (c : VCache V) (h : ∀ n ∈ ns, n ∈ c.erase.held) :
    ns.foldl (fun c n => evalNodeV f preds fuel n c) c = c := by
  induction ns with
  | nil => rfl
  | cons n ns ih =>
    simp only [List.foldl_cons]
    rw [evalNodeV_held f preds fuel n c (h n (by simp))]
    exact ih (fun m hm => h m (List.mem_cons_of_mem _ hm))

theorem pasteV_fold_cons [Inhabited V] {D : Node → V} (c1 : VCache V) (h1 : c1.Cons D) (ns : List Node)
    (hns : ∀ n ∈ ns, n ∈ c1.erase.held) (c : VCache V) (hc : c.Cons D) :
    (ns.foldl (fun c n => setValueV n ((c1.value n).getD default) c) c).Cons D := by
  induction ns generalizing c with
  | nil => exact hc
  | cons n ns ih =>
    simp only [List.foldl_cons]
    apply ih (fun m hm => hns m (List.mem_cons_of_mem _ hm))
    apply setValueV_cons n _ c hc
    rw [h1.value_held (hns n (by simp))]; rfl

theorem clearV_fold_cons {D : Node → V} (ns : List Node) (c : VCache V) (hc : c.Cons D) :
    (ns.foldl (fun c n => clearAtV n c) c).Cons D := by
  induction ns generalizing c with
  | nil => exact hc
  | cons n ns ih => exact ih _ (clearAtV_cons n c hc)

theorem erase_execStepV [Inhabited V] (f : Node → List (Option V) → V) (preds : Node → List Node) (fuel : Nat)
    (o : StepOut) (c : VCache V) : (execStepV f preds fuel o c).erase = execStep preds fuel o c.erase := by
  unfold execStepV execStep
  rw [erase_execActionV, erase_execActionV, erase_execActionV]

theorem executeV_flatMap [Inhabited V] (f : Node → List (Option V) → V) (preds : Node → List Node) (fuel : Nat)
    (l : List StepOut) (c : VCache V) :
    executeV f preds fuel (l.flatMap StepOut.actions) c = l.foldl (fun c o => execStepV f preds fuel o c) c := by
  unfold executeV
  rw [List.foldl_flatMap]
  rfl

/-! ## the run -/

section run
variable (ordered : List Node) (succs : Node → List Node) (targets : List Node) (size : Nat)
  (preds : Node → List Node)
variable (c0 : Cache) (ht : isTopo succs ordered = true) (hd : ordered.Nodup)
  (h0 : c0.WF) (h0d : ∀ x ∈ c0.held, x ∉ ordered) (h0e : ∀ e ∈ c0.edges, e.1 ∉ ordered)
  (hp : ∀ n ∈ ordered, ∀ p ∈ preds n, (p ∈ ordered ∧ n ∈ succs p) ∨ p ∈ c0.held)
include ht hd h0d hp

/-- when the turn of an element of block `k` comes, it has no value and everything it reads has one
(the argument inside `calc_phase`, as a lemma of its own) -/
theorem block_preds_held (k : Nat) (c : Cache) (inv : SInv ordered succs targets size c0 k c)
    (rest done : List Node) (n : Node) (c' : Cache)
    (hB : curBlock ordered size k = done ++ n :: rest) (hh : c'.held = c.held ++ done) :
    n ∈ ordered ∧ n ∉ c'.held ∧ ∀ p ∈ preds n, p ∈ c'.held := by
  have eo : ordered = (ordered.take (k * size) ++ done) ++ n :: (rest ++ ordered.drop ((k + 1) * size)) := by
    have e1 := (List.take_append_drop ((k + 1) * size) ordered).symm
    have e2 := accum_succ ordered size k
    rw [accum_eq_take_succ] at e2
    rw [e2, hB] at e1
    simpa [List.append_assoc] using e1
  have hd' := hd
  rw [eo] at hd'
  have ht' := ht
  rw [eo] at ht'
  have hnpre : n ∉ ordered.take (k * size) ++ done := by
    have := (List.nodup_append.mp hd').2.2
    intro hc
    exact this n hc n (by simp) rfl
  have hheld_sub : ∀ x, x ∈ c.held → x ∈ ordered.take (k * size) ∨ x ∈ c0.held :=
    fun x hx => ((inv.held x).mp hx).imp (heldAt_sub ordered succs targets size) id
  have hnB : n ∈ curBlock ordered size k := by rw [hB]; simp
  have hnord : n ∈ ordered := mem_of_mem_block hnB
  refine ⟨hnord, ?_, ?_⟩
  · rw [hh]
    intro hc
    rcases List.mem_append.mp hc with hc | hc
    · rcases hheld_sub n hc with hc | hc
      · exact hnpre (List.mem_append_left _ hc)
      · exact h0d n hc hnord
    · exact hnpre (List.mem_append_right _ hc)
  · intro p hpm
    rcases hp n hnord p hpm with ⟨hpo, hsucc⟩ | hp0
    case inr =>
      rw [hh]; exact List.mem_append_left _ ((inv.held p).mpr (Or.inr hp0))
    have hpo' := hpo
    rw [eo] at hpo'
    have hpre := isTopo_pred_strict ht' hd' hpo' hsucc
    rw [hh]
    rcases List.mem_append.mp hpre with hpt | hpd
    · apply List.mem_append_left
      rw [inv.held]
      left
      by_cases hpt' : p ∈ targets
      · exact Or.inr ⟨hpt', hpt⟩
      · left
        apply pastedAt_of_pending ordered succs targets size k hpt hpt'
        exact hasSuccOutside_true.mpr ⟨n, hsucc, fun hc => hnpre (List.mem_append_left _ hc)⟩
    · exact List.mem_append_right _ hpd

variable (f : Node → List (Option V) → V) (D : Node → V) (hD : Solves f preds ordered D)
include hD

/-- calc phase with values: every formula of the block stores the value `D` gives its element -/
theorem calc_phase_cons (fuel k : Nat) (c : Cache) (inv : SInv ordered succs targets size c0 k c)
    (rest done : List Node) (vc' : VCache V)
    (hB : curBlock ordered size k = done ++ rest)
    (hh : vc'.erase.held = c.held ++ done) (hc : vc'.Cons D) :
    (rest.foldl (fun c n => evalNodeV f preds (fuel + 1) n c) vc').Cons D := by
  induction rest generalizing done vc' with
  | nil => exact hc
  | cons n rest ih =>
    obtain ⟨hnord, hn, hpreds⟩ := block_preds_held ordered succs targets size preds c0 ht hd h0d hp k c inv
      rest done n vc'.erase hB hh
    simp only [List.foldl_cons]
    apply ih (done ++ [n])
    · rw [hB]; simp
    · rw [erase_evalNodeV, evalNode_ready preds fuel n vc'.erase hn hpreds]
      simp [hh]
    · exact evalNodeV_ready_cons f preds D fuel n vc' hc hpreds (hD n hnord)

include h0 h0e

/-- one step of the plan keeps "every entry is `D`'s value" -/
theorem step_cons [Inhabited V] (fuel k : Nat) (vc : VCache V)
    (inv : SInv ordered succs targets size c0 k vc.erase) (hc : vc.Cons D) :
    (execStepV f preds (fuel + 1) (stepAt ordered succs targets size k) vc).Cons D := by
  have h1 := calc_phase_cons ordered succs targets size preds c0 ht hd h0d hp f D hD fuel k vc.erase inv
    (curBlock ordered size k) [] vc (by simp) (by simp) hc
  have hb : (stepAt ordered succs targets size k).block = curBlock ordered size k := rfl
  -- what the calc phase holds (erased)
  have h1h : ((curBlock ordered size k).foldl (fun c n => evalNodeV f preds (fuel + 1) n c) vc).erase.held =
      vc.erase.held ++ curBlock ordered size k := by
    rw [foldl_erase _ (fun c n => evalNode preds (fuel + 1) n c) (fun c n => erase_evalNodeV f preds (fuel + 1) n c)]
    exact (calc_phase ordered succs targets size preds c0 ht hd h0 h0d h0e hp fuel k vc.erase inv
      (curBlock ordered size k) [] vc.erase (by simp) (by simp) rfl (by simp)
      (fun e he => Or.inl ((inv.edges e).mp he)) (fun e he => (inv.edges e).mpr he)).1
  generalize hc1 : (curBlock ordered size k).foldl (fun c n => evalNodeV f preds (fuel + 1) n c) vc = vc1
    at h1 h1h
  have hpaste_sub : ∀ x ∈ (stepAt ordered succs targets size k).paste, x ∈ vc1.erase.held := by
    intro x hx
    unfold stepAt at hx
    rw [stepOut_paste, List.mem_reverse] at hx
    rw [h1h]; exact List.mem_append_right _ (List.mem_filter.mp hx).1
  unfold execStepV
  simp only [execActionV]
  rw [hb, hc1, evalV_all_held f preds (fuel + 1) _ vc1 hpaste_sub]
  exact clearV_fold_cons _ _ (pasteV_fold_cons vc1 h1 _ hpaste_sub vc1 h1)

/-- **the values of a run**: executing the plan from a valued cache all of whose entries are `D`'s values
(user inputs: the assigned values; calculated values the model already holds: their values) leaves a
cache all of whose entries are `D`'s values, for every solution `D` of the evaluation equations on the
planned elements -/
theorem run_cons [Inhabited V] (fuel : Nat) (hz : 1 ≤ size) (vc0 : VCache V) (he0 : vc0.erase = c0)
    (hc0 : vc0.Cons D) :
    (executeV f preds (fuel + 1) (calcSteps ordered succs targets size) vc0).Cons D := by
  have key : ∀ m,
      SInv ordered succs targets size c0 m ((List.range m).foldl
        (fun c k => execStepV f preds (fuel + 1) (stepAt ordered succs targets size k) c) vc0).erase ∧
      ((List.range m).foldl
        (fun c k => execStepV f preds (fuel + 1) (stepAt ordered succs targets size k) c) vc0).Cons D := by
    intro m
    induction m with
    | zero =>
      refine ⟨⟨?_, ?_, fun e => by simp [he0], by simp [he0]⟩, hc0⟩
      · intro x; simp [heldAt, pastedAt, he0]
      · intro x; simp [heldAt, pastedAt, he0]
    | succ m ih =>
      rw [List.range_succ, List.foldl_append]
      simp only [List.foldl_cons, List.foldl_nil]
      refine ⟨?_, step_cons ordered succs targets size preds c0 ht hd h0 h0d h0e hp f D hD fuel m _ ih.1 ih.2⟩
      rw [erase_execStepV]
      exact step_inv ordered succs targets size preds c0 ht hd h0 h0d h0e hp fuel m _ ih.1
  have hrun : executeV f preds (fuel + 1) (calcSteps ordered succs targets size) vc0 =
      (List.range (nSteps ordered succs targets size)).foldl
        (fun c k => execStepV f preds (fuel + 1) (stepAt ordered succs targets size k) c) vc0 := by
    unfold calcSteps
    rw [executeV_flatMap, planSteps_eq_map ordered succs targets size hz, List.foldl_map]
  rw [hrun]
  exact (key _).2

end run

/-! ## direct evaluation solves the equations -/

theorem direct_of_inp (f : Node → List (Option V) → V) (preds : Node → List Node) (inp : Node → Option V)
    (k : Nat) (n : Node) (v : V) (h : inp n = some v) : direct f preds inp k n = some v := by
  cases k <;> simp [direct, h]

theorem direct_succ_of_none (f : Node → List (Option V) → V) (preds : Node → List Node) (inp : Node → Option V)
    (k : Nat) (n : Node) (h : inp n = none) :
    direct f preds inp (k + 1) n = some (f n ((preds n).map (direct f preds inp k))) := by
  simp [direct, h]

/-- along a topological order, depth `m` determines the first `m` elements: more depth changes nothing -/
theorem direct_stable (ordered : List Node) (succs preds : Node → List Node)
    (ht : isTopo succs ordered = true) (hd : ordered.Nodup)
    (f : Node → List (Option V) → V) (inp : Node → Option V) (hout : ∀ n ∈ ordered, inp n = none)
    (hp : ∀ n ∈ ordered, ∀ p ∈ preds n, (p ∈ ordered ∧ n ∈ succs p) ∨ (inp p).isSome) :
    ∀ m, m ≤ ordered.length → ∀ n ∈ ordered.take m, ∀ k, m ≤ k →
      direct f preds inp k n = direct f preds inp m n := by
  intro m
  induction m with
  | zero => intro _ n hn; simp at hn
  | succ m ih =>
    intro hm n hn k hk
    have hlt : m < ordered.length := hm
    rw [List.take_add_one, List.getElem?_eq_getElem hlt] at hn
    simp only [Option.toList_some, List.mem_append, List.mem_singleton] at hn
    rcases hn with hn | hn
    · rw [ih (by omega) n hn k (by omega), ih (by omega) n hn (m + 1) (by omega)]
    · obtain ⟨k', rfl⟩ : ∃ k', k = k' + 1 := ⟨k - 1, by omega⟩
      have hnord : n ∈ ordered := by rw [hn]; exact List.getElem_mem hlt
      have eo : ordered = ordered.take m ++ n :: ordered.drop (m + 1) := by
        rw [hn, ← List.drop_eq_getElem_cons hlt, List.take_append_drop]
      rw [direct_succ_of_none f preds inp k' n (hout n hnord), direct_succ_of_none f preds inp m n (hout n hnord)]
      congr 2
      apply List.map_congr_left
      intro p hpm
      rcases hp n hnord p hpm with ⟨hpo, hs⟩ | hi
      · have ht' := ht
        have hd' := hd
        have hpo' := hpo
        rw [eo] at ht' hd' hpo'
        have hpre := isTopo_pred_strict ht' hd' hpo' hs
        exact ih (by omega) p hpre k' (by omega)
      · obtain ⟨v, hv⟩ := Option.isSome_iff_exists.mp hi
        rw [direct_of_inp f preds inp k' p v hv, direct_of_inp f preds inp m p v hv]

/-- **direct evaluation solves the evaluation equations** on the planned elements, relative to the values
`inp` the model holds: with `D n` = the value depth `ordered.length` gives `n` -/
theorem direct_solves [Inhabited V] (ordered : List Node) (succs preds : Node → List Node)
    (ht : isTopo succs ordered = true) (hd : ordered.Nodup)
    (f : Node → List (Option V) → V) (inp : Node → Option V) (hout : ∀ n ∈ ordered, inp n = none)
    (hp : ∀ n ∈ ordered, ∀ p ∈ preds n, (p ∈ ordered ∧ n ∈ succs p) ∨ (inp p).isSome) :
    Solves f preds ordered (fun n => (direct f preds inp ordered.length n).getD default) ∧
    (∀ n v, inp n = some v → (direct f preds inp ordered.length n).getD default = v) ∧
    (∀ n ∈ ordered, ∀ k, ordered.length ≤ k →
      direct f preds inp k n = some ((direct f preds inp ordered.length n).getD default)) := by
  have hst := direct_stable ordered succs preds ht hd f inp hout hp ordered.length (Nat.le_refl _)
  have hsome : ∀ n ∈ ordered, ∃ v, direct f preds inp ordered.length n = some v := by
    intro n hn
    have hpos : 0 < ordered.length := List.length_pos_of_mem hn
    obtain ⟨l, hl⟩ : ∃ l, ordered.length = l + 1 := ⟨ordered.length - 1, by omega⟩
    rw [hl, direct_succ_of_none f preds inp l n (hout n hn)]
    exact ⟨_, rfl⟩
  refine ⟨?_, ?_, ?_⟩
  · intro n hn
    have h1 := hst n (by simpa using hn) (ordered.length + 1) (by omega)
    rw [direct_succ_of_none f preds inp _ n (hout n hn)] at h1
    show (direct f preds inp ordered.length n).getD default = _
    rw [← h1]
    simp only [Option.getD_some]
    congr 1
    apply List.map_congr_left
    intro p hpm
    rcases hp n hn p hpm with ⟨hpo, _⟩ | hi
    · obtain ⟨v, hv⟩ := hsome p hpo
      rw [hv]; rfl
    · obtain ⟨v, hv⟩ := Option.isSome_iff_exists.mp hi
      rw [direct_of_inp f preds inp _ p v hv]; rfl
  · intro n v hv
    rw [direct_of_inp f preds inp _ n v hv]; rfl
  · intro n hn k hk
    obtain ⟨v, hv⟩ := hsome n hn
    rw [hst n (by simpa using hn) k hk, hv]; rfl

end MxModel.CalcSteps
