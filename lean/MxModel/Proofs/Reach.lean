import MxModel.Proofs.ExecEdits
/-!
# `descsWith` is graph reachability (`nx.descendants` ∪ {source})

`Reach ge a x`: reflexive-transitive closure of the edge relation.
* `descs_sound`: everything `descsWith` returns is reachable;
* `descs_complete`: everything reachable is returned – the fuel (number of nodes) is
  always enough, given that edges only connect nodes of the graph.
-/
namespace MxModel.Exec

inductive Reach (ge : List (GNode × GNode)) (a : GNode) : GNode → Prop
  | refl : Reach ge a a
  | step {x y} : Reach ge a x → (x, y) ∈ ge → Reach ge a y

theorem mem_succsOf (ge : List (GNode × GNode)) (x y : GNode) : y ∈ succsOf ge x ↔ (x, y) ∈ ge := by
  unfold succsOf
  simp only [List.mem_map, List.mem_filter, beq_iff_eq]
  constructor
  · rintro ⟨e, ⟨he, h1⟩, h2⟩; obtain ⟨e1, e2⟩ := e; simp only [] at h1 h2; subst h1; subst h2; exact he
  · intro h; exact ⟨(x, y), ⟨h, rfl⟩, rfl⟩

theorem mem_eraseDups {α} [BEq α] [LawfulBEq α] (l : List α) (x : α) : x ∈ l.eraseDups ↔ x ∈ l := by
  exact List.mem_eraseDups

theorem reachFrom_sound (ge : List (GNode × GNode)) (a : GNode) :
    ∀ (fuel : Nat) (fr seen : List GNode),
      (∀ x ∈ fr, Reach ge a x) → (∀ x ∈ seen, Reach ge a x) →
      ∀ x ∈ reachFrom ge fuel fr seen, Reach ge a x := by
  intro fuel
  induction fuel with
  | zero => intro fr seen _ hs x hx; exact hs x hx
  | succ f ih =>
    intro fr seen hf hs x hx
    simp only [reachFrom] at hx
    split at hx
    · exact hs x hx
    · refine ih _ _ ?_ ?_ x hx
      · intro y hy
        simp only [List.mem_filter, mem_eraseDups, List.mem_flatMap] at hy
        obtain ⟨⟨z, hz, hzy⟩, _⟩ := hy
        exact Reach.step (hf z hz) ((mem_succsOf ge z y).mp hzy)
      · intro y hy
        simp only [List.mem_append, List.mem_filter, mem_eraseDups, List.mem_flatMap] at hy
        rcases hy with hy | ⟨⟨z, hz, hzy⟩, _⟩
        · exact hs y hy
        · exact Reach.step (hf z hz) ((mem_succsOf ge z y).mp hzy)

theorem descs_sound (s : St) (a x : GNode) (h : x ∈ s.descsWith a) : Reach s.ge a x := by
  unfold St.descsWith at h
  exact reachFrom_sound s.ge a _ _ _ (by intro y hy; simp at hy; subst hy; exact Reach.refl)
    (by intro y hy; simp at hy; subst hy; exact Reach.refl) x h

/-- a reachable node other than the source has an incoming edge -/
theorem Reach.pred {ge : List (GNode × GNode)} {a x : GNode} (h : Reach ge a x) (hne : x ≠ a) :
    ∃ y, (y, x) ∈ ge := by
  cases h with
  | refl => exact absurd rfl hne
  | step _ he => exact ⟨_, he⟩


/-! ### completeness: the fuel is enough -/

theorem filter_length_le {α} (l : List α) (p q : α → Bool) (hpq : ∀ x, q x = true → p x = true) :
    (l.filter q).length ≤ (l.filter p).length := by
  induction l with
  | nil => simp
  | cons a l ih =>
    simp only [List.filter]
    cases hq : q a with
    | true => simp only [hpq a hq, List.length_cons]; omega
    | false => cases hp : p a <;> simp only [List.length_cons] <;> omega

theorem filter_length_lt {α} (l : List α) (p q : α → Bool) (hpq : ∀ x, q x = true → p x = true)
    (y : α) (hy : y ∈ l) (hp : p y = true) (hq : q y = false) :
    (l.filter q).length < (l.filter p).length := by
  induction l with
  | nil => cases hy
  | cons a l ih =>
    simp only [List.mem_cons] at hy
    simp only [List.filter]
    rcases hy with rfl | hy
    · simp only [hp, hq, List.length_cons]
      have := filter_length_le l p q hpq
      omega
    · have := ih hy
      cases hq' : q a with
      | true => simp only [hpq a hq', List.length_cons]; omega
      | false => cases hp' : p a <;> simp only [List.length_cons] <;> omega

def unseen (gn seen : List GNode) : Nat := (gn.filter (fun x => !seen.contains x)).length

theorem reachFrom_complete (ge : List (GNode × GNode)) (gn : List GNode)
    (hedge : ∀ x y, (x, y) ∈ ge → y ∈ gn) (a : GNode) :
    ∀ (fuel : Nat) (fr seen : List GNode),
      (∀ x ∈ fr, x ∈ seen) →
      (∀ x ∈ seen, x ∉ fr → ∀ y, (x, y) ∈ ge → y ∈ seen) →
      a ∈ seen → unseen gn seen < fuel →
      ∀ x, Reach ge a x → x ∈ reachFrom ge fuel fr seen := by
  intro fuel
  induction fuel with
  | zero => intro fr seen _ _ _ h; omega
  | succ f ih =>
    intro fr seen hfs hclosed ha hfuel x hx
    simp only [reachFrom]
    have hnext : ∀ y, y ∈ ((fr.flatMap (succsOf ge)).eraseDups.filter (fun x => !seen.contains x)) ↔
        (∃ z ∈ fr, (z, y) ∈ ge) ∧ y ∉ seen := by
      intro y
      simp only [List.mem_filter, mem_eraseDups, List.mem_flatMap, mem_succsOf, Bool.not_eq_true',
        List.contains_eq_mem, decide_eq_false_iff_not]
    split
    · rename_i hempty
      -- `seen` is closed under successors
      have hcl : ∀ u ∈ seen, ∀ y, (u, y) ∈ ge → y ∈ seen := by
        intro u hu y huy
        by_cases huf : u ∈ fr
        · by_cases hys : y ∈ seen
          · exact hys
          · have : y ∈ ((fr.flatMap (succsOf ge)).eraseDups.filter (fun x => !seen.contains x)) :=
              (hnext y).mpr ⟨⟨u, huf, huy⟩, hys⟩
            rw [List.isEmpty_iff.mp hempty] at this; cases this
        · exact hclosed u hu huf y huy
      induction hx with
      | refl => exact ha
      | step _ he ih' => exact hcl _ ih' _ he
    · rename_i hne
      refine ih _ _ ?_ ?_ ?_ ?_ x hx
      · intro y hy; exact List.mem_append_right _ hy
      · intro u hu hunot y huy
        simp only [List.mem_append] at hu ⊢
        rcases hu with hu | hu
        · by_cases huf : u ∈ fr
          · by_cases hys : y ∈ seen
            · exact Or.inl hys
            · exact Or.inr ((hnext y).mpr ⟨⟨u, huf, huy⟩, hys⟩)
          · exact Or.inl (hclosed u hu huf y huy)
        · exact absurd hu hunot
      · simp [ha]
      · -- a new node of the graph became seen
        obtain ⟨y, hy⟩ : ∃ y, y ∈ ((fr.flatMap (succsOf ge)).eraseDups.filter (fun x => !seen.contains x)) := by
          cases hl : ((fr.flatMap (succsOf ge)).eraseDups.filter (fun x => !seen.contains x)) with
          | nil => rw [hl] at hne; simp at hne
          | cons y _ => exact ⟨y, by simp⟩
        obtain ⟨⟨z, _, hzy⟩, hys⟩ := (hnext y).mp hy
        have hlt : unseen gn (seen ++ ((fr.flatMap (succsOf ge)).eraseDups.filter (fun x => !seen.contains x))) <
            unseen gn seen := by
          unfold unseen
          refine filter_length_lt gn _ _ ?_ y (hedge z y hzy) (by simpa using hys) (by
            have : y ∈ seen ++ ((fr.flatMap (succsOf ge)).eraseDups.filter (fun x => !seen.contains x)) :=
              List.mem_append_right _ hy
            simp only [Bool.not_eq_false', List.contains_eq_mem, decide_eq_true_eq]
            simpa using this)
          intro w hw
          simp only [Bool.not_eq_true', List.contains_eq_mem, decide_eq_false_iff_not, List.mem_append,
            not_or] at hw ⊢
          exact hw.1
        omega

theorem descs_complete (s : St) (hedge : ∀ x y, (x, y) ∈ s.ge → y ∈ s.gn) (a x : GNode)
    (ha : a ∈ s.gn) (h : Reach s.ge a x) : x ∈ s.descsWith a := by
  unfold St.descsWith
  refine reachFrom_complete s.ge s.gn hedge a _ _ _ (by simp) (by intro u hu hn; simp at hu; subst hu; simp at hn)
    (by simp) ?_ x h
  -- at least the source is already seen
  unfold unseen
  have h1 : (s.gn.filter (fun x => !([a] : List GNode).contains x)).length < (s.gn.filter (fun _ => true)).length :=
    filter_length_lt s.gn _ _ (by intro _ _; rfl) a ha rfl (by simp)
  have h2 : (s.gn.filter (fun _ => true)).length = s.gn.length := by simp
  omega

/-- `descsWith` is exactly reachability -/
theorem descs_iff (s : St) (hedge : ∀ x y, (x, y) ∈ s.ge → y ∈ s.gn) (a x : GNode) (ha : a ∈ s.gn) :
    x ∈ s.descsWith a ↔ Reach s.ge a x :=
  ⟨descs_sound s a x, descs_complete s hedge a x ha⟩

end MxModel.Exec
