import MxModel.Kernels.PathCodec
/-! Helper lemmas for `Props/C04.lean` about `Kernels/PathCodec.lean`. -/
namespace MxModel.PathCodec

/-! ### shared prefix -/

theorem sharedLen_le_left {α : Type} [DecidableEq α] (tg ns : List α) :
    sharedLen tg ns ≤ tg.length := by
  induction tg generalizing ns with
  | nil => simp [sharedLen]
  | cons t ts ih =>
    cases ns with
    | nil => simp [sharedLen]
    | cons n ns =>
      simp only [sharedLen]
      split
      · have := ih ns; simp; omega
      · simp

theorem sharedLen_le_right {α : Type} [DecidableEq α] (tg ns : List α) :
    sharedLen tg ns ≤ ns.length := by
  induction tg generalizing ns with
  | nil => simp [sharedLen]
  | cons t ts ih =>
    cases ns with
    | nil => simp [sharedLen]
    | cons n ns =>
      simp only [sharedLen]
      split
      · have := ih ns; simp; omega
      · simp

/-- the two paths agree on their first `sharedLen` elements -/
theorem take_sharedLen {α : Type} [DecidableEq α] (tg ns : List α) :
    ns.take (sharedLen tg ns) = tg.take (sharedLen tg ns) := by
  induction tg generalizing ns with
  | nil => simp [sharedLen]
  | cons t ts ih =>
    cases ns with
    | nil => simp [sharedLen]
    | cons n ns =>
      simp only [sharedLen]
      split
      · rename_i h; subst h; simp [ih ns]
      · simp

/-- …and differ right after, when both go on -/
theorem sharedLen_maximal {α : Type} [DecidableEq α] (tg ns : List α) (a b : α)
    (ha : tg[sharedLen tg ns]? = some a) (hb : ns[sharedLen tg ns]? = some b) : a ≠ b := by
  induction tg generalizing ns with
  | nil => simp at ha
  | cons t ts ih =>
    cases ns with
    | nil => simp at hb
    | cons n ns =>
      simp only [sharedLen] at ha hb
      split at ha
      · rename_i h
        rw [if_pos h] at hb
        simp at ha hb
        exact ih ns ha hb
      · rename_i h
        rw [if_neg h] at hb
        simp at ha hb
        subst ha; subst hb; exact h

/-! ### Python slices -/

theorem pySliceTo_natCast {α : Type} (xs : List α) (k : Nat) : pySliceTo xs (k : Int) = xs.take k := by
  unfold pySliceTo
  have : ¬ ((k : Int) < 0) := by omega
  simp [this]

/-- `ns[: nslen - (nslen - shared + 1) + 1] = ns[:shared]` for `shared ≤ nslen` -/
theorem pySliceTo_shared {α : Type} (ns : List α) (s : Nat) (h : s ≤ ns.length) :
    pySliceTo ns ((ns.length : Int) - ((ns.length - s + 1 : Nat) : Int) + 1) = ns.take s := by
  have : (ns.length : Int) - ((ns.length - s + 1 : Nat) : Int) + 1 = (s : Int) := by omega
  rw [this, pySliceTo_natCast]

/-! ### split / join -/

theorem splitDot_ne_nil (s : List Char) : splitDot s ≠ [] := by
  cases s with
  | nil => simp [splitDot]
  | cons c cs =>
    simp only [splitDot]
    split
    · simp
    · split <;> simp

theorem splitDot_length_pos (s : List Char) : 0 < (splitDot s).length :=
  List.length_pos_iff.mpr (splitDot_ne_nil s)

/-- no component produced by `split(".")` contains a dot -/
theorem splitDot_dotfree (s : List Char) : ∀ w ∈ splitDot s, '.' ∉ w := by
  induction s with
  | nil => simp [splitDot]
  | cons c cs ih =>
    simp only [splitDot]
    split
    · intro w hw
      simp only [List.mem_cons] at hw
      rcases hw with rfl | hw
      · simp
      · exact ih w hw
    · rename_i hc
      split
      · intro w hw; simp at hw; subst hw; simp; exact fun h => hc h.symm
      · rename_i w0 ws heq
        intro w hw
        simp only [List.mem_cons] at hw
        rcases hw with rfl | hw
        · have := ih w0 (by rw [heq]; simp)
          simp only [List.mem_cons, not_or]
          exact ⟨fun h => hc h.symm, this⟩
        · exact ih w (by rw [heq]; simp [hw])

theorem joinDot_cons_cons (w w' : List Char) (ws : List (List Char)) :
    joinDot (w :: w' :: ws) = w ++ '.' :: joinDot (w' :: ws) := rfl

/-- `".".join(s.split(".")) == s` -/
theorem joinDot_splitDot (s : List Char) : joinDot (splitDot s) = s := by
  induction s with
  | nil => simp [splitDot, joinDot]
  | cons c cs ih =>
    simp only [splitDot]
    split
    · rename_i hc
      have hne := splitDot_ne_nil cs
      cases hsp : splitDot cs with
      | nil => exact absurd hsp hne
      | cons w ws =>
        rw [hsp] at ih
        rw [joinDot_cons_cons, ih, hc]; simp
    · have hne := splitDot_ne_nil cs
      cases hsp : splitDot cs with
      | nil => exact absurd hsp hne
      | cons w ws =>
        rw [hsp] at ih
        simp only
        cases ws with
        | nil => simp [joinDot] at ih ⊢; exact ih
        | cons w' ws' =>
          rw [joinDot_cons_cons] at ih ⊢
          simp [ih]

theorem splitDot_dotfree_word (w : List Char) (h : '.' ∉ w) : splitDot w = [w] := by
  induction w with
  | nil => simp [splitDot]
  | cons c cs ih =>
    simp only [List.mem_cons, not_or] at h
    have hc : ¬ c = '.' := fun e => h.1 e.symm
    simp [splitDot, hc, ih h.2]

theorem splitDot_append_dot (w rest : List Char) (h : '.' ∉ w) :
    splitDot (w ++ '.' :: rest) = w :: splitDot rest := by
  induction w with
  | nil => simp [splitDot]
  | cons c cs ih =>
    simp only [List.mem_cons, not_or] at h
    have hc : ¬ c = '.' := fun e => h.1 e.symm
    simp [splitDot, hc, ih h.2]

/-- `".".join(ws).split(".") == ws` for a non-empty list of dot-free words -/
theorem splitDot_joinDot (ws : List (List Char)) (hne : ws ≠ []) (hfree : ∀ w ∈ ws, '.' ∉ w) :
    splitDot (joinDot ws) = ws := by
  induction ws with
  | nil => exact absurd rfl hne
  | cons w rest ih =>
    cases rest with
    | nil => simpa [joinDot] using splitDot_dotfree_word w (hfree w (by simp))
    | cons w' ws' =>
      rw [joinDot_cons_cons, splitDot_append_dot w _ (hfree w (by simp))]
      rw [ih (by simp) (fun x hx => hfree x (by simp [hx]))]

/-! ### leading dots -/

theorem leadingDots_dotsStr_append (n : Nat) (rest : List Char) :
    leadingDots (dotsStr n ++ rest) = n + leadingDots rest := by
  induction n with
  | zero => simp [dotsStr]
  | succ k ih =>
    simp only [dotsStr] at ih ⊢
    simp [List.replicate_succ, leadingDots, ih]; omega

theorem leadingDots_nil : leadingDots [] = 0 := rfl

/-- a join that starts with a non-empty dot-free word starts with a non-dot -/
theorem leadingDots_joinDot (w : List Char) (ws : List (List Char)) (hw : w ≠ []) (hf : '.' ∉ w) :
    leadingDots (joinDot (w :: ws)) = 0 := by
  cases w with
  | nil => exact absurd rfl hw
  | cons c cs =>
    simp only [List.mem_cons, not_or] at hf
    have hc : ¬ c = '.' := fun e => hf.1 e.symm
    cases ws with
    | nil => simp [joinDot, leadingDots, hc]
    | cons w' ws' => simp [joinDot_cons_cons, leadingDots, hc]

theorem joinDot_cons_ne_nil (w : List Char) (ws : List (List Char)) (hw : w ≠ []) :
    joinDot (w :: ws) ≠ [] := by
  cases ws with
  | nil => simpa [joinDot] using hw
  | cons w' ws' => simp [joinDot_cons_cons]

theorem drop_dotsStr_append (n : Nat) (rest : List Char) : (dotsStr n ++ rest).drop n = rest := by
  have : (dotsStr n).length = n := by simp [dotsStr]
  rw [List.drop_append_of_le_length (by omega)]
  simp [List.drop_eq_nil_of_le, this]

theorem allDots_dotsStr (n : Nat) : allDots (dotsStr n) = true := by
  simp [allDots, dotsStr]


deriving instance DecidableEq for Except

/-- The arithmetic core of the string round trip, on the split lists: `tg`/`nsl` are the
names of target and namespace, `s` their shared prefix length. -/
theorem roundtrip_core (tg nsl : List (List Char)) (s : Nat)
    (h1 : s ≤ tg.length) (h2 : s ≤ nsl.length) (htake : nsl.take s = tg.take s)
    (hfree : ∀ w ∈ tg, '.' ∉ w) (hfresh : ∀ w, (tg.drop s).head? = some w → w ≠ []) :
    joinDot (pySliceTo nsl ((nsl.length : Int)
        - (leadingDots (dotsStr (nsl.length - s + 1) ++ joinDot (tg.drop (tg.length - (tg.length - s)))) : Nat) + 1)
      ++ (if leadingDots (dotsStr (nsl.length - s + 1) ++ joinDot (tg.drop (tg.length - (tg.length - s))))
            < (dotsStr (nsl.length - s + 1) ++ joinDot (tg.drop (tg.length - (tg.length - s)))).length
          then splitDot ((dotsStr (nsl.length - s + 1) ++ joinDot (tg.drop (tg.length - (tg.length - s)))).drop
            (leadingDots (dotsStr (nsl.length - s + 1) ++ joinDot (tg.drop (tg.length - (tg.length - s))))))
          else []))
    = joinDot tg := by
  have hidx : tg.length - (tg.length - s) = s := by omega
  rw [hidx]
  cases hd : tg.drop s with
  | nil =>
    have hl : leadingDots (dotsStr (nsl.length - s + 1) ++ joinDot []) = nsl.length - s + 1 := by
      have := leadingDots_dotsStr_append (nsl.length - s + 1) []
      simpa [joinDot, leadingDots] using this
    have hlen : (dotsStr (nsl.length - s + 1) ++ joinDot []).length = nsl.length - s + 1 := by
      simp [joinDot, dotsStr]
    rw [hl, hlen, if_neg (by omega), pySliceTo_shared _ _ h2, htake, List.append_nil]
    have : tg.take s = tg := by
      have := List.take_append_drop s tg
      rw [hd, List.append_nil] at this; exact this
    rw [this]
  | cons w ws =>
    have hmem : ∀ x ∈ w :: ws, x ∈ tg := by
      intro x hx; rw [← hd] at hx; exact List.mem_of_mem_drop hx
    have hw : w ≠ [] := hfresh w (by rw [hd]; rfl)
    have hf : '.' ∉ w := hfree w (hmem w (by simp))
    have hl : leadingDots (dotsStr (nsl.length - s + 1) ++ joinDot (w :: ws)) = nsl.length - s + 1 := by
      rw [leadingDots_dotsStr_append, leadingDots_joinDot w ws hw hf]
    have hpos : 0 < (joinDot (w :: ws)).length :=
      List.length_pos_iff.mpr (joinDot_cons_ne_nil w ws hw)
    have hlen : nsl.length - s + 1 < (dotsStr (nsl.length - s + 1) ++ joinDot (w :: ws)).length := by
      simp [dotsStr]; omega
    rw [hl, if_pos hlen, drop_dotsStr_append, pySliceTo_shared _ _ h2, htake,
      splitDot_joinDot _ (by simp) (fun x hx => hfree x (hmem x hx)), ← hd, List.take_append_drop]

end MxModel.PathCodec
