import MxModel.Kernels.CalcSteps
/-!
# Helper lemmas about `Kernels/CalcSteps.lean`

1. the two inner loops in closed form (`classify` = three filters, `sweep` = two filters);
2. the `while` loop in closed form: iteration `k` is `stepOut … k (pastedAt k)` for exactly the
   `k` with `k * size < len`; the fuel is irrelevant for `size ≥ 1`;
3. slices: the blocks are consecutive slices; `take (k*size)` = blocks `< k`;
4. topological orders: successors stay inside every suffix;
5. the bookkeeping invariant of `pasted` / `clear` as a counting identity.
-/
namespace MxModel.CalcSteps

/-! ## 1. inner loops -/

/-- the decision of the first inner loop: paste here? -/
def pasteHere (succs : Node → List Node) (targets block : List Node) (n : Node) : Bool :=
  decide (n ∈ targets) || hasSuccOutside succs block n

theorem hasSuccOutside_false {succs : Node → List Node} {inside : List Node} {n : Node} :
    hasSuccOutside succs inside n = false ↔ ∀ s ∈ succs n, s ∈ inside := by
  simp [hasSuccOutside]

theorem hasSuccOutside_true {succs : Node → List Node} {inside : List Node} {n : Node} :
    hasSuccOutside succs inside n = true ↔ ∃ s ∈ succs n, s ∉ inside := by
  simp [hasSuccOutside]

theorem classify_eq (succs : Node → List Node) (targets block : List Node) (l : List Node) (c : Cur) :
    classify succs targets block l c =
      { paste := c.paste ++ l.filter (pasteHere succs targets block),
        clear := c.clear ++ l.filter (fun n => !pasteHere succs targets block n),
        targets := c.targets ++ l.filter (fun n => decide (n ∈ targets)) } := by
  induction l generalizing c with
  | nil => simp [classify]
  | cons n ns ih =>
    unfold classify
    by_cases ht : n ∈ targets
    · simp [ht, ih, pasteHere]
    · by_cases hs : hasSuccOutside succs block n = true
      · simp [ht, hs, ih, pasteHere]
      · simp [ht, hs, ih, pasteHere]

theorem sweep_eq (succs : Node → List Node) (accum : List Node) (copy done clear : List Node)
    (hd : ∀ x ∈ done, hasSuccOutside succs accum x = true) :
    sweep succs accum copy (done ++ copy) clear =
      (done ++ copy.filter (hasSuccOutside succs accum),
       clear ++ copy.filter (fun n => !hasSuccOutside succs accum n)) := by
  induction copy generalizing done clear with
  | nil => simp [sweep]
  | cons n cs ih =>
    unfold sweep
    by_cases hk : hasSuccOutside succs accum n = true
    · have h := ih (done ++ [n]) clear (by
        intro x hx
        rcases List.mem_append.mp hx with hx | hx
        · exact hd x hx
        · simp at hx; subst hx; exact hk)
      simp only [List.append_assoc, List.singleton_append] at h
      simp [hk, h]
    · have hn : n ∉ done := fun hmem => hk (hd n hmem)
      have he : (done ++ n :: cs).erase n = done ++ cs := by
        rw [List.erase_append_right _ hn]; simp
      simp only [hk, Bool.false_eq_true, if_false, he]
      rw [ih done (clear ++ [n]) hd]
      simp [hk]

theorem sweep_eq' (succs : Node → List Node) (accum pasted clear : List Node) :
    sweep succs accum pasted pasted clear =
      (pasted.filter (hasSuccOutside succs accum),
       clear ++ pasted.filter (fun n => !hasSuccOutside succs accum n)) := by
  have := sweep_eq succs accum pasted [] clear (by simp)
  simpa using this

/-! `stepOut` field by field -/
section stepOut
variable (ordered : List Node) (succs : Node → List Node) (targets : List Node) (size : Nat)

theorem stepOut_block (k : Nat) (p : List Node) :
    (stepOut ordered succs targets size k p).block = curBlock ordered size k := rfl

theorem stepOut_paste (k : Nat) (p : List Node) :
    (stepOut ordered succs targets size k p).paste =
      ((curBlock ordered size k).filter
        (pasteHere succs targets (curBlock ordered size k))).reverse := by
  simp [stepOut, classify_eq]

theorem stepOut_clear (k : Nat) (p : List Node) :
    (stepOut ordered succs targets size k p).clear =
      (curBlock ordered size k).filter
          (fun n => !pasteHere succs targets (curBlock ordered size k) n)
        ++ p.filter (fun n => !hasSuccOutside succs (accumNodes ordered size k) n) := by
  simp [stepOut, classify_eq, sweep_eq']

theorem stepOut_pasted (k : Nat) (p : List Node) :
    (stepOut ordered succs targets size k p).pasted =
      p.filter (hasSuccOutside succs (accumNodes ordered size k))
        ++ (curBlock ordered size k).filter
            (fun n => !decide (n ∈ targets) && hasSuccOutside succs (curBlock ordered size k) n) := by
  simp only [stepOut, classify_eq, sweep_eq', List.nil_append, List.filter_filter]
  congr 1
  apply List.filter_congr
  intro n hn
  by_cases ht : n ∈ targets
  · simp [ht, pasteHere, hn]
  · simp [ht, pasteHere]

end stepOut

/-! ## 2. the while loop in closed form -/

/-- `pasted` on entry of iteration `k` -/
def pastedAt (ordered : List Node) (succs : Node → List Node) (targets : List Node) (size : Nat) :
    Nat → List Node
  | 0 => []
  | k + 1 => (stepOut ordered succs targets size k (pastedAt ordered succs targets size k)).pasted

/-- iteration `k` of the loop -/
def stepAt (ordered : List Node) (succs : Node → List Node) (targets : List Node) (size k : Nat) :
    StepOut :=
  stepOut ordered succs targets size k (pastedAt ordered succs targets size k)

section loop
variable (ordered : List Node) (succs : Node → List Node) (targets : List Node) (size : Nat)

theorem steps_getElem? (hz : 1 ≤ size) (fuel step k : Nat)
    (hf : ordered.length ≤ step * size + fuel) :
    (steps ordered succs targets size fuel step (pastedAt ordered succs targets size step)).1[k]? =
      if (step + k) * size < ordered.length then some (stepAt ordered succs targets size (step + k))
      else none := by
  induction fuel generalizing step k with
  | zero =>
    have : ¬ (step + k) * size < ordered.length := by
      rw [Nat.add_mul]; omega
    simp [steps, this]
  | succ fuel ih =>
    unfold steps
    by_cases hc : step * size < ordered.length
    · simp only [hc, if_true]
      cases k with
      | zero => simp [hc, stepAt]
      | succ k =>
        have hf' : ordered.length ≤ (step + 1) * size + fuel := by
          rw [Nat.add_mul]; omega
        have := ih (step + 1) k hf'
        simp only [pastedAt] at this
        simp only [List.getElem?_cons_succ]
        rw [this]
        have e : step + 1 + k = step + (k + 1) := by omega
        rw [e]
    · have : ¬ (step + k) * size < ordered.length := by
        rw [Nat.add_mul]; omega
      simp [hc, this]

theorem steps_final (fuel step : Nat) :
    (steps ordered succs targets size fuel step (pastedAt ordered succs targets size step)).2 =
      pastedAt ordered succs targets size
        (step + (steps ordered succs targets size fuel step
          (pastedAt ordered succs targets size step)).1.length) := by
  induction fuel generalizing step with
  | zero => simp [steps]
  | succ fuel ih =>
    unfold steps
    by_cases hc : step * size < ordered.length
    · simp only [hc, if_true, List.length_cons]
      have := ih (step + 1)
      simp only [pastedAt] at this
      rw [this]
      congr 1; omega
    · simp [hc]

/-- number of iterations of the loop -/
def nSteps : Nat := (planSteps ordered succs targets size).length

theorem planSteps_getElem? (hz : 1 ≤ size) (k : Nat) :
    (planSteps ordered succs targets size)[k]? =
      if k * size < ordered.length then some (stepAt ordered succs targets size k) else none := by
  have := steps_getElem? ordered succs targets size hz ordered.length 0 k (by omega)
  simpa [planSteps, pastedAt] using this

theorem lt_nSteps (hz : 1 ≤ size) (k : Nat) :
    k < nSteps ordered succs targets size ↔ k * size < ordered.length := by
  have h := planSteps_getElem? ordered succs targets size hz k
  unfold nSteps
  constructor
  · intro hk
    by_cases hc : k * size < ordered.length
    · exact hc
    · rw [if_neg hc] at h
      have := List.getElem?_eq_none_iff.mp h
      omega
  · intro hc
    rw [if_pos hc] at h
    by_cases hk : k < (planSteps ordered succs targets size).length
    · exact hk
    · have := List.getElem?_eq_none_iff.mpr (Nat.le_of_not_lt hk)
      rw [this] at h; cases h

theorem planSteps_eq_map (hz : 1 ≤ size) :
    planSteps ordered succs targets size =
      (List.range (nSteps ordered succs targets size)).map (stepAt ordered succs targets size) := by
  apply List.ext_getElem?
  intro k
  rw [planSteps_getElem? ordered succs targets size hz k]
  by_cases hc : k * size < ordered.length
  · have hk := (lt_nSteps ordered succs targets size hz k).mpr hc
    simp [hc, hk]
  · have hk : ¬ k < nSteps ordered succs targets size :=
      fun h => hc ((lt_nSteps ordered succs targets size hz k).mp h)
    simp [hc, hk]

theorem finalPasted_eq :
    finalPasted ordered succs targets size =
      pastedAt ordered succs targets size (nSteps ordered succs targets size) := by
  have := steps_final ordered succs targets size ordered.length 0
  simpa [finalPasted, nSteps, planSteps, pastedAt] using this

/-- the loop is left because its condition fails, not because the fuel ran out -/
theorem nSteps_covers (hz : 1 ≤ size) :
    ordered.length ≤ nSteps ordered succs targets size * size := by
  have := (lt_nSteps ordered succs targets size hz (nSteps ordered succs targets size))
  have h2 : ¬ nSteps ordered succs targets size * size < ordered.length :=
    fun h => Nat.lt_irrefl _ (this.mpr h)
  omega

end loop

/-! ## 3. slices -/

theorem accum_succ (ordered : List Node) (size k : Nat) :
    accumNodes ordered size k = ordered.take (k * size) ++ curBlock ordered size k := by
  simp [accumNodes, curBlock, Nat.add_mul, List.take_add]

theorem accum_eq_take_succ (ordered : List Node) (size k : Nat) :
    accumNodes ordered size k = ordered.take ((k + 1) * size) := rfl

theorem block_sub_accum {ordered : List Node} {size k : Nat} {n : Node}
    (h : n ∈ curBlock ordered size k) : n ∈ accumNodes ordered size k := by
  rw [accum_succ]; exact List.mem_append_right _ h

theorem mem_take_mono {l : List Node} {a b : Nat} (hab : a ≤ b) {n : Node} (h : n ∈ l.take a) :
    n ∈ l.take b := by
  have e : b = a + (b - a) := by omega
  rw [e, List.take_add]; exact List.mem_append_left _ h

theorem mem_drop_mono {l : List Node} {a b : Nat} (hab : a ≤ b) {n : Node} (h : n ∈ l.drop b) :
    n ∈ l.drop a := by
  have e : b = a + (b - a) := by omega
  rw [e, ← List.drop_drop] at h
  exact List.mem_of_mem_drop h

theorem block_sub_drop {ordered : List Node} {size k : Nat} {n : Node}
    (h : n ∈ curBlock ordered size k) : n ∈ ordered.drop (k * size) :=
  List.mem_of_mem_take h

theorem mem_of_mem_block {ordered : List Node} {size k : Nat} {n : Node}
    (h : n ∈ curBlock ordered size k) : n ∈ ordered :=
  List.mem_of_mem_drop (block_sub_drop h)

/-- `take (k*size)` is the union of the blocks `< k` -/
theorem mem_take_blocks {ordered : List Node} {size : Nat} {n : Node} (k : Nat) :
    n ∈ ordered.take (k * size) ↔ ∃ j, j < k ∧ n ∈ curBlock ordered size j := by
  induction k with
  | zero => simp
  | succ k ih =>
    have e := accum_succ ordered size k
    rw [accum_eq_take_succ] at e
    rw [e, List.mem_append, ih]
    constructor
    · rintro (⟨j, hj, hm⟩ | hm)
      · exact ⟨j, by omega, hm⟩
      · exact ⟨k, by omega, hm⟩
    · rintro ⟨j, hj, hm⟩
      by_cases hjk : j = k
      · subst hjk; exact Or.inr hm
      · exact Or.inl ⟨j, by omega, hm⟩

/-- with distinct elements, what is in block `k` is not in the slices before or after it -/
theorem nodup_take_drop_disjoint {l : List Node} (hn : l.Nodup) (m : Nat) {n : Node}
    (h1 : n ∈ l.take m) (h2 : n ∈ l.drop m) : False := by
  rw [← List.take_append_drop m l] at hn
  exact (List.nodup_append.mp hn).2.2 n h1 n h2 rfl

/-! ## 4. topological orders -/

theorem isTopo_cons {succs : Node → List Node} {n : Node} {post : List Node} :
    isTopo succs (n :: post) = true ↔ (∀ s ∈ succs n, s ∈ post) ∧ isTopo succs post = true := by
  simp [isTopo]

theorem isTopo_drop {succs : Node → List Node} {l : List Node} (h : isTopo succs l = true) (m : Nat) :
    isTopo succs (l.drop m) = true := by
  induction m generalizing l with
  | zero => simpa using h
  | succ m ih =>
    cases l with
    | nil => simp [isTopo]
    | cons n post => simp only [List.drop_succ_cons]; exact ih (isTopo_cons.mp h).2

/-- successors of a member are members (later ones) -/
theorem isTopo_closed {succs : Node → List Node} {l : List Node} (h : isTopo succs l = true)
    {n s : Node} (hn : n ∈ l) (hs : s ∈ succs n) : s ∈ l := by
  induction l with
  | nil => cases hn
  | cons a post ih =>
    have h' := isTopo_cons.mp h
    rcases List.mem_cons.mp hn with rfl | hn
    · exact List.mem_cons_of_mem _ (h'.1 s hs)
    · exact List.mem_cons_of_mem _ (ih h'.2 hn)

theorem isTopo_suffix_closed {succs : Node → List Node} {l : List Node} (h : isTopo succs l = true)
    (m : Nat) {n s : Node} (hn : n ∈ l.drop m) (hs : s ∈ succs n) : s ∈ l.drop m :=
  isTopo_closed (isTopo_drop h m) hn hs

/-- with distinct elements a successor is never the node itself or an earlier one -/
theorem isTopo_pred_before {succs : Node → List Node} {l : List Node} (h : isTopo succs l = true)
    (hd : l.Nodup) (m : Nat) {p n : Node} (hp : p ∈ l) (hn : n ∈ l.take m) (hs : n ∈ succs p) :
    p ∈ l.take m := by
  have hp' := hp
  rw [← List.take_append_drop m l, List.mem_append] at hp'
  rcases hp' with hp' | hp'
  · exact hp'
  · exact (nodup_take_drop_disjoint hd m hn (isTopo_suffix_closed h m hp' hs)).elim

/-! ## 5. bookkeeping of `pasted` and `clear` -/

theorem count_filter_ite (p : Node → Bool) (a : Node) (l : List Node) :
    (l.filter p).count a = if p a = true then l.count a else 0 := by
  by_cases h : p a = true
  · simp [h, List.count_filter h]
  · have hz : (l.filter p).count a = 0 := by
      rw [List.count_eq_zero]
      intro hm
      exact h (List.mem_filter.mp hm).2
    simp [h, hz]

section bookkeeping
variable (ordered : List Node) (succs : Node → List Node) (targets : List Node) (size : Nat)

/-- all nodes put into `clear` lists by the iterations `< k` -/
def clearedBefore (k : Nat) : List Node :=
  ((List.range k).map (fun i => (stepAt ordered succs targets size i).clear)).flatten

theorem clearedBefore_succ (k : Nat) :
    clearedBefore ordered succs targets size (k + 1) =
      clearedBefore ordered succs targets size k ++ (stepAt ordered succs targets size k).clear := by
  simp [clearedBefore, List.range_succ]

theorem mem_clearedBefore {k : Nat} {n : Node} :
    n ∈ clearedBefore ordered succs targets size k ↔
      ∃ i, i < k ∧ n ∈ (stepAt ordered succs targets size i).clear := by
  simp only [clearedBefore, List.mem_flatten, List.mem_map, List.mem_range]
  constructor
  · rintro ⟨l, ⟨i, hi, rfl⟩, hn⟩; exact ⟨i, hi, hn⟩
  · rintro ⟨i, hi, hn⟩; exact ⟨_, ⟨i, hi, rfl⟩, hn⟩

/-- one iteration moves every non-target of the block either to `clear` or to `pasted`, and
every pasted node either to `clear` or keeps it: nothing is lost or duplicated. -/
theorem step_count (k : Nat) (p : List Node) (a : Node) :
    (stepOut ordered succs targets size k p).clear.count a
      + (stepOut ordered succs targets size k p).pasted.count a
      = p.count a + ((curBlock ordered size k).filter (fun n => !decide (n ∈ targets))).count a := by
  rw [stepOut_clear, stepOut_pasted]
  simp only [List.count_append, count_filter_ite, pasteHere]
  by_cases ht : a ∈ targets <;>
    by_cases h1 : hasSuccOutside succs (curBlock ordered size k) a = true <;>
    by_cases h2 : hasSuccOutside succs (accumNodes ordered size k) a = true <;>
    simp [ht, h1, h2] <;> omega

/-- the counting invariant of the loop -/
theorem cleared_pasted_count (k : Nat) (a : Node) :
    (clearedBefore ordered succs targets size k).count a
      + (pastedAt ordered succs targets size k).count a
      = ((ordered.take (k * size)).filter (fun n => !decide (n ∈ targets))).count a := by
  induction k with
  | zero => simp [clearedBefore, pastedAt]
  | succ k ih =>
    have hs := step_count ordered succs targets size k (pastedAt ordered succs targets size k) a
    have e := accum_succ ordered size k
    rw [accum_eq_take_succ] at e
    rw [clearedBefore_succ, e]
    simp only [List.count_append, List.filter_append, pastedAt, stepAt] at *
    omega

theorem pastedAt_sub (k : Nat) {n : Node} (h : n ∈ pastedAt ordered succs targets size k) :
    n ∈ ordered.take (k * size) ∧ n ∉ targets := by
  have hc := cleared_pasted_count ordered succs targets size k n
  have hpos : 0 < (pastedAt ordered succs targets size k).count n := List.count_pos_iff.mpr h
  have : 0 < ((ordered.take (k * size)).filter (fun n => !decide (n ∈ targets))).count n := by omega
  have hm := List.mem_filter.mp (List.count_pos_iff.mp this)
  exact ⟨hm.1, by simpa using hm.2⟩

/-- a node is put into `clear` only when all its successors are in `ordered[:stop]` -/
theorem clear_succs_in_accum (k : Nat) (p : List Node) {n s : Node}
    (h : n ∈ (stepOut ordered succs targets size k p).clear) (hs : s ∈ succs n) :
    s ∈ accumNodes ordered size k := by
  rw [stepOut_clear, List.mem_append] at h
  rcases h with h | h
  · have h2 := (List.mem_filter.mp h).2
    simp only [pasteHere, Bool.not_eq_true', Bool.or_eq_false_iff] at h2
    exact block_sub_accum (hasSuccOutside_false.mp h2.2 s hs)
  · have h2 := (List.mem_filter.mp h).2
    simp only [Bool.not_eq_true'] at h2
    exact hasSuccOutside_false.mp h2 s hs

/-- under a topological order the last iteration empties `pasted` -/
theorem pastedAt_last_nil (ht : isTopo succs ordered = true) (k : Nat)
    (hlast : ordered.length ≤ (k + 1) * size) :
    pastedAt ordered succs targets size (k + 1) = [] := by
  have hacc : accumNodes ordered size k = ordered := by
    rw [accum_eq_take_succ]; exact List.take_of_length_le hlast
  have hblk : curBlock ordered size k = ordered.drop (k * size) := by
    unfold curBlock
    apply List.take_of_length_le
    rw [List.length_drop, Nat.add_mul] at *; omega
  simp only [pastedAt]
  rw [stepOut_pasted, hacc, hblk]
  rw [List.append_eq_nil_iff]
  constructor
  · rw [List.filter_eq_nil_iff]
    intro n hn
    have hmem := List.mem_of_mem_take (pastedAt_sub ordered succs targets size k hn).1
    have : hasSuccOutside succs ordered n = false :=
      hasSuccOutside_false.mpr (fun s hs => isTopo_closed ht hmem hs)
    simp [this]
  · rw [List.filter_eq_nil_iff]
    intro n hn
    have : hasSuccOutside succs (ordered.drop (k * size)) n = false :=
      hasSuccOutside_false.mpr (fun s hs => isTopo_suffix_closed ht _ hn hs)
    simp [this]

theorem finalPasted_nil (hz : 1 ≤ size) (ht : isTopo succs ordered = true) :
    finalPasted ordered succs targets size = [] := by
  rw [finalPasted_eq]
  have hcov := nSteps_covers ordered succs targets size hz
  cases hN : nSteps ordered succs targets size with
  | zero => simp [pastedAt]
  | succ k =>
    rw [hN] at hcov
    exact pastedAt_last_nil ordered succs targets size ht k hcov

end bookkeeping

/-! projections of the flattened action list -/
theorem calcBlocks_flatMap (l : List StepOut) :
    calcBlocks (l.flatMap StepOut.actions) = l.map (·.block) := by
  induction l with
  | nil => simp [calcBlocks]
  | cons o l ih => simp [StepOut.actions, calcBlocks, ih]

theorem pasteLists_flatMap (l : List StepOut) :
    pasteLists (l.flatMap StepOut.actions) = l.map (·.paste) := by
  induction l with
  | nil => simp [pasteLists]
  | cons o l ih => simp [StepOut.actions, pasteLists, ih]

theorem clearLists_flatMap (l : List StepOut) :
    clearLists (l.flatMap StepOut.actions) = l.map (·.clear) := by
  induction l with
  | nil => simp [clearLists]
  | cons o l ih => simp [StepOut.actions, clearLists, ih]

/-- the concatenation of the first `k` blocks -/
theorem blocks_flatten (ordered : List Node) (size k : Nat) :
    ((List.range k).map (curBlock ordered size)).flatten = ordered.take (k * size) := by
  induction k with
  | zero => simp
  | succ k ih =>
    have e := accum_succ ordered size k
    rw [accum_eq_take_succ] at e
    simp [List.range_succ, ih, e]

/-! the plan's calc blocks and clear lists by index -/
/-- the calc blocks of the plan, by index -/
theorem blocks_get (ordered : List Node) (succs : Node → List Node) (targets : List Node)
    (size : Nat) (hz : 1 ≤ size) (k : Nat) :
    (calcBlocks (calcSteps ordered succs targets size))[k]? =
      if k * size < ordered.length then some ((ordered.drop (k * size)).take size) else none := by
  unfold calcSteps
  rw [calcBlocks_flatMap, List.getElem?_map, planSteps_getElem? ordered succs targets size hz k]
  by_cases hc : k * size < ordered.length
  · simp [hc, stepAt, stepOut_block, curBlock]
  · simp [hc]

/-- (3) index form of the clear lists -/
theorem clears_get (ordered : List Node) (succs : Node → List Node) (targets : List Node)
    (size : Nat) (hz : 1 ≤ size) (k : Nat) :
    (clearLists (calcSteps ordered succs targets size))[k]? =
      if k * size < ordered.length then some (stepAt ordered succs targets size k).clear
      else none := by
  unfold calcSteps
  rw [clearLists_flatMap, List.getElem?_map, planSteps_getElem? ordered succs targets size hz k]
  by_cases hc : k * size < ordered.length <;> simp [hc]

theorem clears_flatten (ordered : List Node) (succs : Node → List Node) (targets : List Node)
    (size : Nat) (hz : 1 ≤ size) :
    (clearLists (calcSteps ordered succs targets size)).flatten =
      clearedBefore ordered succs targets size (nSteps ordered succs targets size) := by
  unfold calcSteps
  rw [clearLists_flatMap, planSteps_eq_map ordered succs targets size hz, List.map_map]
  rfl


theorem pastes_get (ordered : List Node) (succs : Node → List Node) (targets : List Node)
    (size : Nat) (hz : 1 ≤ size) (k : Nat) :
    (pasteLists (calcSteps ordered succs targets size))[k]? =
      if k * size < ordered.length then some (stepAt ordered succs targets size k).paste
      else none := by
  unfold calcSteps
  rw [pasteLists_flatMap, List.getElem?_map, planSteps_getElem? ordered succs targets size hz k]
  by_cases hc : k * size < ordered.length <;> simp [hc]

end MxModel.CalcSteps
