import MxModel.Proofs.ItemSpaceTable
/-! What `get_itemspace` returns, and what edits leave behind (C07). -/
namespace MxModel.ItemSpace

/-! ### creation only appends -/

theorem addEntry_live (t : Table) (a : Addr) (base : SId) (isItem : Bool) (sig : Option Sig) (sel : Option Path) :
    ∃ l, (addEntry t a base isItem sig sel).live = t.live ++ l := by
  unfold addEntry
  split
  · exact ⟨[], by simp⟩
  · split <;> exact ⟨_, rfl⟩

theorem addChildren_live (item : Addr) (base : Path) : ∀ (ds : List SDef) (t : Table),
    ∃ l, (addChildren t item base ds).live = t.live ++ l
  | [], t => ⟨[], by simp [addChildren]⟩
  | d :: ds, t => by
    obtain ⟨l1, h1⟩ := addEntry_live t ⟨item.root, item.dkey ++ (d.path.drop base.length).map Seg.name⟩ d.id false d.sig d.sel
    obtain ⟨l2, h2⟩ := addChildren_live item base ds
      (addEntry t ⟨item.root, item.dkey ++ (d.path.drop base.length).map Seg.name⟩ d.id false d.sig d.sel)
    exact ⟨l1 ++ l2, by simp only [addChildren]; rw [h2, h1, List.append_assoc]⟩

theorem createItem_live (defs : Defs) (t : Table) (a : Addr) (base : SDef) :
    ∃ l, (createItem defs t a base).live = t.live ++ l := by
  obtain ⟨l1, h1⟩ := addEntry_live t a base.id true base.sig base.sel
  obtain ⟨l2, h2⟩ := addChildren_live a base.path (descendants defs base.path) (addEntry t a base.id true base.sig base.sel)
  exact ⟨l1 ++ l2, by unfold createItem; rw [h2, h1, List.append_assoc]⟩

theorem getItem_live (defs : Defs) (t : Table) (p : Addr) (args : List Val) (kw : KwArgs) :
    ∃ l, (getItem defs t p args kw).1.live = t.live ++ l := by
  rcases getItem_table defs t p args kw with h | ⟨a, base, h⟩
  · exact ⟨[], by rw [h]; simp⟩
  · rw [h]; exact createItem_live defs t a base

theorem findLive_append {t t' : Table} {l : List Entry} (h : t'.live = t.live ++ l) {a : Addr} {e : Entry}
    (hf : findLive t a = some e) : findLive t' a = some e := by
  unfold findLive at hf ⊢
  rw [h, List.find?_append, hf]
  rfl

theorem nodeAt_append {defs : Defs} {t t' : Table} {l : List Entry} (h : t'.live = t.live ++ l) {a : Addr}
    {nd : Node} (hn : nodeAt defs t a = some nd) : nodeAt defs t' a = some nd := by
  unfold nodeAt at hn ⊢
  split
  · rename_i hd; simp only [hd, if_true] at hn; exact hn
  · rename_i hd
    simp only [hd, if_false] at hn
    cases hf : findLive t a with
    | none => simp [hf] at hn
    | some e => rw [findLive_append h hf]; rw [hf] at hn; exact hn

/-! ### what `get_itemspace` returns -/

/-- a successful `get_itemspace`: the spelling bound to a key under the signature the node
carries, and the result is the live entry registered under that key -/
theorem getItem_ok {defs : Defs} {t t' : Table} {p : Addr} {args : List Val} {kw : KwArgs} {e : Entry}
    (h : getItem defs t p args kw = (t', .ok e)) :
    ∃ nd sig key, nodeAt defs t p = some nd ∧ nd.sig = some sig ∧ bindArgs sig args kw = some key ∧
      findLive t' ⟨p.root, p.dkey ++ [.key key]⟩ = some e := by
  unfold getItem at h
  split at h
  · cases h
  · rename_i nd hnd
    split at h
    · cases h
    · rename_i sig hsig
      split at h
      · cases h
      · rename_i key hkey
        refine ⟨nd, sig, key, hnd, hsig, hkey, ?_⟩
        dsimp only at h
        split at h
        · rename_i e0 hf
          cases h; exact hf
        · split at h
          · cases h
          · split at h
            · rename_i e0 hf
              cases h; exact hf
            · cases h

/-- a hit: the node carries a signature, the spelling binds, an entry is registered under the key -/
theorem getItem_hit {defs : Defs} {t : Table} {p : Addr} {args : List Val} {kw : KwArgs} {nd : Node}
    {sig : Sig} {key : Key} {e : Entry} (hn : nodeAt defs t p = some nd) (hs : nd.sig = some sig)
    (hb : bindArgs sig args kw = some key) (hf : findLive t ⟨p.root, p.dkey ++ [.key key]⟩ = some e) :
    getItem defs t p args kw = (t, .ok e) := by
  unfold getItem
  simp only [hn, hs, hb, hf]

/-! ### what edits leave behind -/

theorem rootAddr_root (a : Addr) : (rootAddr a).root = a.root := rfl

theorem rootAddr_prefix (a : Addr) : (rootAddr a).dkey.isPrefixOf a.dkey = true := by
  unfold rootAddr
  simp only
  rw [List.isPrefixOf_iff_prefix]
  have h := List.dropWhile_suffix (l := a.dkey.reverse) Seg.isName
  have := List.reverse_prefix.mpr h
  simpa using this

/-- after `clear_subs_rootitems()` of `b` no dynamic space built from `b` is left -/
theorem clearSubsRootItems_no_copy (t : Table) (b : SId) :
    ∀ e ∈ (clearSubsRootItems t b).live, e.base ≠ b := by
  intro e he hb
  have hlive := deleteAll_sub _ t e he
  have hin : rootAddr e.addr ∈ (t.live.filter (·.base = b)).map (fun e => rootAddr e.addr) :=
    List.mem_map.mpr ⟨e, List.mem_filter.mpr ⟨hlive, by simp [hb]⟩, rfl⟩
  exact deleteAll_spared _ t e he _ hin ⟨(rootAddr_root e.addr).symm, rootAddr_prefix e.addr⟩

theorem clearItems_sub (t : Table) (a : Addr) : ∀ e ∈ (clearItems t a).live, e ∈ t.live :=
  fun e he => deleteAll_sub _ t e he

theorem clearSubsRootItems_sub (t : Table) (b : SId) : ∀ e ∈ (clearSubsRootItems t b).live, e ∈ t.live :=
  fun e he => deleteAll_sub _ t e he

theorem dynRefsChange_sub (t : Table) (b : SId) : ∀ e ∈ (dynRefsChange t b).live, e ∈ t.live :=
  fun e he => deleteAll_sub _ t e he

theorem nsChange_sub (t : Table) (b : SId) : ∀ e ∈ (nsChange t b).live, e ∈ t.live := by
  intro e he
  unfold nsChange at he
  exact clearItems_sub t _ e (clearSubsRootItems_sub _ b e he)

/-- after `on_namespace_change()` of `b` no dynamic space built from `b` is left -/
theorem nsChange_no_copy (t : Table) (b : SId) : ∀ e ∈ (nsChange t b).live, e.base ≠ b :=
  clearSubsRootItems_no_copy _ b

/-- the `on_delete` of the spaces `l`, one after the other: no dynamic space built from any of
them is left, and nothing is added -/
theorem foldl_onDelete_sub : ∀ (l : List SDef) (t : Table),
    ∀ e ∈ (l.foldl (fun t x => clearItems (clearSubsRootItems t x.id) ⟨x.id, []⟩) t).live, e ∈ t.live
  | [], _, e, he => he
  | x :: xs, t, e, he =>
    clearSubsRootItems_sub t x.id e (clearItems_sub _ _ e (foldl_onDelete_sub xs _ e he))

theorem foldl_onDelete_no_copy : ∀ (l : List SDef) (t : Table),
    ∀ e ∈ (l.foldl (fun t x => clearItems (clearSubsRootItems t x.id) ⟨x.id, []⟩) t).live,
      ∀ x ∈ l, e.base ≠ x.id
  | [], _, _, _, x, hx => by cases hx
  | y :: ys, t, e, he, x, hx => by
    rcases List.mem_cons.mp hx with rfl | hx
    · have h1 := foldl_onDelete_sub ys _ e he
      exact clearSubsRootItems_no_copy t x.id e (clearItems_sub _ _ e h1)
    · exact foldl_onDelete_no_copy ys _ e he x hx

/-- **after `del_defined_space(d)` no dynamic space built from a space of the deleted tree is
left**, wherever it hangs -/
theorem delSpace_no_copy (defs : Defs) (t : Table) (d : SDef) :
    ∀ e ∈ (delSpace defs t d).2.live, ∀ x ∈ defs, d.path.isPrefixOf x.path = true → e.base ≠ x.id := by
  intro e he x hx hp
  unfold delSpace at he
  exact foldl_onDelete_no_copy _ _ e he x (List.mem_filter.mpr ⟨hx, hp⟩)

/-! ### lookup through a chain of maps -/

theorem chainFind_append_some {l1 l2 : List RefMap} {x : String} {v : Val} (h : chainFind l1 x = some v) :
    chainFind (l1 ++ l2) x = some v := by
  induction l1 with
  | nil => cases h
  | cons m rest ih =>
    simp only [List.cons_append, chainFind] at h ⊢
    cases hm : m.find x with
    | some w => simp only [hm] at h ⊢; exact h
    | none => simp only [hm] at h ⊢; exact ih h

theorem chainFind_append_none {l1 l2 : List RefMap} {x : String} (h : chainFind l1 x = none) :
    chainFind (l1 ++ l2) x = chainFind l2 x := by
  induction l1 with
  | nil => rfl
  | cons m rest ih =>
    simp only [List.cons_append, chainFind] at h ⊢
    cases hm : m.find x with
    | some w => simp [hm] at h
    | none => simp only [hm] at h ⊢; exact ih h

end MxModel.ItemSpace
