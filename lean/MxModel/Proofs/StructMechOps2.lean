import MxModel.Proofs.StructMechOps1
/-!
# Preservation of `Inv` by `renameCells`

The renaming walk (`renameIn` over the targets) changes cells containers of `p` and of sub spaces of
`p` only; afterwards all sub spaces are re-derived from scratch, so only `p` itself and the spaces
outside `p :: subs p` (whose linearisations contain no touched space) have to be looked at.
-/
namespace MxModel.SM
open MxModel.C3

theorem WF.no_cycle {st : St} (h : WF st) (p q : Path) (hpq : p ∈ st.tail q) : q ∉ st.tail p := by
  intro hqp
  have h1 := (h.tail_sublist q p hpq).length_le
  have h2 := (h.tail_sublist p q hqp).length_le
  simp only [List.length_cons] at h1 h2
  omega

/-- the linearisation of a space outside `p :: subs p` contains no space of `p :: subs p` -/
theorem WF.tail_avoids {st : St} (h : WF st) (p q x : Path) (hq : q ∉ p :: st.subs p)
    (hx : x ∈ st.tail q) : x ∉ p :: st.subs p := by
  simp only [List.mem_cons, not_or] at hq
  have hqi : q ∈ st.ids := by
    apply Classical.byContradiction
    intro hqi
    rw [St.tail_of_not_mem st q hqi] at hx; cases hx
  have hp : p ∉ st.tail q := not_mem_tail_of_not_sub p q hqi hq.1 hq.2
  intro hxx
  simp only [List.mem_cons] at hxx
  rcases hxx with rfl | hxx
  · exact hp hx
  · obtain ⟨_, _, h3⟩ := (mem_subs p x).mp hxx
    exact hp (h.tail_subset q x hx p h3)

/-- the linearisation of `p` contains no space of `p :: subs p` -/
theorem WF.tail_self_avoids {st : St} (h : WF st) (p x : Path) (hx : x ∈ st.tail p) :
    x ∉ p :: st.subs p := by
  intro hxx
  simp only [List.mem_cons] at hxx
  rcases hxx with rfl | hxx
  · exact h.not_mem_tail_self _ hx
  · obtain ⟨_, _, h3⟩ := (mem_subs p x).mp hxx
    exact h.no_cycle p x h3 hx

/-! ## one renaming step -/

theorem shape_renameIn (s : St) (p : Path) (old new : String) (q : Path) : Shape s (s.renameIn p old new q) := by
  unfold St.renameIn
  split
  · exact Shape.refl s
  · split
    · exact shape_delMem s .cells q old
    · exact (shape_delMem s .cells q old).trans (shape_setMem _ .cells q new _)

theorem keysOK_renameIn (s : St) (hk : KeysOK s) (p : Path) (old new : String) (q : Path) :
    KeysOK (s.renameIn p old new q) := by
  unfold St.renameIn
  split
  · exact hk
  · split
    · exact keysOK_delMem s hk .cells q old
    · exact keysOK_setMem _ (keysOK_delMem s hk .cells q old) .cells q new _

theorem cont_renameIn_other (s : St) (p : Path) (old new : String) (q : Path) (a' : Attr) (q' : Path)
    (h : ¬ (a' = .cells ∧ q' = q)) : (s.renameIn p old new q).cont a' q' = s.cont a' q' := by
  unfold St.renameIn
  split
  · rfl
  · split
    · rw [cont_delMem]
      have : ¬ (q' = q ∧ a' = .cells) := fun h' => h ⟨h'.2, h'.1⟩
      simp [this]
    · have h1 : ¬ (q' = q ∧ a' = .cells) := fun h' => h ⟨h'.2, h'.1⟩
      have h2 : ¬ (q' = q ∧ a' = .cells ∧ q ∈ (s.delMem .cells q old).ids) := fun h' => h ⟨h'.2.1, h'.1⟩
      rw [cont_setMem]
      simp only [h2, if_false]
      rw [cont_delMem]
      simp only [h1, if_false]

theorem mem_renameIn_self (s : St) (p : Path) (old new : String) (q : Path) (n : String)
    (h : ((s.renameIn p old new q).mem .cells q n).isSome = true) :
    (s.mem .cells q n).isSome = true ∨ n = new := by
  unfold St.renameIn at h
  split at h
  · exact Or.inl h
  · rename_i m hm
    have hq : q ∈ s.ids := mem_ids_of_mem_isSome s .cells q old (by rw [hm]; rfl)
    split at h
    · rw [mem_delMem] at h
      split at h
      · cases h
      · exact Or.inl h
    · have hq' : q ∈ (s.delMem .cells q old).ids := by rw [(shape_delMem s .cells q old).ids]; exact hq
      rw [mem_setMem _ _ _ _ _ hq', mem_delMem] at h
      by_cases hn : n = new
      · exact Or.inr hn
      · left
        simp only [hn, and_false, if_false] at h
        split at h
        · cases h
        · exact h

/-! ## the walk over the targets -/

structure Renamed (new : String) (s0 s : St) (T : List Path) : Prop where
  shape : Shape s0 s
  keys : KeysOK s
  other : ∀ a' q', ¬ (a' = .cells ∧ q' ∈ T) → s.cont a' q' = s0.cont a' q'
  names : ∀ q n, (s.mem .cells q n).isSome = true → (s0.mem .cells q n).isSome = true ∨ n = new

theorem renamed_foldl (p : Path) (old new : String) : ∀ (T : List Path) (s0 : St), KeysOK s0 →
    Renamed new s0 (T.foldl (fun s q => s.renameIn p old new q) s0) T := by
  intro T
  induction T with
  | nil => intro s0 hk; exact ⟨Shape.refl s0, hk, fun _ _ _ => rfl, fun _ _ h => Or.inl h⟩
  | cons t T ih =>
    intro s0 hk
    simp only [List.foldl_cons]
    have R := ih (s0.renameIn p old new t) (keysOK_renameIn s0 hk p old new t)
    refine ⟨(shape_renameIn s0 p old new t).trans R.shape, R.keys, ?_, ?_⟩
    · intro a' q' hc
      rw [R.other a' q' (fun h' => hc ⟨h'.1, List.mem_cons_of_mem _ h'.2⟩)]
      exact cont_renameIn_other s0 p old new t a' q' (fun h' => hc ⟨h'.1, by simp [h'.2]⟩)
    · intro q n hh
      rcases R.names q n hh with h1 | h1
      · by_cases hqt : q = t
        · subst hqt
          exact mem_renameIn_self s0 p old new q n h1
        · left
          rw [St.mem_eq, cont_renameIn_other s0 p old new t .cells q (fun h' => hqt h'.2), ← St.mem_eq] at h1
          exact h1
      · exact Or.inr h1

/-! ## the operation -/

theorem kindOf_not_space_ref (st : St) (_hd : Disj st) (q : Path) (n : String)
    (h : st.kindOf q n = none ∨ st.kindOf q n = some .cells) :
    (st.mem .cells q n).isSome = true ∨ (st.mem .refs q n = none ∧ n ∉ st.childNames q) := by
  rcases h with h | h
  · obtain ⟨_, h2, h3, _⟩ := kindOf_none st q n h
    exact Or.inr ⟨h3, h2⟩
  · exact Or.inl (kindOf_cells st q n h)

theorem inv_rename_core (st : St) (h : Inv st) (p : Path) (old new : String) (m : Member)
    (hm : st.mem .cells p old = some m) (hca : st.canAdd p new .cells = true)
    (hbase : (st.tail p).any (fun b => (st.mem .cells b old).isSome) = false)
    (F : Path → Bool) (hF : F p = true) (st' : St)
    (hop : ((List.filter F (p :: st.subs p)).foldl (fun s q => s.renameIn p old new q) st).updateAll
      (((List.filter F (p :: st.subs p)).foldl (fun s q => s.renameIn p old new q) st).subs p) = st') :
    Inv st' := by
  have hp : p ∈ st.ids := mem_ids_of_mem_isSome st .cells p old (by rw [hm]; rfl)
  have hpne : p ≠ [] := (h.wf.tree p hp).1
  have hca' := hca
  -- the name checks
  unfold St.canAdd at hca'
  have hpb : (p == []) = false := by simpa using hpne
  simp only [hpb, Bool.false_eq_true, if_false] at hca'
  split at hca'
  · cases hca'
  rename_i hk0
  have hkp : st.kindOf p new = none := by
    cases hk : st.kindOf p new with
    | none => rfl
    | some _ => rw [hk] at hk0; simp at hk0
  obtain ⟨hpc, hpch, hpr, _⟩ := kindOf_none st p new hkp
  have hsubs : ∀ q ∈ st.subs p,
      (st.mem .cells q new).isSome = true ∨ (st.mem .refs q new = none ∧ new ∉ st.childNames q) := by
    intro q hq
    have := List.all_eq_true.mp hca' q hq
    apply kindOf_not_space_ref st h.disj q new
    cases hkq : st.kindOf q new with
    | none => exact Or.inl rfl
    | some k =>
      rw [hkq] at this
      simp only [beq_iff_eq] at this
      subst this; exact Or.inr rfl
  have hon : old ≠ new := by
    intro e; subst e
    rw [hpc] at hm; cases hm
  -- no space of the linearisation of `p` has `old`
  have hnob : ∀ b ∈ st.tail p, st.mem .cells b old = none := by
    intro b hb
    have hbase' := hbase
    have := List.any_eq_false.mp hbase' b hb
    cases hx : st.mem .cells b old with
    | none => rfl
    | some _ => rw [hx] at this; simp at this
  have hmdef : m.derived = false := by
    cases hd : m.derived with
    | false => rfl
    | true =>
      exfalso
      have hg := h.good .cells p old
      unfold Good1 at hg
      rw [hm] at hg
      obtain ⟨b, hb⟩ := hg hd
      obtain ⟨h1, h2⟩ := firstDef_some st .cells _ old b _ hb
      unfold St.defd at h2
      rw [hnob b h1] at h2; cases h2
  -- the targets: `p` first, then sub spaces
  have hTeq : List.filter F (p :: st.subs p) = p :: (st.subs p).filter F := by
    rw [List.filter_cons]; simp [hF]
  have hT : ∀ t ∈ (st.subs p).filter F, t ∈ st.subs p := fun t ht => (List.mem_filter.mp ht).1
  generalize (st.subs p).filter F = T at hTeq hT
  rw [hTeq] at hop
  simp only [List.foldl_cons] at hop
  -- the step at `p`
  have hrp : st.renameIn p old new p = (st.delMem .cells p old).setMem .cells p new m := by
    unfold St.renameIn
    rw [hm]
    simp
  rw [hrp] at hop
  generalize hsp : (st.delMem .cells p old).setMem .cells p new m = sp at hop
  have hp1 : p ∈ (st.delMem .cells p old).ids := by rw [(shape_delMem st .cells p old).ids]; exact hp
  have hssp : Shape st sp := by
    rw [← hsp]; exact (shape_delMem st .cells p old).trans (shape_setMem _ .cells p new m)
  have hksp : KeysOK sp := by
    rw [← hsp]; exact keysOK_setMem _ (keysOK_delMem st h.wf.keys .cells p old) .cells p new m
  have hmsp : ∀ a' q n, sp.mem a' q n =
      if q = p ∧ a' = .cells ∧ n = new then some m
      else if q = p ∧ a' = .cells ∧ n = old then none else st.mem a' q n := by
    intro a' q n
    rw [← hsp, mem_setMem _ _ _ _ _ hp1, mem_delMem]
  have R := renamed_foldl p old new T sp hksp
  generalize hst1 : List.foldl (fun s q => s.renameIn p old new q) sp T = st1 at hop R
  have hs1 : Shape st st1 := hssp.trans R.shape
  have hpT : p ∉ T := fun hpt => by
    have := (mem_subs p p).mp (hT p hpt)
    exact this.2.1 rfl
  -- members of `st1`
  have hm1p : ∀ a' n, st1.mem a' p n = sp.mem a' p n := by
    intro a' n
    rw [St.mem_eq, R.other a' p (fun h' => hpT h'.2), ← St.mem_eq]
  have hm1refs : ∀ q n, st1.mem .refs q n = st.mem .refs q n := by
    intro q n
    rw [St.mem_eq, R.other .refs q (fun h' => by cases h'.1), ← St.mem_eq, hmsp]
    simp
  have hm1out : ∀ a' q n, q ∉ p :: st.subs p → st1.mem a' q n = st.mem a' q n := by
    intro a' q n hq
    simp only [List.mem_cons, not_or] at hq
    rw [St.mem_eq, R.other a' q (fun h' => hq.2 (hT q h'.2)), ← St.mem_eq, hmsp]
    simp [hq.1]
  have hd1out : ∀ a' q n, q ∉ p :: st.subs p → st1.defd a' q n = st.defd a' q n := by
    intro a' q n hq
    unfold St.defd; rw [hm1out a' q n hq]
  have hnames1 : ∀ q n, (st1.mem .cells q n).isSome = true →
      (st.mem .cells q n).isSome = true ∨ (n = new ∧ q ∈ p :: st.subs p) := by
    intro q n hh
    by_cases hq : q ∈ p :: st.subs p
    · rcases R.names q n hh with h1 | h1
      · rw [hmsp] at h1
        split at h1
        · rename_i hc; exact Or.inr ⟨hc.2.2, hq⟩
        · split at h1
          · cases h1
          · exact Or.inl h1
      · exact Or.inr ⟨h1, hq⟩
    · rw [hm1out .cells q n hq] at hh; exact Or.inl hh
  -- re-derivation of the sub spaces
  subst hop
  have R2 := rederived_updateAll st1 R.keys (st1.subs p)
  have hsub1 : st1.subs p = st.subs p := hs1.subs p
  refine ⟨h.wf.of_shape (hs1.trans R2.shape) R2.keys, ?_, ?_⟩
  · apply good_updateAll_all st1 R.keys
    intro a' q n hq
    rw [hsub1] at hq
    by_cases hqp : q = p
    · subst hqp
      -- `q = p` itself
      have hdt : ∀ b ∈ st.tail q, ∀ a'' n'', st1.defd a'' b n'' = st.defd a'' b n'' :=
        fun b hb a'' n'' => hd1out a'' b n'' (h.wf.tail_self_avoids q b hb)
      unfold Good1
      rw [hs1.tail, firstDef_congr st st1 a' _ n (fun b hb => hdt b hb a' n), hm1p, hmsp]
      by_cases hc1 : a' = .cells ∧ n = new
      · obtain ⟨rfl, rfl⟩ := hc1
        simp only [and_self, if_true]
        intro hd; rw [hmdef] at hd; cases hd
      · by_cases hc2 : a' = .cells ∧ n = old
        · obtain ⟨rfl, rfl⟩ := hc2
          simp only [true_and, hon, if_false, and_self, if_true]
          rw [firstDef_eq_none]
          intro b hb
          unfold St.defd; rw [hnob b hb]
        · simp only [true_and, hc1, hc2, if_false]
          exact h.good a' q n
    · have hq' : q ∉ p :: st.subs p := by
        simp only [List.mem_cons, not_or]; exact ⟨hqp, hq⟩
      exact (h.good a' q n).congr (hm1out a' q n hq') (hs1.tail q)
        (fun b hb => hd1out a' b n (h.wf.tail_avoids p q b hq' hb))
  · apply h.disj.of_new (hs1.trans R2.shape) .cells new
    intro a' q n hh
    -- a name a space has after the re-derivation: where does it come from
    have hsrc : ∃ b, (b = q ∨ b ∈ st.tail q) ∧ (st1.mem a' b n).isSome = true := by
      by_cases hq : q ∈ st1.subs p
      · have hqi : q ∈ st1.ids := ((mem_subs p q).mp hq).1
        rw [R2.names a' q n hq hqi] at hh
        rcases hh with hh | hh
        · refine ⟨q, Or.inl rfl, ?_⟩
          unfold St.defd at hh
          cases hmm : st1.mem a' q n with
          | none => rw [hmm] at hh; cases hh
          | some _ => rfl
        · cases hf : st1.firstDef a' (st1.tail q) n with
          | none => rw [hf] at hh; cases hh
          | some d =>
            obtain ⟨h1, h2⟩ := firstDef_some st1 a' _ n d.1 d.2 hf
            rw [hs1.tail] at h1
            refine ⟨d.1, Or.inr h1, ?_⟩
            unfold St.defd at h2
            cases hmm : st1.mem a' d.1 n with
            | none => rw [hmm] at h2; cases h2
            | some _ => rfl
      · rw [St.mem_eq, R2.other a' q hq, ← St.mem_eq] at hh
        exact ⟨q, Or.inl rfl, hh⟩
    obtain ⟨b, hbq, hbm⟩ := hsrc
    have hup : ∀ b', (b' = q ∨ b' ∈ st.tail q) → (st.mem a' b' n).isSome = true →
        (st.mem a' q n).isSome = true := by
      intro b' hb' hb'm
      rcases hb' with rfl | hb'
      · exact hb'm
      · exact h.mem_isSome_of_base a' b' q n hb' hb'm
    cases a' with
    | refs =>
      rw [hm1refs] at hbm
      exact Or.inl (hup b hbq hbm)
    | cells =>
      rcases hnames1 b n hbm with h1 | ⟨rfl, hbps⟩
      · exact Or.inl (hup b hbq h1)
      · -- the new name, coming from `p` or a sub space of `p`: `q` is `p` or a sub space of `p`
        have hqps : q = p ∨ q ∈ st.subs p := by
          rcases hbq with rfl | hbq
          · simpa using hbps
          · by_cases hq' : q ∈ p :: st.subs p
            · simpa using hq'
            · exact absurd hbps (h.wf.tail_avoids p q b hq' hbq)
        rcases hqps with rfl | hqs
        · exact Or.inr ⟨rfl, rfl, hpr, hpch⟩
        · rcases hsubs q hqs with h1 | h1
          · exact Or.inl h1
          · exact Or.inr ⟨rfl, rfl, h1.1, h1.2⟩


theorem inv_renameCells (kw : List String) (st st' : St) (h : Inv st) (p : Path) (old new : String)
    (hop : st.renameCells kw p old new = some st') : Inv st' := by
  unfold St.renameCells at hop
  cases hm : st.mem .cells p old with
  | none => rw [hm] at hop; cases hop
  | some m =>
    rw [hm] at hop
    simp only at hop
    split at hop
    · cases hop
    · split at hop
      · cases hop
      · rename_i hca
        split at hop
        · cases hop
        · rename_i hbase
          simp only [Option.some.injEq] at hop
          exact inv_rename_core st h p old new m hm (by simpa using hca) (by simpa using hbase) _
            (by simp [hm]) st' hop

end MxModel.SM
