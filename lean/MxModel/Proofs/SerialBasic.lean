import MxModel.Kernels.SerialWF
/-! Helper lemmas for the round-trip theorem of `Props/C04.lean` (section "The writer and the reader"):
tables, small list facts, `mapE` / `runE`, the schedule. -/
namespace MxModel.Serial
open MxModel.PathCodec MxModel.Generated

/-! ## the regenerated tables, as the proofs use them -/

theorem parserOrder_eq : parserOrder =
    [.docstring, .importFrom, .rename, .lambdaAssign, .attrAssign, .refAssign, .spaceFuncDef, .cellsFuncDef] := by
  decide

theorem decoderOrder_eq : decoderOrder = [.interface, .iospec, .module, .pickle, .literal] := by decide

theorem phaseChecks_eq : phaseChecks = true := by decide

theorem readerPhases_length : readerPhases.length = 5 := by decide

theorem phase_setDoc (d) : (Op.setDoc d).phase = some 0 := by
  show phaseIdx "doc" = some 0; decide
theorem phase_setFormula (f) : (Op.setFormula f).phase = some 0 := by
  show phaseIdx "set_formula" = some 0; decide
theorem phase_setAllowNone (v) : (Op.setAllowNone v).phase = some 0 := by
  show phaseIdx "set_property" = some 0; decide
theorem phase_newCells (n f) : (Op.newCells n f).phase = some 0 := by
  show phaseIdx "new_cells" = some 0; decide
theorem phase_cellsDoc (c d) : (Op.cellsDoc c d).phase = some 0 := by
  show phaseIdx "set_doc" = some 0; decide
theorem phase_cellsAllowNone (c v) : (Op.cellsAllowNone c v).phase = some 0 := by
  show phaseIdx "set_property" = some 0; decide
theorem phase_cellsCached (c b) : (Op.cellsCached c b).phase = some 0 := by
  show phaseIdx "set_property" = some 0; decide
theorem phase_addBases (b) : (Op.addBases b).phase = some 1 := by
  show phaseIdx "add_bases" = some 1; decide
theorem phase_loadPickle (c e) : (Op.loadPickle c e).phase = some 2 := by
  show phaseIdx "load_pickledata" = some 2; decide
theorem phase_setAttr (x v) : (Op.setAttr x v).phase = some 3 := by
  show phaseIdx "__setattr__" = some 3; decide
theorem phase_setRef (x v m) : (Op.setRef x v m).phase = some 3 := by
  show phaseIdx "set_ref" = some 3; decide
theorem phase_dynInput (r k v) : (Op.dynInput r k v).phase = some 4 := by
  show phaseIdx "_set_dynamic_inputs" = some 4; decide

end MxModel.Serial
