import MxModel.Proofs.ExecBasic
/-!
# The trace graph agrees with the cache, and is acyclic

Regime: *terminating* programs – environments whose call relation respects a strict order
`lt` (`Ranked`): every call a formula of `n` can make, on any path and whatever its callees
return, goes to an element below `n`.  (This is the formal counterpart of "formulas drawn
from a terminating expression grammar"; it needs no hypothesis about the depth limit.)

`runN_graph`: every evaluation – successful, failed, with handled failures inside –
preserves `GI`: element nodes of the graph are held or executing, held elements are in the
graph, executing elements hold no value, every edge goes from a lower to a higher element (or
from an uncached cells' object node to an element), user inputs have no predecessors.
-/
namespace MxModel.Exec

structure StrictOrder (lt : Node → Node → Prop) : Prop where
  irrefl : ∀ a, ¬ lt a a
  trans : ∀ a b c, lt a b → lt b c → lt a c

def CallsBelow (lt : Node → Node → Prop) (n : Node) : Prog → Prop
  | .ret _ => True
  | .raise _ => True
  | .reraise _ => True
  | .read _ _ k => ∀ v, CallsBelow lt n (k v)
  | .call m k => lt m n ∧ ∀ r, CallsBelow lt n (k r)

def Ranked (env : Env) (lt : Node → Node → Prop) : Prop := ∀ n, CallsBelow lt n (env.formula n)

/-! ### membership in the graph after each primitive -/

theorem mem_addNode_gn (s : St) (a x : GNode) : x ∈ (s.addNode a).gn ↔ x ∈ s.gn ∨ x = a := by
  unfold St.addNode
  split
  · rename_i h
    simp only [List.contains_eq_mem, decide_eq_true_eq] at h
    constructor
    · exact Or.inl
    · rintro (h1 | rfl); exact h1; exact h
  · simp

theorem addNode_ge (s : St) (a : GNode) : (s.addNode a).ge = s.ge := by
  unfold St.addNode; split <;> rfl

theorem mem_addEdge_gn (s : St) (a b x : GNode) :
    x ∈ (s.addEdge a b).gn ↔ x ∈ s.gn ∨ x = a ∨ x = b := by
  unfold St.addEdge
  simp only []
  split <;> simp [mem_addNode_gn, or_assoc]

theorem mem_addEdge_ge (s : St) (a b : GNode) (e : GNode × GNode) :
    e ∈ (s.addEdge a b).ge ↔ e ∈ s.ge ∨ e = (a, b) := by
  unfold St.addEdge
  simp only []
  split
  · rename_i h
    simp only [addNode_ge, List.contains_eq_mem, decide_eq_true_eq] at h ⊢
    constructor
    · exact Or.inl
    · rintro (h1 | rfl); exact h1; exact h
  · simp [addNode_ge]

theorem mem_removeNode_gn (s : St) (a x : GNode) : x ∈ (s.removeNode a).gn ↔ x ∈ s.gn ∧ x ≠ a := by
  simp [St.removeNode]

theorem mem_removeNode_ge (s : St) (a : GNode) (e : GNode × GNode) :
    e ∈ (s.removeNode a).ge ↔ e ∈ s.ge ∧ e.1 ≠ a ∧ e.2 ≠ a := by
  simp [St.removeNode]

theorem edgeTarget_mem (s : St) (t : Node) (h : s.edgeTarget = some t) : t ∈ s.stack := by
  unfold St.edgeTarget at h
  split at h
  · split at h
    · exact List.mem_of_getElem? h
    · cases h
  · cases h

/-! ### the invariant -/

structure GI (env : Env) (lt : Node → Node → Prop) (s : St) : Prop where
  nodesHeld : ∀ m, GNode.elem m ∈ s.gn → (lookup s.data m).isSome ∨ m ∈ s.stack
  heldNodes : ∀ m, (lookup s.data m).isSome → GNode.elem m ∈ s.gn ∧ env.cached m.1 = true
  stackUnheld : ∀ m ∈ s.stack, lookup s.data m = none
  edgesOrd : ∀ a b, (a, b) ∈ s.ge →
    ∃ t, b = .elem t ∧ ((∃ m, a = .elem m ∧ lt m t) ∨ (∃ c, a = .obj c))
  edgeNodes : ∀ a b, (a, b) ∈ s.ge → a ∈ s.gn ∧ b ∈ s.gn
  inputsHeld : ∀ m ∈ s.inputs, (lookup s.data m).isSome
  inputsNoPreds : ∀ a m, (a, GNode.elem m) ∈ s.ge → m ∉ s.inputs
  elemCached : ∀ m, GNode.elem m ∈ s.gn → env.cached m.1 = true

variable {env : Env} {lt : Node → Node → Prop}

/-- adding an edge into an executing element from a node that is held or an object node -/
theorem GI.addEdge (g : GI env lt s) (a : GNode) (t : Node) (ht : t ∈ s.stack)
    (htc : env.cached t.1 = true)
    (ha : (∃ m, a = .elem m ∧ lt m t ∧ (lookup s.data m).isSome) ∨ (∃ c, a = .obj c)) :
    GI env lt (s.addEdge a (.elem t)) := by
  have hd := (sameCache_addEdge s a (.elem t)).data
  have hi := (sameCache_addEdge s a (.elem t)).inputs
  have hst : (s.addEdge a (.elem t)).stack = s.stack := by
    unfold St.addEdge St.addNode; simp only []; repeat' split
    all_goals rfl
  constructor
  · intro m hm
    rw [hd, hst]
    rw [mem_addEdge_gn] at hm
    rcases hm with hm | hm | hm
    · exact g.nodesHeld m hm
    · rcases ha with ⟨m', rfl, _, hheld⟩ | ⟨c, rfl⟩
      · cases hm; exact Or.inl hheld
      · cases hm
    · cases hm; exact Or.inr ht
  · intro m hm
    rw [hd] at hm
    exact ⟨(mem_addEdge_gn _ _ _ _).mpr (Or.inl (g.heldNodes m hm).1), (g.heldNodes m hm).2⟩
  · intro m hm; rw [hd]; rw [hst] at hm; exact g.stackUnheld m hm
  · intro x y hxy
    rw [mem_addEdge_ge] at hxy
    rcases hxy with hxy | hxy
    · exact g.edgesOrd x y hxy
    · cases hxy
      refine ⟨t, rfl, ?_⟩
      rcases ha with ⟨m', rfl, hlt, _⟩ | ⟨c, rfl⟩
      · exact Or.inl ⟨m', rfl, hlt⟩
      · exact Or.inr ⟨c, rfl⟩
  · intro x y hxy
    rw [mem_addEdge_ge] at hxy
    simp only [mem_addEdge_gn]
    rcases hxy with hxy | hxy
    · exact ⟨Or.inl (g.edgeNodes x y hxy).1, Or.inl (g.edgeNodes x y hxy).2⟩
    · cases hxy; exact ⟨Or.inr (Or.inl rfl), Or.inr (Or.inr rfl)⟩
  · intro m hm; rw [hd]; rw [hi] at hm; exact g.inputsHeld m hm
  · intro x m hxm
    rw [hi]
    rw [mem_addEdge_ge] at hxm
    rcases hxm with hxm | hxm
    · exact g.inputsNoPreds x m hxm
    · cases hxm
      intro hin
      have := g.inputsHeld t hin
      rw [g.stackUnheld t ht] at this
      cases this


  · intro m hm
    rw [mem_addEdge_gn] at hm
    rcases hm with hm | hm | hm
    · exact g.elemCached m hm
    · rcases ha with ⟨m', rfl, _, hheld⟩ | ⟨c, rfl⟩
      · cases hm; exact (g.heldNodes _ hheld).2
      · cases hm
    · cases hm; exact htc

theorem GI.push (g : GI env lt s) (n : Node) (hn : lookup s.data n = none) : GI env lt (s.push env n) := by
  constructor
  · intro m hm
    rcases g.nodesHeld m hm with h | h
    · exact Or.inl h
    · exact Or.inr (by simp [St.push, h])
  · exact g.heldNodes
  · intro m hm
    simp only [St.push, List.mem_append, List.mem_singleton] at hm
    rcases hm with hm | rfl
    · exact g.stackUnheld m hm
    · exact hn
  · exact g.edgesOrd
  · exact g.edgeNodes
  · exact g.inputsHeld
  · exact g.inputsNoPreds
  · exact g.elemCached

/-- a cached element completes: its value is stored, it leaves the stack, and it enters the
graph as an isolated node or with an edge to the nearest cached caller `T` -/
theorem GI.finishCached (ho : StrictOrder lt) {s1 s' : St} (g : GI env lt s1) (base : List Node)
    (n : Node) (v : Val) (hstack : s1.stack = base ++ [n]) (hc : env.cached n.1 = true)
    (hbelow : ∀ a ∈ base, lt n a)
    (hdata : s'.data = insert s1.data n v) (hinp : s'.inputs = s1.inputs) (hst : s'.stack = base)
    (T : Option Node) (hT : ∀ t, T = some t → t ∈ base ∧ env.cached t.1 = true)
    (hgn : ∀ x, x ∈ s'.gn ↔ x ∈ s1.gn ∨ x = .elem n ∨ (∃ t, T = some t ∧ x = .elem t))
    (hge : ∀ e, e ∈ s'.ge ↔ e ∈ s1.ge ∨ (∃ t, T = some t ∧ e = (.elem n, .elem t))) :
    GI env lt s' := by
  have hne : ∀ a ∈ base, n ≠ a := fun a ha h => ho.irrefl a (h ▸ hbelow a ha)
  have hlook : ∀ m, lookup s'.data m = if n = m then some v else lookup s1.data m := by
    intro m; rw [hdata, lookup_insert]
  have hn_in : n ∈ s1.stack := by rw [hstack]; simp
  constructor
  · intro m hm
    rw [hst, hlook]
    rcases (hgn _).mp hm with h | h | ⟨t, hTt, h⟩
    · rcases g.nodesHeld m h with h' | h'
      · left; split <;> simp_all
      · rw [hstack] at h'
        simp only [List.mem_append, List.mem_singleton] at h'
        rcases h' with h' | rfl
        · exact Or.inr h'
        · left; simp
    · cases h; left; simp
    · cases h; exact Or.inr (hT _ hTt).1
  · intro m hm
    rw [hlook] at hm
    split at hm
    · rename_i h; subst h; exact ⟨(hgn _).mpr (Or.inr (Or.inl rfl)), hc⟩
    · exact ⟨(hgn _).mpr (Or.inl (g.heldNodes m hm).1), (g.heldNodes m hm).2⟩
  · intro m hm
    rw [hst] at hm
    rw [hlook, if_neg (hne m hm)]
    exact g.stackUnheld m (by rw [hstack]; simp [hm])
  · intro a b hab
    rcases (hge _).mp hab with h | ⟨t, hTt, h⟩
    · exact g.edgesOrd a b h
    · cases h; exact ⟨t, rfl, Or.inl ⟨n, rfl, hbelow t (hT t hTt).1⟩⟩
  · intro a b hab
    rcases (hge _).mp hab with h | ⟨t, hTt, h⟩
    · exact ⟨(hgn _).mpr (Or.inl (g.edgeNodes a b h).1), (hgn _).mpr (Or.inl (g.edgeNodes a b h).2)⟩
    · cases h
      exact ⟨(hgn _).mpr (Or.inr (Or.inl rfl)), (hgn _).mpr (Or.inr (Or.inr ⟨t, hTt, rfl⟩))⟩
  · intro m hm
    rw [hinp] at hm
    rw [hlook]
    split
    · rfl
    · exact g.inputsHeld m hm
  · intro a m ham
    rw [hinp]
    rcases (hge _).mp ham with h | ⟨t, hTt, h⟩
    · exact g.inputsNoPreds a m h
    · cases h
      intro hin
      have := g.inputsHeld _ hin
      rw [g.stackUnheld _ (by rw [hstack]; simp [(hT _ hTt).1])] at this
      cases this

  · intro m hm
    rcases (hgn _).mp hm with h | h | ⟨t, hTt, h⟩
    · exact g.elemCached m h
    · cases h; exact hc
    · cases h; exact (hT _ hTt).2

/-- an uncached cells completes: only an edge from its object node may be added -/
theorem GI.finishUncached {s1 s' : St} (g : GI env lt s1) (base : List Node)
    (n : Node) (hstack : s1.stack = base ++ [n])
    (hdata : s'.data = s1.data) (hinp : s'.inputs = s1.inputs) (hst : s'.stack = base)
    (T : Option Node) (hT : ∀ t, T = some t → t ∈ base ∧ env.cached t.1 = true)
    (hgn : ∀ x, x ∈ s'.gn ↔ x ∈ s1.gn ∨ (∃ t, T = some t ∧ (x = .obj n.1 ∨ x = .elem t)))
    (hge : ∀ e, e ∈ s'.ge ↔ e ∈ s1.ge ∨ (∃ t, T = some t ∧ e = (.obj n.1, .elem t)))
    (hnode : GNode.elem n ∉ s1.gn) :
    GI env lt s' := by
  constructor
  · intro m hm
    rw [hst, hdata]
    rcases (hgn _).mp hm with h | ⟨t, hTt, h | h⟩
    · rcases g.nodesHeld m h with h' | h'
      · exact Or.inl h'
      · rw [hstack] at h'
        simp only [List.mem_append, List.mem_singleton] at h'
        rcases h' with h' | rfl
        · exact Or.inr h'
        · exact absurd h hnode
    · cases h
    · cases h; exact Or.inr (hT _ hTt).1
  · intro m hm
    rw [hdata] at hm
    exact ⟨(hgn _).mpr (Or.inl (g.heldNodes m hm).1), (g.heldNodes m hm).2⟩
  · intro m hm
    rw [hst] at hm; rw [hdata]
    exact g.stackUnheld m (by rw [hstack]; simp [hm])
  · intro a b hab
    rcases (hge _).mp hab with h | ⟨t, hTt, h⟩
    · exact g.edgesOrd a b h
    · cases h; exact ⟨t, rfl, Or.inr ⟨n.1, rfl⟩⟩
  · intro a b hab
    rcases (hge _).mp hab with h | ⟨t, hTt, h⟩
    · exact ⟨(hgn _).mpr (Or.inl (g.edgeNodes a b h).1), (hgn _).mpr (Or.inl (g.edgeNodes a b h).2)⟩
    · cases h
      exact ⟨(hgn _).mpr (Or.inr ⟨t, hTt, Or.inl rfl⟩), (hgn _).mpr (Or.inr ⟨t, hTt, Or.inr rfl⟩)⟩
  · intro m hm; rw [hinp] at hm; rw [hdata]; exact g.inputsHeld m hm
  · intro a m ham
    rw [hinp]
    rcases (hge _).mp ham with h | ⟨t, hTt, h⟩
    · exact g.inputsNoPreds a m h
    · cases h
      intro hin
      have := g.inputsHeld _ hin
      rw [g.stackUnheld _ (by rw [hstack]; simp [(hT _ hTt).1])] at this
      cases this

  · intro m hm
    rcases (hgn _).mp hm with h | ⟨t, hTt, h | h⟩
    · exact g.elemCached m h
    · cases h
    · cases h; exact (hT _ hTt).2

/-- a failed element is rolled back: it leaves the stack and the graph -/
theorem GI.rolledBack {s1 s' : St} (g : GI env lt s1) (base : List Node)
    (n : Node) (hstack : s1.stack = base ++ [n])
    (hdata : s'.data = s1.data) (hinp : s'.inputs = s1.inputs) (hst : s'.stack = base)
    (hgn : ∀ x, x ∈ s'.gn ↔ x ∈ s1.gn ∧ x ≠ .elem n)
    (hge : ∀ e, e ∈ s'.ge ↔ e ∈ s1.ge ∧ e.1 ≠ .elem n ∧ e.2 ≠ .elem n) :
    GI env lt s' := by
  have hn : lookup s1.data n = none := g.stackUnheld n (by rw [hstack]; simp)
  constructor
  · intro m hm
    rw [hst, hdata]
    obtain ⟨h1, h2⟩ := (hgn _).mp hm
    rcases g.nodesHeld m h1 with h' | h'
    · exact Or.inl h'
    · rw [hstack] at h'
      simp only [List.mem_append, List.mem_singleton] at h'
      rcases h' with h' | rfl
      · exact Or.inr h'
      · exact absurd rfl h2
  · intro m hm
    rw [hdata] at hm
    refine ⟨(hgn _).mpr ⟨(g.heldNodes m hm).1, ?_⟩, (g.heldNodes m hm).2⟩
    intro h; cases h; rw [hn] at hm; cases hm
  · intro m hm
    rw [hst] at hm; rw [hdata]
    exact g.stackUnheld m (by rw [hstack]; simp [hm])
  · intro a b hab; exact g.edgesOrd a b ((hge _).mp hab).1
  · intro a b hab
    obtain ⟨h1, h2, h3⟩ := (hge _).mp hab
    exact ⟨(hgn _).mpr ⟨(g.edgeNodes a b h1).1, h2⟩, (hgn _).mpr ⟨(g.edgeNodes a b h1).2, h3⟩⟩
  · intro m hm; rw [hinp] at hm; rw [hdata]; exact g.inputsHeld m hm
  · intro a m ham; rw [hinp]; exact g.inputsNoPreds a m ((hge _).mp ham).1
  · intro m hm; exact g.elemCached m ((hgn _).mp hm).1


/-! ### `idxstack`: the index of the nearest cached caller -/

def IdxOK (env : Env) (stack : List Node) (idx : List Int) : Prop :=
  ∀ j i, idx[j]? = some i → i ≥ 0 →
    i.toNat ≤ j ∧ j < stack.length ∧ ∃ t, stack[i.toNat]? = some t ∧ env.cached t.1 = true

theorem IdxOK.push {s : St} (h : IdxOK env s.stack s.idx) (hlen : s.idx.length = s.stack.length) (n : Node) :
    IdxOK env (s.push env n).stack (s.push env n).idx := by
  intro j i hji hi
  simp only [St.push] at hji ⊢
  by_cases hj : j < s.idx.length
  · rw [List.getElem?_append_left hj] at hji
    obtain ⟨h1, h2, t, h3, h4⟩ := h j i hji hi
    refine ⟨h1, by simp; omega, t, ?_, h4⟩
    rw [List.getElem?_append_left (by omega)]; exact h3
  · have hj' : j = s.idx.length := by
      have := (List.getElem?_eq_some_iff.mp hji).1
      simp at this; omega
    subst hj'
    simp only [List.getElem?_concat_length, Option.some.injEq] at hji
    split at hji
    · rename_i hc
      subst hji
      refine ⟨by simp [hlen], by simp [hlen], n, ?_, hc⟩
      simp
    · split at hji
      · rename_i j0 hlast
        subst hji
        have hpos : s.idx.length - 1 < s.idx.length := by
          cases hl : s.idx with
          | nil => simp [hl] at hlast
          | cons a l => simp
        have hget : s.idx[s.idx.length - 1]? = some j0 := by
          rw [List.getLast?_eq_getElem?] at hlast; exact hlast
        obtain ⟨h1, h2, t, h3, h4⟩ := h _ j0 hget hi
        refine ⟨by omega, by simp [hlen], t, ?_, h4⟩
        rw [List.getElem?_append_left (by omega)]; exact h3
      · subst hji; omega

theorem edgeTarget_cached {s : St} (h : IdxOK env s.stack s.idx) (t : Node) (ht : s.edgeTarget = some t) :
    env.cached t.1 = true := by
  unfold St.edgeTarget at ht
  split at ht
  · rename_i i hlast
    split at ht
    · rename_i hi
      rw [List.getLast?_eq_getElem?] at hlast
      obtain ⟨_, _, t', h3, h4⟩ := h _ i hlast hi
      rw [h3] at ht; cases ht; exact h4
    · cases ht
  · cases ht

/-- fields the graph invariant reads -/
structure SameG (s s' : St) : Prop where
  data : s'.data = s.data
  inputs : s'.inputs = s.inputs
  gn : s'.gn = s.gn
  ge : s'.ge = s.ge
  stack : s'.stack = s.stack
  idx : s'.idx = s.idx

theorem GI.of_sameG {s s' : St} (h : SameG s s') (g : GI env lt s) : GI env lt s' := by
  constructor
  · intro m hm; rw [h.data, h.stack]; exact g.nodesHeld m (h.gn ▸ hm)
  · intro m hm; rw [h.gn]; exact g.heldNodes m (h.data ▸ hm)
  · intro m hm; rw [h.data]; exact g.stackUnheld m (h.stack ▸ hm)
  · intro a b hab; exact g.edgesOrd a b (h.ge ▸ hab)
  · intro a b hab; rw [h.gn]; exact g.edgeNodes a b (h.ge ▸ hab)
  · intro m hm; rw [h.data]; exact g.inputsHeld m (h.inputs ▸ hm)
  · intro a m ham; rw [h.inputs]; exact g.inputsNoPreds a m (h.ge ▸ ham)
  · intro m hm; exact g.elemCached m (h.gn ▸ hm)

theorem sameG_noteRead (s : St) (a : Bool) (r : RefId) : SameG s (s.noteRead a r) := by
  unfold St.noteRead; split <;> exact ⟨rfl, rfl, rfl, rfl, rfl, rfl⟩

/-- existing cache entries are never changed -/
def Ext (s s' : St) : Prop := ∀ m v, lookup s.data m = some v → lookup s'.data m = some v

theorem Ext.refl (s : St) : Ext s s := fun _ _ h => h
theorem Ext.trans {a b c : St} (h1 : Ext a b) (h2 : Ext b c) : Ext a c := fun m v h => h2 m v (h1 m v h)
theorem Ext.of_data {a b : St} (h : b.data = a.data) : Ext a b := fun m v hm => by rw [h]; exact hm

/-- contract of an evaluator for an element that is below everything on the stack -/
def EvalG (env : Env) (lt : Node → Node → Prop) (f : Node → St → Res × St) : Prop :=
  ∀ m s, GI env lt s → IdxOK env s.stack s.idx → s.idx.length = s.stack.length →
    (∀ a ∈ s.stack, lt m a) → lookup s.data m = none →
    GI env lt (f m s).2 ∧ (f m s).2.stack = s.stack ∧ (f m s).2.idx = s.idx ∧ Ext s (f m s).2

def CalleeG (env : Env) (lt : Node → Node → Prop) (f : Node → St → Res × St) : Prop :=
  ∀ m s, GI env lt s → IdxOK env s.stack s.idx → s.idx.length = s.stack.length →
    (∀ a ∈ s.stack, lt m a) →
    GI env lt (f m s).2 ∧ (f m s).2.stack = s.stack ∧ (f m s).2.idx = s.idx ∧ Ext s (f m s).2

theorem keepExc_sameG (s0 : St) (p : Res × St) : SameG p.2 (keepExc s0 p).2 :=
  have h := keepExc_excOnly s0 p
  ⟨h.data, h.inputs, h.gn, h.ge, h.stack, h.idx⟩

theorem keepExc_graph (s0 s : St) (p : Res × St)
    (h : GI env lt p.2 ∧ p.2.stack = s.stack ∧ p.2.idx = s.idx ∧ Ext s p.2) :
    GI env lt (keepExc s0 p).2 ∧ (keepExc s0 p).2.stack = s.stack ∧ (keepExc s0 p).2.idx = s.idx ∧
      Ext s (keepExc s0 p).2 :=
  have hg := keepExc_sameG s0 p
  ⟨GI.of_sameG hg h.1, hg.stack.trans h.2.1, hg.idx.trans h.2.2.1, h.2.2.2.trans (Ext.of_data hg.data)⟩

theorem evalNode_graph (ef : Node → St → Res × St) (hef : EvalG env lt ef) :
    CalleeG env lt (evalNode env ef) := by
  intro m s g hidx hlen hbelow
  unfold evalNode
  by_cases ha : env.alive m.1 = true
  case neg =>
    have ha' : env.alive m.1 = false := by simpa using ha
    simp only [ha', Bool.false_eq_true, if_false]
    exact ⟨GI.of_sameG (s := s) (s' := s.newExc) ⟨rfl, rfl, rfl, rfl, rfl, rfl⟩ g, rfl, rfl, Ext.of_data rfl⟩
  simp only [ha, if_true]
  by_cases hc : env.cached m.1 = true
  · simp only [hc, if_true]
    cases hl : lookup s.data m with
    | none => exact keepExc_graph s s _ (hef m s g hidx hlen hbelow hl)
    | some v =>
      simp only []
      unfold St.hitEdge
      cases ht : s.edgeTarget with
      | none => exact ⟨g, rfl, rfl, Ext.refl s⟩
      | some t =>
        simp only []
        have htm := edgeTarget_mem s t ht
        refine ⟨g.addEdge (.elem m) t htm (edgeTarget_cached hidx t ht)
          (Or.inl ⟨m, rfl, hbelow t htm, by rw [hl]; rfl⟩), ?_, ?_,
          Ext.of_data (sameCache_addEdge s _ _).data⟩
        · unfold St.addEdge St.addNode; simp only []; repeat' split
          all_goals rfl
        · unfold St.addEdge St.addNode; simp only []; repeat' split
          all_goals rfl
  · have hc' : env.cached m.1 = false := by simpa using hc
    simp only [hc', Bool.false_eq_true, if_false]
    refine keepExc_graph s s _ (hef m s g hidx hlen hbelow ?_)
    cases hl : lookup s.data m with
    | none => rfl
    | some v => have := (g.heldNodes m (by rw [hl]; rfl)).2; rw [hc'] at this; cases this

theorem runBody_graph (ho : StrictOrder lt) (f : Node → St → Res × St) (hf : CalleeG env lt f)
    (base : List Node) (n : Node) (idx0 : List Int) (hbelow : ∀ a ∈ base, lt n a) :
    ∀ (p : Prog), CallsBelow lt n p → ∀ (s : St), GI env lt s → s.stack = base ++ [n] → s.idx = idx0 →
      IdxOK env (base ++ [n]) idx0 → idx0.length = (base ++ [n]).length →
      GI env lt (runBody env f p s).2 ∧ (runBody env f p s).2.stack = base ++ [n] ∧
      (runBody env f p s).2.idx = idx0 ∧ Ext s (runBody env f p s).2 := by
  intro p
  induction p with
  | ret v => intro _ s g hs hi _ _; exact ⟨g, hs, hi, Ext.refl s⟩
  | raise e =>
    intro _ s g hs hi _ _
    simp only [runBody]
    exact ⟨GI.of_sameG (s := s) (s' := s.newExc) ⟨rfl, rfl, rfl, rfl, rfl, rfl⟩ g, hs, hi, Ext.of_data rfl⟩
  | reraise e => intro _ s g hs hi _ _; exact ⟨g, hs, hi, Ext.refl s⟩
  | read a r k ih =>
    intro hcb s g hs hi hidx hlen
    simp only [CallsBelow] at hcb
    simp only [runBody]
    have hsg := sameG_noteRead s (a && (env.refs r).isSome) r
    obtain ⟨a1, a2, a3, a4⟩ := ih _ (hcb _) _ (GI.of_sameG hsg g) (hsg.stack.trans hs) (hsg.idx.trans hi) hidx hlen
    exact ⟨a1, a2, a3, (Ext.of_data hsg.data).trans a4⟩
  | call m k ih =>
    intro hcb s g hs hi hidx hlen
    simp only [CallsBelow] at hcb
    simp only [runBody]
    have hb : ∀ a ∈ s.stack, lt m a := by
      intro a ha
      rw [hs] at ha
      simp only [List.mem_append, List.mem_singleton] at ha
      rcases ha with ha | rfl
      · exact ho.trans _ _ _ hcb.1 (hbelow a ha)
      · exact hcb.1
    obtain ⟨g', hs', hi', he'⟩ := hf m s g (by rw [hs, hi]; exact hidx) (by rw [hs, hi]; exact hlen) hb
    obtain ⟨a1, a2, a3, a4⟩ := ih _ (hcb.2 _) _ g' (hs'.trans hs) (hi'.trans hi) hidx hlen
    exact ⟨a1, a2, a3, he'.trans a4⟩


theorem popEdge_fields (s : St) (n : Node) :
    (s.popEdge env n).data = s.data ∧ (s.popEdge env n).inputs = s.inputs ∧
    (s.popEdge env n).stack = s.stack ∧ (s.popEdge env n).idx = s.idx := by
  unfold St.popEdge
  split
  · unfold St.addEdge St.addNode; simp only []; repeat' split
    all_goals exact ⟨rfl, rfl, rfl, rfl⟩
  · split
    · unfold St.addNode; split <;> exact ⟨rfl, rfl, rfl, rfl⟩
    · exact ⟨rfl, rfl, rfl, rfl⟩

theorem runN_graph (ho : StrictOrder lt) (hr : Ranked env lt) : ∀ d, EvalG env lt (runN env d) := by
  intro d
  induction d with
  | zero =>
    intro m s g _ _ _ _
    exact ⟨GI.of_sameG (s := s) ⟨rfl, rfl, rfl, rfl, rfl, rfl⟩ g, rfl, rfl, Ext.of_data rfl⟩
  | succ d ih =>
    intro n s g hidx hlen hbelow hnone
    have hpush := g.push (env := env) n hnone
    have hidx' := IdxOK.push hidx hlen n
    have hlen' : (s.push env n).idx.length = (s.push env n).stack.length := by
      simp [St.push, hlen]
    have hb := runBody_graph ho _ (evalNode_graph _ ih) s.stack n (s.push env n).idx hbelow
      (env.formula n) (hr n) (s.push env n) hpush rfl rfl hidx' hlen'
    simp only [runN]
    generalize runBody env (evalNode env (runN env d)) (env.formula n) (s.push env n) = p at hb
    obtain ⟨r, s1⟩ := p
    simp only [] at hb ⊢
    obtain ⟨g1, hs1, hi1, hext1⟩ := hb
    have hext0 : Ext s s1 := (Ext.of_data (a := s) (b := s.push env n) rfl).trans hext1
    have hdropS : s1.stack.dropLast = s.stack := by rw [hs1]; simp
    have hdropI : s1.idx.dropLast = s.idx := by rw [hi1]; simp [St.push]
    -- failure: roll back
    have hroll : ∀ s1' : St, SameG s1 s1' →
        GI env lt (s1'.rollback n) ∧ (s1'.rollback n).stack = s.stack ∧ (s1'.rollback n).idx = s.idx ∧
        Ext s (s1'.rollback n) := by
      intro s1' hsg
      refine ⟨GI.rolledBack (GI.of_sameG hsg g1) s.stack n (hsg.stack.trans hs1) rfl rfl ?_ ?_ ?_, ?_, ?_,
        hext0.trans (Ext.of_data (a := s1) (b := s1'.rollback n) hsg.data)⟩
      · simp [St.rollback, St.removeNode, St.dropFrame, hsg.stack, hdropS]
      · intro x; simp [St.rollback, St.removeNode, St.dropFrame]
      · intro e; simp [St.rollback, St.removeNode, St.dropFrame]
      · simp [St.rollback, St.removeNode, St.dropFrame, hsg.stack, hdropS]
      · simp [St.rollback, St.removeNode, St.dropFrame, hsg.idx, hdropI]
    -- the nearest cached caller, looked up on the caller's own stack
    have hT : ∀ t, ({ s with gn := s1.gn } : St).edgeTarget = some t →
        t ∈ s.stack ∧ env.cached t.1 = true := by
      intro t ht
      exact ⟨edgeTarget_mem _ t ht, edgeTarget_cached (s := { s with gn := s1.gn }) hidx t ht⟩
    cases r with
    | err e => exact hroll s1 ⟨rfl, rfl, rfl, rfl, rfl, rfl⟩
    | ok v =>
      simp only []
      by_cases hc : env.cached n.1 = true
      · simp only [hc, if_true]
        split
        · exact hroll s1.newExc ⟨rfl, rfl, rfl, rfl, rfl, rfl⟩
        · -- store and pop
          have hf0 := popEdge_fields (env := env) ({ s1 with data := insert s1.data n v } : St).dropFrame n
          have hds := drainSame env ((({ s1 with data := insert s1.data n v } : St).dropFrame).popEdge env n) n
          have hf : (({ s1 with data := insert s1.data n v } : St).pop env n).data = insert s1.data n v ∧
              (({ s1 with data := insert s1.data n v } : St).pop env n).inputs = s1.inputs ∧
              (({ s1 with data := insert s1.data n v } : St).pop env n).stack = s1.stack.dropLast ∧
              (({ s1 with data := insert s1.data n v } : St).pop env n).idx = s1.idx.dropLast :=
            ⟨hds.data.trans hf0.1, hds.inputs.trans hf0.2.1, hds.stack.trans hf0.2.2.1, hds.idx.trans hf0.2.2.2⟩
          have het : (({ s1 with data := insert s1.data n v } : St).dropFrame).edgeTarget =
              ({ s with gn := s1.gn } : St).edgeTarget := by
            simp [St.edgeTarget, St.dropFrame, hdropS, hdropI]
          refine ⟨GI.finishCached ho g1 s.stack n v hs1 hc hbelow
            (s' := ({ s1 with data := insert s1.data n v } : St).pop env n)
            hf.1
            hf.2.1
            (hf.2.2.1.trans hdropS)
            ({ s with gn := s1.gn } : St).edgeTarget hT ?_ ?_, ?_, ?_, ?_⟩
          · intro x
            show x ∈ (({ s1 with data := insert s1.data n v } : St).pop env n).gn ↔ _
            unfold St.pop
            rw [hds.gn]
            simp only [St.popEdge, het]
            cases ({ s with gn := s1.gn } : St).edgeTarget with
            | none => simp [hc, mem_addNode_gn, St.dropFrame]
            | some t => simp [hc, mem_addEdge_gn, St.dropFrame]
          · intro e
            show e ∈ (({ s1 with data := insert s1.data n v } : St).pop env n).ge ↔ _
            unfold St.pop
            rw [hds.ge]
            simp only [St.popEdge, het]
            cases ({ s with gn := s1.gn } : St).edgeTarget with
            | none => simp [hc, addNode_ge, St.dropFrame]
            | some t => simp [hc, mem_addEdge_ge, St.dropFrame]
          · exact hf.2.2.1.trans hdropS
          · exact hf.2.2.2.trans hdropI
          · -- the stored element was executing, hence held nothing: no entry is overwritten
            refine hext0.trans ?_
            intro m w hm
            show lookup (({ s1 with data := insert s1.data n v } : St).pop env n).data m = some w
            rw [show (({ s1 with data := insert s1.data n v } : St).pop env n).data = insert s1.data n v from hf.1,
              lookup_insert]
            split
            · rename_i h; subst h
              rw [g1.stackUnheld n (by rw [hs1]; simp)] at hm; cases hm
            · exact hm
      · have hc' : env.cached n.1 = false := by simpa using hc
        simp only [hc', Bool.false_eq_true, if_false]
        have hf0 := popEdge_fields (env := env) s1.dropFrame n
        have hds := drainSame env (s1.dropFrame.popEdge env n) n
        have hf : (s1.pop env n).data = s1.data ∧ (s1.pop env n).inputs = s1.inputs ∧
            (s1.pop env n).stack = s1.stack.dropLast ∧ (s1.pop env n).idx = s1.idx.dropLast :=
          ⟨hds.data.trans hf0.1, hds.inputs.trans hf0.2.1, hds.stack.trans hf0.2.2.1, hds.idx.trans hf0.2.2.2⟩
        have het : (s1.dropFrame).edgeTarget = ({ s with gn := s1.gn } : St).edgeTarget := by
          simp [St.edgeTarget, St.dropFrame, hdropS, hdropI]
        refine ⟨GI.finishUncached g1 s.stack n hs1 (s' := s1.pop env n)
          hf.1
          hf.2.1
          (hf.2.2.1.trans hdropS)
          ({ s with gn := s1.gn } : St).edgeTarget hT ?_ ?_ ?_, ?_, ?_,
          hext0.trans (Ext.of_data (a := s1) (b := s1.pop env n) hf.1)⟩
        · intro x
          show x ∈ (s1.pop env n).gn ↔ _
          unfold St.pop
          rw [hds.gn]
          simp only [St.popEdge, het]
          cases ({ s with gn := s1.gn } : St).edgeTarget with
          | none => simp [hc', St.dropFrame]
          | some t => simp [hc', mem_addEdge_gn, St.dropFrame]
        · intro e
          show e ∈ (s1.pop env n).ge ↔ _
          unfold St.pop
          rw [hds.ge]
          simp only [St.popEdge, het]
          cases ({ s with gn := s1.gn } : St).edgeTarget with
          | none => simp [hc', St.dropFrame]
          | some t => simp [hc', mem_addEdge_ge, St.dropFrame]
        · intro hn; have := g1.elemCached n hn; rw [hc'] at this; cases this
        · exact hf.2.2.1.trans hdropS
        · exact hf.2.2.2.trans hdropI

end MxModel.Exec
