import MxModel.Proofs.ExecTrace
import MxModel.Exec.Expr
/-! Every formula of the concrete grammar compiles to a `Proper` behaviour, so `ProperEnv`
holds for every environment the driver builds. -/
namespace MxModel.Exec

def HOK (h : Bool → Err → Prog) : Prop :=
  (∀ e, Proper (h true e)) ∧ (∀ e, h false e = .reraise e ∨ Proper (h false e))

theorem arith_proper (op : Int → Int → Int) (a b : Val) (k : Val → Prog) (h : Bool → Err → Prog)
    (hk : ∀ v, Proper (k v)) (hh : HOK h) : Proper (arith op a b k h) := by
  unfold arith
  split
  · exact hk _
  · exact hh.1 _

mutual
theorem compile_proper (ar : CellId → Option Nat) (params : List Val) :
    ∀ (e : Expr) (k : Val → Prog) (h : Bool → Err → Prog),
      (∀ v, Proper (k v)) → HOK h → Proper (compile ar params e k h)
  | .lit i, k, h, hk, _ => by simp only [compile]; exact hk _
  | .none, k, h, hk, _ => by simp only [compile]; exact hk _
  | .param i, k, h, hk, hh => by
    simp only [compile]; split
    · exact hk _
    · exact hh.1 _
  | .add a b, k, h, hk, hh => by
    simp only [compile]
    exact compile_proper ar params a _ h (fun x => compile_proper ar params b _ h
      (fun y => arith_proper _ x y k h hk hh) hh) hh
  | .sub a b, k, h, hk, hh => by
    simp only [compile]
    exact compile_proper ar params a _ h (fun x => compile_proper ar params b _ h
      (fun y => arith_proper _ x y k h hk hh) hh) hh
  | .mul a b, k, h, hk, hh => by
    simp only [compile]
    exact compile_proper ar params a _ h (fun x => compile_proper ar params b _ h
      (fun y => arith_proper _ x y k h hk hh) hh) hh
  | .lt a b, k, h, hk, hh => by
    simp only [compile]
    exact compile_proper ar params a _ h (fun x => compile_proper ar params b _ h
      (fun y => arith_proper _ x y k h hk hh) hh) hh
  | .ite c a b, k, h, hk, hh => by
    simp only [compile]
    refine compile_proper ar params c _ h (fun x => ?_) hh
    split
    · exact compile_proper ar params a k h hk hh
    · exact compile_proper ar params b k h hk hh
  | .call c args, k, h, hk, hh => by
    simp only [compile]
    split
    · exact hh.1 _
    · refine compileArgs_proper ar params args _ h (fun vs => ?_) hh
      split
      · simp only [Proper]
        exact ⟨fun v => hk v, fun e => hh.2 e⟩
      · exact hh.1 _
  | .readN r, k, h, hk, hh => by
    simp only [compile, Proper]; intro o; cases o with
    | some v => exact hk v
    | none => exact hh.1 _
  | .readA r, k, h, hk, hh => by
    simp only [compile, Proper]; intro o; cases o with
    | some v => exact hk v
    | none => exact hh.1 _
  | .raise e, k, h, _, hh => by simp only [compile]; exact hh.1 _
  | .try_ a c b, k, h, hk, hh => by
    simp only [compile]
    refine compile_proper ar params a k _ hk ⟨fun e => ?_, fun e => ?_⟩
    · show Proper (if c.catches e = true then compile ar params b k h else h true e)
      split
      · exact compile_proper ar params b k h hk hh
      · exact hh.1 e
    · show (if c.catches e = true then compile ar params b k h else h false e) = Prog.reraise e ∨
        Proper (if c.catches e = true then compile ar params b k h else h false e)
      split
      · exact Or.inr (compile_proper ar params b k h hk hh)
      · exact hh.2 e
theorem compileArgs_proper (ar : CellId → Option Nat) (params : List Val) :
    ∀ (es : List Expr) (k : List Val → Prog) (h : Bool → Err → Prog),
      (∀ vs, Proper (k vs)) → HOK h → Proper (compileArgs ar params es k h)
  | [], k, h, hk, _ => by simp only [compileArgs]; exact hk _
  | e :: es, k, h, hk, hh => by
    simp only [compileArgs]
    exact compile_proper ar params e _ h
      (fun v => compileArgs_proper ar params es _ h (fun vs => hk _) hh) hh
end

theorem formulaOf_proper (ar : CellId → Option Nat) (e : Expr) (key : Key) :
    Proper (formulaOf ar e key) := by
  unfold formulaOf
  refine compile_proper ar key e _ _ (fun v => by simp [Proper]) ⟨fun e => ?_, fun e => ?_⟩
  · simp [Proper]
  · left; simp

end MxModel.Exec
