import MxModel.Proofs.ExecTrace
import MxModel.Exec.Expr
import MxModel.Proofs.ExprBind
/-! Every formula of the concrete grammar compiles to a `Proper` behaviour, so `ProperEnv`
holds for every environment the driver builds. -/
namespace MxModel.Exec

/-- error continuations: a new exception in a formula that is `live` or not, and an exception
received from a callee (after which the formula is live) -/
def HOK (live : Bool) (h : Bool → Err → Prog) : Prop :=
  (∀ e, ProperL live (h true e)) ∧ (∀ e, ProperL true (h false e))

theorem HOK.of {live : Bool} {h : Bool → Err → Prog} (hh : HOK live h) : HOK true h :=
  ⟨fun e => ProperL.of live _ (hh.1 e), hh.2⟩

theorem arith_proper (live : Bool) (op : Int → Int → Int) (a b : Val) (k : Val → Prog) (h : Bool → Err → Prog)
    (hk : ∀ v, ProperL live (k v)) (hh : HOK live h) : ProperL live (arith op a b k h) := by
  unfold arith
  split
  · exact hk _
  · exact hh.1 _

mutual
theorem compile_proper (ar : CellId → Option Nat) (params : List Val) :
    ∀ (e : Expr) (live : Bool) (k : Val → Prog) (h : Bool → Err → Prog),
      (∀ v, ProperL live (k v)) → HOK live h → ProperL live (compile ar params e k h)
  | .lit i, live, k, h, hk, _ => by simp only [compile]; exact hk _
  | .none, live, k, h, hk, _ => by simp only [compile]; exact hk _
  | .param i, live, k, h, hk, hh => by
    simp only [compile]; split
    · exact hk _
    · exact hh.1 _
  | .add a b, live, k, h, hk, hh => by
    simp only [compile]
    exact compile_proper ar params a live _ h (fun x => compile_proper ar params b live _ h
      (fun y => arith_proper live _ x y k h hk hh) hh) hh
  | .sub a b, live, k, h, hk, hh => by
    simp only [compile]
    exact compile_proper ar params a live _ h (fun x => compile_proper ar params b live _ h
      (fun y => arith_proper live _ x y k h hk hh) hh) hh
  | .mul a b, live, k, h, hk, hh => by
    simp only [compile]
    exact compile_proper ar params a live _ h (fun x => compile_proper ar params b live _ h
      (fun y => arith_proper live _ x y k h hk hh) hh) hh
  | .lt a b, live, k, h, hk, hh => by
    simp only [compile]
    exact compile_proper ar params a live _ h (fun x => compile_proper ar params b live _ h
      (fun y => arith_proper live _ x y k h hk hh) hh) hh
  | .ite c a b, live, k, h, hk, hh => by
    simp only [compile]
    refine compile_proper ar params c live _ h (fun x => ?_) hh
    split
    · exact compile_proper ar params a live k h hk hh
    · exact compile_proper ar params b live k h hk hh
  | .call c args, live, k, h, hk, hh => by
    simp only [compile]
    split
    · exact hh.1 _
    · refine compileArgs_proper ar params args live _ h (fun vs => ?_) hh
      split
      · simp only [ProperL]
        exact ⟨fun v => hk v, fun e => hh.2 e⟩
      · exact hh.1 _
  | .readN r, live, k, h, hk, hh => by
    simp only [compile, ProperL]; intro o; cases o with
    | some v => exact hk v
    | none => exact hh.1 _
  | .readA r, live, k, h, hk, hh => by
    simp only [compile, ProperL]; intro o; cases o with
    | some v => exact hk v
    | none => exact hh.1 _
  | .raise e, live, k, h, _, hh => by simp only [compile]; exact hh.1 _
  | .try_ a c b, live, k, h, hk, hh => by
    simp only [compile]
    refine compile_proper ar params a live k _ hk ⟨fun e => ?_, fun e => ?_⟩
    · show ProperL live (if c.catches e = true then compile ar params b k h else h true e)
      split
      · exact compile_proper ar params b live k h hk hh
      · exact hh.1 e
    · show ProperL true (if c.catches e = true then compile ar params b k h else h false e)
      split
      · exact compile_proper ar params b true k h (fun v => ProperL.of live _ (hk v)) hh.of
      · exact hh.2 e
  | .tryRe a c b, live, k, h, hk, hh => by
    simp only [compile]
    refine compile_proper ar params a live k _ hk ⟨fun e => ?_, fun e => ?_⟩
    · show ProperL live (if c.catches e = true then compile ar params b (fun _ => h true e) h else h true e)
      split
      · exact compile_proper ar params b live _ h (fun _ => hh.1 e) hh
      · exact hh.1 e
    · -- the exception was received from a callee: the block runs while the formula is live, and
      -- ends in the re-raise
      show ProperL true (if c.catches e = true then compile ar params b (fun _ => h false e) h else h false e)
      split
      · exact compile_proper ar params b true _ h (fun _ => hh.2 e) hh.of
      · exact hh.2 e
  | .tryFin a b, live, k, h, hk, hh => by
    simp only [compile]
    refine compile_proper ar params a live _ _
      (fun v => compile_proper ar params b live _ h (fun _ => hk v) hh) ⟨fun e => ?_, fun e => ?_⟩
    · exact compile_proper ar params b live _ h (fun _ => hh.1 e) hh
    · exact compile_proper ar params b true _ h (fun _ => hh.2 e) hh.of
  | .callK c args npos kws dflt, live, k, h, hk, hh => by
    simp only [compile]
    split
    · exact hh.1 _
    · refine compileArgs_proper ar params args live _ h (fun vs => ?_) hh
      split
      · simp only [ProperL]
        exact ⟨fun v => hk v, fun e => hh.2 e⟩
      · exact hh.1 _
theorem compileArgs_proper (ar : CellId → Option Nat) (params : List Val) :
    ∀ (es : List Expr) (live : Bool) (k : List Val → Prog) (h : Bool → Err → Prog),
      (∀ vs, ProperL live (k vs)) → HOK live h → ProperL live (compileArgs ar params es k h)
  | [], live, k, h, hk, _ => by simp only [compileArgs]; exact hk _
  | e :: es, live, k, h, hk, hh => by
    simp only [compileArgs]
    exact compile_proper ar params e live _ h
      (fun v => compileArgs_proper ar params es live _ h (fun vs => hk _) hh) hh
end

theorem formulaOf_proper (ar : CellId → Option Nat) (e : Expr) (key : Key) :
    Proper (formulaOf ar e key) := by
  unfold formulaOf Proper
  refine compile_proper ar key e false _ _ (fun v => by simp [ProperL]) ⟨fun e => ?_, fun e => ?_⟩
  · simp [ProperL]
  · simp [ProperL]

end MxModel.Exec
