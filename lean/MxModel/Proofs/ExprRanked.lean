import MxModel.Proofs.ExecGraph
import MxModel.Exec.Expr
/-! Programs of the concrete grammar in which every cells calls only cells with a smaller
id are `Ranked` for the order "smaller cells id" – a syntactic class of terminating programs
on which the graph theorems are non-vacuous. -/
namespace MxModel.Exec

mutual
def callsBelowId (i : CellId) : Expr → Bool
  | .lit _ => true
  | .none => true
  | .param _ => true
  | .add a b => callsBelowId i a && callsBelowId i b
  | .sub a b => callsBelowId i a && callsBelowId i b
  | .mul a b => callsBelowId i a && callsBelowId i b
  | .lt a b => callsBelowId i a && callsBelowId i b
  | .ite c a b => callsBelowId i c && callsBelowId i a && callsBelowId i b
  | .call c args => decide (c < i) && callsBelowIdList i args
  | .readN _ => true
  | .readA _ => true
  | .raise _ => true
  | .try_ a _ b => callsBelowId i a && callsBelowId i b
  | .tryRe a _ b => callsBelowId i a && callsBelowId i b
  | .tryFin a b => callsBelowId i a && callsBelowId i b
  | .callK c args _ _ _ => decide (c < i) && callsBelowIdList i args
def callsBelowIdList (i : CellId) : List Expr → Bool
  | [] => true
  | e :: es => callsBelowId i e && callsBelowIdList i es
end

def idLt (a b : Node) : Prop := a.1 < b.1

theorem idLt_strict : StrictOrder idLt :=
  ⟨fun a h => Nat.lt_irrefl _ h, fun _ _ _ h1 h2 => Nat.lt_trans h1 h2⟩

theorem arith_below (n : Node) (op : Int → Int → Int) (a b : Val) (k : Val → Prog)
    (h : Bool → Err → Prog) (hk : ∀ v, CallsBelow idLt n (k v)) (hh : ∀ x e, CallsBelow idLt n (h x e)) :
    CallsBelow idLt n (arith op a b k h) := by
  unfold arith; split
  · exact hk _
  · exact hh _ _

mutual
theorem compile_below (ar : CellId → Option Nat) (params : List Val) (n : Node) :
    ∀ (e : Expr) (k : Val → Prog) (h : Bool → Err → Prog), callsBelowId n.1 e = true →
      (∀ v, CallsBelow idLt n (k v)) → (∀ x e, CallsBelow idLt n (h x e)) →
      CallsBelow idLt n (compile ar params e k h)
  | .lit i, k, h, _, hk, _ => by simp only [compile]; exact hk _
  | .none, k, h, _, hk, _ => by simp only [compile]; exact hk _
  | .param i, k, h, _, hk, hh => by
    simp only [compile]; split
    · exact hk _
    · exact hh _ _
  | .add a b, k, h, hc, hk, hh => by
    simp only [callsBelowId, Bool.and_eq_true] at hc
    simp only [compile]
    exact compile_below ar params n a _ h hc.1 (fun x => compile_below ar params n b _ h hc.2
      (fun y => arith_below n _ x y k h hk hh) hh) hh
  | .sub a b, k, h, hc, hk, hh => by
    simp only [callsBelowId, Bool.and_eq_true] at hc
    simp only [compile]
    exact compile_below ar params n a _ h hc.1 (fun x => compile_below ar params n b _ h hc.2
      (fun y => arith_below n _ x y k h hk hh) hh) hh
  | .mul a b, k, h, hc, hk, hh => by
    simp only [callsBelowId, Bool.and_eq_true] at hc
    simp only [compile]
    exact compile_below ar params n a _ h hc.1 (fun x => compile_below ar params n b _ h hc.2
      (fun y => arith_below n _ x y k h hk hh) hh) hh
  | .lt a b, k, h, hc, hk, hh => by
    simp only [callsBelowId, Bool.and_eq_true] at hc
    simp only [compile]
    exact compile_below ar params n a _ h hc.1 (fun x => compile_below ar params n b _ h hc.2
      (fun y => arith_below n _ x y k h hk hh) hh) hh
  | .ite c a b, k, h, hc, hk, hh => by
    simp only [callsBelowId, Bool.and_eq_true] at hc
    simp only [compile]
    refine compile_below ar params n c _ h hc.1.1 (fun x => ?_) hh
    split
    · exact compile_below ar params n a k h hc.1.2 hk hh
    · exact compile_below ar params n b k h hc.2 hk hh
  | .call c args, k, h, hc, hk, hh => by
    simp only [callsBelowId, Bool.and_eq_true, decide_eq_true_eq] at hc
    simp only [compile]
    split
    · exact hh _ _
    · refine compileArgs_below ar params n args _ h hc.2 (fun vs => ?_) hh
      split
      · simp only [CallsBelow]
        refine ⟨hc.1, fun r => ?_⟩
        cases r with
        | ok v => exact hk v
        | err e => exact hh _ _
      · exact hh _ _
  | .readN r, k, h, _, hk, hh => by
    simp only [compile, CallsBelow]; intro o; cases o with
    | some v => exact hk v
    | none => exact hh _ _
  | .readA r, k, h, _, hk, hh => by
    simp only [compile, CallsBelow]; intro o; cases o with
    | some v => exact hk v
    | none => exact hh _ _
  | .raise e, k, h, _, _, hh => by simp only [compile]; exact hh _ _
  | .try_ a c b, k, h, hc, hk, hh => by
    simp only [callsBelowId, Bool.and_eq_true] at hc
    simp only [compile]
    refine compile_below ar params n a k _ hc.1 hk (fun x e => ?_)
    show CallsBelow idLt n (if c.catches e = true then compile ar params b k h else h x e)
    split
    · exact compile_below ar params n b k h hc.2 hk hh
    · exact hh _ _
  | .tryRe a c b, k, h, hc, hk, hh => by
    simp only [callsBelowId, Bool.and_eq_true] at hc
    simp only [compile]
    refine compile_below ar params n a k _ hc.1 hk (fun x e => ?_)
    show CallsBelow idLt n (if c.catches e = true then compile ar params b (fun _ => h x e) h else h x e)
    split
    · exact compile_below ar params n b _ h hc.2 (fun _ => hh _ _) hh
    · exact hh _ _
  | .tryFin a b, k, h, hc, hk, hh => by
    simp only [callsBelowId, Bool.and_eq_true] at hc
    simp only [compile]
    exact compile_below ar params n a _ _ hc.1
      (fun v => compile_below ar params n b _ h hc.2 (fun _ => hk v) hh)
      (fun x e => compile_below ar params n b _ h hc.2 (fun _ => hh _ _) hh)
  | .callK c args npos kws dflt, k, h, hc, hk, hh => by
    simp only [callsBelowId, Bool.and_eq_true, decide_eq_true_eq] at hc
    simp only [compile]
    split
    · exact hh _ _
    · refine compileArgs_below ar params n args _ h hc.2 (fun vs => ?_) hh
      split
      · simp only [CallsBelow]
        refine ⟨hc.1, fun r => ?_⟩
        cases r with
        | ok v => exact hk v
        | err e => exact hh _ _
      · exact hh _ _
theorem compileArgs_below (ar : CellId → Option Nat) (params : List Val) (n : Node) :
    ∀ (es : List Expr) (k : List Val → Prog) (h : Bool → Err → Prog), callsBelowIdList n.1 es = true →
      (∀ vs, CallsBelow idLt n (k vs)) → (∀ x e, CallsBelow idLt n (h x e)) →
      CallsBelow idLt n (compileArgs ar params es k h)
  | [], k, h, _, hk, _ => by simp only [compileArgs]; exact hk _
  | e :: es, k, h, hc, hk, hh => by
    simp only [callsBelowIdList, Bool.and_eq_true] at hc
    simp only [compileArgs]
    exact compile_below ar params n e _ h hc.1
      (fun v => compileArgs_below ar params n es _ h hc.2 (fun vs => hk _) hh) hh
end

/-- an environment built from a table of `Expr` bodies in which cells `i` calls only cells
`< i` is ranked by the cells id -/
theorem ranked_of_table (cells : CellId → Option Expr) (ar : CellId → Option Nat) (env : Env)
    (hf : ∀ n, env.formula n = match cells n.1 with
      | some e => formulaOf ar e n.2
      | none => .raise (.user kName))
    (hcalls : ∀ i e, cells i = some e → callsBelowId i e = true) : Ranked env idLt := by
  intro n
  rw [hf n]
  split
  · rename_i e he
    unfold formulaOf
    refine compile_below ar n.2 n e _ _ (hcalls _ e he) (fun v => by simp [CallsBelow]) (fun x e' => ?_)
    split <;> simp [CallsBelow]
  · simp [CallsBelow]

end MxModel.Exec
