import MxModel.Proofs.EditMachineGlobalsRun
import MxModel.Proofs.EditMachineExamples
/-!
# The machine with model-level references: the regime from the sources, the example history

* sources that read references only through attribute paths (`NsAttrOnly`) are `Scoped` whatever slots
  are declared; with `NsNoCatch` and `NsNoCalls` every history that deletes no space is admissible
  (`admissibleG_of_sources`).
* `gOps`: `m.x = 1`; `B.x = 5`; `T.c` reads `S.x`; `T.c()` (1); `S.add_bases(B)`; `T.c()` (5).
-/
namespace MxModel.Edit
open MxModel.Exec MxModel.C02 MxModel.SM

/-- no by-name read of a reference at all -/
def NsAttrOnly (p : SProg) : Prop := ∀ ns : Ns, NameReadsIn (fun _ => False) (resolve ns p)

theorem scoped_envOf_attrOnly (P : Params) (t : Tabs) (st : SM.St) (h : ∀ v key, NsAttrOnly (P.srcOf v key)) :
    Scoped (envOf P t st) := by
  intro n
  show NameReadsIn _ ((envOf P t st).formula n)
  simp only [envOf]
  cases hi : cellInfo t st n.1 with
  | none => trivial
  | some i =>
    obtain ⟨q, x, m⟩ := i
    exact nameReadsIn_mono (fun _ hf => hf.elim) _ (h m.payload n.2 (nsAt t st q))

theorem wf_envOf_attrOnly (P : Params) (t : Tabs) (st : SM.St) (lt : Node → Node → Prop)
    (hnc : ∀ v key, NsNoCatch (P.srcOf v key)) (hao : ∀ v key, NsAttrOnly (P.srcOf v key))
    (hcalls : ∀ v key, NsNoCalls (P.srcOf v key)) : WF (envOf P t st) lt :=
  ⟨ranked_envOf_noCalls P t st lt hcalls, noCatch_envOf P t st hnc, scoped_envOf_attrOnly P t st hao⟩

/-- **every history is admissible** for sources that read references through attribute paths only, call
nothing and catch nothing -/
theorem admissibleG_of_sources (P : Params) (lt : Node → Node → Prop)
    (hnc : ∀ v key, NsNoCatch (P.srcOf v key)) (hao : ∀ v key, NsAttrOnly (P.srcOf v key))
    (hcalls : ∀ v key, NsNoCalls (P.srcOf v key)) :
    ∀ (ops : List OpG) (w : W), AdmissibleG P lt w ops := by
  intro ops
  induction ops with
  | nil => intro w; trivial
  | cons op rest ih =>
    intro w
    exact ⟨wf_envOf_attrOnly P _ _ lt hnc hao hcalls, ih _⟩

/-! ## the example -/

/-- the value of the attribute path `x` (a declared slot): read by attribute -/
def readAttr (x : String) : SProg :=
  .name x (fun b => match b with
    | some (.ref r) => .read true r (fun o => match o with
      | some v => .ret v
      | none => .raise (.user 4))
    | _ => .raise (.user 3))

/-- every cells is `def c(): return S.x`; reference payloads are their values -/
def gP : Params where
  srcOf := fun _ _ => readAttr "S.x"
  valOf := fun v => .int v
  flagOf := fun _ => true
  anOf := fun _ => false
  maxdepth := 50
  kw := []

def gSlots : List (Path × String) := [(["S"], "x")]

/-- `m.x = 1`; `B.x = 5`; `T.c = lambda: S.x`; `T.c()`; `S.add_bases(B)`; `T.c()` -/
def gOps : List OpG := [
  .setGlobal "x" 1,
  .op (.struct (.newSpace [] "B" [] [])),
  .op (.struct (.setRef ["B"] "x" 5)),
  .op (.struct (.newSpace [] "S" [] [])),
  .op (.struct (.newSpace [] "T" [] [])),
  .op (.struct (.newCells ["T"] "c" "c" 0)),
  .op (.eval ["T"] "c" []),
  .op (.struct (.addBases ["S"] [["B"]])),
  .op (.eval ["T"] "c" [])]

theorem readAttr_ok (x : String) : NsNoCatch (readAttr x) ∧ NsAttrOnly (readAttr x) ∧ NsNoCalls (readAttr x) := by
  refine ⟨?_, ?_, ?_⟩
  · intro ns
    simp only [readAttr, resolve]
    cases ns x with
    | none => trivial
    | some b =>
      cases b with
      | cell c => trivial
      | ref r =>
        refine ⟨fun _ => ?_, fun o => ?_⟩
        · trivial
        · cases o <;> trivial
  · intro ns
    simp only [readAttr, resolve]
    cases ns x with
    | none => trivial
    | some b =>
      cases b with
      | cell c => trivial
      | ref r =>
        refine ⟨(fun h => nomatch h), fun o => ?_⟩
        cases o <;> trivial
  · intro ns lt n
    simp only [readAttr, resolve]
    cases ns x with
    | none => trivial
    | some b =>
      cases b with
      | cell c => trivial
      | ref r =>
        intro o
        cases o <;> trivial

theorem gOps_admissible : AdmissibleG gP idLt (W.init gSlots) gOps :=
  admissibleG_of_sources gP idLt (fun _ _ => (readAttr_ok _).1) (fun _ _ => (readAttr_ok _).2.1)
    (fun _ _ => (readAttr_ok _).2.2) gOps _

/-! ## the code before /repo 5b95fbf -/

/-- the clearing of the code BEFORE 5b95fbf: `on_create_ref` (every `space.x = v`) clears the readers of the
model-level reference the new reference shadows; `UserSpaceImpl.on_inherit` (a member derived through a
change of bases) does not -/
def clearingPre (kw : List String) (t : Tabs) (st st' : SM.St) (o : SM.Op) : List Clear :=
  clearing kw t st st' o ++
    (match o with
     | .setRef _ name _ => if st.globals.contains name then globalAttr t st name else []
     | _ => [])

/-- the coverage check of a structural step for that clearing -/
def stepCoveredPre (P : Params) (w : W) (o : SM.Op) : Bool :=
  match w.sm.apply P.kw o with
  | none => true
  | some st' => covered (w.tabs.grow st') w.sm st' (clearingPre P.kw (w.tabs.grow st') w.sm st' o)

/-- the machine step with that clearing -/
def stepPre (P : Params) (w : W) (o : SM.Op) : W :=
  match w.sm.apply P.kw o with
  | none => w
  | some st' =>
    let t' := w.tabs.grow st'
    { sm := st', tabs := t', ex := doClears (envOf P t' w.sm) w.ex (clearingPre P.kw t' w.sm st' o) }

/-! ## the code before /repo 40cbe69 -/

/-- `m.x = 1`; `T.c = lambda: S.x`; `T.c()`; `del m.S`; `T.c()` -/
def hOps : List OpG := [
  .setGlobal "x" 1,
  .op (.struct (.newSpace [] "S" [] [])),
  .op (.struct (.newSpace [] "T" [] [])),
  .op (.struct (.newCells ["T"] "c" "c" 0)),
  .op (.eval ["T"] "c" []),
  .op (.struct (.delSpace ["S"])),
  .op (.eval ["T"] "c" [])]

theorem hOps_admissible : AdmissibleG gP idLt (W.init gSlots) hOps :=
  admissibleG_of_sources gP idLt (fun _ _ => (readAttr_ok _).1) (fun _ _ => (readAttr_ok _).2.1)
    (fun _ _ => (readAttr_ok _).2.2) hOps _

/-- the clearing of the code BEFORE 40cbe69: `BaseSpaceImpl.on_delete` clears the attribute readers of the
deleted space's own references only -/
def clearingPre40 (kw : List String) (t : Tabs) (st st' : SM.St) (o : SM.Op) : List Clear :=
  clearing kw t st st' o ++
    (match o with
     | .delSpace _ => (shadowed st st' false ++ shadowedCells st st').flatMap (globalAttr t st)
     | o => shadowClears t st st' o)

def stepCoveredPre40 (P : Params) (w : W) (o : SM.Op) : Bool :=
  match w.sm.apply P.kw o with
  | none => true
  | some st' => covered (w.tabs.grow st') w.sm st' (clearingPre40 P.kw (w.tabs.grow st') w.sm st' o)

def stepPre40 (P : Params) (w : W) (o : SM.Op) : W :=
  match w.sm.apply P.kw o with
  | none => w
  | some st' =>
    let t' := w.tabs.grow st'
    { sm := st', tabs := t', ex := doClears (envOf P t' w.sm) w.ex (clearingPre40 P.kw t' w.sm st' o) }

end MxModel.Edit
