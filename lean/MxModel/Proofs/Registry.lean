import MxModel.Kernels.Registry
import MxModel.Proofs.Names
/-! Invariant of the model registry and its preservation by every operation. -/
namespace MxModel.Registry
open MxModel.Names

def ids (ms : List (String × Model)) : List Nat := ms.map (·.2.id)
def mkeys (ms : List (String × Model)) : List String := ms.map (·.1)

/-- the registry invariant on the dict alone -/
structure MInv (ms : List (String × Model)) (bound : Nat) : Prop where
  nameKey : ∀ e ∈ ms, e.2.name = e.1
  keysNodup : (mkeys ms).Nodup
  idsNodup : (ids ms).Nodup
  idsLt : ∀ e ∈ ms, e.2.id < bound

def RegInv (r : Reg) : Prop := MInv r.models r.nextId

theorem keys_eq (r : Reg) : keys r = mkeys r.models := rfl

theorem lookupName_some {ms : List (String × Model)} {n : String} {m : Model}
    (h : lookupName ms n = some m) : (n, m) ∈ ms := by
  induction ms with
  | nil => simp [lookupName] at h
  | cons e rest ih =>
    obtain ⟨k, m'⟩ := e
    simp only [lookupName] at h
    split at h
    · rename_i hk; cases h; subst hk; simp
    · exact List.mem_cons_of_mem _ (ih h)

theorem lookupName_none {ms : List (String × Model)} {n : String}
    (h : lookupName ms n = none) : n ∉ mkeys ms := by
  induction ms with
  | nil => simp [mkeys]
  | cons e rest ih =>
    obtain ⟨k, m'⟩ := e
    simp only [lookupName] at h
    split at h
    · cases h
    · rename_i hk
      simp only [mkeys, List.map_cons, List.mem_cons, not_or]
      exact ⟨fun h' => hk h'.symm, ih h⟩

theorem lookupId_some {ms : List (String × Model)} {i : Nat} {m : Model}
    (h : lookupId ms i = some m) : (∃ k, (k, m) ∈ ms) ∧ m.id = i := by
  induction ms with
  | nil => simp [lookupId] at h
  | cons e rest ih =>
    obtain ⟨k, m'⟩ := e
    simp only [lookupId] at h
    split at h
    · rename_i hk; cases h; exact ⟨⟨k, by simp⟩, hk⟩
    · obtain ⟨⟨k', hk'⟩, hid⟩ := ih h
      exact ⟨⟨k', List.mem_cons_of_mem _ hk'⟩, hid⟩

theorem lookupId_of_mem {ms : List (String × Model)} {i : Nat}
    (h : i ∈ ids ms) : ∃ m, lookupId ms i = some m := by
  induction ms with
  | nil => simp [ids] at h
  | cons e rest ih =>
    obtain ⟨k, m'⟩ := e
    simp only [lookupId]
    split
    · exact ⟨m', rfl⟩
    · rename_i hne
      simp only [ids, List.map_cons, List.mem_cons] at h
      rcases h with h | h
      · exact absurd h.symm hne
      · exact ih h

theorem lookupId_mem_ids {ms : List (String × Model)} {i : Nat} {m : Model}
    (h : lookupId ms i = some m) : i ∈ ids ms := by
  obtain ⟨⟨k, hk⟩, hid⟩ := lookupId_some h
  simp only [ids, List.mem_map]
  exact ⟨(k, m), hk, hid⟩

theorem mem_eraseName {ms : List (String × Model)} {n : String} {e : String × Model} :
    e ∈ eraseName ms n ↔ e ∈ ms ∧ e.1 ≠ n := by
  simp [eraseName]

theorem ids_eraseName_sub (ms : List (String × Model)) (n : String) :
    ∀ i ∈ ids (eraseName ms n), i ∈ ids ms := by
  intro i hi
  simp only [ids, List.mem_map] at hi ⊢
  obtain ⟨e, he, rfl⟩ := hi
  exact ⟨e, (mem_eraseName.mp he).1, rfl⟩

theorem nodup_map_filter {α β} (f : α → β) (p : α → Bool) (l : List α)
    (h : (l.map f).Nodup) : ((l.filter p).map f).Nodup := by
  exact List.Sublist.nodup (List.Sublist.map f List.filter_sublist) h

theorem MInv.erase {ms : List (String × Model)} {b : Nat} (h : MInv ms b) (n : String) :
    MInv (eraseName ms n) b where
  nameKey := fun e he => h.nameKey e (mem_eraseName.mp he).1
  keysNodup := nodup_map_filter _ _ _ h.keysNodup
  idsNodup := nodup_map_filter _ _ _ h.idsNodup
  idsLt := fun e he => h.idsLt e (mem_eraseName.mp he).1

theorem key_not_in_erase (ms : List (String × Model)) (n : String) :
    n ∉ mkeys (eraseName ms n) := by
  simp only [mkeys, List.mem_map, not_exists, not_and]
  intro e he heq
  exact (mem_eraseName.mp he).2 heq

theorem inj_of_nodup_map {α β} (f : α → β) {l : List α} (h : (l.map f).Nodup)
    {a b : α} (ha : a ∈ l) (hb : b ∈ l) (hab : f a = f b) : a = b := by
  induction l with
  | nil => simp at ha
  | cons e rest ih =>
    simp only [List.map_cons, List.nodup_cons, List.mem_map, not_exists, not_and] at h
    simp only [List.mem_cons] at ha hb
    rcases ha with rfl | ha <;> rcases hb with rfl | hb
    · rfl
    · exact absurd hab.symm (h.1 b hb)
    · exact absurd hab (h.1 a ha)
    · exact ih h.2 ha hb

/-- two entries with the same id are the same entry -/
theorem MInv.id_inj {ms : List (String × Model)} {b : Nat} (h : MInv ms b)
    {e1 e2 : String × Model} (h1 : e1 ∈ ms) (h2 : e2 ∈ ms) (hid : e1.2.id = e2.2.id) :
    e1 = e2 :=
  inj_of_nodup_map (fun e : String × Model => e.2.id) (l := ms) h.idsNodup h1 h2 hid

theorem MInv.key_inj {ms : List (String × Model)} {b : Nat} (h : MInv ms b)
    {e1 e2 : String × Model} (h1 : e1 ∈ ms) (h2 : e2 ∈ ms) (hk : e1.1 = e2.1) :
    e1 = e2 :=
  inj_of_nodup_map (fun e : String × Model => e.1) (l := ms) h.keysNodup h1 h2 hk

theorem MInv.snoc {ms : List (String × Model)} {b : Nat} (h : MInv ms b)
    (nm : String) (m : Model) (hname : m.name = nm) (hk : nm ∉ mkeys ms)
    (hi : m.id ∉ ids ms) (b' : Nat) (hb : b ≤ b') (hlt : m.id < b') :
    MInv (ms ++ [(nm, m)]) b' where
  nameKey := by
    intro e he
    simp only [List.mem_append, List.mem_singleton] at he
    rcases he with he | rfl
    · exact h.nameKey e he
    · exact hname
  keysNodup := by
    simp only [mkeys, List.map_append, List.map_cons, List.map_nil]
    refine List.nodup_append.mpr ⟨h.keysNodup, by simp, ?_⟩
    intro a ha b hb2
    simp only [List.mem_singleton] at hb2
    subst hb2
    intro hab; subst hab; exact hk ha
  idsNodup := by
    simp only [ids, List.map_append, List.map_cons, List.map_nil]
    refine List.nodup_append.mpr ⟨h.idsNodup, by simp, ?_⟩
    intro a ha b hb2
    simp only [List.mem_singleton] at hb2
    subst hb2
    intro hab; subst hab; exact hi ha
  idsLt := by
    intro e he
    simp only [List.mem_append, List.mem_singleton] at he
    rcases he with he | rfl
    · exact Nat.lt_of_lt_of_le (h.idsLt e he) hb
    · exact hlt

theorem MInv.move {ms : List (String × Model)} {b : Nat} (h : MInv ms b)
    (old new : String) (hnew : new ∉ mkeys ms) : MInv (moveKey ms old new) b := by
  unfold moveKey
  cases hl : lookupName ms old with
  | none => exact h
  | some m =>
    simp only []
    have hmem := lookupName_some hl
    refine MInv.snoc (h.erase old) new _ rfl ?_ ?_ b (Nat.le_refl _) (h.idsLt _ hmem)
    · intro hc
      simp only [mkeys, List.mem_map] at hc hnew
      obtain ⟨e, he, heq⟩ := hc
      exact hnew ⟨e, (mem_eraseName.mp he).1, heq⟩
    · intro hc
      simp only [ids, List.mem_map] at hc
      obtain ⟨e, he, heq⟩ := hc
      have := h.id_inj (mem_eraseName.mp he).1 hmem heq
      exact (mem_eraseName.mp he).2 (by rw [this])

/-- ids are preserved (as a set) by `moveKey` -/
theorem ids_moveKey {ms : List (String × Model)} {b : Nat} (h : MInv ms b)
    (old new : String) (i : Nat) :
    i ∈ ids ms → i ∈ ids (moveKey ms old new) := by
  intro hi
  unfold moveKey
  cases hl : lookupName ms old with
  | none => exact hi
  | some m =>
    simp only [ids, List.map_append, List.mem_append, List.mem_map] at hi ⊢
    obtain ⟨e, he, rfl⟩ := hi
    by_cases hk : e.1 = old
    · right
      have hmem := lookupName_some hl
      have : e = (old, m) := h.key_inj he hmem hk
      subst this
      exact ⟨(new, { m with name := new }), by simp, rfl⟩
    · left; exact ⟨e, mem_eraseName.mpr ⟨he, hk⟩, rfl⟩


/-! ### operations preserve the invariant and never drop a model -/

theorem renamePlain_inv {r : Reg} (h : RegInv r) (old new : String) :
    RegInv (renamePlain r old new).1 := by
  unfold renamePlain
  split
  · exact h
  · split
    · exact h
    · rename_i _ hk
      have : new ∉ mkeys r.models := by simpa [keys_eq] using hk
      exact MInv.move h old new this

theorem renamePlain_ids {r : Reg} (h : RegInv r) (old new : String) (i : Nat) :
    i ∈ ids r.models → i ∈ ids (renamePlain r old new).1.models := by
  intro hi
  unfold renamePlain
  split
  · exact hi
  · split
    · exact hi
    · exact ids_moveKey h old new i hi

theorem renamePlain_nextId (r : Reg) (old new : String) :
    (renamePlain r old new).1.nextId = r.nextId := by
  unfold renamePlain; split
  · rfl
  · split <;> rfl

theorem renameSamename_inv {r : Reg} (h : RegInv r) (name : String) :
    RegInv (renameSamename r name) := by
  unfold renameSamename
  have h' : RegInv { r with backupnamer := (getNext (keys r) name "_BAK" r.backupnamer).1 } := h
  exact renamePlain_inv h' _ _

theorem renameSamename_ids {r : Reg} (h : RegInv r) (name : String) (i : Nat) :
    i ∈ ids r.models → i ∈ ids (renameSamename r name).models := by
  unfold renameSamename
  have h' : RegInv { r with backupnamer := (getNext (keys r) name "_BAK" r.backupnamer).1 } := h
  exact renamePlain_ids h' _ _ i

theorem renameSamename_nextId (r : Reg) (name : String) :
    (renameSamename r name).nextId = r.nextId := by
  unfold renameSamename
  exact renamePlain_nextId _ _ _

/-- after `_rename_samename(name)` the name is free -/
theorem renameSamename_frees {r : Reg} (name : String) (hin : name ∈ keys r) :
    name ∉ keys (renameSamename r name) := by
  unfold renameSamename
  have hfresh := getNext_fresh (keys r) name "_BAK" r.backupnamer
  generalize getNext (keys r) name "_BAK" r.backupnamer = p at hfresh
  obtain ⟨k, bak⟩ := p
  simp only [] at hfresh ⊢
  have hne : bak ≠ name := fun hc => hfresh (hc ▸ hin)
  unfold renamePlain
  simp only [hne, if_false]
  have : (keys { r with backupnamer := k }).contains bak = false := by
    simpa [keys] using hfresh
  simp only [this]
  simp only [keys, moveKey]
  cases hl : lookupName r.models name with
  | none =>
    exact absurd hin (by simpa [keys_eq] using lookupName_none hl)
  | some m =>
    have h1 := key_not_in_erase r.models name
    simp only [mkeys] at h1
    simp only [Bool.false_eq_true, if_false, List.map_append, List.mem_append, not_or]
    exact ⟨h1, by simp [Ne.symm hne]⟩

theorem freeName_inv {r : Reg} (h : RegInv r) (name : String) : RegInv (freeName r name) := by
  unfold freeName; split
  · exact renameSamename_inv h name
  · exact h

theorem freeName_ids {r : Reg} (h : RegInv r) (name : String) (i : Nat) :
    i ∈ ids r.models → i ∈ ids (freeName r name).models := by
  unfold freeName; split
  · exact renameSamename_ids h name i
  · exact id

theorem freeName_frees (r : Reg) (name : String) : name ∉ keys (freeName r name) := by
  unfold freeName; split
  · rename_i hc; exact renameSamename_frees name (by simpa using hc)
  · rename_i hc; simpa using hc

theorem autoName_inv {r : Reg} (h : RegInv r) : RegInv (autoName r).1 := h

theorem autoName_fresh (r : Reg) : (autoName r).2 ∉ keys (autoName r).1 :=
  getNext_fresh (keys r) "" "Model" r.modelnamer

theorem register_inv {r : Reg} (h : RegInv r) (nm : String) (hfree : nm ∉ keys r) :
    RegInv (register r nm).1 := by
  refine MInv.snoc h nm { id := r.nextId, name := nm } rfl hfree ?_ _ (Nat.le_succ _)
    (Nat.lt_succ_self _)
  intro hc
  simp only [ids, List.mem_map] at hc
  obtain ⟨e, he, heq⟩ := hc
  have := h.idsLt e he
  omega

theorem register_ids (r : Reg) (nm : String) (i : Nat) :
    i ∈ ids r.models → i ∈ ids (register r nm).1.models := by
  intro hi; simp only [register, ids, List.map_append, List.mem_append]; left; exact hi

theorem newModel_inv (kw : List String) {r : Reg} (h : RegInv r) (name : Option String) :
    RegInv (newModel kw r name).1 := by
  unfold newModel
  cases name with
  | none => exact register_inv (autoName_inv h) _ (autoName_fresh r)
  | some n =>
    simp only []
    split
    · exact register_inv (autoName_inv (freeName_inv h n)) _ (autoName_fresh _)
    · split
      · exact register_inv (freeName_inv h n) n (freeName_frees r n)
      · exact freeName_inv h n

theorem newModel_ids (kw : List String) {r : Reg} (h : RegInv r) (name : Option String) (i : Nat) :
    i ∈ ids r.models → i ∈ ids (newModel kw r name).1.models := by
  intro hi
  unfold newModel
  cases name with
  | none => exact register_ids _ _ i hi
  | some n =>
    simp only []
    split
    · exact register_ids _ _ i (freeName_ids h n i hi)
    · split
      · exact register_ids _ _ i (freeName_ids h n i hi)
      · exact freeName_ids h n i hi

theorem rename_inv (kw : List String) {r : Reg} (h : RegInv r) (i : Nat) (new : String)
    (ro : Bool) : RegInv (rename kw r i new ro).1 := by
  unfold rename
  split
  · exact h
  · simp only []
    have h1 : RegInv (if ro = true then freeName r new else r) := by
      split
      · exact freeName_inv h new
      · exact h
    split
    · exact h
    · split
      · exact h1
      · exact renamePlain_inv h1 _ _

theorem rename_ids (kw : List String) {r : Reg} (h : RegInv r) (i : Nat) (new : String)
    (ro : Bool) (j : Nat) : j ∈ ids r.models → j ∈ ids (rename kw r i new ro).1.models := by
  intro hj
  unfold rename
  split
  · exact hj
  · simp only []
    have h1 : RegInv (if ro = true then freeName r new else r) := by
      split
      · exact freeName_inv h new
      · exact h
    have hj1 : j ∈ ids (if ro = true then freeName r new else r).models := by
      split
      · exact freeName_ids h new j hj
      · exact hj
    split
    · exact hj
    · split
      · exact hj1
      · exact renamePlain_ids h1 _ _ j hj1

theorem close_inv {r : Reg} (h : RegInv r) (i : Nat) : RegInv (close r i).1 := by
  unfold close
  split
  · exact h
  · exact MInv.erase h _

/-- closing removes exactly that model -/
theorem close_ids {r : Reg} (h : RegInv r) (i j : Nat) :
    j ∈ ids (close r i).1.models ↔ j ∈ ids r.models ∧ j ≠ i := by
  unfold close
  cases hl : lookupId r.models i with
  | none =>
    simp only []
    constructor
    · intro hj
      refine ⟨hj, ?_⟩
      intro hji; subst hji
      obtain ⟨m, hm⟩ := lookupId_of_mem hj
      rw [hl] at hm; cases hm
    · exact fun hj => hj.1
  | some m =>
    simp only []
    obtain ⟨⟨k, hk⟩, hid⟩ := lookupId_some hl
    have hname : m.name = k := h.nameKey _ hk
    constructor
    · intro hj
      simp only [ids, List.mem_map] at hj
      obtain ⟨e, he, rfl⟩ := hj
      obtain ⟨hmem, hne⟩ := mem_eraseName.mp he
      refine ⟨by simp only [ids, List.mem_map]; exact ⟨e, hmem, rfl⟩, ?_⟩
      intro hc
      have := h.id_inj hmem hk (by simp only []; omega)
      subst this
      exact hne hname.symm
    · intro ⟨hj, hne⟩
      simp only [ids, List.mem_map] at hj ⊢
      obtain ⟨e, he, rfl⟩ := hj
      refine ⟨e, mem_eraseName.mpr ⟨he, ?_⟩, rfl⟩
      intro hc
      have : e = (k, m) := h.key_inj he hk (by simp only []; rw [hc, hname])
      subst this
      exact hne hid

theorem newModel_nextId_le (kw : List String) (r : Reg) (name : Option String) :
    r.nextId ≤ (newModel kw r name).1.nextId := by
  unfold newModel
  cases name with
  | none => simp [register, autoName]
  | some n =>
    simp only []
    have hf : (freeName r n).nextId = r.nextId := by
      unfold freeName; split
      · exact renameSamename_nextId r n
      · rfl
    split
    · simp [register, autoName, hf]
    · split
      · simp [register, hf]
      · simp [hf]

theorem readModel_inv (kw : List String) {r : Reg} (h : RegInv r) (name : String) (f : Bool) :
    RegInv (readModel kw r name f).1 := by
  unfold readModel
  have h1 := newModel_inv kw h none
  generalize newModel kw r none = p at h1
  obtain ⟨r1, res⟩ := p
  cases res with
  | error e => exact h1
  | ok i =>
    simp only []
    have h2 := rename_inv kw h1 i name true
    generalize rename kw r1 i name true = q at h2
    obtain ⟨r2, res2⟩ := q
    cases res2 with
    | error e => exact close_inv h2 i
    | ok u =>
      simp only []
      split
      · exact close_inv h2 i
      · exact h2

/-- the model closed by a failing `read_model` is the one it created itself -/
theorem readModel_ids (kw : List String) {r : Reg} (h : RegInv r) (name : String) (f : Bool)
    (j : Nat) : j ∈ ids r.models → j ∈ ids (readModel kw r name f).1.models := by
  intro hj
  have hlt : j < r.nextId := by
    simp only [ids, List.mem_map] at hj
    obtain ⟨e, he, rfl⟩ := hj
    exact h.idsLt e he
  unfold readModel
  have h1 := newModel_inv kw h none
  have hj1 := newModel_ids kw h none j hj
  have hid : ∀ i, (newModel kw r none).2 = .ok i → i = r.nextId := by
    intro i hi
    simp [newModel, register, autoName] at hi
    exact hi.symm
  generalize newModel kw r none = p at h1 hj1 hid
  obtain ⟨r1, res⟩ := p
  cases res with
  | error e => exact hj1
  | ok i =>
    simp only []
    have hi := hid i rfl
    have h2 := rename_inv kw h1 i name true
    have hj2 := rename_ids kw h1 i name true j hj1
    generalize rename kw r1 i name true = q at h2 hj2
    obtain ⟨r2, res2⟩ := q
    have hne : j ≠ i := by omega
    cases res2 with
    | error e => exact (close_ids h2 i j).mpr ⟨hj2, hne⟩
    | ok u =>
      simp only []
      split
      · exact (close_ids h2 i j).mpr ⟨hj2, hne⟩
      · exact hj2

end MxModel.Registry
