import MxModel.Proofs.StructMechSubs
/-!
# Preservation of `Inv` by the member operations that do not change the base relation

`setGlobal`, `delGlobal`, `setFormula`, `setRef` (change and creation), `newCells`, `delCells` /
`delRef`.
-/
namespace MxModel.SM
open MxModel.C3

/-! ## disjointness helpers -/

def Attr.other : Attr → Attr
  | .cells => .refs
  | .refs => .cells

theorem Disj.cr' {st : St} (h : Disj st) (a : Attr) (q : Path) (n : String)
    (hm : (st.mem a q n).isSome = true) : st.mem a.other q n = none := by
  cases a with
  | cells => exact h.cr q n hm
  | refs =>
    simp only [Attr.other]
    cases hc : st.mem .cells q n with
    | none => rfl
    | some m =>
      have := h.cr q n (by rw [hc]; rfl)
      rw [this] at hm; cases hm

theorem Disj.child' {st : St} (h : Disj st) (a : Attr) (q : Path) (n : String)
    (hc : n ∈ st.childNames q) : st.mem a q n = none := by
  cases a with
  | cells => exact (h.child q n hc).1
  | refs => exact (h.child q n hc).2

theorem isSome_of_ne_none {α : Type} (x : Option α) (h : x ≠ none) : x.isSome = true := by
  cases x with
  | none => exact absurd rfl h
  | some _ => rfl

/-- member names, child names and model-level references only shrink -/
theorem Disj.mono {st st' : St} (h : Disj st)
    (hm : ∀ a q n, (st'.mem a q n).isSome = true → (st.mem a q n).isSome = true)
    (hc : ∀ q n, n ∈ st'.childNames q → n ∈ st.childNames q)
    (hg : ∀ n ∈ st'.globals, n ∈ st.globals) : Disj st' where
  cr := by
    intro q n hs
    cases hr : st'.mem .refs q n with
    | none => rfl
    | some m =>
      have h1 := hm .cells q n hs
      have h2 := hm .refs q n (by rw [hr]; rfl)
      rw [h.cr q n h1] at h2; cases h2
  child := by
    intro q n hn
    have := h.child q n (hc q n hn)
    constructor
    · cases hr : st'.mem .cells q n with
      | none => rfl
      | some m =>
        have h2 := hm .cells q n (by rw [hr]; rfl)
        rw [this.1] at h2; cases h2
    · cases hr : st'.mem .refs q n with
      | none => rfl
      | some m =>
        have h2 := hm .refs q n (by rw [hr]; rfl)
        rw [this.2] at h2; cases h2
  glob := by
    intro n hn hcn
    exact h.glob n (hg n hn) (hc [] n hcn)

/-- the only new member names are `name` of kind `a`, in spaces where `name` was free -/
theorem Disj.of_new {st st' : St} (h : Disj st) (hs : Shape st st') (a : Attr) (name : String)
    (hnew : ∀ a' q n', (st'.mem a' q n').isSome = true → (st.mem a' q n').isSome = true ∨
      (a' = a ∧ n' = name ∧ st.mem a.other q name = none ∧ name ∉ st.childNames q)) : Disj st' where
  cr := by
    intro q n hsc
    cases hr : st'.mem .refs q n with
    | none => rfl
    | some m =>
      exfalso
      have hsr : (st'.mem .refs q n).isSome = true := by rw [hr]; rfl
      rcases hnew .cells q n hsc with h1 | ⟨ha, hn, hf, _⟩
      · rcases hnew .refs q n hsr with h2 | ⟨ha, hn, hf, _⟩
        · rw [h.cr q n h1] at h2; cases h2
        · subst ha; subst hn
          simp only [Attr.other] at hf
          rw [hf] at h1; cases h1
      · subst ha; subst hn
        rcases hnew .refs q n hsr with h2 | ⟨ha, _, _, _⟩
        · simp only [Attr.other] at hf
          rw [hf] at h2; cases h2
        · cases ha
  child := by
    intro q n hn
    rw [hs.childNames] at hn
    have hboth : ∀ a', st'.mem a' q n = none := by
      intro a'
      cases hr : st'.mem a' q n with
      | none => rfl
      | some m =>
        exfalso
        rcases hnew a' q n (by rw [hr]; rfl) with h1 | ⟨_, hn', _, hf⟩
        · rw [h.child' a' q n hn] at h1; cases h1
        · subst hn'; exact hf hn
    exact ⟨hboth .cells, hboth .refs⟩
  glob := by
    intro n hn
    rw [hs.globals] at hn
    rw [hs.childNames]
    exact h.glob n hn

/-! ## model-level references -/

/-- a state with the same spaces -/
theorem inv_of_spaces_eq {st st' : St} (h : Inv st) (hs : st'.spaces = st.spaces)
    (hg : ∀ n ∈ st'.globals, n ∉ st'.childNames []) : Inv st' := by
  obtain ⟨sp, g⟩ := st
  obtain ⟨sp', g'⟩ := st'
  simp only at hs
  subst hs
  exact ⟨⟨h.wf.nodup, h.wf.bases, h.wf.mro, h.wf.keys, h.wf.tree⟩, h.good, ⟨h.disj.cr, h.disj.child, hg⟩⟩

theorem inv_setGlobal (st st' : St) (h : Inv st) (name : String)
    (hop : st.setGlobal name = some st') : Inv st' := by
  unfold St.setGlobal at hop
  split at hop
  · cases hop
  · rename_i hc
    simp only [Option.some.injEq] at hop
    subst hop
    refine inv_of_spaces_eq h rfl ?_
    intro n hn
    simp only at hn
    show n ∉ st.childNames []
    split at hn
    · exact h.disj.glob n hn
    · simp only [List.mem_append, List.mem_singleton] at hn
      rcases hn with hn | rfl
      · exact h.disj.glob n hn
      · simpa using hc

theorem inv_delGlobal (st st' : St) (h : Inv st) (name : String)
    (hop : st.delGlobal name = some st') : Inv st' := by
  unfold St.delGlobal at hop
  split at hop
  · simp only [Option.some.injEq] at hop
    subst hop
    refine inv_of_spaces_eq h rfl ?_
    intro n hn
    simp only [List.mem_filter] at hn
    exact h.disj.glob n hn.1
  · cases hop

/-! ## what a base has, its sub spaces have -/

theorem Inv.mem_isSome_of_base {st : St} (h : Inv st) (a : Attr) (p q : Path) (name : String)
    (hpq : p ∈ st.tail q) (hm : (st.mem a p name).isSome = true) : (st.mem a q name).isSome = true := by
  cases hq : st.mem a q name with
  | some _ => rfl
  | none =>
    exfalso
    have hg := h.good a q name
    unfold Good1 at hg
    rw [hq] at hg
    have hnone := (firstDef_eq_none st a _ name).mp hg
    cases hp : st.mem a p name with
    | none => rw [hp] at hm; cases hm
    | some m =>
      cases hd : m.derived with
      | false =>
        have := hnone p hpq
        unfold St.defd at this
        rw [hp] at this
        simp [hd] at this
      | true =>
        have hgp := h.good a p name
        unfold Good1 at hgp
        rw [hp] at hgp
        obtain ⟨b, hb⟩ := hgp hd
        obtain ⟨h1, h2⟩ := firstDef_some st a _ name b _ hb
        have := hnone b (h.wf.tail_subset q p hpq b h1)
        rw [this] at h2; cases h2

theorem mem_ids_of_mem_isSome (st : St) (a : Attr) (p : Path) (n : String)
    (h : (st.mem a p n).isSome = true) : p ∈ st.ids := by
  apply Classical.byContradiction
  intro hp
  rw [St.mem_of_not_mem st a p n hp] at h; cases h

/-! ## `changeMember`: `set_cells_property`, `change_ref` -/

theorem inv_changeMember (st : St) (h : Inv st) (a : Attr) (p : Path) (name : String) (v : Nat)
    (hm : (st.mem a p name).isSome = true) : Inv (st.changeMember a p name v) := by
  have hp : p ∈ st.ids := mem_ids_of_mem_isSome st a p name hm
  obtain ⟨hs, hk, hdp, hother, hgu⟩ := goodUnless_after_define st h.wf h.good a p name v hp
  unfold St.changeMember
  generalize hst1 : st.setMem a p name { derived := false, payload := v } = st1 at hs hk hdp hother hgu
  have hwf1 : WF st1 := h.wf.of_shape hs hk
  have hsome1 : ∀ a' q n', (st1.mem a' q n').isSome = (st.mem a' q n').isSome := by
    intro a' q n'
    rw [← hst1, mem_setMem st a p name _ hp]
    by_cases hc : q = p ∧ a' = a ∧ n' = name
    · obtain ⟨rfl, rfl, rfl⟩ := hc
      simp [hm]
    · simp [hc]
  let C : St → Path → Prop := fun s q => q ∈ s.ids ∧ (s.mem a q name).isSome = true
  have hC : ∀ s s' q q', SubStep a name s s' q' → C s q → C s' q := by
    intro s s' q q' hst hc
    refine ⟨by rw [hst.shape.ids]; exact hc.1, ?_⟩
    by_cases hqq : q = q'
    · subst hqq; exact hst.mono hc.2
    · rw [hst.other a q name (fun h' => hqq h'.2.1)]; exact hc.2
  have hC0 : ∀ q ∈ st1.subs p, C st1 q := by
    intro q hq
    obtain ⟨h1, _, h3⟩ := (mem_subs p q).mp hq
    refine ⟨h1, ?_⟩
    rw [hsome1]
    rw [hs.tail] at h3
    exact h.mem_isSome_of_base a p q name h3 hm
  have W := walked_foldl a p name v (fun s q => s.changeMemberSub a p name v q) C hC
    (fun s q hk' hd' hg' hc => subStep_change a p name v s q hk' hc.1 hd' hg' hc.2)
    st1 hdp (st1.subs p) [] st1 (walked_nil a p name st1 hk hgu) hC0
  simp only [List.nil_append] at W
  generalize List.foldl (fun s q => s.changeMemberSub a p name v q) st1 (st1.subs p) = s1 at W
  have hsome : ∀ a' q n', (s1.mem a' q n').isSome = true → (st.mem a' q n').isSome = true := by
    intro a' q n' hh
    rw [← hsome1]
    by_cases hc : a' = a ∧ q ∈ st1.subs p ∧ n' = name
    · obtain ⟨rfl, hq, rfl⟩ := hc
      exact (hC0 q hq).2
    · rw [← W.other a' q n' hc]; exact hh
  refine ⟨h.wf.of_shape (hs.trans W.shape) W.keys, ?_, ?_⟩
  · intro a' q n'
    by_cases hc : a' = a ∧ n' = name
    · obtain ⟨rfl, rfl⟩ := hc
      exact walked_all_good hwf1 W q
    · exact (hother a' q n' hc).congr (W.other a' q n' (fun h' => hc ⟨h'.1, h'.2.2⟩)) (W.shape.tail q)
        (fun b _ => W.defs a' b n')
  · exact h.disj.mono hsome (fun q n hn => by rw [(hs.trans W.shape).childNames] at hn; exact hn)
      (fun n hn => by rw [(hs.trans W.shape).globals] at hn; exact hn)

theorem inv_setFormula (st st' : St) (h : Inv st) (p : Path) (name : String) (v : Nat)
    (hop : st.setFormula p name v = some st') : Inv st' := by
  unfold St.setFormula at hop
  cases hm : st.mem .cells p name with
  | none => rw [hm] at hop; cases hop
  | some m =>
    rw [hm] at hop
    simp only [Option.some.injEq] at hop
    subst hop
    exact inv_changeMember st h .cells p name v (by rw [hm]; rfl)

/-! ## `newMember`: `new_cells`, `new_ref` -/

theorem inv_newMember (st : St) (h : Inv st) (a : Attr) (p : Path) (name : String) (v : Nat)
    (hp : p ∈ st.ids) (hm : st.mem a p name = none)
    (hfree : ∀ q, q = p ∨ q ∈ st.subs p → st.mem a q name = none →
      st.mem a.other q name = none ∧ name ∉ st.childNames q) :
    Inv (((st.setMem a p name { derived := false, payload := v }).subs p).foldl
      (fun s q => s.newMemberSub a p name v q) (st.setMem a p name { derived := false, payload := v })) := by
  obtain ⟨hs, hk, hdp, hother, hgu⟩ := goodUnless_after_define st h.wf h.good a p name v hp
  generalize hst1 : st.setMem a p name { derived := false, payload := v } = st1 at hs hk hdp hother hgu ⊢
  have hwf1 : WF st1 := h.wf.of_shape hs hk
  let C : St → Path → Prop := fun s q => q ∈ s.ids ∧ p ∈ s.tail q
  have hC : ∀ s s' q q', SubStep a name s s' q' → C s q → C s' q := by
    intro s s' q q' hst hc
    exact ⟨by rw [hst.shape.ids]; exact hc.1, by rw [hst.shape.tail]; exact hc.2⟩
  have hC0 : ∀ q ∈ st1.subs p, C st1 q := by
    intro q hq
    obtain ⟨h1, _, h3⟩ := (mem_subs p q).mp hq
    exact ⟨h1, h3⟩
  have W := walked_foldl a p name v (fun s q => s.newMemberSub a p name v q) C hC
    (fun s q hk' hd' hg' hc => subStep_new a p name v s q hk' hc.1 hd' hg' hc.2)
    st1 hdp (st1.subs p) [] st1 (walked_nil a p name st1 hk hgu) hC0
  simp only [List.nil_append] at W
  generalize List.foldl (fun s q => s.newMemberSub a p name v q) st1 (st1.subs p) = s1 at W
  have hnew : ∀ a' q n', (s1.mem a' q n').isSome = true → (st.mem a' q n').isSome = true ∨
      (a' = a ∧ n' = name ∧ st.mem a.other q name = none ∧ name ∉ st.childNames q) := by
    intro a' q n' hh
    have hst1m : ∀ a' q n', ¬ (q = p ∧ a' = a ∧ n' = name) → st1.mem a' q n' = st.mem a' q n' := by
      intro a' q n' hc
      rw [← hst1, mem_setMem st a p name _ hp]
      simp [hc]
    by_cases hc : a' = a ∧ n' = name
    · obtain ⟨rfl, rfl⟩ := hc
      cases hq0 : st.mem a' q n' with
      | some _ => exact Or.inl rfl
      | none =>
        right
        refine ⟨rfl, rfl, ?_⟩
        by_cases hqp : q = p
        · exact hfree q (Or.inl hqp) hq0
        · by_cases hqs : q ∈ st1.subs p
          · rw [hs.subs] at hqs
            exact hfree q (Or.inr hqs) hq0
          · exfalso
            rw [W.other a' q n' (fun h' => hqs h'.2.1), hst1m a' q n' (fun h' => hqp h'.1), hq0] at hh
            cases hh
    · left
      rw [W.other a' q n' (fun h' => hc ⟨h'.1, h'.2.2⟩), hst1m a' q n' (fun h' => hc ⟨h'.2.1, h'.2.2⟩)] at hh
      exact hh
  refine ⟨h.wf.of_shape (hs.trans W.shape) W.keys, ?_, h.disj.of_new (hs.trans W.shape) a name hnew⟩
  intro a' q n'
  by_cases hc : a' = a ∧ n' = name
  · obtain ⟨rfl, rfl⟩ := hc
    exact walked_all_good hwf1 W q
  · exact (hother a' q n' hc).congr (W.other a' q n' (fun h' => hc ⟨h'.1, h'.2.2⟩)) (W.shape.tail q)
      (fun b _ => W.defs a' b n')

/-! ## what the name checks give -/

theorem kindOf_none (st : St) (q : Path) (n : String) (h : st.kindOf q n = none) :
    st.mem .cells q n = none ∧ n ∉ st.childNames q ∧ st.mem .refs q n = none ∧ n ∉ st.globals := by
  unfold St.kindOf at h
  split at h
  · cases h
  · rename_i h1
    split at h
    · cases h
    · rename_i h3
      split at h
      · cases h
      · rename_i h2
        simp only [Bool.or_eq_true, List.contains_eq_mem, decide_eq_true_eq, not_or] at h3
        refine ⟨?_, by simpa using h2, ?_, h3.2⟩
        · cases hm : st.mem .cells q n with
          | none => rfl
          | some _ => rw [hm] at h1; simp at h1
        · cases hm : st.mem .refs q n with
          | none => rfl
          | some _ => rw [hm] at h3; simp at h3

theorem kindOf_cells (st : St) (q : Path) (n : String) (h : st.kindOf q n = some .cells) :
    (st.mem .cells q n).isSome = true := by
  unfold St.kindOf at h
  split at h
  · assumption
  · split at h
    · cases h
    · split at h <;> cases h

theorem inv_newCells (kw : List String) (st st' : St) (h : Inv st) (p : Path) (name : String) (v : Nat)
    (hop : st.newCells kw p name v = some st') : Inv st' := by
  unfold St.newCells at hop
  split at hop
  · cases hop
  · rename_i hhas
    split at hop
    · cases hop
    · split at hop
      · cases hop
      · rename_i hca
        simp only [Option.some.injEq] at hop
        subst hop
        have hp : p ∈ st.ids := by
          rw [← has_iff_mem_ids]; simpa using hhas
        have hpne : p ≠ [] := (h.wf.tree p hp).1
        have hca' : st.canAdd p name .cells = true := by simpa using hca
        clear hca
        unfold St.canAdd at hca'
        have hpb : (p == []) = false := by simpa using hpne
        simp only [hpb, Bool.false_eq_true, if_false] at hca'
        split at hca'
        · cases hca'
        · rename_i hk0
          have hkp : st.kindOf p name = none := by
            cases hk : st.kindOf p name with
            | none => rfl
            | some _ => rw [hk] at hk0; simp at hk0
          obtain ⟨h1, h2, h3, _⟩ := kindOf_none st p name hkp
          refine inv_newMember st h .cells p name v hp h1 ?_
          intro q hq hqm
          rcases hq with rfl | hq
          · exact ⟨h3, h2⟩
          · have := List.all_eq_true.mp hca' q hq
            cases hkq : st.kindOf q name with
            | none =>
              obtain ⟨_, h2', h3', _⟩ := kindOf_none st q name hkq
              exact ⟨h3', h2'⟩
            | some k =>
              rw [hkq] at this
              simp only [beq_iff_eq] at this
              subst this
              have := kindOf_cells st q name hkq
              rw [hqm] at this; cases this

/-! ## `setRef` -/

theorem inv_newRef (st st' : St) (h : Inv st) (p : Path) (name : String) (v : Nat) (hp : p ∈ st.ids)
    (hm : st.mem .refs p name = none)
    (hop : st.newRef p name v = some st') : Inv st' := by
  unfold St.newRef St.newRefOk at hop
  cases hg : st.globals.contains name with
  | true =>
    simp only [hg, if_true] at hop
    split at hop
    · cases hop
    · rename_i hcond
      simp only [Option.some.injEq] at hop
      subst hop
      have hcond' : (p :: st.subs p).all (fun q => (st.mem .cells q name).isNone &&
          !(st.childNames q).contains name) = true := by simpa using hcond
      refine inv_newMember st h .refs p name v hp hm ?_
      intro q hq _
      have hq' : q ∈ p :: st.subs p := by
        rcases hq with rfl | hq
        · simp
        · exact List.mem_cons_of_mem _ hq
      have := List.all_eq_true.mp hcond' q hq'
      simp only [Bool.and_eq_true, Option.isNone_iff_eq_none, Bool.not_eq_true',
        List.contains_eq_mem, decide_eq_false_iff_not] at this
      exact this
  | false =>
    simp only [hg, Bool.false_eq_true, if_false] at hop
    split at hop
    · cases hop
    · rename_i hcond
      simp only [Option.some.injEq] at hop
      subst hop
      have hcond' : (p :: st.subs p).all (fun q => (st.kindOf q name).isNone) = true := by
        simpa using hcond
      refine inv_newMember st h .refs p name v hp hm ?_
      intro q hq _
      have hq' : q ∈ p :: st.subs p := by
        rcases hq with rfl | hq
        · simp
        · exact List.mem_cons_of_mem _ hq
      have := List.all_eq_true.mp hcond' q hq'
      simp only [Option.isNone_iff_eq_none] at this
      obtain ⟨h1, h2, _, _⟩ := kindOf_none st q name this
      exact ⟨h1, h2⟩

theorem inv_setRef (kw : List String) (st st' : St) (h : Inv st) (p : Path) (name : String) (v : Nat)
    (hop : st.setRef kw p name v = some st') : Inv st' := by
  unfold St.setRef at hop
  split at hop
  · cases hop
  · rename_i hhas
    have hp : p ∈ st.ids := by
      rw [← has_iff_mem_ids]; simpa using hhas
    split at hop
    · cases hop
    · cases hm : st.mem .refs p name with
      | some m =>
        rw [hm] at hop
        simp only [Option.some.injEq] at hop
        subst hop
        exact inv_changeMember st h .refs p name v (by rw [hm]; rfl)
      | none =>
        rw [hm] at hop
        simp only at hop
        split at hop
        · cases hop
        · cases hop
        · exact inv_newRef st st' h p name v hp hm hop

/-! ## `delMember`: `del_cells`, `del_ref` -/

/-- re-deriving `ds`: every space is good afterwards if the spaces outside `ds` are good before -/
theorem good_updateAll_all (st1 : St) (hk : KeysOK st1) (ds : List Path)
    (hpre : ∀ a q n, q ∉ ds → Good1 st1 a q n) : ∀ a q n, Good1 (st1.updateAll ds) a q n := by
  intro a q n
  have R := rederived_updateAll st1 hk ds
  by_cases hq : q ∈ ds
  · exact R.good a q n (Or.inl hq)
  · exact R.good a q n (Or.inr (hpre a q n hq))

theorem inv_delMember (st st' : St) (h : Inv st) (a : Attr) (p : Path) (name : String)
    (hop : st.delMember a p name = some st') : Inv st' := by
  unfold St.delMember at hop
  cases hm : st.mem a p name with
  | none => rw [hm] at hop; cases hop
  | some m =>
    rw [hm] at hop
    simp only at hop
    split at hop
    · cases hop
    · simp only [Option.some.injEq] at hop
      subst hop
      have hp : p ∈ st.ids := mem_ids_of_mem_isSome st a p name (by rw [hm]; rfl)
      generalize hst1 : st.delMem a p name = st1
      have hs : Shape st st1 := by rw [← hst1]; exact shape_delMem st a p name
      have hk : KeysOK st1 := by rw [← hst1]; exact keysOK_delMem st h.wf.keys a p name
      have hm1 : ∀ a' q n', ¬ (q = p ∧ a' = a ∧ n' = name) → st1.mem a' q n' = st.mem a' q n' := by
        intro a' q n' hc
        rw [← hst1, mem_delMem]; simp [hc]
      have hm1' : ∀ a' q n', (st1.mem a' q n').isSome = true → (st.mem a' q n').isSome = true := by
        intro a' q n' hh
        by_cases hc : q = p ∧ a' = a ∧ n' = name
        · rw [← hst1, mem_delMem] at hh
          simp [hc] at hh
        · rw [← hm1 a' q n' hc]; exact hh
      have hd1 : ∀ a' q n', q ≠ p → st1.defd a' q n' = st.defd a' q n' := by
        intro a' q n' hc
        unfold St.defd
        rw [hm1 a' q n' (fun h' => hc h'.1)]
      have R := rederived_updateAll st1 hk (p :: st1.subs p)
      refine ⟨h.wf.of_shape (hs.trans R.shape) R.keys, ?_, ?_⟩
      · apply good_updateAll_all st1 hk
        intro a' q n' hq
        simp only [List.mem_cons, not_or] at hq
        by_cases hqi : q ∈ st1.ids
        · have hpt : p ∉ st1.tail q := not_mem_tail_of_not_sub p q hqi hq.1 hq.2
          rw [hs.tail] at hpt
          exact (h.good a' q n').congr (hm1 a' q n' (fun h' => hq.1 h'.1)) (hs.tail q)
            (fun b hb => hd1 a' b n' (fun e => hpt (e ▸ hb)))
        · exact Good1.of_not_mem st1 a' q n' hqi
      · refine h.disj.mono ?_ (fun q n hn => by rw [(hs.trans R.shape).childNames] at hn; exact hn)
          (fun n hn => by rw [(hs.trans R.shape).globals] at hn; exact hn)
        intro a' q n' hh
        by_cases hq : q ∈ p :: st1.subs p
        · by_cases hqi : q ∈ st1.ids
          · rw [R.names a' q n' hq hqi] at hh
            -- a definition of its own, or a definer in the tail: the name was there before
            rcases hh with hh | hh
            · apply hm1'
              unfold St.defd at hh
              cases hmm : st1.mem a' q n' with
              | none => rw [hmm] at hh; cases hh
              | some _ => rfl
            · cases hf : st1.firstDef a' (st1.tail q) n' with
              | none => rw [hf] at hh; cases hh
              | some d =>
                obtain ⟨h1, h2⟩ := firstDef_some st1 a' _ n' d.1 d.2 hf
                rw [hs.tail] at h1
                apply h.mem_isSome_of_base a' d.1 q n' h1
                apply hm1'
                unfold St.defd at h2
                cases hmm : st1.mem a' d.1 n' with
                | none => rw [hmm] at h2; cases h2
                | some _ => rfl
          · rw [St.mem_of_not_mem _ a' q n' (by rw [R.shape.ids]; exact hqi)] at hh; cases hh
        · rw [St.mem_eq, R.other a' q hq, ← St.mem_eq] at hh
          exact hm1' a' q n' hh

end MxModel.SM
