import MxModel.Proofs.ExecCert
import MxModel.Proofs.ExecFrame
/-!
# Certificates during an evaluation: what every step preserves, and what is pending

`PresH`: the part of the state certificates of *held* elements read is only extended by the
steps of an evaluation (values are added, never overwritten; ages keep their order; edges
between held elements and reference-graph edges are never removed – a roll-back removes only
the node of the failed, value-less element).  `PendEv`: what is known about an event recorded
in the trace of a formula that is still running – its callee is held, the edge to the nearest
cached caller `T` is in the graph already, an attribute-path read is on the reference stack at
the level of the frame that will receive it.
-/
namespace MxModel.Exec

/-- the fields certificates read -/
structure SameC (s s' : St) : Prop where
  data : s'.data = s.data
  inputs : s'.inputs = s.inputs
  ge : s'.ge = s.ge
  rg : s'.rg = s.rg

theorem Cert.of_sameC {env : Env} {s s' : St} (h : SameC s s') {n : Node} {v : Val} {tr : Tr}
    (c : Cert env s n v tr) : Cert env s' n v tr := by
  refine ⟨c.replay, c.noneOK, ?_, fun a ha => c.just a (h.ge ▸ ha)⟩
  intro ev hm
  have := c.events ev hm
  cases ev with
  | read c' a r x => exact ⟨this.1, fun ha hx => by rw [h.rg]; exact this.2 ha hx⟩
  | call m w => exact ⟨by rw [h.data]; exact this.1, by rw [h.data]; exact this.2.1, by rw [h.ge]; exact this.2.2⟩
  | ucall m => show _ ∈ s'.ge; rw [h.ge]; exact this

theorem CInv.of_sameC {env : Env} {s s' : St} (h : SameC s s') (c : CInv env s) : CInv env s' := by
  intro n v hl hin
  rw [h.data] at hl
  rw [h.inputs] at hin
  obtain ⟨tr, hc⟩ := c n v hl hin
  exact ⟨tr, hc.of_sameC h⟩

def Held (s : St) (m : Node) : Prop := (lookup s.data m).isSome = true

/-- a source of a certificate edge: an object node or a held element -/
def SrcOK (s : St) : GNode → Prop
  | .obj _ => True
  | .elem m => Held s m

structure PresH (s s' : St) : Prop where
  ext : Ext s s'
  rank : ∀ a b, Held s a → Held s b → rank s.data a < rank s.data b → rank s'.data a < rank s'.data b
  edges : ∀ a n, (a, GNode.elem n) ∈ s.ge → SrcOK s a → Held s n → (a, GNode.elem n) ∈ s'.ge
  rg : ∀ e ∈ s.rg, e ∈ s'.rg
  /-- no edge INTO a held element is added -/
  noNewIn : ∀ a n, Held s n → (a, GNode.elem n) ∈ s'.ge → (a, GNode.elem n) ∈ s.ge

theorem Held.ext {s s' : St} (h : Ext s s') {m : Node} (hm : Held s m) : Held s' m := by
  unfold Held at hm ⊢
  cases hl : lookup s.data m with
  | none => rw [hl] at hm; cases hm
  | some v => rw [h m v hl]; rfl

theorem PresH.refl (s : St) : PresH s s :=
  ⟨Ext.refl s, fun _ _ _ _ h => h, fun _ _ h _ _ => h, fun _ h => h, fun _ _ _ h => h⟩

theorem PresH.trans {a b c : St} (h1 : PresH a b) (h2 : PresH b c) : PresH a c := by
  refine ⟨h1.ext.trans h2.ext, ?_, ?_, fun e he => h2.rg e (h1.rg e he),
    fun x n hn hx => h1.noNewIn x n hn (h2.noNewIn x n (hn.ext h1.ext) hx)⟩
  · intro x y hx hy hlt
    exact h2.rank x y (hx.ext h1.ext) (hy.ext h1.ext) (h1.rank x y hx hy hlt)
  · intro x n hxn hx hn
    refine h2.edges x n (h1.edges x n hxn hx hn) ?_ (hn.ext h1.ext)
    cases x with
    | obj c => trivial
    | elem m => exact Held.ext h1.ext hx

theorem PresH.of_sameC {s s' : St} (h : SameC s s') : PresH s s' :=
  ⟨Ext.of_data h.data, fun _ _ _ _ hlt => by rw [h.data]; exact hlt,
   fun _ _ he _ _ => by rw [h.ge]; exact he, fun _ he => by rw [h.rg]; exact he,
   fun _ _ _ he => h.ge ▸ he⟩

theorem Cert.presH {env : Env} {s s' : St} (h : PresH s s') {n : Node} {v : Val} {tr : Tr}
    (hn : Held s n) (c : Cert env s n v tr) : Cert env s' n v tr := by
  refine ⟨c.replay, c.noneOK, ?_, fun a ha => c.just a (h.noNewIn a n hn ha)⟩
  intro ev hm
  have hok := c.events ev hm
  cases ev with
  | read c' a r x => exact ⟨hok.1, fun ha hx => h.rg _ (hok.2 ha hx)⟩
  | call m w =>
    have hm' : Held s m := by unfold Held; rw [hok.1]; rfl
    exact ⟨h.ext m w hok.1, h.rank m n hm' hn hok.2.1, h.edges _ n hok.2.2 hm' hn⟩
  | ucall m => exact h.edges _ n hok trivial hn

/-- certificates survive a step; entries the step added need their own -/
theorem CInv.presH {env : Env} {s s' : St} (h : PresH s s') (hinp : s'.inputs = s.inputs) (c : CInv env s)
    (hnew : ∀ n v, lookup s'.data n = some v → lookup s.data n = none → n ∉ s'.inputs →
      ∃ tr, Cert env s' n v tr) : CInv env s' := by
  intro n v hl hin
  cases hl0 : lookup s.data n with
  | none => exact hnew n v hl hl0 hin
  | some v0 =>
    have : v0 = v := by have := h.ext n v0 hl0; rw [hl] at this; cases this; rfl
    subst this
    obtain ⟨tr, hc⟩ := c n v0 hl0 (by rw [← hinp]; exact hin)
    exact ⟨tr, hc.presH h (by unfold Held; rw [hl0]; rfl)⟩

/-! ### pending events -/

def PendEv (env : Env) (s : St) (T : Option Node) (lvl : Option Nat) : FEv → Prop
  | .read _ a r x => env.refs r = x ∧
      (a = true → x.isSome = true → ∀ l, lvl = some l → (l, r) ∈ s.refstack)
  | .call m w => lookup s.data m = some w ∧ ∀ t, T = some t → (GNode.elem m, GNode.elem t) ∈ s.ge
  | .ucall m => ∀ t, T = some t → (GNode.obj m.1, GNode.elem t) ∈ s.ge

/-- steps inside the running frame keep what is pending: values stay, edges into executing
elements stay, the reference stack only grows -/
structure PresP (s s' : St) : Prop where
  ext : Ext s s'
  stack : s'.stack = s.stack
  edgesS : ∀ a t, t ∈ s.stack → (a, GNode.elem t) ∈ s.ge → SrcOK s a → (a, GNode.elem t) ∈ s'.ge
  refstack : ∀ e ∈ s.refstack, e ∈ s'.refstack

theorem SrcOK.ext {s s' : St} (h : Ext s s') {a : GNode} (ha : SrcOK s a) : SrcOK s' a := by
  cases a with
  | obj c => trivial
  | elem m => exact Held.ext h ha

theorem PresP.refl (s : St) : PresP s s := ⟨Ext.refl s, rfl, fun _ _ _ h _ => h, fun _ h => h⟩

theorem PresP.trans {a b c : St} (h1 : PresP a b) (h2 : PresP b c) : PresP a c := by
  refine ⟨h1.ext.trans h2.ext, h2.stack.trans h1.stack, ?_, fun e he => h2.refstack e (h1.refstack e he)⟩
  intro x t ht hxt hx
  exact h2.edgesS x t (by rw [h1.stack]; exact ht) (h1.edgesS x t ht hxt hx) (hx.ext h1.ext)

theorem PendEv.pres {env : Env} {s s' : St} {T : Option Node} {lvl : Option Nat} (h : PresP s s')
    (hT : ∀ t, T = some t → t ∈ s.stack)
    {ev : FEv} (p : PendEv env s T lvl ev) : PendEv env s' T lvl ev := by
  cases ev with
  | read c a r x => exact ⟨p.1, fun ha hx l hl => h.refstack _ (p.2 ha hx l hl)⟩
  | call m w =>
    refine ⟨h.ext m w p.1, fun t ht => h.edgesS _ t (hT t ht) (p.2 t ht) ?_⟩
    show Held s m; unfold Held; rw [p.1]; rfl
  | ucall m => exact fun t ht => h.edgesS _ t (hT t ht) (p t ht) trivial

/-! ### the nearest cached caller -/

theorem edgeTarget_congr {s s' : St} (h1 : s'.stack = s.stack) (h2 : s'.idx = s.idx) :
    s'.edgeTarget = s.edgeTarget := by
  unfold St.edgeTarget; rw [h1, h2]

theorem edgeTarget_push_cached (env : Env) (s : St) (n : Node) (hlen : s.idx.length = s.stack.length)
    (hc : env.cached n.1 = true) : (s.push env n).edgeTarget = some n := by
  unfold St.edgeTarget St.push
  simp only [hc, if_true, List.getLast?_append, List.getLast?_singleton, Option.some_or]
  have : (0 : Int) ≤ (s.stack.length : Int) := Int.natCast_nonneg _
  simp [this]

theorem edgeTarget_push_uncached (env : Env) (s : St) (n : Node) (hlen : s.idx.length = s.stack.length)
    (hidx : IdxOK env s.stack s.idx) (hc : env.cached n.1 = false) :
    (s.push env n).edgeTarget = s.edgeTarget := by
  unfold St.edgeTarget St.push
  simp only [hc, Bool.false_eq_true, if_false, List.getLast?_append, List.getLast?_singleton, Option.some_or]
  cases hl : s.idx.getLast? with
  | none => simp
  | some j =>
    simp only []
    split
    · rename_i hj
      have hget : s.idx[s.idx.length - 1]? = some j := by
        rw [List.getLast?_eq_getElem?] at hl; exact hl
      obtain ⟨h1, h2, _⟩ := hidx _ j hget hj
      rw [List.getElem?_append_left (by omega)]
    · rfl

/-! ### draining the reference stack at `pop` -/

theorem takeRefs_append_fst (rs new : List (Nat × RefId)) (L : Nat)
    (h1 : ∀ e ∈ rs, e.1 < L) (h2 : ∀ e ∈ new, e.1 = L) :
    (takeRefs (rs ++ new) L).1 = new.reverse.map (·.2) := by
  unfold takeRefs
  simp only [List.reverse_append]
  rw [takeWhile_append_all _ _ _ (by
    intro x hx; simp only [List.mem_reverse] at hx; simp [h2 x hx])]
  rw [takeWhile_none _ rs.reverse (by
    intro x hx; simp only [List.mem_reverse] at hx
    have := h1 x hx
    simp only [beq_eq_false_iff_ne, ne_eq]; omega)]
  simp

/-- every read pending at level `L` is among the reads `pop` takes off the stack -/
theorem mem_takeRefs_fst (rs new : List (Nat × RefId)) (L : Nat) (r : RefId)
    (h1 : ∀ e ∈ rs, e.1 < L) (h2 : ∀ e ∈ new, e.1 = L) (hm : (L, r) ∈ rs ++ new) :
    r ∈ (takeRefs (rs ++ new) L).1 := by
  rw [takeRefs_append_fst rs new L h1 h2]
  simp only [List.mem_append] at hm
  rcases hm with hm | hm
  · have := h1 _ hm; simp at this
  · simp only [List.mem_map, List.mem_reverse]
    exact ⟨(L, r), hm, rfl⟩

theorem drainRefs_cached_rg (env : Env) (s : St) (n : Node) (hc : env.cached n.1 = true) (r : RefId)
    (hr : r ∈ (takeRefs s.refstack s.stack.length).1) : (r, n) ∈ (s.drainRefs env n).rg := by
  unfold St.drainRefs
  simp only [hc, if_true, List.mem_append, List.mem_filter]
  by_cases h : (r, n) ∈ s.rg
  · exact Or.inl h
  · right
    refine ⟨?_, by simpa using h⟩
    rw [mem_eraseDups]
    exact List.mem_map.mpr ⟨r, hr, rfl⟩

theorem drainRefs_rg_mono (env : Env) (s : St) (n : Node) : ∀ e ∈ s.rg, e ∈ (s.drainRefs env n).rg := by
  intro e he
  unfold St.drainRefs
  split
  · simp only [List.mem_append]; exact Or.inl he
  · split <;> exact he

theorem drainRefs_uncached_refstack (env : Env) (s : St) (n : Node) (hc : env.cached n.1 = false)
    (hne : s.stack ≠ []) (r : RefId) (hr : r ∈ (takeRefs s.refstack s.stack.length).1) :
    (s.stack.length - 1, r) ∈ (s.drainRefs env n).refstack := by
  unfold St.drainRefs
  have hpos : s.stack.length > 0 := by
    cases hs : s.stack with
    | nil => exact absurd hs hne
    | cons a l => simp
  simp only [hc, Bool.false_eq_true, if_false, hpos, if_true, List.mem_append, List.mem_map,
    List.mem_reverse]
  exact Or.inr ⟨r, hr, rfl⟩

end MxModel.Exec
