import MxModel.Proofs.ExecCertCells
/-!
# Deletion is complete at the value layer (C13), and exact

* `dead_has_nothing`: in ANY state with the certificate invariant a cells that does not exist
  holds no value, has no input mark, no node (element or object node) in the trace graph, no
  edge, and no reference-graph edge ends in one of its elements.
* `delCell_clr`: what `St.delCell` removes – a successor-closed set containing every node of the
  deleted cells and every computed element (object node) of the cached (uncached) cells of its
  space.
* `delCell_descendants`: everything reachable in the trace graph from a node of the deleted cells
  is gone (no element that depended on it, directly or through other elements, holds a value).
* `delCell_kept` / `delCell_exact`: an element that is not reachable from a *seed* – a node of the
  deleted cells, a computed element of a cached cells of its space, a node of an uncached cells of
  its space – keeps its value and its input mark: the deletion clears exactly the descendants of
  the seeds.
-/
namespace MxModel.Exec

variable {env : Env} {lt : Node → Node → Prop}

/-- **a cells that does not exist has nothing** – in every state satisfying `CI` -/
theorem dead_has_nothing {s : St} (h : CI env lt s) (c : CellId) (hd : env.alive c = false) :
    (∀ n : Node, n.1 = c → lookup s.data n = none ∧ n ∉ s.inputs) ∧
    (∀ x ∈ s.gn, x.cell ≠ c) ∧
    (∀ a b, (a, b) ∈ s.ge → a.cell ≠ c ∧ b.cell ≠ c) ∧
    (∀ e ∈ s.rg, e.2.1 ≠ c) := by
  have hnode : ∀ x ∈ s.gn, x.cell ≠ c := by
    intro x hx hxc
    have := h.alive.nodes x hx
    rw [hxc, hd] at this; cases this
  have hheld : ∀ n : Node, n.1 = c → lookup s.data n = none := by
    intro n hn
    cases hl : lookup s.data n with
    | none => rfl
    | some v => exact absurd hn (hnode _ (h.gi.heldNodes n (by rw [hl]; rfl)).1)
  refine ⟨fun n hn => ⟨hheld n hn, fun hin => ?_⟩, hnode, ?_, ?_⟩
  · have := h.gi.inputsHeld n hin
    rw [hheld n hn] at this; cases this
  · intro a b hab
    exact ⟨hnode a (h.gi.edgeNodes a b hab).1, hnode b (h.gi.edgeNodes a b hab).2⟩
  · intro e he hec
    have := h.rgHeld e he
    rw [hheld e.2 hec] at this; cases this

theorem closed_reach {ge : List (GNode × GNode)} {R : List GNode} (hc : Closed ge R) {a y : GNode}
    (ha : a ∈ R) (h : Reach ge a y) : y ∈ R := by
  induction h with
  | refl => exact ha
  | step _ he ih => exact hc _ _ he ih

theorem Reach.mono {ge ge' : List (GNode × GNode)} (hsub : ∀ e ∈ ge', e ∈ ge) {a y : GNode}
    (h : Reach ge' a y) : Reach ge a y := by
  induction h with
  | refl => exact Reach.refl
  | step _ he ih => exact Reach.step ih (hsub _ he)

/-- the nodes `St.delCell` is known to remove -/
theorem delCell_clr (s : St) (he : EdgeOK s) (c : CellId) :
    ∃ R1 R2, Clr s R1 (fun _ => False) (s.clearObj c) ∧
      Clr (s.clearObj c) R2 (fun _ => False) (s.delCell env c) ∧
      Clr s (R1 ++ R2) (fun _ => False) (s.delCell env c) ∧
      (∀ x ∈ s.gn, x.cell = c → x ∈ R1) ∧
      (∀ c' ∈ env.siblings c, ∀ x, NsTarget env (s.clearObj c) c' x → x ∈ R2) := by
  obtain ⟨R1, h1, hel, hobj⟩ := clr_clearObj s (fun _ => False) he c
  obtain ⟨R2, h2, hns⟩ := clr_notifyAll env (s.clearObj c) (fun _ => False) (h1.edgeOK he) (env.siblings c)
  refine ⟨R1, R2, h1, h2, h1.trans h2, ?_, hns⟩
  intro x hx hxc
  cases x with
  | elem n => exact hel n hxc hx
  | obj c' => simp only [GNode.cell] at hxc; subst hxc; exact hobj hx

/-- **no element that depended on the deleted cells – directly or through other elements – holds
a value**: every descendant of a node of `c` in the trace graph is gone -/
theorem delCell_descendants (s : St) (he : EdgeOK s) (c : CellId) (a y : GNode) (ha : a ∈ s.gn)
    (hac : a.cell = c) (hr : Reach s.ge a y) :
    y ∉ (s.delCell env c).gn ∧ ∀ m, y = .elem m → lookup (s.delCell env c).data m = none ∧
      m ∉ (s.delCell env c).inputs := by
  obtain ⟨R1, R2, h1, _, h12, hown, _⟩ := delCell_clr (env := env) s he c
  have hy : y ∈ R1 ++ R2 := List.mem_append_left _ (closed_reach h1.closed (hown a ha hac) hr)
  refine ⟨fun hgn => ((h12.mem_gn _).mp hgn).2 hy, ?_⟩
  rintro m rfl
  exact ⟨by rw [h12.lookup, if_pos hy], fun hin => ((h12.mem_inputs m).mp hin).2 hy⟩

/-- the same, read off a certificate: an element whose formula called an element of `c` -/
theorem delCell_callers {s : St} (h : CI env lt s) (c : CellId) (n : Node) (v : Val) (tr : Tr)
    (hcert : Cert env s n v tr) (m : Node) (hm : m.1 = c)
    (hev : (∃ w, FEv.call m w ∈ flat n.1 tr) ∨ FEv.ucall m ∈ flat n.1 tr) :
    lookup (s.delCell env c).data n = none := by
  rcases hev with ⟨w, hev⟩ | hev
  · have hedge : (GNode.elem m, GNode.elem n) ∈ s.ge := (hcert.events _ hev).2.2
    exact ((delCell_descendants s h.gi.edgeOK c (.elem m) (.elem n) (h.gi.edgeNodes _ _ hedge).1 hm
      (Reach.step Reach.refl hedge)).2 n rfl).1
  · have hedge : (GNode.obj m.1, GNode.elem n) ∈ s.ge := hcert.events _ hev
    exact ((delCell_descendants s h.gi.edgeOK c (.obj m.1) (.elem n) (h.gi.edgeNodes _ _ hedge).1 hm
      (Reach.step Reach.refl hedge)).2 n rfl).1

/-! ### what is kept: upper bounds on what the clearing routines remove -/

/-- node `x` is untouched by a step -/
structure Kept (s s' : St) (x : GNode) : Prop where
  gn : x ∈ s.gn → x ∈ s'.gn
  data : ∀ m, x = .elem m → lookup s'.data m = lookup s.data m ∧ (m ∈ s'.inputs ↔ m ∈ s.inputs)

theorem Kept.refl (s : St) (x : GNode) : Kept s s x := ⟨id, fun _ _ => ⟨rfl, Iff.rfl⟩⟩

theorem Kept.trans {a b c : St} {x : GNode} (h1 : Kept a b x) (h2 : Kept b c x) : Kept a c x :=
  ⟨fun h => h2.gn (h1.gn h), fun m hm => ⟨((h2.data m hm).1).trans (h1.data m hm).1,
    ((h2.data m hm).2).trans (h1.data m hm).2⟩⟩

theorem kept_clearSet (s : St) (R : List GNode) (x : GNode) (hx : x ∉ R) : Kept s (s.clearSet R) x := by
  refine ⟨fun h => ?_, ?_⟩
  · simp only [St.clearSet, St.dropValues, St.rgRemoveReferred, St.removeNodes, List.mem_filter]
    exact ⟨h, by simpa using hx⟩
  · rintro m rfl
    have hm : (elemsOf R).contains m = false := by
      simp only [List.contains_eq_mem, decide_eq_false_iff_not, mem_elemsOf]; exact hx
    refine ⟨?_, ?_⟩
    · simp only [St.clearSet, St.dropValues, St.rgRemoveReferred, St.removeNodes]
      rw [lookup_dropValues, hm]; rfl
    · simp only [St.clearSet, St.dropValues, St.rgRemoveReferred, St.removeNodes, List.mem_filter, hm]
      simp

theorem kept_clearWithDescs (s : St) (n : Node) (x : GNode) (hx : ¬ Reach s.ge (.elem n) x) :
    Kept s (s.clearWithDescs n) x := by
  unfold St.clearWithDescs
  split
  · exact kept_clearSet s _ x (fun h => hx (descs_sound s _ _ h))
  · exact Kept.refl s x

/-- `clear_value_at(n, ci)` removes descendants of `n` only, and only when `n` holds a value that
is computed (or `ci`) -/
theorem kept_clearValueAt (s : St) (n : Node) (ci : Bool) (x : GNode)
    (hx : (lookup s.data n).isSome → (ci = true ∨ n ∉ s.inputs) → ¬ Reach s.ge (.elem n) x) :
    Kept s (s.clearValueAt n ci) x := by
  unfold St.clearValueAt
  split
  · rename_i hheld
    split
    · rename_i hci
      refine kept_clearWithDescs s n x (hx hheld ?_)
      simp only [Bool.or_eq_true, Bool.not_eq_true', List.contains_eq_mem, decide_eq_false_iff_not] at hci
      exact hci
    · exact Kept.refl s x
  · exact Kept.refl s x

theorem kept_clearObj (s : St) (c : CellId) (x : GNode)
    (hx : ∀ a ∈ s.gn, a.cell = c → ¬ Reach s.ge a x) : Kept s (s.clearObj c) x := by
  unfold St.clearObj
  refine kept_clearSet s _ x ?_
  intro hmem
  simp only [mem_eraseDups, List.mem_flatMap, List.mem_filter] at hmem
  obtain ⟨a, ⟨ha, hown⟩, hxa⟩ := hmem
  refine hx a ha ?_ (descs_sound s a x hxa)
  cases a with
  | elem n => simpa [GNode.cell] using hown
  | obj c' => simpa [GNode.cell] using hown

/-- a fold of clearing steps keeps `x` when it is not reachable from any seed of any step; seeds
of later states are seeds of the first one -/
theorem kept_fold {κ : Type} (step : St → κ → St) (Seed : St → κ → GNode → Prop)
    (hstep : ∀ s k x, EdgeOK s → (∀ a, Seed s k a → ¬ Reach s.ge a x) → Kept s (step s k) x)
    (hclr : ∀ s k, EdgeOK s → ∃ R, Clr s R (fun _ => False) (step s k))
    (hSeed : ∀ s R s' k a, Clr s R (fun _ => False) s' → Seed s' k a → Seed s k a) :
    ∀ (keys : List κ) (s : St) (x : GNode), EdgeOK s →
      (∀ k ∈ keys, ∀ a, Seed s k a → ¬ Reach s.ge a x) → Kept s (keys.foldl step s) x := by
  intro keys
  induction keys with
  | nil => intro s x _ _; exact Kept.refl s x
  | cons k rest ih =>
    intro s x he hx
    obtain ⟨R, hc⟩ := hclr s k he
    have h1 := hstep s k x he (hx k (by simp))
    refine h1.trans (ih (step s k) x (hc.edgeOK he) ?_)
    intro k' hk' a ha hr
    refine hx k' (by simp [hk']) a (hSeed s R _ k' a hc ha) (Reach.mono ?_ hr)
    intro e hee
    exact ((hc.mem_ge e).mp hee).1

/-- held and input status of a surviving element go back through a clearing -/
theorem clr_held_back {s s' : St} {R : List GNode} {D : RefId × Node → Prop} (h : Clr s R D s') (n : Node)
    (hh : (lookup s'.data n).isSome) : (lookup s.data n).isSome ∧ (n ∉ s'.inputs → n ∉ s.inputs) := by
  rw [h.lookup] at hh
  split at hh
  · cases hh
  · rename_i hnR
    exact ⟨hh, fun hn hin => hn ((h.mem_inputs n).mpr ⟨hin, hnR⟩)⟩

theorem kept_clearAllValues (s : St) (he : EdgeOK s) (c : CellId) (ci : Bool) (x : GNode)
    (hx : ∀ n : Node, n.1 = c → (lookup s.data n).isSome → (ci = true ∨ n ∉ s.inputs) →
      ¬ Reach s.ge (.elem n) x) : Kept s (s.clearAllValues c ci) x := by
  unfold St.clearAllValues
  refine kept_fold (fun s n => s.clearValueAt n ci)
    (fun s n a => a = .elem n ∧ (lookup s.data n).isSome ∧ (ci = true ∨ n ∉ s.inputs))
    ?_ ?_ ?_ _ s x he ?_
  · intro s n x _ h
    exact kept_clearValueAt s n ci x (fun h1 h2 => h _ ⟨rfl, h1, h2⟩)
  · intro s n he
    obtain ⟨R, h, _⟩ := clr_clearValueAt s (fun _ => False) he n ci
    exact ⟨R, h⟩
  · rintro s R s' n a hc ⟨rfl, h1, h2⟩
    obtain ⟨b1, b2⟩ := clr_held_back hc n h1
    exact ⟨rfl, b1, h2.imp id b2⟩
  · rintro n hn a ⟨rfl, h1, h2⟩
    simp only [List.mem_map, List.mem_filter, beq_iff_eq] at hn
    obtain ⟨e, ⟨_, hec⟩, rfl⟩ := hn
    exact hx e.1 hec h1 h2

/-- the seeds of `on_namespace_change` of cells `c'` -/
def NsSeed (env : Env) (s : St) (c' : CellId) (a : GNode) : Prop :=
  (env.cached c' = true ∧ ∃ n : Node, a = .elem n ∧ n.1 = c' ∧ (lookup s.data n).isSome ∧ n ∉ s.inputs) ∨
  (env.cached c' = false ∧ a ∈ s.gn ∧ a.cell = c')

theorem kept_onNamespaceChange (env : Env) (s : St) (he : EdgeOK s) (c' : CellId) (x : GNode)
    (hx : ∀ a, NsSeed env s c' a → ¬ Reach s.ge a x) : Kept s (s.onNamespaceChange env c') x := by
  unfold St.onNamespaceChange
  split
  · rename_i hc
    refine kept_clearAllValues s he c' false x ?_
    intro n hn h1 h2
    refine hx _ (Or.inl ⟨hc, n, rfl, hn, h1, ?_⟩)
    rcases h2 with h2 | h2
    · cases h2
    · exact h2
  · rename_i hc
    refine kept_clearObj s c' x ?_
    intro a ha hac
    exact hx a (Or.inr ⟨by simpa using hc, ha, hac⟩)

theorem kept_notifyAll (env : Env) (s : St) (he : EdgeOK s) (L : List CellId) (x : GNode)
    (hx : ∀ c' ∈ L, ∀ a, NsSeed env s c' a → ¬ Reach s.ge a x) : Kept s (s.notifyAll env L) x := by
  unfold St.notifyAll
  refine kept_fold (fun s c' => s.onNamespaceChange env c') (NsSeed env)
    (fun s c' x he h => kept_onNamespaceChange env s he c' x h)
    (fun s c' he => by obtain ⟨R, h, _⟩ := clr_onNamespaceChange env s (fun _ => False) he c'; exact ⟨R, h⟩)
    ?_ L s x he hx
  rintro s R s' c' a hc (⟨h1, n, rfl, h2, h3, h4⟩ | ⟨h1, h2, h3⟩)
  · obtain ⟨b1, b2⟩ := clr_held_back hc n h3
    exact Or.inl ⟨h1, n, rfl, h2, b1, b2 h4⟩
  · exact Or.inr ⟨h1, ((hc.mem_gn _).mp h2).1, h3⟩

/-- the seeds of the deletion of cells `c`: the nodes of `c`, the computed elements of the cached
cells of its space, the nodes of the uncached cells of its space -/
def DelSeed (env : Env) (s : St) (c : CellId) (a : GNode) : Prop :=
  (a ∈ s.gn ∧ a.cell = c) ∨ ∃ c' ∈ env.siblings c, NsSeed env s c' a

/-- **everything else keeps its value**: an element (node) that is not a descendant of a seed –
in particular: not of `c`, not computed from `c`, and either outside `c`'s space or an input –
is untouched by the deletion: same value, same input mark -/
theorem delCell_kept (s : St) (he : EdgeOK s) (c : CellId) (x : GNode)
    (hx : ∀ a, DelSeed env s c a → ¬ Reach s.ge a x) : Kept s (s.delCell env c) x := by
  obtain ⟨R1, h1, _, _⟩ := clr_clearObj s (fun _ => False) he c
  unfold St.delCell
  rw [notifySiblings_eq]
  refine (kept_clearObj s c x (fun a ha hac => hx a (Or.inl ⟨ha, hac⟩))).trans
    (kept_notifyAll env _ (h1.edgeOK he) _ x ?_)
  intro c' hc' a ha hr
  refine hx a (Or.inr ⟨c', hc', ?_⟩) (Reach.mono (fun e hee => ((h1.mem_ge e).mp hee).1) hr)
  rcases ha with ⟨k1, n, rfl, k2, k3, k4⟩ | ⟨k1, k2, k3⟩
  · obtain ⟨b1, b2⟩ := clr_held_back h1 n k3
    exact Or.inl ⟨k1, n, rfl, k2, b1, b2 k4⟩
  · exact Or.inr ⟨k1, ((h1.mem_gn _).mp k2).1, k3⟩

/-- **the deletion clears exactly the descendants of its seeds** (lower bound: under the
invariant, where computed elements have nodes and only cached cells have element nodes) -/
theorem delCell_exact {s : St} (h : CI env lt s) (c : CellId) (m : Node) :
    ((∃ a, DelSeed env s c a ∧ Reach s.ge a (.elem m)) →
      lookup (s.delCell env c).data m = none ∧ m ∉ (s.delCell env c).inputs) ∧
    ((¬ ∃ a, DelSeed env s c a ∧ Reach s.ge a (.elem m)) →
      lookup (s.delCell env c).data m = lookup s.data m ∧ (m ∈ (s.delCell env c).inputs ↔ m ∈ s.inputs)) := by
  constructor
  · rintro ⟨a, hseed, hr⟩
    obtain ⟨R1, R2, h1, h2, h12, hown, hns⟩ := delCell_clr (env := env) s h.gi.edgeOK c
    have haR : a ∈ R1 ++ R2 := by
      rcases hseed with ⟨ha, hac⟩ | ⟨c', hc', hs⟩
      · exact List.mem_append_left _ (hown a ha hac)
      · by_cases ha1 : a ∈ R1
        · exact List.mem_append_left _ ha1
        · refine List.mem_append_right _ (hns c' hc' a ?_)
          rcases hs with ⟨k1, n, rfl, k2, k3, k4⟩ | ⟨k1, k2, k3⟩
          · have hgn : GNode.elem n ∈ s.gn := (h.gi.heldNodes n k3).1
            refine Or.inl ⟨k1, n, rfl, k2, ?_, fun hin => k4 ((h1.mem_inputs n).mp hin).1,
              (h1.mem_gn _).mpr ⟨hgn, ha1⟩⟩
            rw [h1.lookup, if_neg ha1]; exact k3
          · cases a with
            | elem n =>
              have := h.gi.elemCached n k2
              simp only [GNode.cell] at k3
              rw [k3, k1] at this; cases this
            | obj c'' =>
              simp only [GNode.cell] at k3
              subst k3
              exact Or.inr ⟨k1, rfl, (h1.mem_gn _).mpr ⟨k2, ha1⟩⟩
    have hm : GNode.elem m ∈ R1 ++ R2 := closed_reach h12.closed haR hr
    exact ⟨by rw [h12.lookup, if_pos hm], fun hin => ((h12.mem_inputs m).mp hin).2 hm⟩
  · intro hno
    have := delCell_kept (env := env) s h.gi.edgeOK c (.elem m) (fun a ha hr => hno ⟨a, ha, hr⟩)
    exact this.data m rfl

end MxModel.Exec
