import MxModel.Kernels.Backup
/-! Helper lemmas for C14 (`Kernels/Backup.lean`): running plans, what the rotation touches,
where a slot's content can go, the result of an uninterrupted rotation. -/
namespace MxModel.Backup

/-! ### `FS.set` -/

@[simp] theorem set_same (fs : FS) (i : Nat) (s : Slot) : (fs.set i s) i = s := by
  simp [FS.set]

theorem set_other (fs : FS) {i j : Nat} (s : Slot) (h : j ≠ i) : (fs.set i s) j = fs j := by
  simp [FS.set, h]

/-! ### `run` -/

@[simp] theorem run_nil (k : Nat) (fs : FS) : run [] k fs = (fs, true) := by
  cases k <;> rfl

@[simp] theorem run_zero_cons (p : Prim) (ps : List Prim) (fs : FS) :
    run (p :: ps) 0 fs = (fs, false) := rfl

theorem run_succ_cons (p : Prim) (ps : List Prim) (k : Nat) (fs : FS) :
    run (p :: ps) (k + 1) fs =
      match step p fs with
      | none => (fs, false)
      | some fs' => run ps k fs' := rfl

/-- a plan that is cut short inside its first part never reaches the second -/
theorem run_append (a b : List Prim) (k : Nat) (fs : FS) :
    run (a ++ b) k fs =
      if (run a k fs).2 then run b (k - a.length) (run a k fs).1 else run a k fs := by
  induction a generalizing k fs with
  | nil => simp
  | cons p ps ih =>
    cases k with
    | zero => simp
    | succ k =>
      have h1 := run_succ_cons p (ps ++ b) k fs
      have h2 := run_succ_cons p ps k fs
      cases hs : step p fs with
      | none => rw [hs] at h1 h2; simp only [List.cons_append, h1, h2]; simp
      | some fs' =>
        rw [hs] at h1 h2
        simp only [List.cons_append, h1, h2, ih, List.length_cons]
        simp

/-- an interrupted run is flagged: with `k` smaller than the plan, the flag is `false` -/
theorem run_short (ps : List Prim) (k : Nat) (fs : FS) (h : k < ps.length) :
    (run ps k fs).2 = false := by
  induction ps generalizing k fs with
  | nil => simp at h
  | cons p ps ih =>
    cases k with
    | zero => rfl
    | succ k =>
      rw [run_succ_cons]
      cases step p fs with
      | none => rfl
      | some fs' => exact ih k fs' (by simpa using h)

/-- a property kept by every primitive of a plan holds wherever the plan stops -/
theorem run_inv (I : FS → Prop) (ps : List Prim)
    (hI : ∀ p ∈ ps, ∀ fs fs', I fs → step p fs = some fs' → I fs')
    (k : Nat) (fs : FS) (h : I fs) : I (run ps k fs).1 := by
  induction ps generalizing k fs with
  | nil => simpa using h
  | cons p ps ih =>
    cases k with
    | zero => exact h
    | succ k =>
      rw [run_succ_cons]
      cases hs : step p fs with
      | none => exact h
      | some fs' =>
        exact ih (fun q hq => hI q (List.mem_cons_of_mem _ hq)) k fs'
          (hI p List.mem_cons_self fs fs' h hs)

/-! ### which slots a primitive can change -/

def Prim.touches : Prim → Nat → Prop
  | .rm i _, j => j = i
  | .rename i, j => j = i ∨ j = i + 1
  | .mkroot _, j => j = 0
  | .write _ _, j => j = 0
  | .tmp _, _ => False
  | .move _, j => j = 0
  | .moveBroken _, j => j = 0

theorem step_untouched {p : Prim} {fs fs' : FS} (h : step p fs = some fs') (j : Nat)
    (hj : ¬ p.touches j) : fs' j = fs j := by
  cases p with
  | rm i last =>
    simp only [Prim.touches] at hj
    simp only [step] at h
    split at h
    · cases h
    · split at h
      · cases h; exact set_other _ _ hj
      · cases h
    · split at h
      · cases h; exact set_other _ _ hj
      · cases h
    · cases h; exact set_other _ _ hj
  | rename i =>
    simp only [Prim.touches, not_or] at hj
    simp only [step] at h
    split at h
    · cases h
    · split at h
      · cases h
        rw [set_other _ _ hj.1, set_other _ _ hj.2]
      · cases h
  | mkroot g =>
    simp only [Prim.touches] at hj
    simp only [step] at h
    split at h
    · cases h; exact set_other _ _ hj
    · cases h; rfl
    · cases h; rfl
    · cases h
  | write g last =>
    simp only [Prim.touches] at hj
    simp only [step] at h
    split at h
    · cases h; exact set_other _ _ hj
    · cases h; exact set_other _ _ hj
    · cases h
  | tmp t => simp only [step] at h; cases h; rfl
  | move g =>
    simp only [Prim.touches] at hj
    simp only [step] at h
    split at h
    · cases h
    · cases h
    · cases h; exact set_other _ _ hj
  | moveBroken g =>
    simp only [Prim.touches] at hj
    simp only [step] at h
    split at h
    · cases h
    · cases h
    · cases h; exact set_other _ _ hj

theorem run_untouched (ps : List Prim) (j : Nat) (hps : ∀ p ∈ ps, ¬ p.touches j)
    (k : Nat) (fs : FS) : (run ps k fs).1 j = fs j :=
  run_inv (fun s => s j = fs j) ps
    (fun p hp s s' hs hstep => by rw [step_untouched hstep j (hps p hp)]; exact hs) k fs rfl

/-! ### shape of the rotation plan -/

theorem mem_rmSteps {p : Prim} {i n : Nat} (h : p ∈ rmSteps i n) : ∃ l, p = .rm i l := by
  simp only [rmSteps, List.mem_append, List.mem_replicate, List.mem_singleton] at h
  rcases h with ⟨_, rfl⟩ | rfl
  · exact ⟨false, rfl⟩
  · exact ⟨true, rfl⟩

/-- the rotation started at `nth` with `fuel = max - nth` consists of removals of slot `max`
and renames of slots in `[nth, max)` -/
theorem mem_rot {fs : FS} {nrm : Nat} {p : Prim} :
    ∀ {f n : Nat}, p ∈ rot fs nrm f n →
      (∃ l, p = .rm (n + f) l) ∨ (∃ i, p = .rename i ∧ n ≤ i ∧ i < n + f) := by
  intro f
  induction f with
  | zero =>
    intro n h
    left
    simp only [rot] at h
    split at h
    · simp at h
    · simp only [List.mem_singleton] at h; exact ⟨true, by simpa using h⟩
    · simp only [List.mem_singleton] at h; exact ⟨true, by simpa using h⟩
    · simpa using mem_rmSteps h
  | succ f ih =>
    intro n h
    simp only [rot] at h
    split at h
    · simp at h
    · simp only [List.mem_append, List.mem_singleton] at h
      rcases h with h | rfl
      · rcases ih h with ⟨l, rfl⟩ | ⟨i, rfl, h1, h2⟩
        · left; exact ⟨l, by congr 1; omega⟩
        · right; exact ⟨i, rfl, by omega, by omega⟩
      · right; exact ⟨n, rfl, by omega, by omega⟩

/-- … and therefore changes no slot below `nth` -/
theorem rot_touches {fs : FS} {nrm f n : Nat} {p : Prim} (h : p ∈ rot fs nrm f n) (j : Nat)
    (hj : p.touches j) : n ≤ j := by
  rcases mem_rot h with ⟨l, rfl⟩ | ⟨i, rfl, h1, _⟩
  · simp only [Prim.touches] at hj; omega
  · simp only [Prim.touches] at hj; omega

/-- what the directory writer consists of -/
theorem mem_dirWriter {g : Nat} {body : List (Option TmpKind)} {p : Prim}
    (h : p ∈ dirWriter g body) :
    p = .mkroot g ∨ (∃ l, p = .write g l) ∨ (∃ t, p = .tmp t) := by
  simp only [dirWriter, List.mem_cons, List.mem_append, List.mem_map,
    List.not_mem_nil, or_false] at h
  rcases h with rfl | ⟨o, _, rfl⟩ | rfl
  · exact Or.inl rfl
  · cases o with
    | none => exact Or.inr (Or.inl ⟨false, rfl⟩)
    | some t => exact Or.inr (Or.inr ⟨t, rfl⟩)
  · exact Or.inr (Or.inl ⟨true, rfl⟩)

/-- a list of primitives that only ever change the path itself -/
def WriterLike (w : List Prim) : Prop := ∀ p ∈ w, ∀ j, p.touches j → j = 0

theorem writerLike_writer (sv : Save) : WriterLike (writer sv) := by
  intro p h j hj
  unfold writer at h
  split at h
  · rcases mem_dirWriter h with rfl | ⟨_, rfl⟩ | ⟨_, rfl⟩
    · exact hj
    · exact hj
    · exact hj.elim
  · simp [zipWriter] at h
    rcases h with ⟨_, _, rfl⟩ | rfl | ⟨_, rfl⟩
    · exact hj.elim
    · exact hj
    · exact hj.elim

theorem writerLike_writerBroken (sv : Save) : WriterLike (writerBroken sv) := by
  intro p h j hj
  unfold writerBroken at h
  split at h
  · rcases mem_dirWriter h with rfl | ⟨_, rfl⟩ | ⟨_, rfl⟩
    · exact hj
    · exact hj
    · exact hj.elim
  · simp [zipWriterBroken] at h
    rcases h with ⟨_, _, rfl⟩ | rfl | ⟨_, rfl⟩
    · exact hj.elim
    · exact hj
    · exact hj.elim

/-! ### where the content of a slot can be after an (interrupted) rotation -/

/-- the content of slot `i` (`nth ≤ i < max`) is afterwards in slot `i` or in slot `i+1`,
wherever the rotation stops -/
theorem rot_moves_one (fs : FS) (nrm : Nat) (s : Slot) (hs : s ≠ .absent) :
    ∀ (f n i k : Nat), n ≤ i → i < n + f → fs i = s →
      (run (rot fs nrm f n) k fs).1 i = s ∨ (run (rot fs nrm f n) k fs).1 (i + 1) = s := by
  intro f
  induction f with
  | zero => intro n i k h1 h2; omega
  | succ f ih =>
    intro n i k h1 h2 hi
    simp only [rot]
    split
    · left; simpa using hi
    · rw [run_append]
      by_cases hin : i = n
      · -- the deeper part does not touch slot `i`
        subst hin
        have hA : (run (rot fs nrm f (i + 1)) k fs).1 i = s := by
          rw [run_untouched _ i (fun p hp ht => by have := rot_touches hp i ht; omega)]
          exact hi
        split
        · generalize (run (rot fs nrm f (i + 1)) k fs).1 = fs1 at hA
          cases hk : k - (rot fs nrm f (i + 1)).length with
          | zero => left; simpa using hA
          | succ k' =>
            rw [run_succ_cons]
            have hstep : step (.rename i) fs1 =
                if fs1 (i + 1) = .absent then some ((fs1.set (i + 1) s).set i .absent)
                else none := by simp [step, hA, hs]
            by_cases hab : fs1 (i + 1) = .absent
            · right
              simp only [hstep, if_pos hab, run_nil]
              rw [set_other _ _ (by omega), set_same]
            · left
              simp only [hstep, if_neg hab]
              exact hA
        · left; exact hA
      · have hIH := ih (n + 1) i k (by omega) (by omega) hi
        split
        · generalize (run (rot fs nrm f (n + 1)) k fs).1 = fs1 at hIH
          cases hk : k - (rot fs nrm f (n + 1)).length with
          | zero => simpa using hIH
          | succ k' =>
            rw [run_succ_cons]
            cases hstep : step (.rename n) fs1 with
            | none => exact hIH
            | some fs2 =>
              simp only [run_nil]
              have hi1 : fs2 (i + 1) = fs1 (i + 1) :=
                step_untouched hstep (i + 1) (by simp only [Prim.touches]; omega)
              rcases hIH with h | h
              · -- still in slot `i`: the rename can only have gone ahead if `i ≠ n+1`
                by_cases hn1 : i = n + 1
                · subst hn1
                  simp only [step] at hstep
                  split at hstep
                  · cases hstep
                  · split at hstep
                    · rename_i hab; rw [h] at hab; exact absurd hab hs
                    · cases hstep
                · left
                  rw [step_untouched hstep i (by simp only [Prim.touches]; omega)]
                  exact h
              · right; rw [hi1]; exact h
        · exact hIH

/-- a rotation that ran to its end has emptied its first slot -/
theorem rot_done_vacates (fs : FS) (nrm f n k : Nat) (hn : fs n ≠ .absent)
    (hdone : (run (rot fs nrm (f + 1) n) k fs).2 = true) :
    (run (rot fs nrm (f + 1) n) k fs).1 n = .absent := by
  simp only [rot, if_neg hn] at hdone ⊢
  rw [run_append] at hdone ⊢
  split at hdone
  · rename_i hA
    simp only [hA, if_true]
    generalize (run (rot fs nrm f (n + 1)) k fs).1 = fs1 at hdone ⊢
    cases hk : k - (rot fs nrm f (n + 1)).length with
    | zero => rw [hk] at hdone; simp at hdone
    | succ k' =>
      rw [hk] at hdone
      rw [run_succ_cons] at hdone ⊢
      cases hstep : step (.rename n) fs1 with
      | none => rw [hstep] at hdone; simp at hdone
      | some fs2 =>
        simp only [run_nil]
        simp only [step] at hstep
        split at hstep
        · cases hstep
        · split at hstep
          · cases hstep; simp
          · cases hstep
  · rename_i hA
    rw [Bool.not_eq_true] at hA
    rw [hA] at hdone; cases hdone



/-! ### one save, interrupted anywhere -/

theorem writer_untouched {w : List Prim} (hw : WriterLike w) (j : Nat) (hj : j ≠ 0) (k : Nat)
    (fs : FS) : (run w k fs).1 j = fs j :=
  run_untouched _ j (fun p hp ht => hj (hw p hp j ht)) k fs

/-- the three ways a save can go (`save`): each is a run of the rotation followed by
primitives that touch the path only -/
theorem save_cases (maxB : Nat) (sv : Save) (k : Nat) (fs : FS) (P : FS × Bool → Prop)
    (h : ∀ w k', WriterLike w → (w = writer sv ∨ w = writerBroken sv) →
      P (run (rotation maxB sv.nrm fs ++ w) k' fs)) :
    P (save maxB sv k fs) := by
  unfold save
  split
  · exact h _ _ (writerLike_writer sv) (Or.inl rfl)
  · exact h _ _ (writerLike_writer sv) (Or.inl rfl)
  · exact h _ _ (writerLike_writerBroken sv) (Or.inr rfl)

theorem runRW_moves_one (maxB nrm : Nat) (w : List Prim) (hw : WriterLike w) (k : Nat) (fs : FS)
    (i : Nat) (s : Slot) (hs : s ≠ .absent) (hi : i < maxB) (h : fs i = s) :
    (run (rotation maxB nrm fs ++ w) k fs).1 i = s ∨
      (run (rotation maxB nrm fs ++ w) k fs).1 (i + 1) = s := by
  have hR := rot_moves_one fs nrm s hs maxB 0 i k (Nat.zero_le _) (by omega) h
  unfold rotation
  rw [run_append]
  split
  · rename_i hdone
    by_cases hi0 : i = 0
    · subst hi0
      obtain ⟨f, rfl⟩ : ∃ f, maxB = f + 1 := ⟨maxB - 1, by omega⟩
      have hv := rot_done_vacates fs nrm f 0 k (by rw [h]; exact hs) hdone
      right
      rw [writer_untouched hw 1 (by omega)]
      rcases hR with h0 | h1
      · rw [hv] at h0; exact absurd h0.symm hs
      · exact h1
    · rw [writer_untouched hw i hi0, writer_untouched hw (i + 1) (by omega)]
      exact hR
  · exact hR

/-- whatever slot `i < max` holds is, after a save interrupted anywhere, in slot `i` or `i+1` -/
theorem save_moves_one (maxB : Nat) (sv : Save) (k : Nat) (fs : FS) (i : Nat) (s : Slot)
    (hs : s ≠ .absent) (hi : i < maxB) (h : fs i = s) :
    (save maxB sv k fs).1 i = s ∨ (save maxB sv k fs).1 (i + 1) = s :=
  save_cases maxB sv k fs (fun r => r.1 i = s ∨ r.1 (i + 1) = s)
    (fun w k' hw _ => runRW_moves_one maxB sv.nrm w hw k' fs i s hs hi h)

/-- with nothing at the path there is no rotation: only the path can change -/
theorem save_other_of_absent (maxB : Nat) (sv : Save) (k : Nat) (fs : FS) (h0 : fs 0 = .absent)
    (j : Nat) (hj : j ≠ 0) : (save maxB sv k fs).1 j = fs j := by
  refine save_cases maxB sv k fs (fun r => r.1 j = fs j) ?_
  intro w k' hw _
  have : rotation maxB sv.nrm fs = [] := by
    unfold rotation; cases maxB <;> simp [rot, h0]
  rw [this, List.nil_append]
  exact writer_untouched hw j hj k' fs

/-! ### no partially written archive, ever -/

/-- no slot holds a partial *file* -/
def NoPartialZip (fs : FS) : Prop := ∀ j g, fs j ≠ .part .zip g

theorem set_noPartialZip {fs : FS} (h : NoPartialZip fs) (i : Nat) (s : Slot)
    (hs : ∀ g, s ≠ .part .zip g) : NoPartialZip (fs.set i s) := by
  intro j g
  by_cases hj : j = i
  · subst hj; rw [set_same]; exact hs g
  · rw [set_other _ _ hj]; exact h j g

theorem step_noPartialZip (p : Prim) (hnb : ∀ g, p ≠ .moveBroken g) (fs fs' : FS)
    (h : NoPartialZip fs) (hstep : step p fs = some fs') : NoPartialZip fs' := by
  cases p with
  | moveBroken g => exact absurd rfl (hnb g)
  | rm i last =>
    simp only [step] at hstep
    split at hstep
    · cases hstep
    · split at hstep
      · cases hstep; exact set_noPartialZip h _ _ (by intro g hg; cases hg)
      · cases hstep
    · split at hstep
      · cases hstep; exact set_noPartialZip h _ _ (by intro g hg; cases hg)
      · cases hstep
    · rename_i s hne hz1 hz2
      cases hstep
      refine set_noPartialZip h _ _ ?_
      intro g
      cases last with
      | true => intro hg; cases hg
      | false =>
        simp only [Bool.false_eq_true, if_false]
        cases hfi : fs i with
        | absent => simp [Slot.damaged]
        | good c g' =>
          cases c with
          | dir => simp [Slot.damaged]
          | zip => exact absurd hfi (hz1 g')
        | part c g' =>
          cases c with
          | dir => simp [Slot.damaged]
          | zip => exact absurd hfi (hz2 g')
  | rename i =>
    simp only [step] at hstep
    split at hstep
    · cases hstep
    · split at hstep
      · cases hstep
        exact set_noPartialZip (set_noPartialZip h _ _ (fun g => h i g)) _ _
          (by intro g hg; cases hg)
      · cases hstep
  | mkroot g =>
    simp only [step] at hstep
    split at hstep
    · cases hstep; exact set_noPartialZip h _ _ (by intro g hg; cases hg)
    · cases hstep; exact h
    · cases hstep; exact h
    · cases hstep
  | write g last =>
    simp only [step] at hstep
    have hw : ∀ g', (if last = true then Slot.good Kind.dir g else Slot.part Kind.dir g) ≠
        Slot.part Kind.zip g' := by
      intro g'; split <;> intro hg <;> cases hg
    split at hstep
    · cases hstep; exact set_noPartialZip h _ _ hw
    · cases hstep; exact set_noPartialZip h _ _ hw
    · cases hstep
  | tmp t => simp only [step] at hstep; cases hstep; exact h
  | move g =>
    simp only [step] at hstep
    split at hstep
    · cases hstep
    · cases hstep
    · cases hstep; exact set_noPartialZip h _ _ (by intro g hg; cases hg)

/-- the regular plan never moves a truncated archive -/
theorem plan_no_moveBroken {maxB : Nat} {sv : Save} {fs : FS} {p : Prim}
    (hp : p ∈ plan maxB sv fs) (g : Nat) : p ≠ .moveBroken g := by
  simp only [plan, rotation, List.mem_append] at hp
  rcases hp with hp | hp
  · rcases mem_rot hp with ⟨l, rfl⟩ | ⟨i, rfl, _, _⟩ <;> intro hc <;> cases hc
  · unfold writer at hp
    split at hp
    · rcases mem_dirWriter hp with rfl | ⟨_, rfl⟩ | ⟨_, rfl⟩ <;> intro hc <;> cases hc
    · simp [zipWriter] at hp
      rcases hp with ⟨_, _, rfl⟩ | rfl | ⟨_, rfl⟩ <;> intro hc <;> cases hc

theorem save_noPartialZip (maxB : Nat) (sv : Save) (k : Nat) (fs : FS)
    (hk : faultKind sv.pol (plan maxB sv fs) k ≠ .truncates) (h : NoPartialZip fs) :
    NoPartialZip (save maxB sv k fs).1 := by
  have hrun : ∀ k', NoPartialZip (run (plan maxB sv fs) k' fs).1 := fun k' =>
    run_inv NoPartialZip _
      (fun p hp s s' hs hst => step_noPartialZip p (plan_no_moveBroken hp) s s' hs hst) k' fs h
  unfold save
  split
  · exact hrun _
  · exact hrun _
  · rename_i hc; exact absurd hc hk

/-! ### a zip save never leaves something partial at the path -/

def Slot.isPart : Slot → Bool
  | .part _ _ => true
  | _ => false

def Slot.isGood : Slot → Bool
  | .good _ _ => true
  | _ => false

/-- primitives that cannot make slot 0 partial -/
def Prim.keepsPathWhole : Prim → Prop
  | .rm i _ => i ≠ 0
  | .rename _ => True
  | .tmp _ => True
  | .move _ => True
  | _ => False

theorem step_pathWhole (p : Prim) (hp : p.keepsPathWhole) (fs fs' : FS)
    (h : (fs 0).isPart = false) (hstep : step p fs = some fs') : (fs' 0).isPart = false := by
  cases p with
  | rm i last =>
    simp only [Prim.keepsPathWhole] at hp
    rw [step_untouched hstep 0 (by simp only [Prim.touches]; omega)]; exact h
  | rename i =>
    simp only [step] at hstep
    split at hstep
    · cases hstep
    · split at hstep
      · cases hstep
        by_cases hi : i = 0
        · subst hi; rw [set_same]; rfl
        · rw [set_other _ _ (Ne.symm hi), set_other _ _ (by omega)]; exact h
      · cases hstep
  | mkroot g => exact hp.elim
  | write g last => exact hp.elim
  | tmp t => simp only [step] at hstep; cases hstep; exact h
  | move g =>
    simp only [step] at hstep
    split at hstep
    · cases hstep
    · cases hstep
    · cases hstep; rw [set_same]; rfl
  | moveBroken g => exact hp.elim

theorem zip_save_pathWhole (maxB : Nat) (h1 : 1 ≤ maxB) (sv : Save) (hz : sv.kind = .zip)
    (k : Nat) (fs : FS) (hk : faultKind sv.pol (plan maxB sv fs) k ≠ .truncates)
    (h : (fs 0).isPart = false) :
    ((save maxB sv k fs).1 0).isPart = false := by
  have hrun : ∀ k', ((run (plan maxB sv fs) k' fs).1 0).isPart = false := by
    intro k'
    refine run_inv (fun s => (s 0).isPart = false) _ ?_ k' fs h
    intro p hp s s' hs hst
    refine step_pathWhole p ?_ s s' hs hst
    simp only [plan, rotation, List.mem_append] at hp
    rcases hp with hp | hp
    · rcases mem_rot hp with ⟨l, rfl⟩ | ⟨i, rfl, _, _⟩
      · simp only [Prim.keepsPathWhole]; omega
      · trivial
    · simp [writer, hz, zipWriter] at hp
      rcases hp with ⟨_, _, rfl⟩ | rfl | ⟨_, rfl⟩ <;> trivial
  unfold save
  split
  · exact hrun _
  · exact hrun _
  · rename_i hc; exact absurd hc hk

/-! ### generations stay in order, whatever fails -/

def Slot.gen : Slot → Option Nat
  | .absent => none
  | .good _ g => some g
  | .part _ g => some g

/-- along `path, _BAK1, _BAK2, …` the generation numbers strictly decrease -/
def Ordered (fs : FS) : Prop :=
  ∀ i j a b, i < j → (fs i).gen = some a → (fs j).gen = some b → b < a

/-- every generation present is older than `g` -/
def Below (g : Nat) (fs : FS) : Prop := ∀ i a, (fs i).gen = some a → a < g

theorem damaged_gen (s : Slot) : s.damaged.gen = s.gen := by cases s <;> rfl

theorem ordered_of_sub {fs fs' : FS} (hsub : ∀ x v, (fs' x).gen = some v → (fs x).gen = some v)
    (h : Ordered fs) : Ordered fs' :=
  fun i j a b hij ha hb => h i j a b hij (hsub i a ha) (hsub j b hb)

theorem below_of_sub {fs fs' : FS} {g : Nat}
    (hsub : ∀ x v, (fs' x).gen = some v → (fs x).gen = some v)
    (h : Below g fs) : Below g fs' :=
  fun i a ha => h i a (hsub i a ha)

theorem set_sub (fs : FS) (i : Nat) (s : Slot) (hs : s.gen = (fs i).gen ∨ s.gen = none) :
    ∀ x v, ((fs.set i s) x).gen = some v → (fs x).gen = some v := by
  intro x v hv
  by_cases hx : x = i
  · subst hx
    rw [set_same] at hv
    rcases hs with hs | hs
    · rw [← hs]; exact hv
    · rw [hs] at hv; cases hv
  · rw [set_other _ _ hx] at hv; exact hv

theorem step_rm_sub {i : Nat} {last : Bool} {fs fs' : FS} (hstep : step (.rm i last) fs = some fs') :
    ∀ x v, (fs' x).gen = some v → (fs x).gen = some v := by
  simp only [step] at hstep
  split at hstep
  · cases hstep
  · split at hstep
    · cases hstep; exact set_sub fs i _ (Or.inr rfl)
    · cases hstep
  · split at hstep
    · cases hstep; exact set_sub fs i _ (Or.inr rfl)
    · cases hstep
  · cases hstep
    refine set_sub fs i _ ?_
    cases last with
    | true => exact Or.inr rfl
    | false => left; simp only [Bool.false_eq_true, if_false]; exact damaged_gen _

theorem step_rot_ordered (p : Prim) (hp : (∃ i l, p = .rm i l) ∨ ∃ i, p = .rename i) (g : Nat)
    (fs fs' : FS) (h : Ordered fs ∧ Below g fs) (hstep : step p fs = some fs') :
    Ordered fs' ∧ Below g fs' := by
  rcases hp with ⟨i, l, rfl⟩ | ⟨i, rfl⟩
  · exact ⟨ordered_of_sub (step_rm_sub hstep) h.1, below_of_sub (step_rm_sub hstep) h.2⟩
  · simp only [step] at hstep
    split at hstep
    · cases hstep
    · split at hstep
      · rename_i hsrc hdst
        cases hstep
        -- where a generation seen afterwards was before
        have key : ∀ x v, (((fs.set (i + 1) (fs i)).set i Slot.absent) x).gen = some v →
            (x = i + 1 ∧ (fs i).gen = some v) ∨ (x ≠ i ∧ x ≠ i + 1 ∧ (fs x).gen = some v) := by
          intro x v hv
          by_cases hx : x = i
          · subst hx; rw [set_same] at hv; cases hv
          · rw [set_other _ _ hx] at hv
            by_cases hx1 : x = i + 1
            · subst hx1; rw [set_same] at hv; exact Or.inl ⟨rfl, hv⟩
            · rw [set_other _ _ hx1] at hv; exact Or.inr ⟨hx, hx1, hv⟩
        refine ⟨?_, ?_⟩
        · intro a b va vb hab ha hb
          rcases key a va ha with ⟨ha1, ha2⟩ | ⟨ha1, ha2, ha3⟩ <;>
            rcases key b vb hb with ⟨hb1, hb2⟩ | ⟨hb1, hb2, hb3⟩
          · omega
          · exact h.1 i b va vb (by omega) ha2 hb3
          · exact h.1 a i va vb (by omega) ha3 hb2
          · exact h.1 a b va vb hab ha3 hb3
        · intro x v hv
          rcases key x v hv with ⟨_, h2⟩ | ⟨_, _, h3⟩
          · exact h.2 i v h2
          · exact h.2 x v h3
      · cases hstep

/-- the invariant of the writing phase of a save of generation `g` -/
def WInv (g : Nat) (fs : FS) : Prop :=
  Ordered fs ∧ (∀ j a, j ≠ 0 → (fs j).gen = some a → a < g) ∧ (∀ a, (fs 0).gen = some a → a ≤ g)

theorem set0_wInv {g : Nat} {fs : FS} (h : WInv g fs) (s : Slot) (hs : s.gen = some g) :
    WInv g (fs.set 0 s) := by
  refine ⟨?_, ?_, ?_⟩
  · intro i j a b hij ha hb
    have hj : j ≠ 0 := by omega
    rw [set_other _ _ hj] at hb
    by_cases hi : i = 0
    · subst hi
      rw [set_same, hs] at ha
      cases ha
      exact h.2.1 j b hj hb
    · rw [set_other _ _ hi] at ha
      exact h.1 i j a b hij ha hb
  · intro j a hj ha
    rw [set_other _ _ hj] at ha
    exact h.2.1 j a hj ha
  · intro a ha
    rw [set_same, hs] at ha
    cases ha
    exact Nat.le_refl _

theorem step_writer_wInv (sv : Save) (p : Prim) (hp : p ∈ writer sv ∨ p ∈ writerBroken sv)
    (fs fs' : FS) (h : WInv sv.g fs) (hstep : step p fs = some fs') : WInv sv.g fs' := by
  have hcases : p = .mkroot sv.g ∨ (∃ l, p = .write sv.g l) ∨ (∃ t, p = .tmp t) ∨
      p = .move sv.g ∨ p = .moveBroken sv.g := by
    rcases hp with hp | hp
    · unfold writer at hp
      split at hp
      · rcases mem_dirWriter hp with rfl | ⟨_, rfl⟩ | ⟨t, rfl⟩
        · exact Or.inl rfl
        · exact Or.inr (Or.inl ⟨_, rfl⟩)
        · exact Or.inr (Or.inr (Or.inl ⟨t, rfl⟩))
      · simp [zipWriter] at hp
        rcases hp with ⟨t, _, rfl⟩ | rfl | ⟨_, rfl⟩
        · exact Or.inr (Or.inr (Or.inl ⟨t, rfl⟩))
        · exact Or.inr (Or.inr (Or.inr (Or.inl rfl)))
        · exact Or.inr (Or.inr (Or.inl ⟨_, rfl⟩))
    · unfold writerBroken at hp
      split at hp
      · rcases mem_dirWriter hp with rfl | ⟨_, rfl⟩ | ⟨t, rfl⟩
        · exact Or.inl rfl
        · exact Or.inr (Or.inl ⟨_, rfl⟩)
        · exact Or.inr (Or.inr (Or.inl ⟨t, rfl⟩))
      · simp [zipWriterBroken] at hp
        rcases hp with ⟨t, _, rfl⟩ | rfl | ⟨_, rfl⟩
        · exact Or.inr (Or.inr (Or.inl ⟨t, rfl⟩))
        · exact Or.inr (Or.inr (Or.inr (Or.inr rfl)))
        · exact Or.inr (Or.inr (Or.inl ⟨_, rfl⟩))
  rcases hcases with rfl | ⟨l, rfl⟩ | ⟨t, rfl⟩ | rfl | rfl
  · simp only [step] at hstep
    split at hstep
    · cases hstep; exact set0_wInv h _ rfl
    · cases hstep; exact h
    · cases hstep; exact h
    · cases hstep
  · simp only [step] at hstep
    have hg : (if l = true then Slot.good Kind.dir sv.g else Slot.part Kind.dir sv.g).gen =
        some sv.g := by split <;> rfl
    split at hstep
    · cases hstep; exact set0_wInv h _ hg
    · cases hstep; exact set0_wInv h _ hg
    · cases hstep
  · simp only [step] at hstep; cases hstep; exact h
  · simp only [step] at hstep
    split at hstep
    · cases hstep
    · cases hstep
    · cases hstep; exact set0_wInv h _ rfl
  · simp only [step] at hstep
    split at hstep
    · cases hstep
    · cases hstep
    · cases hstep; exact set0_wInv h _ rfl

theorem save_ordered (maxB : Nat) (sv : Save) (k : Nat) (fs : FS)
    (ho : Ordered fs) (hb : Below sv.g fs) :
    Ordered (save maxB sv k fs).1 ∧ Below (sv.g + 1) (save maxB sv k fs).1 := by
  have hrot : ∀ k', Ordered (run (rotation maxB sv.nrm fs) k' fs).1 ∧
      Below sv.g (run (rotation maxB sv.nrm fs) k' fs).1 := by
    intro k'
    refine run_inv (fun s => Ordered s ∧ Below sv.g s) _ ?_ k' fs ⟨ho, hb⟩
    intro p hp s s' hs hst
    refine step_rot_ordered p ?_ sv.g s s' hs hst
    rcases mem_rot hp with ⟨l, rfl⟩ | ⟨i, rfl, _, _⟩
    · exact Or.inl ⟨_, _, rfl⟩
    · exact Or.inr ⟨_, rfl⟩
  have weaken : ∀ s, Ordered s ∧ Below sv.g s → WInv sv.g s := fun s hs =>
    ⟨hs.1, fun j a _ ha => hs.2 j a ha, fun a ha => Nat.le_of_lt (hs.2 0 a ha)⟩
  have fin : ∀ s, WInv sv.g s → Ordered s ∧ Below (sv.g + 1) s := by
    intro s hs
    refine ⟨hs.1, ?_⟩
    intro i a ha
    by_cases hi : i = 0
    · subst hi; have := hs.2.2 a ha; omega
    · have := hs.2.1 i a hi ha; omega
  refine save_cases maxB sv k fs
    (fun r => Ordered r.1 ∧ Below (sv.g + 1) r.1) ?_
  intro w k' _ hw
  have hmem : ∀ p ∈ w, p ∈ writer sv ∨ p ∈ writerBroken sv := by
    intro p hp
    rcases hw with rfl | rfl
    · exact Or.inl hp
    · exact Or.inr hp
  show Ordered (run (rotation maxB sv.nrm fs ++ w) k' fs).1 ∧
    Below (sv.g + 1) (run (rotation maxB sv.nrm fs ++ w) k' fs).1
  rw [run_append]
  split
  · apply fin
    exact run_inv (WInv sv.g) _
      (fun p hp s s' hs hst => step_writer_wInv sv p (hmem p hp) s s' hs hst) _ _
      (weaken _ (hrot k'))
  · exact fin _ (weaken _ (hrot k'))

end MxModel.Backup
