import MxModel.Kernels.Export
import MxModel.Generated.Tables
/-! Helper lemmas for `Props/C15.lean`. -/
namespace MxModel.Export

/-! ### association lists -/

@[simp] theorem get_nil (k : String) : get [] k = none := rfl

@[simp] theorem get_set (e : Env) (k' k : String) (v : Int) :
    get (set e k' v) k = if k' = k then some v else get e k := rfl

theorem get_none_of_not_mem (e : Env) (k : String) (h : k ∉ e.map (·.1)) : get e k = none := by
  induction e with
  | nil => rfl
  | cons p rest ih =>
    obtain ⟨k', v⟩ := p
    simp only [List.map_cons, List.mem_cons, not_or] at h
    simp only [get]
    rw [if_neg (fun hc => h.1 hc.symm)]
    exact ih h.2

theorem get_append (e1 e2 : Env) (k : String) :
    get (e1 ++ e2) k = (get e1 k).orElse (fun _ => get e2 k) := by
  induction e1 with
  | nil => simp [Option.orElse]
  | cons p rest ih =>
    obtain ⟨k', v⟩ := p
    simp only [List.cons_append, get]
    by_cases h : k' = k
    · simp [h, Option.orElse]
    · simp [h, ih]

/-- `for k in names: e.k = src.k` -/
theorem get_copyFrom (names : List String) (src e : Env) (k : String) :
    get (copyFrom names src e) k =
      if k ∈ names then (get src k).orElse (fun _ => get e k) else get e k := by
  unfold copyFrom
  induction names generalizing e with
  | nil => simp
  | cons n rest ih =>
    simp only [List.foldl_cons]
    rw [ih]
    by_cases hk : k ∈ rest
    · simp only [hk, if_true, List.mem_cons, or_true]
      cases hs : get src k with
      | some v => simp [Option.orElse]
      | none =>
        simp only [Option.orElse]
        cases hn : get src n with
        | none => rfl
        | some w =>
          simp only [get_set]
          by_cases hnk : n = k
          · subst hnk; rw [hs] at hn; cases hn
          · simp [hnk]
    · simp only [hk, if_false, List.mem_cons, or_false]
      by_cases hnk : k = n
      · subst hnk
        simp only [if_true]
        cases hn : get src k with
        | none => simp [Option.orElse]
        | some w => simp [Option.orElse]
      · simp only [hnk, if_false]
        cases hn : get src n with
        | none => rfl
        | some w =>
          have hne : ¬ n = k := fun h => hnk h.symm
          simp [get_set, hne]

theorem get_zip_none (ps : List String) (a : List Int) (k : String) (h : k ∉ ps) :
    get (ps.zip a) k = none := by
  induction ps generalizing a with
  | nil => rfl
  | cons p rest ih =>
    cases a with
    | nil => rfl
    | cons v a' =>
      simp only [List.mem_cons, not_or] at h
      simp only [List.zip_cons_cons, get]
      rw [if_neg (fun hc => h.1 hc.symm)]
      exact ih a' h.2

theorem get_zip_some (ps : List String) (a : List Int) (k : String) (h : k ∈ ps)
    (hl : a.length = ps.length) : ∃ v, get (ps.zip a) k = some v := by
  induction ps generalizing a with
  | nil => cases h
  | cons p rest ih =>
    cases a with
    | nil => simp at hl
    | cons v a' =>
      simp only [List.zip_cons_cons, get]
      by_cases hp : p = k
      · exact ⟨v, by simp [hp]⟩
      · simp only [hp, if_false]
        simp only [List.mem_cons] at h
        rcases h with h | h
        · exact absurd h.symm hp
        · exact ih a' h (by simpa using hl)

/-- `_mx_assign_params`: the statements `_mx_space.p = p` in parameter order -/
theorem get_assignParams (ps : List String) (a : List Int) (e : Env) (k : String)
    (hnd : ps.Nodup) :
    get (assignParams ps a e) k = (get (ps.zip a) k).orElse (fun _ => get e k) := by
  unfold assignParams
  induction ps generalizing a e with
  | nil => simp [Option.orElse]
  | cons p rest ih =>
    cases a with
    | nil => simp [Option.orElse]
    | cons v a' =>
      simp only [List.zip_cons_cons, List.foldl_cons]
      rw [List.nodup_cons] at hnd
      rw [ih a' _ hnd.2]
      simp only [get, get_set]
      by_cases hp : p = k
      · subst hp
        simp [get_zip_none rest a' p hnd.1, Option.orElse]
      · simp [hp]

theorem copyAllParams_append (rs : List Root) (r : Root) (e : Env) :
    copyAllParams (rs ++ [r]) e = copyParams r (copyAllParams rs e) := by
  simp [copyAllParams, List.foldl_append]

/-- the loop body of the generated `__call__`, in the statement order found in exporter.py -/
theorem newAttrs_generated (rn : List String) (base : Env) (roots : List Root) (ps : List String)
    (a : List Int) :
    newAttrs Generated.exportCallLoop rn base roots ps a =
      assignParams ps a (copyAllParams roots (copyFrom rn base [])) := by
  simp [newAttrs, Generated.exportCallLoop, loopStep]

/-! ### the chain of arguments, in the order found in `_init_allargs` -/

theorem argOf_cons_none (l : Level) (outer : List Level) (k : String) (h : l.args = none) :
    argOf Generated.mxAllargsOrder (l :: outer) k = argOf Generated.mxAllargsOrder outer k := by
  simp [argOf, h]

theorem argOf_cons_some (l : Level) (outer : List Level) (k : String) (a : List Int)
    (h : l.args = some a) :
    argOf Generated.mxAllargsOrder (l :: outer) k =
      (get (l.sp.params.zip a) k).orElse (fun _ => argOf Generated.mxAllargsOrder outer k) := by
  simp only [argOf, h, Generated.mxAllargsOrder, List.map_cons, List.map_nil]
  cases hz : get (l.sp.params.zip a) k with
  | some v => simp [firstSome, Option.orElse]
  | none =>
    cases ho : argOf ["own", "parent"] outer k with
    | some v => simp [firstSome, Option.orElse]
    | none => simp [firstSome, Option.orElse]

theorem after_cons_none (g : Env) (l : Level) (outer : List Level) (h : l.args = none) :
    after Generated.exportCallLoop g (l :: outer) = after Generated.exportCallLoop g outer := by
  simp [after, h]

theorem after_cons_some (g : Env) (l : Level) (outer : List Level) (a : List Int)
    (h : l.args = some a) :
    after Generated.exportCallLoop g (l :: outer) =
      ((fun d => newAttrs Generated.exportCallLoop (refNames g d)
                  ((after Generated.exportCallLoop g outer).1 d)
                  (after Generated.exportCallLoop g outer).2 l.sp.params a),
       (after Generated.exportCallLoop g outer).2 ++
         [⟨l.sp.params, newAttrs Generated.exportCallLoop (refNames g l.sp)
             ((after Generated.exportCallLoop g outer).1 l.sp)
             (after Generated.exportCallLoop g outer).2 l.sp.params a⟩]) := by
  simp [after, h]

/-- The invariant of the generated `__call__`: an attribute of any instance below the
innermost call is the innermost argument of that name, else the static reference; and the
`_mx_roots` list, copied in order, yields the innermost argument. -/
theorem after_inv (g : Env) (lv : List Level) (hwf : WF lv) :
    (∀ d k, get ((after Generated.exportCallLoop g lv).1 d) k =
        (argOf Generated.mxAllargsOrder lv k).orElse (fun _ => get (staticRefs g d) k)) ∧
    (∀ e k, get (copyAllParams (after Generated.exportCallLoop g lv).2 e) k =
        (argOf Generated.mxAllargsOrder lv k).orElse (fun _ => get e k)) := by
  induction lv with
  | nil =>
    refine ⟨fun d k => ?_, fun e k => ?_⟩
    · simp [after, argOf, Option.orElse]
    · simp [after, argOf, copyAllParams, Option.orElse]
  | cons l outer ih =>
    obtain ⟨hnd, hlen, hwf'⟩ := hwf
    obtain ⟨iha, ihb⟩ := ih hwf'
    cases hargs : l.args with
    | none =>
      rw [after_cons_none g l outer hargs]
      refine ⟨fun d k => ?_, fun e k => ?_⟩
      · rw [argOf_cons_none l outer k hargs]; exact iha d k
      · rw [argOf_cons_none l outer k hargs]; exact ihb e k
    | some a =>
      rw [after_cons_some g l outer a hargs]
      have ha : ∀ d k, get (newAttrs Generated.exportCallLoop (refNames g d)
            ((after Generated.exportCallLoop g outer).1 d)
            (after Generated.exportCallLoop g outer).2 l.sp.params a) k =
          (argOf Generated.mxAllargsOrder (l :: outer) k).orElse
            (fun _ => get (staticRefs g d) k) := by
        intro d k
        rw [newAttrs_generated, get_assignParams _ _ _ _ hnd, ihb, get_copyFrom, iha,
          argOf_cons_some l outer k a hargs]
        cases hz : get (l.sp.params.zip a) k with
        | some v => simp [Option.orElse]
        | none =>
          cases ho : argOf Generated.mxAllargsOrder outer k with
          | some v => simp [Option.orElse]
          | none =>
            by_cases hk : k ∈ refNames g d
            · cases hs : get (staticRefs g d) k <;> simp [Option.orElse, hk]
            · have := get_none_of_not_mem (staticRefs g d) k hk
              simp [Option.orElse, hk, this]
      refine ⟨ha, fun e k => ?_⟩
      simp only []
      rw [copyAllParams_append, copyParams, get_copyFrom, ha l.sp k, ihb,
        argOf_cons_some l outer k a hargs]
      by_cases hk : k ∈ l.sp.params
      · obtain ⟨v, hv⟩ := get_zip_some l.sp.params a k hk (hlen a hargs)
        simp [hk, hv, Option.orElse]
      · simp [hk, get_zip_none l.sp.params a k hk, Option.orElse]

/-! ### the rewriting decision, with the branch order found in transformer.py -/

theorem replaceGlobal_generated (inTop topAssigned isBuiltin : Bool) :
    replaceGlobal inTop topAssigned isBuiltin Generated.exportReplaceOrder =
      (if inTop then topAssigned else !isBuiltin) := by
  cases inTop <;> cases topAssigned <;> cases isBuiltin <;>
    simp [replaceGlobal, Generated.exportReplaceOrder]

theorem shouldReplace_generated (dummyFor builtins : List String) (t : SpaceNames) (n : String) :
    shouldReplace Generated.exportReplaceOrder dummyFor builtins t .global n =
      (if (topNames dummyFor t).contains n then true else !builtins.contains n) := by
  simp only [shouldReplace, replaceGlobal_generated]

/-- module-level names of the source built by `_get_class_def`: every member of the space -
references, child spaces, parameters (dummy bindings, the last two since fix 77f6b99) and cells -/
theorem topNames_generated (t : SpaceNames) (n : String) :
    (topNames Generated.exportDummyFor t).contains n = t.isMember n := by
  simp only [topNames, Generated.exportDummyFor, container, SpaceNames.isMember, List.flatMap_cons,
    List.flatMap_nil, List.append_nil, List.contains_eq_mem, List.mem_append]
  simp only [String.reduceEq, ↓reduceIte]
  by_cases h1 : n ∈ t.cells <;> by_cases h2 : n ∈ t.refs <;> by_cases h3 : n ∈ t.spaces <;>
    by_cases h4 : n ∈ t.params <;> simp [h1, h2, h3, h4]

/-- the decision table of `should_replace` against modelx's namespace-then-builtins rule -/
theorem resolve_table (b mem : Bool) :
    (if (if mem = true then true else !b) = true then
        (if mem = true then Target.member else Target.unbound)
      else (if b = true then Target.builtin else Target.unbound)) =
    (if mem = true then Target.member
      else if b = true then Target.builtin else Target.unbound) := by
  cases b <;> cases mem <;> simp

/-! ### `ref_value` with the extracted branch order and literal test -/

/-- the chain of `ParentTranslator.ref_value` as it stands in exporter.py (since 3bae90c the literal
branch excludes the floats that are not finite) -/
theorem refValue_generated (v : PyVal) :
    refValue Generated.exportLiteralTest Generated.exportLiteralTypes v Generated.exportRefValueOrder =
      if v.iface then (if v.valid then .path else .noneLit)
      else if (Generated.exportLiteralTypes.contains v.ty && !(v.ty == "float" && !v.finite)) then .literal
      else if v.sysmod then .importModule
      else if v.iospec then .ioData else .pickle := by
  simp [refValue, isLiteral, Generated.exportRefValueOrder, Generated.exportLiteralTest]

/-! ### the climb through inlined comprehensions -/

theorem contains_flatMap_binds (n : String) (ss : List PyScope) :
    (ss.flatMap (·.binds)).contains n = pyBound n ss := by
  induction ss with
  | nil => rfl
  | cons s rest ih =>
    simp only [List.flatMap_cons, pyBound, List.any_cons] at *
    rw [← ih]
    simp [List.contains_eq_mem, List.mem_append]

theorem classify_table (n : String) (ng : List String) (r : List Frame) :
    classify n (.table ng :: r) = if ng.contains n then .localOrFree else .global := rfl

theorem classify_comp (n : String) (b : List String) (r : List Frame) :
    classify n (.comp b :: r) = if b.contains n then .localOrFree else classify n r := rfl

theorem pyBound_cons (n : String) (s : PyScope) (ss : List PyScope) :
    pyBound n (s :: ss) = (s.binds.contains n || pyBound n ss) := rfl

theorem view_cons (s : PyScope) (rest : List PyScope) :
    view (s :: rest) =
      (if s.inlined then Frame.comp s.binds else Frame.table ((s :: rest).flatMap (·.binds))) :: view rest := rfl

theorem ite_or_kind (a b : Bool) :
    (if a = true then ScopeKind.localOrFree else if b = true then ScopeKind.localOrFree else ScopeKind.global) =
      if (a || b) = true then ScopeKind.localOrFree else ScopeKind.global := by
  cases a <;> cases b <;> rfl

/-- the climb computes Python's rule, for every chain of scopes that ends in a scope with a table -/
theorem classify_view (n : String) (ss : List PyScope) (m : PyScope) (hm : m.inlined = false) :
    classify n (view (ss ++ [m])) = pyKind n (ss ++ [m]) := by
  induction ss with
  | nil =>
    rw [List.nil_append, view_cons, hm]
    simp only [Bool.false_eq_true, if_false]
    rw [classify_table, contains_flatMap_binds]
    rfl
  | cons s rest ih =>
    rw [List.cons_append, view_cons]
    cases hs : s.inlined with
    | true =>
      simp only [if_true]
      rw [classify_comp, ih]
      simp only [pyKind, pyBound_cons]
      exact ite_or_kind _ _
    | false =>
      simp only [Bool.false_eq_true, if_false]
      rw [classify_table, contains_flatMap_binds]
      rfl

/-! ### the cache methods -/

/-- the cache of one element holds what modelx holds for it: nothing, or the value `v` -/
def Rep {V : Type} (s : CSt V) : Option V → Prop
  | none => s.has = false
  | some v => s.has = true ∧ s.slot = some v

theorem specCalls_stored {V : Type} (fs : List (Option V)) (v : V) : specCalls fs (some v) = 0 := by
  cases fs <;> rfl

theorem specReads_stored {V : Type} (f : Option V) (rest : List (Option V)) (v : V) :
    specReads (f :: rest) (some v) = .value (some v) :: specReads rest (some v) := by
  cases f <;> rfl

theorem specReads_all_stored {V : Type} (fs : List (Option V)) (v : V) :
    specReads fs (some v) = fs.map (fun _ => .value (some v)) := by
  induction fs with
  | nil => rfl
  | cons f rest ih => rw [specReads_stored, List.map_cons, ih]

/-- A cache method that follows the protocol shows, for every sequence of reads of one element and whatever
the formula does at each of them, what modelx shows, and evaluates the formula as often as modelx does. -/
theorem reads_eq_spec_of_ok {V : Type} {p : CProg} (ok : CacheOK V p) (fs : List (Option V)) :
    ∀ (s : CSt V) (st : Option V), Rep s st →
      reads p fs s = specReads fs st ∧ callsAfter p fs s = s.calls + specCalls fs st := by
  induction fs with
  | nil => intro s st _; cases st <;> simp [reads, specReads, callsAfter, specCalls]
  | cons f rest ih =>
    intro s st hr
    cases st with
    | none =>
      have h : s.has = false := hr
      cases f with
      | none =>
        obtain ⟨h1, h2, _, h4⟩ := ok.fail s h
        obtain ⟨ihr, ihc⟩ := ih (runCache p none s).2 none h2
        refine ⟨?_, ?_⟩
        · simp only [reads, specReads, h1, CRes.seen, ihr]
        · show callsAfter p rest (runCache p none s).2 = _
          rw [ihc, h4]
          simp only [specCalls]
          omega
      | some v =>
        obtain ⟨h1, h2, h3, h4⟩ := ok.succ s v h
        obtain ⟨ihr, ihc⟩ := ih (runCache p (some v) s).2 (some v) ⟨h2, h3⟩
        refine ⟨?_, ?_⟩
        · simp only [reads, specReads, h1, CRes.seen, ihr]
        · show callsAfter p rest (runCache p (some v) s).2 = _
          rw [ihc, h4, specCalls_stored]
          simp only [specCalls]
    | some v =>
      obtain ⟨h, hs⟩ := hr
      obtain ⟨h1, h2, h3, h4⟩ := ok.hit s f h
      obtain ⟨ihr, ihc⟩ := ih (runCache p f s).2 (some v) ⟨h2, h3.trans hs⟩
      refine ⟨?_, ?_⟩
      · rw [specReads_stored]
        simp only [reads, h1, CRes.seen, ihr, hs]
      · show callsAfter p rest (runCache p f s).2 = _
        rw [ihc, h4, specCalls_stored, specCalls_stored]

/-! ### soundness of the checker `cacheWF`: the statements are parametric in the values and in the counter -/

/-- a test state seen as a state over `V`: values through `g`, the counter shifted by `n` -/
def CSt.lift {T V : Type} (g : T → Option V) (n : Nat) (s : CSt T) : CSt V :=
  { has := s.has, slot := s.slot.bind g, tmp := s.tmp.bind g, calls := n + s.calls }

def CRes.lift {T V : Type} (g : T → Option V) : CRes T → CRes V
  | .ret v => .ret (v.bind g)
  | .raised => .raised
  | .fell => .fell

/-- the formula does "the same" at the test read and at the real read -/
inductive Compat {T V : Type} (g : T → Option V) : Option T → Option V → Prop
  | none : Compat g none none
  | some (x : T) (v : V) : g x = some v → Compat g (some x) (some v)

theorem execOps_lift {T V : Type} (g : T → Option V) (n : Nat) {f : Option T} {f' : Option V}
    (hc : Compat g f f') : ∀ (ops : List COp) (s : CSt T),
      execOps f' ops (s.lift g n) = ((execOps f ops s).1.lift g, (execOps f ops s).2.lift g n) := by
  intro ops
  induction ops with
  | nil => intro s; rfl
  | cons o r ih =>
    intro s
    cases hc with
    | none =>
      cases o with
      | evalTmp | evalSlot | evalBoth | evalItem => rfl
      | retSlot | retTmp => rfl
      | retItem => by_cases h : s.has = true <;> simp [execOps, CSt.lift, CRes.lift, h]
      | setHas => exact ih { s with has := true }
      | clearHas => exact ih { s with has := false }
      | storeTmp => exact ih { s with slot := s.tmp }
      | putTmp => exact ih { s with has := true, slot := s.tmp }
    | some x v hg =>
      have hb : (some x : Option T).bind g = some v := hg
      cases o with
      | retSlot | retTmp => rfl
      | retItem => by_cases h : s.has = true <;> simp [execOps, CSt.lift, CRes.lift, h]
      | setHas => exact ih { s with has := true }
      | clearHas => exact ih { s with has := false }
      | storeTmp => exact ih { s with slot := s.tmp }
      | putTmp => exact ih { s with has := true, slot := s.tmp }
      | evalTmp =>
        have := ih { s with tmp := some x, calls := s.calls + 1 }
        simp only [CSt.lift, hb, ← Nat.add_assoc] at this
        simpa only [execOps, CSt.lift] using this
      | evalSlot =>
        have := ih { s with slot := some x, calls := s.calls + 1 }
        simp only [CSt.lift, hb, ← Nat.add_assoc] at this
        simpa only [execOps, CSt.lift] using this
      | evalBoth =>
        have := ih { s with slot := some x, tmp := some x, calls := s.calls + 1 }
        simp only [CSt.lift, hb, ← Nat.add_assoc] at this
        simpa only [execOps, CSt.lift] using this
      | evalItem =>
        have := ih { s with has := true, slot := some x, calls := s.calls + 1 }
        simp only [CSt.lift, hb, ← Nat.add_assoc] at this
        simpa only [execOps, CSt.lift] using this

theorem runCache_lift {T V : Type} (g : T → Option V) (n : Nat) {f : Option T} {f' : Option V}
    (hc : Compat g f f') (p : CProg) (s : CSt T) :
    runCache p f' (s.lift g n) = ((runCache p f s).1.lift g, (runCache p f s).2.lift g n) := by
  have h0 : runCache p f' (s.lift g n) =
      match execOps f' (if s.has != p.neg then p.thn else p.els) (CSt.lift g n { s with tmp := none }) with
      | (.fell, s1) =>
        (match execOps f' p.aft s1 with
         | (.fell, s2) => (.ret none, s2)
         | r => r)
      | r => r := rfl
  have h1 : runCache p f s =
      match execOps f (if s.has != p.neg then p.thn else p.els) { s with tmp := none } with
      | (.fell, s1) =>
        (match execOps f p.aft s1 with
         | (.fell, s2) => (.ret none, s2)
         | r => r)
      | r => r := rfl
  rw [h0, h1, execOps_lift g n hc]
  generalize execOps f (if s.has != p.neg then p.thn else p.els) { s with tmp := none } = r1
  obtain ⟨c, s1⟩ := r1
  cases c with
  | ret v => rfl
  | raised => rfl
  | fell =>
    simp only [CRes.lift]
    rw [execOps_lift g n hc]
    generalize execOps f p.aft s1 = r2
    obtain ⟨c2, s2⟩ := r2
    cases c2 <;> rfl

/-- a read does not look at the local of an earlier read -/
theorem runCache_tmp {V : Type} (p : CProg) (f : Option V) (s : CSt V) :
    runCache p f s = runCache p f { s with tmp := none } := rfl

theorem resIs_spec {r : CRes Bool × CSt Bool} {raised : Bool} {v : Option Bool} {has : Bool}
    {slot : Option Bool} {calls : Nat} (h : resIs r raised v has slot calls = true) :
    r.1 = (if raised then .raised else .ret v) ∧ r.2.has = has ∧ r.2.slot = slot ∧ r.2.calls = calls := by
  obtain ⟨c, s⟩ := r
  simp only [resIs, Bool.and_eq_true, beq_iff_eq] at h
  obtain ⟨⟨⟨h1, h2⟩, h3⟩, h4⟩ := h
  refine ⟨?_, h2, h3, h4⟩
  cases c with
  | raised => simp only at h1; simp [h1]
  | fell => simp at h1
  | ret x =>
    simp only [Bool.and_eq_true, Bool.not_eq_true', beq_iff_eq] at h1
    simp [h1.1, h1.2]

/-- **The checker is sound**: a program that passes the four test reads follows the protocol for every type
of values, from every state of the cache. -/
theorem cacheOK_of_cacheWF (V : Type) (p : CProg) (h : cacheWF p = true) : CacheOK V p := by
  simp only [cacheWF, Bool.and_eq_true] at h
  obtain ⟨⟨⟨t1, t2⟩, t3⟩, t4⟩ := h
  have t1 := resIs_spec t1
  have t2 := resIs_spec t2
  have t3 := resIs_spec t3
  have t4 := resIs_spec t4
  -- every state is the image of a test state: `false ↦` what the slot holds, `true ↦` what the formula returns
  have key : ∀ (s : CSt V) (f' : Option V) (f : Option Bool),
      Compat (fun b : Bool => if b then f' else s.slot) f f' →
      runCache p f' s = ((runCache p f (testSt s.has)).1.lift (fun b : Bool => if b then f' else s.slot),
        (runCache p f (testSt s.has)).2.lift (fun b : Bool => if b then f' else s.slot) s.calls) := by
    intro s f' f hc
    rw [runCache_tmp, ← runCache_lift _ s.calls hc p (testSt s.has)]
    rfl
  refine ⟨?_, ?_, ?_⟩
  · intro s hs
    have := key s none none .none
    rw [hs] at this
    rw [this, t1.1]
    simp [CRes.lift, CSt.lift, t1.2.1, t1.2.2.1, t1.2.2.2]
  · intro s v hs
    have := key s (some v) (some true) (.some true v rfl)
    rw [hs] at this
    rw [this, t2.1]
    simp [CRes.lift, CSt.lift, t2.2.1, t2.2.2.1, t2.2.2.2]
  · intro s f' hs
    cases f' with
    | none =>
      have := key s none none .none
      rw [hs] at this
      rw [this, t3.1]
      simp [CRes.lift, CSt.lift, t3.2.1, t3.2.2.1, t3.2.2.2]
    | some v =>
      have := key s (some v) (some true) (.some true v rfl)
      rw [hs] at this
      rw [this, t4.1]
      simp [CRes.lift, CSt.lift, t4.2.1, t4.2.2.1, t4.2.2.2]

theorem resIs_of {r : CRes Bool × CSt Bool} {raised : Bool} {v : Option Bool} {has : Bool}
    {slot : Option Bool} {calls : Nat}
    (h1 : r.1 = (if raised then .raised else .ret v)) (h2 : r.2.has = has) (h3 : r.2.slot = slot)
    (h4 : r.2.calls = calls) : resIs r raised v has slot calls = true := by
  obtain ⟨c, s⟩ := r
  simp only at h1 h2 h3 h4
  subst h1 h2 h3 h4
  cases raised <;> simp [resIs]

/-- the checker is complete: it rejects only programs that break the protocol (over `Bool` already) -/
theorem cacheWF_of_cacheOK (p : CProg) (ok : CacheOK Bool p) : cacheWF p = true := by
  have a := ok.fail (testSt false) rfl
  have b := ok.succ (testSt false) true rfl
  have c := ok.hit (testSt true) none rfl
  have d := ok.hit (testSt true) (some true) rfl
  simp only [cacheWF, Bool.and_eq_true]
  exact ⟨⟨⟨resIs_of (by simpa using a.1) a.2.1 a.2.2.1 a.2.2.2, resIs_of (by simpa using b.1) b.2.1 b.2.2.1 b.2.2.2⟩,
    resIs_of c.1 c.2.1 c.2.2.1 c.2.2.2⟩, resIs_of d.1 d.2.1 d.2.2.1 d.2.2.2⟩

end MxModel.Export
