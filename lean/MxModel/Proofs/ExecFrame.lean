import MxModel.Proofs.ExecBasic
/-!
# Stack discipline: every evaluation, successful or failed, restores the executor

`runN_frame`: `_eval_formula` returns with `CallStack`, `idxstack` and `refstack` exactly as
it found them – whether the formula returned, raised, returned `None` where it is not
allowed, or the depth limit was hit; for every environment.
-/
namespace MxModel.Exec

structure FrameSame (s s' : St) : Prop where
  stack : s'.stack = s.stack
  idx : s'.idx = s.idx
  refstack : s'.refstack = s.refstack

theorem FrameSame.refl (s : St) : FrameSame s s := ⟨rfl, rfl, rfl⟩
theorem FrameSame.trans {a b c : St} (h1 : FrameSame a b) (h2 : FrameSame b c) : FrameSame a c :=
  ⟨h2.stack.trans h1.stack, h2.idx.trans h1.idx, h2.refstack.trans h1.refstack⟩

theorem frameSame_addNode (s : St) (a : GNode) : FrameSame s (s.addNode a) := by
  unfold St.addNode; split <;> exact ⟨rfl, rfl, rfl⟩

theorem frameSame_addEdge (s : St) (a b : GNode) : FrameSame s (s.addEdge a b) := by
  unfold St.addEdge
  have h := (frameSame_addNode s a).trans (frameSame_addNode (s.addNode a) b)
  simp only []
  split
  · exact h
  · exact ⟨h.stack, h.idx, h.refstack⟩

theorem frameSame_hitEdge (s : St) (n : Node) : FrameSame s (s.hitEdge n) := by
  unfold St.hitEdge; split
  · exact frameSame_addEdge _ _ _
  · exact FrameSame.refl s

theorem frameSame_popEdge (env : Env) (s : St) (n : Node) : FrameSame s (s.popEdge env n) := by
  unfold St.popEdge
  split
  · exact frameSame_addEdge _ _ _
  · split
    · exact frameSame_addNode _ _
    · exact FrameSame.refl _

/-- reads made by the frame on top of the stack -/
theorem frameSame_keepExc (s : St) (p : Res × St) : FrameSame p.2 (keepExc s p).2 :=
  ⟨(keepExc_excOnly s p).stack, (keepExc_excOnly s p).idx, (keepExc_excOnly s p).refstack⟩

def RefsBelow (s : St) : Prop := ∀ e ∈ s.refstack, e.1 < s.stack.length

/-- what a formula body may do to the frame state: push reads of its own frame -/
structure BodyRel (s s' : St) : Prop where
  stack : s'.stack = s.stack
  idx : s'.idx = s.idx
  refs : ∃ new, s'.refstack = s.refstack ++ new ∧ ∀ e ∈ new, e.1 + 1 = s.stack.length

theorem BodyRel.refl (s : St) : BodyRel s s := ⟨rfl, rfl, [], by simp, by simp⟩

theorem BodyRel.trans {a b c : St} (h1 : BodyRel a b) (h2 : BodyRel b c) : BodyRel a c := by
  obtain ⟨n1, e1, l1⟩ := h1.refs
  obtain ⟨n2, e2, l2⟩ := h2.refs
  refine ⟨h2.stack.trans h1.stack, h2.idx.trans h1.idx, n1 ++ n2, ?_, ?_⟩
  · rw [e2, e1, List.append_assoc]
  · intro e he
    simp only [List.mem_append] at he
    rcases he with he | he
    · exact l1 e he
    · rw [← h1.stack]; exact l2 e he

theorem BodyRel.of_frameSame {a b : St} (h : FrameSame a b) : BodyRel a b :=
  ⟨h.stack, h.idx, [], by simp [h.refstack], by simp⟩

theorem BodyRel.refsBelow {a b : St} (h : BodyRel a b) (hr : RefsBelow a) : RefsBelow b := by
  obtain ⟨new, e1, l1⟩ := h.refs
  intro e he
  rw [e1] at he
  rw [h.stack]
  simp only [List.mem_append] at he
  rcases he with he | he
  · exact hr e he
  · have := l1 e he; omega

theorem bodyRel_noteRead (s : St) (a : Bool) (r : RefId) : BodyRel s (s.noteRead a r) := by
  unfold St.noteRead
  split
  · rename_i h
    simp only [Bool.and_eq_true, decide_eq_true_eq] at h
    refine ⟨rfl, rfl, [(s.stack.length - 1, r)], rfl, ?_⟩
    intro e he
    simp only [List.mem_singleton] at he
    subst he
    simp only []
    omega
  · exact BodyRel.refl s

def CalleeFrame (f : Node → St → Res × St) : Prop :=
  ∀ n s, RefsBelow s → BodyRel s (f n s).2

theorem runBody_frame (env : Env) (f : Node → St → Res × St) (hf : CalleeFrame f) :
    ∀ (p : Prog) (s : St), RefsBelow s → BodyRel s (runBody env f p s).2 := by
  intro p
  induction p with
  | ret v => intro s _; exact BodyRel.refl s
  | raise e => intro s _; exact ⟨rfl, rfl, [], by simp [runBody, St.newExc], by simp⟩
  | reraise e => intro s _; exact BodyRel.refl s
  | read a x k ih =>
    intro s hr
    simp only [runBody]
    have h1 := bodyRel_noteRead s (a && (env.refs x).isSome) x
    exact h1.trans (ih _ _ (h1.refsBelow hr))
  | call n k ih =>
    intro s hr
    simp only [runBody]
    have h1 := hf n s hr
    exact h1.trans (ih _ _ (h1.refsBelow hr))

theorem evalNode_frame (env : Env) (ef : Node → St → Res × St) (hef : CalleeFrame ef) :
    CalleeFrame (evalNode env ef) := by
  intro n s hr
  unfold evalNode
  split
  · split
    · split
      · exact BodyRel.of_frameSame (frameSame_hitEdge s n)
      · exact (hef n s hr).trans (BodyRel.of_frameSame (frameSame_keepExc s _))
    · exact (hef n s hr).trans (BodyRel.of_frameSame (frameSame_keepExc s _))
  · exact BodyRel.of_frameSame ⟨rfl, rfl, rfl⟩

/-! ### draining the reads of the finished frame -/

theorem takeWhile_append_all {α} (p : α → Bool) (l1 l2 : List α) (h : ∀ x ∈ l1, p x = true) :
    (l1 ++ l2).takeWhile p = l1 ++ l2.takeWhile p := by
  induction l1 with
  | nil => rfl
  | cons a l ih =>
    simp only [List.cons_append, List.takeWhile_cons, h a (by simp), if_true]
    rw [ih (fun x hx => h x (by simp [hx]))]

theorem takeWhile_none {α} (p : α → Bool) (l : List α) (h : ∀ x ∈ l, p x = false) :
    l.takeWhile p = [] := by
  cases l with
  | nil => rfl
  | cons a l => simp [List.takeWhile_cons, h a (by simp)]

theorem takeRefs_append (rs new : List (Nat × RefId)) (L : Nat)
    (h1 : ∀ e ∈ rs, e.1 < L) (h2 : ∀ e ∈ new, e.1 = L) :
    (takeRefs (rs ++ new) L).2 = rs := by
  unfold takeRefs
  simp only [List.reverse_append]
  rw [takeWhile_append_all _ _ _ (by
    intro x hx; simp only [List.mem_reverse] at hx; simp [h2 x hx])]
  rw [takeWhile_none _ rs.reverse (by
    intro x hx; simp only [List.mem_reverse] at hx
    have := h1 x hx
    simp only [beq_eq_false_iff_ne, ne_eq]; omega)]
  simp

theorem takeRefs_append_fst_levels (rs new : List (Nat × RefId)) (L : Nat)
    (h1 : ∀ e ∈ rs, e.1 < L) (h2 : ∀ e ∈ new, e.1 = L) :
    (takeRefs (rs ++ new) L).1.length = new.length := by
  unfold takeRefs
  simp only [List.reverse_append]
  rw [takeWhile_append_all _ _ _ (by
    intro x hx; simp only [List.mem_reverse] at hx; simp [h2 x hx])]
  rw [takeWhile_none _ rs.reverse (by
    intro x hx; simp only [List.mem_reverse] at hx
    have := h1 x hx
    simp only [beq_eq_false_iff_ne, ne_eq]; omega)]
  simp

theorem runN_frame (env : Env) : ∀ d, CalleeFrame (runN env d) := by
  intro d
  induction d with
  | zero => intro n s _; exact BodyRel.of_frameSame ⟨rfl, rfl, rfl⟩
  | succ d ih =>
    intro n s hr
    have hpushBelow : RefsBelow (s.push env n) := by
      intro e he
      have := hr e he
      simp only [St.push, List.length_append, List.length_singleton]
      omega
    have hb := runBody_frame env _ (evalNode_frame env _ ih) (env.formula n) (s.push env n) hpushBelow
    simp only [runN]
    generalize runBody env (evalNode env (runN env d)) (env.formula n) (s.push env n) = p at hb
    obtain ⟨r, s1⟩ := p
    simp only [] at hb ⊢
    obtain ⟨new, hnew, hlev⟩ := hb.refs
    have hstack : s1.stack = s.stack ++ [n] := hb.stack
    have hidx : s1.idx = s.idx ++ [_] := hb.idx
    have hrefs : s1.refstack = s.refstack ++ new := hnew
    have hlev' : ∀ e ∈ new, e.1 = s.stack.length := by
      intro e he
      have := hlev e he
      simp only [St.push, List.length_append, List.length_singleton] at this
      omega
    have hdrain : (takeRefs s1.refstack s.stack.length).2 = s.refstack := by
      rw [hrefs]; exact takeRefs_append _ _ _ hr hlev'
    have hrollback : ∀ s1' : St, s1'.stack = s1.stack → s1'.idx = s1.idx → s1'.refstack = s1.refstack →
        BodyRel s (s1'.rollback n) := by
      intro s1' e1 e2 e3
      refine BodyRel.of_frameSame ?_
      unfold St.rollback St.dropFrame St.removeNode
      simp only [e1, e2, e3, hstack, hidx, List.dropLast_concat]
      exact ⟨rfl, rfl, by simpa [List.dropLast_concat] using hdrain⟩
    have hpop : ∀ s1' : St, s1'.stack = s1.stack → s1'.idx = s1.idx → s1'.refstack = s1.refstack →
        BodyRel s (s1'.pop env n) := by
      intro s1' e1 e2 e3
      unfold St.pop
      have hd : FrameSame { s with refstack := s1.refstack } s1'.dropFrame := by
        unfold St.dropFrame
        exact ⟨by simp [e1, hstack], by simp [e2, hidx], by simp [e3]⟩
      have hpe := hd.trans (frameSame_popEdge env s1'.dropFrame n)
      have hds := drainSame env (s1'.dropFrame.popEdge env n) n
      refine ⟨hds.stack.trans hpe.stack, hds.idx.trans hpe.idx, ?_⟩
      unfold St.drainRefs
      have hst : (s1'.dropFrame.popEdge env n).stack = s.stack := hpe.stack
      have hrf : (s1'.dropFrame.popEdge env n).refstack = s1.refstack := hpe.refstack
      split
      · exact ⟨[], by simp [hst, hrf, hdrain], by simp⟩
      · split
        · rename_i hpos
          refine ⟨_, by simp only [hst, hrf, hdrain]; rfl, ?_⟩
          intro e he
          simp only [List.mem_map] at he
          obtain ⟨r', _, rfl⟩ := he
          simp only [hst] at hpos ⊢
          omega
        · exact ⟨[], by simp [hst, hrf, hdrain], by simp⟩
    cases r with
    | err e => exact hrollback s1 rfl rfl rfl
    | ok v =>
      simp only []
      split
      · split
        · exact hrollback s1.newExc rfl rfl rfl
        · exact hpop _ rfl rfl rfl
      · exact hpop s1 rfl rfl rfl

/-- quiescent executor: nothing on the call stack, nothing pending -/
structure Quiescent (s : St) : Prop where
  stack : s.stack = []
  idx : s.idx = []
  refstack : s.refstack = []
  rolledback : s.rolledback = []

theorem evalTop_quiescent (env : Env) (n : Node) (s : St) (hq : Quiescent s) :
    Quiescent (evalTop env n s).2 := by
  unfold evalTop
  split
  · exact hq
  · have hf := runN_frame env (env.maxdepth + 1) n s (by intro e he; rw [hq.refstack] at he; simp at he)
    generalize runN env (env.maxdepth + 1) n s = p at hf
    obtain ⟨r, s1⟩ := p
    have hrefs : s1.refstack = [] := by
      obtain ⟨new, hnew, hlev⟩ := hf.refs
      simp only [] at hnew hlev
      rw [hnew, hq.refstack, List.nil_append]
      cases new with
      | nil => rfl
      | cons e _ => have := hlev e (by simp); rw [hq.stack] at this; simp at this
    cases r with
    | ok v => exact ⟨hf.stack.trans hq.stack, hf.idx.trans hq.idx, hrefs, rfl⟩
    | err e => exact ⟨hf.stack.trans hq.stack, hf.idx.trans hq.idx, hrefs, rfl⟩

end MxModel.Exec
