import MxModel.Proofs.ExecSound
import MxModel.Proofs.ExecCert
/-!
# Soundness without any hypothesis about the depth limit, for programs that do not turn a depth
error into a value

`runN_ok` (ExecSound) is relative to the ghost flag: "the limit was not hit".  Here the flag is not
used at all.  A set `T` of *tainted* error kinds (containing `DeepReferenceError`) is fixed, and the
programs are such that a tainted failure of a callee makes the caller fail with a tainted error
(`TaintClosed`): then every evaluation, whatever the limit does, keeps every held value sound, every
value it returns is the specification's, and an error it returns is tainted or the specification's.

Two instances: `T = {deep}` – formulas may handle any failure except that they let
`DeepReferenceError` propagate as it is (`DeepPropagates`) –, and `T = everything` – formulas do not
turn a callee's failure into a value (`NoCatch`).  In both an UNCAUGHT depth error rolls the whole
chain back and leaves a state as good as after any other failure.
-/
namespace MxModel.Exec

variable (env : Env) (inp : Node → Option Val)

/-- every path of the behaviour ends in an error of `T` -/
def FailsIn (T : Err → Prop) : Prog → Prop
  | .ret _ => False
  | .raise e => T e
  | .reraise e => T e
  | .read _ _ k => ∀ x, FailsIn T (k x)
  | .call _ k => ∀ r, FailsIn T (k r)

/-- a tainted failure of a callee makes the behaviour fail with a tainted error -/
def TaintClosed (T : Err → Prop) : Prog → Prop
  | .ret _ => True
  | .raise _ => True
  | .reraise _ => True
  | .read _ _ k => ∀ x, TaintClosed T (k x)
  | .call _ k => (∀ e, T e → FailsIn T (k (.err e))) ∧ ∀ r, TaintClosed T (k r)

def TaintClosedEnv (T : Err → Prop) (env : Env) : Prop := ∀ n, TaintClosed T (env.formula n)

/-- **formulas let `DeepReferenceError` propagate**: whatever else they handle, a depth error
received from a callee ends the formula with that depth error -/
def DeepPropagates (p : Prog) : Prop := TaintClosed (fun e => e = .deep) p

def DeepPropagatesEnv (env : Env) : Prop := ∀ n, DeepPropagates (env.formula n)

theorem failsIn_result (T : Err → Prop) (f : Node → St → Res × St) :
    ∀ (p : Prog), FailsIn T p → ∀ s, ∃ e, (runBody env f p s).1 = .err e ∧ T e := by
  intro p
  induction p with
  | ret v => intro h; exact absurd h (by simp [FailsIn])
  | raise e => intro h s; exact ⟨e, rfl, h⟩
  | reraise e => intro h s; exact ⟨e, rfl, h⟩
  | read a r k ih => intro h s; simp only [runBody]; exact ih _ (h _) _
  | call m k ih => intro h s; simp only [runBody]; exact ih _ (h _) _

theorem failsIn_true_of_fails : ∀ p : Prog, Fails p → FailsIn (fun _ => True) p := by
  intro p
  induction p with
  | ret v => intro h; exact h
  | raise e => intro _; trivial
  | reraise e => intro _; trivial
  | read a r k ih => intro h x; exact ih x (h x)
  | call m k ih => intro h r; exact ih r (h r)

/-- `NoCatch` is the instance "every error kind is tainted" -/
theorem taintClosed_of_noCatch : ∀ p : Prog, NoCatch p → TaintClosed (fun _ => True) p := by
  intro p
  induction p with
  | ret v => intro _; trivial
  | raise e => intro _; trivial
  | reraise e => intro _; trivial
  | read a r k ih => intro h x; exact ih x (h.2 x)
  | call m k ih => intro h; exact ⟨fun e _ => failsIn_true_of_fails _ (h.1 e), fun r => ih r (h.2 r)⟩

theorem taintClosedEnv_of_noCatch (h : NoCatchEnv env) : TaintClosedEnv (fun _ => True) env :=
  fun n => taintClosed_of_noCatch _ (h n)

variable (T : Err → Prop)

/-- tainted error, or the answer the specification gives -/
def TOr (P : Res → Prop) (r : Res) : Prop := (∃ e, r = .err e ∧ T e) ∨ P r

def CalleeT (f : Node → St → Res × St) : Prop :=
  ∀ n s, Good env inp s → Good env inp (f n s).2 ∧ TOr T (DenC env inp n) (f n s).1

def EvalT (ef : Node → St → Res × St) : Prop :=
  ∀ n s, Good env inp s → (env.cached n.1 = true → inp n = none) →
    Good env inp (ef n s).2 ∧ TOr T (Den env inp n) (ef n s).1

theorem runBody_taint (f : Node → St → Res × St) (hf : CalleeT env inp T f) :
    ∀ (p : Prog), TaintClosed T p → ∀ (s : St), Good env inp s →
      Good env inp (runBody env f p s).2 ∧ TOr T (DenBody env inp p) (runBody env f p s).1 := by
  intro p
  induction p with
  | ret v => intro _ s hs; exact ⟨hs, Or.inr ⟨0, by simp [runBody, denoteBody]⟩⟩
  | raise e =>
    intro _ s hs
    exact ⟨Good.of_sameCache env inp (sameCache_newExc s) hs, Or.inr ⟨0, by simp [runBody, denoteBody]⟩⟩
  | reraise e => intro _ s hs; exact ⟨hs, Or.inr ⟨0, by simp [runBody, denoteBody]⟩⟩
  | read a x k ih =>
    intro ht s hs
    simp only [runBody]
    obtain ⟨hg, hr⟩ := ih (env.refs x) (ht _) _ (Good.of_sameCache env inp (sameCache_noteRead s _ x) hs)
    refine ⟨hg, ?_⟩
    rcases hr with hr | ⟨d, hd⟩
    · exact Or.inl hr
    · exact Or.inr ⟨d, by simpa [denoteBody] using hd⟩
  | call n k ih =>
    intro ht s hs
    simp only [runBody]
    obtain ⟨hg1, hr1⟩ := hf n s hs
    obtain ⟨hg2, hr2⟩ := ih (f n s).1 (ht.2 _) (f n s).2 hg1
    refine ⟨hg2, ?_⟩
    rcases hr1 with ⟨e, he, hTe⟩ | hden
    · -- a tainted failure of the callee: the continuation fails with a tainted error
      left
      rw [he]
      exact failsIn_result env T f _ (ht.1 e hTe) _
    · rcases hr2 with hr2 | hr2
      · exact Or.inl hr2
      · exact Or.inr (DenBody_call env inp n k _ _ hden hr2)

theorem evalNode_taint (ef : Node → St → Res × St) (hef : EvalT env inp T ef) :
    CalleeT env inp T (evalNode env ef) := by
  intro n s hs
  unfold evalNode
  by_cases ha : env.alive n.1 = true
  · have hden : ∀ r, TOr T (Den env inp n) r → TOr T (DenC env inp n) r := by
      intro r h
      rcases h with h | h
      · exact Or.inl h
      · right; unfold DenC; rw [if_pos ha]; exact h
    have hkeep : ∀ p : Res × St, Good env inp p.2 ∧ TOr T (Den env inp n) p.1 →
        Good env inp (keepExc s p).2 ∧ TOr T (DenC env inp n) (keepExc s p).1 := by
      intro p hp
      rw [keepExc_fst]
      exact ⟨Good.of_sameCache env inp (keepExc_excOnly s p).sameCache hp.1, hden _ hp.2⟩
    simp only [ha, if_true]
    by_cases hc : env.cached n.1 = true
    · simp only [hc, if_true]
      cases hl : lookup s.data n with
      | some v =>
        exact ⟨Good.of_sameCache env inp (sameCache_hitEdge s n) hs, hden _ (Or.inr (hs.sound n v hc hl))⟩
      | none =>
        refine hkeep _ (hef n s hs (fun _ => ?_))
        cases hi : inp n with
        | none => rfl
        | some v => have := hs.inputsHeld n v hc hi; rw [hl] at this; cases this
    · have hc' : env.cached n.1 = false := by simpa using hc
      simp only [hc', Bool.false_eq_true, if_false]
      exact hkeep _ (hef n s hs (fun h => by simp [hc'] at h))
  · have ha' : env.alive n.1 = false := by simpa using ha
    simp only [ha', Bool.false_eq_true, if_false]
    refine ⟨Good.of_sameCache env inp (sameCache_newExc s) hs, Or.inr ?_⟩
    unfold DenC; rw [if_neg ha]

theorem runN_taint (hdeep : T .deep) (hT : TaintClosedEnv T env) : ∀ d, EvalT env inp T (runN env d) := by
  intro d
  induction d with
  | zero =>
    intro n s hs _
    exact ⟨⟨hs.sound, hs.inputsHeld⟩, Or.inl ⟨.deep, rfl, hdeep⟩⟩
  | succ d ih =>
    intro n s hs hin
    have hb := runBody_taint env inp T _ (evalNode_taint env inp T _ ih) (env.formula n) (hT n) (s.push env n)
      (Good.of_sameCache env inp (sameCache_push env s n) hs)
    simp only [runN]
    generalize runBody env (evalNode env (runN env d)) (env.formula n) (s.push env n) = p at hb
    obtain ⟨r, s1⟩ := p
    simp only [] at hb ⊢
    obtain ⟨hg, hr⟩ := hb
    cases r with
    | err e =>
      refine ⟨Good.of_sameCache env inp (sameCache_rollback s1 n) hg, ?_⟩
      rcases hr with ⟨e', he', hTe⟩ | hden
      · exact Or.inl ⟨e', he', hTe⟩
      · right; simpa [checkNone] using den_of_body env inp n _ hden hin
    | ok v =>
      have hden : DenBody env inp (env.formula n) (.ok v) := by
        rcases hr with ⟨e', he', _⟩ | hden
        · cases he'
        · exact hden
      have hd := den_of_body env inp n _ hden hin
      simp only []
      by_cases hc : env.cached n.1 = true
      · simp only [hc, if_true]
        by_cases hnone : (v = Val.none && !env.allowNone n.1) = true
        · simp only [hnone, if_true]
          refine ⟨Good.of_sameCache env inp
            ((sameCache_newExc s1).trans (sameCache_rollback s1.newExc n)) hg, Or.inr ?_⟩
          simp only [Bool.and_eq_true, decide_eq_true_eq, Bool.not_eq_true'] at hnone
          obtain ⟨hv, ha⟩ := hnone
          subst hv
          simpa [checkNone, hc, ha] using hd
        · simp only [hnone, Bool.false_eq_true, if_false]
          have hd' : Den env inp n (.ok v) := by
            cases v with
            | int i => simpa [checkNone] using hd
            | none =>
              have ha : env.allowNone n.1 = true := by
                cases hh : env.allowNone n.1 <;> simp_all
              simpa [checkNone, hc, ha] using hd
          exact ⟨Good.of_sameCache env inp (sameCache_pop env _ n) (good_store env inp hg n v hd' hin),
            Or.inr hd'⟩
      · have hc' : env.cached n.1 = false := by simpa using hc
        simp only [hc', Bool.false_eq_true, if_false]
        refine ⟨Good.of_sameCache env inp (sameCache_pop env s1 n) hg, Or.inr ?_⟩
        cases v <;> simpa [checkNone, hc'] using hd

/-- **a top-level call, whatever the limit does**: the state stays good, a returned value is the
specification's, a returned error is tainted or the specification's -/
theorem evalTop_taint (hdeep : T .deep) (hT : TaintClosedEnv T env) (n : Node) (s : St)
    (hg : Good env inp s) :
    Good env inp (evalTop env n s).2 ∧
    (∀ v, (evalTop env n s).1 = .ok v → Den env inp n (.ok v)) ∧
    (∀ e tb, (evalTop env n s).1 = .formulaError e tb → T e ∨ Den env inp n (.err e)) := by
  unfold evalTop
  cases hl : (if env.cached n.1 = true then lookup s.data n else none) with
  | some v =>
    refine ⟨hg, ?_, ?_⟩
    · intro w hw
      cases hw
      split at hl
      · rename_i hc; exact hg.sound n v hc hl
      · cases hl
    · intro e tb h; cases h
  | none =>
    simp only []
    have hin : env.cached n.1 = true → inp n = none := by
      intro hc
      simp only [hc, if_true] at hl
      cases hi : inp n with
      | none => rfl
      | some v => have := hg.inputsHeld n v hc hi; rw [hl] at this; cases this
    have hok := runN_taint env inp T hdeep hT (env.maxdepth + 1) n s hg hin
    generalize runN env (env.maxdepth + 1) n s = p at hok
    obtain ⟨r, s1⟩ := p
    obtain ⟨hg1, hr⟩ := hok
    cases r with
    | ok v =>
      refine ⟨⟨hg1.sound, hg1.inputsHeld⟩, ?_, ?_⟩
      · intro w hw; cases hw
        rcases hr with ⟨e, he, _⟩ | h
        · cases he
        · exact h
      · intro e tb h; cases h
    | err e =>
      refine ⟨⟨hg1.sound, hg1.inputsHeld⟩, ?_, ?_⟩
      · intro w hw; cases hw
      · intro e' tb h; cases h
        rcases hr with ⟨e2, he, hTe⟩ | h
        · cases he; exact Or.inl hTe
        · exact Or.inr h

end MxModel.Exec
