import MxModel.Proofs.ItemSpaceGet
/-!
# The totalisation guards of `Kernels/ItemSpace.lean` are dead code

`getItem` ends in `(t', .noNode)` when the ItemSpace it has just created cannot be found, and `addEntry`
does nothing when the address is live already.  Both make the functions total; neither describes modelx.

* `getItem_noNode_iff`: **in every table, reachable or not**, `getItem` answers `.noNode` only when the
  parent node does not exist - the fall-through after the creation never fires (`getItem_miss_creates`: a
  miss with an existing base always returns the new ItemSpace, built from that base, under a new
  implementation identity).
* `addEntry`'s guard: for the ItemSpace itself it cannot fire in `getItem` (the address was just looked up
  and not found: `addEntry_fresh`).  For the replicated child spaces it does not fire when no live entry
  lies strictly below an address that is not live (`Closed`) and the static paths are distinct
  (`createItem_all_added`); both hold in every reachable world (`closed_run`, `pathsNodup_run`).
-/
namespace MxModel.ItemSpace

theorem findLive_none_iff (t : Table) (a : Addr) : findLive t a = none ↔ t.live.any (·.addr = a) = false := by
  unfold findLive
  rw [List.find?_eq_none]
  constructor
  · intro h
    cases hx : t.live.any (·.addr = a) with
    | false => rfl
    | true =>
      obtain ⟨e, he, hea⟩ := List.any_eq_true.mp hx
      exact absurd hea (h e he)
  · intro h e he hea
    have : t.live.any (·.addr = a) = true := List.any_eq_true.mpr ⟨e, he, hea⟩
    rw [h] at this; cases this

/-- **the guard of `addEntry` does not fire on an address that was looked up and not found**: the entry
is appended, with a new implementation identity -/
theorem addEntry_fresh (t : Table) (a : Addr) (base : SId) (isItem : Bool) (sig : Option Sig) (sel : Option Path)
    (h : findLive t a = none) :
    ∃ hd, (addEntry t a base isItem sig sel).live = t.live ++ [⟨a, t.nextImpl, hd, base, isItem, sig, sel⟩] := by
  unfold addEntry
  rw [(findLive_none_iff t a).mp h]
  simp only [Bool.false_eq_true, if_false]
  split <;> exact ⟨_, rfl⟩

theorem findLive_append_new (t : Table) (l : List Entry) (e : Entry) (h : findLive t e.addr = none) :
    ({ t with live := t.live ++ e :: l } : Table).live.find? (·.addr = e.addr) = some e := by
  unfold findLive at h
  simp [List.find?_append, h]

/-- the base of a new ItemSpace of the node: the static space its parameter formula names, else the node's own base -/
def baseOf (defs : Defs) (nd : Node) : Option SDef :=
  match nd.sel with
  | some p => findDef defs p
  | none => findId defs nd.base

/-- **a miss with an existing base creates the ItemSpace and returns it** -/
theorem getItem_miss_creates (defs : Defs) (t : Table) (parent : Addr) (args : List Val) (kw : KwArgs)
    (nd : Node) (sig : Sig) (key : Key) (base : SDef)
    (hn : nodeAt defs t parent = some nd) (hs : nd.sig = some sig) (hb : bindArgs sig args kw = some key)
    (hmiss : findLive t ⟨parent.root, parent.dkey ++ [.key key]⟩ = none)
    (hbase : baseOf defs nd = some base) :
    ∃ e, getItem defs t parent args kw =
        (createItem defs t ⟨parent.root, parent.dkey ++ [.key key]⟩ base, .ok e) ∧
      e.addr = ⟨parent.root, parent.dkey ++ [.key key]⟩ ∧ e.base = base.id ∧ e.isItem = true ∧
      e.impl = t.nextImpl ∧ e.sig = base.sig ∧ e.sel = base.sel := by
  obtain ⟨hd, hlive⟩ := addEntry_fresh t ⟨parent.root, parent.dkey ++ [.key key]⟩ base.id true base.sig base.sel hmiss
  obtain ⟨l2, h2⟩ := addChildren_live ⟨parent.root, parent.dkey ++ [.key key]⟩ base.path (descendants defs base.path)
    (addEntry t ⟨parent.root, parent.dkey ++ [.key key]⟩ base.id true base.sig base.sel)
  have hfind : findLive (createItem defs t ⟨parent.root, parent.dkey ++ [.key key]⟩ base)
      ⟨parent.root, parent.dkey ++ [.key key]⟩ =
      some ⟨⟨parent.root, parent.dkey ++ [.key key]⟩, t.nextImpl, hd, base.id, true, base.sig, base.sel⟩ := by
    unfold findLive createItem
    rw [h2, hlive, List.append_assoc]
    unfold findLive at hmiss
    simp [List.find?_append, hmiss]
  refine ⟨⟨⟨parent.root, parent.dkey ++ [.key key]⟩, t.nextImpl, hd, base.id, true, base.sig, base.sel⟩,
    ?_, rfl, rfl, rfl, rfl, rfl, rfl⟩
  unfold baseOf at hbase
  unfold getItem
  cases hsel : nd.sel with
  | none =>
    rw [hsel] at hbase
    simp only [hn, hs, hb, hmiss, hsel, hbase, hfind]
  | some p =>
    rw [hsel] at hbase
    simp only [hn, hs, hb, hmiss, hsel, hbase, hfind]

/-- **`.noNode` means that the parent node does not exist** - in every table -/
theorem getItem_noNode_iff (defs : Defs) (t : Table) (parent : Addr) (args : List Val) (kw : KwArgs) :
    (∃ t', getItem defs t parent args kw = (t', .noNode)) ↔ nodeAt defs t parent = none := by
  constructor
  · rintro ⟨t', h⟩
    cases hn : nodeAt defs t parent with
    | none => rfl
    | some nd =>
      exfalso
      unfold getItem at h
      simp only [hn] at h
      cases hs : nd.sig with
      | none => simp [hs] at h
      | some sig =>
        simp only [hs] at h
        cases hb : bindArgs sig args kw with
        | none => simp [hb] at h
        | some key =>
          simp only [hb] at h
          cases hf : findLive t ⟨parent.root, parent.dkey ++ [.key key]⟩ with
          | some e => simp [hf] at h
          | none =>
            cases hbase : baseOf defs nd with
            | none =>
              unfold baseOf at hbase
              simp only [hf] at h
              cases hsel : nd.sel with
              | none => rw [hsel] at hbase; simp only [hsel, hbase] at h; cases h
              | some p => rw [hsel] at hbase; simp only [hsel, hbase] at h; cases h
            | some base =>
              obtain ⟨e, he, _⟩ := getItem_miss_creates defs t parent args kw nd sig key base hn hs hb hf hbase
              unfold getItem at he
              simp only [hn, hs, hb] at he
              rw [he] at h
              cases h
  · intro hn
    exact ⟨t, by unfold getItem; simp [hn]⟩

/-! ## the guard of `addEntry` for the replicated child spaces -/

/-- every enclosing ItemSpace of a live dynamic space is live: a proper prefix of its `dynamic_key` that
ends in a key is the address of a live entry -/
def Closed (t : Table) : Prop :=
  ∀ e ∈ t.live, ∀ d : DKey, d <+: e.addr.dkey → d ≠ e.addr.dkey → (∃ k, d.getLast? = some (Seg.key k)) →
    ∃ i ∈ t.live, i.addr = ⟨e.addr.root, d⟩

theorem closed_empty : Closed {} := fun e he => by cases he

/-- removing entries keeps the table closed when with an entry every entry above it (same root, a prefix
of its key) is kept -/
theorem closed_filter (t : Table) (p : Entry → Bool) (h : Closed t)
    (hup : ∀ i ∈ t.live, ∀ e ∈ t.live, i.addr.root = e.addr.root → i.addr.dkey <+: e.addr.dkey →
      p e = true → p i = true) : Closed { t with live := t.live.filter p } := by
  intro e he d hd hne hk
  obtain ⟨he1, he2⟩ := List.mem_filter.mp he
  obtain ⟨i, hi, hia⟩ := h e he1 d hd hne hk
  refine ⟨i, List.mem_filter.mpr ⟨hi, hup i hi e he1 (by rw [hia]) (by rw [hia]; exact hd) he2⟩, hia⟩

theorem closed_clear (t : Table) : Closed { t with live := [] } := fun e he => by cases he

theorem closed_deleteAt (t : Table) (a : Addr) (h : Closed t) : Closed (deleteAt t a) := by
  unfold deleteAt
  apply closed_filter t _ h
  intro i _ e _ hr hp hpe
  simp only [Bool.not_eq_true', Bool.and_eq_false_iff, decide_eq_false_iff_not] at hpe ⊢
  rcases hpe with hpe | hpe
  · exact Or.inl (by rw [hr]; exact hpe)
  · right
    cases hx : a.dkey.isPrefixOf i.addr.dkey with
    | false => rfl
    | true =>
      have : a.dkey.isPrefixOf e.addr.dkey = true :=
        List.isPrefixOf_iff_prefix.mpr ((List.isPrefixOf_iff_prefix.mp hx).trans hp)
      rw [this] at hpe; cases hpe

theorem closed_deleteAll : ∀ (l : List Addr) (t : Table), Closed t → Closed (deleteAll t l)
  | [], _, h => h
  | a :: as, t, h => closed_deleteAll as (deleteAt t a) (closed_deleteAt t a h)

theorem closed_clearItems (t : Table) (a : Addr) (h : Closed t) : Closed (clearItems t a) :=
  closed_deleteAll _ t h

theorem closed_clearSubsRootItems (t : Table) (b : SId) (h : Closed t) : Closed (clearSubsRootItems t b) :=
  closed_deleteAll _ t h

theorem closed_nsChange (t : Table) (b : SId) (h : Closed t) : Closed (nsChange t b) :=
  closed_clearSubsRootItems _ b (closed_clearItems t _ h)

theorem closed_dynRefsChange (t : Table) (b : SId) (h : Closed t) : Closed (dynRefsChange t b) :=
  closed_deleteAll _ t h

theorem closed_applyEdit (t : Table) (k : EditKind) (b : SId) (h : Closed t) : Closed (applyEdit t k b) := by
  cases k <;> simp only [applyEdit]
  · exact closed_clearSubsRootItems _ b (closed_nsChange t b h)
  · exact closed_clearSubsRootItems t b h
  · exact closed_nsChange _ b (closed_clearSubsRootItems t b h)
  · exact closed_nsChange t b h
  · exact closed_nsChange t b h
  · exact closed_nsChange t b h
  · exact closed_dynRefsChange _ b (closed_nsChange t b h)
  · exact closed_dynRefsChange _ b (closed_nsChange t b h)
  · exact closed_dynRefsChange _ b (closed_nsChange t b h)
  · exact closed_clearSubsRootItems _ b (closed_clearItems t _ h)
  · exact closed_clear t

theorem closed_foldl_nsChange : ∀ (l : List SDef) (t : Table), Closed t →
    Closed (l.foldl (fun t x => nsChange t x.id) t)
  | [], _, h => h
  | x :: xs, t, h => closed_foldl_nsChange xs _ (closed_nsChange t x.id h)

theorem closed_foldl_clearItems : ∀ (l : List SDef) (t : Table), Closed t →
    Closed (l.foldl (fun t x => clearItems (clearSubsRootItems t x.id) ⟨x.id, []⟩) t)
  | [], _, h => h
  | x :: xs, t, h => closed_foldl_clearItems xs _ (closed_clearItems _ _ (closed_clearSubsRootItems t x.id h))

theorem closed_delSpace (defs : Defs) (t : Table) (d : SDef) (h : Closed t) : Closed (delSpace defs t d).2 := by
  unfold delSpace
  dsimp only
  split
  · exact closed_foldl_clearItems _ _ (closed_foldl_nsChange _ _ (closed_nsChange t _ h))
  · exact closed_foldl_clearItems _ _ (closed_foldl_nsChange _ _ h)

theorem prefix_drop_any {a i e : DKey} (h1 : a <+: i) (h2 : i <+: e) (hk : (i.drop a.length).any Seg.isKey = true) :
    (e.drop a.length).any Seg.isKey = true := by
  obtain ⟨r1, rfl⟩ := h1
  obtain ⟨r2, rfl⟩ := h2
  simp only [List.append_assoc, List.drop_left, List.any_append, Bool.or_eq_true] at hk ⊢
  exact Or.inl hk

theorem closed_clearAll (defs : Defs) (t : Table) (a : Addr) (h : Closed t) : Closed (clearAll defs t a) := by
  unfold clearAll
  split
  · split
    · exact h
    · apply closed_filter t _ h
      intro i _ e _ hr _ hpe
      rw [hr]; exact hpe
  · apply closed_filter t _ h
    intro i _ e _ hr hp hpe
    cases hx : (!(decide (i.addr.root = a.root) && a.dkey.isPrefixOf i.addr.dkey && i.addr.dkey != a.dkey &&
        (i.addr.dkey.drop a.dkey.length).any Seg.isKey)) with
    | true => rfl
    | false =>
      exfalso
      simp only [Bool.not_eq_false', Bool.and_eq_true, decide_eq_true_eq, bne_iff_ne, ne_eq] at hx
      obtain ⟨⟨⟨h1, h2⟩, h3⟩, h4⟩ := hx
      have hai := List.isPrefixOf_iff_prefix.mp h2
      have hae : a.dkey.isPrefixOf e.addr.dkey = true := List.isPrefixOf_iff_prefix.mpr (hai.trans hp)
      have hne : e.addr.dkey ≠ a.dkey := by
        intro he
        rw [he] at hp
        exact h3 (List.IsPrefix.eq_of_length_le hp (List.IsPrefix.length_le hai))
      have hany := prefix_drop_any hai hp h4
      have : (!(decide (e.addr.root = a.root) && a.dkey.isPrefixOf e.addr.dkey && e.addr.dkey != a.dkey &&
          (e.addr.dkey.drop a.dkey.length).any Seg.isKey)) = false := by
        simp [← hr, h1, hae, hne, hany]
      rw [this] at hpe; cases hpe

theorem closed_delItem (t : Table) (p : Addr) (key : Key) (h : Closed t) : Closed (delItem t p key).1 := by
  unfold delItem
  dsimp only
  split
  · exact closed_deleteAt _ _ h
  · exact h

theorem closed_clearAt (defs : Defs) (t : Table) (p : Addr) (args : List Val) (kw : KwArgs) (h : Closed t) :
    Closed (clearAt defs t p args kw).1 := by
  rcases clearAt_table defs t p args kw with h' | ⟨a, h'⟩
  · rw [h']; exact h
  · rw [h']; exact closed_deleteAt _ _ h

/-! ### creation -/

/-- the address of the replica of the static space `d` inside the ItemSpace at `item` built from `base` -/
def childAddr (item : Addr) (base : Path) (d : SDef) : Addr :=
  ⟨item.root, item.dkey ++ (d.path.drop base.length).map Seg.name⟩

/-- what `addChildren` appends: entries at child addresses of the descendants it was given -/
theorem addChildren_new (item : Addr) (base : Path) : ∀ (ds : List SDef) (t : Table),
    ∃ l, (addChildren t item base ds).live = t.live ++ l ∧ ∀ e ∈ l, ∃ d ∈ ds, e.addr = childAddr item base d
  | [], t => ⟨[], by simp [addChildren], fun e he => by cases he⟩
  | d :: ds, t => by
    obtain ⟨l2, h2, h2'⟩ := addChildren_new item base ds (addEntry t (childAddr item base d) d.id false d.sig d.sel)
    have h1 : ∃ l1, (addEntry t (childAddr item base d) d.id false d.sig d.sel).live = t.live ++ l1 ∧
        ∀ e ∈ l1, e.addr = childAddr item base d := by
      unfold addEntry
      split
      · exact ⟨[], by simp, fun e he => by cases he⟩
      · split
        · exact ⟨_, rfl, fun e he => by simp at he; rw [he]⟩
        · exact ⟨_, rfl, fun e he => by simp at he; rw [he]⟩
    obtain ⟨l1, h1, h1'⟩ := h1
    refine ⟨l1 ++ l2, ?_, ?_⟩
    · simp only [addChildren]
      show (addChildren (addEntry t (childAddr item base d) d.id false d.sig d.sel) item base ds).live = _
      rw [h2, h1, List.append_assoc]
    · intro e he
      rcases List.mem_append.mp he with he | he
      · exact ⟨d, by simp, h1' e he⟩
      · obtain ⟨d', hd', hea⟩ := h2' e he
        exact ⟨d', List.mem_cons_of_mem _ hd', hea⟩

theorem getLast?_append_ne_nil {α : Type} (x s : List α) (hs : s ≠ []) : (x ++ s).getLast? = s.getLast? := by
  cases s with
  | nil => exact absurd rfl hs
  | cons a s =>
    rw [List.getLast?_append]
    cases h : (a :: s).getLast? with
    | none => simp at h
    | some v => rfl

/-- a key-ended prefix of `a ++ names` (names only) is a prefix of `a` -/
theorem key_prefix_of_names (a d : DKey) (names : List String) (hd : d <+: a ++ names.map Seg.name)
    (hk : ∃ k, d.getLast? = some (Seg.key k)) : d <+: a := by
  rcases List.prefix_or_prefix_of_prefix hd (List.prefix_append a (names.map Seg.name)) with h | h
  · exact h
  · obtain ⟨s, rfl⟩ := h
    have hs : s <+: names.map Seg.name := (List.prefix_append_right_inj a).mp hd
    by_cases hsn : s = []
    · subst hsn; simp
    · exfalso
      obtain ⟨k, hk⟩ := hk
      rw [getLast?_append_ne_nil a s hsn] at hk
      have hmem : Seg.key k ∈ s := List.mem_of_getLast? hk
      have := hs.subset hmem
      simp at this

/-- **creating an ItemSpace under a live node keeps the table closed** -/
theorem closed_createItem (defs : Defs) (t : Table) (parent : Addr) (key : Key) (base : SDef) (nd : Node)
    (h : Closed t) (hn : nodeAt defs t parent = some nd)
    (hmiss : findLive t ⟨parent.root, parent.dkey ++ [.key key]⟩ = none) :
    Closed (createItem defs t ⟨parent.root, parent.dkey ++ [.key key]⟩ base) := by
  generalize ha : (⟨parent.root, parent.dkey ++ [.key key]⟩ : Addr) = a at hmiss ⊢
  have hroot : a.root = parent.root := by rw [← ha]
  have hdk : a.dkey = parent.dkey ++ [.key key] := by rw [← ha]
  obtain ⟨hd0, hlive0⟩ := addEntry_fresh t a base.id true base.sig base.sel hmiss
  obtain ⟨l2, hl2, hl2'⟩ := addChildren_new a base.path (descendants defs base.path)
    (addEntry t a base.id true base.sig base.sel)
  have hlive : (createItem defs t a base).live =
      t.live ++ (⟨a, t.nextImpl, hd0, base.id, true, base.sig, base.sel⟩ :: l2) := by
    unfold createItem; rw [hl2, hlive0]; simp
  -- the enclosing ItemSpaces of the new ItemSpace are live in `t`
  have hencl : ∀ d : DKey, d <+: a.dkey → d ≠ a.dkey → (∃ k, d.getLast? = some (Seg.key k)) →
      ∃ i ∈ t.live, i.addr = ⟨a.root, d⟩ := by
    intro d hd hne hk
    rw [hdk, List.prefix_concat_iff] at hd
    rcases hd with hd | hd
    · exact absurd (by rw [hdk]; exact hd) hne
    · have hdne : d ≠ [] := by
        rintro rfl
        obtain ⟨k, hk⟩ := hk; cases hk
      have hpne : parent.dkey ≠ [] := by
        rintro hp
        rw [hp] at hd
        exact hdne (List.prefix_nil.mp hd)
      unfold nodeAt at hn
      simp only [hpne, if_false] at hn
      cases hf : findLive t parent with
      | none => rw [hf] at hn; cases hn
      | some ep =>
        obtain ⟨hep, hepa⟩ := findLive_some hf
        by_cases hdp : d = parent.dkey
        · refine ⟨ep, hep, ?_⟩
          rw [hepa, hroot, hdp]
        · obtain ⟨i, hi, hia⟩ := h ep hep d (by rw [hepa]; exact hd) (by rw [hepa]; exact hdp) hk
          exact ⟨i, hi, by rw [hia, hepa, hroot]⟩
  intro e he d hd hne hk
  rw [hlive] at he ⊢
  rcases List.mem_append.mp he with he | he
  · obtain ⟨i, hi, hia⟩ := h e he d hd hne hk
    exact ⟨i, List.mem_append_left _ hi, hia⟩
  · rcases List.mem_cons.mp he with rfl | he
    · obtain ⟨i, hi, hia⟩ := hencl d hd hne hk
      exact ⟨i, List.mem_append_left _ hi, hia⟩
    · obtain ⟨dd, _, hea⟩ := hl2' e he
      unfold childAddr at hea
      have hd' : d <+: a.dkey := by
        rw [hea] at hd
        exact key_prefix_of_names a.dkey d _ hd hk
      by_cases hda : d = a.dkey
      · refine ⟨⟨a, t.nextImpl, hd0, base.id, true, base.sig, base.sel⟩,
          List.mem_append_right _ (by simp), ?_⟩
        rw [hea, hda]
      · obtain ⟨i, hi, hia⟩ := hencl d hd' hda hk
        exact ⟨i, List.mem_append_left _ hi, by rw [hia, hea]⟩

theorem closed_getItem (defs : Defs) (t : Table) (p : Addr) (args : List Val) (kw : KwArgs) (h : Closed t) :
    Closed (getItem defs t p args kw).1 := by
  unfold getItem
  cases hn : nodeAt defs t p with
  | none => exact h
  | some nd =>
    simp only
    cases hs : nd.sig with
    | none => exact h
    | some sig =>
      simp only
      cases hb : bindArgs sig args kw with
      | none => exact h
      | some key =>
        simp only
        cases hf : findLive t ⟨p.root, p.dkey ++ [.key key]⟩ with
        | some e => exact h
        | none =>
          simp only
          have hc := fun base => closed_createItem defs t p key base nd h hn hf
          split
          · exact h
          · split <;> exact hc _

theorem closed_walk (defs : Defs) : ∀ (chain : List ChainSeg) (t : Table) (a : Addr), Closed t →
    Closed (walk defs t a chain).1
  | [], t, a, h => by simp [walk]; exact h
  | .call args kw :: rest, t, a, h => by
    unfold walk
    split
    · exact h
    · split
      · exact h
      · have hg := closed_getItem defs t a args kw h
        generalize getItem defs t a args kw = r at hg
        obtain ⟨t', res⟩ := r
        cases res with
        | ok e => exact closed_walk defs rest t' e.addr hg
        | typeError => exact hg
        | keyError => exact hg
        | formulaError => exact hg
        | noNode => exact hg
  | .child n :: rest, t, a, h => by
    unfold walk
    split
    · split
      · exact closed_walk defs rest t _ h
      · exact h
    · split
      · exact closed_walk defs rest t _ h
      · exact h

theorem closed_step (w : World) (op : Op) (h : Closed w.tbl) : Closed (step w op).1.tbl := by
  cases op with
  | newSpace path sig sel =>
    simp only [step]
    split
    · exact h
    · dsimp only
      split
      · exact closed_applyEdit _ _ _ h
      · exact h
  | setParam path sig sel =>
    simp only [step]
    split
    · exact h
    · dsimp only; exact closed_applyEdit _ _ _ h
  | delSpace path =>
    simp only [step]
    split
    · exact h
    · dsimp only; exact closed_delSpace _ _ _ h
  | edit k path =>
    simp only [step]
    split
    · exact h
    · dsimp only; exact closed_applyEdit _ _ _ h
  | item root chain =>
    simp only [step]
    split
    · exact h
    · dsimp only; exact closed_walk _ _ _ _ h
  | clearAt root chain args kw =>
    simp only [step]
    split
    · exact h
    · rename_i a _
      have hw := closed_walk w.defs chain w.tbl a h
      generalize walk w.defs w.tbl a chain = r at hw
      obtain ⟨t, res⟩ := r
      cases res <;> first | exact hw | exact closed_clearAt _ _ _ _ _ hw
  | delItem root chain key =>
    simp only [step]
    split
    · exact h
    · rename_i a _
      have hw := closed_walk w.defs chain w.tbl a h
      generalize walk w.defs w.tbl a chain = r at hw
      obtain ⟨t, res⟩ := r
      cases res <;> first | exact hw | exact closed_delItem _ _ _ hw
  | clearItems root chain =>
    simp only [step]
    split
    · exact h
    · rename_i a _
      have hw := closed_walk w.defs chain w.tbl a h
      generalize walk w.defs w.tbl a chain = r at hw
      obtain ⟨t, res⟩ := r
      cases res <;> first | exact hw | exact closed_clearItems _ _ hw
  | clearAll root chain =>
    simp only [step]
    split
    · exact h
    · rename_i a _
      have hw := closed_walk w.defs chain w.tbl a h
      generalize walk w.defs w.tbl a chain = r at hw
      obtain ⟨t, res⟩ := r
      cases res <;> first | exact hw | exact closed_clearAll _ _ _ hw

/-- **in every reachable world the table is closed** -/
theorem closed_run : ∀ (ops : List Op) (w : World), Closed w.tbl → Closed (run w ops).tbl
  | [], _, h => h
  | op :: rest, w, h => by
    simp only [run, List.foldl_cons]
    exact closed_run rest _ (closed_step w op h)

/-! ### every `addEntry` of a creation appends -/

/-- no two static spaces have the same path -/
def PathsNodup (defs : Defs) : Prop := (defs.map (·.path)).Nodup

theorem findDef_none_not_mem (defs : Defs) (p : Path) (h : (findDef defs p).isSome = false) :
    p ∉ defs.map (·.path) := by
  intro hp
  obtain ⟨d, hd, rfl⟩ := List.mem_map.mp hp
  unfold findDef at h
  cases hf : defs.find? (fun x => decide (x.path = d.path)) with
  | some _ => rw [hf] at h; cases h
  | none =>
    have := List.find?_eq_none.mp hf d hd
    simp at this

theorem pathsNodup_step (w : World) (op : Op) (h : PathsNodup w.defs) : PathsNodup (step w op).1.defs := by
  cases op with
  | newSpace path sig sel =>
    simp only [step]
    split
    · exact h
    · rename_i hf
      dsimp only
      unfold PathsNodup
      simp only [List.map_append, List.map_cons, List.map_nil]
      refine List.nodup_append.mpr ⟨h, by simp, ?_⟩
      intro x hx y hy
      simp only [List.mem_singleton] at hy
      subst hy
      rintro rfl
      exact findDef_none_not_mem w.defs x (by simpa using hf) hx
  | setParam path sig sel =>
    simp only [step]
    split
    · exact h
    · rename_i d0 _
      dsimp only
      unfold PathsNodup
      rw [List.map_map]
      have : ((fun x : SDef => x.path) ∘ fun x : SDef => if x.id = d0.id then { x with sig := sig, sel := sel } else x) =
          fun x : SDef => x.path := by
        funext x; simp only [Function.comp]; split <;> rfl
      rw [this]; exact h
  | delSpace path =>
    simp only [step]
    split
    · exact h
    · dsimp only
      unfold delSpace
      exact h.sublist (List.Sublist.map _ List.filter_sublist)
  | edit k path => simp only [step]; split <;> exact h
  | item root chain => simp only [step]; split <;> exact h
  | clearAt root chain args kw =>
    simp only [step]
    split
    · exact h
    · split <;> exact h
  | delItem root chain key =>
    simp only [step]
    split
    · exact h
    · split <;> exact h
  | clearItems root chain =>
    simp only [step]
    split
    · exact h
    · split <;> exact h
  | clearAll root chain =>
    simp only [step]
    split
    · exact h
    · split <;> exact h

theorem pathsNodup_run : ∀ (ops : List Op) (w : World), PathsNodup w.defs → PathsNodup (run w ops).defs
  | [], _, h => h
  | op :: rest, w, h => by
    simp only [run, List.foldl_cons]
    exact pathsNodup_run rest _ (pathsNodup_step w op h)

theorem map_name_inj : ∀ (l1 l2 : List String), l1.map Seg.name = l2.map Seg.name → l1 = l2
  | [], [], _ => rfl
  | [], _ :: _, h => by cases h
  | _ :: _, [], h => by cases h
  | a :: l1, b :: l2, h => by
    simp only [List.map_cons, List.cons.injEq, Seg.name.injEq] at h
    rw [h.1, map_name_inj l1 l2 h.2]

theorem nodup_of_map' {α β : Type} (f : α → β) : ∀ {l : List α}, (l.map f).Nodup → l.Nodup
  | [], _ => List.nodup_nil
  | a :: l, h => by
    simp only [List.map_cons, List.nodup_cons] at h ⊢
    exact ⟨fun ha => h.1 (List.mem_map.mpr ⟨a, ha, rfl⟩), nodup_of_map' f h.2⟩

theorem nodup_map_on' {α β : Type} (f : α → β) : ∀ {l : List α},
    (∀ x ∈ l, ∀ y ∈ l, f x = f y → x = y) → l.Nodup → (l.map f).Nodup
  | [], _, _ => List.nodup_nil
  | a :: l, hinj, h => by
    simp only [List.map_cons, List.nodup_cons] at h ⊢
    refine ⟨?_, nodup_map_on' f (fun x hx y hy => hinj x (List.mem_cons_of_mem _ hx) y (List.mem_cons_of_mem _ hy)) h.2⟩
    intro hm
    obtain ⟨b, hb, hfb⟩ := List.mem_map.mp hm
    have := hinj b (List.mem_cons_of_mem _ hb) a (by simp) hfb
    exact h.1 (this ▸ hb)

theorem addChildren_all_added (item : Addr) (base : Path) : ∀ (ds : List SDef) (t : Table),
    (∀ d ∈ ds, findLive t (childAddr item base d) = none) → (ds.map (childAddr item base)).Nodup →
    (addChildren t item base ds).live.length = t.live.length + ds.length
  | [], t, _, _ => by simp [addChildren]
  | d :: ds, t, hfree, hnd => by
    simp only [List.map_cons, List.nodup_cons] at hnd
    obtain ⟨hd0, hlive⟩ := addEntry_fresh t (childAddr item base d) d.id false d.sig d.sel (hfree d (by simp))
    have hfree' : ∀ d' ∈ ds, findLive (addEntry t (childAddr item base d) d.id false d.sig d.sel)
        (childAddr item base d') = none := by
      intro d' hd'
      unfold findLive
      rw [hlive, List.find?_append]
      have h1 := hfree d' (List.mem_cons_of_mem _ hd')
      unfold findLive at h1
      rw [h1]
      have hne : childAddr item base d ≠ childAddr item base d' :=
        fun e => hnd.1 (e ▸ List.mem_map.mpr ⟨d', hd', rfl⟩)
      simp [hne]
    have ih := addChildren_all_added item base ds _ hfree' hnd.2
    simp only [addChildren]
    show (addChildren (addEntry t (childAddr item base d) d.id false d.sig d.sel) item base ds).live.length = _
    rw [ih, hlive]
    simp only [List.length_append, List.length_cons, List.length_nil]
    omega

theorem path_of_descendant (defs : Defs) (p : Path) (d : SDef) (hd : d ∈ descendants defs p) :
    d.path = p ++ d.path.drop p.length ∧ d.path.drop p.length ≠ [] := by
  unfold descendants at hd
  obtain ⟨_, hc⟩ := List.mem_filter.mp hd
  simp only [Bool.and_eq_true, bne_iff_ne, ne_eq] at hc
  obtain ⟨r, hr⟩ := List.isPrefixOf_iff_prefix.mp hc.1
  have hdrop : d.path.drop p.length = r := by rw [← hr]; simp
  refine ⟨by rw [hdrop]; exact hr.symm, ?_⟩
  rw [hdrop]
  rintro rfl
  exact hc.2 (by rw [← hr]; simp)

/-- **in a closed table with distinct static paths, creating an ItemSpace at an address that is not live
appends one entry for the ItemSpace and one for every static space below its base: the guard of `addEntry`
fires for none of them** -/
theorem createItem_all_added (defs : Defs) (t : Table) (parent : Addr) (key : Key) (base : SDef)
    (h : Closed t) (hp : PathsNodup defs)
    (hmiss : findLive t ⟨parent.root, parent.dkey ++ [.key key]⟩ = none) :
    (createItem defs t ⟨parent.root, parent.dkey ++ [.key key]⟩ base).live.length =
      t.live.length + 1 + (descendants defs base.path).length := by
  generalize ha : (⟨parent.root, parent.dkey ++ [.key key]⟩ : Addr) = a at hmiss ⊢
  have hdk : a.dkey = parent.dkey ++ [.key key] := by rw [← ha]
  obtain ⟨hd0, hlive0⟩ := addEntry_fresh t a base.id true base.sig base.sel hmiss
  have hfree : ∀ d ∈ descendants defs base.path,
      findLive (addEntry t a base.id true base.sig base.sel) (childAddr a base.path d) = none := by
    intro d hd
    obtain ⟨_, hne⟩ := path_of_descendant defs base.path d hd
    have hlen : (childAddr a base.path d).dkey ≠ a.dkey := by
      unfold childAddr
      simp only
      intro e
      have := congrArg List.length e
      simp only [List.length_append, List.length_map] at this
      have hpos : 0 < (d.path.drop base.path.length).length := List.length_pos_iff.mpr hne
      omega
    unfold findLive
    rw [hlive0, List.find?_append]
    have h1 : t.live.find? (fun e => decide (e.addr = childAddr a base.path d)) = none := by
      rw [List.find?_eq_none]
      intro e he hea
      simp only [decide_eq_true_eq] at hea
      obtain ⟨i, hi, hia⟩ := h e he a.dkey (by rw [hea]; unfold childAddr; exact List.prefix_append _ _)
        (by rw [hea]; exact fun e' => hlen e'.symm) ⟨key, by rw [hdk]; simp⟩
      have : i.addr = a := by rw [hia, hea]; rfl
      unfold findLive at hmiss
      have := List.find?_eq_none.mp hmiss i hi
      simp [‹i.addr = a›] at this
    rw [h1]
    have hne' : a ≠ childAddr a base.path d := fun e => hlen (by rw [← e])
    simp [hne']
  have hnd : ((descendants defs base.path).map (childAddr a base.path)).Nodup := by
    have hdefs : defs.Nodup := nodup_of_map' _ hp
    have hdesc : (descendants defs base.path).Nodup := hdefs.sublist List.filter_sublist
    refine nodup_map_on' _ ?_ hdesc
    intro x hx y hy hxy
    have hx' := path_of_descendant defs base.path x hx
    have hy' := path_of_descendant defs base.path y hy
    unfold childAddr at hxy
    simp only [Addr.mk.injEq, true_and, List.append_cancel_left_eq] at hxy
    have hdrop : x.path.drop base.path.length = y.path.drop base.path.length :=
      map_name_inj _ _ hxy
    have hpath : x.path = y.path := by rw [hx'.1, hy'.1, hdrop]
    unfold descendants at hx hy
    exact nodup_map_inj (fun d : SDef => d.path) hp (List.mem_filter.mp hx).1 (List.mem_filter.mp hy).1 hpath
  unfold createItem
  rw [addChildren_all_added a base.path _ _ hfree hnd, hlive0]
  simp

/-- **the guards never fire in a reachable world**: whenever `get_itemspace` misses in a world reached
from the empty one by any history, the creation appends the ItemSpace and a replica of every static space
below its base (no `addEntry` is a no-op), and the ItemSpace is what is returned -/
theorem reachable_creation_total (ops : List Op) (parent : Addr) (args : List Val) (kw : KwArgs)
    (nd : Node) (sig : Sig) (key : Key) (base : SDef)
    (hn : nodeAt (run {} ops).defs (run {} ops).tbl parent = some nd) (hs : nd.sig = some sig)
    (hb : bindArgs sig args kw = some key)
    (hmiss : findLive (run {} ops).tbl ⟨parent.root, parent.dkey ++ [.key key]⟩ = none)
    (hbase : baseOf (run {} ops).defs nd = some base) :
    ∃ e t', getItem (run {} ops).defs (run {} ops).tbl parent args kw = (t', .ok e) ∧
      e.addr = ⟨parent.root, parent.dkey ++ [.key key]⟩ ∧ e.base = base.id ∧
      t'.live.length = (run {} ops).tbl.live.length + 1 + (descendants (run {} ops).defs base.path).length := by
  obtain ⟨e, he, h1, h2, _⟩ := getItem_miss_creates _ _ parent args kw nd sig key base hn hs hb hmiss hbase
  refine ⟨e, _, he, h1, h2, ?_⟩
  exact createItem_all_added _ _ parent key base (closed_run ops {} closed_empty)
    (pathsNodup_run ops {} (by simp [PathsNodup])) hmiss

end MxModel.ItemSpace
