import MxModel.Proofs.ItemSpaceGet
/-!
# Freshness over histories (C07)

`Grows t t'`: whatever is live in `t'` was live in `t` or is an implementation created since (its number
is at least `t.nextImpl`).  Every primitive and every operation of the world grows the table; an
operation that touches a static space leaves no dynamic space built from it (`step_touched_gone`).  The
two together give the history invariant `Fresh`: every live dynamic space was built after the last
operation that touched its base.
-/
namespace MxModel.ItemSpace

structure Grows (t t' : Table) : Prop where
  live : ∀ e ∈ t'.live, e ∈ t.live ∨ t.nextImpl ≤ e.impl
  next : t.nextImpl ≤ t'.nextImpl

theorem Grows.refl (t : Table) : Grows t t := ⟨fun _ h => Or.inl h, Nat.le_refl _⟩

theorem Grows.trans {a b c : Table} (h1 : Grows a b) (h2 : Grows b c) : Grows a c := by
  refine ⟨fun e he => ?_, Nat.le_trans h1.next h2.next⟩
  rcases h2.live e he with h | h
  · exact h1.live e h
  · exact Or.inr (Nat.le_trans h1.next h)

/-- an operation that only removes -/
theorem Grows.of_sub {t t' : Table} (hs : ∀ e ∈ t'.live, e ∈ t.live) (hn : t'.nextImpl = t.nextImpl) : Grows t t' :=
  ⟨fun e he => Or.inl (hs e he), by rw [hn]; exact Nat.le_refl _⟩

/-! ### deletions keep the counter -/

theorem deleteAt_next (t : Table) (a : Addr) : (deleteAt t a).nextImpl = t.nextImpl := rfl

theorem deleteAll_next : ∀ (l : List Addr) (t : Table), (deleteAll t l).nextImpl = t.nextImpl
  | [], _ => rfl
  | a :: as, t => by simp only [deleteAll]; rw [deleteAll_next as]; rfl

theorem clearItems_next (t : Table) (a : Addr) : (clearItems t a).nextImpl = t.nextImpl := deleteAll_next _ t
theorem clearSubsRootItems_next (t : Table) (b : SId) : (clearSubsRootItems t b).nextImpl = t.nextImpl :=
  deleteAll_next _ t
theorem dynRefsChange_next (t : Table) (b : SId) : (dynRefsChange t b).nextImpl = t.nextImpl := deleteAll_next _ t
theorem nsChange_next (t : Table) (b : SId) : (nsChange t b).nextImpl = t.nextImpl := by
  unfold nsChange; rw [clearSubsRootItems_next, clearItems_next]

theorem applyEdit_next (t : Table) (k : EditKind) (b : SId) : (applyEdit t k b).nextImpl = t.nextImpl := by
  cases k <;> simp only [applyEdit, clearSubsRootItems_next, nsChange_next, dynRefsChange_next, clearItems_next]

theorem applyEdit_sub (t : Table) (k : EditKind) (b : SId) : ∀ e ∈ (applyEdit t k b).live, e ∈ t.live := by
  cases k <;> simp only [applyEdit]
  · exact fun e he => nsChange_sub t b e (clearSubsRootItems_sub _ b e he)
  · exact clearSubsRootItems_sub t b
  · exact fun e he => clearSubsRootItems_sub t b e (nsChange_sub _ b e he)
  · exact nsChange_sub t b
  · exact nsChange_sub t b
  · exact nsChange_sub t b
  · exact fun e he => nsChange_sub t b e (dynRefsChange_sub _ b e he)
  · exact fun e he => nsChange_sub t b e (dynRefsChange_sub _ b e he)
  · exact fun e he => nsChange_sub t b e (dynRefsChange_sub _ b e he)
  · exact fun e he => clearItems_sub t _ e (clearSubsRootItems_sub _ b e he)
  · intro e he; cases he

/-- after an edit of `b` of any kind no dynamic space built from `b` is left (one step) -/
theorem applyEdit_no_copy (t : Table) (k : EditKind) (b : SId) : ∀ e ∈ (applyEdit t k b).live, e.base ≠ b := by
  cases k <;> simp only [applyEdit]
  · exact clearSubsRootItems_no_copy _ b
  · exact clearSubsRootItems_no_copy t b
  · exact fun e he => clearSubsRootItems_no_copy t b e (nsChange_sub _ b e he)
  · exact nsChange_no_copy t b
  · exact nsChange_no_copy t b
  · exact nsChange_no_copy t b
  · exact fun e he => nsChange_no_copy t b e (dynRefsChange_sub _ b e he)
  · exact fun e he => nsChange_no_copy t b e (dynRefsChange_sub _ b e he)
  · exact fun e he => nsChange_no_copy t b e (dynRefsChange_sub _ b e he)
  · exact clearSubsRootItems_no_copy _ b
  · intro e he; cases he

theorem grows_applyEdit (t : Table) (k : EditKind) (b : SId) : Grows t (applyEdit t k b) :=
  Grows.of_sub (applyEdit_sub t k b) (applyEdit_next t k b)

theorem foldl_nsChange_sub : ∀ (l : List SDef) (t : Table),
    ∀ e ∈ (l.foldl (fun t x => nsChange t x.id) t).live, e ∈ t.live
  | [], _, _, he => he
  | x :: xs, t, e, he => nsChange_sub t x.id e (foldl_nsChange_sub xs _ e he)

theorem foldl_nsChange_next : ∀ (l : List SDef) (t : Table),
    (l.foldl (fun t x => nsChange t x.id) t).nextImpl = t.nextImpl
  | [], _ => rfl
  | x :: xs, t => by simp only [List.foldl_cons]; rw [foldl_nsChange_next xs, nsChange_next]

theorem foldl_onDelete_next : ∀ (l : List SDef) (t : Table),
    (l.foldl (fun t x => clearItems (clearSubsRootItems t x.id) ⟨x.id, []⟩) t).nextImpl = t.nextImpl
  | [], _ => rfl
  | x :: xs, t => by
    simp only [List.foldl_cons]; rw [foldl_onDelete_next xs, clearItems_next, clearSubsRootItems_next]

theorem delSpace_sub (defs : Defs) (t : Table) (d : SDef) : ∀ e ∈ (delSpace defs t d).2.live, e ∈ t.live := by
  intro e he
  unfold delSpace at he
  have h1 := foldl_onDelete_sub _ _ e he
  have h2 := foldl_nsChange_sub _ _ e h1
  split at h2
  · exact nsChange_sub t _ e h2
  · exact h2

theorem delSpace_next (defs : Defs) (t : Table) (d : SDef) : (delSpace defs t d).2.nextImpl = t.nextImpl := by
  unfold delSpace
  simp only [foldl_onDelete_next, foldl_nsChange_next]
  split
  · exact nsChange_next t _
  · rfl

/-- the parent of a deleted space: its namespace changed, no dynamic space built from it is left -/
theorem delSpace_no_copy_parent (defs : Defs) (t : Table) (d par : SDef)
    (hp : findDef defs d.path.dropLast = some par) : ∀ e ∈ (delSpace defs t d).2.live, e.base ≠ par.id := by
  intro e he
  unfold delSpace at he
  have h1 := foldl_onDelete_sub _ _ e he
  have h2 := foldl_nsChange_sub _ _ e h1
  rw [hp] at h2
  exact nsChange_no_copy t par.id e h2

theorem grows_delSpace (defs : Defs) (t : Table) (d : SDef) : Grows t (delSpace defs t d).2 :=
  Grows.of_sub (delSpace_sub defs t d) (delSpace_next defs t d)

theorem grows_deleteAt (t : Table) (a : Addr) : Grows t (deleteAt t a) := Grows.of_sub (deleteAt_sub t a) rfl
theorem grows_clearItems (t : Table) (a : Addr) : Grows t (clearItems t a) :=
  Grows.of_sub (clearItems_sub t a) (clearItems_next t a)

theorem grows_clearAll (defs : Defs) (t : Table) (a : Addr) : Grows t (clearAll defs t a) := by
  unfold clearAll
  split
  · split
    · exact Grows.refl t
    · exact Grows.of_sub (fun e he => (List.mem_filter.mp he).1) rfl
  · exact Grows.of_sub (fun e he => (List.mem_filter.mp he).1) rfl

/-! ### creation: new implementations only -/

theorem grows_addEntry (t : Table) (a : Addr) (base : SId) (isItem : Bool) (sig : Option Sig) (sel : Option Path) :
    Grows t (addEntry t a base isItem sig sel) := by
  unfold addEntry
  split
  · exact Grows.refl t
  · split
    · refine ⟨fun e he => ?_, Nat.le_succ _⟩
      rcases List.mem_append.mp he with h | h
      · exact Or.inl h
      · simp only [List.mem_singleton] at h; subst h; exact Or.inr (Nat.le_refl _)
    · refine ⟨fun e he => ?_, Nat.le_succ _⟩
      rcases List.mem_append.mp he with h | h
      · exact Or.inl h
      · simp only [List.mem_singleton] at h; subst h; exact Or.inr (Nat.le_refl _)

theorem grows_addChildren (item : Addr) (base : Path) : ∀ (ds : List SDef) (t : Table),
    Grows t (addChildren t item base ds)
  | [], t => Grows.refl t
  | d :: ds, t => by
    simp only [addChildren]
    exact (grows_addEntry t _ d.id false d.sig d.sel).trans (grows_addChildren item base ds _)

theorem grows_createItem (defs : Defs) (t : Table) (a : Addr) (base : SDef) : Grows t (createItem defs t a base) :=
  (grows_addEntry t a base.id true base.sig base.sel).trans (grows_addChildren a base.path _ _)

theorem grows_getItem (defs : Defs) (t : Table) (p : Addr) (args : List Val) (kw : KwArgs) :
    Grows t (getItem defs t p args kw).1 := by
  rcases getItem_table defs t p args kw with h | ⟨a, base, h⟩
  · rw [h]; exact Grows.refl t
  · rw [h]; exact grows_createItem _ _ _ _

theorem grows_clearAt (defs : Defs) (t : Table) (p : Addr) (args : List Val) (kw : KwArgs) :
    Grows t (clearAt defs t p args kw).1 := by
  rcases clearAt_table defs t p args kw with h | ⟨a, h⟩
  · rw [h]; exact Grows.refl t
  · rw [h]; exact grows_deleteAt _ _

theorem grows_delItem (t : Table) (p : Addr) (key : Key) : Grows t (delItem t p key).1 := by
  unfold delItem
  dsimp only
  split
  · exact grows_deleteAt _ _
  · exact Grows.refl t

theorem grows_walk (defs : Defs) : ∀ (chain : List ChainSeg) (t : Table) (a : Addr),
    Grows t (walk defs t a chain).1
  | [], t, a => by simp [walk]; exact Grows.refl t
  | .call args kw :: rest, t, a => by
    unfold walk
    split
    · exact Grows.refl t
    · split
      · exact Grows.refl t
      · have hg := grows_getItem defs t a args kw
        generalize getItem defs t a args kw = r at hg
        obtain ⟨t', res⟩ := r
        cases res with
        | ok e => exact hg.trans (grows_walk defs rest t' e.addr)
        | typeError => exact hg
        | keyError => exact hg
        | formulaError => exact hg
        | noNode => exact hg
  | .child n :: rest, t, a => by
    unfold walk
    split
    · split
      · exact grows_walk defs rest t _
      · exact Grows.refl t
    · split
      · exact grows_walk defs rest t _
      · exact Grows.refl t

theorem grows_step (w : World) (op : Op) : Grows w.tbl (step w op).1.tbl := by
  cases op with
  | newSpace path sig sel =>
    simp only [step]
    split
    · exact Grows.refl _
    · dsimp only
      split
      · exact grows_applyEdit _ _ _
      · exact Grows.refl _
  | setParam path sig sel =>
    simp only [step]
    split
    · exact Grows.refl _
    · dsimp only; exact grows_applyEdit _ _ _
  | delSpace path =>
    simp only [step]
    split
    · exact Grows.refl _
    · dsimp only; exact grows_delSpace _ _ _
  | edit k path =>
    simp only [step]
    split
    · exact Grows.refl _
    · dsimp only; exact grows_applyEdit _ _ _
  | item root chain =>
    simp only [step]
    split
    · exact Grows.refl _
    · dsimp only; exact grows_walk _ _ _ _
  | clearAt root chain args kw =>
    simp only [step]
    split
    · exact Grows.refl _
    · rename_i a _
      have hw := grows_walk w.defs chain w.tbl a
      generalize walk w.defs w.tbl a chain = r at hw
      obtain ⟨t, res⟩ := r
      cases res <;> first | exact hw | exact hw.trans (grows_clearAt _ _ _ _ _)
  | delItem root chain key =>
    simp only [step]
    split
    · exact Grows.refl _
    · rename_i a _
      have hw := grows_walk w.defs chain w.tbl a
      generalize walk w.defs w.tbl a chain = r at hw
      obtain ⟨t, res⟩ := r
      cases res <;> first | exact hw | exact hw.trans (grows_delItem _ _ _)
  | clearItems root chain =>
    simp only [step]
    split
    · exact Grows.refl _
    · rename_i a _
      have hw := grows_walk w.defs chain w.tbl a
      generalize walk w.defs w.tbl a chain = r at hw
      obtain ⟨t, res⟩ := r
      cases res <;> first | exact hw | exact hw.trans (grows_clearItems _ _)
  | clearAll root chain =>
    simp only [step]
    split
    · exact Grows.refl _
    · rename_i a _
      have hw := grows_walk w.defs chain w.tbl a
      generalize walk w.defs w.tbl a chain = r at hw
      obtain ⟨t, res⟩ := r
      cases res <;> first | exact hw | exact hw.trans (grows_clearAll _ _ _)

theorem grows_run : ∀ (ops : List Op) (w : World), Grows w.tbl (run w ops).tbl
  | [], w => Grows.refl _
  | op :: rest, w => by
    simp only [run, List.foldl_cons]
    exact (grows_step w op).trans (grows_run rest _)

/-! ### an operation leaves no dynamic space built from a space it touches -/

theorem step_touched_gone (w : World) (op : Op) :
    ∀ e ∈ (step w op).1.tbl.live, e.base ∉ touched w op := by
  intro e he hb
  cases op with
  | newSpace path sig sel =>
    simp only [touched] at hb
    simp only [step] at he
    split at hb
    · cases hb
    · rename_i hnone
      simp only [hnone] at he
      cases hp : findDef w.defs path.dropLast with
      | none => rw [hp] at hb; cases hb
      | some par =>
        rw [hp] at hb he
        simp only [List.mem_singleton] at hb
        exact applyEdit_no_copy w.tbl .newChild par.id e he hb
  | setParam path sig sel =>
    simp only [touched] at hb
    simp only [step] at he
    cases hd : findDef w.defs path with
    | none => rw [hd] at hb; cases hb
    | some d =>
      rw [hd] at hb he
      simp only [List.mem_singleton] at hb
      exact applyEdit_no_copy w.tbl .setParamFormula d.id e he hb
  | delSpace path =>
    simp only [touched] at hb
    simp only [step] at he
    cases hd : findDef w.defs path with
    | none => rw [hd] at hb; cases hb
    | some d =>
      rw [hd] at hb he
      dsimp only at he
      rcases List.mem_append.mp hb with hb | hb
      · cases hp : findDef w.defs d.path.dropLast with
        | none => rw [hp] at hb; cases hb
        | some par =>
          rw [hp] at hb
          simp only [List.mem_singleton] at hb
          exact delSpace_no_copy_parent w.defs w.tbl d par hp e he hb
      · obtain ⟨x, hx, hxe⟩ := List.mem_map.mp hb
        have hx' := List.mem_filter.mp hx
        exact delSpace_no_copy w.defs w.tbl d e he x hx'.1 hx'.2 hxe.symm
  | edit k path =>
    simp only [touched] at hb
    simp only [step] at he
    cases hd : findDef w.defs path with
    | none => rw [hd] at hb; cases hb
    | some d =>
      rw [hd] at hb he
      dsimp only at he
      by_cases hk : k = .modelRef
      · subst hk
        simp only [applyEdit] at he
        cases he
      · simp only [hk, if_false, List.mem_singleton] at hb
        exact applyEdit_no_copy w.tbl k d.id e he hb
  | item root chain => simp [touched] at hb
  | clearAt root chain args kw => simp [touched] at hb
  | delItem root chain key => simp [touched] at hb
  | clearItems root chain => simp [touched] at hb
  | clearAll root chain => simp [touched] at hb

/-! ### the history invariant -/

/-- every live dynamic space was built after the last operation that touched its base; the stamps are
bounded by the clock -/
structure Fresh (h : Hist) : Prop where
  inv : Inv h.w.tbl
  fresh : ∀ e ∈ h.w.tbl.live, h.editedAt e.base < h.builtAt e.impl
  edited : ∀ s, h.editedAt s ≤ h.clock
  built : ∀ i, h.builtAt i ≤ h.clock

theorem fresh_empty : Fresh {} :=
  ⟨inv_empty, fun e he => (by cases he), fun _ => Nat.le_refl _, fun _ => Nat.le_refl _⟩

theorem fresh_step (h : Hist) (op : Op) (hf : Fresh h) : Fresh (h.step op) := by
  have hinv' : Inv (step h.w op).1.tbl := (evolves_step h.w op).inv hf.inv
  refine ⟨hinv', ?_, ?_, ?_⟩
  · intro e he
    have he' : e ∈ (step h.w op).1.tbl.live := he
    have hnt : e.base ∉ touched h.w op := step_touched_gone h.w op e he'
    show (if e.base ∈ touched h.w op then h.clock + 1 else h.editedAt e.base) <
      (if h.w.tbl.nextImpl ≤ e.impl ∧ e.impl < (step h.w op).1.tbl.nextImpl then h.clock + 1 else h.builtAt e.impl)
    simp only [hnt, if_false]
    rcases (grows_step h.w op).live e he' with hold | hnew
    · have hlt := hf.inv.implLt e hold
      have : ¬ (h.w.tbl.nextImpl ≤ e.impl ∧ e.impl < (step h.w op).1.tbl.nextImpl) := fun hc => by omega
      simp only [this, if_false]
      exact hf.fresh e hold
    · have hlt := hinv'.implLt e he'
      simp only [hnew, hlt, and_self, if_true]
      exact Nat.lt_succ_of_le (hf.edited e.base)
  · intro s
    show (if s ∈ touched h.w op then h.clock + 1 else h.editedAt s) ≤ h.clock + 1
    split
    · exact Nat.le_refl _
    · exact Nat.le_succ_of_le (hf.edited s)
  · intro i
    show (if h.w.tbl.nextImpl ≤ i ∧ i < (step h.w op).1.tbl.nextImpl then h.clock + 1 else h.builtAt i) ≤ h.clock + 1
    split
    · exact Nat.le_refl _
    · exact Nat.le_succ_of_le (hf.built i)

theorem fresh_runH : ∀ (ops : List Op) (h : Hist), Fresh h → Fresh (runH h ops)
  | [], _, hf => hf
  | op :: rest, h, hf => by
    simp only [runH, List.foldl_cons]
    exact fresh_runH rest _ (fresh_step h op hf)

/-- the instrumented run is the run: the stamps are read by nothing -/
theorem runH_world : ∀ (ops : List Op) (h : Hist), (runH h ops).w = run h.w ops
  | [], _ => rfl
  | op :: rest, h => by
    simp only [runH, run, List.foldl_cons]
    exact runH_world rest (h.step op)

theorem runH_clock : ∀ (ops : List Op) (h : Hist), (runH h ops).clock = h.clock + ops.length
  | [], _ => rfl
  | op :: rest, h => by
    simp only [runH, List.foldl_cons, List.length_cons]
    rw [show List.foldl Hist.step (h.step op) rest = runH (h.step op) rest from rfl, runH_clock rest]
    show h.clock + 1 + rest.length = _
    omega

/-- edits only remove -/
theorem run_edits_sub : ∀ (ys : List (EditKind × Path)) (w1 : World),
    ∀ e ∈ (run w1 (ys.map (fun r => Op.edit r.1 r.2))).tbl.live, e ∈ w1.tbl.live
  | [], _, _, he => he
  | y :: ys, w1, e, he => by
    simp only [List.map_cons, run, List.foldl_cons] at he
    have h2 := run_edits_sub ys _ e he
    simp only [step] at h2
    split at h2
    · exact h2
    · exact applyEdit_sub _ _ _ e h2

/-- an edit, and the edits it brings to the sub spaces it reaches, leave no dynamic space built from the
edited space or from one of those sub spaces -/
theorem run_edits_no_copy : ∀ (es : List (EditKind × Path)) (w : World),
    ∀ e ∈ (run w (es.map (fun r => Op.edit r.1 r.2))).tbl.live,
      ∀ r ∈ es, ∀ d, findDef w.defs r.2 = some d → e.base ≠ d.id
  | [], _, _, _, r, hr, _, _ => by cases hr
  | x :: xs, w, e, he, r, hr, d, hd => by
    simp only [List.map_cons, run, List.foldl_cons] at he
    have hdefs : (step w (.edit x.1 x.2)).1.defs = w.defs := by
      simp only [step]; split <;> rfl
    rcases List.mem_cons.mp hr with rfl | hr
    · intro hb
      have h3 := run_edits_sub xs _ e he
      have : e.base ∉ touched w (.edit r.1 r.2) := step_touched_gone w _ e h3
      apply this
      simp only [touched, hd]
      split <;> simp [hb]
    · exact run_edits_no_copy xs (step w (.edit x.1 x.2)).1 e he r hr d (by rw [hdefs]; exact hd)

end MxModel.ItemSpace
