import MxModel.Proofs.SerialAssemble
/-! The tree of a description as the list of its spaces in tree order (`infosOfL`): everything the reader
walks over in parse order is a map / flatMap over that list. -/
namespace MxModel.Serial
open MxModel.PathCodec MxModel.Generated

mutual
/-- the spaces in tree order, each with the path of its PARENT -/
def infosOf (parent : Path) : SpaceD → List (Path × SpaceInfo)
  | .mk i cs => (parent, i) :: infosOfL (parent ++ [i.name]) cs
def infosOfL (parent : Path) : List SpaceD → List (Path × SpaceInfo)
  | [] => []
  | s :: ss => infosOf parent s ++ infosOfL parent ss
end

/-- the path of the space itself -/
def own (e : Path × SpaceInfo) : Path := e.1 ++ [e.2.name]

theorem own_ne_nil (e : Path × SpaceInfo) : own e ≠ [] := by simp [own]

def tag (p : Path) (ops : List Op) : List (Path × Op) := ops.map (fun o => (p, o))

mutual
theorem spacePaths_eq (parent : Path) : ∀ s : SpaceD, spacePaths parent s = (infosOf parent s).map own
  | .mk i cs => by simp [spacePaths, infosOf, own, spacesPaths_eq (parent ++ [i.name]) cs]
theorem spacesPaths_eq (parent : Path) : ∀ cs : List SpaceD, spacesPaths parent cs = (infosOfL parent cs).map own
  | [] => rfl
  | s :: ss => by simp [spacesPaths, infosOfL, spacePaths_eq parent s, spacesPaths_eq parent ss]
end

mutual
theorem spaceCells_eq (parent : Path) :
    ∀ s : SpaceD, spaceCells parent s = (infosOf parent s).map (fun e => (own e, e.2.cells.map (·.name)))
  | .mk i cs => by simp [spaceCells, infosOf, own, spacesCells_eq (parent ++ [i.name]) cs]
theorem spacesCells_eq (parent : Path) :
    ∀ cs : List SpaceD, spacesCells parent cs = (infosOfL parent cs).map (fun e => (own e, e.2.cells.map (·.name)))
  | [] => rfl
  | s :: ss => by simp [spacesCells, infosOfL, spaceCells_eq parent s, spacesCells_eq parent ss]
end

mutual
theorem spaceBases_eq (parent : Path) :
    ∀ s : SpaceD, spaceBases parent s = (infosOf parent s).map (fun e => (own e, e.2.bases))
  | .mk i cs => by simp [spaceBases, infosOf, own, spacesBases_eq (parent ++ [i.name]) cs]
theorem spacesBases_eq (parent : Path) :
    ∀ cs : List SpaceD, spacesBases parent cs = (infosOfL parent cs).map (fun e => (own e, e.2.bases))
  | [] => rfl
  | s :: ss => by simp [spacesBases, infosOfL, spaceBases_eq parent s, spacesBases_eq parent ss]
end

mutual
theorem spaceRefDefs_eq (parent : Path) :
    ∀ s : SpaceD, spaceRefDefs parent s = (infosOf parent s).flatMap (fun e => e.2.refs.map (fun r => (own e, r)))
  | .mk i cs => by simp [spaceRefDefs, infosOf, own, spacesRefDefs_eq (parent ++ [i.name]) cs]
theorem spacesRefDefs_eq (parent : Path) :
    ∀ cs : List SpaceD, spacesRefDefs parent cs =
      (infosOfL parent cs).flatMap (fun e => e.2.refs.map (fun r => (own e, r)))
  | [] => rfl
  | s :: ss => by simp [spacesRefDefs, infosOfL, spaceRefDefs_eq parent s, spacesRefDefs_eq parent ss]
end

mutual
theorem flatNode_eq (model : Name) (parent : Path) :
    ∀ s : SpaceD, flatNode parent (nodeOf model parent s) =
      (infosOf parent s).flatMap (fun e => tag (own e) (opsOfSpace model e.1 e.2))
  | .mk i cs => by
    simp [nodeOf, flatNode, infosOf, own, tag, flatNodes_eq model (parent ++ [i.name]) cs]
theorem flatNodes_eq (model : Name) (parent : Path) :
    ∀ cs : List SpaceD, flatNodes parent (nodesOf model parent cs) =
      (infosOfL parent cs).flatMap (fun e => tag (own e) (opsOfSpace model e.1 e.2))
  | [] => rfl
  | s :: ss => by simp [nodesOf, flatNodes, infosOfL, flatNode_eq model parent s, flatNodes_eq model parent ss]
end

mutual
theorem nodePaths_eq (model : Name) (parent : Path) :
    ∀ s : SpaceD, nodePaths parent (nodeOf model parent s) = (infosOf parent s).map own
  | .mk i cs => by simp [nodeOf, nodePaths, infosOf, own, nodesPaths_eq model (parent ++ [i.name]) cs]
theorem nodesPaths_eq (model : Name) (parent : Path) :
    ∀ cs : List SpaceD, nodesPaths parent (nodesOf model parent cs) = (infosOfL parent cs).map own
  | [] => rfl
  | s :: ss => by simp [nodesOf, nodesPaths, infosOfL, nodePaths_eq model parent s, nodesPaths_eq model parent ss]
end

theorem opCells_opsOfSpace (model : Name) (parent : Path) (i : SpaceInfo) :
    (opsOfSpace model parent i).flatMap opCells = i.cells.map (·.name) := by
  have hrefs : (refOps model parent i).flatMap opCells = [] := by
    simp only [refOps, List.flatMap_eq_nil_iff, List.mem_map]
    rintro o ⟨r, _, rfl⟩
    unfold refOpOf; split <;> rfl
  have hdyn : (dynOpsOf model parent i).flatMap opCells = [] := by
    simp only [dynOpsOf, List.flatMap_eq_nil_iff, List.mem_map]
    rintro o ⟨r, _, rfl⟩
    rfl
  have htr : ∀ c : CellsD, (trailerOps c).flatMap opCells = [] := by
    intro c
    simp only [List.flatMap_eq_nil_iff]
    intro o ho
    unfold trailerOps at ho
    cases hf : c.formula <;> cases hd : c.doc <;> cases ha : c.allowNone <;> cases hc : c.isCached <;>
      simp [hf, hd, ha, hc] at ho <;>
      (first | (rcases ho with rfl | rfl | rfl) | (rcases ho with rfl | rfl) | (cases ho)) <;> rfl
  have hcells : (i.cells.flatMap cellOps).flatMap opCells = i.cells.map (·.name) := by
    induction i.cells with
    | nil => rfl
    | cons c rest ih =>
      simp only [List.flatMap_cons, List.flatMap_append, ih, List.map_cons]
      simp [cellOps, List.flatMap_cons, List.flatMap_append, opCells, htr c]
  rw [opsOfSpace_eq]
  simp only [List.flatMap_append, hrefs, hdyn, hcells]
  cases i.doc <;> simp [docOps, opCells]

mutual
theorem nodeCells_eq (model : Name) (parent : Path) :
    ∀ s : SpaceD, nodeCells parent (nodeOf model parent s) =
      (infosOf parent s).map (fun e => (own e, e.2.cells.map (·.name)))
  | .mk i cs => by
    simp [nodeOf, nodeCells, infosOf, own, opCells_opsOfSpace, nodesCells_eq model (parent ++ [i.name]) cs]
theorem nodesCells_eq (model : Name) (parent : Path) :
    ∀ cs : List SpaceD, nodesCells parent (nodesOf model parent cs) =
      (infosOfL parent cs).map (fun e => (own e, e.2.cells.map (·.name)))
  | [] => rfl
  | s :: ss => by simp [nodesOf, nodesCells, infosOfL, nodeCells_eq model parent s, nodesCells_eq model parent ss]
end

mutual
theorem spaceWF_infos (ctx : Ctx) (bs : BaseRel) (parent : Path) :
    ∀ s : SpaceD, spaceWF ctx bs s = true → ∀ e ∈ infosOf parent s, infoWF ctx bs e.2 = true
  | .mk i cs, h, e, he => by
    simp only [spaceWF, Bool.and_eq_true] at h
    simp only [infosOf, List.mem_cons] at he
    rcases he with rfl | he
    · exact h.1.1
    · exact spacesWF_infos ctx bs (parent ++ [i.name]) cs h.2 e he
theorem spacesWF_infos (ctx : Ctx) (bs : BaseRel) (parent : Path) :
    ∀ cs : List SpaceD, spacesWF ctx bs cs = true → ∀ e ∈ infosOfL parent cs, infoWF ctx bs e.2 = true
  | [], _, e, he => by cases he
  | s :: ss, h, e, he => by
    simp only [spacesWF, Bool.and_eq_true] at h
    simp only [infosOfL, List.mem_append] at he
    rcases he with he | he
    · exact spaceWF_infos ctx bs parent s h.1 e he
    · exact spacesWF_infos ctx bs parent ss h.2 e he
end

mutual
theorem spaceIds_eq (parent : Path) : ∀ s : SpaceD, spaceIds s = (infosOf parent s).flatMap (fun e => infoIds e.2)
  | .mk i cs => by simp [spaceIds, infosOf, spacesIds_eq (parent ++ [i.name]) cs]
theorem spacesIds_eq (parent : Path) :
    ∀ cs : List SpaceD, spacesIds cs = (infosOfL parent cs).flatMap (fun e => infoIds e.2)
  | [] => rfl
  | s :: ss => by simp [spacesIds, infosOfL, spaceIds_eq parent s, spacesIds_eq parent ss]
end

end MxModel.Serial
