import MxModel.Proofs.EditMachineRun
/-!
# Model-level references in the combined machine: the coverage proofs

* `model.x = v` / `del model.x` (`OpG.setGlobal` / `delGlobal`): `CoversGlobal` – every cells of every
  space is notified, every slot through which the model-level reference `x` was seen is reader-free –
  is what the Boolean `coveredGlobal` says (`coveredGlobal_sound`), holds for `globalClearing`
  (`coversGlobal_globalClearing`) and suffices for the certificate invariant under the NEW tables
  (`global_ci`: one application of `redefine_ci`, all cells redefined, the slots named `x` changed).
* the ten structural operations with model-level references present: `coversG_clearingG`: from `SM.Inv`, `clearing ++ shadowClears` covers – the member clauses are
  `Covers` (PROOF4), the slot clauses: a slot `(q, x)` changes what it denotes iff the reference entry
  changes (covered by `Covers.refs*`; created over a visible model-level reference: `shadowClears`), or a
  cells `x` appears in / vanishes from `q` (the plain namespace of `q` changes at `x`: `Covers.ns` for the
  tables without declared slots; appears: `shadowedCells`), or `q` is deleted (`orphanClears`: the
  `clear_attr_referrers` of `BaseSpaceImpl.on_delete` for the model-level references, /repo 40cbe69).
-/
namespace MxModel.Edit
open MxModel.Exec MxModel.C02 MxModel.SM

variable {lt : Node → Node → Prop}

/-! ## small facts -/

theorem touchedBy_append_left {cl cl' : List Clear} {c : CellId} (h : touchedBy cl c = true) :
    touchedBy (cl ++ cl') c = true := by
  unfold touchedBy at h ⊢
  rw [List.any_append, h]; rfl

theorem clearedBy_append_left {cl cl' : List Clear} {c : CellId} (h : clearedBy cl c = true) :
    clearedBy (cl ++ cl') c = true := by
  unfold clearedBy at h ⊢
  rw [List.any_append, h]; rfl

theorem has_iff_ids (st : SM.St) (q : Path) : st.has q = true ↔ q ∈ st.ids := by
  unfold St.has; exact find_isSome_iff st q

/-- a slot that denotes the model-level reference -/
theorem refPay_global {t : Tabs} {st : SM.St} {q : Path} {x : String} (hs : (refPay t st q x).isSome = true)
    (hm : st.mem .refs q x = none) :
    st.has q = true ∧ st.mem .cells q x = none ∧ st.globals.contains x = true := by
  unfold refPay at hs
  rw [hm] at hs
  simp only at hs
  split at hs
  · rename_i hc
    simp only [Bool.and_eq_true, Option.isNone_iff_eq_none] at hc
    refine ⟨hc.1, hc.2, ?_⟩
    unfold gpay at hs
    split at hs
    · assumption
    · cases hs
  · cases hs

theorem refPay_member {t : Tabs} {st : SM.St} {q : Path} {x : String} {m : Member} (hm : st.mem .refs q x = some m) :
    refPay t st q x = some m.payload := by
  unfold refPay; rw [hm]

theorem mem_globalAttr {t : Tabs} {st : SM.St} {q : Path} {x : String} (hr : (q, x) ∈ t.rtab)
    (hm : st.mem .refs q x = none) (hc : st.mem .cells q x = none) :
    Clear.attr (t.rid q x) ∈ globalAttr t st x := by
  unfold globalAttr
  refine List.mem_map.mpr ⟨(q, x), ?_, rfl⟩
  simp [List.mem_filter, hr, hm, hc]

/-! ## `model.x = v`, `del model.x` -/

/-- what the clearing of `model.x = v` / `del model.x` has to reach -/
structure CoversGlobal (t : Tabs) (st : SM.St) (x : String) (cl : List Clear) : Prop where
  ns : ∀ q, q ∈ st.ids → ∀ c ∈ cellsOf t st q, touchedBy cl c = true
  attr : ∀ q, (refPay t st q x).isSome = true → st.mem .refs q x = none → (q, x) ∈ t.rtab →
    Clear.attr (t.rid q x) ∈ cl

theorem coveredGlobal_sound (t : Tabs) (st : SM.St) (x : String) (cl : List Clear)
    (h : coveredGlobal t st x cl = true) : CoversGlobal t st x cl := by
  unfold coveredGlobal at h
  rw [List.all_eq_true] at h
  refine ⟨?_, ?_⟩
  · intro q hq c hc
    have := h q hq
    simp only [Bool.and_eq_true, List.all_eq_true] at this
    exact this.1 c hc
  · intro q hs hm _
    have hq : q ∈ st.ids := (has_iff_ids st q).mp (refPay_global hs hm).1
    have := h q hq
    simp only [Bool.and_eq_true, Bool.or_eq_true] at this
    rcases this.2 with (h1 | h1) | h1
    · rw [Option.isNone_iff_eq_none] at h1
      rw [h1] at hs; cases hs
    · rw [hm] at h1; cases h1
    · simpa using h1

/-- **the clearing of `ModelImpl.new_ref` / `change_ref` / `del_ref` covers** – no hypothesis -/
theorem coversGlobal_globalClearing (t : Tabs) (st : SM.St) (x : String) :
    CoversGlobal t st x (globalClearing t st x) := by
  refine ⟨?_, ?_⟩
  · intro q hq c hc
    refine touchedBy_of_ns (L := cellsOf t st q) ?_ hc
    unfold globalClearing
    exact List.mem_append_right _ (List.mem_map.mpr ⟨q, hq, rfl⟩)
  · intro q hs hm hr
    obtain ⟨_, hc, hg⟩ := refPay_global hs hm
    unfold globalClearing
    apply List.mem_append_left
    rw [if_pos hg]
    exact List.mem_append_left _ (mem_globalAttr hr hm hc)

theorem mem_of_spaces {st st2 : SM.St} (hsp : st2.spaces = st.spaces) (a : Attr) (q : Path) (n : String) :
    st2.mem a q n = st.mem a q n := by
  unfold St.mem St.find; rw [hsp]

theorem has_of_spaces {st st2 : SM.St} (hsp : st2.spaces = st.spaces) (q : Path) : st2.has q = st.has q := by
  unfold St.has St.find; rw [hsp]

/-- **a step that changes only the model-level references keeps the certificate invariant** when its
clearing covers: the structure (`spaces`) and the identities stay, the payload of every model-level
reference but `x` stays -/
theorem global_ci (P : Params) {t t2 : Tabs} {st st2 : SM.St} {s : Exec.St} {cl : List Clear} (x : String)
    (hw : WF (envOf P t st) lt) (hci : CI (envOf P t st) lt s) (hcov : CoversGlobal t st x cl)
    (hsp : st2.spaces = st.spaces) (hct : t2.ctab = t.ctab) (hrt : t2.rtab = t.rtab)
    (hg : ∀ y, y ≠ x → gpay t2 st2 y = gpay t st y) :
    CI (envOf P t2 st2) lt (doClears (envOf P t st) s cl) := by
  have hmem := mem_of_spaces hsp
  have hhas := has_of_spaces hsp
  have hinfo : ∀ c, cellInfo t2 st2 c = cellInfo t st c := by
    intro c
    unfold cellInfo Tabs.cellOf Tabs.cid
    rw [hct]
    simp only [hmem]
  obtain ⟨h1, _, _, _, hT, _, hA, _⟩ := doClears_facts hw.scoping hw.noCatch cl s hci
  have hclean : ∀ c, Clean (doClears (envOf P t st) s cl) c := by
    intro c
    by_cases hal : (envOf P t st).alive c = true
    · obtain ⟨q, y, m, hd, hm, hcid⟩ := (alive_iff P t st c).mp hal
      have hs : (st.mem .cells q y).isSome = true := by rw [hm]; rfl
      have := hT _ (hcov.ns q (mem_ids_of_isSome st .cells q y hs) _ (mem_cellsOf t st q y hs))
      rw [hcid] at this
      exact this
    · have hal' : (envOf P t st).alive c = false := by simpa using hal
      exact (noNodes_of_dead h1 c hal').clean
  refine redefine_ci (C := fun _ => True)
    (RR := fun r => ∃ q, t.refOf r = some (q, x) ∧ t.rid q x = r ∧ st.mem .refs q x = none)
    h1 hw.scoping hw.noCatch ⟨?_, ?_, ?_, ?_, ?_⟩ (fun c _ => hclean c) ?_ (fun r _ c _ => hclean c) ?_
  · intro n hn; exact absurd trivial hn
  · intro n hn; exact absurd trivial hn
  · intro n hn; exact absurd trivial hn
  · intro n hn; exact absurd trivial hn
  · intro r hr
    have hro : t2.refOf r = t.refOf r := by unfold Tabs.refOf; rw [hrt]
    have hri : ∀ q y, t2.rid q y = t.rid q y := by intro q y; unfold Tabs.rid; rw [hrt]
    simp only [envOf, hro, hri]
    cases hd : t.refOf r with
    | none => rfl
    | some e =>
      obtain ⟨q, y⟩ := e
      simp only
      by_cases hrid : t.rid q y = r
      · have hb : (t.rid q y == r) = true := by simpa using hrid
        simp only [hb, if_true]
        cases hm : st.mem .refs q y with
        | some m => rw [refPay_member hm, refPay_member ((hmem .refs q y).trans hm)]
        | none =>
          have hne : y ≠ x := by
            intro e; subst e
            exact hr ⟨q, hd, hrid, hm⟩
          unfold refPay
          rw [hmem, hm, hhas, hmem, hg y hne]
      · have hb : (t.rid q y == r) = false := by simpa using hrid
        simp [hb]
  · intro n hn _
    have hheld := h1.gi.inputsHeld n hn
    have hgn := (h1.gi.heldNodes n hheld).1
    have hca := (h1.gi.heldNodes n hheld).2
    have hal := h1.alive.nodes _ hgn
    refine ⟨?_, ?_⟩
    · have : (envOf P t2 st2).cached n.1 = (envOf P t st).cached n.1 := by simp only [envOf, hinfo]
      rw [this]; exact hca
    · have : (envOf P t2 st2).alive n.1 = (envOf P t st).alive n.1 := by simp only [envOf, hinfo]
      rw [this]; exact hal
  · rintro r ⟨q, hd, hrid, hm⟩ hs
    have hs' : (refPay t st q x).isSome = true := by
      simp only [envOf, hd, hrid, beq_self_eq_true, if_true, Option.isSome_map] at hs
      exact hs
    have := hA _ (hcov.attr q hs' hm (List.mem_of_getElem? hd))
    rw [hrid] at this
    exact this

theorem find_setGv (gv : List (String × Nat)) (x : String) (v : Nat) (y : String) (h : y ≠ x) :
    (setGv gv x v).find? (fun e => e.1 == y) = gv.find? (fun e => e.1 == y) := by
  unfold setGv
  induction gv with
  | nil =>
    have : (x == y) = false := by simpa using fun e => h e.symm
    simp [this]
  | cons e gv ih =>
    by_cases hex : e.1 = x
    · have h1 : (e.1 != x) = false := by simp [hex]
      have h2 : (e.1 == y) = false := by rw [hex]; simpa using fun e => h e.symm
      simp only [List.filter_cons, h1, Bool.false_eq_true, if_false, List.find?_cons, h2]
      exact ih
    · have h1 : (e.1 != x) = true := by simpa using hex
      simp only [List.filter_cons, h1, if_true, List.cons_append, List.find?_cons]
      cases e.1 == y with
      | true => rfl
      | false => exact ih

theorem contains_of_iff {l l' : List String} {y : String} (h : y ∈ l' ↔ y ∈ l) : l'.contains y = l.contains y := by
  cases h1 : l.contains y with
  | true => simpa using h.mpr (by simpa using h1)
  | false =>
    cases h2 : l'.contains y with
    | false => rfl
    | true =>
      have := h.mp (by simpa using h2)
      rw [← List.contains_iff_mem] at this
      rw [this] at h1; cases h1

/-! ## the ten structural operations, model-level references present -/

/-- `clearing_covers_every_change` for arbitrary tables -/
theorem covers_of_inv (kw : List String) (t : Tabs) {st st' : SM.St} (o : SM.Op) (hi : SM.Inv st)
    (hsup : supported o = true) (hop : st.apply kw o = some st') :
    Covers t st st' (clearing kw t st st' o) := by
  have hi' := inv_apply kw st st' o hi hop
  cases o with
  | newSpace parent name bases refs => exact covers_newSpace kw t hi hi' parent name bases refs hop
  | delSpace p => exact covers_delSpace kw t hi hi' p hop
  | newCells p name fname v => exact covers_newCells kw t hi hi' p name fname v hop
  | setFormula p name v => exact covers_setFormula kw t hi hi' p name v hop
  | delCells p name => exact covers_delCells kw t hi hi' p name hop
  | renameCells p old new => exact covers_renameCells kw t hi hi' p old new hop
  | addBases p bs => exact covers_addBases kw t hi hi' p bs hop
  | removeBases p bs => exact covers_removeBases kw t hi hi' p bs hop
  | setRef p name v => exact covers_setRef kw t hi hi' p name v hop
  | delRef p name => exact covers_delRef kw t hi hi' p name hop
  | setGlobal name => cases hsup
  | delGlobal name => cases hsup

/-- a supported operation leaves the model-level references alone -/
theorem globals_apply_eq (kw : List String) (st st' : SM.St) (hi : SM.Inv st) (o : SM.Op) (hsup : supported o = true)
    (hop : st.apply kw o = some st') : st'.globals = st.globals := by
  have heff := apply_spec kw st st' (keysOK_of_inv hi) o hop
  cases o with
  | newSpace parent name bases refs => exact heff.2.2.1
  | delSpace p => exact heff.globals
  | newCells p name fname v => exact heff.1.globals
  | setFormula p name v => exact heff.1.globals
  | delCells p name => exact heff.1.globals
  | renameCells p old new => exact heff.1.globals
  | addBases p bs => exact heff.globals
  | removeBases p bs => exact heff.globals
  | setRef p name v => exact heff.1.globals
  | delRef p name => exact heff.1.globals
  | setGlobal name => cases hsup
  | delGlobal name => cases hsup

/-- `new_space` changes no member table of a space that exists -/
theorem newSpace_frame (kw : List String) {st st' : SM.St} (hi : Inv st) (hi' : Inv st') (parent : Path) (name : String)
    (bases : List Path) (refs : List (String × Nat))
    (hop : st.newSpaceRefs kw parent name bases refs = some st') (q : Path) (hq : q ∈ st.ids) (a : Attr) (n : String) :
    st'.mem a q n = st.mem a q n := by
  obtain ⟨hfresh, hids, _, hbases, hdefs⟩ :=
    newSpaceRefs_spec kw st st' (keysOK_of_inv hi) parent name bases refs hop
  have hold : ∀ x, x ∈ st.ids → x ≠ parent ++ [name] := fun x hx e => hfresh (e ▸ hx)
  have hlen : st.spaces.length ≤ st'.spaces.length := by
    have := congrArg List.length hids
    simp only [St.ids, List.length_map, List.length_append, List.length_singleton] at this
    omega
  have hmem : ∀ x ∈ q :: st.tail q, x ∈ st.ids := by
    intro x hx
    simp only [List.mem_cons] at hx
    rcases hx with rfl | hx
    · exact hq
    · exact hi.wf.tail_mem_ids q x hx
  refine mem_eq_of_tail hi hi' q ?_ ?_ a n
  · refine tail_eq_of_mro_transfer st st' q (hi.wf.mro_all q) ?_ hlen
    intro x hx
    rw [hbases x, if_neg (hold x (hmem x hx))]
  · intro a b n hb
    rw [hdefs a b n, if_neg (fun h => hold b (hmem b hb) h.1)]

/-- an operation that is no `del space` keeps every space -/
theorem has_apply_of_not_delSpace (kw : List String) {st st' : SM.St} (hi : SM.Inv st) (o : SM.Op)
    (hnd : ∀ p, o ≠ .delSpace p) (hop : st.apply kw o = some st') (q : Path) (hq : st.has q = true) :
    st'.has q = true := by
  have heff := apply_spec kw st st' (keysOK_of_inv hi) o hop
  rw [has_iff_ids] at hq ⊢
  cases o with
  | newSpace parent name bases refs => rw [heff.2.1]; exact List.mem_append_left _ hq
  | delSpace p => exact absurd rfl (hnd p)
  | newCells p name fname v => rw [heff.1.ids]; exact hq
  | setFormula p name v => rw [heff.1.ids]; exact hq
  | delCells p name => rw [heff.1.ids]; exact hq
  | renameCells p old new => rw [heff.1.ids]; exact hq
  | addBases p bs => rw [heff.ids]; exact hq
  | removeBases p bs => rw [heff.ids]; exact hq
  | setRef p name v => rw [heff.1.ids]; exact hq
  | delRef p name => rw [heff.1.ids]; exact hq
  | setGlobal name => unfold St.ids; rw [heff.1]; exact hq
  | delGlobal name => unfold St.ids; rw [heff.1]; exact hq

/-- the tables without declared slots: every name is a plain name -/
def Tabs.plain (t : Tabs) : Tabs := { t with slots := [] }

theorem nsAt_plain (t : Tabs) (st : SM.St) (q : Path) : nsAt t.plain st q = nsPlain t st q := by
  funext x
  simp [nsAt, qualOf, Tabs.plain, nsPlain, Tabs.cid, Tabs.rid]

theorem clearing_plain (kw : List String) (t : Tabs) (st st' : SM.St) (o : SM.Op) :
    clearing kw t.plain st st' o = clearing kw t st st' o := by
  cases o <;> rfl

theorem mem_shadow_refs {t : Tabs} {st st' : SM.St} {q : Path} {x : String} {m' : Member} (b : Bool)
    (L : List String) (hm : st.mem .refs q x = none) (hc : st.mem .cells q x = none)
    (hg : st.globals.contains x = true) (hm' : st'.mem .refs q x = some m') (hb : b = true → m'.derived = true)
    (hr : (q, x) ∈ t.rtab) :
    Clear.attr (t.rid q x) ∈ (shadowed st st' b ++ L).flatMap (globalAttr t st) := by
  refine List.mem_flatMap.mpr ⟨x, List.mem_append_left _ ?_, mem_globalAttr hr hm hc⟩
  unfold shadowed
  refine List.mem_map.mpr ⟨(q, x), ?_, rfl⟩
  rw [List.mem_filter]
  refine ⟨mem_refMembers st' q x (by rw [hm']; rfl), ?_⟩
  simp only [hm, hg, hm', Option.isNone_none, Bool.and_true, Bool.true_and, Bool.or_eq_true, Bool.not_eq_true']
  cases b with
  | false => exact Or.inl rfl
  | true => exact Or.inr (hb rfl)

theorem mem_shadow_cells {t : Tabs} {st st' : SM.St} {q : Path} {x : String} (L : List String)
    (hm : st.mem .refs q x = none) (hc : st.mem .cells q x = none)
    (hg : st.globals.contains x = true) (hc' : (st'.mem .cells q x).isSome = true) (hr : (q, x) ∈ t.rtab) :
    Clear.attr (t.rid q x) ∈ (L ++ shadowedCells st st').flatMap (globalAttr t st) := by
  refine List.mem_flatMap.mpr ⟨x, List.mem_append_right _ ?_, mem_globalAttr hr hm hc⟩
  unfold shadowedCells
  refine List.mem_map.mpr ⟨(q, x), ?_, rfl⟩
  rw [List.mem_filter]
  refine ⟨mem_cellMembers st' q x hc', ?_⟩
  show ((st.mem .cells q x).isNone && st.globals.contains x) = true
  rw [hc, hg]; rfl

/-- **the clearing of every structural operation covers every change, model-level references and declared
slots present** – from the structural invariant; `ha'`: the members and model-level slots of the new
state have identities (`allocOK_grow`), `hrt0`: so have the model-level slots of the old one -/
theorem coversG_clearingG (kw : List String) (t : Tabs) {st st' : SM.St} (o : SM.Op) (hi : SM.Inv st)
    (hsup : supported o = true) (hop : st.apply kw o = some st') (ha' : AllocOK t st')
    (hrt0 : ∀ q x, q ∈ st.ids → x ∈ st.globals → (q, x) ∈ t.rtab) :
    CoversG t st st' (clearingG kw t st st' o) := by
  have hi' := inv_apply kw st st' o hi hop
  have hcov := covers_of_inv kw t o hi hsup hop
  have hcov0 := covers_of_inv kw t.plain o hi hsup hop
  rw [clearing_plain] at hcov0
  have hgl := globals_apply_eq kw st st' hi o hsup hop
  have hgp : ∀ x, gpay t st' x = gpay t st x := by intro x; unfold gpay; rw [hgl]
  unfold clearingG
  refine ⟨fun q x hs hne => touchedBy_append_left (hcov.ns q x hs hne),
    fun q x hs hne => clearedBy_append_left (hcov.cells q x hs hne), ?_, ?_⟩
  · -- the cells of a space in which a slot changes what it denotes are notified
    intro q x hne c hc
    by_cases hr : st'.mem .refs q x = st.mem .refs q x
    · cases hm : st.mem .refs q x with
      | some m =>
        exact absurd (by rw [refPay_member hm, refPay_member (hr.trans hm)]) hne
      | none =>
        have hm' : st'.mem .refs q x = none := hr.trans hm
        obtain ⟨y, hy, rfl⟩ := (mem_cellsOf_iff t).mp hc
        have hq : st.has q = true := (has_iff_ids st q).mpr (mem_ids_of_isSome st .cells q y hy)
        by_cases hq' : st'.has q = true
        · -- a cells `x` appears in / vanishes from `q`: the plain namespace differs at `x`
          have hne' : nsAt t.plain st' q ≠ nsAt t.plain st q := by
            intro heq
            apply hne
            have hx := congrFun heq x
            rw [nsAt_plain, nsAt_plain] at hx
            unfold refPay
            rw [hm, hm', hq, hq', hgp]
            simp only [Bool.true_and]
            by_cases hg : st.globals.contains x = true
            · unfold nsPlain at hx
              rw [hgl] at hx
              have hg' : x ∈ st.globals := by simpa using hg
              cases h1 : st'.mem .cells q x <;> cases h2 : st.mem .cells q x <;> simp [h1, h2, hg'] at hx ⊢
            · have : gpay t st x = none := by unfold gpay; rw [if_neg hg]
              rw [this]; simp
          exact touchedBy_append_left (hcov0.ns q y hy hne')
        · -- the space is deleted: its cells are cleared as objects
          have hq'' : q ∉ st'.ids := fun h => hq' ((has_iff_ids st' q).mpr h)
          have : st'.mem .cells q y ≠ st.mem .cells q y := by
            rw [St.mem_of_not_mem st' .cells q y hq'']
            intro e
            rw [← e] at hy; cases hy
          exact touchedBy_append_left (touchedBy_of_cleared (hcov.cells q y hy this))
    · exact touchedBy_append_left (hcov.refsNs q x hr c hc)
  · -- a slot that denoted something and denotes something else: its recorded readers are cleared
    intro q x hne hs
    cases hm : st.mem .refs q x with
    | some m =>
      have hr : st'.mem .refs q x ≠ st.mem .refs q x := by
        intro e
        exact hne (by rw [refPay_member hm, refPay_member (e.trans hm)])
      exact List.mem_append_left _ (hcov.refsAttr q x hr (by rw [hm]; rfl))
    | none =>
      obtain ⟨hq, hc, hg⟩ := refPay_global hs hm
      have hqi : q ∈ st.ids := (has_iff_ids st q).mp hq
      by_cases hq' : st'.has q = true
      · apply List.mem_append_right
        have hqi' : q ∈ st'.ids := (has_iff_ids st' q).mp hq'
        have hgx : x ∈ st'.globals := by rw [hgl]; simpa using hg
        -- what appeared in the slot: a reference member, or a cells
        have happ : (∃ m', st'.mem .refs q x = some m') ∨
            (st'.mem .refs q x = none ∧ (st'.mem .cells q x).isSome = true) := by
          cases hm' : st'.mem .refs q x with
          | some m' => exact Or.inl ⟨m', rfl⟩
          | none =>
            right
            refine ⟨rfl, ?_⟩
            cases hcs : (st'.mem .cells q x).isSome with
            | true => rfl
            | false =>
              exfalso
              apply hne
              have e1 : (st'.mem .cells q x).isNone = true := by simpa using hcs
              unfold refPay
              rw [hm, hm', hq, hq', hgp, e1, hc]
              rfl
        have hrt : (q, x) ∈ t.rtab := ha'.gslots q x hqi' hgx
        cases o with
        | setGlobal name => cases hsup
        | delGlobal name => cases hsup
        | setRef p name v =>
          obtain ⟨hsh, hd⟩ := setRef_spec kw st st' p name v hop
          rcases happ with ⟨m', hm'⟩ | ⟨_, hc'⟩
          · have hnm := (defines_changes_name hi hi' hsh hd .refs q x (by rw [hm, hm']; exact fun e => nomatch e)).2
            subst hnm
            simp only [shadowClears, hg, if_true]
            exact mem_globalAttr hrt hm hc
          · have := (defines_changes_name hi hi' hsh hd .cells q x
              (by rw [hc]; intro e; rw [e] at hc'; cases hc')).1
            cases this
        | newSpace parent name bases refs =>
          have hfr := newSpace_frame kw hi hi' parent name bases refs hop q hqi
          rcases happ with ⟨m', hm'⟩ | ⟨_, hc'⟩
          · rw [hfr, hm] at hm'; cases hm'
          · rw [hfr, hc] at hc'; cases hc'
        | delSpace p =>
          apply List.mem_append_left
          rcases happ with ⟨m', hm'⟩ | ⟨hm', hc'⟩
          · exact mem_shadow_refs false _ hm hc hg hm' (fun e => nomatch e) hrt
          · exact mem_shadow_cells _ hm hc hg hc' hrt
        | newCells p name fname v =>
          rcases happ with ⟨m', hm'⟩ | ⟨hm', hc'⟩
          · exact mem_shadow_refs false _ hm hc hg hm' (fun e => nomatch e) hrt
          · exact mem_shadow_cells _ hm hc hg hc' hrt
        | setFormula p name v =>
          rcases happ with ⟨m', hm'⟩ | ⟨hm', hc'⟩
          · exact mem_shadow_refs false _ hm hc hg hm' (fun e => nomatch e) hrt
          · exact mem_shadow_cells _ hm hc hg hc' hrt
        | delCells p name =>
          rcases happ with ⟨m', hm'⟩ | ⟨hm', hc'⟩
          · exact mem_shadow_refs false _ hm hc hg hm' (fun e => nomatch e) hrt
          · exact mem_shadow_cells _ hm hc hg hc' hrt
        | renameCells p old new =>
          rcases happ with ⟨m', hm'⟩ | ⟨hm', hc'⟩
          · exact mem_shadow_refs false _ hm hc hg hm' (fun e => nomatch e) hrt
          · exact mem_shadow_cells _ hm hc hg hc' hrt
        | addBases p bs =>
          rcases happ with ⟨m', hm'⟩ | ⟨hm', hc'⟩
          · exact mem_shadow_refs false _ hm hc hg hm' (fun e => nomatch e) hrt
          · exact mem_shadow_cells _ hm hc hg hc' hrt
        | removeBases p bs =>
          rcases happ with ⟨m', hm'⟩ | ⟨hm', hc'⟩
          · exact mem_shadow_refs false _ hm hc hg hm' (fun e => nomatch e) hrt
          · exact mem_shadow_cells _ hm hc hg hc' hrt
        | delRef p name =>
          rcases happ with ⟨m', hm'⟩ | ⟨hm', hc'⟩
          · exact mem_shadow_refs false _ hm hc hg hm' (fun e => nomatch e) hrt
          · exact mem_shadow_cells _ hm hc hg hc' hrt
      · -- the space is deleted: `on_delete` clears the readers of every model-level reference it does not hide
        have hx : x ∈ st.globals := by simpa using hg
        apply List.mem_append_right
        cases o with
        | delSpace p =>
          have heff : Deleted st st' p := apply_spec kw st st' (keysOK_of_inv hi) (.delSpace p) hop
          have hpre : isPrefix p q = true := by
            cases hp : isPrefix p q with
            | true => rfl
            | false => exact absurd ((has_iff_ids st' q).mpr ((heff.ids q).mpr ⟨hqi, hp⟩)) hq'
          apply List.mem_append_right
          unfold orphanClears
          refine List.mem_flatMap.mpr ⟨q, List.mem_filter.mpr ⟨hqi, hpre⟩, ?_⟩
          exact List.mem_flatMap.mpr ⟨x, List.mem_filter.mpr ⟨hx, by rw [hm, hc]; rfl⟩,
            mem_globalAttr (hrt0 q x hqi hx) hm hc⟩
        | newSpace parent name bases refs =>
          exact absurd (has_apply_of_not_delSpace kw hi _ (fun p e => by cases e) hop q hq) hq'
        | newCells p name fname v =>
          exact absurd (has_apply_of_not_delSpace kw hi _ (fun p e => by cases e) hop q hq) hq'
        | setFormula p name v =>
          exact absurd (has_apply_of_not_delSpace kw hi _ (fun p e => by cases e) hop q hq) hq'
        | delCells p name =>
          exact absurd (has_apply_of_not_delSpace kw hi _ (fun p e => by cases e) hop q hq) hq'
        | renameCells p old new =>
          exact absurd (has_apply_of_not_delSpace kw hi _ (fun p e => by cases e) hop q hq) hq'
        | addBases p bs =>
          exact absurd (has_apply_of_not_delSpace kw hi _ (fun p e => by cases e) hop q hq) hq'
        | removeBases p bs =>
          exact absurd (has_apply_of_not_delSpace kw hi _ (fun p e => by cases e) hop q hq) hq'
        | setRef p name v =>
          exact absurd (has_apply_of_not_delSpace kw hi _ (fun p e => by cases e) hop q hq) hq'
        | delRef p name =>
          exact absurd (has_apply_of_not_delSpace kw hi _ (fun p e => by cases e) hop q hq) hq'
        | setGlobal name => cases hsup
        | delGlobal name => cases hsup

end MxModel.Edit
