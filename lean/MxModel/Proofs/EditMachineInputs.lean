import MxModel.Proofs.EditMachineExamples
import MxModel.Proofs.ExecInputsRun
/-!
# The inputs depend on the edits only; the live model and the edits-only model

`inpOf_doClears`: after the clearing of a structural edit the user's inputs are those before minus
the inputs of the cells that were cleared as objects (`clear_obj`, deletion) – a namespace
notification and `clear_attr_referrers` keep every input (an input has no predecessor in the trace
graph and is no reader in the reference graph: `InpInv`).  So the inputs after any operation of the
combined machine are a function of the structure, the inputs before and the operation
(`step_sim`), and the run without the evaluations (`noEvals`) ends with the same structure, the
same identities and the same inputs (`run_noEvals`).
-/
namespace MxModel.Edit
open MxModel.Exec MxModel.C02 MxModel.SM

variable {env : Env} {lt : Node → Node → Prop}

theorem inpOf_of_kept {s s' : Exec.St} {m : Node} (hk : m ∈ s.inputs → Kept s s' (.elem m))
    (hsub : m ∈ s'.inputs → m ∈ s.inputs) : inpOf s' m = inpOf s m := by
  unfold inpOf
  by_cases hm : m ∈ s.inputs
  · obtain ⟨h1, h2⟩ := (hk hm).data m rfl
    simp [hm, h2.mpr hm, h1]
  · have : m ∉ s'.inputs := fun h => hm (hsub h)
    simp [hm, this]

theorem inpOf_of_noNodes {s : Exec.St} (h : CI env lt s) (m : Node) (hn : NoNodes s m.1) : inpOf s m = none := by
  apply inpOf_of_unheld
  cases hl : lookup s.data m with
  | none => rfl
  | some v => exact absurd rfl (hn _ (h.gi.heldNodes m (by rw [hl]; rfl)).1)

theorem doClears_single (env : Env) (s : Exec.St) (k : Clear) : doClears env s [k] = doClear env s k := rfl

theorem clearedBy_cons (k : Clear) (cl : List Clear) (c : CellId) :
    clearedBy (k :: cl) c = (clearedBy [k] c || clearedBy cl c) := by
  simp [clearedBy]

/-- one primitive -/
theorem inpOf_doClear {s : Exec.St} (h : CI env lt s) (hr : RgNoInputs s) (hsc : Scoped env) (hnc : NoCatchEnv env)
    (k : Clear) (m : Node) :
    inpOf (doClear env s k) m = if clearedBy [k] m.1 = true then none else inpOf s m := by
  obtain ⟨h1, _, _, _, _, hCl, _, hsub⟩ := doClears_facts hsc hnc [k] s h
  rw [doClears_single] at h1 hCl hsub
  have hI := InpInv.of_ci h hr
  by_cases hc : clearedBy [k] m.1 = true
  · rw [if_pos hc]
    exact inpOf_of_noNodes h1 m (hCl _ hc)
  · rw [if_neg hc]
    refine inpOf_of_kept ?_ (hsub m)
    intro hin
    cases k with
    | obj c =>
      have hne : m.1 ≠ c := by
        intro e; apply hc; simp [clearedBy, e]
      exact kept_input_clearObj hI c m hin hne
    | ns L => exact kept_input_notifyAll hI L m hin
    | attr r => exact kept_input_clearAttrReferrers hI r m hin
    | del c =>
      have hne : m.1 ≠ c := by
        intro e; apply hc; simp [clearedBy, e]
      have k1 : Kept s (s.clearAllValues c true) (.elem m) := by
        refine kept_clearAllValues s h.gi.edgeOK c true _ ?_
        intro n hnc' _ _
        refine hI.not_reach _ m hin ?_
        intro e
        cases e
        exact hne hnc'
      simp only [doClear]
      split
      · exact k1
      · obtain ⟨R1, c1, _⟩ := clr_clearAllValues s (fun _ => False) h.gi.edgeOK c true
        exact k1.trans (kept_input_clearObj (hI.of_clr c1) c m (((k1.data m rfl).2).mpr hin) hne)

/-- **the inputs after the clearing of a structural edit** -/
theorem inpOf_doClears (hsc : Scoped env) (hnc : NoCatchEnv env) : ∀ (cl : List Clear) (s : Exec.St),
    CI env lt s → RgNoInputs s →
    (∀ m, inpOf (doClears env s cl) m = if clearedBy cl m.1 = true then none else inpOf s m) ∧
    RgNoInputs (doClears env s cl) := by
  intro cl
  induction cl with
  | nil => intro s _ hr; exact ⟨fun m => by simp [doClears, clearedBy], hr⟩
  | cons k cl ih =>
    intro s h hr
    have h1 := doClear_ci h hsc hnc k
    obtain ⟨R, D, hclr⟩ := doClear_clr env s h.gi.edgeOK k
    obtain ⟨i1, i2⟩ := ih (doClear env s k) h1 (hr.of_clr hclr)
    refine ⟨?_, i2⟩
    intro m
    show inpOf (doClears env (doClear env s k) cl) m = _
    rw [i1 m, inpOf_doClear h hr hsc hnc k m, clearedBy_cons k cl]
    cases clearedBy [k] m.1 <;> cases clearedBy cl m.1 <;> simp

/-! ## one step of the machine -/

variable (P : Params)

def isEval : Op → Bool
  | .eval _ _ _ => true
  | _ => false

/-- the history with every evaluation removed -/
def noEvals (ops : List Op) : List Op := ops.filter (fun op => !isEval op)

/-- same structure, same identities, same inputs -/
structure Sim (w1 w2 : W) : Prop where
  sm : w2.sm = w1.sm
  tabs : w2.tabs = w1.tabs
  inp : inpOf w2.ex = inpOf w1.ex

theorem Sim.env_eq {w1 w2 : W} (h : Sim w1 w2) : w2.env P = w1.env P := by
  unfold W.env; rw [h.sm, h.tabs]

theorem alive_cid (w : W) (ha : AllocOK w.tabs w.sm) (q : Path) (n : String) :
    (w.env P).alive (w.tabs.cid q n) = (w.sm.mem .cells q n).isSome := by
  cases hm : (w.sm.mem .cells q n).isSome with
  | true => exact alive_of_member P ha q n hm
  | false =>
    cases hal : (w.env P).alive (w.tabs.cid q n) with
    | false => rfl
    | true =>
      exfalso
      obtain ⟨q', x', m', hd, hm', _⟩ := (alive_iff P w.tabs w.sm _).mp hal
      have hmem : (q, n) ∈ w.tabs.ctab := by
        apply Classical.byContradiction
        intro hnot
        have : w.tabs.cid q n = w.tabs.ctab.length := by
          unfold Tabs.cid
          have hlt : ¬ List.idxOf (q, n) w.tabs.ctab < w.tabs.ctab.length :=
            fun h => hnot (List.idxOf_lt_length_iff.mp h)
          have hle : List.idxOf (q, n) w.tabs.ctab ≤ w.tabs.ctab.length := List.idxOf_le_length
          exact Nat.le_antisymm hle (Nat.le_of_not_lt hlt)
        unfold Tabs.cellOf at hd
        rw [this, List.getElem?_eq_none (Nat.le_refl _)] at hd
        cases hd
      rw [cellOf_cid w.tabs q n hmem] at hd
      simp only [Option.some.injEq, Prod.mk.injEq] at hd
      obtain ⟨rfl, rfl⟩ := hd
      rw [hm'] at hm; cases hm

/-- the value-layer operations are those of the value-layer machine (`C02.step`) on the cells'
identities -/
def toC02 (w : W) : Op → C02.Op
  | .eval q n key => .eval (w.tabs.cid q n, key)
  | .setValue q n key v => .setValue (w.tabs.cid q n, key) v
  | .clearAt q n key => .clearAt (w.tabs.cid q n, key)
  | .clear q n => .clear (w.tabs.cid q n)
  | .clearAll q n => .clearAll (w.tabs.cid q n)
  | .struct _ => .admin .getError

theorem step_value (w : W) (ha : AllocOK w.tabs w.sm) (op : Op) (hv : ∀ o, op ≠ .struct o) :
    (step P w op).sm = w.sm ∧ (step P w op).tabs = w.tabs ∧
    (step P w op).ex = (C02.step (w.env P, w.ex) (toC02 w op)).2 := by
  cases op with
  | struct o => exact absurd rfl (hv o)
  | eval q n key =>
    simp only [step, toC02, C02.step, alive_cid P w ha]
    split <;> exact ⟨rfl, rfl, rfl⟩
  | setValue q n key v =>
    simp only [step, toC02, C02.step, alive_cid P w ha]
    rw [Bool.and_comm]
    split <;> exact ⟨rfl, rfl, rfl⟩
  | clearAt q n key => exact ⟨rfl, rfl, rfl⟩
  | clear q n => exact ⟨rfl, rfl, rfl⟩
  | clearAll q n => exact ⟨rfl, rfl, rfl⟩

variable {P}

/-- no input is a reader in the reference graph, after every operation -/
theorem step_rg (w : W) (op : Op) (hw : WF (w.env P) lt) (h : CIW P lt w)
    (hr : RgNoInputs w.ex) : RgNoInputs (step P w op).ex := by
  by_cases hv : ∀ o, op ≠ .struct o
  · rw [(step_value P w h.alloc op hv).2.2]
    exact step_rgNoInputs (w.env P, w.ex) _ h.ci hr
  · have : ∃ o, op = .struct o := by
      apply Classical.byContradiction
      intro hc
      exact hv (fun o e => hc ⟨o, e⟩)
    obtain ⟨o, rfl⟩ := this
    simp only [step]
    split
    · cases hop : w.sm.apply P.kw o with
      | none => exact hr
      | some st' =>
        simp only
        have hext := ext_grow w.tabs st'
        have hw' := wf_ext P hext h.alloc hw
        have hci' := ci_ext P hext h.alloc hw h.ci
        exact (inpOf_doClears hw'.scoping hw'.noCatch _ _ hci' hr).2
    · exact hr

/-- **the inputs after an operation depend on structure, identities, inputs and the operation only** -/
theorem step_sim (ho : StrictOrder lt) (w1 w2 : W) (op : Op) (hw : WF (w1.env P) lt)
    (h1 : CIW P lt w1) (h2 : CIW P lt w2) (r1 : RgNoInputs w1.ex) (r2 : RgNoInputs w2.ex) (hs : Sim w1 w2) :
    Sim (step P w1 op) (step P w2 op) := by
  have henv := hs.env_eq P
  by_cases hv : ∀ o, op ≠ .struct o
  · obtain ⟨a1, a2, a3⟩ := step_value P w1 h1.alloc op hv
    obtain ⟨b1, b2, b3⟩ := step_value P w2 h2.alloc op hv
    refine ⟨by rw [b1, a1, hs.sm], by rw [b2, a2, hs.tabs], ?_⟩
    rw [a3, b3, inpOf_step ho hw h1.ci r1, henv, inpOf_step ho hw (henv ▸ h2.ci) r2, hs.inp]
    have : toC02 w2 op = toC02 w1 op := by
      cases op <;> simp [toC02, hs.tabs]
    rw [this]
  · have : ∃ o, op = .struct o := by
      apply Classical.byContradiction
      intro hc
      exact hv (fun o e => hc ⟨o, e⟩)
    obtain ⟨o, rfl⟩ := this
    simp only [step, hs.sm, hs.tabs]
    split
    · cases hop : w1.sm.apply P.kw o with
      | none => exact hs
      | some st' =>
        simp only
        refine ⟨rfl, rfl, ?_⟩
        have hext := ext_grow w1.tabs st'
        have hw' := wf_ext P hext h1.alloc hw
        have hci1 := ci_ext P hext h1.alloc hw h1.ci
        have hci2 : CI (envOf P (w1.tabs.grow st') w1.sm) lt w2.ex := by
          have := h2.ci
          unfold W.env at this
          rw [hs.sm, hs.tabs] at this
          exact ci_ext P hext h1.alloc hw this
        funext m
        rw [(inpOf_doClears hw'.scoping hw'.noCatch _ _ hci2 r2).1 m,
          (inpOf_doClears hw'.scoping hw'.noCatch _ _ hci1 r1).1 m, hs.inp]
    · exact hs

/-- an evaluation changes neither structure nor identities nor inputs -/
theorem step_eval_sim (ho : StrictOrder lt) (w1 w2 : W) (q : Path) (n : String) (key : Key)
    (hw : WF (w1.env P) lt) (h1 : CIW P lt w1) (r1 : RgNoInputs w1.ex) (hs : Sim w1 w2) :
    Sim (step P w1 (.eval q n key)) w2 := by
  obtain ⟨a1, a2, a3⟩ := step_value P w1 h1.alloc (.eval q n key) (fun o e => nomatch e)
  refine ⟨by rw [a1, hs.sm], by rw [a2, hs.tabs], ?_⟩
  rw [a3, inpOf_step ho hw h1.ci r1, hs.inp]
  rfl

/-- **the live run and the run without the evaluations** end with the same structure, identities and
inputs; both satisfy the invariant -/
theorem run_sim (ho : StrictOrder lt) : ∀ (ops : List Op) (w1 w2 : W), WF (w1.env P) lt →
    CIW P lt w1 → CIW P lt w2 → RgNoInputs w1.ex → RgNoInputs w2.ex → Sim w1 w2 → Admissible P lt w1 ops →
    Sim (run P w1 ops) (run P w2 (noEvals ops)) ∧ CIW P lt (run P w1 ops) ∧
      CIW P lt (run P w2 (noEvals ops)) ∧ WF ((run P w1 ops).env P) lt := by
  intro ops
  induction ops with
  | nil => intro w1 w2 hw h1 h2 _ _ hs _; exact ⟨hs, h1, h2, hw⟩
  | cons op rest ih =>
    intro w1 w2 hw h1 h2 r1 r2 hs hadm
    obtain ⟨a2, a3⟩ := hadm
    have c1 := step_ciw ho w1 op hw h1 (stepCovers_of_inv P w1 op h1.inv)
    have g1 := step_rg w1 op hw h1 r1
    by_cases hev : isEval op = true
    · have : noEvals (op :: rest) = noEvals rest := by simp [noEvals, List.filter, hev]
      rw [this]
      cases op with
      | eval q n key => exact ih _ w2 a2 c1 h2 g1 r2 (step_eval_sim ho w1 w2 q n key hw h1 r1 hs) a3
      | _ => cases hev
    · have hev' : isEval op = false := by simpa using hev
      have : noEvals (op :: rest) = op :: noEvals rest := by simp [noEvals, List.filter, hev']
      rw [this]
      have hw2 : WF (w2.env P) lt := by rw [hs.env_eq P]; exact hw
      have c2 := step_ciw ho w2 op hw2 h2 (stepCovers_of_inv P w2 op h2.inv)
      have g2 := step_rg w2 op hw2 h2 r2
      exact ih _ _ a2 c1 c2 g1 g2 (step_sim ho w1 w2 op hw h1 h2 r1 r2 hs) a3

end MxModel.Edit
