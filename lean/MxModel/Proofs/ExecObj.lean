import MxModel.Proofs.ExecGraph
/-!
# Object nodes of the trace graph belong to uncached cells

`(cells,)` - the key-less node that stands for an uncached cells - enters the graph in one place
only: `CallStack.pop` of an element of an uncached cells below a cached caller (`St.popEdge`).
`ObjGrow env s s'`: every object node of `s'` was already in `s` or belongs to a cells that is
uncached in `env`.  Every evaluation - successful, failed, with handled failures, any formula
behaviour, no hypothesis on the programs at all - is `ObjGrow`; so `ObjOK` (all object nodes
belong to uncached cells) is kept by evaluation.  Clearing only removes nodes.
-/
namespace MxModel.Exec

/-- every object node in the graph belongs to a cells that is uncached -/
def ObjOK (env : Env) (s : St) : Prop := ∀ c, GNode.obj c ∈ s.gn → env.cached c = false

def ObjGrow (env : Env) (s s' : St) : Prop :=
  ∀ c, GNode.obj c ∈ s'.gn → GNode.obj c ∈ s.gn ∨ env.cached c = false

variable {env : Env}

theorem ObjGrow.refl (s : St) : ObjGrow env s s := fun _ h => Or.inl h

theorem ObjGrow.trans {a b c : St} (h1 : ObjGrow env a b) (h2 : ObjGrow env b c) : ObjGrow env a c := by
  intro x hx
  rcases h2 x hx with h | h
  · exact h1 x h
  · exact Or.inr h

theorem ObjGrow.of_gn {s s' : St} (h : s'.gn = s.gn) : ObjGrow env s s' := fun _ hx => Or.inl (h ▸ hx)

theorem ObjGrow.of_sub {s s' : St} (h : ∀ x, x ∈ s'.gn → x ∈ s.gn) : ObjGrow env s s' :=
  fun _ hx => Or.inl (h _ hx)

theorem ObjOK.grow {s s' : St} (h : ObjOK env s) (g : ObjGrow env s s') : ObjOK env s' := by
  intro c hc
  rcases g c hc with h' | h'
  · exact h c h'
  · exact h'

theorem objGrow_addNode_elem (s : St) (m : Node) : ObjGrow env s (s.addNode (.elem m)) := by
  intro c hc
  rcases (mem_addNode_gn s _ _).mp hc with h | h
  · exact Or.inl h
  · cases h

theorem objGrow_addEdge (s : St) (a : GNode) (t : Node)
    (ha : (∃ m, a = .elem m) ∨ (∃ c, a = .obj c ∧ env.cached c = false)) :
    ObjGrow env s (s.addEdge a (.elem t)) := by
  intro c hc
  rcases (mem_addEdge_gn s _ _ _).mp hc with h | h | h
  · exact Or.inl h
  · rcases ha with ⟨m, rfl⟩ | ⟨c', rfl, hc'⟩
    · cases h
    · cases h; exact Or.inr hc'
  · cases h

theorem objGrow_hitEdge (s : St) (n : Node) : ObjGrow env s (s.hitEdge n) := by
  unfold St.hitEdge
  split
  · exact objGrow_addEdge s _ _ (Or.inl ⟨n, rfl⟩)
  · exact ObjGrow.refl s

theorem objGrow_popEdge (s : St) (n : Node) : ObjGrow env s (s.popEdge env n) := by
  unfold St.popEdge
  split
  · by_cases hc : env.cached n.1 = true
    · simp only [hc, if_true]; exact objGrow_addEdge s _ _ (Or.inl ⟨n, rfl⟩)
    · have hc' : env.cached n.1 = false := by simpa using hc
      simp only [hc', Bool.false_eq_true, if_false]
      exact objGrow_addEdge s _ _ (Or.inr ⟨n.1, rfl, hc'⟩)
  · split
    · exact objGrow_addNode_elem s n
    · exact ObjGrow.refl s

theorem objGrow_pop (s : St) (n : Node) : ObjGrow env s (s.pop env n) := by
  unfold St.pop
  have h1 : ObjGrow env s s.dropFrame := ObjGrow.of_gn rfl
  have h2 := objGrow_popEdge (env := env) s.dropFrame n
  have h3 : ObjGrow env (s.dropFrame.popEdge env n) ((s.dropFrame.popEdge env n).drainRefs env n) :=
    ObjGrow.of_gn (drainSame env _ n).gn
  exact (h1.trans h2).trans h3

theorem objGrow_rollback (s : St) (n : Node) : ObjGrow env s (s.rollback n) := by
  apply ObjGrow.of_sub
  intro x hx
  simp only [St.rollback, St.removeNode, St.dropFrame, List.mem_filter] at hx
  exact hx.1

theorem objGrow_noteRead (s : St) (a : Bool) (r : RefId) : ObjGrow env s (s.noteRead a r) := by
  unfold St.noteRead; split <;> exact ObjGrow.of_gn rfl

def CalleeObj (env : Env) (f : Node → St → Res × St) : Prop := ∀ n s, ObjGrow env s (f n s).2

theorem runBody_obj (f : Node → St → Res × St) (hf : CalleeObj env f) :
    ∀ (p : Prog) (s : St), ObjGrow env s (runBody env f p s).2 := by
  intro p
  induction p with
  | ret v => intro s; exact ObjGrow.refl s
  | raise e => intro s; exact ObjGrow.of_gn rfl
  | reraise e => intro s; exact ObjGrow.refl s
  | read a r k ih =>
    intro s
    simp only [runBody]
    exact (objGrow_noteRead s _ r).trans (ih _ _)
  | call n k ih =>
    intro s
    simp only [runBody]
    exact (hf n s).trans (ih _ _)

theorem evalNode_obj (ef : Node → St → Res × St) (hef : CalleeObj env ef) : CalleeObj env (evalNode env ef) := by
  intro n s
  unfold evalNode
  split
  · split
    · split
      · exact objGrow_hitEdge s n
      · exact (hef n s).trans (ObjGrow.of_gn (keepExc_excOnly s _).gn)
    · exact (hef n s).trans (ObjGrow.of_gn (keepExc_excOnly s _).gn)
  · exact ObjGrow.of_gn rfl

theorem runN_obj : ∀ d, CalleeObj env (runN env d) := by
  intro d
  induction d with
  | zero => intro n s; simp only [runN]; exact ObjGrow.of_gn rfl
  | succ d ih =>
    intro n s
    have hb := runBody_obj (evalNode env (runN env d)) (evalNode_obj _ ih) (env.formula n) (s.push env n)
    have hpush : ObjGrow env s (s.push env n) := ObjGrow.of_gn rfl
    simp only [runN]
    generalize runBody env (evalNode env (runN env d)) (env.formula n) (s.push env n) = p at hb
    obtain ⟨r, s1⟩ := p
    cases r with
    | err e => exact (hpush.trans hb).trans (objGrow_rollback s1 n)
    | ok v =>
      simp only []
      split
      · split
        · exact (hpush.trans hb).trans ((ObjGrow.of_gn (s' := s1.newExc) rfl).trans (objGrow_rollback _ n))
        · exact (hpush.trans hb).trans ((ObjGrow.of_gn (s' := { s1 with data := insert s1.data n v }) rfl).trans
            (objGrow_pop _ n))
      · exact (hpush.trans hb).trans (objGrow_pop s1 n)

/-- **an evaluation adds object nodes of uncached cells only** -/
theorem evalTop_obj (n : Node) (s : St) : ObjGrow env s (evalTop env n s).2 := by
  unfold evalTop
  split
  · exact ObjGrow.refl s
  · have h := runN_obj (env := env) (env.maxdepth + 1) n s
    generalize runN env (env.maxdepth + 1) n s = p at h
    obtain ⟨r, s1⟩ := p
    cases r with
    | ok v => exact h.trans (ObjGrow.of_gn rfl)
    | err e => exact h.trans (ObjGrow.of_gn rfl)

end MxModel.Exec
