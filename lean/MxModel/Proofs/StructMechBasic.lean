import MxModel.Struct.Mech
import MxModel.Proofs.StructMechC3
/-!
# Containers and frame lemmas of the mechanism state (`MxModel.SM`)

`mget / mset / mdel`; what `St.upd` (hence `setMem`, `delMem`, `onInherit`) leaves alone: ids, direct
bases and everything computed from them (`mro`, `tail`, `subs`, `has`, `childNames`).
-/
namespace MxModel.SM
open MxModel.C3

/-! ## containers -/

def keys (ms : Members) : List String := ms.map (·.1)

@[simp] theorem mget_nil (n : String) : mget [] n = none := rfl

theorem mget_cons (e : String × Member) (ms : Members) (n : String) :
    mget (e :: ms) n = if e.1 = n then some e.2 else mget ms n := by
  unfold mget
  simp only [List.find?_cons]
  by_cases h : e.1 = n
  · have : (e.1 == n) = true := by simpa using h
    simp [h]
  · have : (e.1 == n) = false := by simpa using h
    simp [h, this]

theorem mget_isSome_iff (ms : Members) (n : String) : (mget ms n).isSome ↔ n ∈ keys ms := by
  induction ms with
  | nil => simp [keys]
  | cons e ms ih =>
    rw [mget_cons]
    simp only [keys, List.map_cons, List.mem_cons] at ih ⊢
    by_cases h : e.1 = n
    · simp [h]
    · simp only [h, if_false, ih]
      constructor
      · exact Or.inr
      · rintro (h' | h')
        · exact absurd h'.symm h
        · exact h'

theorem mget_eq_none_iff (ms : Members) (n : String) : mget ms n = none ↔ n ∉ keys ms := by
  rw [← mget_isSome_iff]
  cases mget ms n <;> simp

theorem mget_mem (ms : Members) (n : String) (m : Member) (h : mget ms n = some m) : (n, m) ∈ ms := by
  induction ms with
  | nil => simp at h
  | cons e ms ih =>
    rw [mget_cons] at h
    by_cases he : e.1 = n
    · simp only [he, if_true, Option.some.injEq] at h
      subst h; subst he
      simp
    · simp only [he, if_false] at h
      exact List.mem_cons_of_mem _ (ih h)

theorem mget_of_mem (ms : Members) (hnd : (keys ms).Nodup) (n : String) (m : Member) (h : (n, m) ∈ ms) :
    mget ms n = some m := by
  induction ms with
  | nil => cases h
  | cons e ms ih =>
    rw [mget_cons]
    simp only [keys, List.map_cons, List.nodup_cons] at hnd
    simp only [List.mem_cons] at h
    rcases h with rfl | h
    · simp
    · have : e.1 ≠ n := by
        intro he
        apply hnd.1
        rw [he]
        exact List.mem_map.mpr ⟨(n, m), h, rfl⟩
      simp only [this, if_false]
      exact ih hnd.2 h

theorem mget_append (xs ys : Members) (n : String) :
    mget (xs ++ ys) n = match mget xs n with | some m => some m | none => mget ys n := by
  induction xs with
  | nil => simp
  | cons e xs ih =>
    simp only [List.cons_append, mget_cons]
    grind

theorem mget_mset_aux (ms : Members) (n : String) (m : Member) (n' : String) :
    mget (ms.map (fun e => if e.1 == n then (n, m) else e)) n' =
      if n' = n then (if (mget ms n).isSome then some m else none) else mget ms n' := by
  induction ms with
  | nil => simp
  | cons e ms ih =>
    simp only [List.map_cons, mget_cons, ih]
    grind

theorem mget_mset (ms : Members) (n : String) (m : Member) (n' : String) :
    mget (mset ms n m) n' = if n' = n then some m else mget ms n' := by
  unfold mset
  split
  · rw [mget_mset_aux]; grind
  · rw [mget_append]; simp only [mget_cons]; grind [mget]

theorem mget_mdel (ms : Members) (n n' : String) :
    mget (mdel ms n) n' = if n' = n then none else mget ms n' := by
  unfold mdel
  induction ms with
  | nil => simp
  | cons e ms ih =>
    simp only [List.filter_cons]
    split <;> simp only [mget_cons, ih] <;> grind

theorem keys_mset (ms : Members) (n : String) (m : Member) :
    keys (mset ms n m) = if n ∈ keys ms then keys ms else keys ms ++ [n] := by
  unfold mset
  by_cases h : (mget ms n).isSome = true
  · have hk := (mget_isSome_iff ms n).mp h
    simp only [h, hk, if_true]
    unfold keys
    rw [List.map_map]
    apply List.map_congr_left
    intro e _
    simp only [Function.comp]
    by_cases he : e.1 = n
    · simp [he]
    · simp [he]
  · have hk : n ∉ keys ms := fun hk => h ((mget_isSome_iff ms n).mpr hk)
    simp only [h, hk, if_false]
    simp [keys]

theorem nodup_mset (ms : Members) (n : String) (m : Member) (h : (keys ms).Nodup) :
    (keys (mset ms n m)).Nodup := by
  rw [keys_mset]
  split
  · exact h
  · rename_i hn
    rw [List.nodup_append]
    refine ⟨h, by simp, ?_⟩
    intro a ha b hb
    simp only [List.mem_singleton] at hb
    subst hb
    intro e; subst e; exact hn ha

theorem keys_mdel (ms : Members) (n : String) : keys (mdel ms n) = (keys ms).filter (· != n) := by
  unfold mdel keys
  rw [List.filter_map]
  rfl

theorem nodup_mdel (ms : Members) (n : String) (h : (keys ms).Nodup) : (keys (mdel ms n)).Nodup := by
  rw [keys_mdel]
  exact List.Nodup.sublist List.filter_sublist h

/-- the defined entries, looked up -/
theorem mget_filter_defined (ms : Members) (hnd : (keys ms).Nodup) (n : String) :
    mget (ms.filter (fun e => !e.2.derived)) n =
      match mget ms n with
      | some m => if m.derived then none else some m
      | none => none := by
  induction ms with
  | nil => simp
  | cons e ms ih =>
    simp only [keys, List.map_cons, List.nodup_cons] at hnd
    simp only [List.filter_cons]
    rw [mget_cons]
    by_cases he : e.1 = n
    · simp only [he, if_true]
      cases hd : e.2.derived with
      | true =>
        simp only [Bool.not_true, Bool.false_eq_true, if_false, if_true]
        rw [ih hnd.2]
        have : mget ms n = none := by
          rw [mget_eq_none_iff]; rw [← he]; exact hnd.1
        simp [this]
      | false =>
        simp only [Bool.not_false, if_true]
        rw [mget_cons]
        simp [he]
    · simp only [he, if_false]
      cases hd : e.2.derived with
      | true =>
        simp only [Bool.not_true, Bool.false_eq_true, if_false]
        exact ih hnd.2
      | false =>
        simp only [Bool.not_false, if_true]
        rw [mget_cons]
        simp only [he, if_false]
        exact ih hnd.2

/-! ## spaces -/

@[simp] theorem Space.get_set (s : Space) (a a' : Attr) (ms : Members) :
    (s.set a ms).get a' = if a' = a then ms else s.get a' := by
  cases a <;> cases a' <;> simp [Space.set, Space.get]

@[simp] theorem Space.id_set (s : Space) (a : Attr) (ms : Members) : (s.set a ms).id = s.id := by
  cases a <;> rfl

@[simp] theorem Space.bases_set (s : Space) (a : Attr) (ms : Members) : (s.set a ms).bases = s.bases := by
  cases a <;> rfl

/-! ## `find` -/

theorem find_some_mem (st : St) (p : Path) (s : Space) (h : st.find p = some s) : s ∈ st.spaces ∧ s.id = p := by
  unfold St.find at h
  exact ⟨List.mem_of_find?_eq_some h, by simpa using List.find?_some h⟩

theorem has_iff_mem_ids (st : St) (p : Path) : st.has p = true ↔ p ∈ st.ids := by
  unfold St.has St.find St.ids
  rw [List.find?_isSome]
  simp only [beq_iff_eq, List.mem_map]

theorem find_isSome_iff (st : St) (p : Path) : (st.find p).isSome ↔ p ∈ st.ids := has_iff_mem_ids st p

theorem find_none_iff (st : St) (p : Path) : st.find p = none ↔ p ∉ st.ids := by
  rw [← find_isSome_iff]
  cases st.find p <;> simp

/-- with distinct ids, the space found is the one in the list -/
theorem find_of_mem (st : St) (hnd : st.ids.Nodup) (s : Space) (hs : s ∈ st.spaces) : st.find s.id = some s := by
  unfold St.find
  unfold St.ids at hnd
  generalize st.spaces = l at hnd hs
  induction l with
  | nil => cases hs
  | cons t l ih =>
    simp only [List.map_cons, List.nodup_cons] at hnd
    simp only [List.find?_cons]
    simp only [List.mem_cons] at hs
    rcases hs with rfl | hs
    · simp
    · have : t.id ≠ s.id := by
        intro e
        apply hnd.1
        rw [e]
        exact List.mem_map.mpr ⟨s, hs, rfl⟩
      have hb : (t.id == s.id) = false := by simpa using this
      rw [hb]
      exact ih hnd.2 hs

/-! ## `upd` keeps the shape -/

section upd
variable (st : St) (p : Path) (f : Space → Space)

theorem find_upd (hid : ∀ s, (f s).id = s.id) (q : Path) :
    (st.upd p f).find q = if q = p then (st.find q).map f else st.find q := by
  unfold St.upd St.find
  simp only
  rw [List.find?_map]
  have hcomp : ((fun s : Space => s.id == q) ∘ fun s => if (s.id == p) = true then f s else s) =
      fun s : Space => s.id == q := by
    funext s
    simp only [Function.comp]
    split
    · rw [hid]
    · rfl
  rw [hcomp]
  cases hfd : List.find? (fun s : Space => s.id == q) st.spaces with
  | none => split <;> rfl
  | some s =>
    have hs : s.id = q := by simpa using List.find?_some hfd
    simp only [Option.map_some]
    by_cases hqp : q = p
    · simp [hqp, ← hs.trans hqp]
    · have : ¬ s.id = p := fun e => hqp (hs.symm.trans e)
      simp [hqp, this]

theorem ids_upd (hid : ∀ s, (f s).id = s.id) : (st.upd p f).ids = st.ids := by
  unfold St.upd St.ids
  simp only [List.map_map]
  apply List.map_congr_left
  intro s _
  simp only [Function.comp]
  split
  · exact hid s
  · rfl

theorem length_upd : (st.upd p f).spaces.length = st.spaces.length := by
  unfold St.upd; simp

theorem globals_upd : (st.upd p f).globals = st.globals := rfl

theorem has_upd (hid : ∀ s, (f s).id = s.id) (q : Path) : (st.upd p f).has q = st.has q := by
  rw [Bool.eq_iff_iff, has_iff_mem_ids, has_iff_mem_ids, ids_upd st p f hid]

theorem basesOf_upd (hid : ∀ s, (f s).id = s.id) (hb : ∀ s, (f s).bases = s.bases) :
    (st.upd p f).basesOf = st.basesOf := by
  funext q
  unfold St.basesOf
  rw [find_upd st p f hid]
  by_cases hqp : q = p
  · simp only [hqp, if_true]
    cases st.find p with
    | none => rfl
    | some s => simp [hb]
  · simp [hqp]

theorem mro_upd (hid : ∀ s, (f s).id = s.id) (hb : ∀ s, (f s).bases = s.bases) (q : Path) :
    (st.upd p f).mro q = st.mro q := by
  unfold St.mro
  rw [basesOf_upd st p f hid hb, length_upd]

theorem tail_upd (hid : ∀ s, (f s).id = s.id) (hb : ∀ s, (f s).bases = s.bases) (q : Path) :
    (st.upd p f).tail q = st.tail q := by
  unfold St.tail
  rw [mro_upd st p f hid hb]

theorem subs_upd (hid : ∀ s, (f s).id = s.id) (hb : ∀ s, (f s).bases = s.bases) (q : Path) :
    (st.upd p f).subs q = st.subs q := by
  unfold St.subs
  rw [ids_upd st p f hid]
  apply List.filter_congr
  intro x _
  rw [tail_upd st p f hid hb]

theorem childNames_upd (hid : ∀ s, (f s).id = s.id) (q : Path) :
    (st.upd p f).childNames q = st.childNames q := by
  unfold St.childNames St.upd
  simp only [List.filterMap_map]
  congr 1
  funext s
  simp only [Function.comp]
  split
  · rw [hid]
  · rfl

theorem mem_upd (hid : ∀ s, (f s).id = s.id) (a : Attr) (q : Path) (n : String) :
    (st.upd p f).mem a q n =
      if q = p then (match st.find q with | some s => mget ((f s).get a) n | none => none)
      else st.mem a q n := by
  unfold St.mem
  rw [find_upd st p f hid]
  by_cases hqp : q = p
  · simp only [hqp, if_true]
    cases st.find p <;> rfl
  · simp [hqp]

end upd

/-! ## the depth bound of `St.mro` -/

theorem St.mem_of_find (st : St) (a : Attr) (q : Path) (n : String) (s : Space) (h : st.find q = some s) :
    st.mem a q n = mget (s.get a) n := by
  unfold St.mem; rw [h]

theorem St.mem_of_find_none (st : St) (a : Attr) (q : Path) (n : String) (h : st.find q = none) :
    st.mem a q n = none := by
  unfold St.mem; rw [h]

theorem St.basesOf_of_not_mem (st : St) (q : Path) (h : q ∉ st.ids) : st.basesOf q = [] := by
  unfold St.basesOf
  rw [(find_none_iff st q).mpr h]

theorem St.basesOf_mem (st : St) (q b : Path) (h : b ∈ st.basesOf q) :
    ∃ s ∈ st.spaces, s.id = q ∧ b ∈ s.bases := by
  unfold St.basesOf at h
  cases hf : st.find q with
  | none => rw [hf] at h; cases h
  | some s =>
    rw [hf] at h
    obtain ⟨h1, h2⟩ := find_some_mem st q s hf
    exact ⟨s, h1, h2, h⟩

/-- a space that does not exist has the trivial linearisation -/
theorem St.mro_of_not_mem (st : St) (q : Path) (h : q ∉ st.ids) : st.mro q = some [q] := by
  unfold St.mro
  have hb := St.basesOf_of_not_mem st q h
  simp [C3.mro, hb, totalLen, merge]

theorem St.tail_of_not_mem (st : St) (q : Path) (h : q ∉ st.ids) : st.tail q = [] := by
  unfold St.tail
  rw [St.mro_of_not_mem st q h]
  rfl

theorem St.mro_head (st : St) (q : Path) (l : List Path) (h : st.mro q = some l) : l = q :: st.tail q := by
  obtain ⟨r, rfl⟩ := C3.mro_head _ _ _ _ h
  unfold St.tail
  rw [h]
  rfl

theorem St.mro_eq_of_tail (st : St) (q : Path) (h : (st.mro q).isSome) : st.mro q = some (q :: st.tail q) := by
  cases hm : st.mro q with
  | none => rw [hm] at h; cases h
  | some l => rw [St.mro_head st q l hm]

end MxModel.SM
