import MxModel.Proofs.StructMechInv
/-!
# Which spaces an edit of a member touches (frame lemmas for the structural mechanism)

`St.touched st p = p :: st.subs p`: the space of the edit and the sub spaces `SpaceManager` walks.
For `new_cells`, `set_cells_property` (formula) and `del_cells` / `del_ref`: the member tables
(cells AND references) of every other space are literally unchanged, and the set of spaces, the
base relation and the model-level references are unchanged (`Shape`) – hence the namespace of every
space outside `touched` is unchanged.
-/
namespace MxModel.SM

/-- the space of the edit and the sub spaces that are walked -/
def St.touched (st : St) (p : Path) : List Path := p :: st.subs p

theorem cont_setMem_other (st : St) (a : Attr) (p : Path) (n : String) (m : Member) (a' : Attr) (q : Path)
    (h : q ≠ p) : (st.setMem a p n m).cont a' q = st.cont a' q := by
  rw [cont_setMem]; simp [h]

theorem cont_delMem_other (st : St) (a : Attr) (p : Path) (n : String) (a' : Attr) (q : Path)
    (h : q ≠ p) : (st.delMem a p n).cont a' q = st.cont a' q := by
  rw [cont_delMem]; simp [h]

theorem cont_foldl_other (f : St → Path → St)
    (hf : ∀ s q' a' q, q ≠ q' → (f s q').cont a' q = s.cont a' q) :
    ∀ (L : List Path) (s : St) (a' : Attr) (q : Path), q ∉ L → (L.foldl f s).cont a' q = s.cont a' q := by
  intro L
  induction L with
  | nil => intro s a' q _; rfl
  | cons x L ih =>
    intro s a' q hq
    simp only [List.foldl_cons]
    simp only [List.mem_cons, not_or] at hq
    rw [ih (f s x) a' q hq.2, hf s x a' q hq.1]

theorem shape_foldl (f : St → Path → St) (hf : ∀ s q', Shape s (f s q')) :
    ∀ (L : List Path) (s : St), Shape s (L.foldl f s) := by
  intro L
  induction L with
  | nil => intro s; exact Shape.refl s
  | cons x L ih => intro s; exact (hf s x).trans (ih (f s x))

theorem cont_newMemberSub_other (st : St) (a : Attr) (p : Path) (name : String) (v : Nat) (q' : Path)
    (a' : Attr) (q : Path) (h : q ≠ q') : (st.newMemberSub a p name v q').cont a' q = st.cont a' q := by
  unfold St.newMemberSub
  repeat' split
  all_goals first | rfl | exact cont_setMem_other _ _ _ _ _ _ _ h

theorem shape_newMemberSub (st : St) (a : Attr) (p : Path) (name : String) (v : Nat) (q' : Path) :
    Shape st (st.newMemberSub a p name v q') := by
  unfold St.newMemberSub
  repeat' split
  all_goals first | exact Shape.refl _ | exact shape_setMem _ _ _ _ _

theorem cont_changeMemberSub_other (st : St) (a : Attr) (p : Path) (name : String) (v : Nat) (q' : Path)
    (a' : Attr) (q : Path) (h : q ≠ q') : (st.changeMemberSub a p name v q').cont a' q = st.cont a' q := by
  unfold St.changeMemberSub
  repeat' split
  all_goals first | rfl | exact cont_setMem_other _ _ _ _ _ _ _ h

theorem shape_changeMemberSub (st : St) (a : Attr) (p : Path) (name : String) (v : Nat) (q' : Path) :
    Shape st (st.changeMemberSub a p name v q') := by
  unfold St.changeMemberSub
  repeat' split
  all_goals first | exact Shape.refl _ | exact shape_setMem _ _ _ _ _

theorem cont_updateDerived_other (st : St) (q' : Path) (a' : Attr) (q : Path) (h : q ≠ q') :
    (st.updateDerived q').cont a' q = st.cont a' q := by
  unfold St.updateDerived
  rw [cont_onInherit_other _ _ _ _ _ (fun hh => h hh.1), cont_onInherit_other _ _ _ _ _ (fun hh => h hh.1)]

theorem shape_updateDerived (st : St) (q' : Path) : Shape st (st.updateDerived q') :=
  (shape_onInherit st .cells q').trans (shape_onInherit _ .refs q')

/-- what the three edits keep: the spaces, the base relation, the model-level references, and
every member table outside `touched` -/
structure Frame (st st' : St) (p : Path) : Prop where
  shape : Shape st st'
  cont : ∀ a q, q ∉ st.touched p → st'.cont a q = st.cont a q

/-- **`new_cells`** (also of a name derived into sub spaces) -/
theorem newCells_frame (kw : List String) (st st' : St) (p : Path) (name : String) (v : Nat)
    (h : st.newCells kw p name v = some st') : Frame st st' p := by
  unfold St.newCells at h
  split at h
  · cases h
  · split at h
    · cases h
    · split at h
      · cases h
      · simp only [Option.some.injEq] at h
        subst h
        have hs1 := shape_setMem st .cells p name { derived := false, payload := v }
        refine ⟨hs1.trans (shape_foldl _ (fun s q' => shape_newMemberSub s .cells p name v q') _ _), ?_⟩
        intro a q hq
        simp only [St.touched, List.mem_cons, not_or] at hq
        rw [cont_foldl_other _ (fun s q' a' q hne => cont_newMemberSub_other s .cells p name v q' a' q hne) _ _ a q
          (by rw [hs1.subs]; exact hq.2)]
        exact cont_setMem_other _ _ _ _ _ _ _ hq.1

/-- **`set_cells_property`** (a new formula) -/
theorem setFormula_frame (st st' : St) (p : Path) (name : String) (v : Nat)
    (h : st.setFormula p name v = some st') : Frame st st' p := by
  unfold St.setFormula at h
  split at h
  · cases h
  · simp only [Option.some.injEq] at h
    subst h
    unfold St.changeMember
    have hs1 := shape_setMem st .cells p name { derived := false, payload := v }
    refine ⟨hs1.trans (shape_foldl _ (fun s q' => shape_changeMemberSub s .cells p name v q') _ _), ?_⟩
    intro a q hq
    simp only [St.touched, List.mem_cons, not_or] at hq
    rw [cont_foldl_other _ (fun s q' a' q hne => cont_changeMemberSub_other s .cells p name v q' a' q hne) _ _ a q
      (by rw [hs1.subs]; exact hq.2)]
    exact cont_setMem_other _ _ _ _ _ _ _ hq.1

/-- **`del_cells` / `del_ref`** -/
theorem delMember_frame (st st' : St) (a0 : Attr) (p : Path) (name : String)
    (h : st.delMember a0 p name = some st') : Frame st st' p := by
  unfold St.delMember at h
  split at h
  · cases h
  · split at h
    · cases h
    · simp only [Option.some.injEq] at h
      subst h
      have hs1 := shape_delMem st a0 p name
      unfold St.updateAll
      refine ⟨hs1.trans (shape_foldl _ (fun s q' => shape_updateDerived s q') _ _), ?_⟩
      intro a q hq
      simp only [St.touched, List.mem_cons, not_or] at hq
      rw [cont_foldl_other _ (fun s q' a' q hne => cont_updateDerived_other s q' a' q hne) _ _ a q
        (by rw [hs1.subs]; simp only [List.mem_cons, not_or]; exact hq)]
      exact cont_delMem_other _ _ _ _ _ _ hq.1

/-- in terms of members: a space whose cells (or references) table answers differently for some
name after the edit is `p` or one of the walked sub spaces -/
theorem Frame.changed_mem {st st' : St} {p : Path} (h : Frame st st' p) (a : Attr) (q : Path) (n : String)
    (hne : st'.mem a q n ≠ st.mem a q n) : q ∈ st.touched p := by
  apply Classical.byContradiction
  intro hq
  exact hne (by rw [St.mem_eq, St.mem_eq, h.cont a q hq])

end MxModel.SM
