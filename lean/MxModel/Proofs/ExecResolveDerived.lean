import MxModel.Proofs.ExecResolveSM
import MxModel.Proofs.StructMechInv
/-!
# Derived cells evaluate with names resolved in the sub space

`withStruct` (`Proofs/ExecResolveSM.lean`) takes the NAMESPACES of the source-level definitions from
a structural state; the sources, homes and names of the cells stay those of an arbitrary `SEnv`.
`structEnv` takes them from the structural state as well:

* every cells member `(q, x)` of the state – own or derived – is a cells of its own (`ids.cid q x`)
  whose home is `q` and whose name is `x`;
* its SOURCE is the source of the formula its member entry carries (`srcOf payload`) – for a derived
  cells the payload of its first definer along the linearisation (`SM.Inv`,
  `C03.mech_derived_from_first_definer`): `CellsImpl.on_inherit` shares the definer's `Formula`
  object;
* its formula, as the executor sees it, is that source RESOLVED IN THE NAMESPACE OF `q`
  (`SEnv.toEnv`: `BoundFunction` rebuilds the function over `q.namespace`);
* a reference member `(q, x)` – own or derived – is a reference of its own (`ids.rid q x`) with the
  value its entry carries (`valOf payload`).

`Dec` decodes identities (`cellOf (ids.cid q x) = (q, x)` is a hypothesis of the theorems, needed only
at the members they speak about).
-/
namespace MxModel.SM
open MxModel.Exec

/-- decoding of member identities and the numbering of the spaces -/
structure Dec where
  cellOf : CellId → Path × String
  refOf : RefId → Path × String
  num : Path → Nat
  pathOf : Nat → Path

/-- the source-level definitions of a structural state: namespaces (as `withStruct`), sources, homes,
names of the cells and values of the references all read off the member tables -/
def structEnv (se : SEnv) (ids : Ids) (D : Dec) (srcOf : Nat → Key → SProg) (valOf : Nat → Val) (st : St) : SEnv :=
  { se with
    src := fun n => match st.mem .cells (D.cellOf n.1).1 (D.cellOf n.1).2 with
      | some m => srcOf m.payload n.2
      | none => .raise errDead
    home := fun c => D.num (D.cellOf c).1
    cellName := fun c => (D.cellOf c).2
    nss := fun sp => nsOf ids st (D.pathOf sp)
    refs := fun r => match st.mem .refs (D.refOf r).1 (D.refOf r).2 with
      | some m => some (valOf m.payload)
      | none => se.refs r }

/-- the definitions the executor sees in the structural state `st` -/
abbrev execEnv (se : SEnv) (ids : Ids) (D : Dec) (srcOf : Nat → Key → SProg) (valOf : Nat → Val) (st : St) : Env :=
  (structEnv se ids D srcOf valOf st).toEnv

/-- it is `withStruct` of the definitions with the sources taken from the state -/
theorem structEnv_eq_withStruct (se : SEnv) (ids : Ids) (D : Dec) (srcOf : Nat → Key → SProg)
    (valOf : Nat → Val) (st : St) :
    structEnv se ids D srcOf valOf st =
      withStruct { structEnv se ids D srcOf valOf st with nss := se.nss } ids D.pathOf st := rfl

/-- **the formula of a cells member is the source its entry carries, resolved in the namespace of the
space the member lives in** -/
theorem structEnv_formula (se : SEnv) (ids : Ids) (D : Dec) (srcOf : Nat → Key → SProg) (valOf : Nat → Val)
    (st : St) (q : Path) (n : String) (key : Key) (m : Member)
    (hdec : D.cellOf (ids.cid q n) = (q, n)) (hnum : D.pathOf (D.num q) = q)
    (hm : st.mem .cells q n = some m) :
    (structEnv se ids D srcOf valOf st).toEnv.formula (ids.cid q n, key) =
      resolve (nsOf ids st q) (srcOf m.payload key) := by
  simp only [SEnv.toEnv, structEnv, hdec, hnum, hm]

/-- the value of a reference member -/
theorem structEnv_refs (se : SEnv) (ids : Ids) (D : Dec) (srcOf : Nat → Key → SProg) (valOf : Nat → Val)
    (st : St) (q : Path) (x : String) (m : Member)
    (hdec : D.refOf (ids.rid q x) = (q, x)) (hm : st.mem .refs q x = some m) :
    (structEnv se ids D srcOf valOf st).toEnv.refs (ids.rid q x) = some (valOf m.payload) := by
  simp only [SEnv.toEnv, structEnv, hdec, hm]

/-- a cells member exists (its name is bound to it in its home) -/
theorem structEnv_alive (se : SEnv) (ids : Ids) (D : Dec) (srcOf : Nat → Key → SProg) (valOf : Nat → Val)
    (st : St) (q : Path) (n : String) (m : Member)
    (hdec : D.cellOf (ids.cid q n) = (q, n)) (hnum : D.pathOf (D.num q) = q)
    (hm : st.mem .cells q n = some m) :
    (structEnv se ids D srcOf valOf st).toEnv.alive (ids.cid q n) = true := by
  simp only [SEnv.toEnv, structEnv, hdec, hnum, nsOf, hm, Option.isSome_some, if_true, beq_self_eq_true]

/-! ### what the namespace of `q` binds a name to: `q`'s own member of that name -/

/-- a name of which `q` has a cells – defined in `q` or derived into it – is that cells of `q` -/
theorem nsOf_cells (ids : Ids) (st : St) (q : Path) (x : String) (h : (st.mem .cells q x).isSome = true) :
    nsOf ids st q x = some (.cell (ids.cid q x)) := by
  simp only [nsOf, h, if_true]

/-- a name of which `q` has a reference – defined in `q` or derived into it –, and no cells or child
space, is that reference of `q` -/
theorem nsOf_refs (ids : Ids) (st : St) (q : Path) (x : String) (hc : st.mem .cells q x = none)
    (hch : (st.childNames q).contains x = false) (h : (st.mem .refs q x).isSome = true) :
    nsOf ids st q x = some (.ref (ids.rid q x)) := by
  simp only [nsOf, hc, Option.isSome_none, Bool.false_eq_true, if_false, hch, h, if_true]

/-- **a source that reads the global name `x`** (`SProg.readN`): in the sub space `q`, which has a
reference `x`, the resolved formula reads `q`'s reference -/
theorem resolve_readN_ref (ids : Ids) (st : St) (q : Path) (x : String) (k : Option Val → SProg)
    (onCell onNone : SProg) (hc : st.mem .cells q x = none)
    (hch : (st.childNames q).contains x = false) (h : (st.mem .refs q x).isSome = true) :
    resolve (nsOf ids st q) (SProg.readN x k onCell onNone) =
      .read false (ids.rid q x) (fun o => resolve (nsOf ids st q) (k o)) := by
  simp only [SProg.readN, resolve, nsOf_refs ids st q x hc hch h]

/-- **a source that calls the global name `x`** (`SProg.callN`): in the sub space `q`, which has a cells
`x`, the resolved formula calls `q`'s cells -/
theorem resolve_callN_cell (ids : Ids) (st : St) (q : Path) (x : String) (key : Key) (k : Res → SProg)
    (onRef : Option Val → SProg) (onNone : SProg) (h : (st.mem .cells q x).isSome = true) :
    resolve (nsOf ids st q) (SProg.callN x key k onRef onNone) =
      .call (ids.cid q x, key) (fun r => resolve (nsOf ids st q) (k r)) := by
  simp only [SProg.callN, resolve, nsOf_cells ids st q x h]

end MxModel.SM
