import MxModel.Proofs.ExecEdits
import MxModel.Proofs.Reach
/-!
# Trace certificates over the mechanism state

For every held, computed element the invariant `CInv` asserts the existence of a *trace*: the
ordered record of what its formula saw when it ran – references read (with the value seen, or
`none` for "no such reference"), cached callees with the value they returned, and uncached
callees with the value they returned *and their own trace* (an uncached cells holds nothing, so
its execution is part of its caller's).  The invariant is purely relational over the plain
mechanism state `St` (nothing is stored, nothing consults it):

* **replay** – the formula, fed the recorded answers in order, asks exactly the recorded
  questions and returns the held value (`Replay`);
* **events are current** – every recorded read has that value now; every recorded cached callee
  is held with that value and is *older* in the cache (`rank`, the position counted from the
  oldest entry – the intrinsic height that makes the soundness induction well-founded);
* **the graphs abstract the traces** – the trace graph has an edge from every recorded cached
  callee, at any nesting depth below uncached frames, to the element (the `idx` rule), and an
  edge from the object node of every uncached callee – and NO OTHER edge into the element
  (`Cert.just`); the reference graph has `(r, n)` for every recorded attribute-path read of an
  existing reference, including those made inside uncached callees.
-/
namespace MxModel.Exec

/-! ### traces -/

inductive Tr where
  | nil
  | read (a : Bool) (r : RefId) (x : Option Val) (t : Tr)
  | call (m : Node) (w : Val) (t : Tr)
  /-- uncached callee `m` returned `w`; `sub` is the trace of its own formula -/
  | ucall (m : Node) (w : Val) (sub : Tr) (t : Tr)

/-- flattened events; a read remembers the cells whose formula made it -/
inductive FEv
  | read (c : CellId) (a : Bool) (r : RefId) (x : Option Val)
  | call (m : Node) (w : Val)
  | ucall (m : Node)
deriving DecidableEq

def flat (c : CellId) : Tr → List FEv
  | .nil => []
  | .read a r x t => .read c a r x :: flat c t
  | .call m w t => .call m w :: flat c t
  | .ucall m _ sub t => .ucall m :: (flat m.1 sub ++ flat c t)

/-- nesting depth of uncached frames -/
def nest : Tr → Nat
  | .nil => 0
  | .read _ _ _ t => nest t
  | .call _ _ t => nest t
  | .ucall _ _ sub t => max (nest sub + 1) (nest t)

/-- the behaviour `p`, fed the recorded answers in order, asks exactly the recorded questions
and returns `v` -/
def Replay (env : Env) : Tr → Prog → Val → Prop
  | .nil, p, v => p = .ret v
  | .read a r x t, p, v =>
    match p with
    | .read a' r' k => a' = a ∧ r' = r ∧ Replay env t (k x) v
    | _ => False
  | .call m w t, p, v =>
    match p with
    | .call m' k => m' = m ∧ env.cached m.1 = true ∧ Replay env t (k (.ok w)) v
    | _ => False
  | .ucall m w sub t, p, v =>
    match p with
    | .call m' k => m' = m ∧ env.cached m.1 = false ∧
        Replay env sub (env.formula m) w ∧ Replay env t (k (.ok w)) v
    | _ => False

/-! ### the intrinsic height: position in the cache counted from the oldest entry -/

def rank : List (Node × Val) → Node → Nat
  | [], _ => 0
  | (m, _) :: rest, n => if m = n then rest.length + 1 else rank rest n

theorem rank_le_length (d : List (Node × Val)) (n : Node) : rank d n ≤ d.length := by
  induction d with
  | nil => simp [rank]
  | cons e rest ih =>
    obtain ⟨k, v⟩ := e
    simp only [rank, List.length_cons]
    split <;> omega

theorem rank_pos_of_lookup {d : List (Node × Val)} {n : Node} {v : Val} (h : lookup d n = some v) :
    0 < rank d n := by
  induction d with
  | nil => simp at h
  | cons e rest ih =>
    obtain ⟨k, w⟩ := e
    simp only [lookup_cons] at h
    simp only [rank]
    split
    · omega
    · rename_i hk; simp only [hk, if_false] at h; exact ih h

/-- filtering keeps the relative age of the entries that stay -/
theorem rank_filter_lt (p : Node → Bool) (d : List (Node × Val)) (m n : Node)
    (hm : p m = true) (hn : p n = true) (hmn : m ≠ n) (hpos : 0 < rank d m)
    (h : rank d m < rank d n) :
    rank (d.filter (fun e => p e.1)) m < rank (d.filter (fun e => p e.1)) n ∧
    0 < rank (d.filter (fun e => p e.1)) m := by
  induction d with
  | nil => simp [rank] at hpos
  | cons e rest ih =>
    obtain ⟨k, w⟩ := e
    by_cases hkn : k = n
    · subst hkn
      have hkm : ¬ k = m := fun h => hmn h.symm
      simp only [rank, hkm, if_false, if_true] at h hpos
      simp only [List.filter, hn, rank, hkm, if_false, if_true]
      have hle := rank_le_length (rest.filter (fun e => p e.1)) m
      refine ⟨by omega, ?_⟩
      -- `m` is still there
      clear h hle ih
      induction rest with
      | nil => simp [rank] at hpos
      | cons e2 rest2 ih2 =>
        obtain ⟨k2, w2⟩ := e2
        by_cases h2 : k2 = m
        · subst h2; simp [List.filter, hm, rank]
        · simp only [rank, h2, if_false] at hpos
          by_cases hp2 : p k2 = true
          · simp only [List.filter, hp2, rank, h2, if_false]; exact ih2 hpos
          · have hp2' : p k2 = false := by simpa using hp2
            simp only [List.filter, hp2']; exact ih2 hpos
    · by_cases hkm : k = m
      · subst hkm
        simp only [rank, hkn, if_false, if_true] at h
        have := rank_le_length rest n
        omega
      · simp only [rank, hkn, hkm, if_false] at h hpos
        by_cases hpk : p k = true
        · simp only [List.filter, hpk, rank, hkn, hkm, if_false]; exact ih hpos h
        · have hpk' : p k = false := by simpa using hpk
          simp only [List.filter, hpk']; exact ih hpos h

theorem filter_ne_of_unheld (d : List (Node × Val)) (n : Node) (h : lookup d n = none) :
    d.filter (fun e => e.1 != n) = d := by
  induction d with
  | nil => rfl
  | cons e rest ih =>
    obtain ⟨k, w⟩ := e
    simp only [lookup_cons] at h
    by_cases hk : k = n
    · simp [hk] at h
    · simp only [hk, if_false] at h
      have hb : ((k, w).1 != n) = true := by simp [hk]
      simp only [List.filter, hb, ih h]

/-- storing a value for an element that holds none makes it the youngest entry and leaves the
age of every other entry alone -/
theorem rank_insert_other (d : List (Node × Val)) (n m : Node) (v : Val) (hun : lookup d n = none)
    (hmn : m ≠ n) : rank (insert d n v) m = rank d m := by
  unfold insert
  rw [filter_ne_of_unheld d n hun]
  simp [rank, Ne.symm hmn]

theorem rank_insert_self (d : List (Node × Val)) (n : Node) (v : Val) (hun : lookup d n = none) :
    rank (insert d n v) n = d.length + 1 := by
  unfold insert
  rw [filter_ne_of_unheld d n hun]
  simp [rank]

/-! ### the invariant -/

/-- what must be true *now* of one recorded event of the trace of the held element `n` -/
def EvOK (env : Env) (s : St) (n : Node) : FEv → Prop
  | .read _ a r x => env.refs r = x ∧ (a = true → x.isSome = true → (r, n) ∈ s.rg)
  | .call m w => lookup s.data m = some w ∧ rank s.data m < rank s.data n ∧
      (GNode.elem m, GNode.elem n) ∈ s.ge
  | .ucall m => (GNode.obj m.1, GNode.elem n) ∈ s.ge

/-- the graph source `a` is one of the recorded calls: a cached callee, or the object node of an
uncached callee -/
def JustE (evs : List FEv) (a : GNode) : Prop :=
  (∃ m w, a = .elem m ∧ FEv.call m w ∈ evs) ∨ (∃ m, a = .obj m.1 ∧ FEv.ucall m ∈ evs)

theorem JustE.mono {evs evs' : List FEv} {a : GNode} (h : ∀ ev ∈ evs, ev ∈ evs') (j : JustE evs a) :
    JustE evs' a := by
  rcases j with ⟨m, w, ha, hm⟩ | ⟨m, ha, hm⟩
  · exact Or.inl ⟨m, w, ha, h _ hm⟩
  · exact Or.inr ⟨m, ha, h _ hm⟩

/-- `tr` certifies the value `v` held by `n` -/
structure Cert (env : Env) (s : St) (n : Node) (v : Val) (tr : Tr) : Prop where
  replay : Replay env tr (env.formula n) v
  noneOK : v = .none → env.allowNone n.1 = true
  events : ∀ ev ∈ flat n.1 tr, EvOK env s n ev
  /-- conversely: every edge into `n` stems from a recorded call -/
  just : ∀ a, (a, GNode.elem n) ∈ s.ge → JustE (flat n.1 tr) a

/-- every held computed element has a certificate -/
def CInv (env : Env) (s : St) : Prop :=
  ∀ n v, lookup s.data n = some v → n ∉ s.inputs → ∃ tr, Cert env s n v tr

/-- the user's inputs as the state records them -/
def inpOf (s : St) : Node → Option Val := fun n => if n ∈ s.inputs then lookup s.data n else none

/-! ### hypotheses on programs -/

/-- never returns a value, whatever it is told -/
def Fails : Prog → Prop
  | .ret _ => False
  | .raise _ => True
  | .reraise _ => True
  | .read _ _ k => ∀ x, Fails (k x)
  | .call _ k => ∀ r, Fails (k r)

/-- **NoCatch**: no formula turns a failure into a value – neither the failure of a callee
(known finding C02-caught-failure-untracked) nor the `AttributeError` of an attribute path to
a reference that does not exist (same finding: a handled failure leaves no record). -/
def NoCatch : Prog → Prop
  | .ret _ => True
  | .raise _ => True
  | .reraise _ => True
  | .read a _ k => (a = true → Fails (k none)) ∧ ∀ x, NoCatch (k x)
  | .call _ k => (∀ e, Fails (k (.err e))) ∧ ∀ r, NoCatch (k r)

def NoCatchEnv (env : Env) : Prop := ∀ n, NoCatch (env.formula n)

/-- all by-name reads of a behaviour are of references in `R` -/
def NameReadsIn (R : RefId → Prop) : Prog → Prop
  | .ret _ => True
  | .raise _ => True
  | .reraise _ => True
  | .read a r k => (a = false → R r) ∧ ∀ x, NameReadsIn R (k x)
  | .call _ k => ∀ r, NameReadsIn R (k r)

/-- **static scoping**: a formula reads by global name only references of its own space's
namespace, i.e. references whose change notifies its cells -/
def Scoped (env : Env) : Prop := ∀ n, NameReadsIn (fun r => n.1 ∈ env.observers r) (env.formula n)

theorem fails_not_ok (env : Env) (f : Node → St → Res × St) :
    ∀ (p : Prog), Fails p → ∀ (s : St) (v : Val), (runBody env f p s).1 ≠ .ok v := by
  intro p
  induction p with
  | ret v => intro h; exact absurd h (by simp [Fails])
  | raise e => intro _ s v h; simp [runBody] at h
  | reraise e => intro _ s v h; simp [runBody] at h
  | read a r k ih => intro h s v; simp only [runBody]; exact ih _ (h _) _ v
  | call m k ih => intro h s v; simp only [runBody]; exact ih _ (h _) _ v

end MxModel.Exec
