import MxModel.Proofs.IOSpecStep
/-! The step and run theorems behind Props/C18. -/
namespace MxModel.IOSpec

theorem clean_parts {st : St} {op : Op} (h : clean st op = true) :
    trigCellsName st op = false ∧ trigDoubleSpec st op = false ∧
    trigDirtyDelete st op = false ∧ trigUpdateOnto st op = false := by
  simp only [clean, Bool.and_eq_true, Bool.not_eq_true'] at h
  obtain ⟨⟨⟨a, b⟩, e⟩, f⟩ := h
  exact ⟨a, b, e, f⟩

theorem rinv_empty : RInv ({} : St) := by
  refine ⟨by simp, by simp, ?_, by simp, by simp, by simp, by simp, ⟨by simp [sp], by simp [sp]⟩⟩
  intro m v
  simp [alookup, EntryOK]

theorem rinv_step (kw : List String) {st : St} (h : RInv st) {op : Op} (hc : clean st op = true) :
    RInv (step kw st op) := by
  obtain ⟨k1, k2, k5, k6⟩ := clean_parts hc
  unfold step stepR
  cases op with
  | newModel m =>
    simp only; split
    · exact h
    · exact rinv_frame h rfl rfl rfl (fun τ hτ => hτ) h.sid
  | newSpace m s name =>
    simp only; split
    · exact h
    · split
      · exact h
      · exact rinv_frame h rfl rfl rfl (fun τ hτ => hτ) h.sid
  | newCells o name sc =>
    simp only; split
    · exact h
    · split
      · exact h
      · exact rinv_frame h rfl rfl rfl (fun τ hτ => hτ) h.sid
  | newPandas o name path csv sheet data =>
    simp only; split
    · exact h
    · split
      · exact h
      · exact (newPandas_spec (path := normPath path) h k1 k2).1
  | bind o name v =>
    simp only; split
    · exact h
    · cases hr : (setAttr kw st o name v).2 with
      | ok u => cases u; exact (setAttr_ok_spec h hr).1
      | error e => rw [(setAttr_error hr).1]; exact h
  | del o name =>
    simp only; split
    · exact h
    · exact (delAttr_spec h k5).1
  | update m old new =>
    simp only; split
    · exact h
    · exact (rinv_rmUpdateValue h k6).1
  | setSheet m v sh =>
    simp only; split
    · exact h
    · exact (rinv_setSheet h m v sh).1
  | setPath m v p =>
    simp only; split
    · exact h
    · exact (rinv_setPath h m v (normPath p)).1
  | delSpec m v =>
    simp only; split
    · exact h
    · exact rinv_delSpecOf h m v
  | close m =>
    simp only; split
    · exact h
    · split
      · exact h
      · exact rinv_closeModel h m

theorem rinv_run (kw : List String) : ∀ (ops : List Op) (st : St), RInv st → AllClean kw st ops →
    RInv (run kw st ops) := by
  intro ops
  induction ops with
  | nil => intro st h _; exact h
  | cons op rest ih =>
    intro st h hc
    exact ih _ (rinv_step kw h hc.1) hc.2

/-! ### a spec dies only with the last reference to its value -/

/-- operations that are meant to remove specs -/
def removesSpecs : Op → Bool
  | .delSpec _ _ => true
  | .close _ => true
  | _ => false

theorem spec_survives_step (kw : List String) {st : St} (h : RInv st) {op : Op}
    (k1 : trigCellsName st op = false) (k2 : trigDoubleSpec st op = false)
    (k5 : trigDirtyDelete st op = false)
    (k6 : trigUpdateOnto st op = false) (hop : removesSpecs op = false) :
    ∀ σ ∈ st.specs, (∀ τ ∈ (step kw st op).specs, τ.sid ≠ σ.sid) →
      ∀ r ∈ (step kw st op).refs, ¬ (r.owner.model = σ.group ∧ r.val = σ.val) := by
  intro σ hσ hgone
  have hnot : σ ∉ (step kw st op).specs := fun hin => hgone σ hin rfl
  have same : (step kw st op).specs = st.specs → False := fun e => hnot (e ▸ hσ)
  unfold step stepR at hgone hnot same ⊢
  cases op with
  | newModel m =>
    simp only at same; split at same <;> exact (same rfl).elim
  | newSpace m s name =>
    simp only at same; split at same
    · exact (same rfl).elim
    · split at same <;> exact (same rfl).elim
  | newCells o name sc =>
    simp only at same; split at same
    · exact (same rfl).elim
    · split at same <;> exact (same rfl).elim
  | newPandas o name path csv sheet data =>
    simp only at hnot ⊢
    split
    · rename_i hd; simp only [hd, if_true] at hnot; exact absurd hσ hnot
    · rename_i hd
      simp only [hd] at hnot
      split
      · rename_i hc; simp only [hc, if_true] at hnot; exact absurd hσ hnot
      · rename_i hc
        simp only [hc] at hnot
        exact (newPandas_spec (kw := kw) (path := normPath path) h k1 k2).2 σ hσ hnot
  | bind o name v =>
    simp only at hnot ⊢
    split
    · rename_i hd; simp only [hd, if_true] at hnot; exact absurd hσ hnot
    · rename_i hd
      simp only [hd] at hnot
      cases hr : (setAttr kw st o name v).2 with
      | error e => rw [(setAttr_error hr).1] at hnot; exact absurd hσ hnot
      | ok u =>
        cases u
        exact (setAttr_ok_spec h hr).2.2.2 σ hσ hnot
  | del o name =>
    simp only at hnot ⊢
    split
    · rename_i hd; simp only [hd, if_true] at hnot; exact absurd hσ hnot
    · rename_i hd
      simp only [hd] at hnot
      exact (delAttr_spec h k5).2 σ hσ hnot
  | update m old new =>
    simp only at hgone
    split at hgone
    · exact absurd rfl (hgone σ hσ)
    · obtain ⟨τ, hτ, he⟩ := (rinv_rmUpdateValue h k6).2 σ hσ
      exact absurd he (hgone τ hτ)
  | setSheet m v sh =>
    simp only at hgone
    split at hgone
    · exact absurd rfl (hgone σ hσ)
    · obtain ⟨τ, hτ, he⟩ := (rinv_setSheet h m v sh).2 σ hσ
      exact absurd he (hgone τ hτ)
  | setPath m v p =>
    simp only at hgone
    split at hgone
    · exact absurd rfl (hgone σ hσ)
    · obtain ⟨τ, hτ, he⟩ := (rinv_setPath h m v (normPath p)).2 σ hσ
      exact absurd he (hgone τ hτ)
  | delSpec m v => cases hop
  | close m => cases hop

/-! ### `model.iospecs` lists exactly the registered specs of the model -/

theorem rmSpecsAux_exact {st : St} (h : RInv st) (m : Nat) : ∀ (ents : List ((Nat × Val) × List Ref)),
    (∀ e ∈ ents, e ∈ st.v2r) →
    ∃ L, rmSpecsAux st m ents = .ok L ∧
      ∀ σ, σ ∈ L ↔ (σ ∈ st.specs ∧ σ.group = m ∧ ∃ e ∈ ents, e.1 = (m, σ.val)) := by
  intro ents
  induction ents with
  | nil => intro _; exact ⟨[], rfl, by simp⟩
  | cons e rest ih =>
    intro hsub
    obtain ⟨L, hL, hmem⟩ := ih (fun e' he' => hsub e' (List.mem_cons_of_mem _ he'))
    obtain ⟨k, l⟩ := e
    have hlk : alookup st.v2r k = some l := mem_alookup h.keys (hsub (k, l) List.mem_cons_self)
    have hE := h.entry k.1 k.2
    rw [show (k.1, k.2) = k from rfl, hlk] at hE
    obtain ⟨e1, e2, e3, e4⟩ := hE
    unfold rmSpecsAux
    by_cases hkm : k.1 = m
    · simp only [hkm, if_true]
      cases l with
      | nil => exact absurd rfl e1
      | cons r tl =>
        simp only [hL]
        have hrv : r.val = k.2 := ((e4 r).mp List.mem_cons_self).2.2
        cases hg : getSpecFromValue st m r.val with
        | none =>
          refine ⟨L, rfl, fun σ => ?_⟩
          rw [hmem σ]
          constructor
          · rintro ⟨a, b, e', he', c⟩; exact ⟨a, b, e', List.mem_cons_of_mem _ he', c⟩
          · rintro ⟨a, b, e', he', c⟩
            refine ⟨a, b, ?_⟩
            rw [List.mem_cons] at he'
            rcases he' with rfl | he'
            · simp only at c
              have : σ.val = r.val := by rw [hrv, c]
              exact absurd ⟨b, this⟩ (getSpec_none hg σ a)
            · exact ⟨e', he', c⟩
        | some σ0 =>
          obtain ⟨g1, g2, g3⟩ := getSpec_some hg
          refine ⟨σ0 :: L, rfl, fun σ => ?_⟩
          rw [List.mem_cons, hmem σ]
          constructor
          · rintro (rfl | ⟨a, b, e', he', c⟩)
            · refine ⟨g1, g2, (k, r :: tl), List.mem_cons_self, ?_⟩
              simp only; rw [g3, hrv, ← hkm]
            · exact ⟨a, b, e', List.mem_cons_of_mem _ he', c⟩
          · rintro ⟨a, b, e', he', c⟩
            rw [List.mem_cons] at he'
            rcases he' with rfl | he'
            · left
              simp only at c
              have : σ.val = r.val := by rw [hrv, c]
              exact h.specVal σ a σ0 g1 (b.trans g2.symm) (this.trans g3.symm)
            · exact Or.inr ⟨a, b, e', he', c⟩
    · simp only [hkm, if_false]
      refine ⟨L, hL, fun σ => ?_⟩
      rw [hmem σ]
      constructor
      · rintro ⟨a, b, e', he', c⟩; exact ⟨a, b, e', List.mem_cons_of_mem _ he', c⟩
      · rintro ⟨a, b, e', he', c⟩
        refine ⟨a, b, ?_⟩
        rw [List.mem_cons] at he'
        rcases he' with rfl | he'
        · simp only at c; exact absurd (by rw [c]) hkm
        · exact ⟨e', he', c⟩

/-- `ReferenceManager.specs` (= `model.iospecs`) never fails and is the set of specs registered in
the IOManager for the model -/
theorem rmSpecs_exact {st : St} (h : RInv st) (m : Nat) :
    ∃ L, rmSpecs st m = .ok L ∧ ∀ σ, σ ∈ L ↔ (σ ∈ st.specs ∧ σ.group = m) := by
  obtain ⟨L, hL, hmem⟩ := rmSpecsAux_exact h m st.v2r (fun e he => he)
  refine ⟨L, hL, fun σ => ?_⟩
  rw [hmem σ]
  constructor
  · rintro ⟨a, b, _⟩; exact ⟨a, b⟩
  · rintro ⟨a, b⟩
    refine ⟨a, b, ?_⟩
    obtain ⟨r, hr, hm, hv⟩ := h.specRef σ a id
    have hE := h.entry m σ.val
    cases hlk : alookup st.v2r (m, σ.val) with
    | none =>
      rw [hlk] at hE
      have := hE r hr (hm.trans b) hv
      rw [tracked_of_isPandas (h.specPandas σ a)] at this; cases this
    | some l => exact ⟨((m, σ.val), l), alookup_mem hlk, rfl⟩

/-! ### `close` -/

theorem closeModel_releases {st : St} (h : RInv st) (m : Nat) :
    (closeModel st m).2 = .ok () ∧ (∀ σ ∈ (closeModel st m).1.specs, σ.group ≠ m) ∧
    m ∉ (closeModel st m).1.models := by
  obtain ⟨L, hL, hmem⟩ := rmSpecs_exact h m
  unfold closeModel rmDelAllSpec
  simp only [hL]
  obtain ⟨_, _, _, _, _, f⟩ := foldl_delSpec_fields L.reverse st
  refine ⟨trivial, ?_, by simp⟩
  intro σ hσ hg
  have := (f σ).mp hσ
  exact this.2 σ (List.mem_reverse.mpr ((hmem σ).mpr ⟨this.1, hg⟩)) rfl

/-! ### a rejected creation leaves nothing behind (needs only fresh spec identities) -/

theorem filter_insertSpec {l : List Spec} {σ : Spec} (hf : ∀ τ ∈ l, τ.sid ≠ σ.sid) :
    (insertSpec l σ).filter (fun τ => τ.sid ≠ σ.sid) = l := by
  induction l with
  | nil => simp [insertSpec]
  | cons c rest ih =>
    have hc : c.sid ≠ σ.sid := hf c List.mem_cons_self
    have hrest : ∀ τ ∈ rest, τ.sid ≠ σ.sid := fun τ hτ => hf τ (List.mem_cons_of_mem _ hτ)
    have hfr : rest.filter (fun τ => τ.sid ≠ σ.sid) = rest :=
      List.filter_eq_self.mpr (fun τ hτ => by simpa using hrest τ hτ)
    have hσ : (decide (σ.sid ≠ σ.sid)) = false := by simp
    have hcd : (decide (c.sid ≠ σ.sid)) = true := by simpa using hc
    simp only [insertSpec]
    split
    · rw [List.filter_cons, hcd, if_pos rfl, List.filter_cons, hσ, hfr]
      simp
    · rw [List.filter_cons, hcd, if_pos rfl, ih hrest]

theorem newPandas_rejected {kw : List String} {st : St} (hs : SidOK (sp st)) {o : Owner} {n path : String}
    {csv : Bool} {sheet : Option String} {data : Val} {e : Rej}
    (he : (newPandas kw st o n path csv sheet data).2 = .error e) :
    (newPandas kw st o n path csv sheet data).1.specs = st.specs ∧
    (newPandas kw st o n path csv sheet data).1.refs = st.refs ∧
    (newPandas kw st o n path csv sheet data).1.v2r = st.v2r ∧
    (newPandas kw st o n path csv sheet data).1.cells = st.cells := by
  unfold newPandas at he ⊢
  rcases newSpec_cases st o.model path csv sheet data with ⟨e', he'⟩ | ⟨hp, hc, he'⟩
  · simp only [he']; exact ⟨trivial, trivial, trivial, trivial⟩
  · simp only [he'] at he ⊢
    cases hres : (setAttr kw (withSpec st (mkSpec st o.model path csv sheet data)) o n data) with
    | mk st2 res =>
      cases res with
      | ok u => cases u; simp only [hres] at he; cases he
      | error e2 =>
        simp only [hres] at he ⊢
        have herr : (setAttr kw (withSpec st (mkSpec st o.model path csv sheet data)) o n data).2 = .error e2 := by
          rw [hres]
        obtain ⟨b1, b2⟩ := setAttr_error herr
        rw [hres] at b1
        have hst2 : st2 = withSpec st (mkSpec st o.model path csv sheet data) := by
          have := congrArg Prod.fst b1; simpa using this
        simp only [b2, if_true]
        subst hst2
        refine ⟨?_, rfl, rfl, rfl⟩
        show (insertSpec st.specs _).filter _ = st.specs
        apply filter_insertSpec
        intro τ hτ
        have := hs.sidLt τ hτ
        simp only [sp, mkSpec] at this ⊢
        omega

/-! ### run-level facts that need no hypothesis -/

theorem sidOK_run (kw : List String) : ∀ (ops : List Op) (st : St), SidOK (sp st) → SidOK (sp (run kw st ops)) := by
  intro ops
  induction ops with
  | nil => intro st h; exact h
  | cons op rest ih =>
    intro st h
    exact ih _ (sidOK_strans (strans_step kw st op) h)

theorem loc_run (kw : List String) : ∀ (ops : List Op) (st : St), SidOK (sp st) → Loc st.specs →
    Loc (run kw st ops).specs := by
  intro ops
  induction ops with
  | nil => intro st _ hl; exact hl
  | cons op rest ih =>
    intro st hs hl
    have t := strans_step kw st op
    exact ih _ (sidOK_strans t hs) (loc_strans t hs hl)

end MxModel.IOSpec
