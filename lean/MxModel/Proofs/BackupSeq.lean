import MxModel.Proofs.Backup
/-! Sequences of saves with faults (C14): where the most recent complete copy is. -/
namespace MxModel.Backup

/-- there is a complete copy at the path or at the first backup – or nowhere at all -/
def Front (fs : FS) : Prop :=
  (fs 0).isGood = true ∨ (fs 1).isGood = true ∨ ∀ j, (fs j).isGood = false

/-- for every complete copy there is one at least as recent at the path or the first backup:
"the most recent completely written copy is at the path or at its first backup" -/
def LatestAtFront (fs : FS) : Prop :=
  ∀ j c g, fs j = .good c g → ∃ i, i ≤ 1 ∧ ∃ c' g', fs i = .good c' g' ∧ g ≤ g'

theorem isGood_iff (s : Slot) : s.isGood = true ↔ ∃ c g, s = .good c g := by
  cases s <;> simp [Slot.isGood]

theorem front_of_latest {fs : FS} (h : LatestAtFront fs) : Front fs := by
  by_cases hex : ∃ j, (fs j).isGood = true
  · obtain ⟨j, hj⟩ := hex
    obtain ⟨c, g, hg⟩ := (isGood_iff _).mp hj
    obtain ⟨i, hi, c', g', hi', _⟩ := h j c g hg
    have : i = 0 ∨ i = 1 := by omega
    rcases this with rfl | rfl
    · left; rw [hi']; rfl
    · right; left; rw [hi']; rfl
  · right; right
    intro j
    cases hj : (fs j).isGood with
    | true => exact absurd ⟨j, hj⟩ hex
    | false => rfl

theorem latest_of_front {fs : FS} (hf : Front fs) (ho : Ordered fs) : LatestAtFront fs := by
  intro j c g hj
  rcases hf with h0 | h1 | hn
  · obtain ⟨c', g', h0'⟩ := (isGood_iff _).mp h0
    refine ⟨0, by omega, c', g', h0', ?_⟩
    by_cases hj0 : j = 0
    · subst hj0; rw [hj] at h0'; cases h0'; exact Nat.le_refl _
    · have := ho 0 j g' g (by omega) (by rw [h0']; rfl) (by rw [hj]; rfl)
      omega
  · obtain ⟨c', g', h1'⟩ := (isGood_iff _).mp h1
    by_cases hj0 : j = 0
    · subst hj0
      exact ⟨0, by omega, c, g, hj, Nat.le_refl _⟩
    · refine ⟨1, by omega, c', g', h1', ?_⟩
      by_cases hj1 : j = 1
      · subst hj1; rw [hj] at h1'; cases h1'; exact Nat.le_refl _
      · have := ho 1 j g' g (by omega) (by rw [h1']; rfl) (by rw [hj]; rfl)
        omega
  · have := hn j; rw [hj] at this; cases this

theorem rot_nil_of_absent (fs : FS) (nrm f n : Nat) (h : fs n = .absent) :
    rot fs nrm f n = [] := by
  cases f <;> simp [rot, h]

/-- one save, interrupted anywhere, from a state whose path is not partial -/
theorem save_front (maxB : Nat) (h1 : 1 ≤ maxB) (sv : Save) (k : Nat) (fs : FS)
    (hf : Front fs) (hp : (fs 0).isPart = false) : Front (save maxB sv k fs).1 := by
  cases h0 : fs 0 with
  | good c g =>
    rcases save_moves_one maxB sv k fs 0 (.good c g) (by intro h; cases h) (by omega) h0 with h | h
    · left; rw [h]; rfl
    · right; left; rw [h]; rfl
  | part c g => rw [h0] at hp; cases hp
  | absent =>
    have hother : ∀ j, j ≠ 0 → (save maxB sv k fs).1 j = fs j :=
      fun j hj => save_other_of_absent maxB sv k fs h0 j hj
    rcases hf with hf0 | hf1 | hfn
    · rw [h0] at hf0; cases hf0
    · right; left; rw [hother 1 (by omega)]; exact hf1
    · cases hg : ((save maxB sv k fs).1 0).isGood with
      | true => left; exact hg
      | false =>
        right; right
        intro j
        by_cases hj : j = 0
        · subst hj; exact hg
        · rw [hother j hj]; exact hfn j

/-- every save of the sequence starts from a state whose path is not partial -/
def startsWhole (maxB : Nat) (fs : FS) : List (Save × Nat) → Bool
  | [] => true
  | (sv, k) :: rest => !(fs 0).isPart && startsWhole maxB (save maxB sv k fs).1 rest

theorem runHist_front (maxB : Nat) (h1 : 1 ≤ maxB) : ∀ (h : List (Save × Nat)) (fs : FS),
    Front fs → startsWhole maxB fs h = true → Front (runHist maxB fs h) := by
  intro h
  induction h with
  | nil => intro fs hf _; exact hf
  | cons e rest ih =>
    intro fs hf hs
    obtain ⟨sv, k⟩ := e
    simp only [startsWhole, Bool.and_eq_true, Bool.not_eq_true'] at hs
    exact ih _ (save_front maxB h1 sv k fs hf hs.1) hs.2

/-- generation numbers of successive saves grow -/
def GensIncrease : Nat → List (Save × Nat) → Prop
  | _, [] => True
  | g0, (sv, _) :: rest => g0 ≤ sv.g ∧ GensIncrease (sv.g + 1) rest

theorem below_mono {g g' : Nat} {fs : FS} (h : Below g fs) (hg : g ≤ g') : Below g' fs :=
  fun i a ha => Nat.lt_of_lt_of_le (h i a ha) hg

theorem runHist_ordered (maxB : Nat) : ∀ (h : List (Save × Nat)) (g0 : Nat) (fs : FS),
    Ordered fs → Below g0 fs → GensIncrease g0 h → Ordered (runHist maxB fs h) := by
  intro h
  induction h with
  | nil => intro g0 fs ho _ _; exact ho
  | cons e rest ih =>
    intro g0 fs ho hb hg
    obtain ⟨sv, k⟩ := e
    have := save_ordered maxB sv k fs ho (below_mono hb hg.1)
    exact ih (sv.g + 1) _ this.1 this.2 hg.2

/-- no save of the sequence has its `OSError` swallowed by a truncating retry of `zipfile` -/
def noTruncation (maxB : Nat) (fs : FS) : List (Save × Nat) → Bool
  | [] => true
  | (sv, k) :: rest =>
    decide (faultKind sv.pol (plan maxB sv fs) k ≠ .truncates) && noTruncation maxB (save maxB sv k fs).1 rest

theorem runHist_noPartialZip (maxB : Nat) : ∀ (h : List (Save × Nat)) (fs : FS),
    NoPartialZip fs → noTruncation maxB fs h = true → NoPartialZip (runHist maxB fs h) := by
  intro h
  induction h with
  | nil => intro fs hf _; exact hf
  | cons e rest ih =>
    intro fs hf hn
    obtain ⟨sv, k⟩ := e
    simp only [noTruncation, Bool.and_eq_true, decide_eq_true_eq] at hn
    exact ih _ (save_noPartialZip maxB sv k fs hn.1 hf) hn.2

/-- a copy sinks by at most one slot per save -/
theorem runHist_copy_survives (maxB : Nat) (s : Slot) (hs : s ≠ .absent) :
    ∀ (h : List (Save × Nat)) (fs : FS) (i : Nat), fs i = s → i + h.length ≤ maxB →
      ∃ j, i ≤ j ∧ j ≤ i + h.length ∧ (runHist maxB fs h) j = s := by
  intro h
  induction h with
  | nil => intro fs i hi _; exact ⟨i, Nat.le_refl _, by simp, hi⟩
  | cons e rest ih =>
    intro fs i hi hlen
    obtain ⟨sv, k⟩ := e
    simp only [List.length_cons] at hlen
    rcases save_moves_one maxB sv k fs i s hs (by omega) hi with h' | h'
    · obtain ⟨j, h1, h2, h3⟩ := ih _ i h' (by omega)
      exact ⟨j, h1, by simp only [List.length_cons]; omega, h3⟩
    · obtain ⟨j, h1, h2, h3⟩ := ih _ (i + 1) h' (by omega)
      exact ⟨j, by omega, by simp only [List.length_cons]; omega, h3⟩

end MxModel.Backup
