import MxModel.Proofs.StructMechInv
/-!
# The truly incremental walks: `changeMemberSub` / `newMemberSub` over the sub spaces

After `p` got a (new) definition of `name` every space is *good unless its first definer of `name`
is `p`* (`GoodUnless`): if the first definer after the change is not `p`, it was the first definer
before the change.  One step of the walk repairs one sub space; the walk visits every space that
has `p` in its linearisation, so every space is good afterwards.
-/
namespace MxModel.SM
open MxModel.C3

def KeysOK (st : St) : Prop := ∀ a q, (keys (st.cont a q)).Nodup

theorem WF.of_shape {st st' : St} (h : WF st) (hs : Shape st st') (hk : KeysOK st') : WF st' where
  nodup := by rw [hs.ids]; exact h.nodup
  bases := by intro q b hb; rw [hs.basesOf] at hb; rw [hs.ids]; exact h.bases q b hb
  mro := by intro q hq; rw [hs.ids] at hq; rw [hs.mro]; exact h.mro q hq
  keys := hk
  tree := by intro q hq; rw [hs.ids] at hq ⊢; exact h.tree q hq

/-- good, or the first definer is `p` -/
def GoodUnless (st : St) (a : Attr) (q : Path) (n : String) (p : Path) : Prop :=
  (∃ w, st.firstDef a (st.tail q) n = some (p, w)) ∨ Good1 st a q n

theorem GoodUnless.congr {st st' : St} {a : Attr} {q : Path} {n : String} {p : Path}
    (h : GoodUnless st a q n p) (hm : st'.mem a q n = st.mem a q n) (hs : Shape st st')
    (hd : SameDefs st st') : GoodUnless st' a q n p := by
  rcases h with ⟨w, hw⟩ | h
  · left
    exact ⟨w, by rw [hs.tail, hd.firstDef]; exact hw⟩
  · right
    exact h.congr hm (hs.tail q) (fun b _ => hd a b n)

/-! ## defining `name` in `p` -/

theorem keysOK_setMem (st : St) (hk : KeysOK st) (a : Attr) (p : Path) (n : String) (m : Member) :
    KeysOK (st.setMem a p n m) := by
  intro a' q
  rw [cont_setMem]
  split
  · exact nodup_mset _ _ _ (hk a p)
  · exact hk a' q

theorem keysOK_delMem (st : St) (hk : KeysOK st) (a : Attr) (p : Path) (n : String) :
    KeysOK (st.delMem a p n) := by
  intro a' q
  rw [cont_delMem]
  split
  · exact nodup_mdel _ _ (hk a p)
  · exact hk a' q

theorem defd_setMem (st : St) (a : Attr) (p : Path) (n : String) (m : Member) (hp : p ∈ st.ids)
    (a' : Attr) (q : Path) (n' : String) :
    (st.setMem a p n m).defd a' q n' =
      if q = p ∧ a' = a ∧ n' = n then (if m.derived then none else some m.payload) else st.defd a' q n' := by
  unfold St.defd
  rw [mem_setMem st a p n m hp]
  by_cases h : q = p ∧ a' = a ∧ n' = n
  · simp only [h, and_self, if_true]
  · simp only [h, if_false]

/-- replacing a derived (or absent) member by a derived one changes no definition -/
theorem sameDefs_setMem_derived (st : St) (a : Attr) (q : Path) (n : String) (v : Nat) (hq : q ∈ st.ids)
    (h : st.defd a q n = none) : SameDefs st (st.setMem a q n { derived := true, payload := v }) := by
  intro a' q' n'
  rw [defd_setMem st a q n _ hq]
  split
  · rename_i hc
    obtain ⟨rfl, rfl, rfl⟩ := hc
    simp [h]
  · rfl

/-- the state right after `p` got the definition `v` of `name` -/
theorem goodUnless_after_define (st : St) (hwf : WF st) (hg : ∀ a q n, Good1 st a q n)
    (a : Attr) (p : Path) (name : String) (v : Nat) (hp : p ∈ st.ids) :
    let st1 := st.setMem a p name { derived := false, payload := v }
    Shape st st1 ∧ KeysOK st1 ∧ st1.defd a p name = some v ∧
    (∀ a' q n', ¬ (a' = a ∧ n' = name) → Good1 st1 a' q n') ∧
    (∀ q, GoodUnless st1 a q name p) := by
  intro st1
  have hs : Shape st st1 := shape_setMem st a p name _
  have hd : ∀ a' q n', ¬ (q = p ∧ a' = a ∧ n' = name) → st1.defd a' q n' = st.defd a' q n' := by
    intro a' q n' h
    rw [defd_setMem st a p name _ hp]
    simp [h]
  have hm : ∀ a' q n', ¬ (q = p ∧ a' = a ∧ n' = name) → st1.mem a' q n' = st.mem a' q n' := by
    intro a' q n' h
    rw [mem_setMem st a p name _ hp]
    simp [h]
  have hdp : st1.defd a p name = some v := by
    rw [defd_setMem st a p name _ hp]; simp
  refine ⟨hs, keysOK_setMem st hwf.keys a p name _, hdp, ?_, ?_⟩
  · intro a' q n' h
    exact (hg a' q n').congr (hm a' q n' (fun h' => h ⟨h'.2.1, h'.2.2⟩)) (hs.tail q)
      (fun b _ => hd a' b n' (fun h' => h ⟨h'.2.1, h'.2.2⟩))
  · intro q
    by_cases hqp : q = p
    · subst hqp
      right
      unfold Good1
      rw [mem_setMem st a q name _ hp]
      simp
    · -- the first definer after the change
      cases hf : st1.firstDef a (st1.tail q) name with
      | none =>
        right
        have hnone := (firstDef_eq_none st1 a _ name).mp hf
        have hf0 : st.firstDef a (st.tail q) name = none := by
          rw [firstDef_eq_none]
          intro b hb
          have hb1 : b ∈ st1.tail q := by rw [hs.tail]; exact hb
          have hbp : b ≠ p := by
            intro e; subst e
            have := hnone b hb1
            rw [hdp] at this; cases this
          rw [← hd a b name (fun h' => hbp h'.1)]
          exact hnone b hb1
        have := hg a q name
        unfold Good1 at this ⊢
        rw [hm a q name (fun h' => hqp h'.1), hf]
        rw [hf0] at this
        cases hmm : st.mem a q name with
        | none => rfl
        | some m =>
          rw [hmm] at this
          intro hdv
          obtain ⟨b, hb⟩ := this hdv
          cases hb
      | some d =>
        obtain ⟨b, w⟩ := d
        by_cases hbp : b = p
        · subst hbp; exact Or.inl ⟨w, hf⟩
        · right
          have hf0 : st.firstDef a (st1.tail q) name = some (b, w) :=
            firstDef_other st st1 a p name (fun b' hb' => hd a b' name (fun h' => hb' h'.1))
              (by rw [hdp]; rfl) _ b w hf hbp
          have := hg a q name
          unfold Good1 at this ⊢
          rw [hm a q name (fun h' => hqp h'.1), hf]
          rw [← hs.tail, hf0] at this
          exact this

/-! ## one step of the walk -/

/-- what one step at sub space `q` does -/
structure SubStep (a : Attr) (name : String) (s s' : St) (q : Path) : Prop where
  shape : Shape s s'
  defs : SameDefs s s'
  keys : KeysOK s'
  other : ∀ a' q' n', ¬ (a' = a ∧ q' = q ∧ n' = name) → s'.mem a' q' n' = s.mem a' q' n'
  good : Good1 s' a q name
  mono : (s.mem a q name).isSome = true → (s'.mem a q name).isSome = true
  /-- a derived member stays derived, a defined one defined, an absent one absent or derived -/
  kind : ∀ m', s'.mem a q name = some m' →
    (s.mem a q name = none ∧ m'.derived = true) ∨ (∃ m, s.mem a q name = some m ∧ m.derived = m'.derived)

theorem SubStep.refl_of_good (a : Attr) (name : String) (s : St) (q : Path) (hk : KeysOK s)
    (hg : Good1 s a q name) : SubStep a name s s q :=
  ⟨Shape.refl s, fun _ _ _ => rfl, hk, fun _ _ _ _ => rfl, hg, id,
    fun m' hm' => Or.inr ⟨m', hm', rfl⟩⟩

/-- setting the derived member of `q` to the payload of its first definer `p` -/
theorem subStep_set (a : Attr) (name : String) (s : St) (q p : Path) (v : Nat) (hk : KeysOK s)
    (hq : q ∈ s.ids) (hnd : s.defd a q name = none)
    (hkind : s.mem a q name = none ∨ ∃ m, s.mem a q name = some m ∧ m.derived = true)
    (hf : s.firstDef a (s.tail q) name = some (p, v)) :
    SubStep a name s (s.setMem a q name { derived := true, payload := v }) q := by
  have hs := shape_setMem s a q name { derived := true, payload := v }
  have hd := sameDefs_setMem_derived s a q name v hq hnd
  refine ⟨hs, hd, keysOK_setMem s hk a q name _, ?_, ?_, ?_, ?_⟩
  · intro a' q' n' h
    rw [mem_setMem s a q name _ hq]
    have : ¬ (q' = q ∧ a' = a ∧ n' = name) := fun h' => h ⟨h'.2.1, h'.1, h'.2.2⟩
    simp [this]
  · unfold Good1
    rw [mem_setMem s a q name _ hq, hs.tail, hd.firstDef, hf]
    simp
  · intro _
    rw [mem_setMem s a q name _ hq]; simp
  · intro m' hm'
    rw [mem_setMem s a q name _ hq] at hm'
    simp only [and_self, if_true, Option.some.injEq] at hm'
    subst hm'
    rcases hkind with h | ⟨m, h1, h2⟩
    · exact Or.inl ⟨h, rfl⟩
    · exact Or.inr ⟨m, h1, h2⟩

theorem firstDef_p_payload (s : St) (a : Attr) (l : List Path) (name : String) (p : Path) (v w : Nat)
    (hdp : s.defd a p name = some v) (hf : s.firstDef a l name = some (p, w)) : w = v := by
  have := (firstDef_some s a l name p w hf).2
  rw [hdp] at this
  exact (Option.some.inj this).symm

theorem defd_none_of_derived (s : St) (a : Attr) (q : Path) (name : String) (m : Member)
    (hm : s.mem a q name = some m) (hd : m.derived = true) : s.defd a q name = none := by
  unfold St.defd; rw [hm]; simp [hd]

theorem defd_none_of_none (s : St) (a : Attr) (q : Path) (name : String)
    (hm : s.mem a q name = none) : s.defd a q name = none := by
  unfold St.defd; rw [hm]

/-- `set_cells_property` / `change_ref` at one sub space -/
theorem subStep_change (a : Attr) (p : Path) (name : String) (v : Nat) (s : St) (q : Path)
    (hk : KeysOK s) (hq : q ∈ s.ids) (hdp : s.defd a p name = some v)
    (hgu : GoodUnless s a q name p) (hsome : (s.mem a q name).isSome = true) :
    SubStep a name s (s.changeMemberSub a p name v q) q := by
  unfold St.changeMemberSub
  cases hm : s.mem a q name with
  | none => rw [hm] at hsome; cases hsome
  | some m =>
    simp only
    cases hd : m.derived with
    | false =>
      simp only [Bool.not_false, if_true]
      refine SubStep.refl_of_good a name s q hk ?_
      unfold Good1; rw [hm]; intro h; rw [hd] at h; cases h
    | true =>
      simp only [Bool.not_true, Bool.false_eq_true, if_false]
      cases hf : s.firstDef a (s.tail q) name with
      | none =>
        simp only
        refine SubStep.refl_of_good a name s q hk ?_
        rcases hgu with ⟨w, hw⟩ | hg
        · rw [hf] at hw; cases hw
        · exact hg
      | some d =>
        obtain ⟨b, w⟩ := d
        simp only
        by_cases hbp : b = p
        · subst hbp
          simp only [beq_self_eq_true, if_true]
          have hw := firstDef_p_payload s a _ name b v w hdp hf
          subst hw
          exact subStep_set a name s q b w hk hq (defd_none_of_derived s a q name m hm hd)
            (Or.inr ⟨m, hm, hd⟩) hf
        · have : (b == p) = false := by simpa using hbp
          simp only [this, Bool.false_eq_true, if_false]
          refine SubStep.refl_of_good a name s q hk ?_
          rcases hgu with ⟨w', hw⟩ | hg
          · rw [hf] at hw
            simp only [Option.some.injEq, Prod.mk.injEq] at hw
            exact absurd hw.1 hbp
          · exact hg

/-- `new_cells` / `new_ref` at one sub space -/
theorem subStep_new (a : Attr) (p : Path) (name : String) (v : Nat) (s : St) (q : Path)
    (hk : KeysOK s) (hq : q ∈ s.ids) (hdp : s.defd a p name = some v)
    (hgu : GoodUnless s a q name p) (hpt : p ∈ s.tail q) :
    SubStep a name s (s.newMemberSub a p name v q) q := by
  unfold St.newMemberSub
  cases hm : s.mem a q name with
  | none =>
    simp only
    have hsome : ∃ d, s.firstDef a (s.tail q) name = some d :=
      firstDef_isSome_of s a _ name p hpt (by rw [hdp]; rfl)
    rcases hgu with ⟨w, hw⟩ | hg
    · have hwv := firstDef_p_payload s a _ name p v w hdp hw
      subst hwv
      exact subStep_set a name s q p w hk hq (defd_none_of_none s a q name hm) (Or.inl hm) hw
    · unfold Good1 at hg
      rw [hm] at hg
      obtain ⟨d, hd⟩ := hsome
      rw [hg] at hd; cases hd
  | some m =>
    simp only
    cases hd : m.derived with
    | false =>
      simp only [Bool.false_eq_true, if_false]
      refine SubStep.refl_of_good a name s q hk ?_
      unfold Good1; rw [hm]; intro h; rw [hd] at h; cases h
    | true =>
      simp only [if_true]
      cases hf : s.firstDef a (s.tail q) name with
      | none =>
        simp only
        refine SubStep.refl_of_good a name s q hk ?_
        rcases hgu with ⟨w, hw⟩ | hg
        · rw [hf] at hw; cases hw
        · exact hg
      | some d =>
        obtain ⟨b, w⟩ := d
        simp only
        by_cases hbp : b = p
        · subst hbp
          simp only [beq_self_eq_true, if_true]
          exact subStep_set a name s q b w hk hq (defd_none_of_derived s a q name m hm hd)
            (Or.inr ⟨m, hm, hd⟩) hf
        · have : (b == p) = false := by simpa using hbp
          simp only [this, Bool.false_eq_true, if_false]
          refine SubStep.refl_of_good a name s q hk ?_
          rcases hgu with ⟨w', hw⟩ | hg
          · rw [hf] at hw
            simp only [Option.some.injEq, Prod.mk.injEq] at hw
            exact absurd hw.1 hbp
          · exact hg

/-! ## the whole walk -/

/-- the state of a walk over `L` relative to its start -/
structure Walked (a : Attr) (p : Path) (name : String) (s0 s : St) (L : List Path) : Prop where
  shape : Shape s0 s
  defs : SameDefs s0 s
  keys : KeysOK s
  other : ∀ a' q' n', ¬ (a' = a ∧ q' ∈ L ∧ n' = name) → s.mem a' q' n' = s0.mem a' q' n'
  good : ∀ q ∈ L, Good1 s a q name
  gu : ∀ q, GoodUnless s a q name p
  mono : ∀ q, (s0.mem a q name).isSome = true → (s.mem a q name).isSome = true
  kind : ∀ q m', s.mem a q name = some m' →
    (s0.mem a q name = none ∧ m'.derived = true ∧ q ∈ L) ∨ (∃ m, s0.mem a q name = some m ∧ m.derived = m'.derived)

theorem walked_nil (a : Attr) (p : Path) (name : String) (s0 : St) (hk : KeysOK s0)
    (hgu : ∀ q, GoodUnless s0 a q name p) : Walked a p name s0 s0 [] :=
  ⟨Shape.refl s0, fun _ _ _ => rfl, hk, fun _ _ _ _ => rfl, (fun _ h => nomatch h), hgu, (fun _ h => h),
    fun _ m' hm' => Or.inr ⟨m', hm', rfl⟩⟩

theorem walked_snoc {a : Attr} {p : Path} {name : String} {s0 s s' : St} {L : List Path} {q : Path}
    (h : Walked a p name s0 s L) (hst : SubStep a name s s' q) : Walked a p name s0 s' (L ++ [q]) := by
  refine ⟨h.shape.trans hst.shape, fun a' q' n' => (hst.defs a' q' n').trans (h.defs a' q' n'), hst.keys,
    ?_, ?_, ?_, ?_, ?_⟩
  · intro a' q' n' hn
    rw [hst.other a' q' n' (fun h' => hn ⟨h'.1, by simp [h'.2.1], h'.2.2⟩)]
    exact h.other a' q' n' (fun h' => hn ⟨h'.1, by simp [h'.2.1], h'.2.2⟩)
  · intro q' hq'
    by_cases hqq : q' = q
    · subst hqq; exact hst.good
    · simp only [List.mem_append, List.mem_singleton, hqq, or_false] at hq'
      exact (h.good q' hq').congr (hst.other a q' name (fun h' => hqq h'.2.1)) (hst.shape.tail q')
        (fun b _ => hst.defs a b name)
  · intro q'
    by_cases hqq : q' = q
    · subst hqq; exact Or.inr hst.good
    · exact (h.gu q').congr (hst.other a q' name (fun h' => hqq h'.2.1)) hst.shape hst.defs
  · intro q' hq'
    have := h.mono q' hq'
    by_cases hqq : q' = q
    · subst hqq; exact hst.mono this
    · rw [hst.other a q' name (fun h' => hqq h'.2.1)]; exact this
  · intro q' m' hm'
    by_cases hqq : q' = q
    · subst hqq
      rcases hst.kind m' hm' with ⟨h1, h2⟩ | ⟨m, h1, h2⟩
      · cases h0 : s0.mem a q' name with
        | none => exact Or.inl ⟨rfl, h2, by simp⟩
        | some m0 =>
          have := h.mono q' (by rw [h0]; rfl)
          rw [h1] at this; cases this
      · rcases h.kind q' m h1 with ⟨h3, h4, h5⟩ | ⟨m0, h3, h4⟩
        · exact Or.inl ⟨h3, by rw [← h2]; exact h4, by simp [h5]⟩
        · exact Or.inr ⟨m0, h3, h4.trans h2⟩
    · rw [hst.other a q' name (fun h' => hqq h'.2.1)] at hm'
      rcases h.kind q' m' hm' with ⟨h3, h4, h5⟩ | h3
      · exact Or.inl ⟨h3, h4, by simp [h5]⟩
      · exact Or.inr h3

/-- a walk whose every step satisfies `SubStep` (given what the walk maintains) -/
theorem walked_foldl (a : Attr) (p : Path) (name : String) (v : Nat) (f : St → Path → St)
    (C : St → Path → Prop)
    (hC : ∀ s s' q q', SubStep a name s s' q' → C s q → C s' q)
    (hstep : ∀ s q, KeysOK s → s.defd a p name = some v → GoodUnless s a q name p → C s q →
      SubStep a name s (f s q) q)
    (s0 : St) (hdp : s0.defd a p name = some v) :
    ∀ (L L0 : List Path) (s : St), Walked a p name s0 s L0 → (∀ q ∈ L, C s q) →
      Walked a p name s0 (L.foldl f s) (L0 ++ L) := by
  intro L
  induction L with
  | nil => intro L0 s h _; simpa using h
  | cons q L ih =>
    intro L0 s h hc
    simp only [List.foldl_cons]
    have hdp' : s.defd a p name = some v := by rw [h.defs]; exact hdp
    have hst := hstep s q h.keys hdp' (h.gu q) (hc q (by simp))
    have := ih (L0 ++ [q]) (f s q) (walked_snoc h hst)
      (fun q' hq' => hC s _ q' q hst (hc q' (List.mem_cons_of_mem _ hq')))
    simpa using this

/-- after walking all sub spaces of `p` every space is good for `name` -/
theorem walked_all_good {a : Attr} {p : Path} {name : String} {s0 s : St}
    (hwf : WF s0) (h : Walked a p name s0 s (s0.subs p)) (q : Path) :
    Good1 s a q name := by
  by_cases hq : q ∈ s0.subs p
  · exact h.good q hq
  · rcases h.gu q with ⟨w, hw⟩ | hg
    · exfalso
      have hpt : p ∈ s0.tail q := by
        have := (firstDef_some s a _ name p w hw).1
        rw [h.shape.tail] at this; exact this
      by_cases hqi : q ∈ s0.ids
      · by_cases hqp : q = p
        · subst hqp; exact hwf.not_mem_tail_self q hpt
        · exact hq ((mem_subs p q).mpr ⟨hqi, hqp, hpt⟩)
      · rw [St.tail_of_not_mem s0 q hqi] at hpt; cases hpt
    · exact hg

end MxModel.SM
