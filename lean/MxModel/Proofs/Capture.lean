import MxModel.Kernels.Capture
/-! Helper lemmas for `Props/C20.lean` (model: `Kernels/Capture.lean`). -/
namespace MxModel.Capture
set_option linter.unusedSimpArgs false
set_option linter.unnecessarySimpa false

/-! ### blanks and indentation -/

@[simp] theorem blank_nil : blank [] = true := rfl

@[simp] theorem blank_append (a b : Line) : blank (a ++ b) = (blank a && blank b) := by
  simp [blank, List.all_append]

theorem blank_of_startsNonWs {l : Line} (h : startsNonWs l = true) : blank l = false := by
  cases l with
  | nil => simp [startsNonWs] at h
  | cons c cs =>
    simp only [startsNonWs, Bool.not_eq_true'] at h
    simp [blank, List.all_cons, h]

@[simp] theorem normBlank_nil : normBlank [] = [] := by simp [normBlank]

theorem normBlank_of_not_blank {l : Line} (h : blank l = false) : normBlank l = l := by
  simp [normBlank, h]

theorem normBlank_of_blank {l : Line} (h : blank l = true) : normBlank l = [] := by
  simp [normBlank, h]

@[simp] theorem blank_normBlank (l : Line) : blank (normBlank l) = blank l := by
  unfold normBlank; split <;> simp_all

@[simp] theorem normBlank_idem (l : Line) : normBlank (normBlank l) = normBlank l := by
  unfold normBlank; split <;> simp_all

@[simp] theorem indentLine_nil (l : Line) : indentLine [] l = l := by
  simp [indentLine]

@[simp] theorem indAll_nil_pre (t : Text) : indAll [] t = t := by
  induction t with
  | nil => rfl
  | cons l ls ih => simp [indAll] at ih ⊢; exact ih

@[simp] theorem indAll_append (p : Line) (a b : Text) :
    indAll p (a ++ b) = indAll p a ++ indAll p b := by simp [indAll]

@[simp] theorem indAll_nil (p : Line) : indAll p [] = [] := rfl

@[simp] theorem indAll_cons (p l : Line) (t : Text) :
    indAll p (l :: t) = indentLine p l :: indAll p t := rfl

@[simp] theorem indAll_length (p : Line) (t : Text) : (indAll p t).length = t.length := by
  simp [indAll]

theorem indentLine_of_not_blank {p l : Line} (h : blank l = false) : indentLine p l = p ++ l := by
  simp [indentLine, h]

/-! ### `dedent` of an indented block -/

theorem leadWs_append_ws {p : Line} (hp : p.all isWs = true) (l : Line) :
    leadWs (p ++ l) = p ++ leadWs l := by
  induction p with
  | nil => rfl
  | cons c cs ih =>
    simp only [List.all_cons, Bool.and_eq_true] at hp
    simp [leadWs, hp.1, ih hp.2]

theorem lcp_append (p a b : Line) : lcp (p ++ a) (p ++ b) = p ++ lcp a b := by
  induction p with
  | nil => rfl
  | cons c cs ih => simp [lcp, ih]

@[simp] theorem lcp_nil_right (a : Line) : lcp a [] = [] := by
  cases a <;> rfl

@[simp] theorem lcp_nil_left (a : Line) : lcp [] a = [] := rfl

theorem leadWs_of_startsNonWs {l : Line} (h : startsNonWs l = true) : leadWs l = [] := by
  cases l with
  | nil => rfl
  | cons c cs =>
    simp only [startsNonWs, Bool.not_eq_true'] at h
    simp [leadWs, h]

theorem blank_pre_append {p : Line} (hp : p.all isWs = true) (l : Line) :
    blank (p ++ l) = blank l := by
  simp [blank, hp]

/-- the image of a relative text under "blank lines emptied, the others indented" -/
def img (p : Line) (r : Text) : Text := r.map (fun l => if blank l then [] else p ++ l)

theorem map_normBlank_indAll {p : Line} (hp : p.all isWs = true) (r : Text) :
    (indAll p r).map normBlank = img p r := by
  simp only [indAll, img, List.map_map]
  apply List.map_congr_left
  intro l _
  simp only [Function.comp, indentLine]
  by_cases h : blank l = true
  · simp [h, normBlank]
  · have h' : blank l = false := by simpa using h
    simp [h', normBlank, blank_pre_append hp]

theorem margin_img {p : Line} (hp : p.all isWs = true) (r : Text) (m : Option Line) :
    margin (m.map (p ++ ·)) (img p r) = (margin m r).map (p ++ ·) := by
  induction r generalizing m with
  | nil => rfl
  | cons l ls ih =>
    by_cases h : blank l = true
    · simp only [img, List.map_cons, h, if_true, margin, blank_nil]
      exact ih m
    · have h' : blank l = false := by simpa using h
      have hb : blank (p ++ l) = false := by rw [blank_pre_append hp]; exact h'
      have hstep : img p (l :: ls) = (p ++ l) :: img p ls := by simp [img, h']
      rw [hstep]
      cases m with
      | none =>
        have := ih (some (leadWs l))
        simp only [Option.map_some, Option.map_none] at this ⊢
        simp only [margin, hb, h', leadWs_append_ws hp]
        exact this
      | some x =>
        have := ih (some (lcp x (leadWs l)))
        simp only [Option.map_some] at this ⊢
        simp only [margin, hb, h', leadWs_append_ws hp, lcp_append]
        exact this

theorem margin_some_nil (r : Text) : margin (some []) r = some [] := by
  induction r with
  | nil => rfl
  | cons l ls ih => simp only [margin]; split <;> simpa using ih

theorem margin_of_startsNonWs (r : Text) (m : Option Line)
    (h : ∃ l ∈ r, startsNonWs l = true) : margin m r = some [] := by
  induction r generalizing m with
  | nil => simp at h
  | cons l ls ih =>
    by_cases hl : startsNonWs l = true
    · have hb := blank_of_startsNonWs hl
      simp only [margin, hb]
      cases m <;> simp [leadWs_of_startsNonWs hl, margin_some_nil]
    · obtain ⟨x, hx, hs⟩ := h
      have hx' : x ∈ ls := by
        rcases List.mem_cons.mp hx with rfl | h1
        · exact absurd hs hl
        · exact h1
      simp only [margin]
      split
      · exact ih _ ⟨x, hx', hs⟩
      · exact ih _ ⟨x, hx', hs⟩

theorem stripPrefix_append (p l : Line) : stripPrefix p (p ++ l) = l := by
  simp [stripPrefix]

theorem stripPrefix_nil (p : Line) : stripPrefix p [] = [] := by
  unfold stripPrefix; split <;> simp

/-- `textwrap.dedent` of a text whose non-blank lines all carry the indentation `p`, one of
them nothing more: exactly `p` is removed, and whitespace-only lines are emptied. -/
theorem dedent_indAll {p : Line} (hp : p.all isWs = true) (r : Text)
    (h : ∃ l ∈ r, startsNonWs l = true) :
    dedent (indAll p r) = r.map normBlank := by
  unfold dedent
  simp only [map_normBlank_indAll hp]
  have hm : margin none (img p r) = some p := by
    have := margin_img hp r none
    simp only [Option.map_none] at this
    rw [this, margin_of_startsNonWs r none h]; simp
  rw [hm]
  simp only [img, List.map_map]
  apply List.map_congr_left
  intro l _
  simp only [Function.comp]
  by_cases hb : blank l = true
  · simp [hb, normBlank, stripPrefix_nil]
  · have h' : blank l = false := by simpa using hb
    simp [h', normBlank, stripPrefix_append]

/-! ### `render` and indentation -/

theorem docTail_fst (p : Line) (d : DocLit) (sfx : Line) :
    (docTail p d sfx).1 = (docTail [] d sfx).1 := by
  unfold docTail; cases d.txt.more <;> rfl

theorem docTail_snd (p : Line) (d : DocLit) (sfx : Line) (h : d.wf = true) :
    (docTail p d sfx).2 = indAll p (docTail [] d sfx).2 := by
  simp only [DocLit.wf, Bool.and_eq_true] at h
  have hc := blank_of_startsNonWs h.2
  unfold docTail
  cases d.txt.more with
  | none => rfl
  | some m =>
    obtain ⟨mid, last⟩ := m
    simp [indentLine, hc]

theorem docTail_fst_not_blank (p : Line) (d : DocLit) (sfx : Line) (h : d.wf = true) :
    blank (docTail p d sfx).1 = false := by
  simp only [DocLit.wf, Bool.and_eq_true] at h
  have ho := blank_of_startsNonWs h.1
  unfold docTail
  cases d.txt.more <;> simp [ho]

theorem bodyParts_fst (p : Line) (b : Body) : (bodyParts p b).1 = (bodyParts [] b).1 := by
  cases b with
  | inline doc stmts =>
    cases doc with
    | none => rfl
    | some d => exact docTail_fst p d stmts
  | block sm cmts ind doc after rest => cases doc <;> rfl

theorem bodyParts_snd (p : Line) (b : Body) (h : b.wf = true) :
    (bodyParts p b).2 = indAll p (bodyParts [] b).2 := by
  cases b with
  | inline doc stmts =>
    cases doc with
    | none => rfl
    | some d => exact docTail_snd p d stmts h
  | block sm cmts ind doc after rest =>
    cases doc with
    | none =>
      simp only [Body.wf, Bool.not_eq_true'] at h
      simp [bodyParts, indentLine, h]
    | some d =>
      simp only [Body.wf] at h
      have h1 := docTail_fst_not_blank [] d after h
      simp [bodyParts, indentLine, h1, docTail_snd p d after h, docTail_fst p d after]

theorem defLine_not_blank (f : FuncDef) (h : f.wf = true) :
    blank (f.defkw ++ f.name ++ f.sig ++ (bodyParts [] f.body).1) = false := by
  simp only [FuncDef.wf, Bool.and_eq_true] at h
  simp [blank_of_startsNonWs h.1.2]

theorem render_eq_indAll (f : FuncDef) (h : f.wf = true) :
    render f = indAll f.pre (render { f with pre := [] }) := by
  have hb : f.body.wf = true := by
    simp only [FuncDef.wf, Bool.and_eq_true] at h; exact h.2
  have hd := defLine_not_blank f h
  simp only [List.append_assoc] at hd
  simp only [render, defLine, indAll_append, indAll_cons, indAll_nil_pre, List.nil_append,
    indentLine_of_not_blank hd, bodyParts_snd f.pre f.body hb, bodyParts_fst f.pre f.body,
    List.append_assoc]

theorem exists_startsNonWs_render (f : FuncDef) (h : f.wf = true) :
    ∃ l ∈ render { f with pre := [] }, startsNonWs l = true := by
  refine ⟨defLine { f with pre := [] }, by simp [render], ?_⟩
  simp only [FuncDef.wf, Bool.and_eq_true] at h
  have := h.1.2
  simp only [defLine, List.nil_append]
  cases hk : f.defkw with
  | nil => simp [hk, startsNonWs] at this
  | cons c cs => simpa [hk, startsNonWs] using this

theorem docTail_norm (d : DocLit) (sfx : Line) (h : d.wf = true) :
    (docTail [] d.norm sfx).1 = (docTail [] d sfx).1
      ∧ (docTail [] d.norm sfx).2 = (docTail [] d sfx).2.map normBlank := by
  simp only [DocLit.wf, Bool.and_eq_true] at h
  have hc := blank_of_startsNonWs h.2
  unfold docTail DocLit.norm Span.norm
  cases d.txt.more with
  | none => simp
  | some m =>
    obtain ⟨mid, last⟩ := m
    simp [normBlank, hc]

theorem bodyParts_norm (b : Body) (h : b.wf = true) :
    (bodyParts [] b.norm).1 = (bodyParts [] b).1
      ∧ (bodyParts [] b.norm).2 = (bodyParts [] b).2.map normBlank := by
  cases b with
  | inline doc stmts =>
    cases doc with
    | none => simp [Body.norm, bodyParts]
    | some d => exact docTail_norm d stmts h
  | block sm cmts ind doc after rest =>
    cases doc with
    | none =>
      simp only [Body.wf, Bool.not_eq_true'] at h
      simp [Body.norm, bodyParts, normBlank, h]
    | some d =>
      simp only [Body.wf] at h
      have h1 := docTail_fst_not_blank [] d after h
      obtain ⟨e1, e2⟩ := docTail_norm d after h
      simp [Body.norm, bodyParts, e1, e2, normBlank, h1]

theorem render_map_normBlank (f : FuncDef) (h : f.wf = true) :
    (render { f with pre := [] }).map normBlank = render (dedentS f) := by
  have hb : f.body.wf = true := by
    simp only [FuncDef.wf, Bool.and_eq_true] at h; exact h.2
  have hd := defLine_not_blank f h
  obtain ⟨e1, e2⟩ := bodyParts_norm f.body hb
  simp only [render, dedentS, defLine, indAll_nil_pre, List.nil_append, List.map_append,
    List.map_cons, normBlank_of_not_blank hd, e1, e2]

/-- `dedent` on the text of a definition is `dedentS` on the definition -/
theorem dedent_render (f : FuncDef) (h : f.wf = true) :
    dedent (render f) = render (dedentS f) := by
  have hp : f.pre.all isWs = true := by
    simp only [FuncDef.wf, Bool.and_eq_true] at h; exact h.1.1
  rw [render_eq_indAll f h, dedent_indAll hp _ (exists_startsNonWs_render f h),
    render_map_normBlank f h]

/-! ### `remove_decorator`, `replace_funcname` -/

theorem cut_mid {α : Type} (a b c : List α) (i j : Nat) (hi : i = a.length)
    (hj : j = a.length + b.length) :
    (a ++ (b ++ c)).take i ++ (a ++ (b ++ c)).drop j = a ++ c := by
  subst hi hj
  rw [List.take_left' rfl, ← List.append_assoc, List.drop_left' (by simp)]

theorem removeDecorator_render (f : FuncDef) :
    removeDecorator (layoutOf f) (render f) = render (undecorate f) := by
  unfold removeDecorator layoutOf
  cases hd : f.decos with
  | nil => simp [render, undecorate, hd, defLine]
  | cons d ds =>
    simp only [List.isEmpty_cons, Bool.false_eq_true, if_false, Nat.add_sub_cancel, render, hd,
      undecorate, defLine, List.append_assoc, indAll_nil, List.nil_append]
    exact cut_mid _ _ _ _ _ (by simp) (by simp)

theorem modifyAt_append (x y : Text) (i : Nat) (g : Line → Line) :
    modifyAt (x ++ y) (x.length + i) g = x ++ modifyAt y i g := by
  induction x with
  | nil => simp
  | cons l ls ih =>
    have : (l :: ls).length + i = (ls.length + i) + 1 := by simp; omega
    simp only [List.cons_append, this, modifyAt, ih]

theorem replaceFuncname_render (f : FuncDef) (n : Line) :
    replaceFuncname (layoutOf f) (render f) n = render { f with name := n } := by
  unfold replaceFuncname layoutOf
  simp only [Nat.add_sub_cancel, render, List.append_assoc]
  have e : f.lead.length + f.decos.length + f.gap.length
      = (indAll f.pre f.lead ++ (indAll f.pre f.decos ++ indAll f.pre f.gap)).length + 0 := by
    simp; omega
  rw [← List.append_assoc (indAll f.pre f.decos), ← List.append_assoc (indAll f.pre f.lead), e,
    modifyAt_append]
  simp only [List.cons_append, modifyAt, defLine, List.append_assoc]
  congr 2
  rw [← List.append_assoc f.pre f.defkw, List.take_left' (by simp)]
  rw [← List.append_assoc (f.pre ++ f.defkw) f.name, List.drop_left' (by simp; omega)]
  simp

/-- `Formula._init_from_funcdef` on the text of a definition is `captureS` on the definition,
for any parser that reports the layout of the two intermediate texts -/
theorem captureText_render (parse : Text → Layout) (f : FuncDef) (name : Option Line)
    (h : f.wf = true)
    (h1 : parse (render (dedentS f)) = layoutOf (dedentS f))
    (h2 : parse (render (undecorate (dedentS f))) = layoutOf (undecorate (dedentS f))) :
    captureText parse (render f) name = render (captureS f name) := by
  unfold captureText captureS
  simp only [dedent_render f h, h1, removeDecorator_render, h2]
  cases name with
  | none => rfl
  | some n => simp only [replaceFuncname_render, withName]

/-! ### cutting a text into lines -/

def noNl (s : List Char) : Prop := ∀ c ∈ s, c ≠ '\n'

theorem splitLines_ne_nil (s : List Char) : splitLines s ≠ [] := by
  cases s with
  | nil => simp [splitLines]
  | cons c cs =>
    simp only [splitLines]
    split
    · simp
    · split <;> simp

def consFirst (a : Line) : Text → Text
  | [] => [a]
  | l :: ls => (a ++ l) :: ls

theorem splitLines_cons_of_ne {c : Char} (h : c ≠ '\n') (s : List Char) :
    splitLines (c :: s) = consFirst [c] (splitLines s) := by
  simp only [splitLines, h, if_false]
  cases splitLines s <;> rfl

theorem consFirst_append (a b : Line) (t : Text) (ht : t ≠ []) :
    consFirst a (consFirst b t) = consFirst (a ++ b) t := by
  cases t with
  | nil => exact absurd rfl ht
  | cons l ls => simp [consFirst]

theorem consFirst_ne_nil (a : Line) (t : Text) : consFirst a t ≠ [] := by
  cases t <;> simp [consFirst]

theorem splitLines_append_left (a s : List Char) (ha : noNl a) :
    splitLines (a ++ s) = consFirst a (splitLines s) := by
  induction a with
  | nil =>
    cases h : splitLines s with
    | nil => exact absurd h (splitLines_ne_nil s)
    | cons l ls => simp [consFirst, h]
  | cons c cs ih =>
    have hc : c ≠ '\n' := ha c (by simp)
    have hcs : noNl cs := fun x hx => ha x (by simp [hx])
    rw [List.cons_append, splitLines_cons_of_ne hc, ih hcs,
      consFirst_append _ _ _ (splitLines_ne_nil s)]
    rfl

theorem splitLines_noNl (b : List Char) (hb : noNl b) : splitLines b = [b] := by
  have := splitLines_append_left b [] hb
  simpa [splitLines, consFirst] using this

theorem appendLast_cons_cons (l x : Line) (xs : Text) (b : Line) :
    appendLast (l :: x :: xs) b = l :: appendLast (x :: xs) b := rfl

theorem consFirst_appendLast (a : Line) (t : Text) (b : Line) (ht : t ≠ []) :
    consFirst a (appendLast t b) = appendLast (consFirst a t) b := by
  cases t with
  | nil => exact absurd rfl ht
  | cons x xs =>
    cases xs with
    | nil => simp [appendLast, consFirst]
    | cons y ys => simp [appendLast, consFirst]

theorem splitLines_append_right (s b : List Char) (hb : noNl b) :
    splitLines (s ++ b) = appendLast (splitLines s) b := by
  induction s with
  | nil => simp [splitLines_noNl b hb, splitLines, appendLast]
  | cons c cs ih =>
    by_cases hc : c = '\n'
    · subst hc
      simp only [List.cons_append, splitLines, if_true, ih]
      cases h : splitLines cs with
      | nil => exact absurd h (splitLines_ne_nil cs)
      | cons x xs => rfl
    · rw [List.cons_append, splitLines_cons_of_ne hc, splitLines_cons_of_ne hc, ih,
        consFirst_appendLast _ _ _ (splitLines_ne_nil cs)]

theorem appendLast_eq (r : Text) (b : Line) (hr : r ≠ []) :
    appendLast r b = r.dropLast ++ [r.getLast?.getD [] ++ b] := by
  induction r with
  | nil => exact absurd rfl hr
  | cons x xs ih =>
    cases xs with
    | nil => simp [appendLast]
    | cons y ys =>
      rw [appendLast_cons_cons, ih (by simp)]
      simp [List.dropLast, List.getLast?_cons_cons]

theorem appendLast_appendLast (t : Text) (a b : Line) (ht : t ≠ []) :
    appendLast (appendLast t a) b = appendLast t (a ++ b) := by
  induction t with
  | nil => exact absurd rfl ht
  | cons x xs ih =>
    cases xs with
    | nil => simp [appendLast]
    | cons y ys =>
      rw [appendLast_cons_cons, appendLast_cons_cons]
      have := ih (by simp)
      cases h : appendLast (y :: ys) a with
      | nil =>
        cases ys <;> simp [appendLast] at h
      | cons z zs =>
        rw [h] at this
        rw [appendLast_cons_cons, this]

theorem flat_cons_cons (l x : Line) (xs : Text) : flat (l :: x :: xs) = l ++ '\n' :: flat (x :: xs) := rfl

theorem flat_splitLines (s : List Char) : flat (splitLines s) = s := by
  induction s with
  | nil => rfl
  | cons c cs ih =>
    by_cases hc : c = '\n'
    · subst hc
      simp only [splitLines, if_true]
      cases h : splitLines cs with
      | nil => exact absurd h (splitLines_ne_nil cs)
      | cons x xs => rw [flat_cons_cons, ← h, ih]; rfl
    · rw [splitLines_cons_of_ne hc]
      cases h : splitLines cs with
      | nil => exact absurd h (splitLines_ne_nil cs)
      | cons x xs =>
        rw [h] at ih
        cases xs with
        | nil => simp only [consFirst, flat] at ih ⊢; simp [ih]
        | cons y ys =>
          simp only [consFirst]
          rw [flat_cons_cons] at ih ⊢
          simp [← ih]

theorem spanOf_lines (t : Text) (ht : t ≠ []) : (spanOf t).lines = t := by
  match t, ht with
  | [a], _ => rfl
  | a :: b :: r, _ =>
    simp only [spanOf, Span.lines]
    congr 1
    have : (b :: r) ≠ [] := by simp
    rw [List.getLast?_eq_some_getLast this]
    simp [List.dropLast_concat_getLast]

/-! ### `replace_docstring` -/

theorem getD_append_cons {α : Type} (x : List α) (l : α) (y : List α) (i : Nat) (d : α)
    (hi : i = x.length) : (x ++ l :: y).getD i d = l := by
  subst hi
  induction x with
  | nil => rfl
  | cons a as ih => simp

theorem splice_same (x y : Text) (a u b : Line) (new : Line × Text) (sl sc ec : Nat)
    (hsl : sl = x.length + 1) (hsc : sc = a.length) (hec : ec = a.length + u.length) :
    splice (x ++ (a ++ (u ++ b)) :: y) sl sc sl ec new = x ++ joinLines a new b ++ y := by
  subst hsl hsc hec
  unfold splice
  simp only [Nat.add_sub_cancel, getD_append_cons x _ y _ _ rfl, List.take_left' rfl]
  rw [← List.append_assoc a u b, List.drop_left' (by simp)]
  congr 1
  rw [show x ++ (a ++ u ++ b) :: y = (x ++ [a ++ u ++ b]) ++ y by simp,
    List.drop_left' (by simp)]

theorem splice_span (x m y : Text) (a u v b : Line) (new : Line × Text) (sl sc el ec : Nat)
    (hsl : sl = x.length + 1) (hsc : sc = a.length) (hel : el = x.length + 1 + m.length + 1)
    (hec : ec = v.length) :
    splice (x ++ (a ++ u) :: (m ++ (v ++ b) :: y)) sl sc el ec new
      = x ++ joinLines a new b ++ y := by
  subst hsl hsc hel hec
  unfold splice
  have e1 : x ++ (a ++ u) :: (m ++ (v ++ b) :: y) = (x ++ (a ++ u) :: m) ++ (v ++ b) :: y := by
    simp
  simp only [Nat.add_sub_cancel, getD_append_cons x _ _ _ _ rfl, List.take_left' rfl]
  rw [e1, getD_append_cons _ _ y _ _ (by simp; omega), List.drop_left' rfl]
  congr 1
  rw [show (x ++ (a ++ u) :: m) ++ (v ++ b) :: y = ((x ++ (a ++ u) :: m) ++ [v ++ b]) ++ y by simp,
    List.drop_left' (by simp; omega)]

theorem appendLast_snoc (xs : Text) (l b : Line) : appendLast (xs ++ [l]) b = xs ++ [l ++ b] := by
  induction xs with
  | nil => rfl
  | cons a as ih =>
    cases as with
    | nil => rfl
    | cons c cs => simp only [List.cons_append, appendLast] at ih ⊢; rw [ih]

theorem joinLines_snoc (a n1 l b : Line) (xs : Text) :
    joinLines a (n1, xs ++ [l]) b = (a ++ n1) :: (xs ++ [l ++ b]) := by
  unfold joinLines
  cases xs with
  | nil => rfl
  | cons c cs =>
    simp only [List.cons_append]
    rw [← List.cons_append, appendLast_snoc]
    rfl

/-- the lines of `"""` + the escaped text + `"""` after the `indent` loop, in terms of the
lines `d` of the escaped text -/
def newDocS (ind : Line) (d : Span) (ii : Bool) : Line × Text :=
  match d.more with
  | none => (ind ++ q3 ++ d.first ++ q3, [])
  | some (mid, last) =>
    (ind ++ q3 ++ d.first,
     mid.map (fun l => if ii then pyIndentLine ind l else l)
       ++ [(if ii then ind else []) ++ last ++ q3])

theorem noNl_q3 : noNl q3 := by
  intro c hc; simp [q3] at hc; subst hc; decide

theorem noNl_semi : noNl semi := by
  intro c hc; simp [semi] at hc; rcases hc with rfl | rfl <;> decide

theorem pyIndentLine_of_quote (p l : Line) (h : '"' ∈ l) : pyIndentLine p l = p ++ l := by
  unfold pyIndentLine
  rw [if_neg]
  intro hall
  have := List.all_eq_true.mp hall '"' h
  revert this; decide

/-- the lines of `quote_docstring(doc)` -/
theorem splitLines_quoteDocstring (doc : List Char) :
    splitLines (quoteDocstring doc)
      = appendLast (consFirst q3 (splitLines (quoteChars 0 doc))) q3 := by
  unfold quoteDocstring
  rw [splitLines_append_right _ _ noNl_q3, splitLines_append_left _ _ noNl_q3]

theorem docLines_quoteDocstring (doc : List Char) :
    docLines (quoteDocstring doc) = newDocS [] (docSpan doc) false := by
  unfold docLines docSpan
  rw [splitLines_quoteDocstring]
  match h : splitLines (quoteChars 0 doc), splitLines_ne_nil (quoteChars 0 doc) with
  | [a], _ => simp [consFirst, appendLast, spanOf, newDocS]
  | a :: b :: r, _ =>
    simp only [consFirst, appendLast_cons_cons, spanOf, newDocS]
    rw [appendLast_eq _ _ (by simp)]
    simp

theorem newDoc_quoteDocstring (ind : Line) (doc : List Char) (ii : Bool) :
    newDoc ind (quoteDocstring doc) ii = newDocS ind (docSpan doc) ii := by
  unfold newDoc
  rw [docLines_quoteDocstring]
  cases hm : (docSpan doc).more with
  | none =>
    simp only [newDocS, hm, List.map_nil, List.nil_append]
    rw [pyIndentLine_of_quote _ _ (by simp [q3])]
    simp
  | some m =>
    obtain ⟨mid, last⟩ := m
    simp only [newDocS, hm, List.nil_append, List.map_append, List.map_cons, List.map_nil]
    rw [pyIndentLine_of_quote _ _ (by simp [q3])]
    cases ii with
    | false => simp
    | true =>
      simp only [if_true, Bool.false_eq_true, if_false, List.nil_append, List.map_map]
      rw [pyIndentLine_of_quote _ (last ++ q3) (by simp [q3])]
      simp [Function.comp_def]

/-- `docstr + "; "` as lines: the separator goes to the end of the last line -/
theorem joinLines_docLines_semi (a b : Line) (quoted : List Char) :
    joinLines a ((docLines (quoted ++ semi)).1, (docLines (quoted ++ semi)).2) b
      = joinLines a (docLines quoted) (semi ++ b) := by
  unfold docLines
  rw [splitLines_append_right _ _ noNl_semi]
  match h : splitLines quoted, splitLines_ne_nil quoted with
  | [x], _ => simp [appendLast, joinLines]
  | x :: y :: r, _ =>
    rw [appendLast_cons_cons]
    simp only [joinLines]
    cases h2 : appendLast (y :: r) semi with
    | nil => cases r <;> simp [appendLast] at h2
    | cons z zs =>
      simp only
      rw [← h2, appendLast_appendLast _ _ _ (by simp)]

/-- the lines `replace_docstring` writes are the rendering of `blockDoc` -/
theorem joinLines_newDoc (a ind b : Line) (d : Span) (ii : Bool) :
    joinLines a (newDocS ind d ii) b
      = (a ++ ind ++ (docTail [] (blockDoc ind d ii) b).1) :: (docTail [] (blockDoc ind d ii) b).2 := by
  obtain ⟨first, more⟩ := d
  cases more with
  | none => simp [newDocS, joinLines, docTail, blockDoc, mkDoc]
  | some m =>
    obtain ⟨mid, last⟩ := m
    simp only [newDocS, blockDoc, mkDoc, docTail, Option.map_some, indAll_nil_pre, List.nil_append]
    rw [joinLines_snoc]
    simp

theorem blockDoc_nil_false (d : Span) : blockDoc [] d false = mkDoc d := by
  obtain ⟨first, more⟩ := d
  cases more with
  | none => rfl
  | some m => simp [blockDoc]

theorem joinLines_extra_line (a b : Line) (new : Line × Text) :
    joinLines a (new.1, new.2 ++ [[]]) b = joinLines a new [] ++ [b] := by
  obtain ⟨n1, ns⟩ := new
  cases ns with
  | nil => simp [joinLines, appendLast]
  | cons c cs =>
    have h1 := joinLines_snoc a n1 [] b (c :: cs)
    simp only [List.nil_append] at h1
    rw [h1]
    unfold joinLines
    simp only [List.cons_append, List.cons.injEq, true_and]
    clear h1
    induction cs generalizing c with
    | nil => simp [appendLast]
    | cons e es ih => simp only [appendLast, List.cons_append, List.cons.injEq, true_and]; exact ih e

theorem docTail_mk_none (p opn first cls sfx : Line) :
    docTail p ⟨opn, ⟨first, none⟩, cls⟩ sfx = (opn ++ first ++ cls ++ sfx, []) := rfl

theorem docTail_mk_some (p opn first cls sfx last : Line) (mid : Text) :
    docTail p ⟨opn, ⟨first, some (mid, last)⟩, cls⟩ sfx
      = (opn ++ first, indAll p mid ++ [p ++ last ++ cls ++ sfx]) := rfl

theorem replaceDocstring_render (f : FuncDef) (hp : f.pre = []) (doc : List Char) (ii : Bool) :
    replaceDocstring (layoutOf f) (render f) doc ii = render (replaceDocS f doc ii) := by
  obtain ⟨pre, lead, decos, gap, defkw, name, sig, body, trail, pnames⟩ := f
  simp only at hp
  subst hp
  cases body with
  | inline doc0 stmts =>
    cases doc0 with
    | none =>
      simp only [replaceDocstring, layoutOf, docPosOf, render, defLine, bodyParts, replaceDocS,
        setDocBody, indAll_nil_pre, List.nil_append, List.length_nil, Nat.zero_add,
        Bool.false_eq_true, if_false, List.append_assoc, List.cons_append]
      rw [← List.append_assoc lead, ← List.append_assoc (lead ++ decos)]
      rw [show defkw ++ (name ++ (sig ++ stmts)) = (defkw ++ name ++ sig) ++ ([] ++ stmts) by simp]
      rw [splice_same _ _ _ _ _ _ _ _ _ (by simp; omega) (by simp; omega) (by simp; omega)]
      rw [joinLines_docLines_semi, docLines_quoteDocstring, joinLines_newDoc, blockDoc_nil_false]
      simp
    | some d0 =>
      obtain ⟨opn0, ⟨first0, more0⟩, cls0⟩ := d0
      cases more0 with
      | none =>
        simp only [replaceDocstring, layoutOf, docPosOf, render, defLine, bodyParts, replaceDocS,
          setDocBody, indAll_nil_pre, List.nil_append, List.length_nil, Nat.zero_add, docTail_mk_none, docTail_mk_some,
          spanEnd, Bool.false_eq_true, if_false, if_true, List.append_assoc, List.cons_append]
        rw [← List.append_assoc lead, ← List.append_assoc (lead ++ decos)]
        rw [show defkw ++ (name ++ (sig ++ (opn0 ++ (first0 ++ (cls0 ++ stmts)))))
          = (defkw ++ name ++ sig) ++ ((opn0 ++ first0 ++ cls0) ++ stmts) by simp]
        rw [splice_same _ _ _ _ _ _ _ _ _ (by simp; omega) (by simp; omega) (by simp; omega)]
        rw [docLines_quoteDocstring, joinLines_newDoc, blockDoc_nil_false]
        simp
      | some m0 =>
        obtain ⟨mid0, last0⟩ := m0
        simp only [replaceDocstring, layoutOf, docPosOf, render, defLine, bodyParts, replaceDocS,
          setDocBody, indAll_nil_pre, List.nil_append, List.length_nil, Nat.zero_add, docTail_mk_none, docTail_mk_some,
          spanEnd, Bool.false_eq_true, if_false, if_true, List.append_assoc, List.cons_append]
        rw [← List.append_assoc lead, ← List.append_assoc (lead ++ decos)]
        rw [show defkw ++ (name ++ (sig ++ (opn0 ++ first0)))
          = (defkw ++ name ++ sig) ++ (opn0 ++ first0) by simp]
        rw [show last0 ++ (cls0 ++ stmts) = (last0 ++ cls0) ++ stmts by simp]
        rw [splice_span _ _ _ _ _ _ _ _ _ _ _ _ (by simp; omega) (by simp; omega) (by simp; omega)
          (by simp)]
        rw [docLines_quoteDocstring, joinLines_newDoc, blockDoc_nil_false]
        simp
  | block sm cmts ind doc0 after rest =>
    cases doc0 with
    | none =>
      simp only [replaceDocstring, layoutOf, docPosOf, render, defLine, bodyParts, replaceDocS,
        setDocBody, indAll_nil_pre, List.nil_append, List.length_nil, Nat.zero_add,
        Bool.false_eq_true, if_false, if_true, List.append_assoc, List.cons_append,
        List.append_nil, newDoc_quoteDocstring]
      rw [show lead ++ (decos ++ (gap ++ (defkw ++ (name ++ sig)) :: (sm ++ (cmts ++ (ind ++ after) :: (rest ++ trail)))))
          = (lead ++ decos ++ gap ++ (defkw ++ (name ++ sig)) :: (sm ++ cmts)) ++ ([] ++ ([] ++ (ind ++ after))) :: (rest ++ trail) by simp]
      rw [splice_same _ _ _ _ _ _ _ _ _ (by simp; omega) (by simp) (by simp)]
      rw [joinLines_extra_line, joinLines_newDoc]
      simp
    | some d0 =>
      obtain ⟨opn0, ⟨first0, more0⟩, cls0⟩ := d0
      cases more0 with
      | none =>
        simp only [replaceDocstring, layoutOf, docPosOf, render, defLine, bodyParts, replaceDocS,
          setDocBody, indAll_nil_pre, List.nil_append, List.length_nil, Nat.zero_add,
          docTail_mk_none, spanEnd, Bool.false_eq_true, if_false, if_true, List.append_assoc,
          List.cons_append, List.append_nil, newDoc_quoteDocstring]
        rw [show lead ++ (decos ++ (gap ++ (defkw ++ (name ++ sig)) :: (sm ++ (cmts ++ (ind ++ (opn0 ++ (first0 ++ (cls0 ++ after)))) :: (rest ++ trail)))))
            = (lead ++ decos ++ gap ++ (defkw ++ (name ++ sig)) :: (sm ++ cmts)) ++ ([] ++ ((ind ++ opn0 ++ first0 ++ cls0) ++ after)) :: (rest ++ trail) by simp]
        rw [splice_same _ _ _ _ _ _ _ _ _ (by simp; omega) (by simp) (by simp; omega)]
        rw [joinLines_newDoc]
        simp
      | some m0 =>
        obtain ⟨mid0, last0⟩ := m0
        simp only [replaceDocstring, layoutOf, docPosOf, render, defLine, bodyParts, replaceDocS,
          setDocBody, indAll_nil_pre, List.nil_append, List.length_nil, Nat.zero_add,
          docTail_mk_some, spanEnd, Bool.false_eq_true, if_false, if_true, List.append_assoc,
          List.cons_append, List.append_nil, newDoc_quoteDocstring]
        rw [show lead ++ (decos ++ (gap ++ (defkw ++ (name ++ sig)) :: (sm ++ (cmts ++ (ind ++ (opn0 ++ first0)) :: (mid0 ++ (last0 ++ (cls0 ++ after)) :: (rest ++ trail))))))
            = (lead ++ decos ++ gap ++ (defkw ++ (name ++ sig)) :: (sm ++ cmts)) ++ ([] ++ (ind ++ opn0 ++ first0)) :: (mid0 ++ ((last0 ++ cls0) ++ after) :: (rest ++ trail)) by simp]
        rw [splice_span _ _ _ _ _ _ _ _ _ _ _ _ (by simp; omega) (by simp) (by simp; omega)
          (by simp)]
        rw [joinLines_newDoc]
        simp

theorem wf_replaceDocS (f : FuncDef) (d : List Char) (ii : Bool) (h : f.wf = true) :
    (replaceDocS f d ii).wf = true := by
  simp only [FuncDef.wf, Bool.and_eq_true] at h ⊢
  refine ⟨h.1, ?_⟩
  simp only [replaceDocS]
  cases f.body with
  | inline doc stmts =>
    cases doc <;> simp [setDocBody, Body.wf, DocLit.wf, mkDoc, q3, startsNonWs, isWs]
  | block sm cmts ind doc after rest =>
    cases doc <;> simp [setDocBody, Body.wf, DocLit.wf, mkDoc, blockDoc, q3, startsNonWs, isWs]

/-- `set_doc` on the text of a captured definition is `setDocS` on the definition -/
theorem setDocText_render (parse : Text → Layout) (f : FuncDef) (d : List Char) (ii : Bool)
    (h : f.wf = true) (hp : f.pre = [])
    (h0 : parse (render f) = layoutOf f)
    (h1 : parse (render (dedentS (replaceDocS f d ii))) = layoutOf (dedentS (replaceDocS f d ii)))
    (h2 : parse (render (undecorate (dedentS (replaceDocS f d ii))))
      = layoutOf (undecorate (dedentS (replaceDocS f d ii)))) :
    setDocText parse (render f) d ii f.name = render (setDocS f d ii) := by
  unfold setDocText setDocS
  rw [h0, replaceDocstring_render f hp,
    captureText_render parse _ _ (wf_replaceDocS f d ii h) h1 h2]

/-! ### lambda expressions -/

theorem startsNonWs_append {a : Line} (b : Line) (h : startsNonWs a = true) :
    startsNonWs (a ++ b) = true := by
  cases a with
  | nil => simp [startsNonWs] at h
  | cons c cs => simpa [startsNonWs] using h

theorem LamStmt.render_eq_indAll (s : LamStmt) (h : s.wf = true) :
    s.render = indAll s.pre ({ s with pre := [] } : LamStmt).render := by
  simp only [LamStmt.wf, Bool.and_eq_true, Bool.not_eq_true'] at h
  obtain ⟨⟨⟨_, _⟩, h3⟩, h4⟩ := h
  unfold LamStmt.render
  cases hm : s.lam.more with
  | none =>
    simp only [hm, Option.isNone_none, if_true] at h4
    simp only [List.append_assoc] at h4
    simp [indentLine, h4]
  | some m =>
    obtain ⟨mid, last⟩ := m
    simp only [hm, Option.isNone_some, Bool.false_eq_true, if_false, List.append_nil,
      Bool.not_eq_true'] at h4 h3
    have h5 : blank (last ++ (s.sfx)) = false := h3
    simp only [List.cons_append, List.nil_append, indAll_append, indAll_cons, indAll_nil,
      indAll_nil_pre, indentLine_of_not_blank h4, indentLine_of_not_blank h5, List.append_assoc]

theorem LamStmt.exists_startsNonWs (s : LamStmt) (h : s.wf = true) :
    ∃ l ∈ ({ s with pre := [] } : LamStmt).render, startsNonWs l = true := by
  simp only [LamStmt.wf, Bool.and_eq_true] at h
  obtain ⟨⟨⟨_, h2⟩, _⟩, _⟩ := h
  rcases Bool.or_eq_true _ _ |>.mp h2 with h2 | h2
  · obtain ⟨l, hl, hs⟩ := List.any_eq_true.mp h2
    exact ⟨l, by simp [LamStmt.render, hl], hs⟩
  · unfold LamStmt.render
    cases s.lam.more with
    | none =>
      refine ⟨s.pfx ++ s.lam.first ++ s.sfx, by simp, startsNonWs_append _ h2⟩
    | some m =>
      refine ⟨s.pfx ++ s.lam.first, by simp, h2⟩

theorem LamStmt.render_map_normBlank (s : LamStmt) (h : s.wf = true) :
    (({ s with pre := [] } : LamStmt).render).map normBlank = s.dedentS.render := by
  simp only [LamStmt.wf, Bool.and_eq_true, Bool.not_eq_true'] at h
  obtain ⟨⟨⟨_, _⟩, h3⟩, h4⟩ := h
  unfold LamStmt.render LamStmt.dedentS Span.norm
  cases hm : s.lam.more with
  | none =>
    simp only [hm, Option.isNone_none, if_true] at h4
    simp only [List.append_assoc] at h4
    simp [normBlank, h4]
  | some m =>
    obtain ⟨mid, last⟩ := m
    simp only [hm, Option.isNone_some, Bool.false_eq_true, if_false, List.append_nil,
      Bool.not_eq_true'] at h4 h3
    have h5 : blank (last ++ (s.sfx)) = false := h3
    simp only [List.cons_append, List.nil_append, List.map_append, List.map_cons, List.map_nil,
      indAll_nil_pre, normBlank_of_not_blank h4, normBlank_of_not_blank h5, Option.map_some]

theorem LamStmt.dedent_render (s : LamStmt) (h : s.wf = true) :
    dedent s.render = s.dedentS.render := by
  have hp : s.pre.all isWs = true := by
    simp only [LamStmt.wf, Bool.and_eq_true] at h; exact h.1.1.1
  rw [s.render_eq_indAll h, dedent_indAll hp _ (s.exists_startsNonWs h), s.render_map_normBlank h]



theorem extractLambda_render (s : LamStmt) :
    extractLambda s.layout s.render = s.rawLam := by
  unfold extractLambda LamStmt.layout LamStmt.render LamStmt.rawLam
  cases hm : s.lam.more with
  | none =>
    simp only [if_true, Nat.add_sub_cancel, List.append_assoc, List.cons_append, List.nil_append]
    rw [getD_append_cons _ _ _ _ _ (by simp)]
    rw [← List.append_assoc s.pfx, ← List.append_assoc s.pre, List.take_left' (by simp; omega)]
    rw [← List.append_assoc s.pre, List.drop_left' (by simp)]
  | some m =>
    obtain ⟨mid, last⟩ := m
    have hne : ¬ (s.lead.length + 1 = s.lead.length + 1 + mid.length + 1) := by omega
    simp only [hne, if_false, Nat.add_sub_cancel, List.append_assoc, List.cons_append,
      List.nil_append]
    rw [getD_append_cons _ _ _ _ _ (by simp)]
    rw [← List.append_assoc s.pre, List.drop_left' (by simp)]
    congr 1
    have e : indAll s.pre s.lead ++ (s.pre ++ s.pfx ++ s.lam.first) ::
          (indAll s.pre mid ++ (s.pre ++ (last ++ s.sfx)) :: indAll s.pre s.trail)
        = (indAll s.pre s.lead ++ (s.pre ++ s.pfx ++ s.lam.first) :: indAll s.pre mid)
            ++ (s.pre ++ (last ++ s.sfx)) :: indAll s.pre s.trail := by simp
    rw [e, getD_append_cons _ _ _ _ _ (by simp; omega), List.take_left' (by simp; omega)]
    rw [show indAll s.pre s.lead ++ (s.pre ++ s.pfx ++ s.lam.first) :: indAll s.pre mid
      = (indAll s.pre s.lead ++ [s.pre ++ s.pfx ++ s.lam.first]) ++ indAll s.pre mid by simp,
      List.drop_left' (by simp)]
    rw [← List.append_assoc s.pre, List.take_left' (by simp)]




/-! ### `quote_docstring` read back by CPython's lexer -/

/-- number of double quotes a text starts with -/
def leadQ : List Char → Nat
  | [] => 0
  | c :: cs => if c = '"' then leadQ cs + 1 else 0

theorem leadQ_of_q3_prefix (s : List Char) (h : q3.isPrefixOf s = true) : 3 ≤ leadQ s := by
  match s, h with
  | [], h => simp [q3, List.isPrefixOf] at h
  | [a], h => simp [q3, List.isPrefixOf] at h
  | [a, b], h => simp [q3, List.isPrefixOf] at h
  | a :: b :: c :: r, h =>
    simp [q3, List.isPrefixOf] at h
    obtain ⟨rfl, rfl, rfl⟩ := h
    simp [leadQ]

theorem lexTriple_q3 : lexTriple q3 = some ([], []) := by decide

/-- the table the proofs of this file were made for -/
def docEscapesModelled : List (Char × List Char) :=
  [('\\', ['\\', '\\']),
   (Char.ofNat 0, ['\\', 'x', '0', '0']),
   ('\r', ['\\', 'r']),
   (Char.ofNat 0x0b, ['\\', 'x', '0', 'b']),
   (Char.ofNat 0x0c, ['\\', 'x', '0', 'c']),
   (Char.ofNat 0x1c, ['\\', 'x', '1', 'c']),
   (Char.ofNat 0x1d, ['\\', 'x', '1', 'd']),
   (Char.ofNat 0x1e, ['\\', 'x', '1', 'e']),
   (Char.ofNat 0x85, ['\\', 'x', '8', '5']),
   (Char.ofNat 0x2028, ['\\', 'u', '2', '0', '2', '8']),
   (Char.ofNat 0x2029, ['\\', 'u', '2', '0', '2', '9'])]

/-- the escape table of the code (regenerated on every run) is the one modelled -/
theorem docEscapes_eq : docEscapes = docEscapesModelled := by decide +kernel

/-- every entry of the escape table is read back as the character it stands for -/
theorem lex_table (p : Char × List Char) (hp : p ∈ docEscapes) (rest : List Char) :
    lexTriple (p.2 ++ rest) = consVal p.1 (lexTriple rest) ∧ p.1 ≠ '"' ∧ p.2.head? = some '\\' := by
  rw [docEscapes_eq] at hp
  simp only [docEscapesModelled, List.mem_cons, List.not_mem_nil, or_false] at hp
  rcases hp with rfl | rfl | rfl | rfl | rfl | rfl | rfl | rfl | rfl | rfl | rfl <;>
    refine ⟨?_, by decide, rfl⟩ <;>
    (simp only [List.cons_append, List.nil_append]
     conv => lhs; unfold lexTriple
     simp [hexNum, hexVal])

theorem lookup_mem {α β : Type} [BEq α] [LawfulBEq α] (l : List (α × β)) (a : α) (b : β)
    (h : l.lookup a = some b) : (a, b) ∈ l := by
  induction l with
  | nil => simp at h
  | cons x xs ih =>
    obtain ⟨k, v⟩ := x
    simp only [List.lookup] at h
    split at h
    · rename_i heq
      have : a = k := by simpa using heq
      simp at h; subst this; subst h; simp
    · exact List.mem_cons_of_mem _ (ih h)

theorem lookup_none_backslash (c : Char) (h : docEscapes.lookup c = none) : c ≠ '\\' := by
  intro e; subst e; rw [docEscapes_eq] at h; simp [docEscapesModelled, List.lookup] at h

/-- an escaped character (not a double quote) is read back as itself, and its escape does not
start with a double quote -/
theorem lex_escapeChar (c : Char) (hc : c ≠ '"') (rest : List Char) :
    lexTriple (escapeChar c ++ rest) = consVal c (lexTriple rest)
      ∧ leadQ (escapeChar c ++ rest) = 0 := by
  unfold escapeChar
  cases h : docEscapes.lookup c with
  | some e =>
    obtain ⟨h1, _, h3⟩ := lex_table (c, e) (lookup_mem _ _ _ h) rest
    refine ⟨h1, ?_⟩
    cases e with
    | nil => simp at h3
    | cons x xs =>
      simp only [List.head?_cons, Option.some.injEq] at h3
      subst h3
      simp [leadQ]
  | none =>
    have hb := lookup_none_backslash c h
    have hq : q3.isPrefixOf (c :: rest) = false := by
      simp only [q3, List.isPrefixOf, Bool.and_eq_false_imp, beq_iff_eq]
      intro e; exact absurd e.symm hc
    refine ⟨?_, by simp [leadQ, hc]⟩
    simp only [List.cons_append, List.nil_append]
    conv => lhs; unfold lexTriple
    simp [hb, hq]

/-- **the run-of-quotes invariant**: reading the escaped text followed by the closing quotes
returns the text; and the escaped text never continues the current run of `quotes` unescaped
quotes to three. -/
theorem lex_quoteChars (d : List Char) : ∀ (q : Nat), q ≤ 2 → (0 < q → d ≠ []) →
    lexTriple (quoteChars q d ++ q3) = some (d, []) ∧ (d ≠ [] → leadQ (quoteChars q d ++ q3) + q ≤ 2) := by
  induction d with
  | nil =>
    intro q _ hne
    have : q = 0 := by
      cases q with
      | zero => rfl
      | succ n => exact absurd rfl (hne (by omega))
    subst this
    exact ⟨lexTriple_q3, fun h => absurd rfl h⟩
  | cons c cs ih =>
    intro q hq _
    by_cases hc : c = '"'
    · subst hc
      by_cases hesc : q + 1 = 3 ∨ cs = []
      · -- the quote is escaped
        have ih0 := (ih 0 (by omega) (by omega)).1
        simp only [quoteChars, if_true, hesc, List.cons_append]
        refine ⟨?_, fun _ => by simp [leadQ]; omega⟩
        conv => lhs; unfold lexTriple
        simp [ih0, consVal]
      · -- the quote stands as it is
        have h1 : q + 1 ≤ 2 := by omega
        have h2 : cs ≠ [] := fun e => hesc (Or.inr e)
        obtain ⟨ihA, ihB⟩ := ih (q + 1) h1 (fun _ => h2)
        have ihB := ihB h2
        simp only [quoteChars, if_true, hesc, if_false, List.cons_append]
        have hnp : q3.isPrefixOf ('"' :: (quoteChars (q + 1) cs ++ q3)) = false := by
          cases hp : q3.isPrefixOf ('"' :: (quoteChars (q + 1) cs ++ q3)) with
          | false => rfl
          | true =>
            have := leadQ_of_q3_prefix _ hp
            simp only [leadQ, if_true] at this
            omega
        refine ⟨?_, fun _ => by simp only [leadQ, if_true]; omega⟩
        have hb : ('"' : Char) ≠ '\\' := by decide
        conv => lhs; unfold lexTriple
        simp [hnp, ihA, consVal]
    · obtain ⟨e1, e2⟩ := lex_escapeChar c hc (quoteChars 0 cs ++ q3)
      have ih0 := (ih 0 (by omega) (by omega)).1
      simp only [quoteChars, hc, if_false, List.append_assoc]
      refine ⟨?_, fun _ => by rw [e2]; omega⟩
      rw [e1, ih0]; rfl

/-- **`quote_docstring` is faithful for every string**: CPython reads the literal it returns
back as exactly the text that was quoted. -/
theorem readBack_quoteDocstring (d : List Char) : readBack (quoteDocstring d) = some d := by
  have h := (lex_quoteChars d 0 (by omega) (by omega)).1
  unfold readBack quoteDocstring
  have hp : q3.isPrefixOf (q3 ++ quoteChars 0 d ++ q3) = true := by
    simp [q3, List.isPrefixOf]
  rw [if_pos hp]
  have hd : (q3 ++ quoteChars 0 d ++ q3).drop 3 = quoteChars 0 d ++ q3 := by
    simp [q3]
  rw [hd, h]


/-! ### normalisation is idempotent; captured definitions are well formed -/

theorem map_normBlank_idem (t : Text) : (t.map normBlank).map normBlank = t.map normBlank := by
  simp [List.map_map, Function.comp_def]

theorem Span.norm_norm (s : Span) : s.norm.norm = s.norm := by
  obtain ⟨first, more⟩ := s
  cases more with
  | none => rfl
  | some m => simp [Span.norm, Function.comp_def]

theorem DocLit.norm_norm (d : DocLit) : d.norm.norm = d.norm := by
  simp [DocLit.norm, Span.norm_norm]

theorem Body.norm_norm (b : Body) : b.norm.norm = b.norm := by
  cases b with
  | inline doc stmts => cases doc <;> simp [Body.norm, DocLit.norm_norm]
  | block sm cmts ind doc after rest =>
    cases doc <;> simp [Body.norm, DocLit.norm_norm, Function.comp_def]

theorem dedentS_dedentS (f : FuncDef) : dedentS (dedentS f) = dedentS f := by
  simp [dedentS, Body.norm_norm, Function.comp_def]

theorem captureS_captureS (f : FuncDef) (n m : Option Line) :
    captureS (captureS f n) m = withName (captureS f n) m := by
  cases n <;> cases m <;>
    simp [captureS, withName, undecorate, dedentS, Body.norm_norm, Function.comp_def]

theorem Body.wf_norm (b : Body) (h : b.wf = true) : b.norm.wf = true := by
  cases b with
  | inline doc stmts => cases doc <;> simpa [Body.norm, Body.wf, DocLit.wf, DocLit.norm] using h
  | block sm cmts ind doc after rest =>
    cases doc <;> simpa [Body.norm, Body.wf, DocLit.wf, DocLit.norm] using h

theorem wf_captureS (f : FuncDef) (n : Option Line) (h : f.wf = true) :
    (captureS f n).wf = true := by
  simp only [FuncDef.wf, Bool.and_eq_true] at h
  cases n <;>
    simp [captureS, withName, undecorate, dedentS, FuncDef.wf, h.1.2, Body.wf_norm _ h.2]

theorem dedentS_captureS (f : FuncDef) (n : Option Line) :
    dedentS (captureS f n) = captureS f n := by
  cases n <;> simp [captureS, withName, undecorate, dedentS, Body.norm_norm, Function.comp_def]

theorem undecorate_captureS (f : FuncDef) (n : Option Line) :
    undecorate (captureS f n) = captureS f n := by
  cases n <;> simp [captureS, withName, undecorate, dedentS]

/-! ### renaming along an inheritance chain -/

theorem renameChain_defined (n : Line) (es : List Entry) (prev : Option Formula) (i : Nat)
    (e : Entry) (hi : es[i]? = some e) (hd : e.derived = false) :
    (renameChain n prev es)[i]? = some { e with formula := renameFormula n e.formula } := by
  induction es generalizing prev i with
  | nil => simp at hi
  | cons x xs ih =>
    cases i with
    | zero =>
      simp only [List.getElem?_cons_zero, Option.some.injEq] at hi
      subst hi
      simp only [renameChain, List.getElem?_cons_zero, Option.some.injEq]
      cases hf : x.formula with
      | fn f => simp [hd, renameFormula]
      | lam src p => simp [renameFormula]
    | succ j =>
      simp only [List.getElem?_cons_succ] at hi
      simp only [renameChain, List.getElem?_cons_succ]
      exact ih _ j hi

theorem renameChain_derived (n : Line) (es : List Entry) (prev : Option Formula) (i : Nat)
    (e0 e : Entry) (f : FuncDef) (h0 : es[i]? = some e0) (hi : es[i + 1]? = some e)
    (hd : e.derived = true) (hf : e.formula = .fn f) :
    ((renameChain n prev es)[i + 1]?).map (·.formula)
      = ((renameChain n prev es)[i]?).map (·.formula) := by
  induction es generalizing prev i with
  | nil => simp at hi
  | cons x xs ih =>
    cases i with
    | zero =>
      cases xs with
      | nil => simp at hi
      | cons y ys =>
        simp only [List.getElem?_cons_succ, List.getElem?_cons_zero, Option.some.injEq] at hi
        subst hi
        simp [renameChain, hd, hf]
    | succ j =>
      simp only [List.getElem?_cons_succ] at hi h0
      simp only [renameChain, List.getElem?_cons_succ]
      exact ih _ j h0 hi

theorem renameChain_length (n : Line) (es : List Entry) (prev : Option Formula) :
    (renameChain n prev es).length = es.length := by
  induction es generalizing prev with
  | nil => rfl
  | cons x xs ih => simp [renameChain, ih]

/-! ### whitespace-only lines of the escaped text are those of the text -/

/-- what `dedent` looks at in a line -/
def lineSig (l : Line) : Bool × Bool := (blank l, l.isEmpty)

theorem table_shape : ∀ p ∈ docEscapes,
    (p.2.all (· != '\n') && !p.2.isEmpty && !blank p.2 && !isWs p.1 && p.1 != '\n') = true := by
  decide

theorem noNl_of_all {e : List Char} (h : e.all (· != '\n') = true) : noNl e := by
  intro c hc
  have := List.all_eq_true.mp h c hc
  simpa using this

/-- one step of the loop of `quote_docstring` on a character other than the line feed: what
is emitted is not empty, has no line feed, and is blank iff the character is -/
theorem quoteChars_step (q : Nat) (c : Char) (cs : List Char) (hc : c ≠ '\n') :
    ∃ e q', quoteChars q (c :: cs) = e ++ quoteChars q' cs ∧ noNl e ∧ e ≠ [] ∧ blank e = isWs c := by
  by_cases hq : c = '"'
  · subst hq
    by_cases hesc : q + 1 = 3 ∨ cs = []
    · exact ⟨['\\', '"'], 0, by simp only [quoteChars, if_true, if_pos hesc]; rfl, by intro x hx; simp at hx; rcases hx with rfl | rfl <;> decide,
        by simp, by decide⟩
    · exact ⟨['"'], q + 1, by simp only [quoteChars, if_true, if_neg hesc]; rfl, by intro x hx; simp at hx; subst hx; decide,
        by simp, by decide⟩
  · refine ⟨escapeChar c, 0, by simp [quoteChars, hq], ?_⟩
    unfold escapeChar
    cases h : docEscapes.lookup c with
    | some e =>
      have := table_shape (c, e) (lookup_mem _ _ _ h)
      simp only [Bool.and_eq_true, Bool.not_eq_true', bne_iff_ne, ne_eq] at this
      obtain ⟨⟨⟨⟨h1, h2⟩, h3⟩, h4⟩, _⟩ := this
      refine ⟨noNl_of_all h1, ?_, by rw [h3, h4]⟩
      intro e0; subst e0; simp at h2
    | none =>
      refine ⟨by intro x hx; simp at hx; subst hx; exact hc, by simp, ?_⟩
      simp [blank]

theorem quoteChars_nl (q : Nat) (cs : List Char) :
    quoteChars q ('\n' :: cs) = '\n' :: quoteChars 0 cs := by
  have h : ('\n' : Char) ≠ '"' := by decide
  have e : escapeChar '\n' = ['\n'] := by decide
  simp [quoteChars, h, e]

theorem sig_consFirst (e e' : Line) (t t' : Text) (he : e ≠ []) (he' : e' ≠ [])
    (hb : blank e = blank e') (ht : t.map lineSig = t'.map lineSig) :
    (consFirst e t).map lineSig = (consFirst e' t').map lineSig := by
  cases t with
  | nil =>
    cases t' with
    | nil =>
      have h1 : e.isEmpty = false := by cases e <;> simp_all
      have h2 : e'.isEmpty = false := by cases e' <;> simp_all
      simp [consFirst, lineSig, hb, h1, h2]
    | cons a as => simp at ht
  | cons l ls =>
    cases t' with
    | nil => simp at ht
    | cons a as =>
      simp only [List.map_cons, List.cons.injEq, lineSig, Prod.mk.injEq] at ht
      have h1 : (e ++ l).isEmpty = false := by cases e <;> simp_all
      have h2 : (e' ++ a).isEmpty = false := by cases e' <;> simp_all
      simp [consFirst, lineSig, hb, ht.1.1, ht.2, h1, h2]

theorem sig_quoteChars (d : List Char) : ∀ q,
    (splitLines (quoteChars q d)).map lineSig = (splitLines d).map lineSig := by
  induction d with
  | nil => intro q; rfl
  | cons c cs ih =>
    intro q
    by_cases hc : c = '\n'
    · subst hc
      rw [quoteChars_nl]
      simp only [splitLines, if_true, List.map_cons, ih 0]
    · obtain ⟨e, q', h1, h2, h3, h4⟩ := quoteChars_step q c cs hc
      rw [h1, splitLines_append_left _ _ h2, splitLines_cons_of_ne hc]
      exact sig_consFirst _ _ _ _ h3 (by simp) (by rw [h4]; simp [blank]) (ih q')

theorem midClean_sig (t : Text) :
    ((t.drop 1).dropLast).all cleanLine
      = (((t.map lineSig).drop 1).dropLast).all (fun s => !s.1 || s.2) := by
  rw [← List.map_drop, ← List.map_dropLast, List.all_map]
  rfl

theorem normBlank_of_clean {l : Line} (h : cleanLine l = true) : normBlank l = l := by
  unfold normBlank
  split
  · rename_i hb
    simp only [cleanLine, hb, Bool.not_true, Bool.false_or, List.isEmpty_iff] at h
    exact h.symm
  · rfl

theorem norm_spanOf (t : Text) (h : ((t.drop 1).dropLast).all cleanLine = true) :
    (spanOf t).norm = spanOf t := by
  match t, h with
  | [], _ => rfl
  | [a], _ => rfl
  | a :: b :: r, h =>
    simp only [List.drop_one, List.tail_cons] at h
    simp only [spanOf, Span.norm, Option.map_some]
    congr 3
    have : ∀ l ∈ (b :: r).dropLast, normBlank l = l := fun l hl =>
      normBlank_of_clean (List.all_eq_true.mp h l hl)
    exact List.map_congr_left this |>.trans (List.map_id _)

/-- a documentation text without a whitespace-only line strictly inside it is written as a
literal that `dedent` leaves alone -/
theorem docSpan_norm (doc : List Char) (h : NoWsOnlyMiddle doc = true) :
    (docSpan doc).norm = docSpan doc := by
  unfold docSpan
  apply norm_spanOf
  unfold NoWsOnlyMiddle at h
  rw [midClean_sig] at h ⊢
  rw [sig_quoteChars]; exact h

/-- …and CPython reads that literal back as the text -/
theorem value_mkDoc_docSpan (doc : List Char) : (mkDoc (docSpan doc)).value = some doc := by
  unfold DocLit.value mkDoc docSpan
  simp only [and_self, if_true]
  rw [spanOf_lines _ (splitLines_ne_nil _), flat_splitLines]
  exact readBack_quoteDocstring doc

end MxModel.Capture
