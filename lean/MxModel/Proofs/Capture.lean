import MxModel.Kernels.Capture
/-! Helper lemmas for `Props/C20.lean` (model: `Kernels/Capture.lean`). -/
namespace MxModel.Capture
set_option linter.unusedSimpArgs false
set_option linter.unnecessarySimpa false

/-! ### blanks and indentation -/

@[simp] theorem blank_nil : blank [] = true := rfl

@[simp] theorem blank_append (a b : Line) : blank (a ++ b) = (blank a && blank b) := by
  simp [blank, List.all_append]

theorem blank_of_startsNonWs {l : Line} (h : startsNonWs l = true) : blank l = false := by
  cases l with
  | nil => simp [startsNonWs] at h
  | cons c cs =>
    simp only [startsNonWs, Bool.not_eq_true'] at h
    simp [blank, List.all_cons, h]

@[simp] theorem normBlank_nil : normBlank [] = [] := by simp [normBlank]

theorem normBlank_of_not_blank {l : Line} (h : blank l = false) : normBlank l = l := by
  simp [normBlank, h]

theorem normBlank_of_blank {l : Line} (h : blank l = true) : normBlank l = [] := by
  simp [normBlank, h]

@[simp] theorem blank_normBlank (l : Line) : blank (normBlank l) = blank l := by
  unfold normBlank; split <;> simp_all

@[simp] theorem normBlank_idem (l : Line) : normBlank (normBlank l) = normBlank l := by
  unfold normBlank; split <;> simp_all

@[simp] theorem indentLine_nil (l : Line) : indentLine [] l = l := by
  simp [indentLine]

@[simp] theorem indAll_nil_pre (t : Text) : indAll [] t = t := by
  induction t with
  | nil => rfl
  | cons l ls ih => simp [indAll] at ih ⊢; exact ih

@[simp] theorem indAll_append (p : Line) (a b : Text) :
    indAll p (a ++ b) = indAll p a ++ indAll p b := by simp [indAll]

@[simp] theorem indAll_nil (p : Line) : indAll p [] = [] := rfl

@[simp] theorem indAll_cons (p l : Line) (t : Text) :
    indAll p (l :: t) = indentLine p l :: indAll p t := rfl

@[simp] theorem indAll_length (p : Line) (t : Text) : (indAll p t).length = t.length := by
  simp [indAll]

theorem indentLine_of_not_blank {p l : Line} (h : blank l = false) : indentLine p l = p ++ l := by
  simp [indentLine, h]

/-! ### `dedent` of an indented block -/

theorem leadWs_append_ws {p : Line} (hp : p.all isWs = true) (l : Line) :
    leadWs (p ++ l) = p ++ leadWs l := by
  induction p with
  | nil => rfl
  | cons c cs ih =>
    simp only [List.all_cons, Bool.and_eq_true] at hp
    simp [leadWs, hp.1, ih hp.2]

theorem lcp_append (p a b : Line) : lcp (p ++ a) (p ++ b) = p ++ lcp a b := by
  induction p with
  | nil => rfl
  | cons c cs ih => simp [lcp, ih]

@[simp] theorem lcp_nil_right (a : Line) : lcp a [] = [] := by
  cases a <;> rfl

@[simp] theorem lcp_nil_left (a : Line) : lcp [] a = [] := rfl

theorem leadWs_of_startsNonWs {l : Line} (h : startsNonWs l = true) : leadWs l = [] := by
  cases l with
  | nil => rfl
  | cons c cs =>
    simp only [startsNonWs, Bool.not_eq_true'] at h
    simp [leadWs, h]

theorem blank_pre_append {p : Line} (hp : p.all isWs = true) (l : Line) :
    blank (p ++ l) = blank l := by
  simp [blank, hp]

/-- the image of a relative text under "blank lines emptied, the others indented" -/
def img (p : Line) (r : Text) : Text := r.map (fun l => if blank l then [] else p ++ l)

theorem map_normBlank_indAll {p : Line} (hp : p.all isWs = true) (r : Text) :
    (indAll p r).map normBlank = img p r := by
  simp only [indAll, img, List.map_map]
  apply List.map_congr_left
  intro l _
  simp only [Function.comp, indentLine]
  by_cases h : blank l = true
  · simp [h, normBlank]
  · have h' : blank l = false := by simpa using h
    simp [h', normBlank, blank_pre_append hp]

theorem margin_img {p : Line} (hp : p.all isWs = true) (r : Text) (m : Option Line) :
    margin (m.map (p ++ ·)) (img p r) = (margin m r).map (p ++ ·) := by
  induction r generalizing m with
  | nil => rfl
  | cons l ls ih =>
    by_cases h : blank l = true
    · simp only [img, List.map_cons, h, if_true, margin, blank_nil]
      exact ih m
    · have h' : blank l = false := by simpa using h
      have hb : blank (p ++ l) = false := by rw [blank_pre_append hp]; exact h'
      have hstep : img p (l :: ls) = (p ++ l) :: img p ls := by simp [img, h']
      rw [hstep]
      cases m with
      | none =>
        have := ih (some (leadWs l))
        simp only [Option.map_some, Option.map_none] at this ⊢
        simp only [margin, hb, h', leadWs_append_ws hp]
        exact this
      | some x =>
        have := ih (some (lcp x (leadWs l)))
        simp only [Option.map_some] at this ⊢
        simp only [margin, hb, h', leadWs_append_ws hp, lcp_append]
        exact this

theorem margin_some_nil (r : Text) : margin (some []) r = some [] := by
  induction r with
  | nil => rfl
  | cons l ls ih => simp only [margin]; split <;> simpa using ih

theorem margin_of_startsNonWs (r : Text) (m : Option Line)
    (h : ∃ l ∈ r, startsNonWs l = true) : margin m r = some [] := by
  induction r generalizing m with
  | nil => simp at h
  | cons l ls ih =>
    by_cases hl : startsNonWs l = true
    · have hb := blank_of_startsNonWs hl
      simp only [margin, hb]
      cases m <;> simp [leadWs_of_startsNonWs hl, margin_some_nil]
    · obtain ⟨x, hx, hs⟩ := h
      have hx' : x ∈ ls := by
        rcases List.mem_cons.mp hx with rfl | h1
        · exact absurd hs hl
        · exact h1
      simp only [margin]
      split
      · exact ih _ ⟨x, hx', hs⟩
      · exact ih _ ⟨x, hx', hs⟩

theorem stripPrefix_append (p l : Line) : stripPrefix p (p ++ l) = l := by
  simp [stripPrefix]

theorem stripPrefix_nil (p : Line) : stripPrefix p [] = [] := by
  unfold stripPrefix; split <;> simp

/-- `textwrap.dedent` of a text whose non-blank lines all carry the indentation `p`, one of
them nothing more: exactly `p` is removed, and whitespace-only lines are emptied. -/
theorem dedent_indAll {p : Line} (hp : p.all isWs = true) (r : Text)
    (h : ∃ l ∈ r, startsNonWs l = true) :
    dedent (indAll p r) = r.map normBlank := by
  unfold dedent
  simp only [map_normBlank_indAll hp]
  have hm : margin none (img p r) = some p := by
    have := margin_img hp r none
    simp only [Option.map_none] at this
    rw [this, margin_of_startsNonWs r none h]; simp
  rw [hm]
  simp only [img, List.map_map]
  apply List.map_congr_left
  intro l _
  simp only [Function.comp]
  by_cases hb : blank l = true
  · simp [hb, normBlank, stripPrefix_nil]
  · have h' : blank l = false := by simpa using hb
    simp [h', normBlank, stripPrefix_append]

/-! ### `render` and indentation -/

theorem docTail_fst (p : Line) (d : DocLit) (sfx : Line) :
    (docTail p d sfx).1 = (docTail [] d sfx).1 := by
  unfold docTail; cases d.txt.more <;> rfl

theorem docTail_snd (p : Line) (d : DocLit) (sfx : Line) (h : d.wf = true) :
    (docTail p d sfx).2 = indAll p (docTail [] d sfx).2 := by
  simp only [DocLit.wf, Bool.and_eq_true] at h
  have hc := blank_of_startsNonWs h.2
  unfold docTail
  cases d.txt.more with
  | none => rfl
  | some m =>
    obtain ⟨mid, last⟩ := m
    simp [indentLine, hc]

theorem docTail_fst_not_blank (p : Line) (d : DocLit) (sfx : Line) (h : d.wf = true) :
    blank (docTail p d sfx).1 = false := by
  simp only [DocLit.wf, Bool.and_eq_true] at h
  have ho := blank_of_startsNonWs h.1
  unfold docTail
  cases d.txt.more <;> simp [ho]

theorem bodyParts_fst (p : Line) (b : Body) : (bodyParts p b).1 = (bodyParts [] b).1 := by
  cases b with
  | inline doc stmts =>
    cases doc with
    | none => rfl
    | some d => exact docTail_fst p d stmts
  | block sm cmts ind doc after rest => cases doc <;> rfl

theorem bodyParts_snd (p : Line) (b : Body) (h : b.wf = true) :
    (bodyParts p b).2 = indAll p (bodyParts [] b).2 := by
  cases b with
  | inline doc stmts =>
    cases doc with
    | none => rfl
    | some d => exact docTail_snd p d stmts h
  | block sm cmts ind doc after rest =>
    cases doc with
    | none =>
      simp only [Body.wf, Bool.not_eq_true'] at h
      simp [bodyParts, indentLine, h]
    | some d =>
      simp only [Body.wf] at h
      have h1 := docTail_fst_not_blank [] d after h
      simp [bodyParts, indentLine, h1, docTail_snd p d after h, docTail_fst p d after]

theorem defLine_not_blank (f : FuncDef) (h : f.wf = true) :
    blank (f.defkw ++ f.name ++ f.sig ++ (bodyParts [] f.body).1) = false := by
  simp only [FuncDef.wf, Bool.and_eq_true] at h
  simp [blank_of_startsNonWs h.1.2]

theorem render_eq_indAll (f : FuncDef) (h : f.wf = true) :
    render f = indAll f.pre (render { f with pre := [] }) := by
  have hb : f.body.wf = true := by
    simp only [FuncDef.wf, Bool.and_eq_true] at h; exact h.2
  have hd := defLine_not_blank f h
  simp only [List.append_assoc] at hd
  simp only [render, defLine, indAll_append, indAll_cons, indAll_nil_pre, List.nil_append,
    indentLine_of_not_blank hd, bodyParts_snd f.pre f.body hb, bodyParts_fst f.pre f.body,
    List.append_assoc]

theorem exists_startsNonWs_render (f : FuncDef) (h : f.wf = true) :
    ∃ l ∈ render { f with pre := [] }, startsNonWs l = true := by
  refine ⟨defLine { f with pre := [] }, by simp [render], ?_⟩
  simp only [FuncDef.wf, Bool.and_eq_true] at h
  have := h.1.2
  simp only [defLine, List.nil_append]
  cases hk : f.defkw with
  | nil => simp [hk, startsNonWs] at this
  | cons c cs => simpa [hk, startsNonWs] using this

theorem docTail_norm (d : DocLit) (sfx : Line) (h : d.wf = true) :
    (docTail [] d.norm sfx).1 = (docTail [] d sfx).1
      ∧ (docTail [] d.norm sfx).2 = (docTail [] d sfx).2.map normBlank := by
  simp only [DocLit.wf, Bool.and_eq_true] at h
  have hc := blank_of_startsNonWs h.2
  unfold docTail DocLit.norm Span.norm
  cases d.txt.more with
  | none => simp
  | some m =>
    obtain ⟨mid, last⟩ := m
    simp [normBlank, hc]

theorem bodyParts_norm (b : Body) (h : b.wf = true) :
    (bodyParts [] b.norm).1 = (bodyParts [] b).1
      ∧ (bodyParts [] b.norm).2 = (bodyParts [] b).2.map normBlank := by
  cases b with
  | inline doc stmts =>
    cases doc with
    | none => simp [Body.norm, bodyParts]
    | some d => exact docTail_norm d stmts h
  | block sm cmts ind doc after rest =>
    cases doc with
    | none =>
      simp only [Body.wf, Bool.not_eq_true'] at h
      simp [Body.norm, bodyParts, normBlank, h]
    | some d =>
      simp only [Body.wf] at h
      have h1 := docTail_fst_not_blank [] d after h
      obtain ⟨e1, e2⟩ := docTail_norm d after h
      simp [Body.norm, bodyParts, e1, e2, normBlank, h1]

theorem render_map_normBlank (f : FuncDef) (h : f.wf = true) :
    (render { f with pre := [] }).map normBlank = render (dedentS f) := by
  have hb : f.body.wf = true := by
    simp only [FuncDef.wf, Bool.and_eq_true] at h; exact h.2
  have hd := defLine_not_blank f h
  obtain ⟨e1, e2⟩ := bodyParts_norm f.body hb
  simp only [render, dedentS, defLine, indAll_nil_pre, List.nil_append, List.map_append,
    List.map_cons, normBlank_of_not_blank hd, e1, e2]

/-- `dedent` on the text of a definition is `dedentS` on the definition -/
theorem dedent_render (f : FuncDef) (h : f.wf = true) :
    dedent (render f) = render (dedentS f) := by
  have hp : f.pre.all isWs = true := by
    simp only [FuncDef.wf, Bool.and_eq_true] at h; exact h.1.1
  rw [render_eq_indAll f h, dedent_indAll hp _ (exists_startsNonWs_render f h),
    render_map_normBlank f h]

/-! ### `remove_decorator`, `replace_funcname` -/

theorem cut_mid {α : Type} (a b c : List α) (i j : Nat) (hi : i = a.length)
    (hj : j = a.length + b.length) :
    (a ++ (b ++ c)).take i ++ (a ++ (b ++ c)).drop j = a ++ c := by
  subst hi hj
  rw [List.take_left' rfl, ← List.append_assoc, List.drop_left' (by simp)]

theorem removeDecorator_render (f : FuncDef) :
    removeDecorator (layoutOf f) (render f) = render (undecorate f) := by
  unfold removeDecorator layoutOf
  cases hd : f.decos with
  | nil => simp [render, undecorate, hd, defLine]
  | cons d ds =>
    simp only [List.isEmpty_cons, Bool.false_eq_true, if_false, Nat.add_sub_cancel, render, hd,
      undecorate, defLine, List.append_assoc, indAll_nil, List.nil_append]
    exact cut_mid _ _ _ _ _ (by simp) (by simp)

theorem modifyAt_append (x y : Text) (i : Nat) (g : Line → Line) :
    modifyAt (x ++ y) (x.length + i) g = x ++ modifyAt y i g := by
  induction x with
  | nil => simp
  | cons l ls ih =>
    have : (l :: ls).length + i = (ls.length + i) + 1 := by simp; omega
    simp only [List.cons_append, this, modifyAt, ih]

theorem replaceFuncname_render (f : FuncDef) (n : Line) :
    replaceFuncname (layoutOf f) (render f) n = render { f with name := n } := by
  unfold replaceFuncname layoutOf
  simp only [Nat.add_sub_cancel, render, List.append_assoc]
  have e : f.lead.length + f.decos.length + f.gap.length
      = (indAll f.pre f.lead ++ (indAll f.pre f.decos ++ indAll f.pre f.gap)).length + 0 := by
    simp; omega
  rw [← List.append_assoc (indAll f.pre f.decos), ← List.append_assoc (indAll f.pre f.lead), e,
    modifyAt_append]
  simp only [List.cons_append, modifyAt, defLine, List.append_assoc]
  congr 2
  rw [← List.append_assoc f.pre f.defkw, List.take_left' (by simp)]
  rw [← List.append_assoc (f.pre ++ f.defkw) f.name, List.drop_left' (by simp; omega)]
  simp

/-- `Formula._init_from_funcdef` on the text of a definition is `captureS` on the definition,
for any parser that reports the layout of the two intermediate texts -/
theorem captureText_render (parse : Text → Layout) (f : FuncDef) (name : Option Line)
    (h : f.wf = true)
    (h1 : parse (render (dedentS f)) = layoutOf (dedentS f))
    (h2 : parse (render (undecorate (dedentS f))) = layoutOf (undecorate (dedentS f))) :
    captureText parse (render f) name = render (captureS f name) := by
  unfold captureText captureS
  simp only [dedent_render f h, h1, removeDecorator_render, h2]
  cases name with
  | none => rfl
  | some n => simp only [replaceFuncname_render, withName]

/-! ### `replace_docstring` -/

theorem getD_append_cons {α : Type} (x : List α) (l : α) (y : List α) (i : Nat) (d : α)
    (hi : i = x.length) : (x ++ l :: y).getD i d = l := by
  subst hi
  induction x with
  | nil => rfl
  | cons a as ih => simp

theorem splice_same (x y : Text) (a u b : Line) (new : Line × Text) (sl sc ec : Nat)
    (hsl : sl = x.length + 1) (hsc : sc = a.length) (hec : ec = a.length + u.length) :
    splice (x ++ (a ++ (u ++ b)) :: y) sl sc sl ec new = x ++ joinLines a new b ++ y := by
  subst hsl hsc hec
  unfold splice
  simp only [Nat.add_sub_cancel, getD_append_cons x _ y _ _ rfl, List.take_left' rfl]
  rw [← List.append_assoc a u b, List.drop_left' (by simp)]
  congr 1
  rw [show x ++ (a ++ u ++ b) :: y = (x ++ [a ++ u ++ b]) ++ y by simp,
    List.drop_left' (by simp)]

theorem splice_span (x m y : Text) (a u v b : Line) (new : Line × Text) (sl sc el ec : Nat)
    (hsl : sl = x.length + 1) (hsc : sc = a.length) (hel : el = x.length + 1 + m.length + 1)
    (hec : ec = v.length) :
    splice (x ++ (a ++ u) :: (m ++ (v ++ b) :: y)) sl sc el ec new
      = x ++ joinLines a new b ++ y := by
  subst hsl hsc hel hec
  unfold splice
  have e1 : x ++ (a ++ u) :: (m ++ (v ++ b) :: y) = (x ++ (a ++ u) :: m) ++ (v ++ b) :: y := by
    simp
  simp only [Nat.add_sub_cancel, getD_append_cons x _ _ _ _ rfl, List.take_left' rfl]
  rw [e1, getD_append_cons _ _ y _ _ (by simp; omega), List.drop_left' rfl]
  congr 1
  rw [show (x ++ (a ++ u) :: m) ++ (v ++ b) :: y = ((x ++ (a ++ u) :: m) ++ [v ++ b]) ++ y by simp,
    List.drop_left' (by simp; omega)]

theorem appendLast_snoc (xs : Text) (l b : Line) : appendLast (xs ++ [l]) b = xs ++ [l ++ b] := by
  induction xs with
  | nil => rfl
  | cons a as ih =>
    cases as with
    | nil => rfl
    | cons c cs => simp only [List.cons_append, appendLast] at ih ⊢; rw [ih]

theorem joinLines_snoc (a n1 l b : Line) (xs : Text) :
    joinLines a (n1, xs ++ [l]) b = (a ++ n1) :: (xs ++ [l ++ b]) := by
  unfold joinLines
  cases xs with
  | nil => rfl
  | cons c cs =>
    simp only [List.cons_append]
    rw [← List.cons_append, appendLast_snoc]
    rfl

/-- the lines `replace_docstring` writes are the rendering of `blockDoc` -/
theorem joinLines_newDoc (a ind b : Line) (d : Span) (ii : Bool) :
    joinLines a (newDoc ind d ii) b
      = (a ++ ind ++ (docTail [] (blockDoc ind d ii) b).1) :: (docTail [] (blockDoc ind d ii) b).2 := by
  obtain ⟨first, more⟩ := d
  cases more with
  | none => simp [newDoc, joinLines, docTail, blockDoc, mkDoc]
  | some m =>
    obtain ⟨mid, last⟩ := m
    simp only [newDoc, blockDoc, mkDoc, docTail, Option.map_some, indAll_nil_pre, List.nil_append]
    rw [joinLines_snoc]
    simp

theorem blockDoc_nil_false (d : Span) : blockDoc [] d false = mkDoc d := by
  obtain ⟨first, more⟩ := d
  cases more with
  | none => rfl
  | some m => simp [blockDoc]

theorem joinLines_extra_line (a b : Line) (new : Line × Text) :
    joinLines a (new.1, new.2 ++ [[]]) b = joinLines a new [] ++ [b] := by
  obtain ⟨n1, ns⟩ := new
  cases ns with
  | nil => simp [joinLines, appendLast]
  | cons c cs =>
    have h1 := joinLines_snoc a n1 [] b (c :: cs)
    simp only [List.nil_append] at h1
    rw [h1]
    unfold joinLines
    simp only [List.cons_append, List.cons.injEq, true_and]
    clear h1
    induction cs generalizing c with
    | nil => simp [appendLast]
    | cons e es ih => simp only [appendLast, List.cons_append, List.cons.injEq, true_and]; exact ih e

theorem docTail_mk_none (p opn first cls sfx : Line) :
    docTail p ⟨opn, ⟨first, none⟩, cls⟩ sfx = (opn ++ first ++ cls ++ sfx, []) := rfl

theorem docTail_mk_some (p opn first cls sfx last : Line) (mid : Text) :
    docTail p ⟨opn, ⟨first, some (mid, last)⟩, cls⟩ sfx
      = (opn ++ first, indAll p mid ++ [p ++ last ++ cls ++ sfx]) := rfl

theorem replaceDocstring_render (f : FuncDef) (hp : f.pre = []) (d : Span) (ii : Bool) :
    replaceDocstring (layoutOf f) (render f) d ii = render (replaceDocS f d ii) := by
  obtain ⟨pre, lead, decos, gap, defkw, name, sig, body, trail, pnames⟩ := f
  simp only at hp
  subst hp
  cases body with
  | inline doc stmts =>
    cases doc with
    | none =>
      simp only [replaceDocstring, layoutOf, docPosOf, render, defLine, bodyParts, replaceDocS,
        setDocBody, indAll_nil_pre, List.nil_append, List.length_nil, Nat.zero_add,
        Bool.false_eq_true, if_false, List.append_assoc, List.cons_append]
      rw [← List.append_assoc lead, ← List.append_assoc (lead ++ decos)]
      rw [show defkw ++ (name ++ (sig ++ stmts)) = (defkw ++ name ++ sig) ++ ([] ++ stmts) by simp]
      rw [splice_same _ _ _ _ _ _ _ _ _ (by simp; omega) (by simp; omega) (by simp; omega)]
      rw [joinLines_newDoc, blockDoc_nil_false]
      simp
    | some d0 =>
      obtain ⟨opn0, ⟨first0, more0⟩, cls0⟩ := d0
      cases more0 with
      | none =>
        simp only [replaceDocstring, layoutOf, docPosOf, render, defLine, bodyParts, replaceDocS,
          setDocBody, indAll_nil_pre, List.nil_append, List.length_nil, Nat.zero_add, docTail_mk_none, docTail_mk_some,
          spanEnd, Bool.false_eq_true, if_false, if_true, List.append_assoc, List.cons_append]
        rw [← List.append_assoc lead, ← List.append_assoc (lead ++ decos)]
        rw [show defkw ++ (name ++ (sig ++ (opn0 ++ (first0 ++ (cls0 ++ stmts)))))
          = (defkw ++ name ++ sig) ++ ((opn0 ++ first0 ++ cls0) ++ stmts) by simp]
        rw [splice_same _ _ _ _ _ _ _ _ _ (by simp; omega) (by simp; omega) (by simp; omega)]
        rw [joinLines_newDoc, blockDoc_nil_false]
        simp
      | some m0 =>
        obtain ⟨mid0, last0⟩ := m0
        simp only [replaceDocstring, layoutOf, docPosOf, render, defLine, bodyParts, replaceDocS,
          setDocBody, indAll_nil_pre, List.nil_append, List.length_nil, Nat.zero_add, docTail_mk_none, docTail_mk_some,
          spanEnd, Bool.false_eq_true, if_false, if_true, List.append_assoc, List.cons_append]
        rw [← List.append_assoc lead, ← List.append_assoc (lead ++ decos)]
        rw [show defkw ++ (name ++ (sig ++ (opn0 ++ first0)))
          = (defkw ++ name ++ sig) ++ (opn0 ++ first0) by simp]
        rw [show last0 ++ (cls0 ++ stmts) = (last0 ++ cls0) ++ stmts by simp]
        rw [splice_span _ _ _ _ _ _ _ _ _ _ _ _ (by simp; omega) (by simp; omega) (by simp; omega)
          (by simp)]
        rw [joinLines_newDoc, blockDoc_nil_false]
        simp
  | block sm cmts ind doc after rest =>
    cases doc with
    | none =>
      simp only [replaceDocstring, layoutOf, docPosOf, render, defLine, bodyParts, replaceDocS,
        setDocBody, indAll_nil_pre, List.nil_append, List.length_nil, Nat.zero_add,
        Bool.false_eq_true, if_false, if_true, List.append_assoc, List.cons_append,
        List.append_nil]
      rw [show lead ++ (decos ++ (gap ++ (defkw ++ (name ++ sig)) :: (sm ++ (cmts ++ (ind ++ after) :: (rest ++ trail)))))
          = (lead ++ decos ++ gap ++ (defkw ++ (name ++ sig)) :: (sm ++ cmts)) ++ ([] ++ ([] ++ (ind ++ after))) :: (rest ++ trail) by simp]
      rw [splice_same _ _ _ _ _ _ _ _ _ (by simp; omega) (by simp) (by simp)]
      rw [joinLines_extra_line, joinLines_newDoc]
      simp
    | some d0 =>
      obtain ⟨opn0, ⟨first0, more0⟩, cls0⟩ := d0
      cases more0 with
      | none =>
        simp only [replaceDocstring, layoutOf, docPosOf, render, defLine, bodyParts, replaceDocS,
          setDocBody, indAll_nil_pre, List.nil_append, List.length_nil, Nat.zero_add,
          docTail_mk_none, spanEnd, Bool.false_eq_true, if_false, if_true, List.append_assoc,
          List.cons_append, List.append_nil]
        rw [show lead ++ (decos ++ (gap ++ (defkw ++ (name ++ sig)) :: (sm ++ (cmts ++ (ind ++ (opn0 ++ (first0 ++ (cls0 ++ after)))) :: (rest ++ trail)))))
            = (lead ++ decos ++ gap ++ (defkw ++ (name ++ sig)) :: (sm ++ cmts)) ++ ([] ++ ((ind ++ opn0 ++ first0 ++ cls0) ++ after)) :: (rest ++ trail) by simp]
        rw [splice_same _ _ _ _ _ _ _ _ _ (by simp; omega) (by simp) (by simp; omega)]
        rw [joinLines_newDoc]
        simp
      | some m0 =>
        obtain ⟨mid0, last0⟩ := m0
        simp only [replaceDocstring, layoutOf, docPosOf, render, defLine, bodyParts, replaceDocS,
          setDocBody, indAll_nil_pre, List.nil_append, List.length_nil, Nat.zero_add,
          docTail_mk_some, spanEnd, Bool.false_eq_true, if_false, if_true, List.append_assoc,
          List.cons_append, List.append_nil]
        rw [show lead ++ (decos ++ (gap ++ (defkw ++ (name ++ sig)) :: (sm ++ (cmts ++ (ind ++ (opn0 ++ first0)) :: (mid0 ++ (last0 ++ (cls0 ++ after)) :: (rest ++ trail))))))
            = (lead ++ decos ++ gap ++ (defkw ++ (name ++ sig)) :: (sm ++ cmts)) ++ ([] ++ (ind ++ opn0 ++ first0)) :: (mid0 ++ ((last0 ++ cls0) ++ after) :: (rest ++ trail)) by simp]
        rw [splice_span _ _ _ _ _ _ _ _ _ _ _ _ (by simp; omega) (by simp) (by simp; omega)
          (by simp)]
        rw [joinLines_newDoc]
        simp

theorem wf_replaceDocS (f : FuncDef) (d : Span) (ii : Bool) (h : f.wf = true) :
    (replaceDocS f d ii).wf = true := by
  simp only [FuncDef.wf, Bool.and_eq_true] at h ⊢
  refine ⟨h.1, ?_⟩
  simp only [replaceDocS]
  cases f.body with
  | inline doc stmts => simp [setDocBody, Body.wf, DocLit.wf, mkDoc, q3, startsNonWs, isWs]
  | block sm cmts ind doc after rest =>
    cases doc <;> simp [setDocBody, Body.wf, DocLit.wf, mkDoc, blockDoc, q3, startsNonWs, isWs]

/-- `set_doc` on the text of a captured definition is `setDocS` on the definition -/
theorem setDocText_render (parse : Text → Layout) (f : FuncDef) (d : Span) (ii : Bool)
    (h : f.wf = true) (hp : f.pre = [])
    (h0 : parse (render f) = layoutOf f)
    (h1 : parse (render (dedentS (replaceDocS f d ii))) = layoutOf (dedentS (replaceDocS f d ii)))
    (h2 : parse (render (undecorate (dedentS (replaceDocS f d ii))))
      = layoutOf (undecorate (dedentS (replaceDocS f d ii)))) :
    setDocText parse (render f) d ii f.name = render (setDocS f d ii) := by
  unfold setDocText setDocS
  rw [h0, replaceDocstring_render f hp,
    captureText_render parse _ _ (wf_replaceDocS f d ii h) h1 h2]

/-! ### lambda expressions -/

theorem startsNonWs_append {a : Line} (b : Line) (h : startsNonWs a = true) :
    startsNonWs (a ++ b) = true := by
  cases a with
  | nil => simp [startsNonWs] at h
  | cons c cs => simpa [startsNonWs] using h

theorem LamStmt.render_eq_indAll (s : LamStmt) (h : s.wf = true) :
    s.render = indAll s.pre ({ s with pre := [] } : LamStmt).render := by
  simp only [LamStmt.wf, Bool.and_eq_true, Bool.not_eq_true'] at h
  obtain ⟨⟨⟨_, _⟩, h3⟩, h4⟩ := h
  unfold LamStmt.render
  cases hm : s.lam.more with
  | none =>
    simp only [hm, Option.isNone_none, if_true] at h4
    simp only [List.append_assoc] at h4
    simp [indentLine, h4]
  | some m =>
    obtain ⟨mid, last⟩ := m
    simp only [hm, Option.isNone_some, Bool.false_eq_true, if_false, List.append_nil,
      Bool.not_eq_true'] at h4 h3
    have h5 : blank (last ++ (s.sfx)) = false := h3
    simp only [List.cons_append, List.nil_append, indAll_append, indAll_cons, indAll_nil,
      indAll_nil_pre, indentLine_of_not_blank h4, indentLine_of_not_blank h5, List.append_assoc]

theorem LamStmt.exists_startsNonWs (s : LamStmt) (h : s.wf = true) :
    ∃ l ∈ ({ s with pre := [] } : LamStmt).render, startsNonWs l = true := by
  simp only [LamStmt.wf, Bool.and_eq_true] at h
  obtain ⟨⟨⟨_, h2⟩, _⟩, _⟩ := h
  rcases Bool.or_eq_true _ _ |>.mp h2 with h2 | h2
  · obtain ⟨l, hl, hs⟩ := List.any_eq_true.mp h2
    exact ⟨l, by simp [LamStmt.render, hl], hs⟩
  · unfold LamStmt.render
    cases s.lam.more with
    | none =>
      refine ⟨s.pfx ++ s.lam.first ++ s.sfx, by simp, startsNonWs_append _ h2⟩
    | some m =>
      refine ⟨s.pfx ++ s.lam.first, by simp, h2⟩

theorem LamStmt.render_map_normBlank (s : LamStmt) (h : s.wf = true) :
    (({ s with pre := [] } : LamStmt).render).map normBlank = s.dedentS.render := by
  simp only [LamStmt.wf, Bool.and_eq_true, Bool.not_eq_true'] at h
  obtain ⟨⟨⟨_, _⟩, h3⟩, h4⟩ := h
  unfold LamStmt.render LamStmt.dedentS Span.norm
  cases hm : s.lam.more with
  | none =>
    simp only [hm, Option.isNone_none, if_true] at h4
    simp only [List.append_assoc] at h4
    simp [normBlank, h4]
  | some m =>
    obtain ⟨mid, last⟩ := m
    simp only [hm, Option.isNone_some, Bool.false_eq_true, if_false, List.append_nil,
      Bool.not_eq_true'] at h4 h3
    have h5 : blank (last ++ (s.sfx)) = false := h3
    simp only [List.cons_append, List.nil_append, List.map_append, List.map_cons, List.map_nil,
      indAll_nil_pre, normBlank_of_not_blank h4, normBlank_of_not_blank h5, Option.map_some]

theorem LamStmt.dedent_render (s : LamStmt) (h : s.wf = true) :
    dedent s.render = s.dedentS.render := by
  have hp : s.pre.all isWs = true := by
    simp only [LamStmt.wf, Bool.and_eq_true] at h; exact h.1.1.1
  rw [s.render_eq_indAll h, dedent_indAll hp _ (s.exists_startsNonWs h), s.render_map_normBlank h]



theorem extractLambda_render (s : LamStmt) :
    extractLambda s.layout s.render = s.rawLam := by
  unfold extractLambda LamStmt.layout LamStmt.render LamStmt.rawLam
  cases hm : s.lam.more with
  | none =>
    simp only [if_true, Nat.add_sub_cancel, List.append_assoc, List.cons_append, List.nil_append]
    rw [getD_append_cons _ _ _ _ _ (by simp)]
    rw [← List.append_assoc s.pfx, ← List.append_assoc s.pre, List.take_left' (by simp; omega)]
    rw [← List.append_assoc s.pre, List.drop_left' (by simp)]
  | some m =>
    obtain ⟨mid, last⟩ := m
    have hne : ¬ (s.lead.length + 1 = s.lead.length + 1 + mid.length + 1) := by omega
    simp only [hne, if_false, Nat.add_sub_cancel, List.append_assoc, List.cons_append,
      List.nil_append]
    rw [getD_append_cons _ _ _ _ _ (by simp)]
    rw [← List.append_assoc s.pre, List.drop_left' (by simp)]
    congr 1
    have e : indAll s.pre s.lead ++ (s.pre ++ s.pfx ++ s.lam.first) ::
          (indAll s.pre mid ++ (s.pre ++ (last ++ s.sfx)) :: indAll s.pre s.trail)
        = (indAll s.pre s.lead ++ (s.pre ++ s.pfx ++ s.lam.first) :: indAll s.pre mid)
            ++ (s.pre ++ (last ++ s.sfx)) :: indAll s.pre s.trail := by simp
    rw [e, getD_append_cons _ _ _ _ _ (by simp; omega), List.take_left' (by simp; omega)]
    rw [show indAll s.pre s.lead ++ (s.pre ++ s.pfx ++ s.lam.first) :: indAll s.pre mid
      = (indAll s.pre s.lead ++ [s.pre ++ s.pfx ++ s.lam.first]) ++ indAll s.pre mid by simp,
      List.drop_left' (by simp)]
    rw [← List.append_assoc s.pre, List.take_left' (by simp)]




theorem q3_prefix_mono (s t : List Char) (h : q3.isPrefixOf s = true) :
    q3.isPrefixOf (s ++ t) = true := by
  match s, h with
  | [], h => simp [q3, List.isPrefixOf] at h
  | [a], h => simp [q3, List.isPrefixOf] at h
  | [a, b], h => simp [q3, List.isPrefixOf] at h
  | a :: b :: c :: r, h => simpa [q3, List.isPrefixOf] using h

theorem q3_prefix_app (s : List Char) (h : q3.isPrefixOf (s ++ q3) = true) :
    s = [] ∨ s.getLast? = some '"' ∨ q3.isPrefixOf s = true := by
  match s, h with
  | [], _ => exact .inl rfl
  | [a], h =>
    simp [q3, List.isPrefixOf] at h
    exact .inr (.inl (by simp [← h]))
  | [a, b], h =>
    simp [q3, List.isPrefixOf] at h
    exact .inr (.inl (by simp [← h.2]))
  | a :: b :: c :: r, h =>
    exact .inr (.inr (by simpa [q3, List.isPrefixOf] using h))

theorem getLast?_cons_cons (a b : Char) (r : List Char) :
    (a :: b :: r).getLast? = (b :: r).getLast? := by
  simp [List.getLast?_cons_cons]

theorem lex_safe (s : List Char) (h : SafeChars s = true) :
    lexTriple (s ++ q3) = some (s, []) := by
  induction s with
  | nil => simp [lexTriple, q3, List.isPrefixOf]
  | cons c cs ih =>
    simp only [SafeChars, Bool.and_eq_true, Bool.not_eq_true', bne_iff_ne, ne_eq] at h
    obtain ⟨⟨h1, h2⟩, h3⟩ := h
    have hc : c ≠ '\\' := by
      intro e; subst e; simp at h3
    have h1' : q3.isPrefixOf (c :: cs) = false ∧ hasTriple cs = false := by
      simpa [hasTriple] using h1
    have hnp : q3.isPrefixOf (c :: cs ++ q3) = false := by
      cases hp : q3.isPrefixOf (c :: cs ++ q3) with
      | false => rfl
      | true =>
        rcases q3_prefix_app (c :: cs) hp with h | h | h
        · cases h
        · exact absurd h h2
        · rw [h1'.1] at h; cases h
    have hs : SafeChars cs = true := by
      simp only [SafeChars, Bool.and_eq_true, Bool.not_eq_true', bne_iff_ne, ne_eq]
      refine ⟨⟨h1'.2, ?_⟩, ?_⟩
      · cases cs with
        | nil => simp
        | cons d ds => rwa [getLast?_cons_cons] at h2
      · simp only [List.contains_cons, Bool.or_eq_false_iff] at h3; exact h3.2
    have := ih hs
    simp only [List.cons_append] at hnp ⊢
    simp only [lexTriple, hc, if_false, hnp, this, Option.map_some, Bool.false_eq_true]

theorem lex_safe_conv (s : List Char) (h : lexTriple (s ++ q3) = some (s, [])) :
    SafeChars s = true := by
  induction s with
  | nil => simp [SafeChars, hasTriple]
  | cons c cs ih =>
    simp only [List.cons_append, lexTriple] at h
    by_cases hc : c = '\\'
    · simp [hc] at h
    · simp only [hc, if_false] at h
      cases hp : q3.isPrefixOf (c :: (cs ++ q3)) with
      | true => simp [hp] at h
      | false =>
        simp only [hp, Bool.false_eq_true, if_false] at h
        cases hl : lexTriple (cs ++ q3) with
        | none => simp [hl] at h
        | some r =>
          obtain ⟨r1, r2⟩ := r
          simp only [hl, Option.map_some, Option.some.injEq, Prod.mk.injEq, List.cons.injEq,
            true_and] at h
          obtain ⟨e1, e2⟩ := h
          subst e1 e2
          have hs := ih hl
          simp only [SafeChars, Bool.and_eq_true, Bool.not_eq_true', bne_iff_ne, ne_eq] at hs ⊢
          obtain ⟨⟨s1, s2⟩, s3⟩ := hs
          have hnp : q3.isPrefixOf (c :: r1) = false := by
            cases hq : q3.isPrefixOf (c :: r1) with
            | false => rfl
            | true =>
              have := q3_prefix_mono (c :: r1) q3 hq
              simp only [List.cons_append] at this
              rw [hp] at this; cases this
          refine ⟨⟨by simp [hasTriple, hnp, s1], ?_⟩, ?_⟩
          · cases r1 with
            | nil =>
              intro e
              simp at e
              subst e
              simp [q3, List.isPrefixOf] at hp
            | cons d ds => rw [getLast?_cons_cons]; exact s2
          · simp only [List.contains_cons, Bool.or_eq_false_iff]
            exact ⟨by simpa using fun e => hc e.symm, s3⟩

theorem lex_safe_iff (s : List Char) :
    lexTriple (s ++ q3) = some (s, []) ↔ SafeChars s = true :=
  ⟨lex_safe_conv s, lex_safe s⟩


/-! ### normalisation is idempotent; captured definitions are well formed -/

theorem map_normBlank_idem (t : Text) : (t.map normBlank).map normBlank = t.map normBlank := by
  simp [List.map_map, Function.comp_def]

theorem Span.norm_norm (s : Span) : s.norm.norm = s.norm := by
  obtain ⟨first, more⟩ := s
  cases more with
  | none => rfl
  | some m => simp [Span.norm, Function.comp_def]

theorem DocLit.norm_norm (d : DocLit) : d.norm.norm = d.norm := by
  simp [DocLit.norm, Span.norm_norm]

theorem Body.norm_norm (b : Body) : b.norm.norm = b.norm := by
  cases b with
  | inline doc stmts => cases doc <;> simp [Body.norm, DocLit.norm_norm]
  | block sm cmts ind doc after rest =>
    cases doc <;> simp [Body.norm, DocLit.norm_norm, Function.comp_def]

theorem dedentS_dedentS (f : FuncDef) : dedentS (dedentS f) = dedentS f := by
  simp [dedentS, Body.norm_norm, Function.comp_def]

theorem captureS_captureS (f : FuncDef) (n m : Option Line) :
    captureS (captureS f n) m = withName (captureS f n) m := by
  cases n <;> cases m <;>
    simp [captureS, withName, undecorate, dedentS, Body.norm_norm, Function.comp_def]

theorem Body.wf_norm (b : Body) (h : b.wf = true) : b.norm.wf = true := by
  cases b with
  | inline doc stmts => cases doc <;> simpa [Body.norm, Body.wf, DocLit.wf, DocLit.norm] using h
  | block sm cmts ind doc after rest =>
    cases doc <;> simpa [Body.norm, Body.wf, DocLit.wf, DocLit.norm] using h

theorem wf_captureS (f : FuncDef) (n : Option Line) (h : f.wf = true) :
    (captureS f n).wf = true := by
  simp only [FuncDef.wf, Bool.and_eq_true] at h
  cases n <;>
    simp [captureS, withName, undecorate, dedentS, FuncDef.wf, h.1.2, Body.wf_norm _ h.2]

theorem dedentS_captureS (f : FuncDef) (n : Option Line) :
    dedentS (captureS f n) = captureS f n := by
  cases n <;> simp [captureS, withName, undecorate, dedentS, Body.norm_norm, Function.comp_def]

theorem undecorate_captureS (f : FuncDef) (n : Option Line) :
    undecorate (captureS f n) = captureS f n := by
  cases n <;> simp [captureS, withName, undecorate, dedentS]

/-! ### renaming along an inheritance chain -/

theorem renameChain_defined (n : Line) (es : List Entry) (prev : Option Formula) (i : Nat)
    (e : Entry) (hi : es[i]? = some e) (hd : e.derived = false) :
    (renameChain n prev es)[i]? = some { e with formula := renameFormula n e.formula } := by
  induction es generalizing prev i with
  | nil => simp at hi
  | cons x xs ih =>
    cases i with
    | zero =>
      simp only [List.getElem?_cons_zero, Option.some.injEq] at hi
      subst hi
      simp only [renameChain, List.getElem?_cons_zero, Option.some.injEq]
      cases hf : x.formula with
      | fn f => simp [hd, renameFormula]
      | lam src p => simp [renameFormula]
    | succ j =>
      simp only [List.getElem?_cons_succ] at hi
      simp only [renameChain, List.getElem?_cons_succ]
      exact ih _ j hi

theorem renameChain_derived (n : Line) (es : List Entry) (prev : Option Formula) (i : Nat)
    (e0 e : Entry) (f : FuncDef) (h0 : es[i]? = some e0) (hi : es[i + 1]? = some e)
    (hd : e.derived = true) (hf : e.formula = .fn f) :
    ((renameChain n prev es)[i + 1]?).map (·.formula)
      = ((renameChain n prev es)[i]?).map (·.formula) := by
  induction es generalizing prev i with
  | nil => simp at hi
  | cons x xs ih =>
    cases i with
    | zero =>
      cases xs with
      | nil => simp at hi
      | cons y ys =>
        simp only [List.getElem?_cons_succ, List.getElem?_cons_zero, Option.some.injEq] at hi
        subst hi
        simp [renameChain, hd, hf]
    | succ j =>
      simp only [List.getElem?_cons_succ] at hi h0
      simp only [renameChain, List.getElem?_cons_succ]
      exact ih _ j h0 hi

theorem renameChain_length (n : Line) (es : List Entry) (prev : Option Formula) :
    (renameChain n prev es).length = es.length := by
  induction es generalizing prev with
  | nil => rfl
  | cons x xs ih => simp [renameChain, ih]

end MxModel.Capture
