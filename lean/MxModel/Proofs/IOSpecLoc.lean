import MxModel.Proofs.IOSpecBasic
/-! What every operation can do to the list of specs (`STrans`), and the two invariants that
concern the specs alone: identities are fresh and unique (`SidInv`, holds in every reachable
state) and two specs of one file name different sheets (`LocInv`). -/
namespace MxModel.IOSpec

@[simp] theorem setValMap_sid (sid v τ) : (setValMap sid v τ).sid = τ.sid := by unfold setValMap; split <;> rfl
@[simp] theorem setValMap_group (sid v τ) : (setValMap sid v τ).group = τ.group := by unfold setValMap; split <;> rfl
@[simp] theorem setValMap_path (sid v τ) : (setValMap sid v τ).path = τ.path := by unfold setValMap; split <;> rfl
@[simp] theorem setValMap_csv (sid v τ) : (setValMap sid v τ).csv = τ.csv := by unfold setValMap; split <;> rfl
@[simp] theorem setValMap_sheet (sid v τ) : (setValMap sid v τ).sheet = τ.sheet := by unfold setValMap; split <;> rfl
theorem setValMap_val (sid v τ) : (setValMap sid v τ).val = if τ.sid = sid then v else τ.val := by
  unfold setValMap; split <;> rfl
@[simp] theorem setSheetMap_sid (sid sh τ) : (setSheetMap sid sh τ).sid = τ.sid := by unfold setSheetMap; split <;> rfl
@[simp] theorem setSheetMap_group (sid sh τ) : (setSheetMap sid sh τ).group = τ.group := by unfold setSheetMap; split <;> rfl
@[simp] theorem setSheetMap_path (sid sh τ) : (setSheetMap sid sh τ).path = τ.path := by unfold setSheetMap; split <;> rfl
@[simp] theorem setSheetMap_csv (sid sh τ) : (setSheetMap sid sh τ).csv = τ.csv := by unfold setSheetMap; split <;> rfl
@[simp] theorem setSheetMap_val (sid sh τ) : (setSheetMap sid sh τ).val = τ.val := by unfold setSheetMap; split <;> rfl
theorem setSheetMap_sheet (sid sh τ) : (setSheetMap sid sh τ).sheet = if τ.sid = sid then sh else τ.sheet := by
  unfold setSheetMap; split <;> rfl

@[simp] theorem setPathMap_sid (m old new τ) : (setPathMap m old new τ).sid = τ.sid := by unfold setPathMap; split <;> rfl
@[simp] theorem setPathMap_group (m old new τ) : (setPathMap m old new τ).group = τ.group := by unfold setPathMap; split <;> rfl
@[simp] theorem setPathMap_csv (m old new τ) : (setPathMap m old new τ).csv = τ.csv := by unfold setPathMap; split <;> rfl
@[simp] theorem setPathMap_sheet (m old new τ) : (setPathMap m old new τ).sheet = τ.sheet := by unfold setPathMap; split <;> rfl
@[simp] theorem setPathMap_val (m old new τ) : (setPathMap m old new τ).val = τ.val := by unfold setPathMap; split <;> rfl

/-- the list of specs after `update_path`: the specs of the io `(m, old)` leave their place and
come back, with the new path, at the end -/
def movePath (l : List Spec) (m : Nat) (old new : String) : List Spec :=
  l.filter (fun τ => ¬ (τ.group = m ∧ τ.path = old)) ++ (ioSpecs l m old).map (setPathMap m old new)

/-- the elementary changes of (specs, nextSid); `Q m path` is what is known about the io keys that
are newly claimed (by a creation or by the path setter) -/
inductive STrans (Q : Nat → String → Prop) : List Spec × Nat → List Spec × Nat → Prop
  | refl (p) : STrans Q p p
  | del (l n sid) : STrans Q (l, n) (l.filter (fun τ => τ.sid ≠ sid), n)
  | setVal (l n sid v) : STrans Q (l, n) (l.map (setValMap sid v), n)
  | add (l n m path csv sheet data) (h : canAdd (ioSpecs l m path) sheet = true) (hq : Q m path) :
      STrans Q (l, n) (insertSpec l ⟨n, m, path, ftOf l m path csv, sheet, data⟩, n + 1)
  | setSheet (l n) (σ : Spec) (sh : Option String) (hσ : σ ∈ l) (h : sheetFree l σ sh = true) :
      STrans Q (l, n) (l.map (setSheetMap σ.sid sh), n)
  | setPath (l n) (m : Nat) (old new : String) (hne : new ≠ old) (h : ioSpecs l m new = []) (hq : Q m new) :
      STrans Q (l, n) (movePath l m old new, n)
  | trans {a b c} : STrans Q a b → STrans Q b c → STrans Q a c

variable {Q : Nat → String → Prop}

theorem mem_movePath {l : List Spec} {m : Nat} {old new : String} {τ : Spec} :
    τ ∈ movePath l m old new ↔
      (τ ∈ l ∧ ¬ (τ.group = m ∧ τ.path = old)) ∨
      (∃ σ ∈ l, σ.group = m ∧ σ.path = old ∧ τ = { σ with path := new }) := by
  unfold movePath
  simp only [List.mem_append, List.mem_filter, decide_eq_true_eq, List.mem_map, mem_ioSpecs]
  constructor
  · rintro (h | ⟨σ, ⟨h1, h2, h3⟩, rfl⟩)
    · exact Or.inl h
    · refine Or.inr ⟨σ, h1, h2, h3, ?_⟩
      simp [setPathMap, h2, h3]
  · rintro (h | ⟨σ, h1, h2, h3, rfl⟩)
    · exact Or.inl h
    · refine Or.inr ⟨σ, ⟨h1, h2, h3⟩, ?_⟩
      simp [setPathMap, h2, h3]

structure SidOK (p : List Spec × Nat) : Prop where
  sidLt : ∀ σ ∈ p.1, σ.sid < p.2
  sidUnique : ∀ σ ∈ p.1, ∀ τ ∈ p.1, σ.sid = τ.sid → σ = τ

/-- two different specs of one file: an Excel file, both name a sheet, the names differ -/
def Loc (l : List Spec) : Prop :=
  ∀ σ ∈ l, ∀ τ ∈ l, σ.group = τ.group → σ.path = τ.path → σ ≠ τ →
    σ.csv = false ∧ σ.sheet ≠ none ∧ τ.sheet ≠ none ∧ σ.sheet ≠ τ.sheet

theorem sidOK_strans {a b : List Spec × Nat} (t : STrans Q a b) (h : SidOK a) :
    SidOK b := by
  induction t with
  | refl p => exact h
  | del l n sid =>
    refine ⟨?_, ?_⟩
    · intro σ hσ; simp only [List.mem_filter] at hσ; exact h.sidLt σ hσ.1
    · intro σ hσ τ hτ; simp only [List.mem_filter] at hσ hτ; exact h.sidUnique σ hσ.1 τ hτ.1
  | setVal l n sid v =>
    refine ⟨?_, ?_⟩
    · intro σ hσ
      simp only [List.mem_map] at hσ
      obtain ⟨σ0, h0, rfl⟩ := hσ
      simpa using h.sidLt σ0 h0
    · intro σ hσ τ hτ he
      simp only [List.mem_map] at hσ hτ
      obtain ⟨σ0, h0, rfl⟩ := hσ
      obtain ⟨τ0, h1, rfl⟩ := hτ
      have : σ0.sid = τ0.sid := by simpa using he
      rw [h.sidUnique σ0 h0 τ0 h1 this]
  | add l n m path csv sheet data hc =>
    refine ⟨?_, ?_⟩
    · intro σ hσ
      simp only [mem_insertSpec] at hσ
      rcases hσ with rfl | hσ
      · simp
      · have := h.sidLt σ hσ; simp only at this ⊢; omega
    · intro σ hσ τ hτ he
      simp only [mem_insertSpec] at hσ hτ
      rcases hσ with rfl | hσ <;> rcases hτ with rfl | hτ
      · rfl
      · have := h.sidLt τ hτ; simp only at this he; omega
      · have := h.sidLt σ hσ; simp only at this he; omega
      · exact h.sidUnique σ hσ τ hτ he
  | setSheet l n σ0 sh hσ0 hf =>
    refine ⟨?_, ?_⟩
    · intro σ hσ
      simp only [List.mem_map] at hσ
      obtain ⟨σ1, h0, rfl⟩ := hσ
      simpa using h.sidLt σ1 h0
    · intro σ hσ τ hτ he
      simp only [List.mem_map] at hσ hτ
      obtain ⟨σ1, h0, rfl⟩ := hσ
      obtain ⟨τ1, h1, rfl⟩ := hτ
      have : σ1.sid = τ1.sid := by simpa using he
      rw [h.sidUnique σ1 h0 τ1 h1 this]
  | setPath l n m old new hne hfree hq =>
    refine ⟨?_, ?_⟩
    · intro σ hσ
      rcases mem_movePath.mp hσ with ⟨h0, _⟩ | ⟨σ0, h0, _, _, rfl⟩
      · exact h.sidLt σ h0
      · exact h.sidLt σ0 h0
    · intro σ hσ τ hτ he
      rcases mem_movePath.mp hσ with ⟨h0, n0⟩ | ⟨σ0, h0, g0, p0, rfl⟩ <;>
        rcases mem_movePath.mp hτ with ⟨h1, n1⟩ | ⟨τ0, h1, g1, p1, rfl⟩
      · exact h.sidUnique σ h0 τ h1 he
      · have := h.sidUnique σ h0 τ0 h1 he
        subst this; exact absurd ⟨g1, p1⟩ n0
      · have := h.sidUnique σ0 h0 τ h1 he
        subst this; exact absurd ⟨g0, p0⟩ n1
      · have := h.sidUnique σ0 h0 τ0 h1 he
        subst this; rfl
  | trans _ _ ih1 ih2 => exact ih2 (ih1 h)

theorem ioSpecs_csv_of_canAdd {l : List Spec} {m : Nat} {path : String} {sheet : Option String}
    (hc : canAdd (ioSpecs l m path) sheet = true) {c : Spec} (hm : c ∈ ioSpecs l m path) :
    c.csv = false ∧ c.sheet ≠ none ∧ sheet ≠ none ∧ c.sheet ≠ sheet := by
  unfold canAdd at hc
  rw [List.all_eq_true] at hc
  have := hc c hm
  simp only [Bool.and_eq_true, Bool.not_eq_true', Option.isSome_iff_ne_none, bne_iff_ne] at this
  exact ⟨this.1.1.1, this.1.1.2, this.1.2, this.2⟩

theorem ftOf_false_of_mem {l : List Spec} {m : Nat} {path : String} {sheet : Option String} {csv : Bool}
    (hc : canAdd (ioSpecs l m path) sheet = true) {c : Spec} (hm : c ∈ ioSpecs l m path) :
    ftOf l m path csv = false := by
  unfold ftOf
  split
  · rename_i c0 rest heq
    exact (ioSpecs_csv_of_canAdd hc (by rw [heq]; simp)).1
  · rename_i heq; rw [heq] at hm; simp at hm

theorem loc_strans {a b : List Spec × Nat} (t : STrans Q a b) (hs : SidOK a) (h : Loc a.1) :
    Loc b.1 := by
  induction t with
  | refl p => exact h
  | del l n sid =>
    intro σ hσ τ hτ
    simp only [List.mem_filter] at hσ hτ
    exact h σ hσ.1 τ hτ.1
  | setVal l n sid v =>
    intro σ hσ τ hτ hg hp hne
    simp only [List.mem_map] at hσ hτ
    obtain ⟨σ0, h0, rfl⟩ := hσ
    obtain ⟨τ0, h1, rfl⟩ := hτ
    have hne0 : σ0 ≠ τ0 := fun he => hne (by rw [he])
    simp only [setValMap_group, setValMap_path] at hg hp
    simpa using h σ0 h0 τ0 h1 hg hp hne0
  | add l n m path csv sheet data hc =>
    intro σ hσ τ hτ hg hp hne
    simp only [mem_insertSpec] at hσ hτ
    rcases hσ with rfl | hσ <;> rcases hτ with rfl | hτ
    · exact absurd rfl hne
    · simp only at hg hp ⊢
      have hm : τ ∈ ioSpecs l m path := mem_ioSpecs.mpr ⟨hτ, hg.symm, hp.symm⟩
      obtain ⟨h1, h2, h3, h4⟩ := ioSpecs_csv_of_canAdd hc hm
      exact ⟨ftOf_false_of_mem hc hm, h3, h2, fun e => h4 e.symm⟩
    · simp only at hg hp ⊢
      have hm : σ ∈ ioSpecs l m path := mem_ioSpecs.mpr ⟨hσ, hg, hp⟩
      obtain ⟨h1, h2, h3, h4⟩ := ioSpecs_csv_of_canAdd hc hm
      exact ⟨h1, h2, h3, h4⟩
    · exact h σ hσ τ hτ hg hp hne
  | setSheet l n σ0 sh hσ0 hf =>
    intro σ hσ τ hτ hg hp hne
    simp only [List.mem_map] at hσ hτ
    obtain ⟨σ1, h0, rfl⟩ := hσ
    obtain ⟨τ1, h1, rfl⟩ := hτ
    have hne0 : σ1 ≠ τ1 := fun he => hne (by rw [he])
    have hg0 : σ1.group = τ1.group := by simpa using hg
    have hp0 : σ1.path = τ1.path := by simpa using hp
    obtain ⟨k1, k2, k3, k4⟩ := h σ1 h0 τ1 h1 hg0 hp0 hne0
    unfold sheetFree at hf
    rw [List.all_eq_true] at hf
    by_cases hs1 : σ1.sid = σ0.sid
    · have e1 : σ1 = σ0 := hs.sidUnique σ1 h0 σ0 hσ0 hs1
      have hs2 : τ1.sid ≠ σ0.sid := fun e => hne0 (hs.sidUnique σ1 h0 τ1 h1 (by rw [hs1, e]))
      have hτm : τ1 ∈ ioSpecs l σ0.group σ0.path :=
        mem_ioSpecs.mpr ⟨h1, by rw [← e1, hg0], by rw [← e1, hp0]⟩
      have hfree := hf τ1 hτm
      simp only [hs2, decide_false, Bool.false_or, Bool.and_eq_true, Option.isSome_iff_ne_none,
        bne_iff_ne] at hfree
      simp only [setSheetMap_csv, setSheetMap_sheet, hs1, hs2, if_true, if_false]
      exact ⟨k1, hfree.1.1, k3, fun e => hfree.2 e.symm⟩
    · by_cases hs2 : τ1.sid = σ0.sid
      · have e1 : τ1 = σ0 := hs.sidUnique τ1 h1 σ0 hσ0 hs2
        have hσm : σ1 ∈ ioSpecs l σ0.group σ0.path :=
          mem_ioSpecs.mpr ⟨h0, by rw [← e1, hg0], by rw [← e1, hp0]⟩
        have hfree := hf σ1 hσm
        simp only [hs1, decide_false, Bool.false_or, Bool.and_eq_true, Option.isSome_iff_ne_none,
          bne_iff_ne] at hfree
        simp only [setSheetMap_csv, setSheetMap_sheet, hs1, hs2, if_true, if_false]
        exact ⟨k1, k2, hfree.1.1, hfree.2⟩
      · simp only [setSheetMap_csv, setSheetMap_sheet, hs1, hs2, if_false]
        exact ⟨k1, k2, k3, k4⟩
  | setPath l n m old new hne hfree hq =>
    intro σ hσ τ hτ hg hp hne'
    have hnone : ∀ c ∈ l, c.group = m → c.path ≠ new := by
      intro c hc hgc hpc
      have : c ∈ ioSpecs l m new := mem_ioSpecs.mpr ⟨hc, hgc, hpc⟩
      rw [hfree] at this; cases this
    rcases mem_movePath.mp hσ with ⟨h0, n0⟩ | ⟨σ0, h0, g0, p0, rfl⟩ <;>
      rcases mem_movePath.mp hτ with ⟨h1, n1⟩ | ⟨τ0, h1, g1, p1, rfl⟩
    · exact h σ h0 τ h1 hg hp hne'
    · simp only at hg hp
      exact absurd hp (hnone σ h0 (hg.trans g1))
    · simp only at hg hp
      exact absurd hp.symm (hnone τ h1 (hg.symm.trans g0))
    · simp only at hg ⊢
      have hne0 : σ0 ≠ τ0 := fun e => hne' (by rw [e])
      exact h σ0 h0 τ0 h1 hg (p0.trans p1.symm) hne0
  | trans t1 _ ih1 ih2 => exact ih2 (sidOK_strans t1 hs) (ih1 hs h)

/-- where the io keys after a change come from: they were there, or they were newly claimed -/
theorem strans_origin {a b : List Spec × Nat} (t : STrans Q a b) :
    ∀ τ ∈ b.1, (∃ σ ∈ a.1, σ.group = τ.group ∧ σ.path = τ.path) ∨ Q τ.group τ.path := by
  induction t with
  | refl p => intro τ hτ; exact Or.inl ⟨τ, hτ, rfl, rfl⟩
  | del l n sid =>
    intro τ hτ
    simp only [List.mem_filter] at hτ
    exact Or.inl ⟨τ, hτ.1, rfl, rfl⟩
  | setVal l n sid v =>
    intro τ hτ
    simp only [List.mem_map] at hτ
    obtain ⟨σ, hσ, rfl⟩ := hτ
    exact Or.inl ⟨σ, hσ, by simp, by simp⟩
  | add l n m path csv sheet data hc hq =>
    intro τ hτ
    simp only [mem_insertSpec] at hτ
    rcases hτ with rfl | hτ
    · exact Or.inr hq
    · exact Or.inl ⟨τ, hτ, rfl, rfl⟩
  | setSheet l n σ0 sh hσ0 hf =>
    intro τ hτ
    simp only [List.mem_map] at hτ
    obtain ⟨σ, hσ, rfl⟩ := hτ
    exact Or.inl ⟨σ, hσ, by simp, by simp⟩
  | setPath l n m old new hne hfree hq =>
    intro τ hτ
    rcases mem_movePath.mp hτ with ⟨h0, _⟩ | ⟨σ0, h0, g0, p0, rfl⟩
    · exact Or.inl ⟨τ, h0, rfl, rfl⟩
    · exact Or.inr (by simpa [g0] using hq)
  | trans _ _ ih1 ih2 =>
    intro τ hτ
    rcases ih2 τ hτ with ⟨σ, hσ, hg, hp⟩ | hq
    · rcases ih1 σ hσ with ⟨ρ, hρ, hg', hp'⟩ | hq
      · exact Or.inl ⟨ρ, hρ, hg'.trans hg, hp'.trans hp⟩
      · exact Or.inr (by rw [← hg, ← hp]; exact hq)
    · exact Or.inr hq

/-- the groups (models) of the specs after a change -/
theorem strans_weaken {Q' : Nat → String → Prop} (hQ : ∀ m p, Q m p → Q' m p) {a b : List Spec × Nat}
    (t : STrans Q a b) : STrans Q' a b := by
  induction t with
  | refl p => exact .refl p
  | del l n sid => exact .del l n sid
  | setVal l n sid v => exact .setVal l n sid v
  | add l n m path csv sheet data hc hq => exact .add l n m path csv sheet data hc (hQ _ _ hq)
  | setSheet l n σ0 sh hσ0 hf => exact .setSheet l n σ0 sh hσ0 hf
  | setPath l n m old new hne hfree hq => exact .setPath l n m old new hne hfree (hQ _ _ hq)
  | trans _ _ ih1 ih2 => exact .trans ih1 ih2

end MxModel.IOSpec
