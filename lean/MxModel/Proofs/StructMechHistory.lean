import MxModel.Proofs.StructMechLive
/-!
# The definitions of a reachable state, read off the history

`apply_spec` says what one accepted operation does to the definitions.  Folded over a history: the
definitions of the state reached are exactly those the ACCEPTED operations of the history made and no
later accepted operation removed (`defd_run`) - computed by `specDefs`, which looks at the mechanism's
state only to decide acceptance (`St.accepts`) and the name an unnamed cells gets (`St.cellsName`), never
at its member tables.  `renameCells` is excluded (its effect on the definitions named `old` / `new` is
stated only as a frame, `renameCells_spec`).
-/
namespace MxModel.SM
open MxModel.C3

abbrev Defs := Attr → Path → String → Option Nat

/-- what an accepted operation does to the definitions -/
def updDefs (kw : List String) (st : St) (d : Defs) : Op → Defs
  | .newSpace parent name _ refs => fun a q n =>
      if q = parent ++ [name] ∧ a = .refs then refsDef none refs n else d a q n
  | .delSpace p => fun a q n => if isPrefix p q = true then none else d a q n
  | .newCells p name fname v => fun a q n =>
      if q = p ∧ a = .cells ∧ n = st.cellsName kw p name fname then some v else d a q n
  | .setFormula p name v => fun a q n => if q = p ∧ a = .cells ∧ n = name then some v else d a q n
  | .delCells p name => fun a q n => if q = p ∧ a = .cells ∧ n = name then none else d a q n
  | .setRef p name v => fun a q n => if q = p ∧ a = .refs ∧ n = name then some v else d a q n
  | .delRef p name => fun a q n => if q = p ∧ a = .refs ∧ n = name then none else d a q n
  | _ => d

def Op.isRename : Op → Bool
  | .renameCells _ _ _ => true
  | _ => false

/-- the definitions after a history, from the empty model: only accepted operations count -/
def specDefs (kw : List String) : St → Defs → List Op → Defs
  | _, d, [] => d
  | st, d, op :: ops =>
    if st.accepts kw op then specDefs kw (st.step kw op).1 (updDefs kw st d op) ops
    else specDefs kw st d ops

theorem defd_step (kw : List String) (st : St) (hk : KeysOK st) (op : Op) (hr : op.isRename = false)
    (d : Defs) (hd : ∀ a q n, st.defd a q n = d a q n) :
    ∀ a q n, (st.step kw op).1.defd a q n = (if st.accepts kw op then updDefs kw st d op else d) a q n := by
  intro a q n
  rw [← apply_isSome]
  unfold St.step
  cases hop : st.apply kw op with
  | none => simp only [Option.isSome_none, Bool.false_eq_true, if_false]; exact hd a q n
  | some st' =>
    simp only [Option.isSome_some, if_true]
    have E := apply_spec kw st st' hk op hop
    cases op with
    | newSpace parent name bases refs =>
      obtain ⟨_, _, _, _, hdefs⟩ := E
      simp only [updDefs]; rw [hdefs a q n, hd a q n]
    | delSpace p => simp only [updDefs]; rw [E.defs a q n, hd a q n]
    | newCells p name fname v => simp only [updDefs]; rw [E.2 a q n, hd a q n]
    | setFormula p name v => simp only [updDefs]; rw [E.2 a q n, hd a q n]
    | delCells p name => simp only [updDefs]; rw [E.2 a q n, hd a q n]
    | renameCells p old new => cases hr
    | addBases p bs => simp only [updDefs]; rw [E.defs a q n, hd a q n]
    | removeBases p bs => simp only [updDefs]; rw [E.defs a q n, hd a q n]
    | setRef p name v => simp only [updDefs]; rw [E.2 a q n, hd a q n]
    | delRef p name => simp only [updDefs]; rw [E.2 a q n, hd a q n]
    | setGlobal name =>
      simp only [updDefs]
      rw [← hd a q n]; unfold St.defd St.mem St.find; rw [E.1]
    | delGlobal name =>
      simp only [updDefs]
      rw [← hd a q n]; unfold St.defd St.mem St.find; rw [E.1]

theorem defd_run_from (kw : List String) : ∀ (ops : List Op) (st : St) (d : Defs), Inv st →
    (∀ op ∈ ops, op.isRename = false) → (∀ a q n, st.defd a q n = d a q n) →
    ∀ a q n, (St.run kw st ops).defd a q n = specDefs kw st d ops a q n := by
  intro ops
  induction ops with
  | nil => intro st d _ _ hd a q n; exact hd a q n
  | cons op ops ih =>
    intro st d hi hr hd a q n
    unfold St.run
    simp only [List.foldl_cons]
    have hstep := defd_step kw st hi.wf.keys op (hr op (by simp)) d hd
    have hi' := inv_step kw st op hi
    have hr' : ∀ o ∈ ops, o.isRename = false := fun o ho => hr o (List.mem_cons_of_mem _ ho)
    unfold specDefs
    cases hacc : st.accepts kw op with
    | true =>
      simp only [if_true]
      exact ih (st.step kw op).1 _ hi' hr' (fun a q n => by rw [hstep a q n, hacc]; rfl) a q n
    | false =>
      simp only [Bool.false_eq_true, if_false]
      have hsame : (st.step kw op).1 = st := by
        unfold St.step
        have := apply_isSome kw st op
        rw [hacc] at this
        cases hop : st.apply kw op with
        | none => rfl
        | some _ => rw [hop] at this; cases this
      rw [hsame]
      exact ih st d hi hr' hd a q n

/-- **the definitions of a reachable state are exactly those the accepted operations of the history made
and did not remove** (histories without `renameCells`) -/
theorem defd_run (kw : List String) (ops : List Op) (hr : ∀ op ∈ ops, op.isRename = false)
    (a : Attr) (q : Path) (n : String) :
    (St.run kw {} ops).defd a q n = specDefs kw {} (fun _ _ _ => none) ops a q n :=
  defd_run_from kw ops {} _ inv_empty hr (fun a q n => St.defd_of_not_mem _ a q n (by simp [St.ids])) a q n

end MxModel.SM
