import MxModel.Proofs.StructMechRename
/-!
# The definitions of a reachable state, read off the history

`apply_spec` says what one accepted operation does to the definitions.  Folded over a history: the
definitions of the state reached are exactly those the ACCEPTED operations of the history made and no
later accepted operation removed (`defd_run`) - computed by `specDefs`, which looks at the mechanism's
state only to decide acceptance (`St.accepts`) and the name an unnamed cells gets (`St.cellsName`), never
at its member tables - except for `renameCells`, whose targets (`St.renameTargets`: the cells of the space,
the copies derived from it, the overriding cells of sub spaces) and whose collisions with an existing cells
of the new name are read off the state (`renameCells_full`).
-/
namespace MxModel.SM
open MxModel.C3

abbrev Defs := Attr → Path → String → Option Nat

/-- what an accepted operation does to the definitions -/
def updDefs (kw : List String) (st : St) (d : Defs) : Op → Defs
  | .newSpace parent name _ refs => fun a q n =>
      if q = parent ++ [name] ∧ a = .refs then refsDef none refs n else d a q n
  | .delSpace p => fun a q n => if isPrefix p q = true then none else d a q n
  | .newCells p name fname v => fun a q n =>
      if q = p ∧ a = .cells ∧ n = st.cellsName kw p name fname then some v else d a q n
  | .setFormula p name v => fun a q n => if q = p ∧ a = .cells ∧ n = name then some v else d a q n
  | .delCells p name => fun a q n => if q = p ∧ a = .cells ∧ n = name then none else d a q n
  | .setRef p name v => fun a q n => if q = p ∧ a = .refs ∧ n = name then some v else d a q n
  | .delRef p name => fun a q n => if q = p ∧ a = .refs ∧ n = name then none else d a q n
  | .renameCells p old new => fun a q n =>
      if a = .cells ∧ q ∈ st.renameTargets p old then
        (if n = old then none
         else if n = new then (if (st.mem .cells q new).isSome then d .cells q new else d .cells q old)
         else d .cells q n)
      else d a q n
  | _ => d

/-- the definitions after a history, from the empty model: only accepted operations count -/
def specDefs (kw : List String) : St → Defs → List Op → Defs
  | _, d, [] => d
  | st, d, op :: ops =>
    if st.accepts kw op then specDefs kw (st.step kw op).1 (updDefs kw st d op) ops
    else specDefs kw st d ops

theorem defd_step (kw : List String) (st : St) (hi : Inv st) (op : Op)
    (d : Defs) (hd : ∀ a q n, st.defd a q n = d a q n) :
    ∀ a q n, (st.step kw op).1.defd a q n = (if st.accepts kw op then updDefs kw st d op else d) a q n := by
  intro a q n
  rw [← apply_isSome]
  unfold St.step
  cases hop : st.apply kw op with
  | none => simp only [Option.isSome_none, Bool.false_eq_true, if_false]; exact hd a q n
  | some st' =>
    simp only [Option.isSome_some, if_true]
    have E := apply_spec kw st st' hi.wf.keys op hop
    cases op with
    | newSpace parent name bases refs =>
      obtain ⟨_, _, _, _, hdefs⟩ := E
      simp only [updDefs]; rw [hdefs a q n, hd a q n]
    | delSpace p => simp only [updDefs]; rw [E.defs a q n, hd a q n]
    | newCells p name fname v => simp only [updDefs]; rw [E.2 a q n, hd a q n]
    | setFormula p name v => simp only [updDefs]; rw [E.2 a q n, hd a q n]
    | delCells p name => simp only [updDefs]; rw [E.2 a q n, hd a q n]
    | renameCells p old new =>
      simp only [updDefs]
      rw [(renameCells_full kw st st' hi p old new hop).2 a q n]
      unfold renamedDef
      rw [hd a q n, hd .cells q new, hd .cells q old, hd .cells q n]
    | addBases p bs => simp only [updDefs]; rw [E.defs a q n, hd a q n]
    | removeBases p bs => simp only [updDefs]; rw [E.defs a q n, hd a q n]
    | setRef p name v => simp only [updDefs]; rw [E.2 a q n, hd a q n]
    | delRef p name => simp only [updDefs]; rw [E.2 a q n, hd a q n]
    | setGlobal name =>
      simp only [updDefs]
      rw [← hd a q n]; unfold St.defd St.mem St.find; rw [E.1]
    | delGlobal name =>
      simp only [updDefs]
      rw [← hd a q n]; unfold St.defd St.mem St.find; rw [E.1]

theorem defd_run_from (kw : List String) : ∀ (ops : List Op) (st : St) (d : Defs), Inv st →
    (∀ a q n, st.defd a q n = d a q n) →
    ∀ a q n, (St.run kw st ops).defd a q n = specDefs kw st d ops a q n := by
  intro ops
  induction ops with
  | nil => intro st d _ hd a q n; exact hd a q n
  | cons op ops ih =>
    intro st d hi hd a q n
    unfold St.run
    simp only [List.foldl_cons]
    have hstep := defd_step kw st hi op d hd
    have hi' := inv_step kw st op hi
    unfold specDefs
    cases hacc : st.accepts kw op with
    | true =>
      simp only [if_true]
      exact ih (st.step kw op).1 _ hi' (fun a q n => by rw [hstep a q n, hacc]; rfl) a q n
    | false =>
      simp only [Bool.false_eq_true, if_false]
      have hsame : (st.step kw op).1 = st := by
        unfold St.step
        have := apply_isSome kw st op
        rw [hacc] at this
        cases hop : st.apply kw op with
        | none => rfl
        | some _ => rw [hop] at this; cases this
      rw [hsame]
      exact ih st d hi hd a q n

/-- **the definitions of a reachable state are exactly those the accepted operations of the history made
and did not remove** (every history) -/
theorem defd_run (kw : List String) (ops : List Op) (a : Attr) (q : Path) (n : String) :
    (St.run kw {} ops).defd a q n = specDefs kw {} (fun _ _ _ => none) ops a q n :=
  defd_run_from kw ops {} _ inv_empty (fun a q n => St.defd_of_not_mem _ a q n (by simp [St.ids])) a q n

end MxModel.SM
