import MxModel.Proofs.IOSpecMain
/-! The list of closed models changes only when a model is closed; models that are closed hold no
spec as long as no `new_pandas` is performed through their handles (`ClosedFree`); io keys of one
model never denote the same file under two spellings as long as no operation claims a key whose
normal form another key of the model has (`NoAlias`). -/
namespace MxModel.IOSpec

@[simp] theorem closed_implNewRef (st o n v) : (implNewRef st o n v).closed = st.closed := rfl
@[simp] theorem closed_implDelRef (st o n) : (implDelRef st o n).closed = st.closed := rfl
@[simp] theorem closed_implChangeRef (st o n v) : (implChangeRef st o n v).closed = st.closed := rfl
@[simp] theorem closed_delSpec (st σ) : (delSpec st σ).closed = st.closed := rfl
@[simp] theorem closed_v2rAppend (st m v r) : (v2rAppend st m v r).closed = st.closed := rfl
@[simp] theorem closed_setSpecVal (st σ v) : (setSpecVal st σ v).closed = st.closed := rfl
@[simp] theorem closed_delSpace (st s) : (delSpace st s).closed = st.closed := rfl

@[simp] theorem closed_rmNewRef (st o n v) : (rmNewRef st o n v).closed = st.closed := by
  unfold rmNewRef; split <;> rfl

@[simp] theorem closed_dropIfEmpty (st m v l) : (dropIfEmpty st m v l).closed = st.closed := by
  unfold dropIfEmpty; split
  · split <;> rfl
  · rfl

@[simp] theorem closed_changeDrop (st m prev) : (changeDrop st m prev).closed = st.closed := by
  unfold changeDrop; split
  · rfl
  · simp

@[simp] theorem closed_rmDelRef (st o n) : (rmDelRef st o n).1.closed = st.closed := by
  unfold rmDelRef
  split
  · rfl
  · split
    · rfl
    · split
      · rfl
      · rfl
      · split
        · simp
        · rfl

@[simp] theorem closed_rmChangeRef (st o n v) : (rmChangeRef st o n v).1.closed = st.closed := by
  unfold rmChangeRef
  split
  · rfl
  · split <;> simp

theorem closed_updLoop (m : Nat) (old new : Val) (todo : List Ref) :
    ∀ (st : St) (acc : List Ref), (updLoop st m old new todo acc).1.closed = st.closed := by
  induction todo with
  | nil => intro st acc; rfl
  | cons r rest ih =>
    intro st acc
    unfold updLoop
    split
    · rfl
    · rw [ih]; rfl

@[simp] theorem closed_rmUpdateValue (st m old new) : (rmUpdateValue st m old new).1.closed = st.closed := by
  unfold rmUpdateValue
  split
  · rfl
  · split
    · rfl
    · split
      · split
        · rfl
        · rw [closed_updLoop]; rfl
      · rw [closed_updLoop]

@[simp] theorem closed_setAttr (kw st o n v) : (setAttr kw st o n v).1.closed = st.closed := by
  unfold setAttr
  split
  · split
    · rfl
    · split <;> simp
  · split
    · rfl
    · split
      · simp
      · split
        · simp
        · split <;> simp

@[simp] theorem closed_delAttr (st o n) : (delAttr st o n).1.closed = st.closed := by
  unfold delAttr
  split
  · split
    · rfl
    · split
      · simp
      · rfl
  · split
    · rfl
    · split
      · simp
      · split <;> rfl

@[simp] theorem closed_newSpec (st m path csv sheet data) :
    (newSpec st m path csv sheet data).1.closed = st.closed := by
  unfold newSpec
  split
  · rfl
  · split <;> rfl

@[simp] theorem closed_newPandas (kw st o n path csv sheet data) :
    (newPandas kw st o n path csv sheet data).1.closed = st.closed := by
  unfold newPandas
  have h1 := closed_newSpec st o.model path csv sheet data
  split
  · rename_i st1 e heq; rw [heq] at h1; exact h1
  · rename_i st1 σ heq
    rw [heq] at h1
    have h2 := closed_setAttr kw st1 o n data
    split
    · rename_i st2 heq2; rw [heq2] at h2; simp only at h1 h2 ⊢; rw [h2, h1]
    · rename_i st2 e heq2
      rw [heq2] at h2
      simp only at h1 h2
      split
      · simp only [closed_delSpec]; rw [h2, h1]
      · simp only; rw [h2, h1]

@[simp] theorem closed_setSheet (st m v sh) : (setSheet st m v sh).1.closed = st.closed := by
  unfold setSheet
  split
  · rfl
  · split <;> rfl

@[simp] theorem closed_setPath (st m v p) : (setPath st m v p).1.closed = st.closed := by
  unfold setPath
  split
  · rfl
  · split
    · rfl
    · split <;> rfl

@[simp] theorem closed_delSpecOf (st m v) : (delSpecOf st m v).1.closed = st.closed := by
  unfold delSpecOf
  split
  · rfl
  · rfl

/-- only `close` of an open model changes the list of closed models -/
theorem closed_step (kw : List String) (st : St) (op : Op) :
    (step kw st op).closed = st.closed ∨
    ∃ m, op = .close m ∧ st.closed.contains m = false ∧ (step kw st op) = (closeModel st m).1 := by
  unfold step stepR
  cases op with
  | newModel m => simp only; split <;> exact Or.inl rfl
  | newSpace m s name => simp only; split <;> (try split) <;> exact Or.inl rfl
  | newCells o name sc => simp only; split <;> (try split) <;> exact Or.inl rfl
  | newPandas o name path csv sheet data =>
    simp only; split
    · exact Or.inl rfl
    · split <;> exact Or.inl (by simp)
  | bind o name v => simp only; split <;> exact Or.inl (by simp)
  | del o name => simp only; split <;> exact Or.inl (by simp)
  | update m old new => simp only; split <;> exact Or.inl (by simp)
  | setSheet m v sh => simp only; split <;> exact Or.inl (by simp)
  | setPath m v p => simp only; split <;> exact Or.inl (by simp)
  | delSpec m v => simp only; split <;> exact Or.inl (by simp)
  | close m =>
    simp only; split
    · exact Or.inl rfl
    · split
      · exact Or.inl rfl
      · rename_i hc
        exact Or.inr ⟨m, rfl, by simpa using hc, rfl⟩

/-! ### closed models hold no spec -/

/-- no spec belongs to a closed model -/
def ClosedFree (st : St) : Prop := ∀ σ ∈ st.specs, st.closed.contains σ.group = false

theorem closeModel_closed {st : St} (h : RInv st) (m : Nat) :
    (closeModel st m).1.closed = m :: st.closed ∧
    ∀ τ ∈ (closeModel st m).1.specs, τ ∈ st.specs ∧ τ.group ≠ m := by
  have hrel := (closeModel_releases h m).2.1
  obtain ⟨L, hL, _⟩ := rmSpecs_exact h m
  unfold closeModel rmDelAllSpec at hrel ⊢
  simp only [hL] at hrel ⊢
  obtain ⟨_, _, _, _, e, f⟩ := foldl_delSpec_fields L.reverse st
  refine ⟨by rw [e], fun τ hτ => ⟨((f τ).mp hτ).1, hrel τ hτ⟩⟩

theorem closedFree_step (kw : List String) {st : St} (h : RInv st) (hc : ClosedFree st) {op : Op} :
    ClosedFree (step kw st op) := by
  rcases closed_step kw st op with hcl | ⟨m, rfl, hm, hst⟩
  · intro τ hτ
    rw [hcl]
    rcases strans_origin (strans_step kw st op) τ hτ with ⟨σ, hσ, hg, _⟩ | ⟨hq, hs, hn⟩
    · rw [← hg]; exact hc σ hσ
    · cases op with
      | newPandas o name path csv sheet data => exact hn rfl
      | setPath m v p =>
        simp only [opKey, Option.some.injEq, Prod.mk.injEq] at hq
        obtain ⟨σ, hσ, hg⟩ := hs rfl
        rw [← hg]; exact hc σ hσ
      | _ => simp [opKey] at hq
  · rw [hst]
    obtain ⟨e, f⟩ := closeModel_closed h m
    intro τ hτ
    rw [e]
    obtain ⟨h1, h2⟩ := f τ hτ
    have := hc τ h1
    simp only [List.contains_cons, Bool.or_eq_false_iff, beq_eq_false_iff_ne, ne_eq]
    exact ⟨h2, this⟩

theorem closedFree_run (kw : List String) : ∀ (ops : List Op) (st : St), RInv st → ClosedFree st →
    AllClean kw st ops → ClosedFree (run kw st ops) := by
  intro ops
  induction ops with
  | nil => intro st _ hc _; exact hc
  | cons op rest ih =>
    intro st h hc ha
    exact ih _ (rinv_step kw h ha.1) (closedFree_step kw h hc) ha.2

end MxModel.IOSpec
