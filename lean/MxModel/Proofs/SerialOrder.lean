import MxModel.Proofs.SerialMain
/-! A closed-form sufficient condition for `NoRefOverrideOrder`: no reference name is defined by two different
spaces of one space's lineage. -/
namespace MxModel.Serial
open MxModel.PathCodec

/-- (owner, name) of every reference definition, model-level ones with owner `[]` -/
def refKeys (m : MDesc) : List (Path × Name) := (refDefs m).map (fun e => (e.1, e.2.name))

/-- along the lineage (the space and its bases in linearisation order) of every space, a reference name has at
most one definer -/
def noRefTwiceInLineage (m : MDesc) : Bool :=
  (ctxOf m).spaces.all (fun s =>
    (lineage (ctxOf m) (baseDefs m) s).all (fun q =>
      (lineage (ctxOf m) (baseDefs m) s).all (fun q' =>
        (refKeys m).all (fun k => !(k.1 == q && (refKeys m).contains (q', k.2)) || q == q'))))

theorem refsPass_of_noRefTwice (m : MDesc) (hkeys : (refKeys m).Nodup) (h : noRefTwiceInLineage m = true) :
    ∀ (pre suf : List (Path × RefD)), refDefs m = pre ++ suf →
      refsPass (fun done p r => p == [] || !refConflict (ctxOf m) (baseDefs m) done p r.name)
        (pre.map (fun e => (e.1, e.2.name))) suf = true := by
  intro pre suf
  induction suf generalizing pre with
  | nil => intro _; rfl
  | cons e rest ih =>
    intro heq
    simp only [refsPass, Bool.and_eq_true]
    constructor
    · -- the check for `e`
      cases hp : (e.1 == []) with
      | true => rfl
      | false =>
        simp only [Bool.false_or, Bool.not_eq_true']
        cases hc : refConflict (ctxOf m) (baseDefs m) (pre.map (fun e => (e.1, e.2.name))) e.1 e.2.name with
        | false => rfl
        | true =>
          exfalso
          unfold refConflict at hc
          split at hc
          · cases hc
          · split at hc
            · cases hc
            · simp only [List.any_eq_true] at hc
              obtain ⟨s, hs, hhas⟩ := hc
              simp only [subsOf, List.mem_filter, Bool.and_eq_true] at hs
              obtain ⟨hsmem, _, hpin⟩ := hs
              simp only [hasRef, List.any_eq_true] at hhas
              obtain ⟨q, hq, hqdone⟩ := hhas
              -- both (q, x) and (e.1, x) are keys of the description
              have hqk : (q, e.2.name) ∈ refKeys m := by
                have : (q, e.2.name) ∈ pre.map (fun e => (e.1, e.2.name)) := by simpa using hqdone
                simp only [refKeys, heq, List.map_append, List.mem_append]
                exact Or.inl this
              have hek : (e.1, e.2.name) ∈ refKeys m := by
                simp [refKeys, heq]
              have hall := h
              simp only [noRefTwiceInLineage, List.all_eq_true] at hall
              have := hall s hsmem q hq e.1 (by simpa using hpin) (q, e.2.name) hqk
              simp only [beq_self_eq_true, Bool.true_and, Bool.or_eq_true, Bool.not_eq_true', beq_iff_eq] at this
              have hqe : q = e.1 := by
                rcases this with h1 | h1
                · have : (refKeys m).contains (e.1, e.2.name) = true := by simpa using hek
                  rw [this] at h1; cases h1
                · exact h1
              -- then the key of `e` occurs twice
              rw [hqe] at hqdone
              have hdup : (e.1, e.2.name) ∈ pre.map (fun e => (e.1, e.2.name)) := by simpa using hqdone
              unfold refKeys at hkeys
              rw [heq, List.map_append, List.map_cons] at hkeys
              have := (List.nodup_append.mp hkeys).2.2 _ hdup _ (List.mem_cons_self)
              exact this rfl
    · have := ih (pre ++ [e]) (by simp [heq])
      simpa using this

end MxModel.Serial
