import MxModel.Kernels.Relative
/-!
Helper lemmas for `Kernels/Relative.lean`: the Python slicing loops compute the longest
common prefix / suffix, the lengthening loop finds the outermost related pair of roots, and
the final test of `get_relative` is "the base root is a prefix of the value".
-/
namespace MxModel.Relative

/-! ### longest common prefix / suffix (the declarative counterpart of `_get_shared_part`) -/

def lcp : List String → List String → List String
  | a :: as, b :: bs => if a = b then a :: lcp as bs else []
  | _, _ => []

def lcs (a b : List String) : List String := (lcp a.reverse b.reverse).reverse

theorem lcp_prefix_left : ∀ (a b : List String), lcp a b <+: a
  | [], _ => by simp [lcp]
  | _ :: _, [] => by simp [lcp]
  | a :: as, b :: bs => by
    simp only [lcp]
    split
    · exact (List.prefix_cons_inj a).mpr (lcp_prefix_left as bs)
    · exact List.nil_prefix

theorem lcp_prefix_right : ∀ (a b : List String), lcp a b <+: b
  | [], _ => by simp [lcp]
  | _ :: _, [] => by simp [lcp]
  | a :: as, b :: bs => by
    simp only [lcp]
    split
    · rename_i h; subst h
      exact (List.prefix_cons_inj a).mpr (lcp_prefix_right as bs)
    · exact List.nil_prefix

theorem prefix_lcp : ∀ (p a b : List String), p <+: a → p <+: b → p <+: lcp a b
  | [], _, _, _, _ => List.nil_prefix
  | x :: p, [], _, h, _ => by simp at h
  | x :: p, _ :: _, [], _, h => by simp at h
  | x :: p, a :: as, b :: bs, ha, hb => by
    rw [List.cons_prefix_cons] at ha hb
    obtain ⟨rfl, ha⟩ := ha
    obtain ⟨rfl, hb⟩ := hb
    simp only [lcp, if_true]
    exact (List.prefix_cons_inj x).mpr (prefix_lcp p as bs ha hb)

theorem lcs_suffix_left (a b : List String) : lcs a b <:+ a := by
  have h := List.reverse_suffix.mpr (lcp_prefix_left a.reverse b.reverse)
  rw [List.reverse_reverse] at h
  exact h

theorem lcs_suffix_right (a b : List String) : lcs a b <:+ b := by
  have h := List.reverse_suffix.mpr (lcp_prefix_right a.reverse b.reverse)
  rw [List.reverse_reverse] at h
  exact h

theorem suffix_lcs (t a b : List String) (ha : t <:+ a) (hb : t <:+ b) : t <:+ lcs a b := by
  have h := prefix_lcp t.reverse a.reverse b.reverse (List.reverse_prefix.mpr ha) (List.reverse_prefix.mpr hb)
  have h2 := List.reverse_suffix.mpr h
  rw [List.reverse_reverse] at h2
  exact h2

/-! ### the slicing loop of `_get_shared_part` -/

theorem take_eq_take_iff (a b : List String) (n : Nat) (ha : n ≤ a.length) (_hb : n ≤ b.length) :
    a.take n = b.take n ↔ n ≤ (lcp a b).length := by
  constructor
  · intro h
    have h1 : a.take n <+: a := List.take_prefix n a
    have h2 : a.take n <+: b := by rw [h]; exact List.take_prefix n b
    have := (prefix_lcp _ _ _ h1 h2).length_le
    simpa [List.length_take, Nat.min_eq_left ha] using this
  · intro h
    have h1 := List.prefix_iff_eq_take.mp (lcp_prefix_left a b)
    have h2 := List.prefix_iff_eq_take.mp (lcp_prefix_right a b)
    have e1 : a.take n = (lcp a b).take n := by
      conv => rhs; rw [h1]
      rw [List.take_take, Nat.min_eq_left h]
    have e2 : b.take n = (lcp a b).take n := by
      conv => rhs; rw [h2]
      rw [List.take_take, Nat.min_eq_left h]
    rw [e1, e2]

theorem sharedLoop_left (a b : List String) : ∀ n, n ≤ a.length → n ≤ b.length →
    sharedLoop true a b n =
      if min n (lcp a b).length = 0 then none else some (a.take (min n (lcp a b).length)) := by
  intro n
  induction n with
  | zero => intro _ _; simp [sharedLoop]
  | succ n ih =>
    intro ha hb
    simp only [sharedLoop, part, if_true]
    by_cases h : a.take (n + 1) = b.take (n + 1)
    · have hk := (take_eq_take_iff a b (n + 1) ha hb).mp h
      simp only [h, if_true]
      rw [Nat.min_eq_left hk]
      simp [← h]
    · have hk : ¬ (n + 1 ≤ (lcp a b).length) := fun hk => h ((take_eq_take_iff a b (n + 1) ha hb).mpr hk)
      simp only [h, if_false]
      rw [ih (by omega) (by omega)]
      have e : min n (lcp a b).length = min (n + 1) (lcp a b).length := by omega
      rw [e]

theorem sharedLoop_left_min (a b : List String) :
    sharedLoop true a b (min a.length b.length) = if lcp a b = [] then none else some (lcp a b) := by
  rw [sharedLoop_left a b _ (Nat.min_le_left _ _) (Nat.min_le_right _ _)]
  have h1 := (lcp_prefix_left a b).length_le
  have h2 := (lcp_prefix_right a b).length_le
  have e : min (min a.length b.length) (lcp a b).length = (lcp a b).length := by omega
  rw [e, ← List.prefix_iff_eq_take.mp (lcp_prefix_left a b)]
  by_cases h : lcp a b = []
  · simp [h]
  · have : (lcp a b).length ≠ 0 := by simpa using h
    simp [h, this]

theorem part_right (l : List String) (n : Nat) : part false l n = (part true l.reverse n).reverse := by
  simp [part, List.reverse_take]

theorem sharedLoop_right (a b : List String) : ∀ n,
    sharedLoop false a b n = (sharedLoop true a.reverse b.reverse n).map List.reverse := by
  intro n
  induction n with
  | zero => simp [sharedLoop]
  | succ n ih =>
    simp only [sharedLoop]
    rw [part_right a, part_right b, ih]
    by_cases h : part true a.reverse (n + 1) = part true b.reverse (n + 1)
    · simp [h]
    · have h' : ¬ (part true a.reverse (n + 1)).reverse = (part true b.reverse (n + 1)).reverse := by
        intro hh; exact h (List.reverse_inj.mp hh)
      simp [h, h']

theorem sharedLoop_right_min (a b : List String) :
    sharedLoop false a b (min a.length b.length) = if lcs a b = [] then none else some (lcs a b) := by
  rw [sharedLoop_right]
  have := sharedLoop_left_min a.reverse b.reverse
  simp only [List.length_reverse] at this
  rw [this]
  by_cases h : lcp a.reverse b.reverse = []
  · simp [h, lcs]
  · simp [h, lcs]

/-! ### clean paths: non-empty, no empty component (every `idstr` of a space or cells) -/

def Clean (p : Path) : Prop := p ≠ [] ∧ "" ∉ p

instance (p : Path) : Decidable (Clean p) := by unfold Clean; exact inferInstance

theorem splitP_of_ne {p : Path} (h : p ≠ []) : splitP p = p := by simp [splitP, h]

theorem joinP_of_not_mem {l : List String} (h : "" ∉ l) : joinP l = l := by
  unfold joinP
  split
  · rename_i e; subst e; simp at h
  · rfl

theorem not_mem_of_sublist {l l' : List String} (h : l'.Sublist l) (hm : "" ∉ l) : "" ∉ l' :=
  fun hx => hm (h.mem hx)

theorem lenNode_of_ne {p : Path} (h : p ≠ []) : lenNode p = p.length := by simp [lenNode, splitP_of_ne h]

theorem trimRight_clean {p : Path} (h : Clean p) (n : Nat) : trimRight p n = p.take (p.length - n) := by
  unfold trimRight
  split
  · rename_i e; subst e; simp
  · rw [splitP_of_ne h.1]
    exact joinP_of_not_mem (not_mem_of_sublist (List.take_sublist _ _) h.2)

theorem trimLeft_clean {p : Path} (h : Clean p) (n : Nat) : trimLeft p n = p.drop n := by
  unfold trimLeft
  rw [splitP_of_ne h.1]
  exact joinP_of_not_mem (not_mem_of_sublist (List.drop_sublist _ _) h.2)

theorem sharedAsc_clean {a b : Path} (ha : Clean a) (hb : Clean b) :
    sharedAsc a b = if lcp a b = [] then none else some (lcp a b) := by
  unfold sharedAsc sharedPart
  rw [splitP_of_ne ha.1, splitP_of_ne hb.1, sharedLoop_left_min]
  split
  · rfl
  · simp [joinP_of_not_mem (not_mem_of_sublist (lcp_prefix_left a b).sublist ha.2)]

theorem sharedDesc_clean {a b : Path} (ha : Clean a) (hb : Clean b) :
    sharedDesc a b = if lcs a b = [] then none else some (lcs a b) := by
  unfold sharedDesc sharedPart
  rw [splitP_of_ne ha.1, splitP_of_ne hb.1, sharedLoop_right_min]
  split
  · rfl
  · simp [joinP_of_not_mem (not_mem_of_sublist (lcs_suffix_left a b).sublist ha.2)]

/-- the shared trailing part as `get_relative` uses it: the longest common suffix, cut so that
a root is left to each name -/
def desc (a b : List String) : List String :=
  (lcs a b).drop ((lcs a b).length - (min a.length b.length - 1))

theorem desc_suffix_lcs (a b : List String) : desc a b <:+ lcs a b := List.drop_suffix _ _

theorem desc_suffix_left (a b : List String) : desc a b <:+ a :=
  (desc_suffix_lcs a b).trans (lcs_suffix_left a b)

theorem desc_suffix_right (a b : List String) : desc a b <:+ b :=
  (desc_suffix_lcs a b).trans (lcs_suffix_right a b)

theorem desc_length (a b : List String) :
    (desc a b).length = min (lcs a b).length (min a.length b.length - 1) := by
  simp only [desc, List.length_drop]
  omega

theorem descList_clean {a b : Path} (ha : Clean a) (hb : Clean b) : descList a b = desc a b := by
  unfold descList desc
  rw [sharedDesc_clean ha hb]
  by_cases h : lcs a b = []
  · simp [h]
  · simp [h, splitP_of_ne h, lenNode_of_ne ha.1, lenNode_of_ne hb.1]

theorem extP_of_ne {r : Path} (h : r ≠ []) (n : String) : extP r n = r ++ [n] := by
  unfold extP
  rw [splitP_of_ne h]
  unfold joinP
  split
  · rename_i e
    have := congrArg List.length e
    cases r with
    | nil => exact absurd rfl h
    | cons x xs => simp at this
  · rfl

/-! ### the lengthening loop -/

theorem relLoop_sound (mroOf : Path → List Path) : ∀ (t : List String) (sr br rs rb : Path),
    sr ≠ [] → br ≠ [] → relLoop mroOf sr br t = some (rs, rb) →
    ∃ pre post, t = pre ++ post ∧ rs = sr ++ pre ∧ rb = br ++ pre ∧ rb ∈ mroOf rs ∧
      ∀ pre' suf', pre = pre' ++ suf' → suf' ≠ [] → (br ++ pre') ∉ mroOf (sr ++ pre') := by
  intro t
  induction t with
  | nil =>
    intro sr br rs rb _ _ h
    simp only [relLoop] at h
    split at h
    · rename_i hc
      simp only [Option.some.injEq, Prod.mk.injEq] at h
      obtain ⟨rfl, rfl⟩ := h
      refine ⟨[], [], rfl, by simp, by simp, by simpa using hc, ?_⟩
      intro pre' suf' e hs
      have : suf' = [] := by
        have := congrArg List.length e
        simp at this
        exact List.eq_nil_of_length_eq_zero (by omega)
      exact absurd this hs
    · cases h
  | cons n rest ih =>
    intro sr br rs rb hsr hbr h
    simp only [relLoop] at h
    split at h
    · rename_i hc
      simp only [Option.some.injEq, Prod.mk.injEq] at h
      obtain ⟨rfl, rfl⟩ := h
      refine ⟨[], n :: rest, rfl, by simp, by simp, by simpa using hc, ?_⟩
      intro pre' suf' e hs
      have : suf' = [] := by
        have := congrArg List.length e
        simp at this
        exact List.eq_nil_of_length_eq_zero (by omega)
      exact absurd this hs
    · rename_i hc
      rw [extP_of_ne hsr, extP_of_ne hbr] at h
      obtain ⟨pre, post, e, hrs, hrb, hin, hmin⟩ := ih _ _ rs rb (by simp) (by simp) h
      refine ⟨n :: pre, post, by simp [e], by simp [hrs], by simp [hrb], hin, ?_⟩
      intro pre' suf' e' hs
      cases pre' with
      | nil => simpa using hc
      | cons x pre'' =>
        simp only [List.cons_append, List.cons.injEq] at e'
        obtain ⟨rfl, e'⟩ := e'
        have := hmin pre'' suf' e' hs
        simpa using this

theorem relLoop_none (mroOf : Path → List Path) : ∀ (t : List String) (sr br : Path),
    sr ≠ [] → br ≠ [] → relLoop mroOf sr br t = none →
    ∀ pre post, t = pre ++ post → (br ++ pre) ∉ mroOf (sr ++ pre) := by
  intro t
  induction t with
  | nil =>
    intro sr br _ _ h pre post e
    simp only [relLoop] at h
    split at h
    · cases h
    · rename_i hc
      have : pre = [] := by
        have := congrArg List.length e
        simp at this
        exact List.eq_nil_of_length_eq_zero (by omega)
      subst this
      simpa using hc
  | cons n rest ih =>
    intro sr br hsr hbr h pre post e
    simp only [relLoop] at h
    split at h
    · cases h
    · rename_i hc
      rw [extP_of_ne hsr, extP_of_ne hbr] at h
      cases pre with
      | nil => simpa using hc
      | cons x pre' =>
        simp only [List.cons_append, List.cons.injEq] at e
        obtain ⟨rfl, e⟩ := e
        have := ih _ _ (by simp) (by simp) h pre' post e
        simpa using this

/-! ### the final test: "the base root is a prefix of the value" -/

theorem hasParent_clean {sp rb : Path} (hsp : Clean sp) (hrb : rb ≠ []) :
    (rb == sp || hasParent sp rb) = true ↔ rb <+: sp := by
  have hl1 := lenNode_of_ne hsp.1
  have hl2 := lenNode_of_ne hrb
  constructor
  · intro h
    simp only [Bool.or_eq_true, beq_iff_eq] at h
    rcases h with h | h
    · rw [h]; exact List.prefix_refl _
    · unfold hasParent at h
      rw [hl1, hl2] at h
      split at h
      · cases h
      · rw [trimRight_clean hsp] at h
        have := beq_iff_eq.mp h
        rw [← this]
        exact List.take_prefix _ _
  · intro h
    have e := List.prefix_iff_eq_take.mp h
    have hle := h.length_le
    simp only [Bool.or_eq_true, beq_iff_eq]
    by_cases hlen : rb.length = sp.length
    · left
      rw [e, hlen, List.take_length]
    · right
      unfold hasParent
      rw [hl1, hl2]
      have : ¬ sp.length ≤ rb.length := by omega
      simp only [this, if_false]
      rw [trimRight_clean hsp]
      have e2 : sp.length - (sp.length - rb.length) = rb.length := by omega
      rw [e2, ← e]
      exact beq_self_eq_true _

theorem relFinish_clean {base value rs rb : Path} (hb : Clean base) (hv : Clean value)
    (hrs : Clean rs) (hrb : rb ≠ []) (hpre : rb <+: base) (hsp : lcp base value ≠ []) :
    relFinish (lcp base value) value (rs, rb) =
      if rb <+: value then .some (rs ++ value.drop rb.length) else .none := by
  have hcl : Clean (lcp base value) :=
    ⟨hsp, not_mem_of_sublist (lcp_prefix_left base value).sublist hb.2⟩
  have hiff : rb <+: value ↔ rb <+: lcp base value :=
    ⟨fun h => prefix_lcp _ _ _ hpre h, fun h => h.trans (lcp_prefix_right base value)⟩
  unfold relFinish
  simp only []
  by_cases h : rb <+: value
  · have h' := (hasParent_clean hcl hrb).mpr (hiff.mp h)
    simp only [h', if_true, h]
    rw [trimLeft_clean hv, lenNode_of_ne hrb]
    split
    · rename_i e; simp [e]
    · rw [splitP_of_ne hrs.1]
      congr 1
      apply joinP_of_not_mem
      intro hm
      rcases List.mem_append.mp hm with hm | hm
      · exact hrs.2 hm
      · exact hv.2 ((List.drop_sublist _ _).mem hm)
  · have h' : ¬ ((rb == lcp base value || hasParent (lcp base value) rb) = true) :=
      fun hh => h (hiff.mpr ((hasParent_clean hcl hrb).mp hh))
    simp [h', h]

theorem take_sub_len (sr T : List String) : (sr ++ T).take ((sr ++ T).length - T.length) = sr := by simp

theorem getRelative_clean (mroOf : Path → List Path) {sub base value sr br : Path}
    (hs : Clean sub) (hb : Clean base) (hv : Clean value)
    (hsr : sr ++ desc sub base = sub) (hbr : br ++ desc sub base = base) :
    getRelative mroOf sub base value =
      if lcp base value = [] then .none else
        match relLoop mroOf sr br (desc sub base) with
        | none => .mustNotHappen
        | some roots => relFinish (lcp base value) value roots := by
  have e1 : sub.take (sub.length - (desc sub base).length) = sr := by
    have := take_sub_len sr (desc sub base); rw [hsr] at this; exact this
  have e2 : base.take (base.length - (desc sub base).length) = br := by
    have := take_sub_len br (desc sub base); rw [hbr] at this; exact this
  unfold getRelative
  rw [sharedAsc_clean hb hv, descList_clean hs hb, trimRight_clean hs, trimRight_clean hb, e1, e2]
  by_cases h : lcp base value = []
  · simp [h]
  · simp only [h, if_false]
    cases relLoop mroOf sr br (desc sub base) <;> rfl

/-! ### declarative specification -/

/-- the two spaces sit at the same relative position `t` below `rs` and `rb`, and `rs`
derives from `rb` (or is `rb`) -/
def Related (mroOf : Path → List Path) (sub base rs rb : Path) (t : List String) : Prop :=
  sub = rs ++ t ∧ base = rb ++ t ∧ rs ≠ [] ∧ rb ≠ [] ∧ rb ∈ mroOf rs

/-- the outermost such pair (the longest stripped suffix) -/
def Outermost (mroOf : Path → List Path) (sub base rs rb : Path) (t : List String) : Prop :=
  Related mroOf sub base rs rb t ∧
    ∀ rs' rb' t', Related mroOf sub base rs' rb' t' → t'.length ≤ t.length

theorem roots_ne {sub base sr br : Path} (hs : sub ≠ []) (hb : base ≠ [])
    (hsr : sr ++ desc sub base = sub) (hbr : br ++ desc sub base = base) : sr ≠ [] ∧ br ≠ [] := by
  have hl := desc_length sub base
  have h1 := congrArg List.length hsr
  have h2 := congrArg List.length hbr
  have hs' : 0 < sub.length := List.length_pos_iff.mpr hs
  have hb' : 0 < base.length := List.length_pos_iff.mpr hb
  simp only [List.length_append] at h1 h2
  constructor
  · intro e; subst e; simp at h1; omega
  · intro e; subst e; simp at h2; omega

/-- a related triple is a split of the shared trailing part -/
theorem related_split {mroOf : Path → List Path} {sub base sr br rs rb : Path} {t : List String}
    (hsr : sr ++ desc sub base = sub) (hbr : br ++ desc sub base = base)
    (h : Related mroOf sub base rs rb t) :
    ∃ pre, desc sub base = pre ++ t ∧ rs = sr ++ pre ∧ rb = br ++ pre := by
  obtain ⟨h1, h2, hrs, hrb, _⟩ := h
  have ht0 : t <:+ lcs sub base := suffix_lcs t sub base ⟨rs, h1.symm⟩ ⟨rb, h2.symm⟩
  have ht : t <:+ desc sub base := by
    apply List.suffix_of_suffix_length_le ht0 (desc_suffix_lcs sub base)
    have hl := desc_length sub base
    have l0 := ht0.length_le
    have l1 := congrArg List.length h1
    have l2 := congrArg List.length h2
    have r1 : 0 < rs.length := List.length_pos_iff.mpr hrs
    have r2 : 0 < rb.length := List.length_pos_iff.mpr hrb
    simp only [List.length_append] at l1 l2
    omega
  obtain ⟨pre, hpre⟩ := ht
  refine ⟨pre, hpre.symm, ?_, ?_⟩
  · have : rs ++ t = (sr ++ pre) ++ t := by rw [← h1, List.append_assoc, hpre, hsr]
    exact List.append_cancel_right this
  · have : rb ++ t = (br ++ pre) ++ t := by rw [← h2, List.append_assoc, hpre, hbr]
    exact List.append_cancel_right this

theorem relLoop_of_outermost (mroOf : Path → List Path) {sub base sr br rs rb : Path} {t : List String}
    (hs : sub ≠ []) (hb : base ≠ [])
    (hsr : sr ++ desc sub base = sub) (hbr : br ++ desc sub base = base)
    (ho : Outermost mroOf sub base rs rb t) :
    relLoop mroOf sr br (desc sub base) = some (rs, rb) := by
  obtain ⟨hsrne, hbrne⟩ := roots_ne hs hb hsr hbr
  obtain ⟨pre, hT, hrs, hrb⟩ := related_split hsr hbr ho.1
  cases hl : relLoop mroOf sr br (desc sub base) with
  | none =>
    have := relLoop_none mroOf _ _ _ hsrne hbrne hl pre t hT
    rw [← hrs, ← hrb] at this
    exact absurd ho.1.2.2.2.2 this
  | some roots =>
    obtain ⟨rs1, rb1⟩ := roots
    obtain ⟨pre1, post1, hT1, hrs1, hrb1, hin1, hmin1⟩ := relLoop_sound mroOf _ _ _ _ _ hsrne hbrne hl
    -- (rs1, rb1, post1) is related, hence post1 is not longer than t
    have hrel1 : Related mroOf sub base rs1 rb1 post1 := by
      refine ⟨?_, ?_, by rw [hrs1]; simp [hsrne], by rw [hrb1]; simp [hbrne], hin1⟩
      · rw [hrs1, List.append_assoc, ← hT1, hsr]
      · rw [hrb1, List.append_assoc, ← hT1, hbr]
    have hle := ho.2 _ _ _ hrel1
    have hlen : pre.length + t.length = pre1.length + post1.length := by
      have := congrArg List.length hT; have := congrArg List.length hT1; simp at *; omega
    have hp : pre <+: pre1 :=
      List.prefix_of_prefix_length_le ⟨t, hT.symm⟩ ⟨post1, hT1.symm⟩ (by omega)
    obtain ⟨suf, hsuf⟩ := hp
    by_cases hs : suf = []
    · subst hs
      simp only [List.append_nil] at hsuf
      subst hsuf
      rw [hrs1, hrb1, ← hrs, ← hrb]
    · have := hmin1 pre suf hsuf.symm hs
      rw [← hrs, ← hrb] at this
      exact absurd ho.1.2.2.2.2 this

theorem outermost_of_relLoop (mroOf : Path → List Path) {sub base sr br rs rb : Path}
    (hs : sub ≠ []) (hb : base ≠ [])
    (hsr : sr ++ desc sub base = sub) (hbr : br ++ desc sub base = base)
    (hl : relLoop mroOf sr br (desc sub base) = some (rs, rb)) :
    ∃ t, Outermost mroOf sub base rs rb t := by
  obtain ⟨hsrne, hbrne⟩ := roots_ne hs hb hsr hbr
  obtain ⟨pre1, post1, hT1, hrs1, hrb1, hin1, hmin1⟩ := relLoop_sound mroOf _ _ _ _ _ hsrne hbrne hl
  refine ⟨post1, ⟨?_, ?_, by rw [hrs1]; simp [hsrne], by rw [hrb1]; simp [hbrne], hin1⟩, ?_⟩
  · rw [hrs1, List.append_assoc, ← hT1, hsr]
  · rw [hrb1, List.append_assoc, ← hT1, hbr]
  · intro rs' rb' t' hrel
    obtain ⟨pre, hT, hrs, hrb⟩ := related_split hsr hbr hrel
    have hlen : pre.length + t'.length = pre1.length + post1.length := by
      have := congrArg List.length hT; have := congrArg List.length hT1; simp at *; omega
    apply Decidable.byContradiction
    intro hgt
    have hp : pre <+: pre1 :=
      List.prefix_of_prefix_length_le ⟨t', hT.symm⟩ ⟨post1, hT1.symm⟩ (by omega)
    obtain ⟨suf, hsuf⟩ := hp
    have hs : suf ≠ [] := by
      intro e; subst e
      simp only [List.append_nil] at hsuf
      subst hsuf; omega
    have := hmin1 pre suf hsuf.symm hs
    rw [← hrs, ← hrb] at this
    exact this hrel.2.2.2.2

theorem lcp_ne_nil_of_head {a b : Path} (ha : a ≠ []) (h : a.head? = b.head?) : lcp a b ≠ [] := by
  cases a with
  | nil => exact absurd rfl ha
  | cons x xs =>
    cases b with
    | nil => simp at h
    | cons y ys =>
      simp only [List.head?_cons, Option.some.injEq] at h
      subst h
      simp [lcp]

theorem lcp_eq_nil_of_head {a b : Path} (h : a.head? ≠ b.head?) : lcp a b = [] := by
  cases a with
  | nil => simp [lcp]
  | cons x xs =>
    cases b with
    | nil => simp [lcp]
    | cons y ys =>
      have : x ≠ y := by intro e; subst e; simp at h
      simp [lcp, this]

/-- the outermost related pair exists as soon as any related pair does -/
theorem exists_outermost (mroOf : Path → List Path) {sub base : Path} (hs : sub ≠ []) (hb : base ≠ [])
    (h : ∃ rs rb t, Related mroOf sub base rs rb t) : ∃ rs rb t, Outermost mroOf sub base rs rb t := by
  obtain ⟨sr, hsr⟩ := desc_suffix_left sub base
  obtain ⟨br, hbr⟩ := desc_suffix_right sub base
  obtain ⟨hsrne, hbrne⟩ := roots_ne hs hb hsr hbr
  obtain ⟨rs, rb, t, hrel⟩ := h
  obtain ⟨pre, hT, hrs, hrb⟩ := related_split hsr hbr hrel
  cases hl : relLoop mroOf sr br (desc sub base) with
  | none =>
    have := relLoop_none mroOf _ _ _ hsrne hbrne hl pre t hT
    rw [← hrs, ← hrb] at this
    exact absurd hrel.2.2.2.2 this
  | some roots =>
    obtain ⟨rs1, rb1⟩ := roots
    obtain ⟨t1, h1⟩ := outermost_of_relLoop mroOf hs hb hsr hbr hl
    exact ⟨rs1, rb1, t1, h1⟩

/-! ### `wrap_impl`: `impl.startswith(root + ".")` on paths -/

theorem wrapLookup_inside : ∀ (root rel : Path), rel ≠ [] → wrapLookup root (root ++ rel) = some rel
  | [], rel, h => by simp [wrapLookup, h]
  | r :: rs, rel, h => by
    simp only [List.cons_append, wrapLookup, if_true]
    exact wrapLookup_inside rs rel h

theorem wrapLookup_some : ∀ (root impl rel : Path), wrapLookup root impl = some rel →
    impl = root ++ rel ∧ rel ≠ []
  | [], rest, rel, h => by
    simp only [wrapLookup] at h
    split at h
    · cases h
    · rename_i hne; cases h; exact ⟨rfl, hne⟩
  | _ :: _, [], _, h => by simp [wrapLookup] at h
  | r :: rs, i :: rest, rel, h => by
    simp only [wrapLookup] at h
    split at h
    · rename_i e; subst e
      obtain ⟨h1, h2⟩ := wrapLookup_some rs rest rel h
      exact ⟨by simp [h1], h2⟩
    · cases h

theorem wrapLookup_outside {root impl : Path} (h1 : ¬ root <+: impl) : wrapLookup root impl = none := by
  cases h : wrapLookup root impl with
  | none => rfl
  | some rel => exact absurd ⟨rel, (wrapLookup_some root impl rel h).1.symm⟩ h1

end MxModel.Relative
