import MxModel.Proofs.SerialSched
/-! The instructions of a space, executed in scheduled order, rebuild the space (`assemble_nodesOf`). -/
namespace MxModel.Serial
open MxModel.PathCodec MxModel.Generated

theorem schedule_ops (l : List Op) :
    schedule Op.phase l = l.filter (phk 0) ++ l.filter (phk 1) ++ l.filter (phk 2) ++ l.filter (phk 3) ++
      l.filter (phk 4) := schedule_eq Op.phase l

/-! ## values -/

theorem idt_map_elemName (model : Name) (p : Path) : (idt model p).map elemName = model :: p := by
  simp [idt, List.map_map, Function.comp_def, elemName]

theorem resolveRel_roundtrip (model : Name) (owner tgt : Path) :
    resolveRel model owner (absToRelTuple (idt model tgt) (idt model owner)) = some tgt := by
  unfold resolveRel
  rw [relToAbsTuple_absToRelTuple]
  simp [idt, isStr, elemName, List.map_map, Function.comp_def]

theorem restoreVal_decodedOf (model : Name) (owner : Path) (v : RefVal) :
    restoreVal model owner (decodedOf model owner v) = v := by
  cases v <;> simp [decodedOf, restoreVal, resolveRel_roundtrip]

theorem mode_parse_text (m : Mode) : Mode.parse m.text = some m := by
  cases m <;> decide

theorem stripPrefix_append {α : Type} [DecidableEq α] (pre l : List α) : stripPrefix pre (pre ++ l) = some l := by
  induction pre with
  | nil => rfl
  | cons a as ih => simp [stripPrefix, ih]

theorem dynAddr_roundtrip (model : Name) (path : Path) (addr : List Elem) :
    dynAddr model path (absToRelTuple (idt model path ++ addr) (idt model path)) = some addr := by
  unfold dynAddr
  rw [relToAbsTuple_absToRelTuple]
  exact stripPrefix_append _ _

/-! ## cells -/

theorem modifyCell_append_new (n : Name) (f : CellsD → CellsD) (l : List CellsD) (x : CellsD) (rest : List CellsD)
    (hl : ∀ c ∈ l, c.name ≠ n) (hx : x.name = n) :
    modifyCell n f (l ++ x :: rest) = l ++ f x :: rest := by
  induction l with
  | nil => simp [modifyCell, hx]
  | cons c cs ih =>
    have hc : c.name ≠ n := hl c (by simp)
    simp [modifyCell, hc, ih (fun c hc => hl c (by simp [hc]))]

/-- a cells as it is after the first phase: everything but its input values -/
def stripInputs (c : CellsD) : CellsD := { c with inputs := [] }

/-- what the proof needs of one space beyond the shape of its file -/
structure LocalOK (i : SpaceInfo) : Prop where
  cellsNodup : (i.cells.map (·.name)).Nodup
  cellsOK : ∀ c ∈ i.cells, cellsWF c = true ∧ formulaIsNode c.formula = true
  formulaOK : match i.formula with | some f => formulaIsNode f = true | none => True
  basesOK : ∀ b ∈ i.bases, b.all validName = true
  refsOK : ∀ r ∈ i.refs, isInterface r.val = true ∨ r.mode = .auto
  noDerived : i.derivedInputs = []

theorem readFormula_isNode {f : Formula} (h : formulaIsNode f = true) : readFormula f = f := by
  cases f with
  | lambda t => rfl
  | defn s n =>
    simp only [formulaIsNode, beq_iff_eq] at h
    simp [readFormula, h]

theorem foldl_cellOps0_one (model : Name) (path : Path) (a : SpaceInfo) (c : CellsD)
    (ha : ∀ x ∈ a.cells, x.name ≠ c.name) (hwf : cellsWF c = true) (hnode : formulaIsNode c.formula = true) :
    (cellOps0 c).foldl (applyOp model path) a = { a with cells := a.cells ++ [stripInputs c] } := by
  have hm : ∀ (f : CellsD → CellsD) (x : CellsD), x.name = c.name →
      modifyCell c.name f (a.cells ++ [x]) = a.cells ++ [f x] :=
    fun f x hx => modifyCell_append_new c.name f a.cells x [] ha hx
  have hrf := readFormula_isNode hnode
  unfold cellOps0 trailerOps
  obtain ⟨name, formula, allowNone, isCached, doc, inputs⟩ := c
  simp only [cellsWF, Bool.and_eq_true] at hwf
  simp only at hrf hm ha
  cases formula with
  | lambda t =>
    cases doc <;> cases allowNone <;> cases isCached <;>
      simp [List.foldl_cons, applyOp, hm, hrf, stripInputs]
  | defn s n =>
    have hdoc : doc = none := by simpa using hwf.2
    subst hdoc
    cases allowNone <;> cases isCached <;>
      simp [List.foldl_cons, applyOp, hm, hrf, stripInputs]

theorem foldl_cellOps0 (model : Name) (path : Path) (cs : List CellsD) (a : SpaceInfo)
    (ha : ∀ x ∈ a.cells, ∀ c ∈ cs, x.name ≠ c.name) (hn : (cs.map (·.name)).Nodup)
    (hok : ∀ c ∈ cs, cellsWF c = true ∧ formulaIsNode c.formula = true) :
    (cs.flatMap cellOps0).foldl (applyOp model path) a = { a with cells := a.cells ++ cs.map stripInputs } := by
  induction cs generalizing a with
  | nil => simp
  | cons c rest ih =>
    simp only [List.map_cons, List.nodup_cons, List.mem_map, not_exists, not_and] at hn
    rw [List.flatMap_cons, List.foldl_append,
      foldl_cellOps0_one model path a c (fun x hx => ha x hx c (by simp)) (hok c (by simp)).1 (hok c (by simp)).2,
      ih _ _ hn.2 (fun c' hc' => hok c' (by simp [hc']))]
    · simp
    · intro x hx c' hc'
      simp only [List.mem_append, List.mem_singleton] at hx
      rcases hx with hx | rfl
      · exact ha x hx c' (by simp [hc'])
      · exact fun e => hn.1 c' hc' e.symm

theorem foldl_loadPickle (model : Name) (path : Path) (cs : List CellsD) (a : SpaceInfo) (pre : List CellsD)
    (ha : a.cells = pre ++ cs.map stripInputs) (hpre : ∀ x ∈ pre, ∀ c ∈ cs, x.name ≠ c.name)
    (hn : (cs.map (·.name)).Nodup) :
    (cs.map (fun c => Op.loadPickle c.name c.inputs)).foldl (applyOp model path) a =
      { a with cells := pre ++ cs } := by
  induction cs generalizing a pre with
  | nil =>
    cases a
    simp_all
  | cons c rest ih =>
    simp only [List.map_cons, List.nodup_cons, List.mem_map, not_exists, not_and] at hn
    simp only [List.map_cons, List.foldl_cons]
    have hmod : modifyCell c.name (fun x => { x with inputs := x.inputs ++ c.inputs }) a.cells =
        (pre ++ [c]) ++ rest.map stripInputs := by
      rw [ha, List.map_cons, modifyCell_append_new c.name _ pre (stripInputs c) _ (fun x hx => hpre x hx c (by simp)) rfl]
      simp [stripInputs]
    rw [ih (applyOp model path a (Op.loadPickle c.name c.inputs)) (pre ++ [c]) (by simp [applyOp, hmod]) _ hn.2]
    · simp [applyOp]
    · intro x hx c' hc'
      simp only [List.mem_append, List.mem_singleton] at hx
      rcases hx with hx | rfl
      · exact hpre x hx c' (by simp [hc'])
      · exact fun e => hn.1 c' hc' e.symm

/-! ## references, ItemSpace inputs, bases -/

theorem foldl_refOps (model : Name) (parent : Path) (i : SpaceInfo) (rs : List RefD) (a : SpaceInfo)
    (hrs : ∀ r ∈ rs, isInterface r.val = true ∨ r.mode = .auto) :
    ((rs.map (fun r => (r.name, r.val, r.mode.text))).map (refOpOf false model (parent ++ [i.name]))).foldl
      (applyOp model (parent ++ [i.name])) a = { a with refs := a.refs ++ rs } := by
  induction rs generalizing a with
  | nil => simp
  | cons r rest ih =>
    simp only [List.map_cons, List.foldl_cons]
    rw [ih _ (fun r' hr' => hrs r' (by simp [hr']))]
    have := hrs r (by simp)
    obtain ⟨name, val, mode⟩ := r
    cases val <;>
      simp_all [refOpOf, isInterface, applyOp, restoreVal_decodedOf, mode_parse_text, decodedOf, restoreVal,
        resolveRel_roundtrip]

theorem foldl_dynOps (model : Name) (path : Path) (ds : List DynInput) (a : SpaceInfo) :
    (ds.map (dynOpOf model path)).foldl (applyOp model path) a = { a with dynInputs := a.dynInputs ++ ds } := by
  induction ds generalizing a with
  | nil => simp
  | cons d rest ih =>
    simp only [List.map_cons, List.foldl_cons]
    rw [ih]
    simp [dynOpOf, applyOp, dynAddr_roundtrip]

theorem filterMap_resolveBase (model : Name) (hmodel : validName model = true) (bs : List Path)
    (h : ∀ b ∈ bs, b.all validName = true) : (bs.map (dotted model)).filterMap (resolveBase model) = bs := by
  induction bs with
  | nil => rfl
  | cons b rest ih =>
    simp [List.filterMap_cons, resolveBase_dotted model b hmodel (h b (by simp)),
      ih (fun b' hb' => h b' (by simp [hb']))]

/-- **the instructions of one space rebuild it** -/
theorem assemble_info (model : Name) (hmodel : validName model = true) (parent : Path) (i : SpaceInfo)
    (h : LocalOK i) :
    (schedule Op.phase (opsOfSpace model parent i)).foldl (applyOp model (parent ++ [i.name])) (emptyInfo i.name) = i := by
  obtain ⟨h0, h1, h2, h3, h4⟩ := filter_opsOfSpace model parent i
  rw [schedule_ops, h0, h1, h2, h3, h4]
  simp only [List.foldl_append]
  have hdoc : List.foldl (applyOp model (parent ++ [i.name]))
      (List.foldl (applyOp model (parent ++ [i.name])) (emptyInfo i.name) (docOps i.doc))
      [Op.setFormula (readOptFormula i.formula), Op.setAllowNone i.allowNone] =
      { emptyInfo i.name with doc := i.doc, formula := i.formula, allowNone := i.allowNone } := by
    have hf : readOptFormula i.formula = i.formula := by
      have := h.formulaOK
      cases hfo : i.formula with
      | none => rfl
      | some f => rw [hfo] at this; simp [readOptFormula, readFormula_isNode this]
    cases hd : i.doc <;> simp [docOps, applyOp, emptyInfo, hf]
  rw [hdoc]
  rw [foldl_cellOps0 model _ i.cells _ (by simp [emptyInfo]) h.cellsNodup h.cellsOK]
  simp only [List.foldl_cons, List.foldl_nil, applyOp]
  rw [foldl_loadPickle model _ i.cells _ [] (by simp [emptyInfo]) (by simp) h.cellsNodup]
  unfold refOps spaceRefs dynOpsOf
  rw [foldl_refOps model parent i i.refs _ h.refsOK, foldl_dynOps]
  have hb := filterMap_resolveBase model hmodel i.bases h.basesOK
  have hd := h.noDerived
  obtain ⟨name, doc, allowNone, formula, bases, cells, refs, dynInputs, derivedInputs⟩ := i
  simp only at hb hd
  simp [emptyInfo, hb, hd]

/-! ## the tree -/

mutual
def AllLocal : SpaceD → Prop
  | .mk i cs => LocalOK i ∧ AllLocalL cs
def AllLocalL : List SpaceD → Prop
  | [] => True
  | s :: ss => AllLocal s ∧ AllLocalL ss
end

mutual
theorem assemble_nodeOf (model : Name) (hmodel : validName model = true) (parent : Path) :
    ∀ s : SpaceD, AllLocal s → assembleNode model [] parent (nodeOf model parent s) = s
  | .mk i cs, h => by
    simp only [AllLocal] at h
    simp only [nodeOf, assembleNode, assemble_info model hmodel parent i h.1,
      assemble_nodesOf model hmodel (parent ++ [i.name]) cs h.2]
    simp
theorem assemble_nodesOf (model : Name) (hmodel : validName model = true) (parent : Path) :
    ∀ cs : List SpaceD, AllLocalL cs → assembleNodes model [] parent (nodesOf model parent cs) = cs
  | [], _ => rfl
  | s :: ss, h => by
    simp only [AllLocalL] at h
    simp only [nodesOf, assembleNodes, assemble_nodeOf model hmodel parent s h.1,
      assemble_nodesOf model hmodel parent ss h.2]
end

def pRefMode (i : SpaceInfo) : Bool := i.refs.all (fun r => isInterface r.val || r.mode == .auto)
def pNoDerived (i : SpaceInfo) : Bool := i.derivedInputs.isEmpty
def pDefText (i : SpaceInfo) : Bool :=
  i.cells.all (fun c => formulaIsNode c.formula) && (match i.formula with | some f => formulaIsNode f | none => true)

theorem localOK_of (ctx : Ctx) (bs : BaseRel) (i : SpaceInfo) (hwf : infoWF ctx bs i = true)
    (h1 : pRefMode i = true) (h2 : pNoDerived i = true) (h3 : pDefText i = true) : LocalOK i := by
  obtain ⟨_, hcells, hcn, _, _, _, hbases⟩ := infoWF_parts ctx bs i hwf
  simp only [pDefText, Bool.and_eq_true, List.all_eq_true] at h3
  simp only [pRefMode, List.all_eq_true, Bool.or_eq_true, beq_iff_eq] at h1
  refine ⟨hcn, fun c hc => ⟨hcells c hc, h3.1 c hc⟩, ?_, fun b hb => (hbases b hb).2, h1, ?_⟩
  · cases hf : i.formula with
    | none => trivial
    | some f => have := h3.2; rw [hf] at this; exact this
  · simpa [pNoDerived] using h2

mutual
theorem allLocal_of (ctx : Ctx) (bs : BaseRel) :
    ∀ s : SpaceD, spaceWF ctx bs s = true → allSpace pRefMode s = true → allSpace pNoDerived s = true →
      allSpace pDefText s = true → AllLocal s
  | .mk i cs, hwf, h1, h2, h3 => by
    simp only [spaceWF, Bool.and_eq_true, decide_eq_true_eq] at hwf
    simp only [allSpace, Bool.and_eq_true] at h1 h2 h3
    exact ⟨localOK_of ctx bs i hwf.1.1 h1.1 h2.1 h3.1, allLocalL_of ctx bs cs hwf.2 h1.2 h2.2 h3.2⟩
theorem allLocalL_of (ctx : Ctx) (bs : BaseRel) :
    ∀ cs : List SpaceD, spacesWF ctx bs cs = true → allSpaces pRefMode cs = true →
      allSpaces pNoDerived cs = true → allSpaces pDefText cs = true → AllLocalL cs
  | [], _, _, _, _ => trivial
  | s :: ss, hwf, h1, h2, h3 => by
    simp only [spacesWF, Bool.and_eq_true] at hwf
    simp only [allSpaces, Bool.and_eq_true] at h1 h2 h3
    exact ⟨allLocal_of ctx bs s hwf.1 h1.1 h2.1 h3.1, allLocalL_of ctx bs ss hwf.2 h1.2 h2.2 h3.2⟩
end

theorem allLocalL_spaces (m : MDesc) (hwf : WellFormed m) (h1 : RefModesWritten m) (h2 : NoDerivedInputs m)
    (h3 : DefTextIsNode m) : AllLocalL m.spaces :=
  allLocalL_of (ctxOf m) (baseDefs m) m.spaces (wellFormed_parts m hwf).2.2.2.2 h1 h2 h3

/-! ## the model's own instructions -/

theorem filter_modelOpsOf (m : MDesc) :
    (modelOpsOf m).filter (phk 0) = docOps m.doc ++ [Op.setAllowNone (some m.allowNone)] ∧
    (modelOpsOf m).filter (phk 1) = [] ∧ (modelOpsOf m).filter (phk 2) = [] ∧
    (modelOpsOf m).filter (phk 3) = (modelRefs m).map (refOpOf true m.name []) ∧
    (modelOpsOf m).filter (phk 4) = [] := by
  have hr : ∀ k, ((modelRefs m).map (refOpOf true m.name [])).filter (phk k) =
      if 3 = k then (modelRefs m).map (refOpOf true m.name []) else [] :=
    fun k => filter_all_phase _ 3 k (fun o ho => by
      simp only [List.mem_map] at ho
      obtain ⟨r, _, rfl⟩ := ho
      exact phase_refOpOf _ _ _ _)
  have heq : modelOpsOf m = docOps m.doc ++ [Op.setAllowNone (some m.allowNone)] ++
      (modelRefs m).map (refOpOf true m.name []) := by
    unfold modelOpsOf docOps; cases m.doc <;> rfl
  rw [heq]
  refine ⟨?_, ?_, ?_, ?_, ?_⟩ <;>
    simp only [List.filter_append, filter_docOps, hr] <;>
    simp [List.filter_cons, phk, phase_setAllowNone]

theorem assemble_model (m : MDesc) :
    (schedule Op.phase (modelOpsOf m)).foldl (applyModelOp m.name) ⟨none, false, []⟩ =
      ⟨m.doc, m.allowNone, m.refs⟩ := by
  obtain ⟨h0, h1, h2, h3, h4⟩ := filter_modelOpsOf m
  rw [schedule_ops, h0, h1, h2, h3, h4]
  simp only [List.append_nil, List.foldl_append]
  have hrefs : ∀ (rs : List (Name × RefVal)) (a : ModelAcc),
      ((rs.map (fun r => (r.1, r.2, kNone))).map (refOpOf true m.name [])).foldl (applyModelOp m.name) a =
        { a with refs := a.refs ++ rs } := by
    intro rs
    induction rs with
    | nil => intro a; simp
    | cons r rest ih =>
      intro a
      simp only [List.map_cons, List.foldl_cons]
      rw [ih]
      simp [refOpOf, applyModelOp, restoreVal_decodedOf]
  unfold modelRefs
  rw [hrefs]
  cases hd : m.doc <;> simp [docOps, applyModelOp]

end MxModel.Serial
