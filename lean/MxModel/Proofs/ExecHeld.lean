import MxModel.Proofs.ExecBasic
/-!
# A returned element of a cached cells is held, under one cache entry

No invariant is needed: `_eval_formula` stores the value under the node it was asked for
(`insert`: the old binding, if any, is replaced), and `pop` does not touch the cache.
-/
namespace MxModel.Exec

theorem filter_eq_of_filter_ne (d : List (Node × Val)) (n : Node) :
    (d.filter (fun e => e.1 != n)).filter (fun e => e.1 == n) = [] := by
  rw [List.filter_filter, List.filter_eq_nil_iff]
  intro e _
  by_cases h : e.1 = n <;> simp [h]

theorem insert_one_entry (d : List (Node × Val)) (n : Node) (v : Val) :
    (insert d n v).filter (fun e => e.1 == n) = [(n, v)] := by
  unfold insert
  rw [List.filter_cons]
  simp only [beq_self_eq_true, if_true, filter_eq_of_filter_ne]

theorem runN_ok_held (env : Env) (d : Nat) (n : Node) (s : St) (v : Val) (hc : env.cached n.1 = true)
    (h : (runN env d n s).1 = .ok v) :
    lookup (runN env d n s).2.data n = some v ∧
      (runN env d n s).2.data.filter (fun e => e.1 == n) = [(n, v)] := by
  cases d with
  | zero => simp [runN] at h
  | succ d =>
    simp only [runN] at h ⊢
    generalize runBody env (evalNode env (runN env d)) (env.formula n) (s.push env n) = p at h ⊢
    obtain ⟨r, s1⟩ := p
    cases r with
    | err e => simp at h
    | ok w =>
      simp only [hc, if_true] at h ⊢
      by_cases hnone : (w = Val.none && !env.allowNone n.1) = true
      · simp [hnone] at h
      · simp only [hnone, Bool.false_eq_true, if_false] at h ⊢
        simp only [Res.ok.injEq] at h
        subst h
        have hpop := sameCache_pop env { s1 with data := insert s1.data n w } n
        rw [hpop.data]
        exact ⟨by simp [lookup_insert], insert_one_entry _ _ _⟩

/-- a top-level call that returns leaves the element of a cached cells held with the returned value -/
theorem evalTop_ok_held (env : Env) (n : Node) (s : St) (v : Val) (hc : env.cached n.1 = true)
    (h : (evalTop env n s).1 = .ok v) : lookup (evalTop env n s).2.data n = some v := by
  unfold evalTop at h ⊢
  simp only [hc, if_true] at h ⊢
  cases hl : lookup s.data n with
  | some w =>
    simp only [hl] at h ⊢
    cases h; rfl
  | none =>
    simp only [hl] at h ⊢
    generalize hp : runN env (env.maxdepth + 1) n s = p at h
    have hh := runN_ok_held env (env.maxdepth + 1) n s
    rw [hp] at hh
    obtain ⟨r, s1⟩ := p
    cases r with
    | err e => simp at h
    | ok w =>
      simp only [TopRes.ok.injEq] at h
      subst h
      exact (hh w hc rfl).1

/-- … under exactly one cache entry, when it was not held before -/
theorem evalTop_ok_one_entry (env : Env) (n : Node) (s : St) (v : Val) (hc : env.cached n.1 = true)
    (hl : lookup s.data n = none) (h : (evalTop env n s).1 = .ok v) :
    (evalTop env n s).2.data.filter (fun e => e.1 == n) = [(n, v)] := by
  unfold evalTop at h ⊢
  simp only [hc, if_true, hl] at h ⊢
  generalize hp : runN env (env.maxdepth + 1) n s = p at h
  have hh := runN_ok_held env (env.maxdepth + 1) n s
  rw [hp] at hh
  obtain ⟨r, s1⟩ := p
  cases r with
  | err e => simp at h
  | ok w =>
    simp only [TopRes.ok.injEq] at h
    subst h
    exact (hh w hc rfl).2

end MxModel.Exec
