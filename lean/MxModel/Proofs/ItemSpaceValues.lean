import MxModel.Proofs.ItemSpaceFresh
/-!
# Values inside the world of dynamic spaces (C07): isolation and freshness of the store

`VWorld` = the world of `Kernels/ItemSpace.lean` plus one store of values keyed by the OWNER of the cells
(a static space, or the implementation of a dynamic space).  In every reachable `VWorld`:

* distinct addresses have distinct owners (`ownerAt_inj`), so an assignment made through one address is
  invisible through every other address - another instance, a replicated child, the static space;
* every value owned by a dynamic space is owned by an implementation that has been created
  (`VInv.storeLt`), so an implementation created later starts with no value, and none of the values that
  exist when an operation touches a static space is ever held by a dynamic space built from it afterwards.
-/
namespace MxModel.ItemSpace

theorem VStore.get_cons (s : VStore) (o o' : Owner) (c c' : String) (k k' : Key) (v : Val) :
    VStore.get (((o, c, k), v) :: s) o' c' k' = if o = o' ∧ c = c' ∧ k = k' then some v else VStore.get s o' c' k' := rfl

theorem VStore.get_mem {s : VStore} {o : Owner} {c : String} {k : Key} {v : Val} (h : VStore.get s o c k = some v) :
    ((o, c, k), v) ∈ s := by
  induction s with
  | nil => cases h
  | cons x rest ih =>
    obtain ⟨⟨o', c', k'⟩, v'⟩ := x
    rw [VStore.get_cons] at h
    split at h
    · rename_i hc
      obtain ⟨rfl, rfl, rfl⟩ := hc
      cases h
      exact List.mem_cons_self
    · exact List.mem_cons_of_mem _ (ih h)

structure VInv (vw : VWorld) : Prop where
  inv : Inv vw.w.tbl
  storeLt : ∀ x ∈ vw.store, ∀ i, x.1.1 = Owner.dyn i → i < vw.w.tbl.nextImpl

theorem vinv_empty : VInv {} := ⟨inv_empty, fun x hx => by cases hx⟩

theorem findId_id {defs : Defs} {i : SId} {d : SDef} (h : findId defs i = some d) : d.id = i := by
  unfold findId at h
  have := List.find?_some h
  simpa using this

/-- what the object at an address is -/
theorem ownerAt_static {w : World} {a : Addr} {s : SId} (h : ownerAt w a = some (.static s)) :
    a = ⟨s, []⟩ := by
  unfold ownerAt at h
  split at h
  · rename_i hd
    cases hf : findId w.defs a.root with
    | none => rw [hf] at h; cases h
    | some d =>
      rw [hf] at h
      simp only [Option.map_some, Option.some.injEq, Owner.static.injEq] at h
      have := findId_id hf
      cases a
      simp_all
  · cases hf : findLive w.tbl a with
    | none => rw [hf] at h; cases h
    | some e => rw [hf] at h; cases h

theorem ownerAt_dyn {w : World} {a : Addr} {i : Nat} (h : ownerAt w a = some (.dyn i)) :
    ∃ e ∈ w.tbl.live, e.addr = a ∧ e.impl = i := by
  unfold ownerAt at h
  split at h
  · cases hf : findId w.defs a.root with
    | none => rw [hf] at h; cases h
    | some d => rw [hf] at h; cases h
  · cases hf : findLive w.tbl a with
    | none => rw [hf] at h; cases h
    | some e =>
      rw [hf] at h
      simp only [Option.map_some, Option.some.injEq, Owner.dyn.injEq] at h
      have := findLive_some hf
      exact ⟨e, this.1, this.2, h⟩

/-- **distinct addresses, distinct owners** (tables with the invariant) -/
theorem ownerAt_inj {w : World} (hinv : Inv w.tbl) {a a' : Addr} {o : Owner}
    (h : ownerAt w a = some o) (h' : ownerAt w a' = some o) : a = a' := by
  cases o with
  | static s => rw [ownerAt_static h, ownerAt_static h']
  | dyn i =>
    obtain ⟨e, he, hea, hei⟩ := ownerAt_dyn h
    obtain ⟨e', he', hea', hei'⟩ := ownerAt_dyn h'
    have : e = e' := inv_impl_inj hinv he he' (by rw [hei, hei'])
    rw [← hea, ← hea', this]

/-- the address an assignment is made through -/
def VWorld.target (vw : VWorld) (root : Path) (chain : List ChainSeg) : Option Addr :=
  match startAddr vw.w root with
  | none => none
  | some a =>
    match walk vw.w.defs vw.w.tbl a chain with
    | (_, .at p) => some p
    | (_, _) => none

theorem evolves_vstep (vw : VWorld) (op : VOp) : Evolves vw.w.tbl (vw.step op).w.tbl := by
  cases op with
  | op o => exact evolves_step vw.w o
  | assign root chain c k v =>
    simp only [VWorld.step]
    split
    · exact Evolves.refl _
    · rename_i a _
      have hw := evolves_walk vw.w.defs chain vw.w.tbl a
      generalize walk vw.w.defs vw.w.tbl a chain = r at hw
      obtain ⟨t, res⟩ := r
      cases res with
      | «at» p =>
        dsimp only
        split <;> exact hw
      | typeError => exact hw
      | keyError => exact hw
      | formulaError => exact hw
      | attributeError => exact hw

theorem grows_vstep (vw : VWorld) (op : VOp) : Grows vw.w.tbl (vw.step op).w.tbl := by
  cases op with
  | op o => exact grows_step vw.w o
  | assign root chain c k v =>
    simp only [VWorld.step]
    split
    · exact Grows.refl _
    · rename_i a _
      have hw := grows_walk vw.w.defs chain vw.w.tbl a
      generalize walk vw.w.defs vw.w.tbl a chain = r at hw
      obtain ⟨t, res⟩ := r
      cases res with
      | «at» p =>
        dsimp only
        split <;> exact hw
      | typeError => exact hw
      | keyError => exact hw
      | formulaError => exact hw
      | attributeError => exact hw

theorem grows_vrun : ∀ (ops : List VOp) (vw : VWorld), Grows vw.w.tbl (vw.run ops).w.tbl
  | [], _ => Grows.refl _
  | op :: rest, vw => by
    simp only [VWorld.run, List.foldl_cons]
    exact (grows_vstep vw op).trans (grows_vrun rest _)

/-- the store after a step: unchanged, or one value more, owned by the object at the target address -/
theorem vstep_store (vw : VWorld) (op : VOp) :
    (vw.step op).store = vw.store ∨
    ∃ root chain c k v p o, op = .assign root chain c k v ∧ vw.target root chain = some p ∧
      ownerAt (vw.step op).w p = some o ∧ (vw.step op).store = ((o, c, k), v) :: vw.store := by
  cases op with
  | op o => exact Or.inl rfl
  | assign root chain c k v =>
    cases hs : startAddr vw.w root with
    | none => left; simp only [VWorld.step, hs]
    | some a =>
      cases hw : walk vw.w.defs vw.w.tbl a chain with
      | mk t res =>
        cases res with
        | «at» p =>
          cases ho : ownerAt { vw.w with tbl := t } p with
          | none => left; simp only [VWorld.step, hs, hw, ho]
          | some o =>
            right
            refine ⟨root, chain, c, k, v, p, o, rfl, ?_, ?_, ?_⟩
            · simp only [VWorld.target, hs, hw]
            · simp only [VWorld.step, hs, hw, ho]
            · simp only [VWorld.step, hs, hw, ho]
        | typeError => left; simp only [VWorld.step, hs, hw]
        | keyError => left; simp only [VWorld.step, hs, hw]
        | formulaError => left; simp only [VWorld.step, hs, hw]
        | attributeError => left; simp only [VWorld.step, hs, hw]

theorem vinv_step (vw : VWorld) (op : VOp) (h : VInv vw) : VInv (vw.step op) := by
  have hev := evolves_vstep vw op
  have hinv' := hev.inv h.inv
  refine ⟨hinv', ?_⟩
  rcases vstep_store vw op with hs | ⟨root, chain, c, k, v, p, o, _, _, ho, hs⟩
  · rw [hs]
    intro x hx i hi
    exact Nat.lt_of_lt_of_le (h.storeLt x hx i hi) hev.next
  · rw [hs]
    intro x hx i hi
    rcases List.mem_cons.mp hx with rfl | hx
    · simp only at hi
      subst hi
      obtain ⟨e, he, _, hei⟩ := ownerAt_dyn ho
      rw [← hei]
      exact hinv'.implLt e he
    · exact Nat.lt_of_lt_of_le (h.storeLt x hx i hi) hev.next

theorem vinv_run : ∀ (ops : List VOp) (vw : VWorld), VInv vw → VInv (vw.run ops)
  | [], _, h => h
  | op :: rest, vw, h => by
    simp only [VWorld.run, List.foldl_cons]
    exact vinv_run rest _ (vinv_step vw op h)

/-- an implementation that is not created yet owns no value -/
theorem store_none_of_new {vw : VWorld} (h : VInv vw) (i : Nat) (hi : vw.w.tbl.nextImpl ≤ i) (c : String) (k : Key) :
    vw.store.get (.dyn i) c k = none := by
  cases hg : vw.store.get (.dyn i) c k with
  | none => rfl
  | some v =>
    have := h.storeLt _ (VStore.get_mem hg) i rfl
    omega

theorem vrun_append (vw : VWorld) (xs ys : List VOp) : vw.run (xs ++ ys) = (vw.run xs).run ys := by
  simp [VWorld.run, List.foldl_append]

end MxModel.ItemSpace
