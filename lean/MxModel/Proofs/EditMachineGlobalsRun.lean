import MxModel.Proofs.EditMachineGlobals
import MxModel.Proofs.EditMachineInputs
/-!
# The machine with model-level references (`OpG` / `stepG`): every operation keeps the invariant; histories

`CIG` = `CIW` without the clause "no model-level reference".  `stepG_cig`: one operation of `stepG` –
the ten structural operations with `clearingG`, `model.x = v`, `del model.x`, the value-layer
operations.  Hypothesis per step: the regime `WF` of the definitions in force (as for `step_ciw`).
-/
namespace MxModel.Edit
open MxModel.Exec MxModel.C02 MxModel.SM

variable (P : Params) (lt : Node → Node → Prop)

structure CIG (w : W) : Prop where
  inv : SM.Inv w.sm
  alloc : AllocOK w.tabs w.sm
  ci : CI (w.env P) lt w.ex

theorem CIW.toCIG {w : W} (h : CIW P lt w) : CIG P lt w := ⟨h.inv, h.alloc, h.ci⟩

def runG (w : W) (ops : List OpG) : W := ops.foldl (stepG P) w

theorem stepG_value (w : W) (o : Op) (hv : ∀ o', o ≠ .struct o') : stepG P w (.op o) = step P w o := by
  cases o with
  | struct o' => exact absurd rfl (hv o')
  | _ => rfl

variable {P lt}

/-- **a structural operation of `stepG` keeps the invariant** -/
theorem stepG_struct_cig (w : W) (o : SM.Op) (hw : WF (w.env P) lt) (h : CIG P lt w) :
    CIG P lt (stepG P w (.op (.struct o))) := by
  simp only [stepG]
  split
  · rename_i hsup
    cases hop : w.sm.apply P.kw o with
    | none => exact h
    | some st' =>
      simp only
      have hext := ext_grow w.tabs st'
      have hw' := wf_ext P hext h.alloc hw
      have hci' := ci_ext P hext h.alloc hw h.ci
      have ha' := allocOK_grow w.tabs st' h.alloc.slots
      refine ⟨inv_apply P.kw w.sm st' o h.inv hop, ha', ?_⟩
      refine struct_ci P hw' hci' (coversG_clearingG P.kw _ o h.inv hsup hop ha' ?_)
      intro q x hq hx
      obtain ⟨l, hl, _⟩ := hext.refs
      rw [hl]
      exact List.mem_append_left _ (h.alloc.gslots q x hq hx)
  · exact h

/-- **`model.x = v` keeps the invariant** -/
theorem stepG_setGlobal_cig (w : W) (x : String) (v : Nat) (hw : WF (w.env P) lt) (h : CIG P lt w) :
    CIG P lt (stepG P w (.setGlobal x v)) := by
  simp only [stepG]
  cases hop : w.sm.apply P.kw (.setGlobal x) with
  | none => exact h
  | some st' =>
    simp only
    have hext := ext_grow w.tabs st'
    have hw' := wf_ext P hext h.alloc hw
    have hci' := ci_ext P hext h.alloc hw h.ci
    have ha' := allocOK_grow w.tabs st' h.alloc.slots
    obtain ⟨hsp, hgl⟩ := apply_spec P.kw w.sm st' (keysOK_of_inv h.inv) (.setGlobal x) hop
    refine ⟨inv_apply P.kw w.sm st' _ h.inv hop, ⟨ha'.cells, ha'.refs, ha'.gslots, ha'.slots⟩, ?_⟩
    refine global_ci P x hw' hci' (coversGlobal_globalClearing _ _ x) hsp rfl rfl ?_
    intro y hy
    unfold gpay
    simp only
    rw [find_setGv _ x v y hy, contains_of_iff (l' := st'.globals) (l := w.sm.globals) (by rw [hgl y]; simp [hy])]

/-- **`del model.x` keeps the invariant** -/
theorem stepG_delGlobal_cig (w : W) (x : String) (hw : WF (w.env P) lt) (h : CIG P lt w) :
    CIG P lt (stepG P w (.delGlobal x)) := by
  simp only [stepG]
  cases hop : w.sm.apply P.kw (.delGlobal x) with
  | none => exact h
  | some st' =>
    simp only
    have hext := ext_grow w.tabs st'
    have hw' := wf_ext P hext h.alloc hw
    have hci' := ci_ext P hext h.alloc hw h.ci
    have ha' := allocOK_grow w.tabs st' h.alloc.slots
    obtain ⟨hsp, hgl⟩ := apply_spec P.kw w.sm st' (keysOK_of_inv h.inv) (.delGlobal x) hop
    refine ⟨inv_apply P.kw w.sm st' _ h.inv hop, ha', ?_⟩
    refine global_ci P x hw' hci' (coversGlobal_globalClearing _ _ x) hsp rfl rfl ?_
    intro y hy
    unfold gpay
    rw [contains_of_iff (l' := st'.globals) (l := w.sm.globals) (by rw [hgl y]; simp [hy])]

/-- **one operation of the machine with model-level references keeps the invariant** -/
theorem stepG_cig (ho : StrictOrder lt) (w : W) (op : OpG) (hw : WF (w.env P) lt) (h : CIG P lt w) :
    CIG P lt (stepG P w op) := by
  cases op with
  | setGlobal x v => exact stepG_setGlobal_cig w x v hw h
  | delGlobal x => exact stepG_delGlobal_cig w x hw h
  | op o =>
    cases o with
    | struct o => exact stepG_struct_cig w o hw h
    | eval q n key =>
      show CIG P lt (step P w (.eval q n key))
      simp only [step]
      split
      · rename_i hm
        exact ⟨h.inv, h.alloc, evalTop_ci ho hw.ranked hw.noCatch _ (alive_of_member P h.alloc q n hm) h.ci⟩
      · exact h
    | setValue q n key v =>
      show CIG P lt (step P w (.setValue q n key v))
      simp only [step]
      split
      · rename_i hm
        simp only [Bool.and_eq_true] at hm
        exact ⟨h.inv, h.alloc, setValue_ci h.ci _ v hm.2 (alive_of_member P h.alloc q n hm.1)⟩
      · exact h
    | clearAt q n key => exact ⟨h.inv, h.alloc, clearValueAt_ci h.ci _ true⟩
    | clear q n => exact ⟨h.inv, h.alloc, clearAllValues_ci h.ci _ false⟩
    | clearAll q n => exact ⟨h.inv, h.alloc, clearAllValues_ci h.ci _ true⟩

/-! ## histories -/

variable (P lt)

/-- the definitions stay in the regime after every operation -/
def AdmissibleG : W → List OpG → Prop
  | _, [] => True
  | w, op :: ops => WF ((stepG P w op).env P) lt ∧ AdmissibleG (stepG P w op) ops

theorem cig_init (slots : List (Path × String)) : CIG P lt (W.init slots) :=
  ⟨inv_empty, allocOK_init slots, CI.empty _ lt⟩

theorem wf_init (slots : List (Path × String)) : WF ((W.init slots).env P) lt := by
  have hf : ∀ n, ((W.init slots).env P).formula n = .raise errDead := by
    intro n
    simp [W.env, envOf, cellInfo, Tabs.cellOf, W.init]
  refine ⟨?_, ?_, ?_⟩
  · intro n; rw [hf]; trivial
  · intro n; rw [hf]; trivial
  · intro n; rw [hf]; trivial

variable {P lt}

theorem runG_cig (ho : StrictOrder lt) : ∀ (ops : List OpG) (w : W), WF (w.env P) lt → CIG P lt w →
    AdmissibleG P lt w ops → CIG P lt (runG P w ops) ∧ WF ((runG P w ops).env P) lt := by
  intro ops
  induction ops with
  | nil => intro w hw h _; exact ⟨h, hw⟩
  | cons op rest ih =>
    intro w hw h hadm
    obtain ⟨h2, h3⟩ := hadm
    exact ih (stepG P w op) h2 (stepG_cig ho w op hw h) h3

/-! ## the live run and the run without the evaluations -/

def isEvalG : OpG → Bool
  | .op o => isEval o
  | _ => false

/-- the history with every evaluation removed -/
def noEvalsG (ops : List OpG) : List OpG := ops.filter (fun op => !isEvalG op)

theorem opG_cases (op : OpG) :
    (∃ o, op = .op o ∧ ∀ o', o ≠ .struct o') ∨ (∀ o, op = .op o → ∃ o', o = .struct o') := by
  cases op with
  | setGlobal x v => exact Or.inr (fun o e => nomatch e)
  | delGlobal x => exact Or.inr (fun o e => nomatch e)
  | op o =>
    cases o with
    | struct o' => exact Or.inr (fun o e => by cases e; exact ⟨o', rfl⟩)
    | eval q n key => exact Or.inl ⟨_, rfl, fun _ e => nomatch e⟩
    | setValue q n key v => exact Or.inl ⟨_, rfl, fun _ e => nomatch e⟩
    | clearAt q n key => exact Or.inl ⟨_, rfl, fun _ e => nomatch e⟩
    | clear q n => exact Or.inl ⟨_, rfl, fun _ e => nomatch e⟩
    | clearAll q n => exact Or.inl ⟨_, rfl, fun _ e => nomatch e⟩

/-- a step of `stepG` that is no value-layer operation is refused in every state with this structure, or:
structure and identities after it depend on structure and identities before, and the executor state is
`doClears` of one list under the definitions in force -/
theorem stepG_shape (w : W) (op : OpG) (hv : ∀ o, op = .op o → ∃ o', o = .struct o') :
    (∀ w2 : W, w2.sm = w.sm → stepG P w2 op = w2) ∨ ∃ st' gv' cl,
      (∀ w2 : W, w2.sm = w.sm → w2.tabs = w.tabs →
        (stepG P w2 op).sm = st' ∧ (stepG P w2 op).tabs = { w.tabs.grow st' with gv := gv' } ∧
        (stepG P w2 op).ex = doClears (envOf P (w.tabs.grow st') w.sm) w2.ex cl) := by
  cases op with
  | op o =>
    obtain ⟨o', rfl⟩ := hv o rfl
    by_cases hsup : supported o' = true
    · cases hop : w.sm.apply P.kw o' with
      | none =>
        left
        intro w2 h1
        simp only [stepG, hsup, if_true, h1, hop]
      | some st' =>
        refine Or.inr ⟨st', (w.tabs.grow st').gv, clearingG P.kw (w.tabs.grow st') w.sm st' o', ?_⟩
        intro w2 h1 h2
        simp only [stepG, hsup, if_true, h1, h2, hop]
        exact ⟨trivial, trivial, trivial⟩
    · left
      intro w2 _
      simp only [stepG, hsup, Bool.false_eq_true, if_false]
  | setGlobal x v =>
    cases hop : w.sm.apply P.kw (.setGlobal x) with
    | none =>
      left
      intro w2 h1
      simp only [stepG, h1, hop]
    | some st' =>
      refine Or.inr ⟨st', setGv (w.tabs.grow st').gv x v, globalClearing (w.tabs.grow st') w.sm x, ?_⟩
      intro w2 h1 h2
      simp only [stepG, h1, h2, hop]
      exact ⟨trivial, trivial, trivial⟩
  | delGlobal x =>
    cases hop : w.sm.apply P.kw (.delGlobal x) with
    | none =>
      left
      intro w2 h1
      simp only [stepG, h1, hop]
    | some st' =>
      refine Or.inr ⟨st', (w.tabs.grow st').gv, globalClearing (w.tabs.grow st') w.sm x, ?_⟩
      intro w2 h1 h2
      simp only [stepG, h1, h2, hop]
      exact ⟨trivial, trivial, trivial⟩

/-- no input is a reader in the reference graph, after every operation -/
theorem stepG_rg (w : W) (op : OpG) (hw : WF (w.env P) lt) (h : CIG P lt w)
    (hr : RgNoInputs w.ex) : RgNoInputs (stepG P w op).ex := by
  rcases opG_cases op with ⟨o, rfl, hv⟩ | hv
  · rw [stepG_value P w o hv, (step_value P w h.alloc o hv).2.2]
    exact step_rgNoInputs (w.env P, w.ex) _ h.ci hr
  · rcases stepG_shape (P := P) w op hv with href | ⟨st', gv', cl, hall⟩
    · rw [href w rfl]; exact hr
    · obtain ⟨_, _, e3⟩ := hall w rfl rfl
      rw [e3]
      have hext := ext_grow w.tabs st'
      have hw' := wf_ext P hext h.alloc hw
      have hci' := ci_ext P hext h.alloc hw h.ci
      exact (inpOf_doClears hw'.scoping hw'.noCatch _ _ hci' hr).2

/-- **the inputs after an operation depend on structure, identities, inputs and the operation only** -/
theorem stepG_sim (ho : StrictOrder lt) (w1 w2 : W) (op : OpG) (hw : WF (w1.env P) lt)
    (h1 : CIG P lt w1) (h2 : CIG P lt w2) (r1 : RgNoInputs w1.ex) (r2 : RgNoInputs w2.ex) (hs : Sim w1 w2) :
    Sim (stepG P w1 op) (stepG P w2 op) := by
  have henv := hs.env_eq P
  rcases opG_cases op with ⟨o, rfl, hv⟩ | hv
  · rw [stepG_value P w1 o hv, stepG_value P w2 o hv]
    obtain ⟨a1, a2, a3⟩ := step_value P w1 h1.alloc o hv
    obtain ⟨b1, b2, b3⟩ := step_value P w2 h2.alloc o hv
    refine ⟨by rw [b1, a1, hs.sm], by rw [b2, a2, hs.tabs], ?_⟩
    rw [a3, b3, inpOf_step ho hw h1.ci r1, henv, inpOf_step ho hw (henv ▸ h2.ci) r2, hs.inp]
    have : toC02 w2 o = toC02 w1 o := by
      cases o <;> simp [toC02, hs.tabs]
    rw [this]
  · rcases stepG_shape (P := P) w1 op hv with href | ⟨st', gv', cl, hall⟩
    · rw [href w1 rfl, href w2 hs.sm]; exact hs
    · obtain ⟨e1, e2, e3⟩ := hall w1 rfl rfl
      obtain ⟨f1, f2, f3⟩ := hall w2 hs.sm hs.tabs
      refine ⟨by rw [f1, e1], by rw [f2, e2], ?_⟩
      rw [f3, e3]
      have hext := ext_grow w1.tabs st'
      have hw' := wf_ext P hext h1.alloc hw
      have hci1 := ci_ext P hext h1.alloc hw h1.ci
      have hci2 : CI (envOf P (w1.tabs.grow st') w1.sm) lt w2.ex := by
        have := h2.ci
        unfold W.env at this
        rw [hs.sm, hs.tabs] at this
        exact ci_ext P hext h1.alloc hw this
      funext m
      rw [(inpOf_doClears hw'.scoping hw'.noCatch _ _ hci2 r2).1 m,
        (inpOf_doClears hw'.scoping hw'.noCatch _ _ hci1 r1).1 m, hs.inp]

/-- an evaluation changes neither structure nor identities nor inputs -/
theorem stepG_eval_sim (ho : StrictOrder lt) (w1 w2 : W) (q : Path) (n : String) (key : Key)
    (hw : WF (w1.env P) lt) (h1 : CIG P lt w1) (r1 : RgNoInputs w1.ex) (hs : Sim w1 w2) :
    Sim (stepG P w1 (.op (.eval q n key))) w2 := by
  show Sim (step P w1 (.eval q n key)) w2
  obtain ⟨a1, a2, a3⟩ := step_value P w1 h1.alloc (.eval q n key) (fun o e => nomatch e)
  refine ⟨by rw [a1, hs.sm], by rw [a2, hs.tabs], ?_⟩
  rw [a3, inpOf_step ho hw h1.ci r1, hs.inp]
  rfl

/-- **the live run and the run without the evaluations** end with the same structure, identities and
inputs; both satisfy the invariant -/
theorem runG_sim (ho : StrictOrder lt) : ∀ (ops : List OpG) (w1 w2 : W), WF (w1.env P) lt →
    CIG P lt w1 → CIG P lt w2 → RgNoInputs w1.ex → RgNoInputs w2.ex → Sim w1 w2 → AdmissibleG P lt w1 ops →
    Sim (runG P w1 ops) (runG P w2 (noEvalsG ops)) ∧ CIG P lt (runG P w1 ops) ∧
      CIG P lt (runG P w2 (noEvalsG ops)) ∧ WF ((runG P w1 ops).env P) lt := by
  intro ops
  induction ops with
  | nil => intro w1 w2 hw h1 h2 _ _ hs _; exact ⟨hs, h1, h2, hw⟩
  | cons op rest ih =>
    intro w1 w2 hw h1 h2 r1 r2 hs hadm
    obtain ⟨a2, a3⟩ := hadm
    have c1 := stepG_cig ho w1 op hw h1
    have g1 := stepG_rg w1 op hw h1 r1
    by_cases hev : isEvalG op = true
    · have : noEvalsG (op :: rest) = noEvalsG rest := by simp [noEvalsG, List.filter, hev]
      rw [this]
      cases op with
      | op o =>
        cases o with
        | eval q n key => exact ih _ w2 a2 c1 h2 g1 r2 (stepG_eval_sim ho w1 w2 q n key hw h1 r1 hs) a3
        | _ => cases hev
      | _ => cases hev
    · have hev' : isEvalG op = false := by simpa using hev
      have : noEvalsG (op :: rest) = op :: noEvalsG rest := by simp [noEvalsG, List.filter, hev']
      rw [this]
      have hw2 : WF (w2.env P) lt := by rw [hs.env_eq P]; exact hw
      have c2 := stepG_cig ho w2 op hw2 h2
      have g2 := stepG_rg w2 op hw2 h2 r2
      exact ih _ _ a2 c1 c2 g1 g2 (stepG_sim ho w1 w2 op hw h1 h2 r1 r2 hs) a3

end MxModel.Edit
