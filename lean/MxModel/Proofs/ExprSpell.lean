import MxModel.Proofs.ExprBindSpec
import MxModel.Proofs.ExecHeld
import MxModel.Exec.Spelled
/-!
# Equal spellings denote the same element (helper lemmas for C01)

* top level (`evalSpelled`, the driver's `eval`): what a spelling evaluates is `evalTop` of the bound key
  and nothing else; a successful evaluation of an element of a cached cells leaves the element held
  (`evalTop_ok_held`) under exactly one cache entry (`evalTop_ok_one_entry`);
* inside formulas (`Expr.callK`): after its arguments are evaluated, in source order, a spelled call IS
  the plain positional call of the bound key (`compile_callK`), or a `TypeError` raised in the caller
  with no call made; for argument expressions without effects (literals, parameters: `ArgVals`) two
  spellings that bind to the same key compile to the same behaviour (`compile_callK_pure`).
-/
namespace MxModel.Exec

/-! ### top-level requests -/

theorem evalSpelled_of_bind {env : Env} {c : CellId} {a : Nat} {dflt pos : List Val} {kw : List (Nat × Val)}
    {key : Key} (h : bindKey a dflt pos kw = some key) (s : St) :
    evalSpelled env c a dflt pos kw s = (.res (evalTop env (c, key) s).1, (evalTop env (c, key) s).2) := by
  unfold evalSpelled; rw [h]

theorem evalSpelled_of_none {env : Env} {c : CellId} {a : Nat} {dflt pos : List Val} {kw : List (Nat × Val)}
    (h : bindKey a dflt pos kw = none) (s : St) :
    evalSpelled env c a dflt pos kw s = (.typeError, s) := by
  unfold evalSpelled; rw [h]

/-! ### calls from formulas -/

/-- the expression that is a value -/
def valExpr : Val → Expr
  | .int i => .lit i
  | .none => .none

/-- argument expressions without effects: literals and parameters -/
def argVal (params : List Val) : Expr → Option Val
  | .lit i => some (.int i)
  | .none => some .none
  | .param i => params[i]?
  | _ => none

/-- `args` are effect-free argument expressions with the values `vs` -/
def ArgVals (params : List Val) : List Expr → List Val → Prop
  | [], [] => True
  | e :: es, v :: vs => argVal params e = some v ∧ ArgVals params es vs
  | _, _ => False

/-- what a call does with the callee's answer: the value goes on, a failure goes to the handler as an
exception received from a callee -/
def retK (k : Val → Prog) (hh : Bool → Err → Prog) : Res → Prog :=
  fun r => match r with | .ok v => k v | .err e => hh false e

theorem compile_argVal (ar : CellId → Option Nat) (params : List Val) (e : Expr) (v : Val)
    (h : argVal params e = some v) (k : Val → Prog) (hh : Bool → Err → Prog) :
    compile ar params e k hh = k v := by
  cases e <;> simp only [argVal] at h <;> try cases h
  · simp [compile]
  · simp [compile]
  · simp only [compile, h]

theorem compileArgs_argVals (ar : CellId → Option Nat) (params : List Val) :
    ∀ (args : List Expr) (vs : List Val), ArgVals params args vs →
      ∀ (k : List Val → Prog) (hh : Bool → Err → Prog), compileArgs ar params args k hh = k vs
  | [], [], _, k, hh => by simp [compileArgs]
  | e :: es, v :: vs, h, k, hh => by
    simp only [ArgVals] at h
    simp only [compileArgs]
    rw [compile_argVal ar params _ _ h.1, compileArgs_argVals ar params es vs h.2]
  | [], _ :: _, h, _, _ => by simp [ArgVals] at h
  | _ :: _, [], h, _, _ => by simp [ArgVals] at h

theorem argVals_vals (params : List Val) : ∀ (vs : List Val), ArgVals params (vs.map valExpr) vs
  | [] => trivial
  | v :: vs => ⟨by cases v <;> rfl, argVals_vals params vs⟩

theorem compileArgs_vals (ar : CellId → Option Nat) (params : List Val) (vs : List Val)
    (k : List Val → Prog) (hh : Bool → Err → Prog) :
    compileArgs ar params (vs.map valExpr) k hh = k vs :=
  compileArgs_argVals ar params _ vs (argVals_vals params vs) k hh

/-- the plain positional call of a key of the right length -/
theorem compile_call_vals (ar : CellId → Option Nat) (params : List Val) (c : CellId) (a : Nat) (key : Key)
    (hc : ar c = some a) (hl : key.length = a) (k : Val → Prog) (hh : Bool → Err → Prog) :
    compile ar params (.call c (key.map valExpr)) k hh =
      .call (c, key) (retK k hh) := by
  simp only [compile, hc]
  rw [compileArgs_vals]
  simp only [hl, if_true]
  rfl

/-- **After its arguments are evaluated (in source order) a spelled call is the plain positional call of
the bound key – or a `TypeError` in the caller, and no call.** -/
theorem compile_callK (ar : CellId → Option Nat) (params : List Val) (c : CellId) (a : Nat)
    (args : List Expr) (npos : Nat) (kws : List Nat) (dflt : List Val) (hc : ar c = some a)
    (k : Val → Prog) (hh : Bool → Err → Prog) :
    compile ar params (.callK c args npos kws dflt) k hh =
      compileArgs ar params args (fun vs =>
        match bindKey a dflt (vs.take npos) (kws.zip (vs.drop npos)) with
        | some key => compile ar params (.call c (key.map valExpr)) k hh
        | none => hh true (.user kType)) hh := by
  conv => lhs; simp only [compile, hc]
  congr 1
  funext vs
  cases hb : bindKey a dflt (vs.take npos) (kws.zip (vs.drop npos)) with
  | none => rfl
  | some key =>
    simp only []
    rw [compile_call_vals ar params c a key hc (bindKey_length _ _ _ _ _ hb) k hh]
    rfl

/-- for effect-free arguments: the spelled call is the call of the bound element -/
theorem compile_callK_pure (ar : CellId → Option Nat) (params : List Val) (c : CellId) (a : Nat)
    (args : List Expr) (vs : List Val) (npos : Nat) (kws : List Nat) (dflt : List Val) (key : Key)
    (hc : ar c = some a) (hv : ArgVals params args vs)
    (hb : bindKey a dflt (vs.take npos) (kws.zip (vs.drop npos)) = some key)
    (k : Val → Prog) (hh : Bool → Err → Prog) :
    compile ar params (.callK c args npos kws dflt) k hh =
      .call (c, key) (retK k hh) := by
  simp only [compile, hc]
  rw [compileArgs_argVals ar params args vs hv]
  simp only [hb]
  rfl

theorem compile_callK_unbound (ar : CellId → Option Nat) (params : List Val) (c : CellId) (a : Nat)
    (args : List Expr) (vs : List Val) (npos : Nat) (kws : List Nat) (dflt : List Val)
    (hc : ar c = some a) (hv : ArgVals params args vs)
    (hb : bindKey a dflt (vs.take npos) (kws.zip (vs.drop npos)) = none)
    (k : Val → Prog) (hh : Bool → Err → Prog) :
    compile ar params (.callK c args npos kws dflt) k hh = hh true (.user kType) := by
  simp only [compile, hc]
  rw [compileArgs_argVals ar params args vs hv]
  simp only [hb]

end MxModel.Exec
