import MxModel.Proofs.StructMechBasic
/-!
# The invariant of the incremental mechanism: every reachable state equals derivation from scratch

`Inv st` =
* `WF`   – ids distinct, every direct base exists, every space has a linearisation (C11), member
           names unique within a container (C12), every space has a non-empty id whose parent exists;
* `good` – **derivation** (C03): a *derived* member of `q` carries the payload of the first space of
           the tail of `q`'s linearisation that *defines* the name, and a name `q` does not have is
           defined nowhere in that tail.  (A defined member is whatever the user put there.)
* `Disj` – C12: a name is not both a cells and a reference of one space, a child space's name is
           neither, a model-level reference does not bear the name of a top-level space.

This file: the definitions, what follows from `WF` about linearisations, `firstDef` lemmas, and the
re-derivation step `onInherit` / `updateDerived` / `updateAll` (each re-derived space is `good` by
construction; nothing else is disturbed because `onInherit` reads only *defined* members).
-/
namespace MxModel.SM
open MxModel.C3

/-! ## observables -/

/-- the container of kind `a` of space `q` (empty if there is no such space) -/
def St.cont (st : St) (a : Attr) (q : Path) : Members :=
  match st.find q with
  | some s => s.get a
  | none => []

theorem St.mem_eq (st : St) (a : Attr) (q : Path) (n : String) : st.mem a q n = mget (st.cont a q) n := by
  unfold St.mem St.cont
  cases st.find q <;> rfl

theorem St.cont_of_not_mem (st : St) (a : Attr) (q : Path) (h : q ∉ st.ids) : st.cont a q = [] := by
  unfold St.cont
  rw [(find_none_iff st q).mpr h]

theorem St.mem_of_not_mem (st : St) (a : Attr) (q : Path) (n : String) (h : q ∉ st.ids) : st.mem a q n = none := by
  rw [St.mem_eq, St.cont_of_not_mem st a q h]; rfl

theorem St.defd_of_not_mem (st : St) (a : Attr) (q : Path) (n : String) (h : q ∉ st.ids) : st.defd a q n = none := by
  unfold St.defd
  rw [St.mem_of_not_mem st a q n h]

theorem childNames_eq (st : St) (p : Path) :
    st.childNames p = st.ids.filterMap (fun i => if i != [] && i.dropLast == p then i.getLast? else none) := by
  unfold St.childNames St.ids
  rw [List.filterMap_map]
  rfl

theorem mem_childNames (st : St) (p : Path) (n : String) : n ∈ st.childNames p ↔ (p ++ [n]) ∈ st.ids := by
  rw [childNames_eq]
  simp only [List.mem_filterMap]
  constructor
  · rintro ⟨i, hi, h⟩
    split at h
    · rename_i hc
      simp only [Bool.and_eq_true, bne_iff_ne, ne_eq, beq_iff_eq] at hc
      obtain ⟨ys, hys⟩ := List.getLast?_eq_some_iff.mp h
      have hdl : i.dropLast = ys := by rw [hys, List.dropLast_concat]
      rw [← hc.2, hdl, ← hys]; exact hi
    · cases h
  · intro h
    refine ⟨p ++ [n], h, ?_⟩
    simp

/-- two states with the same spaces, direct bases and model-level references -/
structure Shape (st st' : St) : Prop where
  ids : st'.ids = st.ids
  basesOf : st'.basesOf = st.basesOf
  globals : st'.globals = st.globals

namespace Shape
variable {st st' st'' : St}

theorem refl (st : St) : Shape st st := ⟨rfl, rfl, rfl⟩

theorem trans (h : Shape st st') (h' : Shape st' st'') : Shape st st'' :=
  ⟨h'.ids.trans h.ids, h'.basesOf.trans h.basesOf, h'.globals.trans h.globals⟩

theorem length (h : Shape st st') : st'.spaces.length = st.spaces.length := by
  have := congrArg List.length h.ids
  simpa [St.ids] using this

theorem mro (h : Shape st st') (q : Path) : st'.mro q = st.mro q := by
  unfold St.mro
  rw [h.basesOf, h.length]

theorem tail (h : Shape st st') (q : Path) : st'.tail q = st.tail q := by
  unfold St.tail
  rw [h.mro]

theorem subs (h : Shape st st') (q : Path) : st'.subs q = st.subs q := by
  unfold St.subs
  rw [h.ids]
  apply List.filter_congr
  intro x _
  rw [h.tail]

theorem has (h : Shape st st') (q : Path) : st'.has q = st.has q := by
  rw [Bool.eq_iff_iff, has_iff_mem_ids, has_iff_mem_ids, h.ids]

theorem childNames (h : Shape st st') (q : Path) : st'.childNames q = st.childNames q := by
  rw [childNames_eq, childNames_eq, h.ids]

theorem upd (st : St) (p : Path) (f : Space → Space) (hid : ∀ s, (f s).id = s.id)
    (hb : ∀ s, (f s).bases = s.bases) : Shape st (st.upd p f) :=
  ⟨ids_upd st p f hid, basesOf_upd st p f hid hb, rfl⟩

end Shape

theorem cont_upd_set (st : St) (p : Path) (a : Attr) (g : Space → Members) (a' : Attr) (q : Path) :
    (st.upd p (fun s => s.set a (g s))).cont a' q =
      if q = p ∧ a' = a then (match st.find p with | some s => g s | none => []) else st.cont a' q := by
  unfold St.cont
  rw [find_upd st p _ (fun s => Space.id_set s a _)]
  by_cases hqp : q = p
  · subst hqp
    cases st.find q with
    | none => simp
    | some s =>
      by_cases ha : a' = a
      · simp [ha]
      · simp [ha]
  · simp [hqp]

theorem shape_setMem (st : St) (a : Attr) (p : Path) (n : String) (m : Member) : Shape st (st.setMem a p n m) :=
  Shape.upd st p _ (fun s => Space.id_set s a _) (fun s => Space.bases_set s a _)

theorem shape_delMem (st : St) (a : Attr) (p : Path) (n : String) : Shape st (st.delMem a p n) :=
  Shape.upd st p _ (fun s => Space.id_set s a _) (fun s => Space.bases_set s a _)

theorem cont_setMem (st : St) (a : Attr) (p : Path) (n : String) (m : Member) (a' : Attr) (q : Path) :
    (st.setMem a p n m).cont a' q =
      if q = p ∧ a' = a ∧ p ∈ st.ids then mset (st.cont a p) n m else st.cont a' q := by
  unfold St.setMem
  rw [cont_upd_set st p a (fun s => mset (s.get a) n m)]
  by_cases h : q = p ∧ a' = a
  · obtain ⟨rfl, rfl⟩ := h
    by_cases hp : q ∈ st.ids
    · simp only [and_self, if_true, hp]
      unfold St.cont
      cases hf : st.find q with
      | none => exact absurd hp ((find_none_iff st q).mp hf)
      | some s => rfl
    · simp only [and_self, if_true, hp, and_false, if_false]
      rw [(find_none_iff st q).mpr hp, St.cont_of_not_mem st _ q hp]
  · have : ¬ (q = p ∧ a' = a ∧ p ∈ st.ids) := fun h' => h ⟨h'.1, h'.2.1⟩
    simp [h, this]

theorem cont_delMem (st : St) (a : Attr) (p : Path) (n : String) (a' : Attr) (q : Path) :
    (st.delMem a p n).cont a' q = if q = p ∧ a' = a then mdel (st.cont a p) n else st.cont a' q := by
  unfold St.delMem
  rw [cont_upd_set st p a (fun s => mdel (s.get a) n)]
  by_cases h : q = p ∧ a' = a
  · obtain ⟨rfl, rfl⟩ := h
    simp only [and_self, if_true]
    unfold St.cont
    cases st.find q <;> rfl
  · simp [h]

theorem mem_setMem (st : St) (a : Attr) (p : Path) (n : String) (m : Member) (hp : p ∈ st.ids)
    (a' : Attr) (q : Path) (n' : String) :
    (st.setMem a p n m).mem a' q n' = if q = p ∧ a' = a ∧ n' = n then some m else st.mem a' q n' := by
  rw [St.mem_eq, cont_setMem, St.mem_eq]
  by_cases h : q = p ∧ a' = a
  · obtain ⟨rfl, rfl⟩ := h
    simp only [true_and, hp, and_true, if_true, mget_mset]
  · have h1 : ¬ (q = p ∧ a' = a ∧ p ∈ st.ids) := fun h' => h ⟨h'.1, h'.2.1⟩
    have h2 : ¬ (q = p ∧ a' = a ∧ n' = n) := fun h' => h ⟨h'.1, h'.2.1⟩
    simp [h1, h2]

theorem mem_delMem (st : St) (a : Attr) (p : Path) (n : String) (a' : Attr) (q : Path) (n' : String) :
    (st.delMem a p n).mem a' q n' = if q = p ∧ a' = a ∧ n' = n then none else st.mem a' q n' := by
  rw [St.mem_eq, cont_delMem, St.mem_eq]
  by_cases h : q = p ∧ a' = a
  · obtain ⟨rfl, rfl⟩ := h
    simp only [and_self, if_true, mget_mdel, true_and]
  · have h2 : ¬ (q = p ∧ a' = a ∧ n' = n) := fun h' => h ⟨h'.1, h'.2.1⟩
    simp [h, h2]

/-! ## the invariant -/

/-- (b) for one space, kind and name -/
def Good1 (st : St) (a : Attr) (q : Path) (n : String) : Prop :=
  match st.mem a q n with
  | some m => m.derived = true → ∃ b, st.firstDef a (st.tail q) n = some (b, m.payload)
  | none => st.firstDef a (st.tail q) n = none

structure WF (st : St) : Prop where
  nodup : st.ids.Nodup
  bases : ∀ q b, b ∈ st.basesOf q → b ∈ st.ids
  mro : ∀ q ∈ st.ids, (st.mro q).isSome = true
  keys : ∀ a q, (keys (st.cont a q)).Nodup
  tree : ∀ q ∈ st.ids, q ≠ [] ∧ (q.dropLast = [] ∨ q.dropLast ∈ st.ids)

structure Disj (st : St) : Prop where
  cr : ∀ q n, (st.mem .cells q n).isSome = true → st.mem .refs q n = none
  child : ∀ q n, n ∈ st.childNames q → st.mem .cells q n = none ∧ st.mem .refs q n = none
  glob : ∀ n ∈ st.globals, n ∉ st.childNames []

structure Inv (st : St) : Prop where
  wf : WF st
  good : ∀ a q n, Good1 st a q n
  disj : Disj st

/-! ## linearisations in a well-formed state -/

theorem WF.mro_all {st : St} (h : WF st) (q : Path) : st.mro q = some (q :: st.tail q) := by
  by_cases hq : q ∈ st.ids
  · exact St.mro_eq_of_tail st q (h.mro q hq)
  · rw [St.mro_of_not_mem st q hq, St.tail_of_not_mem st q hq]

theorem WF.not_mem_tail_self {st : St} (h : WF st) (q : Path) : q ∉ st.tail q :=
  mro_not_mem_tail _ _ q _ (h.mro_all q)

theorem WF.tail_nodup {st : St} (h : WF st) (q : Path) : (q :: st.tail q).Nodup :=
  mro_nodup _ _ q _ (h.mro_all q)

/-- `p` in the linearisation of `q`: the whole linearisation of `p` is a subsequence of `q`'s tail -/
theorem WF.tail_sublist {st : St} (h : WF st) (q p : Path) (hp : p ∈ st.tail q) :
    (p :: st.tail p).Sublist (st.tail q) := by
  obtain ⟨rx, h1, h2⟩ := mro_closed_tail _ _ q _ (h.mro_all q) p hp
  have := h.mro_all p
  unfold St.mro at this
  rw [h1] at this
  cases this
  exact h2

theorem WF.tail_subset {st : St} (h : WF st) (q p : Path) (hp : p ∈ st.tail q) : ∀ x ∈ st.tail p, x ∈ st.tail q :=
  fun x hx => (h.tail_sublist q p hp).subset (List.mem_cons_of_mem _ hx)

/-- the members of a linearisation exist -/
theorem WF.tail_mem_ids {st : St} (h : WF st) (q : Path) (x : Path) (hx : x ∈ st.tail q) : x ∈ st.ids := by
  rcases mro_mem_cases _ _ q _ (h.mro_all q) x (List.mem_cons_of_mem _ hx) with rfl | ⟨y, _, hxy⟩
  · exact absurd hx (h.not_mem_tail_self _)
  · exact h.bases y x hxy

theorem WF.bases_mem_tail {st : St} (h : WF st) (q b : Path) (hb : b ∈ st.basesOf q) : b ∈ st.tail q := by
  have := mro_bases_subset _ _ q _ (h.mro_all q) q (by simp) b hb
  simp only [List.mem_cons] at this
  rcases this with rfl | this
  · -- q a direct base of itself: impossible
    exfalso
    have hm := h.mro_all b
    unfold St.mro at hm
    have := (mro_sublist _ _ b _ hm).1.subset hb
    exact h.not_mem_tail_self b this
  · exact this

theorem mem_subs {st : St} (p q : Path) : q ∈ st.subs p ↔ q ∈ st.ids ∧ q ≠ p ∧ p ∈ st.tail q := by
  unfold St.subs
  simp only [List.mem_filter, Bool.and_eq_true, bne_iff_ne, ne_eq, List.contains_eq_mem, decide_eq_true_eq]

/-- a space outside `p :: subs p` does not have `p` in its linearisation -/
theorem not_mem_tail_of_not_sub {st : St} (p q : Path) (hq : q ∈ st.ids) (h1 : q ≠ p) (h2 : q ∉ st.subs p) :
    p ∉ st.tail q := fun h => h2 ((mem_subs p q).mpr ⟨hq, h1, h⟩)

/-- **locality at state level**: same direct bases on the linearisation of `q` (and enough depth) –
same linearisation -/
theorem mro_transfer_st (st st' : St) (q : Path) (l : List Path) (h : st.mro q = some l)
    (hb : ∀ x ∈ l, st'.basesOf x = st.basesOf x) (hd : l.length ≤ st'.spaces.length + 1) :
    st'.mro q = some l :=
  C3.mro_transfer st.basesOf st'.basesOf _ _ q l h hb hd

/-! ## `firstDef` -/

theorem firstDef_congr (st st' : St) (a : Attr) (l : List Path) (n : String)
    (h : ∀ b ∈ l, st'.defd a b n = st.defd a b n) : st'.firstDef a l n = st.firstDef a l n := by
  unfold St.firstDef
  induction l with
  | nil => rfl
  | cons x l ih =>
    simp only [List.findSome?_cons]
    rw [h x (by simp), ih (fun b hb => h b (List.mem_cons_of_mem _ hb))]

theorem firstDef_eq_none (st : St) (a : Attr) (l : List Path) (n : String) :
    st.firstDef a l n = none ↔ ∀ b ∈ l, st.defd a b n = none := by
  unfold St.firstDef
  rw [List.findSome?_eq_none_iff]
  constructor
  · intro h b hb
    have := h b hb
    cases hd : st.defd a b n with
    | none => rfl
    | some v => rw [hd] at this; cases this
  · intro h b hb
    rw [h b hb]; rfl

theorem firstDef_some (st : St) (a : Attr) (l : List Path) (n : String) (b : Path) (w : Nat)
    (h : st.firstDef a l n = some (b, w)) : b ∈ l ∧ st.defd a b n = some w := by
  unfold St.firstDef at h
  induction l with
  | nil => cases h
  | cons x l ih =>
    simp only [List.findSome?_cons] at h
    cases hd : st.defd a x n with
    | none =>
      rw [hd] at h
      obtain ⟨h1, h2⟩ := ih h
      exact ⟨List.mem_cons_of_mem _ h1, h2⟩
    | some v =>
      rw [hd] at h
      simp only [Option.map_some, Option.some.injEq, Prod.mk.injEq] at h
      obtain ⟨rfl, rfl⟩ := h
      exact ⟨by simp, hd⟩

theorem firstDef_isSome_of (st : St) (a : Attr) (l : List Path) (n : String) (b : Path) (hb : b ∈ l)
    (h : (st.defd a b n).isSome = true) : ∃ d, st.firstDef a l n = some d := by
  cases hf : st.firstDef a l n with
  | some d => exact ⟨d, rfl⟩
  | none =>
    have := (firstDef_eq_none st a l n).mp hf b hb
    rw [this] at h; cases h

/-- only `p`'s definition of `n` changed, and `p` defines `n` now: a first definer other than `p`
was the first definer before -/
theorem firstDef_other (st st' : St) (a : Attr) (p : Path) (n : String)
    (h : ∀ b, b ≠ p → st'.defd a b n = st.defd a b n) (hp : (st'.defd a p n).isSome = true)
    (l : List Path) (b : Path) (w : Nat) (hf : st'.firstDef a l n = some (b, w)) (hb : b ≠ p) :
    st.firstDef a l n = some (b, w) := by
  unfold St.firstDef at hf ⊢
  induction l with
  | nil => cases hf
  | cons x l ih =>
    simp only [List.findSome?_cons] at hf ⊢
    by_cases hx : x = p
    · subst hx
      cases hd : st'.defd a x n with
      | none => rw [hd] at hp; cases hp
      | some v =>
        rw [hd] at hf
        simp only [Option.map_some, Option.some.injEq, Prod.mk.injEq] at hf
        exact absurd hf.1.symm hb
    · rw [← h x hx]
      cases hd : st'.defd a x n with
      | none => rw [hd] at hf; exact ih hf
      | some v => rw [hd] at hf; exact hf

/-- `Good1` only looks at the member, the tail and the definitions in the tail -/
theorem Good1.congr {st st' : St} {a : Attr} {q : Path} {n : String} (h : Good1 st a q n)
    (hm : st'.mem a q n = st.mem a q n) (ht : st'.tail q = st.tail q)
    (hd : ∀ b ∈ st.tail q, st'.defd a b n = st.defd a b n) : Good1 st' a q n := by
  unfold Good1 at h ⊢
  rw [hm, ht, firstDef_congr st st' a _ n hd]
  exact h

theorem Good1.of_not_mem (st : St) (a : Attr) (q : Path) (n : String) (hq : q ∉ st.ids) : Good1 st a q n := by
  unfold Good1
  rw [St.mem_of_not_mem st a q n hq, St.tail_of_not_mem st q hq]
  rfl

/-- the definitions are the same in both states -/
def SameDefs (st st' : St) : Prop := ∀ a q n, st'.defd a q n = st.defd a q n

theorem SameDefs.firstDef {st st' : St} (h : SameDefs st st') (a : Attr) (l : List Path) (n : String) :
    st'.firstDef a l n = st.firstDef a l n := firstDef_congr st st' a l n (fun b _ => h a b n)

/-! ## `onInherit` -/

theorem mem_definedNames (st : St) (a : Attr) (b : Path) (n : String) (v : Nat)
    (h : st.defd a b n = some v) : n ∈ st.definedNames a b := by
  unfold St.defd at h
  rw [St.mem_eq] at h
  unfold St.definedNames
  unfold St.cont at h
  cases hf : st.find b with
  | none => rw [hf] at h; cases h
  | some s =>
    rw [hf] at h
    simp only
    cases hm : mget (s.get a) n with
    | none => rw [hm] at h; cases h
    | some m =>
      rw [hm] at h
      simp only at h
      have := mget_mem _ _ _ hm
      refine List.mem_filterMap.mpr ⟨(n, m), this, ?_⟩
      cases hd : m.derived with
      | true => rw [hd] at h; cases h
      | false => simp

theorem mget_filterMap_key (names : List String) (hnd : names.Nodup) (g : String → Option Member) (n : String) :
    mget (names.filterMap (fun x => (g x).map (fun m => (x, m)))) n = if n ∈ names then g n else none := by
  induction names with
  | nil => simp
  | cons x xs ih =>
    simp only [List.nodup_cons] at hnd
    simp only [List.filterMap_cons]
    cases hg : g x with
    | none =>
      simp only [Option.map_none]
      rw [ih hnd.2]
      by_cases hx : n = x
      · subst hx; simp [hnd.1, hg]
      · simp [hx]
    | some m =>
      simp only [Option.map_some]
      rw [mget_cons, ih hnd.2]
      by_cases hx : x = n
      · subst hx; simp [hg]
      · have : ¬ n = x := fun e => hx e.symm
        simp [hx, this]

theorem keys_filterMap_key (names : List String) (g : String → Option Member) :
    keys (names.filterMap (fun x => (g x).map (fun m => (x, m)))) = names.filter (fun x => (g x).isSome) := by
  induction names with
  | nil => rfl
  | cons x xs ih =>
    simp only [List.filterMap_cons, List.filter_cons]
    cases hg : g x with
    | none => simpa using ih
    | some m =>
      simp only [Option.map_some, Option.isSome_some, if_true]
      simp only [keys, List.map_cons] at ih ⊢
      rw [ih]

/-- the derived entries `onInherit` computes, as a function of the name -/
def derOf (st : St) (a : Attr) (q : Path) (own : Members) (n : String) : Option Member :=
  if (mget own n).isSome then none
  else (st.firstDef a (st.tail q) n).map (fun d => ({ derived := true, payload := d.2 } : Member))

theorem onInherit_eq (st : St) (a : Attr) (q : Path) (s : Space) (hf : st.find q = some s) :
    st.onInherit a q = st.upd q (fun s' => s'.set a
      ((s.get a).filter (fun e => !e.2.derived) ++
        (((st.tail q).flatMap (st.definedNames a)).eraseDups).filterMap
          (fun x => (derOf st a q ((s.get a).filter (fun e => !e.2.derived)) x).map (fun m => (x, m))))) := by
  unfold St.onInherit
  rw [hf]
  simp only
  congr 1
  funext s'
  congr 2
  congr 1
  funext x
  unfold derOf
  split
  · rfl
  · cases st.firstDef a (st.tail q) x <;> rfl

theorem shape_onInherit (st : St) (a : Attr) (q : Path) : Shape st (st.onInherit a q) := by
  cases hf : st.find q with
  | none => unfold St.onInherit; rw [hf]; exact Shape.refl st
  | some s =>
    rw [onInherit_eq st a q s hf]
    exact Shape.upd st q _ (fun s => Space.id_set s a _) (fun s => Space.bases_set s a _)

theorem cont_onInherit_other (st : St) (a : Attr) (q : Path) (a' : Attr) (q' : Path) (h : ¬ (q' = q ∧ a' = a)) :
    (st.onInherit a q).cont a' q' = st.cont a' q' := by
  cases hf : st.find q with
  | none => unfold St.onInherit; rw [hf]
  | some s =>
    rw [onInherit_eq st a q s hf, cont_upd_set]
    simp [h]

theorem mem_onInherit_other (st : St) (a : Attr) (q : Path) (a' : Attr) (q' : Path) (n : String)
    (h : ¬ (q' = q ∧ a' = a)) : (st.onInherit a q).mem a' q' n = st.mem a' q' n := by
  rw [St.mem_eq, St.mem_eq, cont_onInherit_other st a q a' q' h]

/-- **what `onInherit` leaves in the space**: the defined members as they are, and for every other
name the first definition along the tail -/
theorem mem_onInherit_self (st : St) (a : Attr) (q : Path) (hq : q ∈ st.ids)
    (hk : (keys (st.cont a q)).Nodup) (n : String) :
    (st.onInherit a q).mem a q n =
      match st.defd a q n with
      | some v => some { derived := false, payload := v }
      | none => (st.firstDef a (st.tail q) n).map (fun d => { derived := true, payload := d.2 }) := by
  cases hf : st.find q with
  | none => exact absurd hq ((find_none_iff st q).mp hf)
  | some s =>
    have hc : st.cont a q = s.get a := by unfold St.cont; rw [hf]
    rw [hc] at hk
    rw [St.mem_eq, onInherit_eq st a q s hf, cont_upd_set]
    simp only [and_self, if_true, hf]
    rw [mget_append, mget_filterMap_key _ (Struct.nodup_eraseDups _)]
    have hnames : n ∉ ((st.tail q).flatMap (st.definedNames a)).eraseDups →
        st.firstDef a (st.tail q) n = none := by
      intro hnn
      cases hfd : st.firstDef a (st.tail q) n with
      | none => rfl
      | some d =>
        exfalso
        apply hnn
        obtain ⟨h1, h2⟩ := firstDef_some st a _ n d.1 d.2 hfd
        rw [List.mem_eraseDups, List.mem_flatMap]
        exact ⟨d.1, h1, mem_definedNames st a d.1 n d.2 h2⟩
    unfold derOf
    rw [mget_filter_defined _ hk]
    unfold St.defd
    rw [St.mem_eq, hc]
    cases hm : mget (s.get a) n with
    | none =>
      by_cases hn : n ∈ ((st.tail q).flatMap (st.definedNames a)).eraseDups
      · simp [hn]
      · simp [hn, hnames hn]
    | some m =>
      obtain ⟨dv, pl⟩ := m
      cases dv with
      | false => simp
      | true =>
        by_cases hn : n ∈ ((st.tail q).flatMap (st.definedNames a)).eraseDups
        · simp [hn]
        · simp [hn, hnames hn]

/-- `onInherit` never changes a definition -/
theorem sameDefs_onInherit (st : St) (a : Attr) (q : Path) (hk : (keys (st.cont a q)).Nodup) :
    SameDefs st (st.onInherit a q) := by
  intro a' q' n
  by_cases h : q' = q ∧ a' = a
  · obtain ⟨rfl, rfl⟩ := h
    by_cases hq : q' ∈ st.ids
    · unfold St.defd
      rw [mem_onInherit_self st a' q' hq hk n]
      unfold St.defd
      cases hm : st.mem a' q' n with
      | none =>
        simp only
        cases st.firstDef a' (st.tail q') n <;> rfl
      | some m =>
        obtain ⟨dv, pl⟩ := m
        cases dv with
        | true =>
          simp only [if_true]
          cases st.firstDef a' (st.tail q') n <;> rfl
        | false => simp
    · have : st.onInherit a' q' = st := by
        unfold St.onInherit; rw [(find_none_iff st q').mpr hq]
      rw [this]
  · unfold St.defd
    rw [mem_onInherit_other st a q a' q' n h]

theorem keys_onInherit (st : St) (a : Attr) (q : Path) (hk : ∀ a' q', (keys (st.cont a' q')).Nodup) :
    ∀ a' q', (keys ((st.onInherit a q).cont a' q')).Nodup := by
  intro a' q'
  by_cases h : q' = q ∧ a' = a
  · obtain ⟨rfl, rfl⟩ := h
    cases hf : st.find q' with
    | none =>
      have : st.onInherit a' q' = st := by unfold St.onInherit; rw [hf]
      rw [this]; exact hk a' q'
    | some s =>
      have hc : st.cont a' q' = s.get a' := by unfold St.cont; rw [hf]
      have hks := hk a' q'
      rw [hc] at hks
      rw [onInherit_eq st a' q' s hf, cont_upd_set]
      simp only [and_self, if_true, hf]
      unfold keys
      rw [List.map_append]
      rw [List.nodup_append]
      refine ⟨?_, ?_, ?_⟩
      · exact List.Nodup.sublist (List.Sublist.map _ List.filter_sublist) hks
      · have := keys_filterMap_key (((st.tail q').flatMap (st.definedNames a')).eraseDups)
          (derOf st a' q' ((s.get a').filter (fun e => !e.2.derived)))
        unfold keys at this
        rw [this]
        exact List.Nodup.sublist List.filter_sublist (Struct.nodup_eraseDups _)
      · intro x hx y hy hxy
        subst hxy
        have h1 : (mget ((s.get a').filter (fun e => !e.2.derived)) x).isSome = true :=
          (mget_isSome_iff _ _).mpr hx
        have := keys_filterMap_key (((st.tail q').flatMap (st.definedNames a')).eraseDups)
          (derOf st a' q' ((s.get a').filter (fun e => !e.2.derived)))
        unfold keys at this
        rw [this, List.mem_filter] at hy
        have h2 := hy.2
        unfold derOf at h2
        simp [h1] at h2
  · rw [cont_onInherit_other st a q a' q' h]
    exact hk a' q'

/-- the re-derived space is `good` -/
theorem good_onInherit_self (st : St) (a : Attr) (q : Path) (hk : (keys (st.cont a q)).Nodup) (n : String) :
    Good1 (st.onInherit a q) a q n := by
  by_cases hq : q ∈ st.ids
  · unfold Good1
    rw [(shape_onInherit st a q).tail, (sameDefs_onInherit st a q hk).firstDef,
      mem_onInherit_self st a q hq hk n]
    cases st.defd a q n with
    | some v => intro h; cases h
    | none =>
      simp only
      cases hfd : st.firstDef a (st.tail q) n with
      | none => rfl
      | some d => intro _; exact ⟨d.1, rfl⟩
  · apply Good1.of_not_mem
    rw [(shape_onInherit st a q).ids]; exact hq

/-- … and no other space is disturbed -/
theorem good_onInherit_other (st : St) (a : Attr) (q : Path) (hk : (keys (st.cont a q)).Nodup)
    (a' : Attr) (q' : Path) (n : String) (h : ¬ (q' = q ∧ a' = a)) (hg : Good1 st a' q' n) :
    Good1 (st.onInherit a q) a' q' n :=
  hg.congr (mem_onInherit_other st a q a' q' n h) ((shape_onInherit st a q).tail q')
    (fun b _ => sameDefs_onInherit st a q hk a' b n)

/-! ## `updateDerived`, `updateAll` -/

/-- what a sequence of re-derivations preserves and establishes, relative to the state before -/
structure Rederived (st st' : St) (ds : List Path) : Prop where
  shape : Shape st st'
  defs : SameDefs st st'
  keys : ∀ a q, (keys (st'.cont a q)).Nodup
  other : ∀ a q, q ∉ ds → st'.cont a q = st.cont a q
  good : ∀ a q n, (q ∈ ds ∨ Good1 st a q n) → Good1 st' a q n
  /-- the names a re-derived space has: its definitions and what its tail defines -/
  names : ∀ a q n, q ∈ ds → q ∈ st.ids →
    ((st'.mem a q n).isSome = true ↔ (st.defd a q n).isSome = true ∨ (st.firstDef a (st.tail q) n).isSome = true)

theorem rederived_nil (st : St) (hk : ∀ a q, (keys (st.cont a q)).Nodup) : Rederived st st [] :=
  ⟨Shape.refl st, fun _ _ _ => rfl, hk, fun _ _ _ => rfl, fun a q n h => h.elim (fun h => by cases h) id,
    fun _ _ _ h => by cases h⟩

theorem isSome_mem_onInherit (st : St) (a : Attr) (q : Path) (hq : q ∈ st.ids)
    (hk : (keys (st.cont a q)).Nodup) (n : String) :
    ((st.onInherit a q).mem a q n).isSome = true ↔
      (st.defd a q n).isSome = true ∨ (st.firstDef a (st.tail q) n).isSome = true := by
  rw [mem_onInherit_self st a q hq hk n]
  cases st.defd a q n with
  | some v => simp
  | none => cases st.firstDef a (st.tail q) n <;> simp

theorem rederived_updateDerived (st : St) (hk : ∀ a q, (keys (st.cont a q)).Nodup) (q : Path) :
    Rederived st (st.updateDerived q) [q] := by
  unfold St.updateDerived
  have hk1 := keys_onInherit st .cells q hk
  have hk2 := keys_onInherit (st.onInherit .cells q) .refs q hk1
  have hs1 := shape_onInherit st .cells q
  have hs2 := shape_onInherit (st.onInherit .cells q) .refs q
  have hd1 := sameDefs_onInherit st .cells q (hk _ _)
  have hd2 := sameDefs_onInherit (st.onInherit .cells q) .refs q (hk1 _ _)
  refine ⟨hs1.trans hs2, fun a q' n => (hd2 a q' n).trans (hd1 a q' n), hk2, ?_, ?_, ?_⟩
  · intro a q' hq'
    have hne : q' ≠ q := fun e => hq' (by simp [e])
    rw [cont_onInherit_other _ _ _ _ _ (fun h => hne h.1), cont_onInherit_other _ _ _ _ _ (fun h => hne h.1)]
  · intro a q' n h
    by_cases hqq : q' = q
    · subst hqq
      cases a with
      | cells =>
        exact good_onInherit_other _ _ _ (hk1 _ _) _ _ _ (fun h => by cases h.2)
          (good_onInherit_self st .cells q' (hk _ _) n)
      | refs => exact good_onInherit_self _ .refs q' (hk1 _ _) n
    · rcases h with h | h
      · simp only [List.mem_singleton] at h; exact absurd h hqq
      · exact good_onInherit_other _ _ _ (hk1 _ _) _ _ _ (fun h => hqq h.1)
          (good_onInherit_other _ _ _ (hk _ _) _ _ _ (fun h => hqq h.1) h)
  · intro a q' n hq' hid
    simp only [List.mem_singleton] at hq'
    subst hq'
    cases a with
    | cells =>
      rw [mem_onInherit_other _ _ _ _ _ _ (fun h => by cases h.2)]
      exact isSome_mem_onInherit st .cells q' hid (hk _ _) n
    | refs =>
      have hid1 : q' ∈ (st.onInherit .cells q').ids := by rw [hs1.ids]; exact hid
      rw [isSome_mem_onInherit _ .refs q' hid1 (hk1 _ _) n, hs1.tail, hd1.firstDef, hd1 .refs q' n]

theorem rederived_trans {st st' st'' : St} {ds ds' : List Path} (h : Rederived st st' ds)
    (h' : Rederived st' st'' ds') : Rederived st st'' (ds ++ ds') := by
  refine ⟨h.shape.trans h'.shape, fun a q n => (h'.defs a q n).trans (h.defs a q n), h'.keys, ?_, ?_, ?_⟩
  · intro a q hq
    simp only [List.mem_append, not_or] at hq
    rw [h'.other a q hq.2, h.other a q hq.1]
  · intro a q n hq
    apply h'.good
    by_cases h2 : q ∈ ds'
    · exact Or.inl h2
    · right
      apply h.good
      rcases hq with hq | hq
      · simp only [List.mem_append] at hq
        rcases hq with hq | hq
        · exact Or.inl hq
        · exact absurd hq h2
      · exact Or.inr hq
  · intro a q n hq hid
    have hid' : q ∈ st'.ids := by rw [h.shape.ids]; exact hid
    by_cases h2 : q ∈ ds'
    · rw [h'.names a q n h2 hid', h.defs a q n, h.shape.tail, h.defs.firstDef]
    · have h1 : q ∈ ds := by
        simp only [List.mem_append] at hq
        exact hq.resolve_right h2
      rw [St.mem_eq, h'.other a q h2, ← St.mem_eq]
      exact h.names a q n h1 hid

theorem rederived_updateAll (st : St) (hk : ∀ a q, (keys (st.cont a q)).Nodup) (ds : List Path) :
    Rederived st (st.updateAll ds) ds := by
  unfold St.updateAll
  induction ds generalizing st with
  | nil => exact rederived_nil st hk
  | cons d ds ih =>
    simp only [List.foldl_cons]
    have h1 := rederived_updateDerived st hk d
    have h2 := ih (st.updateDerived d) h1.keys
    exact rederived_trans h1 h2

end MxModel.SM
