import MxModel.Kernels.ItemSpace
/-! Lemmas about `bind` (C07, also used by C01 for cells arguments). -/
namespace MxModel.ItemSpace

theorem kwFind_none_iff (kw : KwArgs) (n : String) : kwFind kw n = none ↔ n ∉ kwKeys kw := by
  induction kw with
  | nil => simp [kwFind, kwKeys]
  | cons e rest ih =>
    obtain ⟨k, v⟩ := e
    unfold kwFind
    by_cases h : k = n
    · subst h; simp [kwKeys]
    · have h' : ¬ n = k := fun c => h c.symm
      simp [h, h', kwKeys] at ih ⊢
      exact ih

theorem kwFind_isSome_iff (kw : KwArgs) (n : String) : (kwFind kw n).isSome ↔ n ∈ kwKeys kw := by
  cases h : kwFind kw n with
  | none => simp [(kwFind_none_iff kw n).mp h]
  | some v =>
    have : ¬ (kwFind kw n = none) := by simp [h]
    simp only [Option.isSome_some, true_iff]
    exact Classical.byContradiction fun c => this ((kwFind_none_iff kw n).mpr c)

theorem kwFind_nil (n : String) : kwFind [] n = none := rfl

/-! ### the values -/

theorem bindVals_length {sig : Sig} : ∀ {args : List Val} {kw : KwArgs} {key : Key},
    bindVals sig args kw = some key → key.length = sig.length := by
  induction sig with
  | nil =>
    intro args kw key h
    cases args with
    | nil => simp [bindVals] at h; subst h; rfl
    | cons a as => simp [bindVals] at h
  | cons p ps ih =>
    intro args kw key h
    cases args with
    | cons a as =>
      simp only [bindVals] at h
      split at h
      · cases h
      · cases hb : bindVals ps as kw with
        | none => simp [hb] at h
        | some k' => simp [hb] at h; subst h; simp [ih hb]
    | nil =>
      simp only [bindVals] at h
      split at h
      · cases hb : bindVals ps [] kw with
        | none => simp [hb] at h
        | some k' => simp [hb] at h; subst h; simp [ih hb]
      · cases hb : bindVals ps [] kw with
        | none => simp [hb] at h
        | some k' => simp [hb] at h; subst h; simp [ih hb]
      · cases h

theorem bindVals_canonical {sig : Sig} : ∀ {args : List Val} {kw : KwArgs} {key : Key},
    bindVals sig args kw = some key → bindVals sig key [] = some key := by
  induction sig with
  | nil =>
    intro args kw key h
    cases args with
    | nil => simp [bindVals] at h; subst h; rfl
    | cons a as => simp [bindVals] at h
  | cons p ps ih =>
    intro args kw key h
    cases args with
    | cons a as =>
      simp only [bindVals] at h
      split at h
      · cases h
      · cases hb : bindVals ps as kw with
        | none => simp [hb] at h
        | some k' => simp [hb] at h; subst h; simp [bindVals, kwFind, ih hb]
    | nil =>
      simp only [bindVals] at h
      split at h
      · cases hb : bindVals ps [] kw with
        | none => simp [hb] at h
        | some k' => simp [hb] at h; subst h; simp [bindVals, kwFind, ih hb]
      · cases hb : bindVals ps [] kw with
        | none => simp [hb] at h
        | some k' => simp [hb] at h; subst h; simp [bindVals, kwFind, ih hb]
      · cases h

theorem bindVals_spec {sig : Sig} : ∀ {args : List Val} {kw : KwArgs} {key : Key},
    bindVals sig args kw = some key → key = specKey sig args kw := by
  induction sig with
  | nil =>
    intro args kw key h
    cases args with
    | nil => simp [bindVals] at h; subst h; rfl
    | cons a as => simp [bindVals] at h
  | cons p ps ih =>
    intro args kw key h
    cases args with
    | cons a as =>
      simp only [bindVals] at h
      split at h
      · cases h
      · cases hb : bindVals ps as kw with
        | none => simp [hb] at h
        | some k' => simp [hb] at h; subst h; simp [specKey, ← ih hb]
    | nil =>
      simp only [bindVals] at h
      split at h
      · rename_i v _ hv
        cases hb : bindVals ps [] kw with
        | none => simp [hb] at h
        | some k' => simp [hb] at h; subst h; simp [specKey, hv, ← ih hb]
      · rename_i d hv hd
        cases hb : bindVals ps [] kw with
        | none => simp [hb] at h
        | some k' => simp [hb] at h; subst h; simp [specKey, hv, hd, ← ih hb]
      · cases h

/-- when the values exist: not too many positional arguments, no parameter given twice, no
required parameter missing -/
theorem bindVals_isSome_iff {sig : Sig} : ∀ {args : List Val} {kw : KwArgs},
    (bindVals sig args kw).isSome ↔
      args.length ≤ sig.length ∧
      (∀ p ∈ sig.take args.length, p.name ∉ kwKeys kw) ∧
      (∀ p ∈ sig.drop args.length, p.dflt = none → p.name ∈ kwKeys kw) := by
  induction sig with
  | nil =>
    intro args kw
    cases args with
    | nil => simp [bindVals]
    | cons a as => simp [bindVals]
  | cons p ps ih =>
    intro args kw
    cases args with
    | cons a as =>
      by_cases hf : (kwFind kw p.name).isSome
      · have hm := (kwFind_isSome_iff kw p.name).mp hf
        have hstep : (bindVals (p :: ps) (a :: as) kw).isSome = false := by simp [bindVals, hf]
        rw [hstep]
        simp only [Bool.false_eq_true, false_iff]
        rintro ⟨_, h2, _⟩
        exact h2 p (by simp) hm
      · have hm : p.name ∉ kwKeys kw := fun c => hf ((kwFind_isSome_iff kw p.name).mpr c)
        have hstep : (bindVals (p :: ps) (a :: as) kw).isSome = (bindVals ps as kw).isSome := by
          simp [bindVals, hf]
        rw [hstep, ih]
        simp only [List.length_cons, Nat.add_le_add_iff_right, List.take_succ_cons, List.drop_succ_cons]
        constructor
        · rintro ⟨h1, h2, h3⟩
          refine ⟨h1, ?_, h3⟩
          intro q hq
          rcases List.mem_cons.mp hq with rfl | hq
          · exact hm
          · exact h2 q hq
        · rintro ⟨h1, h2, h3⟩
          exact ⟨h1, fun q hq => h2 q (List.mem_cons_of_mem _ hq), h3⟩
    | nil =>
      have ih0 := @ih [] kw
      simp only [List.length_nil, Nat.zero_le, List.take_zero, List.not_mem_nil, false_implies,
        implies_true, List.drop_zero, true_and] at ih0 ⊢
      cases hv : kwFind kw p.name with
      | some v =>
        have hm : p.name ∈ kwKeys kw := (kwFind_isSome_iff kw p.name).mp (by simp [hv])
        have hstep : (bindVals (p :: ps) [] kw).isSome = (bindVals ps [] kw).isSome := by
          simp [bindVals, hv]
        rw [hstep, ih0]
        constructor
        · intro h q hq
          rcases List.mem_cons.mp hq with rfl | hq
          · intro _; exact hm
          · exact h q hq
        · intro h q hq; exact h q (List.mem_cons_of_mem _ hq)
      | none =>
        have hm : p.name ∉ kwKeys kw := (kwFind_none_iff kw p.name).mp hv
        cases hd : p.dflt with
        | some d =>
          have hstep : (bindVals (p :: ps) [] kw).isSome = (bindVals ps [] kw).isSome := by
            simp [bindVals, hv, hd]
          rw [hstep, ih0]
          constructor
          · intro h q hq
            rcases List.mem_cons.mp hq with rfl | hq
            · intro c; rw [hd] at c; cases c
            · exact h q hq
          · intro h q hq; exact h q (List.mem_cons_of_mem _ hq)
        | none =>
          have hstep : (bindVals (p :: ps) [] kw).isSome = false := by simp [bindVals, hv, hd]
          rw [hstep]
          simp only [Bool.false_eq_true, false_iff]
          intro h
          exact hm (h p (by simp) hd)

/-! ### keywords -/

theorem any_unknown_false_iff (sig : Sig) (kw : KwArgs) :
    kw.any (fun e => !(names sig).contains e.1) = false ↔ ∀ k ∈ kwKeys kw, k ∈ names sig := by
  simp [List.any_eq_false, kwKeys]

theorem names_take_drop (sig : Sig) (n : Nat) : names sig = names (sig.take n) ++ names (sig.drop n) := by
  simp only [names, ← List.map_append, List.take_append_drop]

/-- **`bind` is exactly Python's acceptance and the parameter-wise values.** -/
theorem bind_eq_some_iff (sig : Sig) (hwf : (names sig).Nodup) (args : List Val) (kw : KwArgs) (key : Key) :
    bindArgs sig args kw = some key ↔ Accepts sig args kw ∧ key = specKey sig args kw := by
  unfold bindArgs Accepts
  by_cases hnd : (kwKeys kw).Nodup
  · simp only [hnd, not_true_eq_false, if_false, true_and]
    have hsplit := names_take_drop sig args.length
    have hdisj : ∀ x, x ∈ names (sig.take args.length) → x ∈ names (sig.drop args.length) → False := by
      intro x h1 h2
      rw [hsplit] at hwf
      exact (List.nodup_append.mp hwf).2.2 x h1 x h2 rfl
    by_cases hu : kw.any (fun e => !(names sig).contains e.1) = true
    · simp only [hu, if_true]
      constructor
      · intro h; cases h
      · rintro ⟨⟨_, h3, _⟩, _⟩
        have : kw.any (fun e => !(names sig).contains e.1) = false := by
          rw [any_unknown_false_iff]
          intro k hk
          rw [hsplit]; exact List.mem_append_right _ (h3 k hk)
        rw [this] at hu; cases hu
    · have hu' : kw.any (fun e => !(names sig).contains e.1) = false := Bool.eq_false_iff.mpr hu
      have hall := (any_unknown_false_iff sig kw).mp hu'
      simp only [hu', Bool.false_eq_true, if_false]
      constructor
      · intro h
        have hs : (bindVals sig args kw).isSome := by simp [h]
        obtain ⟨h1, h2, h3⟩ := bindVals_isSome_iff.mp hs
        refine ⟨⟨h1, ?_, h3⟩, bindVals_spec h⟩
        intro k hk
        have := hall k hk
        rw [hsplit, List.mem_append] at this
        rcases this with ht | hd
        · exfalso
          simp only [names, List.mem_map] at ht
          obtain ⟨p, hp, rfl⟩ := ht
          exact h2 p hp hk
        · exact hd
      · rintro ⟨⟨h1, h2, h3⟩, hk⟩
        have hs : (bindVals sig args kw).isSome := by
          apply bindVals_isSome_iff.mpr
          refine ⟨h1, ?_, h3⟩
          intro p hp hc
          exact hdisj p.name (by simp only [names, List.mem_map]; exact ⟨p, hp, rfl⟩) (h2 _ hc)
        cases hb : bindVals sig args kw with
        | none => simp [hb] at hs
        | some k' => rw [hk, bindVals_spec hb]
  · rw [if_pos hnd]
    constructor
    · intro h; cases h
    · rintro ⟨⟨h, _⟩, _⟩; exact absurd h hnd

theorem bind_bindVals {sig : Sig} {args : List Val} {kw : KwArgs} {key : Key}
    (h : bindArgs sig args kw = some key) : bindVals sig args kw = some key := by
  unfold bindArgs at h
  split at h
  · cases h
  · split at h
    · cases h
    · exact h

/-- keyword lookup does not depend on the order of the keywords -/
theorem kwFind_perm {kw kw' : KwArgs} (hp : kw.Perm kw') (hnd : (kwKeys kw).Nodup) (n : String) :
    kwFind kw n = kwFind kw' n := by
  induction hp with
  | nil => rfl
  | cons x _ ih =>
    obtain ⟨k, v⟩ := x
    simp only [kwKeys, List.map_cons, List.nodup_cons] at hnd
    simp only [kwFind]
    split
    · rfl
    · exact ih hnd.2
  | swap x y l =>
    obtain ⟨k1, v1⟩ := x
    obtain ⟨k2, v2⟩ := y
    simp only [kwKeys, List.map_cons, List.nodup_cons, List.mem_cons, not_or] at hnd
    simp only [kwFind]
    by_cases h1 : k1 = n <;> by_cases h2 : k2 = n
    · exfalso; exact hnd.1.1 (h2.trans h1.symm)
    · simp [h1, h2]
    · simp [h1, h2]
    · simp [h1, h2]
  | trans h1 _ ih1 ih2 =>
    have hnd2 : (kwKeys _).Nodup := (List.Perm.nodup_iff (List.Perm.map _ h1)).mp hnd
    exact (ih1 hnd).trans (ih2 hnd2)

theorem bindVals_perm {sig : Sig} : ∀ {args : List Val} {kw kw' : KwArgs}, kw.Perm kw' → (kwKeys kw).Nodup →
    bindVals sig args kw = bindVals sig args kw' := by
  induction sig with
  | nil => intro args kw kw' _ _; cases args <;> rfl
  | cons p ps ih =>
    intro args kw kw' hp hnd
    cases args with
    | cons a as => simp only [bindVals, kwFind_perm hp hnd, ih hp hnd]
    | nil => simp only [bindVals, kwFind_perm hp hnd, ih hp hnd]

theorem bind_perm (sig : Sig) (args : List Val) {kw kw' : KwArgs} (hp : kw.Perm kw') :
    bindArgs sig args kw = bindArgs sig args kw' := by
  unfold bindArgs
  have hk : (kwKeys kw).Perm (kwKeys kw') := List.Perm.map _ hp
  by_cases hnd : (kwKeys kw).Nodup
  · have hnd' : (kwKeys kw').Nodup := (List.Perm.nodup_iff hk).mp hnd
    simp only [hnd, hnd', not_true_eq_false, if_false]
    rw [List.Perm.any_eq hp, bindVals_perm hp hnd]
  · have hnd' : ¬ (kwKeys kw').Nodup := fun c => hnd ((List.Perm.nodup_iff hk).mpr c)
    simp [hnd, hnd']

end MxModel.ItemSpace
