import MxModel.Proofs.StructMechNames
/-!
# The mechanism does not refuse everything (liveness of the plain cases)

Sufficient conditions under which an operation IS accepted in a well-formed state, stated without
reference to the step function: a valid name that is used nowhere can always be given to a new cells of
an existing space, and to a new space without bases under an existing parent (or at top level).
Together with the effect lemmas (`apply_spec`) this rules out the trivial models of the safety theorems
(`Inv` holds of a mechanism that refuses everything, and of one that accepts and does nothing).
-/
namespace MxModel.SM
open MxModel.C3

/-- `n` is used for nothing anywhere in the model -/
def Unused (st : St) (n : String) : Prop :=
  (∀ a q, st.mem a q n = none) ∧ (∀ q, n ∉ st.childNames q) ∧ n ∉ st.globals

theorem kindOf_none_of_unused (st : St) (n : String) (h : Unused st n) (q : Path) : st.kindOf q n = none := by
  unfold St.kindOf
  obtain ⟨h1, h2, h3⟩ := h
  simp [h1 .cells q, h1 .refs q, h2 q, h3]

theorem canAdd_of_unused (st : St) (p : Path) (n : String) (k : Kind) (h : Unused st n) :
    st.canAdd p n k = true := by
  unfold St.canAdd
  split
  · simp [h.2.1 [], h.2.2]
  · simp only [kindOf_none_of_unused st n h p, Option.isSome_none, Bool.false_eq_true, if_false]
    apply List.all_eq_true.mpr
    intro q _
    rw [kindOf_none_of_unused st n h q]

/-- **a new cells under a fresh valid name is accepted** in any existing space … -/
theorem newCells_accepted_of_unused (kw : List String) (st : St) (p : Path) (n : String) (v : Nat)
    (hp : p ∈ st.ids) (hv : Names.isValidName kw n = true) (hu : Unused st n) :
    ∃ st', st.newCells kw p n v = some st' ∧ st'.defd .cells p n = some v := by
  have hs : (st.newCells kw p n v).isSome = true := by
    rw [newCells_isSome]
    unfold St.acceptsNewCells
    simp [(has_iff_mem_ids st p).mpr hp, hv, canAdd_of_unused st p n .cells hu]
  cases hop : st.newCells kw p n v with
  | none => rw [hop] at hs; cases hs
  | some st' =>
    refine ⟨st', rfl, ?_⟩
    rw [(newCells_spec kw st st' p n v hop).2 .cells p n]
    simp

/-- … and so is a new space without bases under a fresh valid name (at top level or in an existing space) -/
theorem newSpace_accepted_of_unused (kw : List String) (st : St) (parent : Path) (n : String)
    (hp : parent = [] ∨ parent ∈ st.ids) (hv : Names.isValidName kw n = true) (hu : Unused st n) :
    ∃ st', st.newSpace kw parent n [] = some st' := by
  have hs : (st.newSpace kw parent n []).isSome = true := by
    rw [newSpace_isSome]
    unfold St.acceptsNewSpace
    have hid : parent ++ [n] ∉ st.ids := by rw [← mem_childNames]; exact hu.2.1 parent
    have hb : (st.push (freshSpace parent n [])).basesOf (parent ++ [n]) = [] := by
      rw [basesOf_push st _ hid]; simp [freshSpace, dedupLast]
    have hm : (st.push (freshSpace parent n [])).mro (parent ++ [n]) = some [parent ++ [n]] := by
      unfold St.mro
      simp [C3.mro, hb, C3.merge, C3.totalLen]
    rw [hm]
    have hnc : (st.push (freshSpace parent n [])).noConflict [parent ++ [n]] [] = true := by
      unfold St.noConflict St.allNames
      have hf : (st.push (freshSpace parent n [])).find (parent ++ [n]) = some (freshSpace parent n []) := by
        rw [find_push st _ hid]; simp [freshSpace]
      simp only [List.flatMap_cons, List.flatMap_nil, List.append_nil, hf]
      simp [freshSpace, Space.get, disjoint]
    have hpar' : parent = [] ∨ st.has parent = true := by
      rcases hp with rfl | hp
      · exact Or.inl rfl
      · exact Or.inr ((has_iff_mem_ids st parent).mpr hp)
    simp [hpar', hv, canAdd_of_unused st parent n .space hu, hnc]
  cases hop : st.newSpace kw parent n [] with
  | none => rw [hop] at hs; cases hs
  | some st' => exact ⟨st', rfl⟩

end MxModel.SM
