import MxModel.Proofs.ExecCertRunN
import MxModel.Proofs.ExecCertOps
import MxModel.Proofs.ExecCertSound
import MxModel.Proofs.ExecAlive
/-!
# The certificate invariant at quiescent states: every operation preserves it

`CI env lt s`: graph invariant + idle executor + certificates.  Top-level evaluations (T1),
value edits, reference edits (w.r.t. the edited environment, T3) and formula / flag edits (T4)
take `CI` states to `CI` states; `CI` implies `Good` (T2).
-/
namespace MxModel.Exec

variable {env : Env} {lt : Node → Node → Prop}

structure Quiet (s : St) : Prop where
  stack : s.stack = []
  idx : s.idx = []
  refstack : s.refstack = []

structure CI (env : Env) (lt : Node → Node → Prop) (s : St) : Prop where
  gi : GI env lt s
  quiet : Quiet s
  certs : CInv env s
  /-- only cells that exist have graph nodes (hence values) -/
  alive : AliveG env s
  /-- reference-graph edges end in held elements -/
  rgHeld : RgHeld s

theorem CI.good (h : CI env lt s) : Good env (inpOf s) s :=
  cinv_good env s (fun m hm => (h.gi.heldNodes m hm).2)
    (fun a b hab => h.alive.nodes a (h.gi.edgeNodes a b hab).1) h.certs

theorem CI.empty (env : Env) (lt : Node → Node → Prop) : CI env lt {} :=
  ⟨by constructor <;> simp, ⟨rfl, rfl, rfl⟩, by intro n v hl; simp at hl, AliveG.empty env,
   fun e he => by simp at he⟩

/-- a clearing keeps `AliveG`, also w.r.t. new definitions in which the cells that still have
nodes exist -/
theorem AliveG.of_clr {env env' : Env} {s s' : St} {R : List GNode} {D : RefId × Node → Prop}
    (h : AliveG env s) (hc : Clr s R D s') (hst : s.stack = [])
    (hal : ∀ x ∈ s'.gn, env'.alive x.cell = env.alive x.cell)
    (hca : ∀ c, GNode.obj c ∈ s'.gn → env'.cached c = env.cached c) : AliveG env' s' :=
  h.of_gn_sub (fun x hx => ((hc.mem_gn x).mp hx).1) hc.stack hal hca hst

theorem RgHeld.of_clr {s s' : St} {R : List GNode} {D : RefId × Node → Prop} (h : RgHeld s)
    (hc : Clr s R D s') : RgHeld s' := by
  intro e he
  rw [hc.lookup, if_neg (hc.rgOut e he)]
  exact h e (hc.rgSub e he)

theorem Quiet.of_clr {s s' : St} {R : List GNode} {D : RefId × Node → Prop} (q : Quiet s) (h : Clr s R D s') :
    Quiet s' :=
  ⟨h.stack.trans q.stack, h.idx.trans q.idx, h.refstack.trans q.refstack⟩

/-- **T1** -/
theorem evalTop_ci (ho : StrictOrder lt) (hr : Ranked env lt) (hnc : NoCatchEnv env) (n : Node) {s : St}
    (hn : env.alive n.1 = true) (h : CI env lt s) : CI env lt (evalTop env n s).2 := by
  have hal := evalTop_alive n s hn h.alive
  have hrg := evalTop_rgHeld (env := env) n s h.rgHeld
  unfold evalTop at hal hrg ⊢
  cases hl : (if env.cached n.1 = true then lookup s.data n else none) with
  | some v => exact h
  | none =>
    simp only [hl] at hal hrg
    simp only []
    have hnone : lookup s.data n = none := by
      by_cases hc : env.cached n.1 = true
      · simpa [hc] using hl
      · cases h' : lookup s.data n with
        | none => rfl
        | some v => exact absurd (h.gi.heldNodes n (by rw [h']; rfl)).2 hc
    have hm : Mid env lt s :=
      ⟨h.gi, (by intro j i hji; rw [h.quiet.idx] at hji; simp at hji), (by simp [h.quiet.stack, h.quiet.idx]),
       (by intro e he; rw [h.quiet.refstack] at he; cases he), h.certs⟩
    obtain ⟨hp, _⟩ := runN_cert ho hr hnc (env.maxdepth + 1) n s hm
      (by intro a ha; rw [h.quiet.stack] at ha; cases ha) hnone
    generalize runN env (env.maxdepth + 1) n s = p at hp hal hrg
    obtain ⟨r, s1⟩ := p
    simp only [] at hp hal hrg
    have hq : Quiet s1 := by
      refine ⟨hp.presP.stack.trans h.quiet.stack, hp.idx.trans h.quiet.idx, ?_⟩
      obtain ⟨new, hnew, hlev⟩ := hp.body.refs
      rw [hnew, h.quiet.refstack, List.nil_append]
      cases new with
      | nil => rfl
      | cons e _ => have := hlev e (by simp); rw [h.quiet.stack] at this; simp at this
    have key : ∀ s2 : St, SameG s1 s2 → SameC s1 s2 → s2.refstack = s1.refstack → AliveG env s2 →
        RgHeld s2 → CI env lt s2 := by
      intro s2 hg hc hrs ha2 hr2
      exact ⟨GI.of_sameG hg hp.mid.gi, ⟨hg.stack.trans hq.stack, hg.idx.trans hq.idx, hrs.trans hq.refstack⟩,
        hp.mid.certs.of_sameC hc, ha2, hr2⟩
    cases r with
    | ok v => exact key _ ⟨rfl, rfl, rfl, rfl, rfl, rfl⟩ ⟨rfl, rfl, rfl, rfl⟩ rfl hal hrg
    | err e => exact key _ ⟨rfl, rfl, rfl, rfl, rfl, rfl⟩ ⟨rfl, rfl, rfl, rfl⟩ rfl hal hrg

/-! ### edits -/

/-- **T3** – `space.r = v`, whether `r` exists or not -/
theorem setRef_ci {env env' : Env} {s : St} {r : RefId} (h : CI env lt s) (hsc : Scoped env)
    (hnc : NoCatchEnv env) (hed : RefEdit env env' r) : CI env' lt (s.setRef env r) := by
  obtain ⟨R, D, hc, hf, hD⟩ := clr_setRef env s h.gi.edgeOK r
  exact ⟨refEdit_gi h.gi h.quiet.stack hed hc, h.quiet.of_clr hc,
    refEdit_cinv h.gi h.certs hsc hnc hed hc hf hD,
    h.alive.of_clr hc h.quiet.stack (fun _ _ => by rw [hed.alive]) (fun _ _ => by rw [hed.cached]),
    h.rgHeld.of_clr hc⟩

/-- **T3** – `del space.r` of an existing reference -/
theorem delRef_ci {env env' : Env} {s : St} {r : RefId} (h : CI env lt s) (hsc : Scoped env)
    (hnc : NoCatchEnv env) (hed : RefEdit env env' r) (hex : (env.refs r).isSome = true) :
    CI env' lt (s.delRef env r) := by
  obtain ⟨R, hc, hf⟩ := clr_delRef env s h.gi.edgeOK r
  exact ⟨refEdit_gi h.gi h.quiet.stack hed hc, h.quiet.of_clr hc,
    refEdit_cinv h.gi h.certs hsc hnc hed hc hf (fun e he => ⟨hex, he⟩),
    h.alive.of_clr hc h.quiet.stack (fun _ _ => by rw [hed.alive]) (fun _ _ => by rw [hed.cached]),
    h.rgHeld.of_clr hc⟩

/-- **T4** – a new formula, cache flag or `allow_none` for cells `c` -/
theorem setFormula_ci {env env' : Env} {s : St} {c : CellId} (h : CI env lt s) (hed : CellEdit env env' c) :
    CI env' lt (s.setFormula c) := by
  obtain ⟨h1, h2⟩ := setFormula_cinv h.gi h.quiet.stack h.certs hed
  obtain ⟨R, hc, hel, hobj⟩ := clr_clearObj s (fun _ => False) h.gi.edgeOK c
  refine ⟨h2, h.quiet.of_clr hc, h1, h.alive.of_clr hc h.quiet.stack (fun _ _ => by rw [hed.alive]) ?_,
    h.rgHeld.of_clr hc⟩
  intro c' hc'
  obtain ⟨h3, h4⟩ := (hc.mem_gn _).mp hc'
  exact hed.cached c' (fun heq => h4 (heq ▸ hobj (heq ▸ h3)))

theorem clearValueAt_ci {s : St} (h : CI env lt s) (n : Node) (ci : Bool) : CI env lt (s.clearValueAt n ci) := by
  obtain ⟨R, hc, _⟩ := clr_clearValueAt s (fun _ => False) h.gi.edgeOK n ci
  exact ⟨h.gi.clearValueAt h.quiet.stack n ci, h.quiet.of_clr hc, clearValueAt_cinv h.gi h.certs n ci,
    h.alive.of_clr hc h.quiet.stack (fun _ _ => rfl) (fun _ _ => rfl), h.rgHeld.of_clr hc⟩

theorem clearAllValues_ci {s : St} (h : CI env lt s) (c : CellId) (ci : Bool) :
    CI env lt (s.clearAllValues c ci) := by
  obtain ⟨R, hc, _⟩ := clr_clearAllValues s (fun _ => False) h.gi.edgeOK c ci
  exact ⟨(h.gi.clearAllValues h.quiet.stack c ci).1, h.quiet.of_clr hc, clearAllValues_cinv h.gi h.certs c ci,
    h.alive.of_clr hc h.quiet.stack (fun _ _ => rfl) (fun _ _ => rfl), h.rgHeld.of_clr hc⟩

theorem clearObj_ci {s : St} (h : CI env lt s) (c : CellId) : CI env lt (s.clearObj c) := by
  obtain ⟨R, hc, _⟩ := clr_clearObj s (fun _ => False) h.gi.edgeOK c
  exact ⟨h.gi.clearObj h.quiet.stack c, h.quiet.of_clr hc, clearObj_cinv h.gi h.certs c,
    h.alive.of_clr hc h.quiet.stack (fun _ _ => rfl) (fun _ _ => rfl), h.rgHeld.of_clr hc⟩

/-- **T4** – assigning a value to an element of a cached cells -/
theorem setValue_ci {s : St} (h : CI env lt s) (n : Node) (v : Val) (hc : env.cached n.1 = true)
    (hn : env.alive n.1 = true) : CI env lt (s.setValue env n v).1 := by
  have hq1 := (clearValueAt_ci h n true).quiet
  have ha1 := (clearValueAt_ci h n true).alive
  have hr1 := (clearValueAt_ci h n true).rgHeld
  refine ⟨(h.gi.setValue h.quiet.stack n v hc).1, ?_, setValue_cinv h.gi h.certs n v, ?_, ?_⟩
  · unfold St.setValue
    split
    · exact h.quiet
    · simp only []
      generalize s.clearValueAt n true = s1 at hq1
      unfold St.addNode
      split <;> exact ⟨hq1.stack, hq1.idx, hq1.refstack⟩
  · unfold St.setValue
    split
    · exact h.alive
    · simp only []
      generalize s.clearValueAt n true = s1 at ha1
      have h2 : AliveG env (({ s1 with data := insert s1.data n v } : St).addNode (.elem n)) :=
        (ha1.of_same (s' := { s1 with data := insert s1.data n v }) rfl rfl).addNode _ (NodeOK.elem hn)
      exact h2.of_same rfl rfl
  · unfold St.setValue
    split
    · exact h.rgHeld
    · simp only []
      generalize s.clearValueAt n true = s1 at hr1
      intro e he
      have he1 : e ∈ s1.rg := by
        have : (({ s1 with data := insert s1.data n v } : St).addNode (.elem n)).rg = s1.rg := rg_addNode _ _
        simpa [this] using he
      have hd : (({ s1 with data := insert s1.data n v } : St).addNode (.elem n)).data = insert s1.data n v :=
        (sameCache_addNode _ _).data
      show (lookup (({ s1 with data := insert s1.data n v } : St).addNode (.elem n)).data e.2).isSome = true
      rw [hd, lookup_insert]
      split
      · rfl
      · exact hr1 e he1

end MxModel.Exec
