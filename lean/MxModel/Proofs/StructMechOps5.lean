import MxModel.Proofs.StructMechOps4
/-!
# Preservation of `Inv` by `delSpace`

The spaces of the deleted tree (`removed`) disappear from the list of spaces and from every list of
direct bases; the sub spaces of removed spaces are re-derived.  A space that is not a sub space of
any removed space has no removed space in its linearisation, so its linearisation is unchanged.
-/
namespace MxModel.SM
open MxModel.C3

/-- the state without the spaces of `removed` -/
def stripBases (removed : List Path) (s : Space) : Space :=
  { s with bases := s.bases.filter (fun b => !removed.contains b) }

def St.without (st : St) (removed : List Path) : St :=
  { st with spaces := List.map (stripBases removed) (st.spaces.filter (fun s => !removed.contains s.id)) }

theorem ids_without (st : St) (removed : List Path) :
    (st.without removed).ids = st.ids.filter (fun q => !removed.contains q) := by
  unfold St.without St.ids
  simp only [List.map_map, List.filter_map]
  rfl

theorem mem_ids_without (st : St) (removed : List Path) (q : Path) :
    q ∈ (st.without removed).ids ↔ q ∈ st.ids ∧ q ∉ removed := by
  rw [ids_without]
  simp

@[simp] theorem id_stripBases (removed : List Path) (s : Space) : (stripBases removed s).id = s.id := rfl

theorem find?_congr' {α : Type} (l : List α) (p q : α → Bool) (h : ∀ x ∈ l, p x = q x) :
    l.find? p = l.find? q := by
  induction l with
  | nil => rfl
  | cons a l ih =>
    simp only [List.find?_cons]
    rw [h a (by simp), ih (fun x hx => h x (List.mem_cons_of_mem _ hx))]

theorem find_without (st : St) (removed : List Path) (q : Path) :
    (st.without removed).find q =
      if q ∈ removed then none
      else (st.find q).map (stripBases removed) := by
  unfold St.without St.find
  simp only
  rw [List.find?_map, List.find?_filter]
  by_cases hq : q ∈ removed
  · simp only [hq, if_true, Option.map_eq_none_iff, List.find?_eq_none]
    intro s _
    simp only [Function.comp, Bool.not_eq_true', List.contains_eq_mem, decide_eq_false_iff_not,
      beq_iff_eq, decide_eq_true_eq, not_and]
    intro hs e
    exact hs (e ▸ hq)
  · simp only [hq, if_false]
    congr 1
    apply find?_congr'
    intro s _
    simp only [Function.comp, Bool.not_eq_true', List.contains_eq_mem, decide_eq_false_iff_not, beq_iff_eq]
    by_cases hs : s.id = q
    · simp [hs, hq]
    · simp [hs]

theorem cont_without (st : St) (removed : List Path) (a : Attr) (q : Path) :
    (st.without removed).cont a q = if q ∈ removed then [] else st.cont a q := by
  unfold St.cont
  rw [find_without]
  by_cases hq : q ∈ removed
  · simp only [hq, if_true]
  · simp only [hq, if_false]
    cases st.find q with
    | none => rfl
    | some s => cases a <;> rfl

theorem basesOf_without (st : St) (removed : List Path) (q : Path) :
    (st.without removed).basesOf q =
      if q ∈ removed then [] else (st.basesOf q).filter (fun b => !removed.contains b) := by
  unfold St.basesOf
  rw [find_without]
  by_cases hq : q ∈ removed
  · simp only [hq, if_true]
  · simp only [hq, if_false]
    cases st.find q with
    | none => rfl
    | some s => rfl

theorem isPrefix_of_dropLast (p q : Path) (h : isPrefix p q.dropLast = true) : isPrefix p q = true := by
  unfold isPrefix at h ⊢
  simp only [beq_iff_eq] at h ⊢
  rw [List.dropLast_eq_take, List.take_take] at h
  have hl : p.length ≤ q.length - 1 := by
    have := congrArg List.length h
    simp at this
    omega
  rw [Nat.min_eq_left hl] at h
  exact h

theorem inv_delSpace_core (st : St) (h : Inv st) (p : Path) (removed toUpdate : List Path)
    (hrem : removed = st.ids.filter (isPrefix p))
    (hupd : toUpdate = (removed.flatMap st.subs).eraseDups.filter (fun q => !removed.contains q))
    (hguard : toUpdate.all (fun q => ((st.without removed).mro q).isSome) = true) :
    Inv ((st.without removed).updateAll toUpdate) := by
  generalize hst1 : st.without removed = st1 at hguard ⊢
  have hmemids : ∀ q, q ∈ st1.ids ↔ q ∈ st.ids ∧ q ∉ removed := by
    intro q; rw [← hst1]; exact mem_ids_without st removed q
  have hidsf : st1.ids = st.ids.filter (fun q => !removed.contains q) := by
    rw [← hst1]; exact ids_without st removed
  have hglob : st1.globals = st.globals := by rw [← hst1]; rfl
  have hcont : ∀ a q, st1.cont a q = if q ∈ removed then [] else st.cont a q := by
    intro a q; rw [← hst1]; exact cont_without st removed a q
  have hbases : ∀ q, st1.basesOf q =
      if q ∈ removed then [] else (st.basesOf q).filter (fun b => !removed.contains b) := by
    intro q; rw [← hst1]; exact basesOf_without st removed q
  have hcont' : ∀ a q, q ∈ st1.ids → st1.cont a q = st.cont a q := by
    intro a q hq
    rw [hcont]
    simp [((hmemids q).mp hq).2]
  have hbsub : ∀ q, st1.basesOf q ⊆ st.basesOf q := by
    intro q b hb
    rw [hbases] at hb
    split at hb
    · cases hb
    · exact (List.mem_filter.mp hb).1
  have hlen : st1.spaces.length = st1.ids.length := by simp [St.ids]
  -- a space that is not re-derived has no removed space in its linearisation
  have hclean : ∀ q ∈ st1.ids, q ∉ toUpdate → ∀ x ∈ q :: st.tail q, x ∉ removed := by
    intro q hq hnu x hx hxr
    obtain ⟨hqi, hqr⟩ := (hmemids q).mp hq
    simp only [List.mem_cons] at hx
    rcases hx with rfl | hx
    · exact hqr hxr
    · apply hnu
      rw [hupd, List.mem_filter, List.mem_eraseDups, List.mem_flatMap]
      refine ⟨⟨x, hxr, (mem_subs x q).mpr ⟨hqi, fun e => hqr (e ▸ hxr), hx⟩⟩, by simpa using hqr⟩
  have hmro_old : ∀ q ∈ st1.ids, q ∉ toUpdate → st1.mro q = some (q :: st.tail q) := by
    intro q hq hnu
    have hcl := hclean q hq hnu
    apply mro_transfer_st st st1 q _ (h.wf.mro_all q)
    · intro x hx
      rw [hbases]
      simp only [hcl x hx, if_false]
      rw [List.filter_eq_self]
      intro b hb
      have hbl : b ∈ q :: st.tail q := mro_bases_subset _ _ q _ (h.wf.mro_all q) x hx b hb
      simpa using hcl b hbl
    · have hnd := h.wf.tail_nodup q
      have hsub : (q :: st.tail q) ⊆ st1.ids := by
        intro x hx
        rw [hmemids]
        refine ⟨?_, hcl x hx⟩
        simp only [List.mem_cons] at hx
        rcases hx with rfl | hx
        · exact ((hmemids _).mp hq).1
        · exact h.wf.tail_mem_ids q x hx
      have := List.Nodup.length_le_of_subset hnd hsub
      omega
  have hwf1 : WF st1 := by
    refine ⟨?_, ?_, ?_, ?_, ?_⟩
    · rw [hidsf]; exact List.Nodup.sublist List.filter_sublist h.wf.nodup
    · intro q b hb
      rw [hbases] at hb
      split at hb
      · cases hb
      · rw [List.mem_filter] at hb
        rw [hmemids]
        exact ⟨h.wf.bases q b hb.1, by simpa using hb.2⟩
    · intro q hq
      by_cases hu : q ∈ toUpdate
      · exact List.all_eq_true.mp hguard q hu
      · rw [hmro_old q hq hu]; rfl
    · intro a q
      rw [hcont]
      split
      · simp [keys]
      · exact h.wf.keys a q
    · intro q hq
      obtain ⟨hqi, hqr⟩ := (hmemids q).mp hq
      obtain ⟨h1, h2⟩ := h.wf.tree q hqi
      refine ⟨h1, h2.imp id (fun h3 => ?_)⟩
      rw [hmemids]
      refine ⟨h3, ?_⟩
      intro hdr
      apply hqr
      rw [hrem, List.mem_filter] at hdr ⊢
      exact ⟨hqi, isPrefix_of_dropLast p q hdr.2⟩
  have htail : ∀ q ∈ st1.ids, q ∉ toUpdate → st1.tail q = st.tail q := by
    intro q hq hnu
    unfold St.tail
    rw [hmro_old q hq hnu, h.wf.mro_all q]
  have R := rederived_updateAll st1 hwf1.keys toUpdate
  refine ⟨hwf1.of_shape R.shape R.keys, good_rebase st st1 h hwf1 hcont' _ htail, ?_⟩
  refine h.disj.mono ?_ ?_ (fun n hn => by rw [R.shape.globals, hglob] at hn; exact hn)
  · intro a q n hh
    have hmem1 : ∀ q, q ∈ st1.ids → ∀ n, st1.mem a q n = st.mem a q n := by
      intro q hq n; rw [St.mem_eq, St.mem_eq, hcont' a q hq]
    by_cases hqi : q ∈ st1.ids
    · by_cases hq : q ∈ toUpdate
      · rw [R.names a q n hq hqi] at hh
        rcases hh with hh | hh
        · unfold St.defd at hh
          rw [hmem1 q hqi] at hh
          cases hmm : st.mem a q n with
          | none => rw [hmm] at hh; cases hh
          | some _ => rfl
        · cases hf : st1.firstDef a (st1.tail q) n with
          | none => rw [hf] at hh; cases hh
          | some d =>
            obtain ⟨h1, h2⟩ := firstDef_some st1 a _ n d.1 d.2 hf
            have hsub := mro_subset_of_bases_subset st.basesOf st1.basesOf hbsub _ _ q _ _
              (h.wf.mro_all q) (hwf1.mro_all q) (fun x _ => ⟨_, h.wf.mro_all x⟩)
            have hd1 : d.1 ∈ q :: st.tail q := hsub (List.mem_cons_of_mem _ h1)
            have hne : d.1 ≠ q := fun e => hwf1.not_mem_tail_self q (e ▸ h1)
            simp only [List.mem_cons, hne, false_or] at hd1
            apply h.mem_isSome_of_base a d.1 q n hd1
            unfold St.defd at h2
            rw [hmem1 d.1 (hwf1.tail_mem_ids q d.1 h1)] at h2
            cases hmm : st.mem a d.1 n with
            | none => rw [hmm] at h2; cases h2
            | some _ => rfl
      · rw [St.mem_eq, R.other a q hq, ← St.mem_eq, hmem1 q hqi] at hh
        exact hh
    · rw [St.mem_of_not_mem _ a q n (by rw [R.shape.ids]; exact hqi)] at hh; cases hh
  · intro q n hn
    rw [R.shape.childNames, mem_childNames, hmemids] at hn
    exact (mem_childNames st q n).mpr hn.1

theorem inv_delSpace (st st' : St) (h : Inv st) (p : Path) (hop : st.delSpace p = some st') : Inv st' := by
  unfold St.delSpace at hop
  split at hop
  · cases hop
  · simp only at hop
    split at hop
    · cases hop
    · rename_i hguard
      simp only [Option.some.injEq] at hop
      subst hop
      exact inv_delSpace_core st h p _ _ rfl rfl (of_not_not_true hguard)

end MxModel.SM
