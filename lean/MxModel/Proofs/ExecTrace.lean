import MxModel.Proofs.ExecBasic
/-!
# The traceback is the chain that was executing when the escaping exception was raised

Ghost field `excStack` records the call stack at the moment the most recent exception
object was created (`raise` in a formula, `DeepReferenceError` in `append`,
`NoneReturnedError` in `_store_value`).  `runN_tr`: when `_eval_formula` fails, the entries
it appended to `rolledback` that carry the identity of the escaping exception are exactly
the frames of `excStack` above the caller's stack, innermost first – entries of exceptions
that formulas handled carry older identities.

`Proper` excludes one ill-formed behaviour: re-raising "the exception received from a callee"
when the running formula has not received one (`ProperL live`: `reraise` is allowed only after a
call of this formula has failed; between that failure and the `reraise` the formula may make
further calls - an `except …: audit(x); raise` or a `finally:` block - because a call that returns
leaves the caller's exception as it was, `keepExc`).

Identities: `excCount` counts the exception objects created; `curExc` is the one that is
propagating.  `TrL live s s'`: a computation from `s` to `s'` appended to `rolledback` only entries
with identities created meanwhile, and – when `live` – the exception `s'.curExc` was created
meanwhile and its entries are exactly the frames of `excStack` above the stack of `s`.
-/
namespace MxModel.Exec

def ProperL (live : Bool) : Prog → Prop
  | .ret _ => True
  | .raise _ => True
  | .reraise _ => live = true
  | .read _ _ k => ∀ v, ProperL live (k v)
  | .call _ k => (∀ v, ProperL live (k (.ok v))) ∧ (∀ e, ProperL true (k (.err e)))

def Proper (p : Prog) : Prop := ProperL false p

theorem ProperL.mono : ∀ (p : Prog), ProperL false p → ProperL true p := by
  intro p
  induction p with
  | ret v => intro _; trivial
  | raise e => intro _; trivial
  | reraise e => intro _; rfl
  | read a r k ih => intro h v; exact ih _ (h v)
  | call n k ih => intro h; exact ⟨fun v => ih _ (h.1 v), h.2⟩

theorem ProperL.of (live : Bool) (p : Prog) (h : ProperL live p) : ProperL true p := by
  cases live with
  | true => exact h
  | false => exact ProperL.mono p h

structure SameExc (s s' : St) : Prop where
  stack : s'.stack = s.stack
  rolledback : s'.rolledback = s.rolledback
  curExc : s'.curExc = s.curExc
  excCount : s'.excCount = s.excCount
  excStack : s'.excStack = s.excStack

theorem SameExc.refl (s : St) : SameExc s s := ⟨rfl, rfl, rfl, rfl, rfl⟩
theorem SameExc.trans {a b c : St} (h1 : SameExc a b) (h2 : SameExc b c) : SameExc a c :=
  ⟨h2.stack.trans h1.stack, h2.rolledback.trans h1.rolledback, h2.curExc.trans h1.curExc,
   h2.excCount.trans h1.excCount, h2.excStack.trans h1.excStack⟩

theorem sameExc_addNode (s : St) (a : GNode) : SameExc s (s.addNode a) := by
  unfold St.addNode; split <;> exact ⟨rfl, rfl, rfl, rfl, rfl⟩

theorem sameExc_addEdge (s : St) (a b : GNode) : SameExc s (s.addEdge a b) := by
  unfold St.addEdge
  have h := (sameExc_addNode s a).trans (sameExc_addNode (s.addNode a) b)
  simp only []
  split
  · exact h
  · exact ⟨h.stack, h.rolledback, h.curExc, h.excCount, h.excStack⟩

theorem sameExc_hitEdge (s : St) (n : Node) : SameExc s (s.hitEdge n) := by
  unfold St.hitEdge; split
  · exact sameExc_addEdge _ _ _
  · exact SameExc.refl s

theorem sameExc_noteRead (s : St) (a : Bool) (r : RefId) : SameExc s (s.noteRead a r) := by
  unfold St.noteRead; split <;> exact ⟨rfl, rfl, rfl, rfl, rfl⟩

theorem sameExc_popEdge (env : Env) (s : St) (n : Node) : SameExc s (s.popEdge env n) := by
  unfold St.popEdge
  split
  · exact sameExc_addEdge _ _ _
  · split
    · exact sameExc_addNode _ _
    · exact SameExc.refl _

/-- the entries of a roll-back suffix that carry identity `x` -/
def chainOf (suffix : List (Node × Nat)) (x : Nat) : List Node :=
  (suffix.filter (fun e => e.2 == x)).map (·.1)

theorem chainOf_append (a b : List (Node × Nat)) (x : Nat) :
    chainOf (a ++ b) x = chainOf a x ++ chainOf b x := by
  simp [chainOf, List.filter_append]

theorem chainOf_other (a : List (Node × Nat)) (x : Nat) (h : ∀ e ∈ a, e.2 ≠ x) : chainOf a x = [] := by
  unfold chainOf
  rw [List.filter_eq_nil_iff.mpr]
  · rfl
  · intro e he
    have := h e he
    simpa using this

/-- the exception `s'.curExc` was created after `s`, while the stack of `s` was executing, and
the entries it has in `suf` are the frames above that stack, innermost first -/
structure Live (s : St) (suf : List (Node × Nat)) (s' : St) : Prop where
  lt : s.excCount < s'.curExc
  le : s'.curExc ≤ s'.excCount
  take : s'.excStack.take s.stack.length = s.stack
  chain : chainOf suf s'.curExc = (s'.excStack.drop s.stack.length).reverse

structure TrL (live : Bool) (s s' : St) : Prop where
  stack : s'.stack = s.stack
  mono : s.excCount ≤ s'.excCount
  suffix : ∃ suf, s'.rolledback = s.rolledback ++ suf ∧
    (∀ e ∈ suf, s.excCount < e.2 ∧ e.2 ≤ s'.excCount) ∧ (live = true → Live s suf s')

def isErr : Res → Bool
  | .err _ => true
  | .ok _ => false

theorem TrL.refl (s : St) : TrL false s s :=
  ⟨rfl, Nat.le_refl _, [], by simp, by simp, by intro h; cases h⟩

theorem TrL.weaken {live : Bool} {s s' : St} (h : TrL live s s') : TrL false s s' := by
  obtain ⟨suf, h1, h2, _⟩ := h.suffix
  exact ⟨h.stack, h.mono, suf, h1, h2, by intro h; cases h⟩

/-- a step that touches none of the exception bookkeeping -/
theorem TrL.same {live : Bool} {s0 s s' : St} (h : TrL live s0 s) (hs : SameExc s s') : TrL live s0 s' := by
  obtain ⟨suf, h1, h2, h3⟩ := h.suffix
  refine ⟨hs.stack.trans h.stack, by rw [hs.excCount]; exact h.mono, suf, by rw [hs.rolledback]; exact h1, ?_, ?_⟩
  · intro e he; rw [hs.excCount]; exact h2 e he
  · intro hl
    obtain ⟨a, b, c, d⟩ := h3 hl
    exact ⟨by rw [hs.curExc]; exact a, by rw [hs.curExc, hs.excCount]; exact b, by rw [hs.excStack]; exact c,
      by rw [hs.curExc, hs.excStack]; exact d⟩

/-- a new exception object is created in the running formula -/
theorem TrL.newExc {live : Bool} {s0 s : St} (h : TrL live s0 s) : TrL true s0 s.newExc := by
  obtain ⟨suf, h1, h2, _⟩ := h.suffix
  refine ⟨h.stack, by simp only [St.newExc]; have := h.mono; omega, suf, h1, ?_, ?_⟩
  · intro e he; simp only [St.newExc]; have := h2 e he; omega
  · intro _
    refine ⟨by simp only [St.newExc]; have := h.mono; omega, Nat.le_refl _, ?_, ?_⟩
    · simp only [St.newExc]; rw [h.stack]; exact List.take_length
    · simp only [St.newExc]
      rw [chainOf_other suf _ (fun e he => by have := h2 e he; omega), h.stack]
      simp

/-- a callee failed: its exception is the live one -/
theorem TrL.thenErr {live : Bool} {s0 s s1 : St} (h : TrL live s0 s) (hc : TrL true s s1) : TrL true s0 s1 := by
  obtain ⟨suf, h1, h2, _⟩ := h.suffix
  obtain ⟨suf1, g1, g2, g3⟩ := hc.suffix
  obtain ⟨a, b, c, d⟩ := g3 rfl
  refine ⟨hc.stack.trans h.stack, Nat.le_trans h.mono hc.mono, suf ++ suf1, by rw [g1, h1, List.append_assoc], ?_, ?_⟩
  · intro e he
    simp only [List.mem_append] at he
    rcases he with he | he
    · have := h2 e he; have := hc.mono; omega
    · have := g2 e he; have := h.mono; omega
  · intro _
    refine ⟨by have := h.mono; omega, b, by rw [← h.stack]; exact c, ?_⟩
    rw [chainOf_append, chainOf_other suf _ (fun e he => by have := h2 e he; omega), ← h.stack]
    simpa using d

/-- a callee returned and left the caller's exception as it was -/
theorem TrL.thenOk {live : Bool} {s0 s s1 : St} (h : TrL live s0 s) (hc : TrL false s s1)
    (hcur : s1.curExc = s.curExc) (hst : s1.excStack = s.excStack) : TrL live s0 s1 := by
  obtain ⟨suf, h1, h2, h3⟩ := h.suffix
  obtain ⟨suf1, g1, g2, _⟩ := hc.suffix
  refine ⟨hc.stack.trans h.stack, Nat.le_trans h.mono hc.mono, suf ++ suf1, by rw [g1, h1, List.append_assoc], ?_, ?_⟩
  · intro e he
    simp only [List.mem_append] at he
    rcases he with he | he
    · have := h2 e he; have := hc.mono; omega
    · have := g2 e he; have := h.mono; omega
  · intro hl
    obtain ⟨a, b, c, d⟩ := h3 hl
    refine ⟨by rw [hcur]; exact a, by rw [hcur]; have := hc.mono; omega, by rw [hst]; exact c, ?_⟩
    rw [hcur, hst, chainOf_append, chainOf_other suf1 _ (fun e he => by have := g2 e he; omega)]
    simpa using d

/-- contract of `_eval_formula` -/
def EvalTr (f : Node → St → Res × St) : Prop := ∀ n s, TrL (isErr (f n s).1) s (f n s).2

/-- contract of `eval_node`: additionally, a call that returns leaves the exception alone -/
def CalleeTr (f : Node → St → Res × St) : Prop :=
  ∀ n s, TrL (isErr (f n s).1) s (f n s).2 ∧
    (∀ v, (f n s).1 = .ok v → (f n s).2.curExc = s.curExc ∧ (f n s).2.excStack = s.excStack)

theorem runBody_tr (env : Env) (f : Node → St → Res × St) (hf : CalleeTr f) :
    ∀ (p : Prog) (live : Bool) (s0 s : St), ProperL live p → TrL live s0 s →
      TrL (isErr (runBody env f p s).1) s0 (runBody env f p s).2 := by
  intro p
  induction p with
  | ret v => intro live s0 s _ h; exact h.weaken
  | raise e => intro live s0 s _ h; exact h.newExc
  | reraise e =>
    intro live s0 s hp h
    simp only [ProperL] at hp
    subst hp
    exact h
  | read a r k ih =>
    intro live s0 s hp h
    simp only [ProperL] at hp
    simp only [runBody]
    exact ih _ live s0 _ (hp _) (h.same (sameExc_noteRead s (a && (env.refs r).isSome) r))
  | call n k ih =>
    intro live s0 s hp h
    simp only [ProperL] at hp
    simp only [runBody]
    obtain ⟨hc, hkeep⟩ := hf n s
    cases hr : (f n s).1 with
    | ok v =>
      rw [hr] at hc
      obtain ⟨h1, h2⟩ := hkeep v hr
      exact ih _ live s0 _ (hp.1 v) (h.thenOk hc h1 h2)
    | err e =>
      rw [hr] at hc
      exact ih _ true s0 _ (hp.2 e) (h.thenErr hc)

theorem evalNode_tr (env : Env) (ef : Node → St → Res × St) (hef : EvalTr ef) :
    CalleeTr (evalNode env ef) := by
  have key : ∀ n s, TrL (isErr (keepExc s (ef n s)).1) s (keepExc s (ef n s)).2 ∧
      (∀ v, (keepExc s (ef n s)).1 = .ok v →
        (keepExc s (ef n s)).2.curExc = s.curExc ∧ (keepExc s (ef n s)).2.excStack = s.excStack) := by
    intro n s
    have h := hef n s
    cases hr : (ef n s).1 with
    | err e => rw [keepExc_err s _ e hr]; exact ⟨h, fun v hv => by rw [hr] at hv; cases hv⟩
    | ok v =>
      rw [hr] at h
      have h2 := keepExc_ok s _ v hr
      rw [keepExc_fst, hr, h2]
      obtain ⟨suf, a, b, _⟩ := h.suffix
      exact ⟨⟨h.stack, h.mono, suf, a, b, by intro hh; cases hh⟩, fun _ _ => ⟨rfl, rfl⟩⟩
  intro n s
  unfold evalNode
  split
  · split
    · split
      · exact ⟨(TrL.refl s).same (sameExc_hitEdge s n), fun _ _ =>
          ⟨(sameExc_hitEdge s n).curExc, (sameExc_hitEdge s n).excStack⟩⟩
      · exact key n s
    · exact key n s
  · -- the cells does not exist: a new exception in the caller's frame, nothing rolled back
    exact ⟨(TrL.refl s).newExc, fun v hv => by cases hv⟩

theorem drop_of_take_snoc {α} (l a : List α) (x : α) (h : l.take (a.length + 1) = a ++ [x]) :
    l.take a.length = a ∧ l.drop a.length = x :: l.drop (a.length + 1) := by
  have hl : l = a ++ [x] ++ l.drop (a.length + 1) := by
    conv => lhs; rw [← List.take_append_drop (a.length + 1) l, h]
  constructor
  · rw [hl]; simp [List.take_append]
  · conv => lhs; rw [hl]
    simp [List.drop_append]

theorem chainOf_snoc_same (suf : List (Node × Nat)) (n : Node) (c : Nat) :
    chainOf (suf ++ [(n, c)]) c = chainOf suf c ++ [n] := by
  simp [chainOf_append, chainOf]

/-- all programs of an environment are proper -/
def ProperEnv (env : Env) : Prop := ∀ n, Proper (env.formula n)

theorem runN_tr (env : Env) (hp : ProperEnv env) : ∀ d, EvalTr (runN env d) := by
  intro d
  induction d with
  | zero =>
    intro n s
    simp only [runN, isErr]
    exact (TrL.refl s).same (s' := { s with hit := true }) ⟨rfl, rfl, rfl, rfl, rfl⟩ |>.newExc
  | succ d ih =>
    intro n s
    have hpush : TrL false (s.push env n) (s.push env n) := TrL.refl _
    have hb := runBody_tr env _ (evalNode_tr env _ ih) (env.formula n) false _ _ (hp n) hpush
    simp only [runN]
    generalize runBody env (evalNode env (runN env d)) (env.formula n) (s.push env n) = p at hb
    obtain ⟨r, s1⟩ := p
    simp only [] at hb ⊢
    obtain ⟨suf, hsuf, hids, herr⟩ := hb.suffix
    have hstack : s1.stack = s.stack ++ [n] := hb.stack
    have hmono : s.excCount ≤ s1.excCount := hb.mono
    have hrb : s1.rolledback = s.rolledback ++ suf := hsuf
    have hids' : ∀ e ∈ suf, s.excCount < e.2 ∧ e.2 ≤ s1.excCount := hids
    -- successful completion: nothing is appended
    have hpop : ∀ s1' : St, SameExc s1 s1' → ∀ v, TrL (isErr (.ok v)) s (s1'.pop env n) := by
      intro s1' hse v
      unfold St.pop
      have h2 := sameExc_popEdge env s1'.dropFrame n
      have h3 := drainSame env (s1'.dropFrame.popEdge env n) n
      refine ⟨?_, ?_, suf, ?_, ?_, by intro he; cases he⟩
      · rw [h3.stack, h2.stack]; simp [St.dropFrame, hse.stack, hstack]
      · rw [h3.excCount, h2.excCount]; simp only [St.dropFrame]; rw [hse.excCount]; exact hmono
      · rw [h3.rolledback, h2.rolledback]; simp only [St.dropFrame]; rw [hse.rolledback]; exact hrb
      · intro e he
        rw [h3.excCount, h2.excCount]; simp only [St.dropFrame]; rw [hse.excCount]; exact hids' e he
    cases r with
    | err e =>
      simp only [isErr] at herr ⊢
      obtain ⟨hlt, hle, htake, hchain⟩ := herr trivial
      simp only [St.push, List.length_append, List.length_singleton] at htake hchain hlt
      obtain ⟨ht, hd⟩ := drop_of_take_snoc s1.excStack s.stack n htake
      refine ⟨by simp [St.rollback, St.dropFrame, St.removeNode, hstack], by
        simpa [St.rollback, St.dropFrame, St.removeNode] using hmono,
        suf ++ [(n, s1.curExc)], by
          simp [St.rollback, St.dropFrame, St.removeNode, hrb], ?_, ?_⟩
      · intro x hx
        simp only [List.mem_append, List.mem_singleton] at hx
        simp only [St.rollback, St.dropFrame, St.removeNode]
        rcases hx with hx | rfl
        · exact hids' x hx
        · exact ⟨hlt, hle⟩
      · intro _
        simp only [St.rollback, St.dropFrame, St.removeNode]
        refine ⟨hlt, hle, ht, ?_⟩
        rw [chainOf_snoc_same, hchain, hd]
        simp
    | ok v =>
      simp only []
      split
      · split
        · -- NoneReturnedError: a new exception object while `n` is still on the stack
          simp only [isErr]
          refine ⟨by simp [St.rollback, St.dropFrame, St.removeNode, St.newExc, hstack], by
            simp only [St.rollback, St.dropFrame, St.removeNode, St.newExc]; omega,
            suf ++ [(n, s1.excCount + 1)], by
              simp [St.rollback, St.dropFrame, St.removeNode, St.newExc, hrb], ?_, ?_⟩
          · intro x hx
            simp only [List.mem_append, List.mem_singleton] at hx
            simp only [St.rollback, St.dropFrame, St.removeNode, St.newExc]
            rcases hx with hx | rfl
            · have := hids' x hx; omega
            · simp only []; omega
          · intro _
            simp only [St.rollback, St.dropFrame, St.removeNode, St.newExc]
            refine ⟨by show s.excCount < s1.excCount + 1; omega, Nat.le_refl _, by simp [hstack], ?_⟩
            rw [chainOf_snoc_same, chainOf_other suf _ (fun x hx => by have := hids' x hx; omega)]
            simp [hstack]
        · exact hpop { s1 with data := insert s1.data n v } ⟨rfl, rfl, rfl, rfl, rfl⟩ v
      · exact hpop s1 (SameExc.refl s1) v

end MxModel.Exec
