import MxModel.Proofs.ExecBasic
/-!
# The traceback is the chain that was executing when the escaping exception was raised

Ghost field `excStack` records the call stack at the moment the most recent exception
object was created (`raise` in a formula, `DeepReferenceError` in `append`,
`NoneReturnedError` in `_store_value`).  `runN_tr`: when `_eval_formula` fails, the entries
it appended to `rolledback` that carry the identity of the escaping exception are exactly
the frames of `excStack` above the caller's stack, innermost first – entries of exceptions
that formulas handled carry older identities.

`Proper` excludes one ill-formed behaviour: re-raising "the callee's exception" when no call
has just failed.
-/
namespace MxModel.Exec

def Proper : Prog → Prop
  | .ret _ => True
  | .raise _ => True
  | .reraise _ => False
  | .read _ _ k => ∀ v, Proper (k v)
  | .call _ k => (∀ v, Proper (k (.ok v))) ∧ (∀ e, k (.err e) = .reraise e ∨ Proper (k (.err e)))

structure SameExc (s s' : St) : Prop where
  stack : s'.stack = s.stack
  rolledback : s'.rolledback = s.rolledback
  curExc : s'.curExc = s.curExc
  excStack : s'.excStack = s.excStack

theorem SameExc.refl (s : St) : SameExc s s := ⟨rfl, rfl, rfl, rfl⟩
theorem SameExc.trans {a b c : St} (h1 : SameExc a b) (h2 : SameExc b c) : SameExc a c :=
  ⟨h2.stack.trans h1.stack, h2.rolledback.trans h1.rolledback, h2.curExc.trans h1.curExc,
   h2.excStack.trans h1.excStack⟩

theorem sameExc_addNode (s : St) (a : GNode) : SameExc s (s.addNode a) := by
  unfold St.addNode; split <;> exact ⟨rfl, rfl, rfl, rfl⟩

theorem sameExc_addEdge (s : St) (a b : GNode) : SameExc s (s.addEdge a b) := by
  unfold St.addEdge
  have h := (sameExc_addNode s a).trans (sameExc_addNode (s.addNode a) b)
  simp only []
  split
  · exact h
  · exact ⟨h.stack, h.rolledback, h.curExc, h.excStack⟩

theorem sameExc_hitEdge (s : St) (n : Node) : SameExc s (s.hitEdge n) := by
  unfold St.hitEdge; split
  · exact sameExc_addEdge _ _ _
  · exact SameExc.refl s

theorem sameExc_noteRead (s : St) (a : Bool) (r : RefId) : SameExc s (s.noteRead a r) := by
  unfold St.noteRead; split <;> exact ⟨rfl, rfl, rfl, rfl⟩

theorem sameExc_popEdge (env : Env) (s : St) (n : Node) : SameExc s (s.popEdge env n) := by
  unfold St.popEdge
  split
  · exact sameExc_addEdge _ _ _
  · split
    · exact sameExc_addNode _ _
    · exact SameExc.refl _

/-- ids of the entries a computation appended lie in `(before, after]` -/
def chainOf (suffix : List (Node × Nat)) (x : Nat) : List Node :=
  (suffix.filter (fun e => e.2 == x)).map (·.1)

structure Tr (s : St) (r : Res) (s' : St) : Prop where
  stack : s'.stack = s.stack
  mono : s.curExc ≤ s'.curExc
  suffix : ∃ suf, s'.rolledback = s.rolledback ++ suf ∧
    (∀ e ∈ suf, s.curExc < e.2 ∧ e.2 ≤ s'.curExc) ∧
    (∀ e, r = .err e →
      s.curExc < s'.curExc ∧ s'.excStack.take s.stack.length = s.stack ∧
      chainOf suf s'.curExc = (s'.excStack.drop s.stack.length).reverse)

theorem Tr.of_sameExc {s s' : St} (h : SameExc s s') (v : Val) : Tr s (.ok v) s' :=
  ⟨h.stack, by rw [h.curExc]; exact Nat.le_refl _,
   [], by simp [h.rolledback], by simp, by intro e he; cases he⟩

theorem chainOf_append (a b : List (Node × Nat)) (x : Nat) :
    chainOf (a ++ b) x = chainOf a x ++ chainOf b x := by
  simp [chainOf, List.filter_append]

theorem chainOf_old (a : List (Node × Nat)) (x : Nat) (h : ∀ e ∈ a, e.2 < x) : chainOf a x = [] := by
  unfold chainOf
  rw [List.filter_eq_nil_iff.mpr]
  · rfl
  · intro e he
    have := h e he
    simp only [beq_iff_eq]; omega

/-- sequencing: what happened first only contributes entries of older exceptions -/
theorem Tr.seq {s s1 s2 : St} {r1 r : Res} (h1 : Tr s r1 s1) (h2 : Tr s1 r s2) : Tr s r s2 := by
  obtain ⟨suf1, e1, id1, _⟩ := h1.suffix
  obtain ⟨suf2, e2, id2, c2⟩ := h2.suffix
  refine ⟨h2.stack.trans h1.stack, Nat.le_trans h1.mono h2.mono, suf1 ++ suf2, ?_, ?_, ?_⟩
  · rw [e2, e1, List.append_assoc]
  · intro e he
    simp only [List.mem_append] at he
    rcases he with he | he
    · have := id1 e he; have := h2.mono; omega
    · have := id2 e he; have := h1.mono; omega
  · intro e he
    obtain ⟨hlt, htake, hchain⟩ := c2 e he
    refine ⟨by have := h1.mono; omega, by rw [← h1.stack]; exact htake, ?_⟩
    rw [chainOf_append, chainOf_old suf1 _ (fun x hx => by have := id1 x hx; omega)]
    rw [← h1.stack]; simpa using hchain

def CalleeTr (f : Node → St → Res × St) : Prop := ∀ n s, Tr s (f n s).1 (f n s).2

theorem runBody_tr (env : Env) (f : Node → St → Res × St) (hf : CalleeTr f) :
    ∀ (p : Prog), Proper p → ∀ (s : St), Tr s (runBody env f p s).1 (runBody env f p s).2 := by
  intro p
  induction p with
  | ret v => intro _ s; exact Tr.of_sameExc (SameExc.refl s) v
  | raise e =>
    intro _ s
    simp only [runBody]
    refine ⟨rfl, Nat.le_succ _, [], by simp [St.newExc], by simp, ?_⟩
    intro e' _
    exact ⟨Nat.lt_succ_self _, by simp [St.newExc], by simp [St.newExc, chainOf]⟩
  | reraise e => intro hp; exact absurd hp (by simp [Proper])
  | read a r k ih =>
    intro hp s
    simp only [Proper] at hp
    simp only [runBody]
    exact (Tr.of_sameExc (sameExc_noteRead s (a && (env.refs r).isSome) r) .none).seq (ih _ (hp _) _)
  | call n k ih =>
    intro hp s
    simp only [Proper] at hp
    simp only [runBody]
    have hc := hf n s
    cases hr : (f n s).1 with
    | ok v =>
      rw [hr] at hc
      exact hc.seq (ih _ (hp.1 v) _)
    | err e =>
      rw [hr] at hc
      rcases hp.2 e with hre | hprop
      · rw [hre]; simpa [runBody] using hc
      · exact hc.seq (ih _ hprop _)


theorem evalNode_tr (env : Env) (ef : Node → St → Res × St) (hef : CalleeTr ef) :
    CalleeTr (evalNode env ef) := by
  intro n s
  unfold evalNode
  split
  · split
    · split
      · exact Tr.of_sameExc (sameExc_hitEdge s n) _
      · exact hef n s
    · exact hef n s
  · -- the cells does not exist: a new exception in the caller's frame, nothing rolled back
    refine ⟨rfl, Nat.le_succ _, [], by simp [St.newExc], by simp, ?_⟩
    intro e' _
    exact ⟨Nat.lt_succ_self _, by simp [St.newExc], by simp [St.newExc, chainOf]⟩

theorem drop_of_take_snoc {α} (l a : List α) (x : α) (h : l.take (a.length + 1) = a ++ [x]) :
    l.take a.length = a ∧ l.drop a.length = x :: l.drop (a.length + 1) := by
  have hl : l = a ++ [x] ++ l.drop (a.length + 1) := by
    conv => lhs; rw [← List.take_append_drop (a.length + 1) l, h]
  constructor
  · rw [hl]; simp [List.take_append]
  · conv => lhs; rw [hl]
    simp [List.drop_append]

theorem chainOf_snoc_same (suf : List (Node × Nat)) (n : Node) (c : Nat) :
    chainOf (suf ++ [(n, c)]) c = chainOf suf c ++ [n] := by
  simp [chainOf_append, chainOf]

/-- all programs of an environment are proper -/
def ProperEnv (env : Env) : Prop := ∀ n, Proper (env.formula n)

theorem runN_tr (env : Env) (hp : ProperEnv env) : ∀ d, CalleeTr (runN env d) := by
  intro d
  induction d with
  | zero =>
    intro n s
    simp only [runN]
    refine ⟨rfl, Nat.le_succ _, [], by simp [St.newExc], by simp, ?_⟩
    intro e _
    exact ⟨Nat.lt_succ_self _, by simp [St.newExc], by simp [St.newExc, chainOf]⟩
  | succ d ih =>
    intro n s
    have hb := runBody_tr env _ (evalNode_tr env _ ih) (env.formula n) (hp n) (s.push env n)
    simp only [runN]
    generalize runBody env (evalNode env (runN env d)) (env.formula n) (s.push env n) = p at hb
    obtain ⟨r, s1⟩ := p
    simp only [] at hb ⊢
    obtain ⟨suf, hsuf, hids, herr⟩ := hb.suffix
    have hstack : s1.stack = s.stack ++ [n] := hb.stack
    have hmono : s.curExc ≤ s1.curExc := hb.mono
    have hrb : s1.rolledback = s.rolledback ++ suf := hsuf
    have hids' : ∀ e ∈ suf, s.curExc < e.2 ∧ e.2 ≤ s1.curExc := hids
    -- successful completion: nothing is appended
    have hpop : ∀ s1' : St, SameExc s1 s1' → ∀ v, Tr s (.ok v) (s1'.pop env n) := by
      intro s1' hse v
      unfold St.pop
      have h2 := sameExc_popEdge env s1'.dropFrame n
      have h3 := drainSame env (s1'.dropFrame.popEdge env n) n
      refine ⟨?_, ?_, suf, ?_, ?_, by intro e he; cases he⟩
      · rw [h3.stack, h2.stack]; simp [St.dropFrame, hse.stack, hstack]
      · rw [h3.curExc, h2.curExc]; simp only [St.dropFrame]; rw [hse.curExc]; exact hmono
      · rw [h3.rolledback, h2.rolledback]; simp only [St.dropFrame]; rw [hse.rolledback]; exact hrb
      · intro e he
        rw [h3.curExc, h2.curExc]; simp only [St.dropFrame]; rw [hse.curExc]; exact hids' e he
    cases r with
    | err e =>
      simp only []
      obtain ⟨hlt, htake, hchain⟩ := herr e rfl
      simp only [St.push, List.length_append, List.length_singleton] at htake hchain
      obtain ⟨ht, hd⟩ := drop_of_take_snoc s1.excStack s.stack n htake
      refine ⟨by simp [St.rollback, St.dropFrame, St.removeNode, hstack], by
        simpa [St.rollback, St.dropFrame, St.removeNode] using hmono,
        suf ++ [(n, s1.curExc)], by
          simp [St.rollback, St.dropFrame, St.removeNode, hrb], ?_, ?_⟩
      · intro x hx
        simp only [List.mem_append, List.mem_singleton] at hx
        simp only [St.rollback, St.dropFrame, St.removeNode]
        rcases hx with hx | rfl
        · exact hids' x hx
        · exact ⟨hlt, Nat.le_refl _⟩
      · intro e' _
        simp only [St.rollback, St.dropFrame, St.removeNode]
        refine ⟨hlt, ht, ?_⟩
        rw [chainOf_snoc_same, hchain, hd]
        simp
    | ok v =>
      simp only []
      split
      · split
        · -- NoneReturnedError: a new exception object while `n` is still on the stack
          refine ⟨by simp [St.rollback, St.dropFrame, St.removeNode, St.newExc, hstack], by
            simp only [St.rollback, St.dropFrame, St.removeNode, St.newExc]; omega,
            suf ++ [(n, s1.curExc + 1)], by
              simp [St.rollback, St.dropFrame, St.removeNode, St.newExc, hrb], ?_, ?_⟩
          · intro x hx
            simp only [List.mem_append, List.mem_singleton] at hx
            simp only [St.rollback, St.dropFrame, St.removeNode, St.newExc]
            rcases hx with hx | rfl
            · have := hids' x hx; omega
            · simp only []; omega
          · intro e' _
            simp only [St.rollback, St.dropFrame, St.removeNode, St.newExc]
            refine ⟨by omega, by simp [hstack], ?_⟩
            rw [chainOf_snoc_same, chainOf_old suf _ (fun x hx => by have := hids' x hx; omega)]
            simp [hstack]
        · exact hpop { s1 with data := insert s1.data n v } ⟨rfl, rfl, rfl, rfl⟩ v
      · exact hpop s1 (SameExc.refl s1) v

end MxModel.Exec
