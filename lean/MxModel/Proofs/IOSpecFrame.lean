import MxModel.Proofs.IOSpecLoc
/-! Every operation changes the list of specs only by the elementary changes of `STrans`. -/
namespace MxModel.IOSpec

/-- the part of the state the spec invariants are about -/
def sp (st : St) : List Spec × Nat := (st.specs, st.nextSid)

variable {Q : Nat → String → Prop}

theorem strans_of_eq {a b : List Spec × Nat} (h : a = b) : STrans Q a b := h ▸ .refl a

theorem strans_delSpec (st : St) (σ : Spec) : STrans Q (sp st) (sp (delSpec st σ)) :=
  .del st.specs st.nextSid σ.sid

theorem strans_dropIfEmpty (st : St) (m : Nat) (v : Val) (l : List Ref) :
    STrans Q (sp st) (sp (dropIfEmpty st m v l)) := by
  unfold dropIfEmpty
  split
  · split
    · exact .del st.specs st.nextSid _
    · exact .refl _
  · exact .refl _

theorem strans_changeDrop (st : St) (m : Nat) (prev : Ref) :
    STrans Q (sp st) (sp (changeDrop st m prev)) := by
  unfold changeDrop
  split
  · exact .refl _
  · exact strans_dropIfEmpty st _ _ _

theorem sp_rmNewRef (st : St) (o : Owner) (n : String) (v : Val) : sp (rmNewRef st o n v) = sp st := by
  unfold rmNewRef; split <;> rfl

theorem strans_rmDelRef (st : St) (o : Owner) (n : String) :
    STrans Q (sp st) (sp (rmDelRef st o n).1) := by
  unfold rmDelRef
  split
  · exact .refl _
  · split
    · exact .refl _
    · split
      · exact .refl _
      · exact .refl _
      · split
        · exact strans_dropIfEmpty (implDelRef st o n) _ _ _
        · exact .refl _

theorem strans_rmChangeRef (st : St) (o : Owner) (n : String) (v : Val) :
    STrans Q (sp st) (sp (rmChangeRef st o n v).1) := by
  unfold rmChangeRef
  split
  · exact .refl _
  · split
    · exact strans_changeDrop (v2rAppend (implChangeRef st o n v) o.model v (mkRef st o n v)) _ _
    · exact strans_changeDrop (implChangeRef st o n v) _ _

theorem sp_updLoop (m : Nat) (old new : Val) (todo : List Ref) :
    ∀ (st : St) (acc : List Ref), sp (updLoop st m old new todo acc).1 = sp st := by
  induction todo with
  | nil => intro st acc; rfl
  | cons r rest ih =>
    intro st acc
    unfold updLoop
    split
    · rfl
    · rw [ih]; rfl

theorem strans_rmUpdateValue (st : St) (m : Nat) (old new : Val) :
    STrans Q (sp st) (sp (rmUpdateValue st m old new).1) := by
  unfold rmUpdateValue
  split
  · exact .refl _
  · split
    · exact .refl _
    · split
      · split
        · exact .refl _
        · rw [sp_updLoop]
          exact .setVal st.specs st.nextSid _ _
      · rw [sp_updLoop]; exact .refl _

theorem strans_setAttr (kw : List String) (st : St) (o : Owner) (n : String) (v : Val) :
    STrans Q (sp st) (sp (setAttr kw st o n v).1) := by
  unfold setAttr
  split
  · split
    · exact .refl _
    · split
      · exact strans_rmChangeRef st o n v
      · exact strans_of_eq (sp_rmNewRef st o n v).symm
  · split
    · exact .refl _
    · split
      · exact strans_rmChangeRef st o n v
      · split
        · exact strans_of_eq (sp_rmNewRef st o n v).symm
        · split
          · exact .refl _
          · exact .refl _
          · exact strans_of_eq (sp_rmNewRef st o n v).symm

theorem strans_delAttr (st : St) (o : Owner) (n : String) :
    STrans Q (sp st) (sp (delAttr st o n).1) := by
  unfold delAttr
  split
  · split
    · exact .refl _
    · split
      · exact strans_rmDelRef st o n
      · exact .refl _
  · split
    · exact .refl _
    · split
      · exact strans_rmDelRef st o n
      · split <;> exact .refl _

theorem strans_newSpec (st : St) (m : Nat) (path : String) (csv : Bool) (sheet : Option String)
    (data : Val) (hq : Q m path) : STrans Q (sp st) (sp (newSpec st m path csv sheet data).1) := by
  unfold newSpec
  split
  · exact .refl _
  · split
    · rename_i hc
      exact .add st.specs st.nextSid m path csv sheet data hc hq
    · exact .refl _

theorem strans_newPandas (kw : List String) (st : St) (o : Owner) (n path : String) (csv : Bool)
    (sheet : Option String) (data : Val) (hq : Q o.model path) :
    STrans Q (sp st) (sp (newPandas kw st o n path csv sheet data).1) := by
  unfold newPandas
  have h1 := strans_newSpec st o.model path csv sheet data hq
  split
  · rename_i st1 e heq
    rw [heq] at h1; exact h1
  · rename_i st1 σ heq
    rw [heq] at h1
    have h2 := strans_setAttr (Q := Q) kw st1 o n data
    split
    · rename_i st2 heq2
      rw [heq2] at h2; exact .trans h1 h2
    · rename_i st2 e heq2
      rw [heq2] at h2
      split
      · exact .trans h1 (.trans h2 (strans_delSpec st2 σ))
      · exact .trans h1 h2

theorem strans_foldl_delSpec (l : List Spec) : ∀ st : St, STrans Q (sp st) (sp (l.foldl delSpec st)) := by
  induction l with
  | nil => intro st; exact .refl _
  | cons σ rest ih => intro st; exact .trans (strans_delSpec st σ) (ih _)

theorem strans_rmDelAllSpec (st : St) (m : Nat) : STrans Q (sp st) (sp (rmDelAllSpec st m).1) := by
  unfold rmDelAllSpec
  split
  · exact .refl _
  · exact strans_foldl_delSpec _ st

theorem strans_closeModel (st : St) (m : Nat) : STrans Q (sp st) (sp (closeModel st m).1) := by
  unfold closeModel
  have h := strans_rmDelAllSpec (Q := Q) st m
  split
  · rename_i st1 e heq; rw [heq] at h; exact h
  · rename_i st1 heq; rw [heq] at h; exact h

theorem strans_delSpecOf (st : St) (m : Nat) (v : Val) : STrans Q (sp st) (sp (delSpecOf st m v).1) := by
  unfold delSpecOf
  split
  · exact .refl _
  · exact strans_delSpec st _

theorem strans_setSheet (st : St) (m : Nat) (v : Val) (sh : Option String) :
    STrans Q (sp st) (sp (setSheet st m v sh).1) := by
  unfold setSheet
  split
  · exact .refl _
  · rename_i σ hσ
    split
    · rename_i hf
      exact .setSheet st.specs st.nextSid σ sh (getSpec_some hσ).1 hf
    · exact .refl _

theorem strans_setPath (st : St) (m : Nat) (v : Val) (path : String)
    (hq : ∀ σ, getSpecFromValue st m v = some σ → Q σ.group path) :
    STrans Q (sp st) (sp (setPath st m v path).1) := by
  unfold setPath
  split
  · exact .refl _
  · rename_i σ hσ
    split
    · exact .refl _
    · rename_i hne
      split
      · rename_i hfree
        exact .setPath st.specs st.nextSid σ.group σ.path path hne (by simpa using hfree) (hq σ hσ)
      · exact .refl _

def isSetPath : Op → Bool
  | .setPath _ _ _ => true
  | _ => false

/-- the io key an operation claims; the path setter claims one only for a model that has a spec,
a creation only for a model that is not closed -/
def OpQ (st : St) (op : Op) (m : Nat) (p : String) : Prop :=
  opKey op = some (m, p) ∧ (isSetPath op = true → ∃ σ ∈ st.specs, σ.group = m) ∧
    (isSetPath op = false → st.closed.contains m = false)

theorem strans_step (kw : List String) (st : St) (op : Op) :
    STrans (OpQ st op) (sp st) (sp (step kw st op)) := by
  unfold step stepR
  cases op with
  | newModel m => simp only; split <;> exact .refl _
  | newSpace m s name => simp only; split <;> (try split) <;> exact .refl _
  | newCells o name sc => simp only; split <;> (try split) <;> exact .refl _
  | newPandas o name path csv sheet data =>
    simp only; split
    · exact .refl _
    · split
      · exact .refl _
      · rename_i hc
        exact strans_newPandas kw st o name (normPath path) csv sheet data
          ⟨rfl, ⟨fun h => (by cases h), fun _ => (by simpa using hc)⟩⟩
  | bind o name v =>
    simp only; split
    · exact .refl _
    · exact strans_setAttr kw st o name v
  | del o name =>
    simp only; split
    · exact .refl _
    · exact strans_delAttr st o name
  | update m old new =>
    simp only; split
    · exact .refl _
    · exact strans_rmUpdateValue st m old new
  | setSheet m v sh =>
    simp only; split
    · exact .refl _
    · exact strans_setSheet st m v sh
  | setPath m v path =>
    simp only; split
    · exact .refl _
    · refine strans_setPath st m v (normPath path) (fun σ hσ => ?_)
      obtain ⟨h1, h2, _⟩ := getSpec_some hσ
      rw [h2]; exact ⟨rfl, ⟨fun _ => ⟨σ, h1, h2⟩, fun h => (by cases h)⟩⟩
  | delSpec m v =>
    simp only; split
    · exact .refl _
    · exact strans_delSpecOf st m v
  | close m =>
    simp only; split
    · exact .refl _
    · split
      · exact .refl _
      · exact strans_closeModel st m

end MxModel.IOSpec
