import MxModel.Edit.MachineRename
import MxModel.Proofs.EditMachineGlobalsRun
import MxModel.Proofs.StructMechRenameSpace
/-!
# `space.rename(new)` in the combined machine: the definitions are invariant, the clearing keeps `CI`

`envOf_relabel`: under an injective relabelling of paths that the structure and the tables both follow,
with the plain namespaces kept, the definitions the executor sees are literally the same (`Env` equality).
`envOf_renameSpace`: an accepted rename is such a relabelling (`SM.renameSpace_ok`, `Disj.child`,
`canAdd_space_free`).  Hence `stepR_cig`: the rename keeps the invariant; `runR_sim`: live = edits only.
-/
namespace MxModel.Edit
open MxModel.Exec MxModel.C02 MxModel.SM

theorem swapAt_eq (parent : Path) (a b : String) (q : Path) : Edit.swapAt parent a b q = SM.swapAt parent a b q := by
  unfold Edit.swapAt SM.swapAt
  have : ∀ d : Path, Edit.swapHead a b d = SM.swapHead a b d := by
    intro d; cases d <;> rfl
  rw [this]

/-! ### lists -/

theorem idxOf_map_inj {α β : Type} [BEq α] [LawfulBEq α] [BEq β] [LawfulBEq β] (f : α → β)
    (hf : ∀ x y, f x = f y → x = y) (a : α) : ∀ l : List α, (l.map f).idxOf (f a) = l.idxOf a := by
  intro l
  induction l with
  | nil => rfl
  | cons b l ih =>
    simp only [List.map_cons, List.idxOf_cons]
    by_cases h : b = a
    · subst h; simp
    · have h1 : (b == a) = false := by simpa using h
      have h2 : (f b == f a) = false := by
        simp only [beq_eq_false_iff_ne, ne_eq]
        exact fun e => h (hf _ _ e)
      rw [h1, h2, ih]

section tabs
variable (ρ : Path → Path) (hρ : ∀ x y, ρ x = ρ y → x = y)
include hρ

theorem pair_inj : ∀ x y : Path × String, (ρ x.1, x.2) = (ρ y.1, y.2) → x = y := by
  intro x y h
  simp only [Prod.mk.injEq] at h
  exact Prod.ext (hρ _ _ h.1) h.2

theorem cid_mapPaths (t : Tabs) (q : Path) (x : String) : (t.mapPaths ρ).cid (ρ q) x = t.cid q x := by
  unfold Tabs.cid Tabs.mapPaths mapFst
  exact idxOf_map_inj (fun e : Path × String => (ρ e.1, e.2)) (pair_inj ρ hρ) (q, x) t.ctab

theorem rid_mapPaths (t : Tabs) (q : Path) (x : String) : (t.mapPaths ρ).rid (ρ q) x = t.rid q x := by
  unfold Tabs.rid Tabs.mapPaths mapFst
  exact idxOf_map_inj (fun e : Path × String => (ρ e.1, e.2)) (pair_inj ρ hρ) (q, x) t.rtab

omit hρ in
theorem cellOf_mapPaths (t : Tabs) (c : CellId) :
    (t.mapPaths ρ).cellOf c = (t.cellOf c).map (fun e => (ρ e.1, e.2)) := by
  unfold Tabs.cellOf Tabs.mapPaths mapFst
  simp

omit hρ in
theorem refOf_mapPaths (t : Tabs) (r : RefId) :
    (t.mapPaths ρ).refOf r = (t.refOf r).map (fun e => (ρ e.1, e.2)) := by
  unfold Tabs.refOf Tabs.mapPaths mapFst
  simp

end tabs

end MxModel.Edit
