import MxModel.Edit.MachineRename
import MxModel.Proofs.EditMachineGlobalsRun
import MxModel.Proofs.StructMechRenameSpace
/-!
# `space.rename(new)` in the combined machine: the definitions are invariant, the clearing keeps `CI`

`envOf_relabel`: under an injective relabelling of paths that the structure and the tables both follow,
with the plain namespaces kept, the definitions the executor sees are literally the same (`Env` equality).
`envOf_renameSpace`: an accepted rename is such a relabelling (`SM.renameSpace_ok`, `Disj.child`,
`canAdd_space_free`).  Hence `stepR_cig`: the rename keeps the invariant; `runR_sim`: live = edits only.
-/
namespace MxModel.Edit
open MxModel.Exec MxModel.C02 MxModel.SM

theorem swapAt_eq (parent : Path) (a b : String) (q : Path) : Edit.swapAt parent a b q = SM.swapAt parent a b q := by
  unfold Edit.swapAt SM.swapAt
  have : ∀ d : Path, Edit.swapHead a b d = SM.swapHead a b d := by
    intro d; cases d <;> rfl
  rw [this]

/-! ### lists -/

theorem idxOf_map_inj {α β : Type} [BEq α] [LawfulBEq α] [BEq β] [LawfulBEq β] (f : α → β)
    (hf : ∀ x y, f x = f y → x = y) (a : α) : ∀ l : List α, (l.map f).idxOf (f a) = l.idxOf a := by
  intro l
  induction l with
  | nil => rfl
  | cons b l ih =>
    simp only [List.map_cons, List.idxOf_cons]
    by_cases h : b = a
    · subst h; simp
    · have h1 : (b == a) = false := by simpa using h
      have h2 : (f b == f a) = false := by
        simp only [beq_eq_false_iff_ne, ne_eq]
        exact fun e => h (hf _ _ e)
      rw [h1, h2, ih]

theorem find?_congr_mem {α : Type} (p q : α → Bool) : ∀ (l : List α), (∀ e ∈ l, p e = q e) → l.find? p = l.find? q := by
  intro l
  induction l with
  | nil => intro _; rfl
  | cons a l ih =>
    intro h
    simp only [List.find?_cons, h a (List.mem_cons_self ..)]
    rw [ih (fun e he => h e (List.mem_cons_of_mem _ he))]

theorem env_ext (e1 e2 : Env) (h1 : e1.formula = e2.formula) (h2 : e1.cached = e2.cached)
    (h3 : e1.allowNone = e2.allowNone) (h4 : e1.refs = e2.refs) (h5 : e1.maxdepth = e2.maxdepth)
    (h6 : e1.observers = e2.observers) (h7 : e1.alive = e2.alive) (h8 : e1.siblings = e2.siblings) : e1 = e2 := by
  cases e1; cases e2; simp_all

section tabs
variable (ρ : Path → Path) (hρ : ∀ x y, ρ x = ρ y → x = y)
include hρ

theorem pair_inj : ∀ x y : Path × String, (ρ x.1, x.2) = (ρ y.1, y.2) → x = y := by
  intro x y h
  simp only [Prod.mk.injEq] at h
  exact Prod.ext (hρ _ _ h.1) h.2

theorem cid_mapPaths (t : Tabs) (q : Path) (x : String) : (t.mapPaths ρ).cid (ρ q) x = t.cid q x := by
  unfold Tabs.cid Tabs.mapPaths mapFst
  exact idxOf_map_inj (fun e : Path × String => (ρ e.1, e.2)) (pair_inj ρ hρ) (q, x) t.ctab

theorem rid_mapPaths (t : Tabs) (q : Path) (x : String) : (t.mapPaths ρ).rid (ρ q) x = t.rid q x := by
  unfold Tabs.rid Tabs.mapPaths mapFst
  exact idxOf_map_inj (fun e : Path × String => (ρ e.1, e.2)) (pair_inj ρ hρ) (q, x) t.rtab

omit hρ in
theorem cellOf_mapPaths (t : Tabs) (c : CellId) :
    (t.mapPaths ρ).cellOf c = (t.cellOf c).map (fun e => (ρ e.1, e.2)) := by
  unfold Tabs.cellOf Tabs.mapPaths mapFst
  simp

omit hρ in
theorem refOf_mapPaths (t : Tabs) (r : RefId) :
    (t.mapPaths ρ).refOf r = (t.refOf r).map (fun e => (ρ e.1, e.2)) := by
  unfold Tabs.refOf Tabs.mapPaths mapFst
  simp

end tabs

/-! ### a relabelling that structure and tables both follow leaves the definitions as they are -/

/-- `st'` is `st` with every path relabelled by the injective `ρ`, as far as the value layer looks -/
structure Relab (ρ : Path → Path) (t : Tabs) (st st' : SM.St) : Prop where
  inj : ∀ x y, ρ x = ρ y → x = y
  conts : ∀ a q, conts st' a (ρ q) = conts st a q
  glob : st'.globals = st.globals
  has : ∀ q, st'.has (ρ q) = st.has q
  plain : ∀ q x, nsPlain (t.mapPaths ρ) st' (ρ q) x = nsPlain t st q x

section relab
variable {ρ : Path → Path} {t : Tabs} {st st' : SM.St} (h : Relab ρ t st st')
include h

theorem Relab.mem (a : Attr) (q : Path) (n : String) : st'.mem a (ρ q) n = st.mem a q n := by
  rw [mem_conts, mem_conts, h.conts]

theorem Relab.cellInfo (c : CellId) :
    cellInfo (t.mapPaths ρ) st' c = (cellInfo t st c).map (fun i => (ρ i.1, i.2.1, i.2.2)) := by
  unfold Edit.cellInfo
  rw [cellOf_mapPaths]
  cases hd : t.cellOf c with
  | none => rfl
  | some e =>
    obtain ⟨q, x⟩ := e
    simp only [Option.map_some, cid_mapPaths ρ h.inj, h.mem]
    split
    · cases st.mem .cells q x <;> rfl
    · rfl

omit h in
theorem spellOf_of_find (sp : List (Path × Path)) (q : Path) (e : Path × Path)
    (hf : sp.find? (fun a => a.1 == q) = some e) : Edit.spellOf sp q = e.2 := by
  unfold Edit.spellOf; rw [hf]

theorem Relab.spellOf (e : Path × String) (he : e ∈ t.slots) :
    spellOf (t.mapPaths ρ).spell (ρ e.1) = Edit.spellOf t.spell e.1 := by
  show Edit.spellOf (t.slots.map (fun e => (ρ e.1, Edit.spellOf t.spell e.1))) (ρ e.1) = _
  have key : ∀ (l : List (Path × String)), e ∈ l →
      (l.map (fun e => (ρ e.1, Edit.spellOf t.spell e.1))).find? (fun a => a.1 == ρ e.1) =
        some (ρ e.1, Edit.spellOf t.spell e.1) := by
    intro l
    induction l with
    | nil => intro h; cases h
    | cons a l ih =>
      intro hmem
      simp only [List.map_cons, List.find?_cons]
      by_cases ha : a.1 = e.1
      · simp [ha]
      · have : (ρ a.1 == ρ e.1) = false := by
          simp only [beq_eq_false_iff_ne, ne_eq]
          exact fun e2 => ha (h.inj _ _ e2)
        rw [this]
        rcases List.mem_cons.mp hmem with rfl | hm
        · exact absurd rfl ha
        · exact ih hm
  exact spellOf_of_find _ _ _ (key t.slots he)

theorem Relab.qualOf (q : Path) (x : String) :
    qualOf (t.mapPaths ρ) (ρ q) x = (qualOf t q x).map (fun e => (ρ e.1, e.2)) := by
  unfold Edit.qualOf
  show (mapFst ρ t.slots).find? _ = _
  unfold mapFst
  rw [List.find?_map]
  congr 1
  apply find?_congr_mem
  intro e he
  simp only [Function.comp, spelled]
  rw [h.spellOf e he]
  have : (ρ e.1 == ρ q) = (e.1 == q) := by
    by_cases hq : e.1 = q
    · subst hq; simp
    · have h1 : (e.1 == q) = false := by simpa using hq
      rw [h1]
      simp only [beq_eq_false_iff_ne, ne_eq]
      exact fun e2 => hq (h.inj _ _ e2)
  rw [this]

theorem Relab.nsAt (q : Path) : nsAt (t.mapPaths ρ) st' (ρ q) = nsAt t st q := by
  funext x
  unfold Edit.nsAt
  rw [h.qualOf]
  cases hq : Edit.qualOf t q x with
  | none => exact h.plain q x
  | some e =>
    simp only [Option.map_some, slotBinding]
    rw [rid_mapPaths ρ h.inj t e.1 e.2]

theorem Relab.refPay (q : Path) (x : String) : refPay (t.mapPaths ρ) st' (ρ q) x = refPay t st q x := by
  unfold Edit.refPay
  rw [h.mem, h.mem, h.has]
  have : gpay (t.mapPaths ρ) st' x = gpay t st x := by
    unfold gpay; rw [h.glob]; rfl
  rw [this]

theorem Relab.cellsOf (q : Path) : cellsOf (t.mapPaths ρ) st' (ρ q) = cellsOf t st q := by
  unfold Edit.cellsOf
  rw [h.conts]
  apply List.map_congr_left
  intro e _
  exact cid_mapPaths ρ h.inj t q e.1

/-- **the definitions the executor sees are the same after the relabelling** -/
theorem envOf_relabel (P : Params) : envOf P (t.mapPaths ρ) st' = envOf P t st := by
  apply env_ext
  · funext n
    simp only [envOf]
    rw [h.cellInfo]
    cases Edit.cellInfo t st n.1 with
    | none => rfl
    | some i => obtain ⟨q, x, m⟩ := i; simp only [Option.map_some, h.nsAt]
  · funext c; simp only [envOf]; rw [h.cellInfo]; cases Edit.cellInfo t st c <;> rfl
  · funext c; simp only [envOf]; rw [h.cellInfo]; cases Edit.cellInfo t st c <;> rfl
  · funext r
    simp only [envOf]
    rw [refOf_mapPaths]
    cases t.refOf r with
    | none => rfl
    | some e => simp only [Option.map_some, h.refPay, rid_mapPaths ρ h.inj]
  · rfl
  · funext r
    simp only [envOf]
    rw [refOf_mapPaths]
    cases t.refOf r with
    | none => rfl
    | some e => simp only [Option.map_some, h.cellsOf]
  · funext c; simp only [envOf]; rw [h.cellInfo]; cases Edit.cellInfo t st c <;> rfl
  · funext c
    simp only [envOf]
    rw [cellOf_mapPaths]
    cases t.cellOf c with
    | none => rfl
    | some e => simp only [Option.map_some, h.cellsOf]

end relab

/-! ### an accepted rename is such a relabelling -/

theorem renameMap_snoc (parent : Path) (old new : String) :
    renameMap (parent ++ [old]) new = SM.swapAt parent old new := by
  funext q
  unfold renameMap
  rw [swapAt_eq]
  simp

theorem childNames_swap (st : SM.St) (parent : Path) (old new : String) (q : Path) (x : String) :
    x ∈ (st.mapPaths (SM.swapAt parent old new)).childNames (SM.swapAt parent old new q) ↔
      (if q = parent then SM.swapName old new x else x) ∈ st.childNames q := by
  rw [mem_childNames, mem_childNames]
  have := swapAt_snoc parent old new q (if q = parent then SM.swapName old new x else x)
  have hx : (if q = parent then SM.swapName old new (if q = parent then SM.swapName old new x else x)
      else (if q = parent then SM.swapName old new x else x)) = x := by
    by_cases hq : q = parent
    · simp only [hq, if_true, swapName_invol]
    · simp only [hq, if_false]
  rw [hx] at this
  rw [← this]
  exact mem_ids_mapPaths_image _ st (swapAt_inj parent old new) _

theorem contains_iff_of_mem_iff {l l' : List String} {x y : String} (h : x ∈ l ↔ y ∈ l') :
    l.contains x = l'.contains y := by
  cases h1 : l.contains x <;> cases h2 : l'.contains y <;> simp_all

theorem relab_renameSpace (kw : List String) (t : Tabs) (st st' : SM.St) (h : SM.Inv st) (p : Path) (new : String)
    (hop : st.renameSpace kw p new = .ok st') :
    Relab (renameMap p new) t st st' := by
  obtain ⟨parent, old, rfl, hpid, _, hca, rfl, _⟩ := renameSpace_ok kw st st' h.wf _ new hop
  obtain ⟨hfree, _, hr, _⟩ := canAdd_space_free h.wf parent new hca
  rw [renameMap_snoc]
  have hinj := swapAt_inj parent old new
  have hconts : ∀ a q, conts ({ st.mapPaths (SM.swapAt parent old new) with
      namers := st.namers.map (fun e => (relabel (parent ++ [old]) new e.1, e.2)) } : SM.St) a
        (SM.swapAt parent old new q) = conts st a q := by
    intro a q
    exact cont_mapPaths _ st hinj a q
  have hmem : ∀ a q n, ({ st.mapPaths (SM.swapAt parent old new) with
      namers := st.namers.map (fun e => (relabel (parent ++ [old]) new e.1, e.2)) } : SM.St).mem a
        (SM.swapAt parent old new q) n = st.mem a q n := by
    intro a q n
    exact mem_mapPaths _ st hinj a q n
  refine ⟨hinj, hconts, rfl, ?_, ?_⟩
  · intro q
    show ((st.mapPaths (SM.swapAt parent old new)).find (SM.swapAt parent old new q)).isSome = (st.find q).isSome
    rw [find_mapPaths _ st hinj]
    cases st.find q <;> rfl
  · intro q x
    unfold nsPlain
    rw [hmem, hmem, cid_mapPaths _ hinj, rid_mapPaths _ hinj]
    show (if (st.mem .cells q x).isSome then _ else if st.globals.contains x then _ else
      if ((st.mapPaths (SM.swapAt parent old new)).childNames (SM.swapAt parent old new q)).contains x then _ else _) = _
    rw [contains_iff_of_mem_iff (childNames_swap st parent old new q x)]
    by_cases hA : (st.mem .cells q x).isSome = true
    · simp only [hA, if_true]
    by_cases hG : st.globals.contains x = true
    · simp only [hA, hG, if_true, Bool.false_eq_true, if_false]
    simp only [hA, hG, Bool.false_eq_true, if_false]
    by_cases hC : (st.childNames q).contains x = true
    · -- a child space of `q`: no reference of the name
      have hR := (h.disj.child q x (by simpa using hC)).2
      simp only [hC, if_true, hR, Option.isSome_none, Bool.false_eq_true, if_false, ite_self]
    · by_cases hC' : (st.childNames q).contains (if q = parent then SM.swapName old new x else x) = true
      · -- `x` is the new name: free in the parent
        have hR : st.mem .refs q x = none := by
          by_cases hq : q = parent
          · subst hq
            simp only [if_true] at hC'
            unfold SM.swapName at hC'
            by_cases h1 : x = old
            · simp only [h1, if_true] at hC'
              exact absurd ((mem_childNames st q new).mp (by simpa using hC')) hfree
            · by_cases h2 : x = new
              · rw [h2]; exact hr
              · simp only [h1, h2, if_false] at hC'
                exact absurd hC' hC
          · simp only [hq, if_false] at hC'
            exact absurd hC' hC
        simp only [hC, hC', if_true, hR, Option.isSome_none, Bool.false_eq_true, if_false]
      · simp only [hC, hC']

/-- **an accepted `space.rename` changes no definition the executor sees**: the formula of every cells
(its source resolved in the namespace of its space), the flags, the value of every reference, the observers
– for every identity, as `Env`s -/
theorem envOf_renameSpace (P : Params) (t : Tabs) (st st' : SM.St) (h : SM.Inv st) (p : Path) (new : String)
    (hop : st.renameSpace P.kw p new = .ok st') :
    envOf P (t.mapPaths (renameMap p new)) st' = envOf P t st :=
  envOf_relabel (relab_renameSpace P.kw t st st' h p new hop) P

theorem allocOK_renameSpace (kw : List String) (t : Tabs) (st st' : SM.St) (h : SM.Inv st) (ha : AllocOK t st)
    (p : Path) (new : String) (hop : st.renameSpace kw p new = .ok st') :
    AllocOK (t.mapPaths (renameMap p new)) st' := by
  obtain ⟨parent, old, rfl, hpid, _, hca, rfl, _⟩ := renameSpace_ok kw st st' h.wf _ new hop
  rw [renameMap_snoc]
  have hinj := swapAt_inj parent old new
  have hids : ∀ q', q' ∈ ({ st.mapPaths (SM.swapAt parent old new) with
      namers := st.namers.map (fun e => (relabel (parent ++ [old]) new e.1, e.2)) } : SM.St).ids →
      ∃ q ∈ st.ids, SM.swapAt parent old new q = q' := by
    intro q' hq'
    exact (mem_ids_mapPaths _ st q').mp hq'
  have hmem : ∀ a q n, ({ st.mapPaths (SM.swapAt parent old new) with
      namers := st.namers.map (fun e => (relabel (parent ++ [old]) new e.1, e.2)) } : SM.St).mem a
        (SM.swapAt parent old new q) n = st.mem a q n := by
    intro a q n
    exact mem_mapPaths _ st hinj a q n
  refine ⟨?_, ?_, ?_, ?_⟩
  · intro q' n hm
    obtain ⟨q, _, rfl⟩ := hids q' (mem_ids_of_isSome _ .cells q' n hm)
    rw [hmem] at hm
    exact List.mem_map.mpr ⟨(q, n), ha.cells q n hm, rfl⟩
  · intro q' n hm
    obtain ⟨q, _, rfl⟩ := hids q' (mem_ids_of_isSome _ .refs q' n hm)
    rw [hmem] at hm
    exact List.mem_map.mpr ⟨(q, n), ha.refs q n hm, rfl⟩
  · intro q' x hq' hx
    obtain ⟨q, hq, rfl⟩ := hids q' hq'
    exact List.mem_map.mpr ⟨(q, x), ha.gslots q x hq hx, rfl⟩
  · intro e he
    obtain ⟨e0, he0, rfl⟩ := List.mem_map.mp he
    exact List.mem_map.mpr ⟨e0, ha.slots e0 he0, rfl⟩

/-! ### one step, histories -/

variable {P : Params} {lt : Node → Node → Prop}

theorem stepR_rename_env (w : W) (p : Path) (new : String) (h : CIG P lt w) :
    (stepR P w (.renameSpace p new)).env P = w.env P := by
  simp only [stepR]
  cases hop : w.sm.renameSpace P.kw p new with
  | error e => rfl
  | ok st' => exact envOf_renameSpace P w.tabs w.sm st' h.inv p new hop

/-- **`space.rename` keeps the invariant** -/
theorem stepR_rename_cig (w : W) (p : Path) (new : String) (hw : WF (w.env P) lt) (h : CIG P lt w) :
    CIG P lt (stepR P w (.renameSpace p new)) := by
  have henv := stepR_rename_env w p new h
  revert henv
  simp only [stepR]
  cases hop : w.sm.renameSpace P.kw p new with
  | error e => intro _; exact h
  | ok st' =>
    intro henv
    refine ⟨inv_renameSpace P.kw w.sm st' h.inv p new hop, allocOK_renameSpace P.kw _ _ _ h.inv h.alloc p new hop, ?_⟩
    rw [henv]
    exact (doClears_facts hw.scoping hw.noCatch _ _ h.ci).1

theorem stepR_cig (ho : StrictOrder lt) (w : W) (op : OpR) (hw : WF (w.env P) lt) (h : CIG P lt w) :
    CIG P lt (stepR P w op) := by
  cases op with
  | g o => exact stepG_cig ho w o hw h
  | renameSpace p new => exact stepR_rename_cig w p new hw h

variable (P lt)

/-- the definitions stay in the regime after every operation (a rename keeps it: `stepR_rename_env`) -/
def AdmissibleR : W → List OpR → Prop
  | _, [] => True
  | w, op :: ops => WF ((stepR P w op).env P) lt ∧ AdmissibleR (stepR P w op) ops

variable {P lt}

theorem runR_cig (ho : StrictOrder lt) : ∀ (ops : List OpR) (w : W), WF (w.env P) lt → CIG P lt w →
    AdmissibleR P lt w ops → CIG P lt (runR P w ops) ∧ WF ((runR P w ops).env P) lt := by
  intro ops
  induction ops with
  | nil => intro w hw h _; exact ⟨h, hw⟩
  | cons op rest ih =>
    intro w hw h hadm
    obtain ⟨h2, h3⟩ := hadm
    exact ih (stepR P w op) h2 (stepR_cig ho w op hw h) h3

theorem stepR_rg (w : W) (op : OpR) (hw : WF (w.env P) lt) (h : CIG P lt w)
    (hr : RgNoInputs w.ex) : RgNoInputs (stepR P w op).ex := by
  cases op with
  | g o => exact stepG_rg w o hw h hr
  | renameSpace p new =>
    simp only [stepR]
    cases hop : w.sm.renameSpace P.kw p new with
    | error e => exact hr
    | ok st' => exact (inpOf_doClears hw.scoping hw.noCatch _ _ h.ci hr).2

theorem stepR_sim (ho : StrictOrder lt) (w1 w2 : W) (op : OpR) (hw : WF (w1.env P) lt)
    (h1 : CIG P lt w1) (h2 : CIG P lt w2) (r1 : RgNoInputs w1.ex) (r2 : RgNoInputs w2.ex) (hs : Sim w1 w2) :
    Sim (stepR P w1 op) (stepR P w2 op) := by
  cases op with
  | g o => exact stepG_sim ho w1 w2 o hw h1 h2 r1 r2 hs
  | renameSpace p new =>
    simp only [stepR, hs.sm, hs.tabs]
    cases hop : w1.sm.renameSpace P.kw p new with
    | error e => exact hs
    | ok st' =>
      refine ⟨rfl, rfl, ?_⟩
      have hci2 : CI (envOf P w1.tabs w1.sm) lt w2.ex := by
        have := h2.ci
        unfold W.env at this
        rw [hs.sm, hs.tabs] at this
        exact this
      have hw' : WF (envOf P w1.tabs w1.sm) lt := hw
      have hci1 : CI (envOf P w1.tabs w1.sm) lt w1.ex := h1.ci
      funext m
      show inpOf (doClears _ w2.ex _) m = inpOf (doClears _ w1.ex _) m
      rw [(inpOf_doClears hw'.scoping hw'.noCatch _ _ hci2 r2).1 m,
        (inpOf_doClears hw'.scoping hw'.noCatch _ _ hci1 r1).1 m, hs.inp]

def isEvalR : OpR → Bool
  | .g o => isEvalG o
  | _ => false

/-- the history with every evaluation removed -/
def noEvalsR (ops : List OpR) : List OpR := ops.filter (fun op => !isEvalR op)

/-- **the live run and the run without the evaluations**, histories with renames: same structure, identities
and inputs at the end; both satisfy the invariant -/
theorem runR_sim (ho : StrictOrder lt) : ∀ (ops : List OpR) (w1 w2 : W), WF (w1.env P) lt →
    CIG P lt w1 → CIG P lt w2 → RgNoInputs w1.ex → RgNoInputs w2.ex → Sim w1 w2 → AdmissibleR P lt w1 ops →
    Sim (runR P w1 ops) (runR P w2 (noEvalsR ops)) ∧ CIG P lt (runR P w1 ops) ∧
      CIG P lt (runR P w2 (noEvalsR ops)) ∧ WF ((runR P w1 ops).env P) lt := by
  intro ops
  induction ops with
  | nil => intro w1 w2 hw h1 h2 _ _ hs _; exact ⟨hs, h1, h2, hw⟩
  | cons op rest ih =>
    intro w1 w2 hw h1 h2 r1 r2 hs hadm
    obtain ⟨a2, a3⟩ := hadm
    have c1 := stepR_cig ho w1 op hw h1
    have g1 := stepR_rg w1 op hw h1 r1
    by_cases hev : isEvalR op = true
    · have : noEvalsR (op :: rest) = noEvalsR rest := by simp [noEvalsR, List.filter, hev]
      rw [this]
      cases op with
      | g o =>
        cases o with
        | op o =>
          cases o with
          | eval q n key =>
            exact ih _ w2 a2 c1 h2 g1 r2 (stepG_eval_sim ho w1 w2 q n key hw h1 r1 hs) a3
          | _ => cases hev
        | _ => cases hev
      | _ => cases hev
    · have hev' : isEvalR op = false := by simpa using hev
      have : noEvalsR (op :: rest) = op :: noEvalsR rest := by simp [noEvalsR, List.filter, hev']
      rw [this]
      have hw2 : WF (w2.env P) lt := by rw [hs.env_eq P]; exact hw
      have c2 := stepR_cig ho w2 op hw2 h2
      have g2 := stepR_rg w2 op hw2 h2 r2
      exact ih _ _ a2 c1 c2 g1 g2 (stepR_sim ho w1 w2 op hw h1 h2 r1 r2 hs) a3

/-! ### coverage -/

theorem mem_renameClearing_del (t : Tabs) (st : SM.St) (p r : Path) (c : CellId) (hr : r ∈ renamed st p)
    (hc : c ∈ cellsOf t st r) : Clear.del c ∈ renameClearing t st p := by
  unfold renameClearing
  refine List.mem_append_left _ (List.mem_flatMap.mpr ⟨r, hr, List.mem_map.mpr ⟨c, hc, rfl⟩⟩)

/-- **the clearing of a rename covers what the rename can change**: every cells of the renamed space and of
every space below it is cleared as an object (all its nodes, with everything computed through them), the
cells of the parent are notified -/
theorem renameCovered_renameClearing (t : Tabs) (st : SM.St) (p : Path) :
    renameCovered t st p (renameClearing t st p) = true := by
  unfold renameCovered
  simp only [Bool.and_eq_true, List.all_eq_true]
  refine ⟨?_, ?_⟩
  · intro r hr c hc
    unfold clearedBy
    rw [List.any_eq_true]
    exact ⟨_, mem_renameClearing_del t st p r c hr hc, by simp⟩
  · intro c hc
    unfold touchedBy
    rw [List.any_eq_true]
    refine ⟨Clear.ns (cellsOf t st p.dropLast), ?_, by simpa using hc⟩
    unfold renameClearing
    exact List.mem_append_right _ (List.mem_singleton.mpr rfl)

/-- what a covering clearing leaves of the renamed spaces: no node, no value, no input of any of their cells -/
theorem renameCovered_sound (env : Env) (hsc : Scoped env) (hnc : NoCatchEnv env) (t : Tabs) (st : SM.St) (p : Path)
    (cl : List Clear) (s : Exec.St) (hci : CI env lt s) (hr : RgNoInputs s)
    (hcov : renameCovered t st p cl = true) :
    (∀ r ∈ renamed st p, ∀ c ∈ cellsOf t st r, NoNodes (doClears env s cl) c ∧
      ∀ key, inpOf (doClears env s cl) (c, key) = none) ∧
    (∀ c ∈ cellsOf t st p.dropLast, Clean (doClears env s cl) c) := by
  unfold renameCovered at hcov
  simp only [Bool.and_eq_true, List.all_eq_true] at hcov
  obtain ⟨_, _, _, _, hT, hCl, _, _⟩ := doClears_facts hsc hnc cl s hci
  refine ⟨?_, fun c hc => hT c (hcov.2 c hc)⟩
  intro r hr' c hc
  refine ⟨hCl c (hcov.1 r hr' c hc), ?_⟩
  intro key
  rw [(inpOf_doClears hsc hnc cl s hci hr).1 (c, key)]
  simp [hcov.1 r hr' c hc]

end MxModel.Edit
