import MxModel.Edit.MachineRename
import MxModel.Proofs.EditMachineGlobalsRun
import MxModel.Proofs.StructMechRenameSpace
/-!
# `space.rename(new)` in the combined machine: the definitions are invariant, the clearing keeps `CI`

`envOf_relabel`: under an injective relabelling of paths that the structure and the tables both follow,
with the plain namespaces kept, the definitions the executor sees are literally the same (`Env` equality).
`envOf_renameSpace`: an accepted rename is such a relabelling (`SM.renameSpace_ok`, `Disj.child`,
`canAdd_space_free`).  Hence `stepR_cig`: the rename keeps the invariant; `runR_sim`: live = edits only.
-/
namespace MxModel.Edit
open MxModel.Exec MxModel.C02 MxModel.SM

theorem swapAt_eq (parent : Path) (a b : String) (q : Path) : Edit.swapAt parent a b q = SM.swapAt parent a b q := by
  unfold Edit.swapAt SM.swapAt
  have : ∀ d : Path, Edit.swapHead a b d = SM.swapHead a b d := by
    intro d; cases d <;> rfl
  rw [this]

/-! ### lists -/

theorem idxOf_map_inj {α β : Type} [BEq α] [LawfulBEq α] [BEq β] [LawfulBEq β] (f : α → β)
    (hf : ∀ x y, f x = f y → x = y) (a : α) : ∀ l : List α, (l.map f).idxOf (f a) = l.idxOf a := by
  intro l
  induction l with
  | nil => rfl
  | cons b l ih =>
    simp only [List.map_cons, List.idxOf_cons]
    by_cases h : b = a
    · subst h; simp
    · have h1 : (b == a) = false := by simpa using h
      have h2 : (f b == f a) = false := by
        simp only [beq_eq_false_iff_ne, ne_eq]
        exact fun e => h (hf _ _ e)
      rw [h1, h2, ih]

theorem find?_congr_mem {α : Type} (p q : α → Bool) : ∀ (l : List α), (∀ e ∈ l, p e = q e) → l.find? p = l.find? q := by
  intro l
  induction l with
  | nil => intro _; rfl
  | cons a l ih =>
    intro h
    simp only [List.find?_cons, h a (List.mem_cons_self ..)]
    rw [ih (fun e he => h e (List.mem_cons_of_mem _ he))]

theorem env_ext (e1 e2 : Env) (h1 : e1.formula = e2.formula) (h2 : e1.cached = e2.cached)
    (h3 : e1.allowNone = e2.allowNone) (h4 : e1.refs = e2.refs) (h5 : e1.maxdepth = e2.maxdepth)
    (h6 : e1.observers = e2.observers) (h7 : e1.alive = e2.alive) (h8 : e1.siblings = e2.siblings) : e1 = e2 := by
  cases e1; cases e2; simp_all

section tabs
variable (ρ : Path → Path) (hρ : ∀ x y, ρ x = ρ y → x = y)
include hρ

theorem pair_inj : ∀ x y : Path × String, (ρ x.1, x.2) = (ρ y.1, y.2) → x = y := by
  intro x y h
  simp only [Prod.mk.injEq] at h
  exact Prod.ext (hρ _ _ h.1) h.2

theorem cid_mapPaths (t : Tabs) (q : Path) (x : String) : (t.mapPaths ρ).cid (ρ q) x = t.cid q x := by
  unfold Tabs.cid Tabs.mapPaths mapFst
  exact idxOf_map_inj (fun e : Path × String => (ρ e.1, e.2)) (pair_inj ρ hρ) (q, x) t.ctab

theorem rid_mapPaths (t : Tabs) (q : Path) (x : String) : (t.mapPaths ρ).rid (ρ q) x = t.rid q x := by
  unfold Tabs.rid Tabs.mapPaths mapFst
  exact idxOf_map_inj (fun e : Path × String => (ρ e.1, e.2)) (pair_inj ρ hρ) (q, x) t.rtab

omit hρ in
theorem cellOf_mapPaths (t : Tabs) (c : CellId) :
    (t.mapPaths ρ).cellOf c = (t.cellOf c).map (fun e => (ρ e.1, e.2)) := by
  unfold Tabs.cellOf Tabs.mapPaths mapFst
  simp

omit hρ in
theorem refOf_mapPaths (t : Tabs) (r : RefId) :
    (t.mapPaths ρ).refOf r = (t.refOf r).map (fun e => (ρ e.1, e.2)) := by
  unfold Tabs.refOf Tabs.mapPaths mapFst
  simp

end tabs

/-! ### a relabelling that structure and tables both follow leaves the definitions as they are -/

/-- `st'` is `st` with every path relabelled by the injective `ρ`, as far as the value layer looks -/
structure Relab (ρ : Path → Path) (t : Tabs) (st st' : SM.St) : Prop where
  inj : ∀ x y, ρ x = ρ y → x = y
  conts : ∀ a q, conts st' a (ρ q) = conts st a q
  glob : st'.globals = st.globals
  has : ∀ q, st'.has (ρ q) = st.has q
  plain : ∀ q x, nsPlain (t.mapPaths ρ) st' (ρ q) x = nsPlain t st q x
  slots : ∀ e ∈ t.slots, ρ e.1 = e.1

section relab
variable {ρ : Path → Path} {t : Tabs} {st st' : SM.St} (h : Relab ρ t st st')
include h

theorem Relab.mem (a : Attr) (q : Path) (n : String) : st'.mem a (ρ q) n = st.mem a q n := by
  rw [mem_conts, mem_conts, h.conts]

theorem Relab.cellInfo (c : CellId) :
    cellInfo (t.mapPaths ρ) st' c = (cellInfo t st c).map (fun i => (ρ i.1, i.2.1, i.2.2)) := by
  unfold Edit.cellInfo
  rw [cellOf_mapPaths]
  cases hd : t.cellOf c with
  | none => rfl
  | some e =>
    obtain ⟨q, x⟩ := e
    simp only [Option.map_some, cid_mapPaths ρ h.inj, h.mem]
    split
    · cases st.mem .cells q x <;> rfl
    · rfl

theorem Relab.slots_eq : (t.mapPaths ρ).slots = t.slots := by
  show mapFst ρ t.slots = t.slots
  unfold mapFst
  conv => rhs; rw [← List.map_id t.slots]
  apply List.map_congr_left
  intro e he
  rw [h.slots e he]; rfl

theorem Relab.qualOf (q : Path) (x : String) : qualOf (t.mapPaths ρ) (ρ q) x = qualOf t q x := by
  unfold Edit.qualOf
  rw [h.slots_eq]
  apply find?_congr_mem
  intro e he
  unfold spelled
  have : (e.1 == ρ q) = (e.1 == q) := by
    by_cases hq : e.1 = q
    · subst hq; rw [h.slots e he]
    · have h1 : (e.1 == q) = false := by simpa using hq
      rw [h1]
      simp only [beq_eq_false_iff_ne, ne_eq]
      intro e2
      rw [← h.slots e he] at e2
      exact hq (h.inj _ _ e2)
  rw [this]

theorem Relab.nsAt (q : Path) : nsAt (t.mapPaths ρ) st' (ρ q) = nsAt t st q := by
  funext x
  unfold Edit.nsAt
  rw [h.qualOf]
  cases hq : Edit.qualOf t q x with
  | none => exact h.plain q x
  | some e =>
    simp only [slotBinding]
    have he : e ∈ t.slots := List.mem_of_find?_eq_some hq
    have := rid_mapPaths ρ h.inj t e.1 e.2
    rw [h.slots e he] at this
    rw [this]

theorem Relab.refPay (q : Path) (x : String) : refPay (t.mapPaths ρ) st' (ρ q) x = refPay t st q x := by
  unfold Edit.refPay
  rw [h.mem, h.mem, h.has]
  have : gpay (t.mapPaths ρ) st' x = gpay t st x := by
    unfold gpay; rw [h.glob]; rfl
  rw [this]

theorem Relab.cellsOf (q : Path) : cellsOf (t.mapPaths ρ) st' (ρ q) = cellsOf t st q := by
  unfold Edit.cellsOf
  rw [h.conts]
  apply List.map_congr_left
  intro e _
  exact cid_mapPaths ρ h.inj t q e.1

/-- **the definitions the executor sees are the same after the relabelling** -/
theorem envOf_relabel (P : Params) : envOf P (t.mapPaths ρ) st' = envOf P t st := by
  apply env_ext
  · funext n
    simp only [envOf]
    rw [h.cellInfo]
    cases Edit.cellInfo t st n.1 with
    | none => rfl
    | some i => obtain ⟨q, x, m⟩ := i; simp only [Option.map_some, h.nsAt]
  · funext c; simp only [envOf]; rw [h.cellInfo]; cases Edit.cellInfo t st c <;> rfl
  · funext c; simp only [envOf]; rw [h.cellInfo]; cases Edit.cellInfo t st c <;> rfl
  · funext r
    simp only [envOf]
    rw [refOf_mapPaths]
    cases t.refOf r with
    | none => rfl
    | some e => simp only [Option.map_some, h.refPay, rid_mapPaths ρ h.inj]
  · rfl
  · funext r
    simp only [envOf]
    rw [refOf_mapPaths]
    cases t.refOf r with
    | none => rfl
    | some e => simp only [Option.map_some, h.cellsOf]
  · funext c; simp only [envOf]; rw [h.cellInfo]; cases Edit.cellInfo t st c <;> rfl
  · funext c
    simp only [envOf]
    rw [cellOf_mapPaths]
    cases t.cellOf c with
    | none => rfl
    | some e => simp only [Option.map_some, h.cellsOf]

end relab

/-! ### an accepted rename is such a relabelling -/

theorem renameMap_snoc (parent : Path) (old new : String) :
    renameMap (parent ++ [old]) new = SM.swapAt parent old new := by
  funext q
  unfold renameMap
  rw [swapAt_eq]
  simp

theorem childNames_swap (st : SM.St) (parent : Path) (old new : String) (q : Path) (x : String) :
    x ∈ (st.mapPaths (SM.swapAt parent old new)).childNames (SM.swapAt parent old new q) ↔
      (if q = parent then SM.swapName old new x else x) ∈ st.childNames q := by
  rw [mem_childNames, mem_childNames]
  have := swapAt_snoc parent old new q (if q = parent then SM.swapName old new x else x)
  have hx : (if q = parent then SM.swapName old new (if q = parent then SM.swapName old new x else x)
      else (if q = parent then SM.swapName old new x else x)) = x := by
    by_cases hq : q = parent
    · simp only [hq, if_true, swapName_invol]
    · simp only [hq, if_false]
  rw [hx] at this
  rw [← this]
  exact mem_ids_mapPaths_image _ st (swapAt_inj parent old new) _

theorem contains_iff_of_mem_iff {l l' : List String} {x y : String} (h : x ∈ l ↔ y ∈ l') :
    l.contains x = l'.contains y := by
  cases h1 : l.contains x <;> cases h2 : l'.contains y <;> simp_all

theorem relab_renameSpace (kw : List String) (t : Tabs) (st st' : SM.St) (h : SM.Inv st) (p : Path) (new : String)
    (hop : st.renameSpace kw p new = .ok st') (hs : slotsFixed t p new = true) :
    Relab (renameMap p new) t st st' := by
  obtain ⟨parent, old, rfl, hpid, _, hca, rfl, _⟩ := renameSpace_ok kw st st' h.wf _ new hop
  obtain ⟨hfree, _, hr, _⟩ := canAdd_space_free h.wf parent new hca
  unfold slotsFixed at hs
  rw [renameMap_snoc] at hs ⊢
  have hinj := swapAt_inj parent old new
  have hconts : ∀ a q, conts ({ st.mapPaths (SM.swapAt parent old new) with
      namers := st.namers.map (fun e => (relabel (parent ++ [old]) new e.1, e.2)) } : SM.St) a
        (SM.swapAt parent old new q) = conts st a q := by
    intro a q
    exact cont_mapPaths _ st hinj a q
  have hmem : ∀ a q n, ({ st.mapPaths (SM.swapAt parent old new) with
      namers := st.namers.map (fun e => (relabel (parent ++ [old]) new e.1, e.2)) } : SM.St).mem a
        (SM.swapAt parent old new q) n = st.mem a q n := by
    intro a q n
    exact mem_mapPaths _ st hinj a q n
  refine ⟨hinj, hconts, rfl, ?_, ?_, ?_⟩
  · intro q
    show ((st.mapPaths (SM.swapAt parent old new)).find (SM.swapAt parent old new q)).isSome = (st.find q).isSome
    rw [find_mapPaths _ st hinj]
    cases st.find q <;> rfl
  · intro q x
    unfold nsPlain
    rw [hmem, hmem, cid_mapPaths _ hinj, rid_mapPaths _ hinj]
    show (if (st.mem .cells q x).isSome then _ else if st.globals.contains x then _ else
      if ((st.mapPaths (SM.swapAt parent old new)).childNames (SM.swapAt parent old new q)).contains x then _ else _) = _
    rw [contains_iff_of_mem_iff (childNames_swap st parent old new q x)]
    by_cases hA : (st.mem .cells q x).isSome = true
    · simp only [hA, if_true]
    by_cases hG : st.globals.contains x = true
    · simp only [hA, hG, if_true, Bool.false_eq_true, if_false]
    simp only [hA, hG, Bool.false_eq_true, if_false]
    by_cases hC : (st.childNames q).contains x = true
    · -- a child space of `q`: no reference of the name
      have hR := (h.disj.child q x (by simpa using hC)).2
      simp only [hC, if_true, hR, Option.isSome_none, Bool.false_eq_true, if_false, ite_self]
    · by_cases hC' : (st.childNames q).contains (if q = parent then SM.swapName old new x else x) = true
      · -- `x` is the new name: free in the parent
        have hR : st.mem .refs q x = none := by
          by_cases hq : q = parent
          · subst hq
            simp only [if_true] at hC'
            unfold SM.swapName at hC'
            by_cases h1 : x = old
            · simp only [h1, if_true] at hC'
              exact absurd ((mem_childNames st q new).mp (by simpa using hC')) hfree
            · by_cases h2 : x = new
              · rw [h2]; exact hr
              · simp only [h1, h2, if_false] at hC'
                exact absurd hC' hC
          · simp only [hq, if_false] at hC'
            exact absurd hC' hC
        simp only [hC, hC', if_true, hR, Option.isSome_none, Bool.false_eq_true, if_false]
      · simp only [hC, hC']
  · intro e he
    rw [List.all_eq_true] at hs
    simpa using hs e he

/-- **an accepted `space.rename` changes no definition the executor sees**: the formula of every cells
(its source resolved in the namespace of its space), the flags, the value of every reference, the observers
– for every identity, as `Env`s -/
theorem envOf_renameSpace (P : Params) (t : Tabs) (st st' : SM.St) (h : SM.Inv st) (p : Path) (new : String)
    (hop : st.renameSpace P.kw p new = .ok st') (hs : slotsFixed t p new = true) :
    envOf P (t.mapPaths (renameMap p new)) st' = envOf P t st :=
  envOf_relabel (relab_renameSpace P.kw t st st' h p new hop hs) P

theorem allocOK_renameSpace (kw : List String) (t : Tabs) (st st' : SM.St) (h : SM.Inv st) (ha : AllocOK t st)
    (p : Path) (new : String) (hop : st.renameSpace kw p new = .ok st') :
    AllocOK (t.mapPaths (renameMap p new)) st' := by
  obtain ⟨parent, old, rfl, hpid, _, hca, rfl, _⟩ := renameSpace_ok kw st st' h.wf _ new hop
  rw [renameMap_snoc]
  have hinj := swapAt_inj parent old new
  have hids : ∀ q', q' ∈ ({ st.mapPaths (SM.swapAt parent old new) with
      namers := st.namers.map (fun e => (relabel (parent ++ [old]) new e.1, e.2)) } : SM.St).ids →
      ∃ q ∈ st.ids, SM.swapAt parent old new q = q' := by
    intro q' hq'
    exact (mem_ids_mapPaths _ st q').mp hq'
  have hmem : ∀ a q n, ({ st.mapPaths (SM.swapAt parent old new) with
      namers := st.namers.map (fun e => (relabel (parent ++ [old]) new e.1, e.2)) } : SM.St).mem a
        (SM.swapAt parent old new q) n = st.mem a q n := by
    intro a q n
    exact mem_mapPaths _ st hinj a q n
  refine ⟨?_, ?_, ?_, ?_⟩
  · intro q' n hm
    obtain ⟨q, _, rfl⟩ := hids q' (mem_ids_of_isSome _ .cells q' n hm)
    rw [hmem] at hm
    exact List.mem_map.mpr ⟨(q, n), ha.cells q n hm, rfl⟩
  · intro q' n hm
    obtain ⟨q, _, rfl⟩ := hids q' (mem_ids_of_isSome _ .refs q' n hm)
    rw [hmem] at hm
    exact List.mem_map.mpr ⟨(q, n), ha.refs q n hm, rfl⟩
  · intro q' x hq' hx
    obtain ⟨q, hq, rfl⟩ := hids q' hq'
    exact List.mem_map.mpr ⟨(q, x), ha.gslots q x hq hx, rfl⟩
  · intro e he
    obtain ⟨e0, he0, rfl⟩ := List.mem_map.mp he
    exact List.mem_map.mpr ⟨e0, ha.slots e0 he0, rfl⟩

end MxModel.Edit
