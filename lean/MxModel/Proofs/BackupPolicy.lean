import MxModel.Proofs.BackupGen
/-!
# Backup: fault policies (C14)

What `faultKind` gives for errors that persist and for the error class a retry handler absorbs;
what that means for `save`.
-/
namespace MxModel.Backup

/-- a run that is cut short does not report completion -/
theorem run_lt_false : ∀ (pl : List Prim) (k : Nat) (fs : FS), k < pl.length →
    (run pl k fs).2 = false := by
  intro pl
  induction pl with
  | nil => intro k fs h; simp at h
  | cons p ps ih =>
    intro k fs h
    cases k with
    | zero => rfl
    | succ k =>
      simp only [run]
      cases hs : step p fs with
      | none => rfl
      | some fs' =>
        simp only []
        exact ih k fs' (by simp only [List.length_cons] at h; omega)

/-- an error that persists is absorbed by nobody but `shutil.move` -/
theorem faultKind_persist (pol : Policy) (hp : pol.persist = true) (pl : List Prim) (k : Nat) :
    faultKind pol pl k = .raises ∨
      (faultKind pol pl k = .retried ∧ ∃ g, pl[k]? = some (.move g)) := by
  unfold faultKind
  split
  · simp [hp]
  · simp [hp]
  · simp [hp]
  · simp [hp]
  · rename_i g h; exact Or.inr ⟨rfl, g, h⟩
  · exact Or.inl rfl

theorem faultKind_persist_ne_truncates (pol : Policy) (hp : pol.persist = true) (pl : List Prim)
    (k : Nat) : faultKind pol pl k ≠ .truncates := by
  rcases faultKind_persist pol hp pl k with h | ⟨h, _⟩ <;> rw [h] <;> intro hc <;> cases hc

/-- an absorbed error without effect: the save is the uninterrupted save -/
theorem save_retried (maxB : Nat) (sv : Save) (k : Nat) (fs : FS)
    (h : faultKind sv.pol (plan maxB sv fs) k = .retried) :
    save maxB sv k fs = save maxB sv (plan maxB sv fs).length fs := by
  rw [save_at_length]
  unfold save
  rw [h]

/-- an error that interrupts the save: no success is reported -/
theorem save_raises (maxB : Nat) (sv : Save) (k : Nat) (fs : FS)
    (h : faultKind sv.pol (plan maxB sv fs) k = .raises) (hk : k < (plan maxB sv fs).length) :
    (save maxB sv k fs).2 = false := by
  unfold save
  rw [h]
  exact run_lt_false _ _ _ hk

/-- the table of `faultKind` for the operations under a `PermissionError` handler -/
theorem faultKind_guarded (pol : Policy) (pl : List Prim) (k : Nat)
    (hg : pl[k]? = some (.tmp .guarded)) :
    faultKind pol pl k = if pol.exc = .perm ∧ pol.persist = false then .retried else .raises := by
  unfold faultKind
  rw [hg]

theorem faultKind_guardedClose (pol : Policy) (pl : List Prim) (k : Nat)
    (hg : pl[k]? = some (.tmp .guardedClose)) :
    faultKind pol pl k =
      if pol.exc = .perm ∧ pol.persist = false then .truncates else .raises := by
  unfold faultKind
  rw [hg]

end MxModel.Backup
