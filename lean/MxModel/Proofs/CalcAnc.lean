import MxModel.Proofs.CalcRun
/-! The model's backward search over the trace graph (`withAncs`, the counterpart of `nx.ancestors`) is
COMPLETE - `reach` with fuel `edges.length` returns a set closed under the edges (every productive round
closes at least one open edge) -, every element whose formula ran while tracing reaches a target, and
hence the planned elements are closed under callees (`planned_closed`): the hypothesis `hclosed` of
`generate_then_execute_any` is a theorem (`generate_then_execute_full`). -/
namespace MxModel.CalcSteps

/-! ## the backward search is complete -/

/-- number of edges whose head is not yet reached -/
def openEdges (edges : List (Node × Node)) (acc : List Node) : Nat :=
  (edges.filter (fun e => !decide (e.2 ∈ acc))).length

theorem openEdges_mono (edges : List (Node × Node)) {acc acc' : List Node} (h : ∀ x ∈ acc, x ∈ acc') :
    openEdges edges acc' ≤ openEdges edges acc := by
  unfold openEdges
  induction edges with
  | nil => simp
  | cons e es ih =>
    simp only [List.filter_cons]
    by_cases h1 : e.2 ∈ acc
    · have h2 : e.2 ∈ acc' := h _ h1
      simp [h1, h2, ih]
    · by_cases h2 : e.2 ∈ acc'
      · simp only [h1, h2, decide_false, decide_true, Bool.not_false, Bool.not_true, if_true]
        simp only [Bool.false_eq_true, if_false, List.length_cons]
        omega
      · simp [h1, h2, ih]

theorem openEdges_lt (edges : List (Node × Node)) {acc acc' : List Node} (h : ∀ x ∈ acc, x ∈ acc')
    {e : Node × Node} (he : e ∈ edges) (h1 : e.2 ∉ acc) (h2 : e.2 ∈ acc') :
    openEdges edges acc' < openEdges edges acc := by
  induction edges with
  | nil => cases he
  | cons d es ih =>
    unfold openEdges
    simp only [List.filter_cons]
    rcases List.mem_cons.mp he with rfl | he'
    · have := openEdges_mono es h
      unfold openEdges at this
      simp only [h1, h2, decide_false, decide_true, Bool.not_false, Bool.not_true, if_true]
      simp only [Bool.false_eq_true, if_false, List.length_cons]
      omega
    · have ihh := ih he'
      unfold openEdges at ihh
      by_cases d1 : d.2 ∈ acc
      · have d2 : d.2 ∈ acc' := h _ d1
        simp [d1, d2]; exact ihh
      · by_cases d2 : d.2 ∈ acc'
        · simp only [d1, d2, decide_false, decide_true, Bool.not_false, Bool.not_true, if_true]
          simp only [Bool.false_eq_true, if_false, List.length_cons]
          omega
        · simp [d1, d2]; omega

/-- `reach` returns a set that is closed under the edges, when the fuel covers the edges that are
still open and everything reached so far, except the frontier, is closed already -/
theorem reach_closed (edges : List (Node × Node)) : ∀ (fuel : Nat) (acc fr : List Node),
    openEdges edges acc ≤ fuel → (∀ x ∈ fr, x ∈ acc) →
    (∀ e ∈ edges, e.1 ∈ acc → e.1 ∉ fr → e.2 ∈ acc) →
    ∀ e ∈ edges, e.1 ∈ reach edges fuel acc fr → e.2 ∈ reach edges fuel acc fr := by
  intro fuel
  induction fuel with
  | zero =>
    intro acc fr hμ _ _ e he _
    simp only [reach]
    unfold openEdges at hμ
    have hnil : edges.filter (fun e => !decide (e.2 ∈ acc)) = [] := List.eq_nil_of_length_eq_zero (by omega)
    rw [List.filter_eq_nil_iff] at hnil
    have := hnil e he
    simpa using this
  | succ fuel ih =>
    intro acc fr hμ hfr hcl e he h1
    unfold reach at h1 ⊢
    simp only at h1 ⊢
    have hmemnext : ∀ x, x ∈ ((edges.filter (fun e => decide (e.1 ∈ fr) && !decide (e.2 ∈ acc))).map (·.2)).eraseDups ↔
        ∃ d ∈ edges, d.1 ∈ fr ∧ d.2 ∉ acc ∧ d.2 = x := by
      intro x
      rw [List.mem_eraseDups, List.mem_map]
      constructor
      · rintro ⟨d, hd, rfl⟩
        obtain ⟨hd1, hd2⟩ := List.mem_filter.mp hd
        simp only [Bool.and_eq_true, decide_eq_true_eq, Bool.not_eq_true', decide_eq_false_iff_not] at hd2
        exact ⟨d, hd1, hd2.1, hd2.2, rfl⟩
      · rintro ⟨d, hd1, hd2, hd3, rfl⟩
        exact ⟨d, List.mem_filter.mpr ⟨hd1, by simp [hd2, hd3]⟩, rfl⟩
    split at h1
    · rename_i hnext
      rw [if_pos hnext]
      by_cases hf : e.1 ∈ fr
      · by_cases ha : e.2 ∈ acc
        · exact ha
        · have : e.2 ∈ ((edges.filter (fun e => decide (e.1 ∈ fr) && !decide (e.2 ∈ acc))).map (·.2)).eraseDups :=
            (hmemnext _).mpr ⟨e, he, hf, ha, rfl⟩
          rw [hnext] at this; cases this
      · exact hcl e he h1 hf
    · rename_i hnext
      rw [if_neg hnext]
      generalize hN : ((edges.filter (fun e => decide (e.1 ∈ fr) && !decide (e.2 ∈ acc))).map (·.2)).eraseDups = next
        at h1 hnext hmemnext
      apply ih (acc ++ next) next ?_ ?_ ?_ e he h1
      · -- a new head was reached: one open edge fewer
        obtain ⟨x, hx⟩ := List.exists_mem_of_ne_nil next hnext
        obtain ⟨d, hd1, _, hd3, rfl⟩ := (hmemnext x).mp hx
        have := openEdges_lt edges (acc := acc) (acc' := acc ++ next)
          (fun y hy => List.mem_append_left _ hy) hd1 hd3 (List.mem_append_right _ hx)
        omega
      · intro x hx; exact List.mem_append_right _ hx
      · intro d hd h1d h2d
        rcases List.mem_append.mp h1d with h1d | h1d
        · by_cases hf : d.1 ∈ fr
          · by_cases ha : d.2 ∈ acc
            · exact List.mem_append_left _ ha
            · exact List.mem_append_right _ ((hmemnext _).mpr ⟨d, hd, hf, ha, rfl⟩)
          · exact List.mem_append_left _ (hcl d hd h1d hf)
        · exact (h2d h1d).elim

theorem withDescs_closed (edges : List (Node × Node)) (n : Node) :
    ∀ e ∈ edges, e.1 ∈ withDescs edges n → e.2 ∈ withDescs edges n := by
  unfold withDescs
  apply reach_closed edges edges.length [n] [n]
  · unfold openEdges; exact List.length_filter_le _ _
  · intro x hx; exact hx
  · intro e _ h1 h2; exact (h2 h1).elim

/-- the predecessors of what was reached backwards are reached -/
theorem withAncs_closed (edges : List (Node × Node)) (t : Node) {p n : Node}
    (he : (p, n) ∈ edges) (hn : n ∈ withAncs edges t) : p ∈ withAncs edges t := by
  unfold withAncs at hn ⊢
  exact withDescs_closed _ t (n, p) (List.mem_map.mpr ⟨(p, n), he, rfl⟩) hn

/-! ## every traced element is an ancestor of a target -/

/-- `p` reaches `t` along the edges (or is `t`) -/
inductive Anc (edges : List (Node × Node)) : Node → Node → Prop
  | refl (t : Node) : Anc edges t t
  | step {p n t : Node} : (p, n) ∈ edges → Anc edges n t → Anc edges p t

theorem Anc.mono {edges edges' : List (Node × Node)} (h : ∀ e ∈ edges, e ∈ edges') {p t : Node}
    (a : Anc edges p t) : Anc edges' p t := by
  induction a with
  | refl t => exact .refl t
  | step he _ ih => exact .step (h _ he) ih

theorem Anc.snoc {edges : List (Node × Node)} {x p n : Node} (a : Anc edges x p) (he : (p, n) ∈ edges) :
    Anc edges x n := by
  induction a with
  | refl t => exact .step he (.refl n)
  | step h1 _ ih => exact .step h1 (ih he)

theorem anc_mem {edges : List (Node × Node)} {p t : Node} (a : Anc edges p t) : p ∈ withAncs edges t := by
  induction a with
  | refl t => exact self_mem_withDescs _ t
  | step he _ ih => exact withAncs_closed edges _ he ih

/-- the calls made by the formula of `n`: edges only grow, the calls are recorded, and every element
that ran reaches one of the callees -/
theorem fold_anc (preds : Node → List Node) (fuel : Nat) (n : Node)
    (ih : ∀ (m : Node) (c : Cache), ∀ x ∈ (evalNode preds fuel m c).log.drop c.log.length,
      Anc (evalNode preds fuel m c).edges x m) :
    ∀ (ps : List Node) (c0 : Cache),
      (∀ e ∈ c0.edges, e ∈ (ps.foldl (fun c p => (evalNode preds fuel p c).addEdge p n) c0).edges) ∧
      (∀ p ∈ ps, (p, n) ∈ (ps.foldl (fun c p => (evalNode preds fuel p c).addEdge p n) c0).edges) ∧
      ∃ new, (ps.foldl (fun c p => (evalNode preds fuel p c).addEdge p n) c0).log = c0.log ++ new ∧
        ∀ x ∈ new, ∃ p ∈ ps, Anc (ps.foldl (fun c p => (evalNode preds fuel p c).addEdge p n) c0).edges x p := by
  intro ps
  induction ps with
  | nil => intro c0; exact ⟨fun _ h => h, by simp, [], by simp, by simp⟩
  | cons p ps ihp =>
    intro c0
    simp only [List.foldl_cons]
    have r1 := evalNode_records preds fuel p c0
    obtain ⟨n1, l1⟩ := r1.logPrefix
    have d1 : (evalNode preds fuel p c0).log.drop c0.log.length = n1 := by rw [l1, List.drop_left]
    obtain ⟨k3, e3, n3, l3, a3⟩ := ihp ((evalNode preds fuel p c0).addEdge p n)
    have kadd : ∀ e ∈ (evalNode preds fuel p c0).edges, e ∈ ((evalNode preds fuel p c0).addEdge p n).edges := by
      intro e he; simp only [Cache.addEdge, List.mem_append]; exact Or.inl he
    refine ⟨fun e he => k3 e (kadd e (r1.keeps e he)), ?_, n1 ++ n3, ?_, ?_⟩
    · intro q hq
      rcases List.mem_cons.mp hq with rfl | hq
      · exact k3 _ (by simp [Cache.addEdge])
      · exact e3 q hq
    · rw [l3]; simp only [Cache.addEdge]; rw [l1, List.append_assoc]
    · intro x hx
      rcases List.mem_append.mp hx with hx | hx
      · refine ⟨p, by simp, ?_⟩
        exact (ih p c0 x (by rw [d1]; exact hx)).mono (fun e he => k3 e (kadd e he))
      · obtain ⟨q, hq, aq⟩ := a3 x hx
        exact ⟨q, List.mem_cons_of_mem _ hq, aq⟩

theorem evalNode_anc (preds : Node → List Node) (fuel : Nat) :
    ∀ (n : Node) (c : Cache), ∀ x ∈ (evalNode preds fuel n c).log.drop c.log.length,
      Anc (evalNode preds fuel n c).edges x n := by
  induction fuel with
  | zero => intro n c x hx; simp [evalNode] at hx
  | succ fuel ih =>
    intro n c x hx
    unfold evalNode at hx ⊢
    by_cases hn : n ∈ c.held
    · rw [if_pos hn] at hx; simp at hx
    · rw [if_neg hn] at hx ⊢
      obtain ⟨_, ef, new, hl, af⟩ := fold_anc preds fuel n ih (preds n) (c.enter n)
      generalize (preds n).foldl (fun c p => (evalNode preds fuel p c).addEdge p n) (c.enter n) = cf
        at ef hl af hx ⊢
      have hl' : (cf.store n).log = c.log ++ (n :: new) := by
        simp only [Cache.store]; rw [hl]; simp [Cache.enter]
      rw [hl', List.drop_left] at hx
      show Anc cf.edges x n
      rcases List.mem_cons.mp hx with rfl | hx
      · exact .refl _
      · obtain ⟨p, hp, ap⟩ := af x hx
        exact ap.snoc (ef p hp)

theorem evalNode_inputs (preds : Node → List Node) (fuel : Nat) :
    ∀ (n : Node) (c : Cache), (evalNode preds fuel n c).inputs = c.inputs := by
  induction fuel with
  | zero => intro n c; rfl
  | succ fuel ih =>
    intro n c
    unfold evalNode
    by_cases hn : n ∈ c.held
    · rw [if_pos hn]
    · rw [if_neg hn]
      have fold : ∀ (ps : List Node) (c0 : Cache),
          (ps.foldl (fun c p => (evalNode preds fuel p c).addEdge p n) c0).inputs = c0.inputs := by
        intro ps
        induction ps with
        | nil => intro c0; rfl
        | cons p ps ihp =>
          intro c0
          simp only [List.foldl_cons]
          rw [ihp]; simp only [Cache.addEdge]; exact ih p c0
      simp only [Cache.store]
      rw [fold]; rfl

/-- every element whose formula ran while tracing reaches a target that is not a user input -/
theorem traced_anc (preds : Node → List Node) (fuel : Nat) (targets : List Node) (c : Cache) :
    ∀ x ∈ calculated preds fuel targets c, ∃ t ∈ targets, t ∉ c.inputs ∧
      Anc (traceTargets preds fuel targets c).edges x t := by
  unfold calculated traceTargets
  induction targets generalizing c with
  | nil => intro x hx; simp at hx
  | cons u us ih =>
    intro x hx
    simp only [List.foldl_cons] at hx ⊢
    by_cases hu : u ∈ c.inputs
    · rw [if_pos hu] at hx ⊢
      obtain ⟨t, ht, hti, a⟩ := ih c x hx
      exact ⟨t, List.mem_cons_of_mem _ ht, hti, a⟩
    · rw [if_neg hu] at hx ⊢
      have r1 := evalNode_records preds fuel u c
      obtain ⟨n1, l1⟩ := r1.logPrefix
      have hin : (evalNode preds fuel u c).inputs = c.inputs := evalNode_inputs preds fuel u c
      have r2 := traceTargets_records preds fuel us (evalNode preds fuel u c)
      unfold traceTargets at r2
      obtain ⟨n2, l2⟩ := r2.logPrefix
      rw [l2, l1, List.append_assoc, List.drop_left] at hx
      rcases List.mem_append.mp hx with hx | hx
      · refine ⟨u, by simp, hu, ?_⟩
        exact (evalNode_anc preds fuel u c x (by rw [l1, List.drop_left]; exact hx)).mono r2.keeps
      · obtain ⟨t, ht, hti, a⟩ := ih (evalNode preds fuel u c) x (by rw [l2, List.drop_left]; exact hx)
        exact ⟨t, List.mem_cons_of_mem _ ht, by rw [← hin]; exact hti, a⟩

/-- **the planned elements are closed under callees that are not user inputs** – what
`generate_then_execute_any` assumed as `hclosed` -/
theorem planned_closed (preds : Node → List Node) (fuel : Nat) (targets : List Node) (c : Cache)
    (h : c.WF) (hct : ∀ e ∈ c.edges, e.1 ∈ c.held)
    (hcomp : ∀ n ∈ (traceTargets preds (fuel + 1) targets c).held, n ∉ c.inputs → ∀ p ∈ preds n,
      p ∈ (traceTargets preds (fuel + 1) targets c).held ∧
      (p, n) ∈ (traceTargets preds (fuel + 1) targets c).edges) :
    ∀ n ∈ planned preds (fuel + 1) targets c, ∀ p ∈ preds n, p ∉ c.inputs →
      p ∈ planned preds (fuel + 1) targets c := by
  intro n hn p hpn hpi
  obtain ⟨hnh, hni⟩ := planned_held preds (fuel + 1) targets c h hct hcomp n hn
  obtain ⟨_, hedge⟩ := hcomp n hnh hni p hpn
  by_cases hpc : p ∈ calculated preds (fuel + 1) targets c
  · exact List.mem_append_left _ hpc
  · apply List.mem_append_right
    have key : ∃ t ∈ targets, t ∉ c.inputs ∧ t ∈ (traceTargets preds (fuel + 1) targets c).held ∧
        n ∈ withAncs (traceTargets preds (fuel + 1) targets c).edges t := by
      unfold planned at hn
      rcases List.mem_append.mp hn with hn | hn
      · obtain ⟨t, ht, hti, a⟩ := traced_anc preds (fuel + 1) targets c n hn
        exact ⟨t, ht, hti, target_traced preds fuel targets c h t ht hti, anc_mem a⟩
      · obtain ⟨_, _, t, ht, hti, hth, ha⟩ := mem_preHeld hn
        exact ⟨t, ht, hti, hth, ha⟩
    obtain ⟨t, ht, hti, hth, ha⟩ := key
    exact preHeld_of ht hti hth (withAncs_closed _ t hedge ha) hpc hpi

/-- `generate_then_execute_any` without the hypothesis `hclosed` -/
theorem generate_then_execute_full (preds : Node → List Node) (fuel fuel' : Nat) (targets ordered : List Node)
    (size : Nat) (c : Cache) (hz : 1 ≤ size) (h : c.WF) (hct : ∀ e ∈ c.edges, e.1 ∈ c.held)
    (hcomp : ∀ n ∈ (traceTargets preds (fuel + 1) targets c).held, n ∉ c.inputs → ∀ p ∈ preds n,
      p ∈ (traceTargets preds (fuel + 1) targets c).held ∧
      (p, n) ∈ (traceTargets preds (fuel + 1) targets c).edges)
    (hset : ∀ x, x ∈ ordered ↔ x ∈ planned preds (fuel + 1) targets c) (hd : ordered.Nodup)
    (ht : isTopo (succsOf (traceTargets preds (fuel + 1) targets c).edges) ordered = true) :
    let plan := calcSteps ordered (succsOf (traceTargets preds (fuel + 1) targets c).edges)
      (targets.filter (fun t => !decide (t ∈ c.inputs))) size
    let L := generateLeaves preds (fuel + 1) targets c
    let r := execute preds (fuel' + 1) plan L
    (∀ x, x ∈ r.held ↔ x ∈ targets ∨ x ∈ L.held) ∧
    (∀ x ∈ L.held, x ∈ c.held ∧ x ∉ planned preds (fuel + 1) targets c) ∧
    (∀ x, x ∈ r.inputs ↔ x ∈ targets ∨ x ∈ c.inputs) ∧
    (∀ e, e ∈ r.edges ↔ e ∈ L.edges) ∧ r.log = L.log ++ ordered :=
  generate_then_execute_any preds fuel fuel' targets ordered size c hz h hct hcomp
    (planned_closed preds fuel targets c h hct hcomp) hset hd ht

end MxModel.CalcSteps
