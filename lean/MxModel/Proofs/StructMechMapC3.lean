import MxModel.Proofs.StructMechC3
/-!
# C3 linearisation commutes with an injective relabelling of the nodes

`mro_map`: if `bases' (f x) = (bases x).map f` for an injective `f`, the linearisation of `f q` over
`bases'` is the image of the linearisation of `q` over `bases` (and fails exactly when that one fails).
-/
namespace MxModel.C3

variable {α β : Type} [DecidableEq α] [DecidableEq β] (f : α → β) (hf : ∀ x y, f x = f y → x = y)
include hf

theorem contains_map_inj (l : List α) (c : α) : (l.map f).contains (f c) = l.contains c := by
  rw [Bool.eq_iff_iff]
  simp only [List.contains_eq_mem, List.mem_map, decide_eq_true_eq]
  constructor
  · rintro ⟨x, hx, hxc⟩
    rw [← hf x c hxc]; exact hx
  · intro h; exact ⟨c, h, rfl⟩

theorem inTail_map (c : α) (s : List α) : inTail (f c) (s.map f) = inTail c s := by
  unfold inTail
  rw [← List.map_tail, contains_map_inj f hf]

theorem any_inTail_map (all : List (List α)) (c : α) :
    (all.map (List.map f)).any (inTail (f c)) = all.any (inTail c) := by
  rw [List.any_map]
  congr 1
  funext s
  exact inTail_map f hf c s

theorem pick_map (all : List (List α)) : ∀ (seqs : List (List α)),
    pick (all.map (List.map f)) (seqs.map (List.map f)) = (pick all seqs).map f := by
  intro seqs
  induction seqs with
  | nil => rfl
  | cons s rest ih =>
    cases s with
    | nil => simpa [pick] using ih
    | cons c t =>
      simp only [List.map_cons, pick]
      rw [any_inTail_map f hf, ih]
      split <;> rfl

omit [DecidableEq α] [DecidableEq β] hf in
theorem filter_ne_nil_map (seqs : List (List α)) :
    (seqs.map (List.map f)).filter (· ≠ []) = (seqs.filter (· ≠ [])).map (List.map f) := by
  rw [List.filter_map]
  congr 1
  apply List.filter_congr
  intro s _
  simp

theorem dropHead_map (c : α) (seqs : List (List α)) :
    dropHead (f c) (seqs.map (List.map f)) = (dropHead c seqs).map (List.map f) := by
  unfold dropHead
  rw [List.map_map, List.map_map]
  apply List.map_congr_left
  intro s _
  cases s with
  | nil => rfl
  | cons h t =>
    simp only [Function.comp, List.map_cons]
    by_cases hc : h = c
    · simp [hc]
    · have : f h ≠ f c := fun e => hc (hf h c e)
      simp [hc, this]

theorem merge_map : ∀ (fuel : Nat) (seqs : List (List α)),
    merge fuel (seqs.map (List.map f)) = (merge fuel seqs).map (List.map f) := by
  intro fuel
  induction fuel with
  | zero =>
    intro seqs
    simp only [merge]
    rw [filter_ne_nil_map]
    cases (seqs.filter (· ≠ [])) <;> simp
  | succ n ih =>
    intro seqs
    simp only [merge]
    rw [filter_ne_nil_map]
    cases hne : (seqs.filter (· ≠ [])) with
    | nil => simp
    | cons s ss =>
      rw [← hne]
      have hemp : ((seqs.filter (· ≠ [])).map (List.map f)).isEmpty = false := by rw [hne]; rfl
      have hemp' : (seqs.filter (· ≠ [])).isEmpty = false := by rw [hne]; rfl
      rw [hemp, hemp']
      simp only [Bool.false_eq_true, if_false]
      rw [pick_map f hf]
      cases pick (seqs.filter (· ≠ [])) (seqs.filter (· ≠ [])) with
      | none => rfl
      | some c =>
        simp only [Option.map_some]
        rw [dropHead_map f hf, ih]
        cases merge n (dropHead c (seqs.filter (· ≠ []))) <;> rfl

omit [DecidableEq α] [DecidableEq β] hf in
theorem totalLen_map (seqs : List (List α)) : totalLen (seqs.map (List.map f)) = totalLen seqs := by
  unfold totalLen
  rw [List.map_map]
  congr 1
  apply List.map_congr_left
  intro s _
  simp

omit [DecidableEq α] [DecidableEq β] hf in
theorem mapM_map_comm {γ δ : Type} (g : α → Option γ) (g' : β → Option δ) (h : γ → δ) (l : List α)
    (hg : ∀ x ∈ l, g' (f x) = (g x).map h) : (l.map f).mapM g' = (l.mapM g).map (List.map h) := by
  induction l with
  | nil => rfl
  | cons x l ih =>
    simp only [List.map_cons, List.mapM_cons]
    rw [hg x (by simp), ih (fun y hy => hg y (List.mem_cons_of_mem _ hy))]
    cases g x with
    | none => rfl
    | some v =>
      cases l.mapM g with
      | none => rfl
      | some vs => rfl

/-- **the linearisation commutes with an injective relabelling** -/
theorem mro_map (bases : α → List α) (bases' : β → List β) (hb : ∀ x, bases' (f x) = (bases x).map f) :
    ∀ (d : Nat) (q : α), mro bases' d (f q) = (mro bases d q).map (List.map f) := by
  intro d
  induction d with
  | zero => intro q; rfl
  | succ d ih =>
    intro q
    simp only [mro]
    rw [hb q, mapM_map_comm f (mro bases d) (mro bases' d) (List.map f) (bases q) (fun x _ => ih x)]
    cases (bases q).mapM (mro bases d) with
    | none => rfl
    | some ms =>
      simp only [Option.map_some]
      have : ms.map (List.map f) ++ [(bases q).map f] = (ms ++ [bases q]).map (List.map f) := by simp
      rw [this, totalLen_map, merge_map f hf]
      cases merge (totalLen (ms ++ [bases q])) (ms ++ [bases q]) <;> rfl

end MxModel.C3
