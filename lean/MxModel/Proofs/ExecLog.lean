import MxModel.Proofs.ExecEdits
import MxModel.Proofs.ExecCert
/-!
# "Computed once": the execution log of an evaluation

`St.log` (ghost) records every formula execution (`CallStack.append`), `St.rolledback` every frame
that failed.  In the regime of the graph invariant (`Ranked`: terminating programs) an evaluation
* never executes an element of a cached cells that holds a value, and
* executes an element of a cached cells **once per outcome**: every execution is either rolled back
  (it failed: it appears in the roll-back list) or is THE execution that stored the element's value.
  (An element whose execution failed holds nothing and is executed again when it is called again –
  by a handler, or by a `finally` block – that is what "retry" means.)
Hence, when no execution fails (in particular: `NoCatch` programs whose top-level call returns), no
element of a cached cells is executed twice.
-/
namespace MxModel.Exec

/-- `m` acquired its value between `s` and `s'` -/
def newly (s s' : St) (m : Node) : Nat :=
  if lookup s.data m = none ∧ (lookup s'.data m).isSome = true then 1 else 0

structure LogRel (env : Env) (s s' : St) : Prop where
  ex : ∃ (new : List Node) (rb : List (Node × Nat)),
    s'.log = new ++ s.log ∧ s'.rolledback = s.rolledback ++ rb ∧
    (∀ m ∈ new, env.cached m.1 = true → lookup s.data m = none) ∧
    (∀ m, env.cached m.1 = true → new.count m = (rb.map (·.1)).count m + newly s s' m)

variable {env : Env} {lt : Node → Node → Prop}

theorem LogRel.of_same {s s' : St} (hl : s'.log = s.log) (hr : s'.rolledback = s.rolledback)
    (hd : s'.data = s.data) : LogRel env s s' := by
  refine ⟨[], [], by simp [hl], by simp [hr], by simp, ?_⟩
  intro m _
  simp only [List.count_nil, List.map_nil, newly, hd, Nat.zero_add]
  split
  · rename_i h; rw [h.1] at h; simp at h
  · rfl

theorem newly_add {a b c : St} (h1 : Ext a b) (h2 : Ext b c) (m : Node) :
    newly a c m = newly a b m + newly b c m := by
  unfold newly
  cases ha : lookup a.data m with
  | some v =>
    have hb := h1 m v ha
    simp [hb]
  | none =>
    cases hb : lookup b.data m with
    | some v => have hc := h2 m v hb; simp [hc]
    | none => simp

theorem LogRel.trans {a b c : St} (h1 : LogRel env a b) (h2 : LogRel env b c) (e1 : Ext a b) (e2 : Ext b c) :
    LogRel env a c := by
  obtain ⟨n1, r1, l1, rb1, a1, c1⟩ := h1.ex
  obtain ⟨n2, r2, l2, rb2, a2, c2⟩ := h2.ex
  refine ⟨n2 ++ n1, r1 ++ r2, by rw [l2, l1, List.append_assoc], by rw [rb2, rb1, List.append_assoc], ?_, ?_⟩
  · intro m hm hc
    simp only [List.mem_append] at hm
    rcases hm with hm | hm
    · have := a2 m hm hc
      cases ha : lookup a.data m with
      | none => rfl
      | some v => rw [e1 m v ha] at this; cases this
    · exact a1 m hm hc
  · intro m hc
    rw [List.count_append, c1 m hc, c2 m hc, List.map_append, List.count_append, newly_add e1 e2]
    omega

def EvalL (env : Env) (lt : Node → Node → Prop) (ef : Node → St → Res × St) : Prop :=
  ∀ m s, GI env lt s → IdxOK env s.stack s.idx → s.idx.length = s.stack.length →
    (∀ a ∈ s.stack, lt m a) → lookup s.data m = none → LogRel env s (ef m s).2

def CalleeL (env : Env) (lt : Node → Node → Prop) (f : Node → St → Res × St) : Prop :=
  ∀ m s, GI env lt s → IdxOK env s.stack s.idx → s.idx.length = s.stack.length →
    (∀ a ∈ s.stack, lt m a) → LogRel env s (f m s).2

theorem log_hitEdge (s : St) (n : Node) : (s.hitEdge n).log = s.log ∧ (s.hitEdge n).rolledback = s.rolledback := by
  unfold St.hitEdge
  split
  · unfold St.addEdge St.addNode; simp only []; repeat' split
    all_goals exact ⟨rfl, rfl⟩
  · exact ⟨rfl, rfl⟩

theorem evalNode_log (ef : Node → St → Res × St) (hefG : EvalG env lt ef) (hef : EvalL env lt ef) :
    CalleeL env lt (evalNode env ef) := by
  intro m s g hidx hlen hbelow
  have hkeep : ∀ p : Res × St, LogRel env s p.2 → LogRel env s (keepExc s p).2 := by
    intro p hp
    have ho := keepExc_excOnly s p
    obtain ⟨n1, r1, l1, rb1, a1, c1⟩ := hp.ex
    refine ⟨n1, r1, ho.log.trans l1, ho.rolledback.trans rb1, a1, ?_⟩
    intro m' hc
    rw [c1 m' hc]
    simp only [newly, ho.data]
  unfold evalNode
  by_cases ha : env.alive m.1 = true
  · simp only [ha, if_true]
    by_cases hc : env.cached m.1 = true
    · simp only [hc, if_true]
      cases hl : lookup s.data m with
      | some v => exact LogRel.of_same (log_hitEdge s m).1 (log_hitEdge s m).2 (sameCache_hitEdge s m).data
      | none => exact hkeep _ (hef m s g hidx hlen hbelow hl)
    · have hc' : env.cached m.1 = false := by simpa using hc
      simp only [hc', Bool.false_eq_true, if_false]
      refine hkeep _ (hef m s g hidx hlen hbelow ?_)
      cases hl : lookup s.data m with
      | none => rfl
      | some v => have := (g.heldNodes m (by rw [hl]; rfl)).2; rw [hc'] at this; cases this
  · have ha' : env.alive m.1 = false := by simpa using ha
    simp only [ha', Bool.false_eq_true, if_false]
    exact LogRel.of_same rfl rfl rfl

theorem runBody_log (ho : StrictOrder lt) (f : Node → St → Res × St) (hfG : CalleeG env lt f)
    (hfL : CalleeL env lt f) (base : List Node) (n : Node) (idx0 : List Int) (hbelow : ∀ a ∈ base, lt n a) :
    ∀ (p : Prog), CallsBelow lt n p → ∀ (s : St), GI env lt s → s.stack = base ++ [n] → s.idx = idx0 →
      IdxOK env (base ++ [n]) idx0 → idx0.length = (base ++ [n]).length →
      LogRel env s (runBody env f p s).2 := by
  intro p
  induction p with
  | ret v => intro _ s _ _ _ _ _; exact LogRel.of_same rfl rfl rfl
  | raise e => intro _ s _ _ _ _ _; exact LogRel.of_same rfl rfl rfl
  | reraise e => intro _ s _ _ _ _ _; exact LogRel.of_same rfl rfl rfl
  | read a r k ih =>
    intro hcb s g hs hi hidx hlen
    simp only [CallsBelow] at hcb
    simp only [runBody]
    have hsg := sameG_noteRead s (a && (env.refs r).isSome) r
    have h0 : LogRel env s (s.noteRead (a && (env.refs r).isSome) r) := by
      refine LogRel.of_same ?_ ?_ hsg.data
      · unfold St.noteRead; split <;> rfl
      · unfold St.noteRead; split <;> rfl
    have g1 := GI.of_sameG hsg g
    have h1 := ih (env.refs r) (hcb _) (s.noteRead (a && (env.refs r).isSome) r) g1 (hsg.stack.trans hs)
      (hsg.idx.trans hi) hidx hlen
    have e1 := (runBody_graph ho f hfG base n idx0 hbelow (k (env.refs r)) (hcb (env.refs r))
      (s.noteRead (a && (env.refs r).isSome) r) g1 (hsg.stack.trans hs)
      (hsg.idx.trans hi) hidx hlen).2.2.2
    exact h0.trans h1 (Ext.of_data hsg.data) e1
  | call m k ih =>
    intro hcb s g hs hi hidx hlen
    simp only [CallsBelow] at hcb
    simp only [runBody]
    have hb : ∀ a ∈ s.stack, lt m a := by
      intro a ha
      rw [hs] at ha
      simp only [List.mem_append, List.mem_singleton] at ha
      rcases ha with ha | rfl
      · exact ho.trans _ _ _ hcb.1 (hbelow a ha)
      · exact hcb.1
    have hidx' : IdxOK env s.stack s.idx := by rw [hs, hi]; exact hidx
    have hlen' : s.idx.length = s.stack.length := by rw [hs, hi]; exact hlen
    obtain ⟨g', hs', hi', he'⟩ := hfG m s g hidx' hlen' hb
    have h0 := hfL m s g hidx' hlen' hb
    have h1 := ih (f m s).1 (hcb.2 _) (f m s).2 g' (hs'.trans hs) (hi'.trans hi) hidx hlen
    have e1 := (runBody_graph ho f hfG base n idx0 hbelow (k (f m s).1) (hcb.2 (f m s).1) (f m s).2 g'
      (hs'.trans hs) (hi'.trans hi) hidx hlen).2.2.2
    exact h0.trans h1 he' e1

theorem pop_log (s : St) (n : Node) :
    (s.pop env n).log = s.log ∧ (s.pop env n).rolledback = s.rolledback := by
  unfold St.pop
  have hd := drainSame env (s.dropFrame.popEdge env n) n
  have : (s.dropFrame.popEdge env n).log = s.log ∧ (s.dropFrame.popEdge env n).rolledback = s.rolledback := by
    unfold St.popEdge
    split
    · unfold St.addEdge St.addNode; simp only []; repeat' split
      all_goals exact ⟨rfl, rfl⟩
    · split
      · unfold St.addNode; split <;> exact ⟨rfl, rfl⟩
      · exact ⟨rfl, rfl⟩
  exact ⟨hd.log.trans this.1, hd.rolledback.trans this.2⟩

theorem runN_log (ho : StrictOrder lt) (hr : Ranked env lt) : ∀ d, EvalL env lt (runN env d) := by
  intro d
  induction d with
  | zero => intro m s _ _ _ _ _; exact LogRel.of_same rfl rfl rfl
  | succ d ih =>
    intro n s g hidx hlen hbelow hnone
    have hpush := g.push (env := env) n hnone
    have hidx' := IdxOK.push hidx hlen n
    have hlen' : (s.push env n).idx.length = (s.push env n).stack.length := by simp [St.push, hlen]
    have hG := runBody_graph ho _ (evalNode_graph _ (runN_graph ho hr d)) s.stack n (s.push env n).idx hbelow
      (env.formula n) (hr n) (s.push env n) hpush rfl rfl hidx' hlen'
    have hL := runBody_log ho _ (evalNode_graph _ (runN_graph ho hr d))
      (evalNode_log _ (runN_graph ho hr d) ih) s.stack n (s.push env n).idx hbelow
      (env.formula n) (hr n) (s.push env n) hpush rfl rfl hidx' hlen'
    simp only [runN]
    generalize runBody env (evalNode env (runN env d)) (env.formula n) (s.push env n) = p at hG hL
    obtain ⟨r, s1⟩ := p
    simp only [] at hG hL ⊢
    obtain ⟨g1, hs1, _, _⟩ := hG
    obtain ⟨nb, rbb, lb, rb1, ab, cb⟩ := hL.ex
    have hlog : s1.log = (nb ++ [n]) ++ s.log := by rw [lb]; simp [St.push]
    have hrb0 : s1.rolledback = s.rolledback ++ rbb := rb1
    have hun1 : lookup s1.data n = none := g1.stackUnheld n (by rw [hs1]; simp)
    have hA : ∀ m ∈ nb ++ [n], env.cached m.1 = true → lookup s.data m = none := by
      intro m hm hc
      simp only [List.mem_append, List.mem_singleton] at hm
      rcases hm with hm | rfl
      · exact ab m hm hc
      · exact hnone
    -- failure: the frame is rolled back
    have failCase : ∀ s' : St, s'.log = s1.log → s'.data = s1.data →
        (∃ x, s'.rolledback = s1.rolledback ++ [(n, x)]) → LogRel env s s' := by
      intro s' hl' hd' ⟨x, hr'⟩
      refine ⟨nb ++ [n], rbb ++ [(n, x)], hl'.trans hlog, by rw [hr', hrb0, List.append_assoc], hA, ?_⟩
      intro m hc
      have := cb m hc
      simp only [List.count_append, List.map_append, List.map_cons, List.map_nil, this]
      have hnw : newly s s' m = newly (s.push env n) s1 m := by simp only [newly, hd']; rfl
      rw [hnw]; omega
    cases r with
    | err e => exact failCase _ rfl rfl ⟨_, rfl⟩
    | ok v =>
      simp only []
      by_cases hc : env.cached n.1 = true
      · simp only [hc, if_true]
        split
        · exact failCase _ rfl rfl ⟨_, rfl⟩
        · -- stored: the one successful execution
          have hp := pop_log (env := env) ({ s1 with data := insert s1.data n v } : St) n
          have hd : (({ s1 with data := insert s1.data n v } : St).pop env n).data = insert s1.data n v :=
            (sameCache_pop env _ n).data
          refine ⟨nb ++ [n], rbb, hp.1.trans hlog, hp.2.trans hrb0, hA, ?_⟩
          intro m hcm
          have := cb m hcm
          simp only [List.count_append, this]
          by_cases hmn : m = n
          · subst hmn
            have h1 : newly (s.push env m) s1 m = 0 := by
              simp only [newly, hun1]; simp
            have h2 : newly s (({ s1 with data := insert s1.data m v } : St).pop env m) m = 1 := by
              simp only [newly, hd, lookup_insert, hnone]; simp
            rw [h1, h2]; simp
          · have h2 : newly s (({ s1 with data := insert s1.data n v } : St).pop env n) m =
                newly (s.push env n) s1 m := by
              simp only [newly, hd, lookup_insert, if_neg (Ne.symm hmn)]; rfl
            rw [h2]
            have : List.count m [n] = 0 := by simp [Ne.symm hmn]
            omega
      · have hc' : env.cached n.1 = false := by simpa using hc
        simp only [hc', Bool.false_eq_true, if_false]
        have hp := pop_log (env := env) s1 n
        have hd : (s1.pop env n).data = s1.data := (sameCache_pop env s1 n).data
        refine ⟨nb ++ [n], rbb, hp.1.trans hlog, hp.2.trans hrb0, hA, ?_⟩
        intro m hcm
        have := cb m hcm
        have hmn : n ≠ m := by intro h; subst h; rw [hc'] at hcm; cases hcm
        simp only [List.count_append, this]
        have h2 : newly s (s1.pop env n) m = newly (s.push env n) s1 m := by simp only [newly, hd]; rfl
        rw [h2]
        have : List.count m [n] = 0 := by simp [hmn]
        omega

/-- under `NoCatch` a failed callee makes the caller fail: a call that RETURNS has rolled nothing back -/
theorem runBody_noRb (f : Node → St → Res × St)
    (hf : ∀ m s w, (f m s).1 = .ok w → (f m s).2.rolledback = s.rolledback) :
    ∀ (p : Prog), NoCatch p → ∀ (s : St) (v : Val), (runBody env f p s).1 = .ok v →
      (runBody env f p s).2.rolledback = s.rolledback := by
  intro p
  induction p with
  | ret v0 => intro _ s v _; rfl
  | raise e => intro _ s v h; simp [runBody] at h
  | reraise e => intro _ s v h; simp [runBody] at h
  | read a r k ih =>
    intro hnc s v h
    simp only [NoCatch] at hnc
    simp only [runBody] at h ⊢
    rw [ih _ (hnc.2 _) _ v h]
    unfold St.noteRead; split <;> rfl
  | call m k ih =>
    intro hnc s v h
    simp only [NoCatch] at hnc
    simp only [runBody] at h ⊢
    cases hres : (f m s).1 with
    | err e => rw [hres] at h; exact absurd h (fails_not_ok env f _ (hnc.1 e) _ v)
    | ok w => rw [hres] at h; rw [ih _ (hnc.2 _) _ v h]; exact hf m s w hres

theorem runN_noRb (hnc : NoCatchEnv env) : ∀ d m s w, (runN env d m s).1 = .ok w →
    (runN env d m s).2.rolledback = s.rolledback := by
  intro d
  induction d with
  | zero => intro m s w h; simp [runN] at h
  | succ d ih =>
    intro n s w h
    have hev : ∀ m s w, (evalNode env (runN env d) m s).1 = .ok w →
        (evalNode env (runN env d) m s).2.rolledback = s.rolledback := by
      intro m s w hw
      unfold evalNode at hw ⊢
      by_cases ha : env.alive m.1 = true
      · simp only [ha, if_true] at hw ⊢
        by_cases hc : env.cached m.1 = true
        · simp only [hc, if_true] at hw ⊢
          cases hl : lookup s.data m with
          | some v => exact (log_hitEdge s m).2
          | none =>
            simp only [hl] at hw ⊢
            rw [keepExc_fst] at hw
            exact (keepExc_excOnly s _).rolledback.trans (ih m s w hw)
        · have hc' : env.cached m.1 = false := by simpa using hc
          simp only [hc', Bool.false_eq_true, if_false] at hw ⊢
          rw [keepExc_fst] at hw
          exact (keepExc_excOnly s _).rolledback.trans (ih m s w hw)
      · have ha' : env.alive m.1 = false := by simpa using ha
        simp only [ha', Bool.false_eq_true, if_false] at hw
        cases hw
    have hb := runBody_noRb (env := env) _ hev (env.formula n) (hnc n) (s.push env n)
    simp only [runN] at h ⊢
    generalize runBody env (evalNode env (runN env d)) (env.formula n) (s.push env n) = p at hb h
    obtain ⟨r, s1⟩ := p
    cases r with
    | err e => simp at h
    | ok v =>
      have hb' : s1.rolledback = s.rolledback := hb v rfl
      simp only [] at h ⊢
      split
      · split
        · rename_i h1 h2; simp only [h1, h2, if_true] at h; cases h
        · exact (pop_log _ n).2.trans hb'
      · exact (pop_log s1 n).2.trans hb'

/-- **one top-level call**: `new` = the formula executions it made (newest first), `rb` = the frames
it rolled back (`_eval_formula`'s list just before `_start_exec` clears it) -/
theorem evalTop_log (ho : StrictOrder lt) (hr : Ranked env lt) {s : St} (g : GI env lt s)
    (hst : s.stack = []) (hidx : s.idx = []) (n : Node) :
    ∃ (new : List Node) (rb : List (Node × Nat)),
      (evalTop env n s).2.log = new ++ s.log ∧
      (∀ m ∈ new, env.cached m.1 = true → lookup s.data m = none) ∧
      (∀ m, env.cached m.1 = true → new.count m = (rb.map (·.1)).count m + newly s (evalTop env n s).2 m) ∧
      ((if env.cached n.1 = true then lookup s.data n else none) = none →
        (runN env (env.maxdepth + 1) n s).2.rolledback = s.rolledback ++ rb) ∧
      (NoCatchEnv env → ∀ v, (evalTop env n s).1 = .ok v → rb = []) := by
  unfold evalTop
  cases hl : (if env.cached n.1 = true then lookup s.data n else none) with
  | some v =>
    refine ⟨[], [], ?_, ?_, ?_, ?_, ?_⟩
    · rfl
    · intro m hm; cases hm
    · intro m _
      simp only [newly, List.count_nil, List.map_nil, Nat.zero_add]
      split
      · rename_i h; rw [h.1] at h; simp at h
      · rfl
    · intro h; cases h
    · intro _ _ _; rfl
  | none =>
    simp only []
    have hnone : lookup s.data n = none := by
      by_cases hc : env.cached n.1 = true
      · simpa [hc] using hl
      · cases h : lookup s.data n with
        | none => rfl
        | some v => exact absurd (g.heldNodes n (by rw [h]; rfl)).2 hc
    have hL := runN_log ho hr (env.maxdepth + 1) n s g
      (by intro j i hji; rw [hidx] at hji; simp at hji) (by simp [hst, hidx])
      (by intro a ha; rw [hst] at ha; cases ha) hnone
    obtain ⟨new, rb, l1, r1, a1, c1⟩ := hL.ex
    have hnr : NoCatchEnv env → ∀ w, (runN env (env.maxdepth + 1) n s).1 = .ok w → rb = [] := by
      intro hnc w hw
      have := runN_noRb hnc (env.maxdepth + 1) n s w hw
      rw [r1] at this
      exact List.append_right_eq_self.mp this
    generalize runN env (env.maxdepth + 1) n s = p at l1 r1 a1 c1 hnr
    obtain ⟨r, s1⟩ := p
    cases r with
    | ok v =>
      exact ⟨new, rb, l1, a1, fun m hc => by rw [c1 m hc]; rfl, fun _ => r1, fun hnc w _ => hnr hnc v rfl⟩
    | err e =>
      exact ⟨new, rb, l1, a1, fun m hc => by rw [c1 m hc]; rfl, fun _ => r1, fun _ w hw => by cases hw⟩

end MxModel.Exec
