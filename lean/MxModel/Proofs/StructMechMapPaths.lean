import MxModel.Proofs.StructMechCor
import MxModel.Proofs.StructMechMapC3
import MxModel.Struct.MechRename
/-!
# The invariant of the mechanism is invariant under an injective relabelling of paths

`St.mapPaths ρ` applies `ρ` to every path the state holds (ids, direct bases, keys of the name counters).
For an injective `ρ`: lookup, direct bases, linearisations, member tables, definitions and first
definers all commute with `ρ` (`find_mapPaths` … `firstDef_mapPaths`) – *derivation from scratch
commutes with the relabelling*.  If moreover `ρ` maps the root to the root and children of `q` to
children of `ρ q`, and wherever it changes the name of an existing space the new name is free in the
parent, `Inv` is transported (`inv_mapPaths`).
-/
namespace MxModel.SM
open MxModel.C3

section
variable (ρ : Path → Path) (st : St)

theorem ids_mapPaths : (st.mapPaths ρ).ids = st.ids.map ρ := by
  unfold St.ids St.mapPaths
  simp only [List.map_map]
  rfl

theorem length_mapPaths : (st.mapPaths ρ).spaces.length = st.spaces.length := by
  simp [St.mapPaths]

theorem globals_mapPaths : (st.mapPaths ρ).globals = st.globals := rfl

theorem mem_ids_mapPaths (q' : Path) : q' ∈ (st.mapPaths ρ).ids ↔ ∃ q ∈ st.ids, ρ q = q' := by
  rw [ids_mapPaths, List.mem_map]

variable (hρ : ∀ x y, ρ x = ρ y → x = y)
include hρ

theorem mem_ids_mapPaths_image (q : Path) : ρ q ∈ (st.mapPaths ρ).ids ↔ q ∈ st.ids := by
  rw [mem_ids_mapPaths]
  constructor
  · rintro ⟨x, hx, hxq⟩; rw [← hρ x q hxq]; exact hx
  · intro h; exact ⟨q, h, rfl⟩

theorem find_mapPaths (q : Path) : (st.mapPaths ρ).find (ρ q) = (st.find q).map (Space.mapPaths ρ) := by
  unfold St.find St.mapPaths
  simp only
  rw [List.find?_map]
  have : ((fun s : Space => s.id == ρ q) ∘ Space.mapPaths ρ) = (fun s : Space => s.id == q) := by
    funext s
    simp only [Function.comp, Space.mapPaths]
    rw [Bool.eq_iff_iff, beq_iff_eq, beq_iff_eq]
    exact ⟨hρ _ _, fun h => by rw [h]⟩
  rw [this]

theorem basesOf_mapPaths (q : Path) : (st.mapPaths ρ).basesOf (ρ q) = (st.basesOf q).map ρ := by
  unfold St.basesOf
  rw [find_mapPaths ρ st hρ]
  cases st.find q <;> rfl

/-- **linearisations commute with the relabelling** -/
theorem mro_mapPaths (q : Path) : (st.mapPaths ρ).mro (ρ q) = (st.mro q).map (List.map ρ) := by
  unfold St.mro
  rw [length_mapPaths]
  exact mro_map ρ hρ st.basesOf (st.mapPaths ρ).basesOf (basesOf_mapPaths ρ st hρ) _ q

theorem tail_mapPaths (q : Path) : (st.mapPaths ρ).tail (ρ q) = (st.tail q).map ρ := by
  unfold St.tail
  rw [mro_mapPaths ρ st hρ]
  cases st.mro q with
  | none => rfl
  | some l => simp

theorem cont_mapPaths (a : Attr) (q : Path) : (st.mapPaths ρ).cont a (ρ q) = st.cont a q := by
  unfold St.cont
  rw [find_mapPaths ρ st hρ]
  cases st.find q with
  | none => rfl
  | some s => cases a <;> rfl

/-- **member tables commute with the relabelling** -/
theorem mem_mapPaths (a : Attr) (q : Path) (n : String) : (st.mapPaths ρ).mem a (ρ q) n = st.mem a q n := by
  rw [St.mem_eq, St.mem_eq, cont_mapPaths ρ st hρ]

theorem defd_mapPaths (a : Attr) (q : Path) (n : String) : (st.mapPaths ρ).defd a (ρ q) n = st.defd a q n := by
  unfold St.defd
  rw [mem_mapPaths ρ st hρ]

/-- **first definers commute with the relabelling** -/
theorem firstDef_mapPaths (a : Attr) (l : List Path) (n : String) :
    (st.mapPaths ρ).firstDef a (l.map ρ) n = (st.firstDef a l n).map (fun d => (ρ d.1, d.2)) := by
  unfold St.firstDef
  induction l with
  | nil => rfl
  | cons x l ih =>
    simp only [List.map_cons, List.findSome?_cons]
    rw [defd_mapPaths ρ st hρ]
    cases st.defd a x n with
    | none => simpa using ih
    | some v => rfl

theorem subs_mapPaths (p : Path) : (st.mapPaths ρ).subs (ρ p) = (st.subs p).map ρ := by
  unfold St.subs
  rw [ids_mapPaths, List.filter_map]
  congr 1
  apply List.filter_congr
  intro q _
  simp only [Function.comp]
  rw [tail_mapPaths ρ st hρ, Bool.eq_iff_iff]
  simp only [Bool.and_eq_true, bne_iff_ne, ne_eq, List.contains_eq_mem, decide_eq_true_eq, List.mem_map]
  constructor
  · rintro ⟨h1, x, hx, hxp⟩
    exact ⟨fun e => h1 (by rw [e]), by rw [← hρ x p hxp]; exact hx⟩
  · rintro ⟨h1, h2⟩
    exact ⟨fun e => h1 (hρ _ _ e), p, h2, rfl⟩

/-- **the invariant is transported along an injective relabelling that maps the root to the root and
children to children**; where it changes the last component of an existing space, the new name is free
in the parent (no cells, no reference; at top level no model-level reference) -/
theorem inv_mapPaths (hnil : ρ [] = [])
    (hsnoc : ∀ q n, ∃ n', ρ (q ++ [n]) = ρ q ++ [n'])
    (hname : ∀ q n n', (q ++ [n]) ∈ st.ids → ρ (q ++ [n]) = ρ q ++ [n'] →
      n' = n ∨ (st.mem .cells q n' = none ∧ st.mem .refs q n' = none ∧ (q = [] → n' ∉ st.globals)))
    (h : Inv st) : Inv (st.mapPaths ρ) := by
  have himg : ∀ q', q' ∈ (st.mapPaths ρ).ids → ∃ q ∈ st.ids, ρ q = q' := fun q' => (mem_ids_mapPaths ρ st q').mp
  -- a child of `q'` in the relabelled state comes from a child of some `q` with `ρ q = q'`
  have hchild : ∀ q' n', (q' ++ [n']) ∈ (st.mapPaths ρ).ids →
      ∃ q n, (q ++ [n]) ∈ st.ids ∧ ρ q = q' ∧ ρ (q ++ [n]) = ρ q ++ [n'] := by
    intro q' n' hq
    obtain ⟨x, hx, hxq⟩ := himg _ hq
    have hx0 : x ≠ [] := by
      intro e; subst e; rw [hnil] at hxq
      exact absurd (congrArg List.length hxq) (by simp)
    obtain ⟨n, hn⟩ : ∃ n, x = x.dropLast ++ [n] :=
      ⟨x.getLast hx0, (List.dropLast_concat_getLast hx0).symm⟩
    obtain ⟨m, hm⟩ := hsnoc x.dropLast n
    rw [← hn, hxq] at hm
    obtain ⟨h1, h2⟩ := List.append_inj' hm rfl
    simp only [List.cons.injEq, and_true] at h2
    subst h2
    refine ⟨x.dropLast, n, by rw [← hn]; exact hx, h1.symm, ?_⟩
    rw [← hn, hxq, h1]
  refine ⟨⟨?_, ?_, ?_, ?_, ?_⟩, ?_, ⟨?_, ?_, ?_⟩⟩
  · -- ids distinct
    rw [ids_mapPaths]
    exact List.Pairwise.map ρ (fun a b hab e => hab (hρ a b e)) h.wf.nodup
  · intro q' b' hb
    by_cases hq : q' ∈ (st.mapPaths ρ).ids
    · obtain ⟨q, _, rfl⟩ := himg _ hq
      rw [basesOf_mapPaths ρ st hρ] at hb
      obtain ⟨b, hb1, rfl⟩ := List.mem_map.mp hb
      exact (mem_ids_mapPaths_image ρ st hρ b).mpr (h.wf.bases q b hb1)
    · rw [St.basesOf_of_not_mem _ q' hq] at hb; cases hb
  · intro q' hq
    obtain ⟨q, hq1, rfl⟩ := himg _ hq
    rw [mro_mapPaths ρ st hρ]
    have := h.wf.mro q hq1
    cases hm : st.mro q with
    | none => rw [hm] at this; cases this
    | some l => rfl
  · intro a q'
    by_cases hq : q' ∈ (st.mapPaths ρ).ids
    · obtain ⟨q, _, rfl⟩ := himg _ hq
      rw [cont_mapPaths ρ st hρ]; exact h.wf.keys a q
    · rw [St.cont_of_not_mem _ a q' hq]; simp [keys]
  · intro q' hq
    obtain ⟨q, hq1, rfl⟩ := himg _ hq
    obtain ⟨hq0, hpar⟩ := h.wf.tree q hq1
    obtain ⟨n, hn⟩ : ∃ n, q = q.dropLast ++ [n] :=
      ⟨q.getLast hq0, (List.dropLast_concat_getLast hq0).symm⟩
    obtain ⟨m, hm⟩ := hsnoc q.dropLast n
    rw [← hn] at hm
    rw [hm]
    refine ⟨by simp, ?_⟩
    rw [List.dropLast_concat]
    rcases hpar with e | e
    · left; rw [e, hnil]
    · right; exact (mem_ids_mapPaths_image ρ st hρ _).mpr e
  · -- derivation
    intro a q' n
    by_cases hq : q' ∈ (st.mapPaths ρ).ids
    · obtain ⟨q, _, rfl⟩ := himg _ hq
      have hg := h.good a q n
      unfold Good1 at hg ⊢
      rw [mem_mapPaths ρ st hρ, tail_mapPaths ρ st hρ, firstDef_mapPaths ρ st hρ]
      cases hm : st.mem a q n with
      | none => rw [hm] at hg; simp only at hg ⊢; rw [hg]; rfl
      | some m =>
        rw [hm] at hg
        simp only at hg ⊢
        intro hd
        obtain ⟨b, hb⟩ := hg hd
        exact ⟨ρ b, by rw [hb]; rfl⟩
    · exact Good1.of_not_mem _ a q' n hq
  · intro q' n hs
    by_cases hq : q' ∈ (st.mapPaths ρ).ids
    · obtain ⟨q, _, rfl⟩ := himg _ hq
      rw [mem_mapPaths ρ st hρ] at hs ⊢
      exact h.disj.cr q n hs
    · rw [St.mem_of_not_mem _ .cells q' n hq] at hs; cases hs
  · intro q' n' hn
    rw [mem_childNames] at hn
    obtain ⟨q, n, hqn, rfl, hr⟩ := hchild q' n' hn
    rw [mem_mapPaths ρ st hρ, mem_mapPaths ρ st hρ]
    rcases hname q n n' hqn hr with e | ⟨e1, e2, _⟩
    · subst e
      exact h.disj.child q n' ((mem_childNames st q n').mpr hqn)
    · exact ⟨e1, e2⟩
  · intro n' hg hc
    rw [mem_childNames] at hc
    obtain ⟨q, n, hqn, hq0, hr⟩ := hchild [] n' hc
    have hq : q = [] := hρ q [] (by rw [hq0, hnil])
    subst hq
    rcases hname [] n n' hqn hr with e | ⟨_, _, e3⟩
    · subst e
      exact h.disj.glob n' hg ((mem_childNames st [] n').mpr hqn)
    · exact e3 rfl hg

end

end MxModel.SM
