import MxModel.Edit.Machine
import MxModel.Proofs.ExecCertRunOps
/-!
# Clear first, redefine afterwards

The clearing modelx performs for a structural edit is a sequence of primitives (`Edit.Clear`):
`clear_obj` of a cells, a namespace notifying its cells, `clear_attr_referrers` of a reference, the
clearing of a deleted space's cells.  Each of them keeps the certificate invariant for the definitions
in force (`doClears_ci`), and leaves behind facts that later primitives cannot undo:

* `Clean s c` – every graph node cells `c` still has is an INPUT element (established by a notification
  of `c`, by `clear_obj c`, by the deletion clearing);
* `NoNodes s c` – `c` has no node at all (`clear_obj`, deletion);
* `NoRg s r` – the reference graph has no edge of reference `r` (`clear_attr_referrers r`).

`redefine_ci`: from a state in which every cells whose definition changes is `Clean` (and keeps flag and
existence if it holds an input), every reference whose value changes has clean observers and – if it
existed – no reference-graph edge, the certificate invariant holds for the NEW definitions with
NOTHING cleared in addition.  (The merge of `batchEdit_ci` and `refEdit_cinv` with the clearing
factored out.)
-/
namespace MxModel.Edit
open MxModel.Exec MxModel.C02

variable {env env' : Env} {lt : Node → Node → Prop}

/-- every node cells `c` has is an input element -/
def Clean (s : Exec.St) (c : CellId) : Prop := ∀ x ∈ s.gn, x.cell = c → ∃ m, x = .elem m ∧ m ∈ s.inputs

def NoNodes (s : Exec.St) (c : CellId) : Prop := ∀ x ∈ s.gn, x.cell ≠ c

def NoRg (s : Exec.St) (r : RefId) : Prop := ∀ n, (r, n) ∉ s.rg

theorem NoNodes.clean {s : Exec.St} {c : CellId} (h : NoNodes s c) : Clean s c :=
  fun x hx hc => absurd hc (h x hx)

theorem Clean.of_clr {s s' : Exec.St} {R : List GNode} {D : RefId × Node → Prop} {c : CellId}
    (h : Clean s c) (hc : Clr s R D s') : Clean s' c := by
  intro x hx hxc
  obtain ⟨h1, h2⟩ := (hc.mem_gn x).mp hx
  obtain ⟨m, rfl, hm⟩ := h x h1 hxc
  exact ⟨m, rfl, (hc.mem_inputs m).mpr ⟨hm, h2⟩⟩

theorem NoNodes.of_clr {s s' : Exec.St} {R : List GNode} {D : RefId × Node → Prop} {c : CellId}
    (h : NoNodes s c) (hc : Clr s R D s') : NoNodes s' c :=
  fun x hx => h x ((hc.mem_gn x).mp hx).1

theorem NoRg.of_clr {s s' : Exec.St} {R : List GNode} {D : RefId × Node → Prop} {r : RefId}
    (h : NoRg s r) (hc : Clr s R D s') : NoRg s' r :=
  fun n hn => h n (hc.rgSub _ hn)

/-- a cells that does not exist has no node -/
theorem noNodes_of_dead {s : Exec.St} (h : CI env lt s) (c : CellId) (hd : env.alive c = false) : NoNodes s c := by
  intro x hx hxc
  have := h.alive.nodes x hx
  rw [hxc, hd] at this; cases this

/-! ## the change of definitions, with nothing cleared -/

/-- the definitions of the cells in `C` and the values of the references in `RR` change – anything may
change for those -/
structure Redef (env env' : Env) (C : CellId → Prop) (RR : RefId → Prop) : Prop where
  formula : ∀ n : Node, ¬ C n.1 → env'.formula n = env.formula n
  cached : ∀ c, ¬ C c → env'.cached c = env.cached c
  allowNone : ∀ c, ¬ C c → env'.allowNone c = env.allowNone c
  alive : ∀ c, ¬ C c → env'.alive c = env.alive c
  refs : ∀ r, ¬ RR r → env'.refs r = env.refs r

theorem redefine_ci {s : Exec.St} {C : CellId → Prop} {RR : RefId → Prop} (h : CI env lt s)
    (hsc : Scoped env) (hnc : NoCatchEnv env) (hed : Redef env env' C RR)
    (hclean : ∀ c, C c → Clean s c)
    (hinp : ∀ n ∈ s.inputs, C n.1 → env'.cached n.1 = true ∧ env'.alive n.1 = true)
    (hobs : ∀ r, RR r → ∀ c ∈ env.observers r, Clean s c)
    (hrg : ∀ r, RR r → (env.refs r).isSome = true → NoRg s r) :
    CI env' lt s := by
  have hc : Clr s [] (fun _ => False) s := Clr.refl s _
  have hnil : ∀ x : GNode, x ∉ ([] : List GNode) := fun _ h => nomatch h
  -- a node of a redefined cells is an input element
  have surv : ∀ x ∈ s.gn, C x.cell → ∃ m, x = .elem m ∧ m ∈ s.inputs :=
    fun x hx hC => hclean _ hC x hx rfl
  have hflag : ∀ m, GNode.elem m ∈ s.gn → env'.cached m.1 = env.cached m.1 := by
    intro m hm
    by_cases hmC : C m.1
    · obtain ⟨m', hm', hin⟩ := surv _ hm hmC
      cases hm'
      rw [(hinp m hin hmC).1, h.gi.elemCached m hm]
    · exact hed.cached _ hmC
  refine ⟨h.gi.of_clr h.quiet.stack hc (fun m hm => hflag m hm), h.quiet, ?_, ?_, h.rgHeld⟩
  · refine cinv_clr hc h.certs ?_
    intro n v tr hl hin _ hcert
    have hheld : (lookup s.data n).isSome := by rw [hl]; rfl
    have hgn : GNode.elem n ∈ s.gn := (h.gi.heldNodes n hheld).1
    have hnC : ¬ C n.1 := by
      intro hnC
      obtain ⟨m', hm', hin'⟩ := surv _ hgn hnC
      cases hm'; exact hin hin'
    obtain ⟨f1, f2, f3⟩ := replay_facts env hsc hnc tr n.1 _ v hcert.replay (hsc n) (hnc n)
    -- no recorded read is of a reference that changes
    have hnoRead : ∀ c a r x, RR r → FEv.read c a r x ∉ flat n.1 tr := by
      intro c a r x hr hm
      have hok := hcert.events _ hm
      cases a with
      | false =>
        have hobsc := f2 c r x hm
        rcases flat_read_frame tr n.1 c false r x hm with rfl | ⟨m, hmu, rfl⟩
        · obtain ⟨m', hm', hin'⟩ := hobs r hr n.1 hobsc _ hgn rfl
          cases hm'; exact hin hin'
        · have hedge : (GNode.obj m.1, GNode.elem n) ∈ s.ge := hcert.events _ hmu
          obtain ⟨m', hm', _⟩ := hobs r hr m.1 hobsc _ (h.gi.edgeNodes _ _ hedge).1 rfl
          cases hm'
      | true =>
        cases x with
        | none => exact f3 c r hm
        | some w =>
          have hcur : env.refs r = some w := hok.1
          exact hrg r hr (by rw [hcur]; rfl) n (hok.2 rfl rfl)
    refine ⟨hed.formula n hnC, hed.allowNone _ hnC, ?_, fun _ _ _ _ hd => hd⟩
    intro ev hm
    have hok := hcert.events ev hm
    cases ev with
    | read c' a r x =>
      show env'.refs r = env.refs r
      apply hed.refs r
      intro hr
      exact hnoRead c' a r x hr hm
    | call m w =>
      obtain ⟨_, _, hedge⟩ := hok
      exact hflag m (h.gi.edgeNodes _ _ hedge).1
    | ucall m =>
      have hedge : (GNode.obj m.1, GNode.elem n) ∈ s.ge := hok
      have hmC : ¬ C m.1 := by
        intro hmC
        obtain ⟨m', hm', _⟩ := surv _ (h.gi.edgeNodes _ _ hedge).1 hmC
        cases hm'
      exact ⟨hed.cached _ hmC, hed.formula m hmC⟩
  · refine h.alive.of_clr hc h.quiet.stack ?_ ?_
    · intro x hx
      by_cases hxC : C x.cell
      · obtain ⟨m, rfl, hin⟩ := surv _ hx hxC
        exact ((hinp m hin hxC).2).trans (h.alive.nodes _ hx).symm
      · exact hed.alive _ hxC
    · intro c hcn
      by_cases hcC : C c
      · obtain ⟨m, hm, _⟩ := surv _ hcn hcC
        cases hm
      · exact hed.cached _ hcC

/-- definitions that agree in everything the invariant looks at -/
theorem ci_congr {s : Exec.St} (h : CI env lt s) (hsc : Scoped env) (hnc : NoCatchEnv env)
    (hf : env'.formula = env.formula) (hca : env'.cached = env.cached) (han : env'.allowNone = env.allowNone)
    (hal : env'.alive = env.alive) (hr : env'.refs = env.refs) : CI env' lt s :=
  redefine_ci (C := fun _ => False) (RR := fun _ => False) h hsc hnc
    ⟨fun n _ => by rw [hf], fun c _ => by rw [hca], fun c _ => by rw [han], fun c _ => by rw [hal],
     fun r _ => by rw [hr]⟩
    (fun _ h => h.elim) (fun _ _ h => h.elim) (fun _ h => h.elim) (fun _ h => h.elim)

/-! ## the primitives -/

theorem doClear_clr (env : Env) (s : Exec.St) (he : EdgeOK s) (k : Clear) :
    ∃ R D, Clr s R D (doClear env s k) := by
  cases k with
  | obj c => obtain ⟨R, h, _⟩ := clr_clearObj s (fun _ => False) he c; exact ⟨R, _, h⟩
  | ns L => obtain ⟨R, h, _⟩ := clr_notifyAll env s (fun _ => False) he L; exact ⟨R, _, h⟩
  | attr r => obtain ⟨R, h, _⟩ := clr_clearAttrReferrers s he r; exact ⟨R, _, h⟩
  | del c =>
    obtain ⟨R1, h1, _⟩ := clr_clearAllValues s (fun _ => False) he c true
    simp only [doClear]
    split
    · exact ⟨R1, _, h1⟩
    · obtain ⟨R2, h2, _⟩ := clr_clearObj (s.clearAllValues c true) (fun _ => False) (h1.edgeOK he) c
      exact ⟨R1 ++ R2, _, h1.trans h2⟩

/-- `clear_attr_referrers(r)` keeps the invariant (no recorded attribute-path read of a missing
reference: `NoCatchEnv`) -/
theorem clearAttrReferrers_ci {s : Exec.St} (h : CI env lt s) (hsc : Scoped env) (hnc : NoCatchEnv env)
    (r : RefId) : CI env lt (s.clearAttrReferrers r) := by
  obtain ⟨R, hc, hR⟩ := clr_clearAttrReferrers s h.gi.edgeOK r
  refine ⟨h.gi.of_clr h.quiet.stack hc (fun _ _ => rfl), h.quiet.of_clr hc, ?_,
    h.alive.of_clr hc h.quiet.stack (fun _ _ => rfl) (fun _ _ => rfl), h.rgHeld.of_clr hc⟩
  refine cinv_clr hc h.certs ?_
  intro n v tr hl hin hnR hcert
  have hheld : (lookup s.data n).isSome := by rw [hl]; rfl
  have hgn : GNode.elem n ∈ s.gn := (h.gi.heldNodes n hheld).1
  obtain ⟨_, _, f3⟩ := replay_facts env hsc hnc tr n.1 _ v hcert.replay (hsc n) (hnc n)
  refine ⟨rfl, rfl, fun ev _ => stable_refl env ev, ?_⟩
  intro c r' x hm hd
  have hnotReader : (r, n) ∉ s.rg := fun hrn => hnR (hR n hrn hgn)
  rcases hd with hd | hd
  · simp only at hd
    subst hd
    cases x with
    | none => exact f3 c r' hm
    | some w => exact hnotReader ((hcert.events _ hm).2 rfl rfl)
  · exact hnotReader hd

theorem notifyAll_ci {s : Exec.St} (h : CI env lt s) (L : List CellId) : CI env lt (s.notifyAll env L) :=
  batchEdit_ci L (fun _ => False) h ⟨fun _ _ => rfl, fun _ _ => rfl, fun _ _ => rfl, fun _ _ => rfl, rfl⟩
    (fun _ h => h.elim) (fun _ _ h => h.elim)

theorem doClear_ci {s : Exec.St} (h : CI env lt s) (hsc : Scoped env) (hnc : NoCatchEnv env) (k : Clear) :
    CI env lt (doClear env s k) := by
  cases k with
  | obj c => exact clearObj_ci h c
  | ns L => exact notifyAll_ci h L
  | attr r => exact clearAttrReferrers_ci h hsc hnc r
  | del c =>
    simp only [doClear]
    split
    · exact clearAllValues_ci h c true
    · exact clearObj_ci (clearAllValues_ci h c true) c

/-- after the notification of `L` every node of a notified cells is an input element -/
theorem notifyAll_clean {s : Exec.St} (h : CI env lt s) (L : List CellId) (c : CellId) (hc : c ∈ L) :
    Clean (s.notifyAll env L) c := by
  obtain ⟨R, hclr, hR⟩ := clr_notifyAll env s (fun _ => False) h.gi.edgeOK L
  intro x hx hxc
  obtain ⟨h1, h2⟩ := (hclr.mem_gn x).mp hx
  obtain ⟨m, rfl, hin⟩ := batch_survivor (C := fun c' => c' ∈ L) h hclr hR (fun c' hc' => Or.inl hc') x h1 h2
    (by rw [hxc]; exact hc)
  exact ⟨m, rfl, (hclr.mem_inputs m).mpr ⟨hin, h2⟩⟩

/-- the clearing of a deleted space's cells leaves no node -/
theorem del_noNodes {s : Exec.St} (h : CI env lt s) (c : CellId) : NoNodes (doClear env s (.del c)) c := by
  simp only [doClear]
  split
  · rename_i hca
    obtain ⟨R, hclr, hR⟩ := clr_clearAllValues s (fun _ => False) h.gi.edgeOK c true
    intro x hx hxc
    obtain ⟨h1, h2⟩ := (hclr.mem_gn x).mp hx
    cases x with
    | obj c' =>
      simp only [GNode.cell] at hxc
      subst hxc
      have := h.alive.objs _ h1
      rw [hca] at this; cases this
    | elem m =>
      simp only [GNode.cell] at hxc
      have hheld : (lookup s.data m).isSome := by
        rcases h.gi.nodesHeld m h1 with h' | h'
        · exact h'
        · rw [h.quiet.stack] at h'; cases h'
      exact h2 (hR m hxc hheld (Or.inl rfl) h1)
  · exact clearObj_noNodes _ (clearAllValues_ci h c true).gi.edgeOK c

/-- `clear_attr_referrers(r)` removes every reference-graph edge of `r` -/
theorem clearAttrReferrers_noRg (s : Exec.St) (r : RefId) : NoRg (s.clearAttrReferrers r) r := by
  unfold Exec.St.clearAttrReferrers
  simp only
  generalize (s.rg.filter (fun e => e.1 == r)).map (·.2) = readers
  have key : ∀ (l : List Node) (s0 : Exec.St), (∀ e ∈ s0.rg, e.1 ≠ r) →
      ∀ e ∈ (l.foldl (fun s n =>
        if s.gn.contains (.elem n) then
          ((s.removeNodes (s.descsWith (.elem n))).rgRemoveReferred (elemsOf (s.descsWith (.elem n)))).dropValues
            (elemsOf (s.descsWith (.elem n)))
        else s) s0).rg, e.1 ≠ r := by
    intro l
    induction l with
    | nil => intro s0 h0; exact h0
    | cons n l ih =>
      intro s0 h0
      simp only [List.foldl_cons]
      apply ih
      split
      · intro e he
        simp only [Exec.St.dropValues, Exec.St.rgRemoveReferred, Exec.St.removeNodes, List.mem_filter] at he
        exact h0 e he.1
      · exact h0
  intro n hn
  refine key readers _ ?_ (r, n) hn rfl
  intro e he
  simp only [List.mem_filter, Bool.and_eq_true, bne_iff_ne, ne_eq] at he
  exact he.2.1

/-! ## a list of primitives -/

/-- what the clearing `cl` has done to cells `c` / reference `r` -/
theorem doClears_facts (hsc : Scoped env) (hnc : NoCatchEnv env) : ∀ (cl : List Clear) (s : Exec.St),
    CI env lt s →
    CI env lt (doClears env s cl) ∧
    (∀ c, Clean s c → Clean (doClears env s cl) c) ∧
    (∀ c, NoNodes s c → NoNodes (doClears env s cl) c) ∧
    (∀ r, NoRg s r → NoRg (doClears env s cl) r) ∧
    (∀ c, touchedBy cl c = true → Clean (doClears env s cl) c) ∧
    (∀ c, clearedBy cl c = true → NoNodes (doClears env s cl) c) ∧
    (∀ r, Clear.attr r ∈ cl → NoRg (doClears env s cl) r) ∧
    (∀ m ∈ (doClears env s cl).inputs, m ∈ s.inputs) := by
  intro cl
  induction cl with
  | nil =>
    intro s h
    refine ⟨h, fun _ h => h, fun _ h => h, fun _ h => h, ?_, ?_, ?_, fun _ h => h⟩
    · intro c hc; simp [touchedBy] at hc
    · intro c hc; simp [clearedBy] at hc
    · intro r hr; cases hr
  | cons k cl ih =>
    intro s h
    have h1 := doClear_ci h hsc hnc k
    obtain ⟨R, D, hclr⟩ := doClear_clr env s h.gi.edgeOK k
    obtain ⟨i1, i2, i3, i4, i5, i6, i7, i8⟩ := ih (doClear env s k) h1
    show _ ∧ _ ∧ _ ∧ _ ∧ _ ∧ _ ∧ _ ∧ _
    simp only [doClears, List.foldl_cons]
    refine ⟨i1, fun c hc => i2 c (hc.of_clr hclr), fun c hc => i3 c (hc.of_clr hclr),
      fun r hr => i4 r (hr.of_clr hclr), ?_, ?_, ?_, fun m hm => ((hclr.mem_inputs m).mp (i8 m hm)).1⟩
    · intro c hc
      simp only [touchedBy, List.any_cons, Bool.or_eq_true] at hc
      rcases hc with hc | hc
      · apply i2
        cases k with
        | ns L =>
          simp only [List.contains_eq_mem, decide_eq_true_eq] at hc
          exact notifyAll_clean h L c hc
        | obj c' =>
          simp only [beq_iff_eq] at hc
          subst hc
          exact NoNodes.clean (clearObj_noNodes s h.gi.edgeOK c')
        | del c' =>
          simp only [beq_iff_eq] at hc
          subst hc
          exact (del_noNodes h c').clean
        | attr r => cases hc
      · exact i5 c hc
    · intro c hc
      simp only [clearedBy, List.any_cons, Bool.or_eq_true] at hc
      rcases hc with hc | hc
      · apply i3
        cases k with
        | ns L => cases hc
        | obj c' =>
          simp only [beq_iff_eq] at hc
          subst hc
          exact clearObj_noNodes s h.gi.edgeOK c'
        | del c' =>
          simp only [beq_iff_eq] at hc
          subst hc
          exact del_noNodes h c'
        | attr r => cases hc
      · exact i6 c hc
    · intro r hr
      simp only [List.mem_cons] at hr
      rcases hr with hr | hr
      · subst hr
        exact i4 r (clearAttrReferrers_noRg s r)
      · exact i7 r hr

end MxModel.Edit
