import MxModel.Proofs.CalcExec
/-!
# The valued cache erases to the value-free cache

Every primitive of the valued cache (`clearAtV`, `evalNodeV`, `setValueV`, the three actions, a whole
action list) commutes with forgetting the values: for every value domain and every valuation of the
formulas.  So which elements are held, pasted, cleared, computed never depends on a value.
-/
namespace MxModel.CalcSteps

variable {V : Type}

theorem foldl_erase {α : Type} (g : VCache V → α → VCache V) (h : Cache → α → Cache)
    (hgh : ∀ c x, (g c x).erase = h c.erase x) (l : List α) (c : VCache V) :
    (l.foldl g c).erase = l.foldl h c.erase := by
  induction l generalizing c with
  | nil => rfl
  | cons x xs ih => simp only [List.foldl_cons]; rw [ih, hgh]

theorem erase_clearAtV (n : Node) (c : VCache V) : (clearAtV n c).erase = clearAt n c.erase := by
  unfold clearAtV clearAt
  by_cases h : n ∈ c.data.map (·.1)
  · have h' : n ∈ c.erase.held := h
    rw [if_pos h, if_pos h']
    simp only [VCache.erase, List.filter_map]
    rfl
  · have h' : n ∉ c.erase.held := h
    rw [if_neg h, if_neg h']

theorem erase_enter (c : VCache V) (n : Node) : (c.enter n).erase = c.erase.enter n := rfl
theorem erase_addEdge (c : VCache V) (p n : Node) : (c.addEdge p n).erase = c.erase.addEdge p n := rfl
theorem erase_store (c : VCache V) (n : Node) (v : V) : (c.store n v).erase = c.erase.store n := by
  simp [VCache.erase, VCache.store, Cache.store]

theorem erase_evalNodeV (f : Node → List (Option V) → V) (preds : Node → List Node) :
    ∀ (fuel : Nat) (n : Node) (c : VCache V),
      (evalNodeV f preds fuel n c).erase = evalNode preds fuel n c.erase := by
  intro fuel
  induction fuel with
  | zero => intro n c; rfl
  | succ fuel ih =>
    intro n c
    unfold evalNodeV evalNode
    by_cases h : n ∈ c.data.map (·.1)
    · have h' : n ∈ c.erase.held := h
      rw [if_pos h, if_pos h']
    · have h' : n ∉ c.erase.held := h
      rw [if_neg h, if_neg h']
      simp only
      rw [erase_store, foldl_erase _ (fun c p => (evalNode preds fuel p c).addEdge p n)
        (fun c p => by rw [erase_addEdge, ih]), erase_enter]

theorem erase_setValueV (n : Node) (v : V) (c : VCache V) : (setValueV n v c).erase = setValue n c.erase := by
  unfold setValueV setValue
  simp only
  rw [← erase_clearAtV]
  simp [VCache.erase]

theorem erase_execActionV [Inhabited V] (f : Node → List (Option V) → V) (preds : Node → List Node)
    (fuel : Nat) (c : VCache V) (a : Action) :
    (execActionV f preds fuel c a).erase = execAction preds fuel c.erase a := by
  cases a with
  | doCalc ns =>
    exact foldl_erase _ (fun c n => evalNode preds fuel n c) (fun c n => erase_evalNodeV f preds fuel n c) ns c
  | doPaste ns =>
    simp only [execActionV, execAction]
    rw [foldl_erase _ (fun c n => setValue n c) (fun c n => erase_setValueV n _ c),
      foldl_erase _ (fun c n => evalNode preds fuel n c) (fun c n => erase_evalNodeV f preds fuel n c)]
  | doClear ns => exact foldl_erase _ (fun c n => clearAt n c) (fun c n => erase_clearAtV n c) ns c

theorem erase_executeV [Inhabited V] (f : Node → List (Option V) → V) (preds : Node → List Node)
    (fuel : Nat) (actions : List Action) (c : VCache V) :
    (executeV f preds fuel actions c).erase = execute preds fuel actions c.erase :=
  foldl_erase _ _ (fun c a => erase_execActionV f preds fuel c a) actions c

/-! ### values: assigning keeps the assigned value, clearing and evaluating change no held value -/

theorem value_append_of_not_mem (l : List (Node × V)) (n : Node) (v : V)
    (h : n ∉ l.map (·.1)) : ((l ++ [(n, v)]).find? (fun e => e.1 == n)).map (·.2) = some v := by
  induction l with
  | nil => simp
  | cons e es ih =>
    have hne : e.1 ≠ n := fun he => h (by simp [he])
    have : (e.1 == n) = false := by simpa using hne
    simp only [List.cons_append, List.find?_cons, this]
    exact ih (fun hm => h (by simp only [List.map_cons, List.mem_cons]; exact Or.inr hm))

/-- after `set_value_from_key(n, v)` the element holds `v` – every `v`, the distinguished `None` included -/
theorem setValueV_value (n : Node) (v : V) (c : VCache V) : (setValueV n v c).value n = some v := by
  unfold setValueV VCache.value
  simp only
  apply value_append_of_not_mem
  unfold clearAtV
  by_cases h : n ∈ c.data.map (·.1)
  · rw [if_pos h]
    simp only [List.mem_map, List.mem_filter, not_exists, not_and]
    intro e he hen
    have := self_mem_withDescs c.edges n
    rw [hen] at he
    simp [this] at he
  · rw [if_neg h]; exact h

end MxModel.CalcSteps
