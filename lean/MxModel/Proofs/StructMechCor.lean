import MxModel.Proofs.StructMechRun
/-!
# Consequences of `Inv` used by the property theorems (C03, C11, C12, C13)
-/
namespace MxModel.SM
open MxModel.C3

/-- a state reached from the empty model by any sequence of operations (rejected ones change nothing) -/
def Reachable (kw : List String) (st : St) : Prop := ∃ ops, st = St.run kw {} ops

theorem Reachable.inv {kw : List String} {st : St} (h : Reachable kw st) : Inv st := by
  obtain ⟨ops, rfl⟩ := h
  exact run_inv kw ops

theorem Reachable.step {kw : List String} {st : St} (h : Reachable kw st) (op : Op) :
    Reachable kw (st.step kw op).1 := by
  obtain ⟨ops, rfl⟩ := h
  refine ⟨ops ++ [op], ?_⟩
  unfold St.run
  rw [List.foldl_append]
  rfl

theorem Reachable.apply {kw : List String} {st st' : St} (h : Reachable kw st) (op : Op)
    (hop : st.apply kw op = some st') : Reachable kw st' := by
  have := h.step op
  unfold St.step at this
  rw [hop] at this
  exact this

/-- **the member table is the derivation from scratch**: what a space holds under a name is its own
definition if it has one, otherwise a derived copy of the first definition along the tail of its
linearisation, otherwise nothing -/
theorem Inv.mem_eq_derivation {st : St} (h : Inv st) (a : Attr) (q : Path) (n : String) :
    st.mem a q n =
      match st.defd a q n with
      | some v => some { derived := false, payload := v }
      | none => (st.firstDef a (st.tail q) n).map (fun d => { derived := true, payload := d.2 }) := by
  have hg := h.good a q n
  unfold Good1 at hg
  unfold St.defd
  cases hm : st.mem a q n with
  | none =>
    rw [hm] at hg
    simp [hg]
  | some m =>
    rw [hm] at hg
    obtain ⟨dv, pl⟩ := m
    cases dv with
    | false => simp
    | true =>
      obtain ⟨b, hb⟩ := hg rfl
      simp [hb]

/-- the names `definedNames` lists are the names with a definition -/
theorem mem_definedNames_iff {st : St} (hk : KeysOK st) (a : Attr) (b : Path) (n : String) :
    n ∈ st.definedNames a b ↔ (st.defd a b n).isSome = true := by
  constructor
  · intro hn
    unfold St.definedNames at hn
    unfold St.defd
    rw [St.mem_eq]
    have hkb := hk a b
    unfold St.cont at hkb ⊢
    cases hf : st.find b with
    | none => rw [hf] at hn; cases hn
    | some s =>
      rw [hf] at hn hkb
      simp only at hn hkb ⊢
      obtain ⟨e, he, hen⟩ := List.mem_filterMap.mp hn
      obtain ⟨k, m⟩ := e
      cases hd : m.derived with
      | true => simp [hd] at hen
      | false =>
        simp only [hd, Bool.false_eq_true, if_false, Option.some.injEq] at hen
        subst hen
        rw [mget_of_mem _ hkb k m he]
        simp [hd]
  · intro hs
    cases hd : st.defd a b n with
    | none => rw [hd] at hs; cases hs
    | some v => exact mem_definedNames st a b n v hd

/-! ## the base relation -/

/-- `b` is reachable from `q` along direct-base relations (one step or more) -/
inductive BaseReach (st : St) : Path → Path → Prop
  | base {q b : Path} : b ∈ st.basesOf q → BaseReach st q b
  | trans {q x b : Path} : BaseReach st q x → b ∈ st.basesOf x → BaseReach st q b

theorem WF.reach_mem_tail {st : St} (h : WF st) {q x : Path} (hr : BaseReach st q x) : x ∈ st.tail q := by
  induction hr with
  | base hb => exact h.bases_mem_tail _ _ hb
  | trans _ hb ih => exact h.tail_subset _ _ ih _ (h.bases_mem_tail _ _ hb)

theorem WF.acyclic {st : St} (h : WF st) (q : Path) : ¬ BaseReach st q q :=
  fun hr => h.not_mem_tail_self q (h.reach_mem_tail hr)

/-! ## deletion -/

theorem ids_delSpace (st st' : St) (p : Path) (hop : st.delSpace p = some st') (q : Path) :
    q ∈ st'.ids ↔ q ∈ st.ids ∧ isPrefix p q = false := by
  unfold St.delSpace at hop
  split at hop
  · cases hop
  · simp only at hop
    split at hop
    · cases hop
    · simp only [Option.some.injEq] at hop
      subst hop
      have hshape : ∀ (s : St) (ds : List Path), (s.updateAll ds).ids = s.ids := by
        intro s ds
        unfold St.updateAll
        induction ds generalizing s with
        | nil => rfl
        | cons d ds ih =>
          simp only [List.foldl_cons]
          rw [ih]
          unfold St.updateDerived
          rw [(shape_onInherit _ .refs d).ids, (shape_onInherit _ .cells d).ids]
      rw [hshape]
      have := mem_ids_without st (st.ids.filter (isPrefix p)) q
      unfold St.without stripBases at this
      rw [this]
      simp only [List.mem_filter, not_and, Bool.not_eq_true]
      constructor
      · rintro ⟨h1, h2⟩; exact ⟨h1, h2 h1⟩
      · rintro ⟨h1, h2⟩; exact ⟨h1, fun _ => h2⟩

theorem defd_delMember (st st' : St) (hk : KeysOK st) (a : Attr) (p : Path) (name : String)
    (hop : st.delMember a p name = some st') : st'.defd a p name = none := by
  unfold St.delMember at hop
  cases hm : st.mem a p name with
  | none => rw [hm] at hop; cases hop
  | some m =>
    rw [hm] at hop
    simp only at hop
    split at hop
    · cases hop
    · simp only [Option.some.injEq] at hop
      subst hop
      have R := rederived_updateAll (st.delMem a p name) (keysOK_delMem st hk a p name)
        (p :: (st.delMem a p name).subs p)
      rw [R.defs]
      unfold St.defd
      rw [mem_delMem]
      simp

end MxModel.SM
