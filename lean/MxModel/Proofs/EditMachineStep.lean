import MxModel.Proofs.EditMachineEnv
/-!
# A covered structural step keeps the certificate invariant

`redef_envOf`: between `envOf P t st` and `envOf P t st'` the only definitions that can differ are
those of the cells whose member entry differs or whose space's namespace differs (`ChC`), and the
values of the references whose entry differs (`ChR`).  `struct_ci`: if the Boolean check `covered`
holds, the clearing has made all of them `Clean` / reader-free, so `redefine_ci` applies.
-/
namespace MxModel.Edit
open MxModel.Exec MxModel.C02 MxModel.SM

/-- the cells whose definition can differ between the two structural states -/
def ChC (t : Tabs) (st st' : SM.St) (c : CellId) : Prop :=
  ∃ q x, t.cellOf c = some (q, x) ∧
    (st'.mem .cells q x ≠ st.mem .cells q x ∨
      ((st.mem .cells q x).isSome = true ∧ nsAt t st' q ≠ nsAt t st q))

/-- the references whose value can differ -/
def ChR (t : Tabs) (st st' : SM.St) (r : RefId) : Prop :=
  ∃ q x, t.refOf r = some (q, x) ∧ t.rid q x = r ∧ refPay t st' q x ≠ refPay t st q x

theorem cellInfo_of_cellOf (t : Tabs) (st : SM.St) (c : CellId) (q : Path) (x : String)
    (h : t.cellOf c = some (q, x)) :
    cellInfo t st c = if t.cid q x == c then (st.mem .cells q x).map (fun m => (q, x, m)) else none := by
  unfold cellInfo; rw [h]

theorem cellInfo_of_cellOf_none (t : Tabs) (st : SM.St) (c : CellId) (h : t.cellOf c = none) :
    cellInfo t st c = none := by
  unfold cellInfo; rw [h]

theorem redef_envOf (P : Params) (t : Tabs) (st st' : SM.St) :
    Redef (envOf P t st) (envOf P t st') (ChC t st st') (ChR t st st') := by
  have key : ∀ c, ¬ ChC t st st' c →
      cellInfo t st' c = cellInfo t st c ∧
      (∀ q x m, cellInfo t st c = some (q, x, m) → nsAt t st' q = nsAt t st q) := by
    intro c hc
    cases hd : t.cellOf c with
    | none =>
      rw [cellInfo_of_cellOf_none t st' c hd, cellInfo_of_cellOf_none t st c hd]
      exact ⟨rfl, fun _ _ _ h => nomatch h⟩
    | some e =>
      obtain ⟨q, x⟩ := e
      have hm : st'.mem .cells q x = st.mem .cells q x := by
        apply Classical.byContradiction
        intro hne
        exact hc ⟨q, x, hd, Or.inl hne⟩
      rw [cellInfo_of_cellOf t st' c q x hd, cellInfo_of_cellOf t st c q x hd, hm]
      refine ⟨rfl, ?_⟩
      intro q' x' m h
      split at h
      · simp only [Option.map_eq_some_iff, Prod.mk.injEq] at h
        obtain ⟨m', hm', rfl, rfl, rfl⟩ := h
        apply Classical.byContradiction
        intro hne
        exact hc ⟨_, _, hd, Or.inr ⟨by rw [hm']; rfl, hne⟩⟩
      · cases h
  refine ⟨?_, ?_, ?_, ?_, ?_⟩
  · intro n hn
    obtain ⟨h1, h2⟩ := key n.1 hn
    simp only [envOf, h1]
    cases hi : cellInfo t st n.1 with
    | none => rfl
    | some i =>
      obtain ⟨q, x, m⟩ := i
      simp only [h2 q x m hi]
  · intro c hc
    simp only [envOf, (key c hc).1]
  · intro c hc
    simp only [envOf, (key c hc).1]
  · intro c hc
    simp only [envOf, (key c hc).1]
  · intro r hr
    simp only [envOf]
    cases hd : t.refOf r with
    | none => rfl
    | some e =>
      obtain ⟨q, x⟩ := e
      simp only
      by_cases hrid : t.rid q x = r
      · have hm : refPay t st' q x = refPay t st q x := by
          apply Classical.byContradiction
          intro hne
          exact hr ⟨q, x, hd, hrid, hne⟩
        rw [hm]
      · have : (t.rid q x == r) = false := by simpa using hrid
        simp [this]

/-! ### reading the definitions -/

theorem alive_iff (P : Params) (t : Tabs) (st : SM.St) (c : CellId) :
    (envOf P t st).alive c = true ↔
      ∃ q x m, t.cellOf c = some (q, x) ∧ st.mem .cells q x = some m ∧ t.cid q x = c := by
  simp only [envOf]
  cases hd : t.cellOf c with
  | none =>
    rw [cellInfo_of_cellOf_none t st c hd]
    simp
  | some e =>
    obtain ⟨q, x⟩ := e
    rw [cellInfo_of_cellOf t st c q x hd]
    by_cases hcid : t.cid q x = c
    · have hb : (t.cid q x == c) = true := by simpa using hcid
      simp only [hb, if_true]
      cases hm : st.mem .cells q x with
      | none => simp [hm]
      | some m =>
        simp only [Option.map_some, Option.isSome_some, Option.some.injEq, Prod.mk.injEq, true_iff]
        exact ⟨q, x, m, ⟨rfl, rfl⟩, hm, hcid⟩
    · have hb : (t.cid q x == c) = false := by simpa using hcid
      simp only [hb, Bool.false_eq_true, if_false, Option.isSome_none, false_iff]
      rintro ⟨q', x', m', h1, _, h3⟩
      simp only [Option.some.injEq, Prod.mk.injEq] at h1
      obtain ⟨rfl, rfl⟩ := h1
      exact hcid h3

theorem cached_of_info (P : Params) (t : Tabs) (st : SM.St) (c : CellId) (q : Path) (x : String) (m : Member)
    (hd : t.cellOf c = some (q, x)) (hm : st.mem .cells q x = some m) (hcid : t.cid q x = c) :
    (envOf P t st).cached c = P.flagOf m.payload := by
  have hb : (t.cid q x == c) = true := by simpa using hcid
  simp only [envOf, cellInfo_of_cellOf t st c q x hd, hm, Option.map_some, hb, if_true]

theorem mem_cellsOf (t : Tabs) (st : SM.St) (q : Path) (x : String) (h : (st.mem .cells q x).isSome = true) :
    t.cid q x ∈ cellsOf t st q := by
  have := mem_keys_of_isSome st .cells q x h
  simp only [List.mem_map] at this
  obtain ⟨e, he, hx⟩ := this
  simp only [cellsOf, List.mem_map]
  exact ⟨e, he, by rw [hx]⟩

/-! ### the check -/

theorem nsPlain_none_of_not_mem (t : Tabs) (st : SM.St) (q : Path) (x : String) (h : x ∉ nsNames st q)
    (hg : x ∉ st.globals) : nsPlain t st q x = none := by
  simp only [nsNames, List.mem_append, not_or] at h
  obtain ⟨⟨h1, h2⟩, h3⟩ := h
  unfold nsPlain
  have c1 : (st.mem .cells q x).isSome = false := by
    cases hh : (st.mem .cells q x).isSome with
    | false => rfl
    | true => exact absurd (mem_keys_of_isSome st .cells q x hh) h1
  have c2 : (st.mem .refs q x).isSome = false := by
    cases hh : (st.mem .refs q x).isSome with
    | false => rfl
    | true => exact absurd (mem_keys_of_isSome st .refs q x hh) h2
  have c3 : (st.childNames q).contains x = false := by
    cases hh : (st.childNames q).contains x with
    | false => rfl
    | true => exact absurd (by simpa using hh) h3
  have c4 : st.globals.contains x = false := by
    cases hh : st.globals.contains x with
    | false => rfl
    | true => exact absurd (by simpa using hh) hg
  simp [c1, c2, c4, hg]

theorem sameNs_sound (t : Tabs) (st st' : SM.St) (q : Path) (h : sameNs t st st' q = true) :
    nsAt t st' q = nsAt t st q := by
  funext x
  cases hq : qualOf t q x with
  | some e => unfold nsAt; rw [hq]
  | none =>
    by_cases hx : x ∈ nsNames st q ++ nsNames st' q ++ st.globals ++ st'.globals
    · unfold sameNs at h
      rw [List.all_eq_true] at h
      have := h x hx
      rw [hq] at this
      simp only [Option.isSome_none, Bool.false_or, beq_iff_eq] at this
      exact this.symm
    · simp only [List.mem_append, not_or] at hx
      unfold nsAt
      rw [hq]
      simp only
      rw [nsPlain_none_of_not_mem t st q x hx.1.1.1 hx.1.2, nsPlain_none_of_not_mem t st' q x hx.1.1.2 hx.2]

/-- what the check says, as propositions -/
structure Covers (t : Tabs) (st st' : SM.St) (cl : List Clear) : Prop where
  ns : ∀ q x, (st.mem .cells q x).isSome = true → nsAt t st' q ≠ nsAt t st q → touchedBy cl (t.cid q x) = true
  cells : ∀ q x, (st.mem .cells q x).isSome = true → st'.mem .cells q x ≠ st.mem .cells q x →
    clearedBy cl (t.cid q x) = true
  refsNs : ∀ q x, st'.mem .refs q x ≠ st.mem .refs q x → ∀ c ∈ cellsOf t st q, touchedBy cl c = true
  refsAttr : ∀ q x, st'.mem .refs q x ≠ st.mem .refs q x → (st.mem .refs q x).isSome = true →
    Clear.attr (t.rid q x) ∈ cl

/-- the clauses `struct_ci` needs: namespaces, entries of cells, and the SLOTS (what `(space, name)`
denotes as a reference: the member, or the model-level reference behind it) -/
structure CoversG (t : Tabs) (st st' : SM.St) (cl : List Clear) : Prop where
  ns : ∀ q x, (st.mem .cells q x).isSome = true → nsAt t st' q ≠ nsAt t st q → touchedBy cl (t.cid q x) = true
  cells : ∀ q x, (st.mem .cells q x).isSome = true → st'.mem .cells q x ≠ st.mem .cells q x →
    clearedBy cl (t.cid q x) = true
  slotNs : ∀ q x, refPay t st' q x ≠ refPay t st q x → ∀ c ∈ cellsOf t st q, touchedBy cl c = true
  slotAttr : ∀ q x, refPay t st' q x ≠ refPay t st q x → (refPay t st q x).isSome = true →
    Clear.attr (t.rid q x) ∈ cl

theorem covered_sound (t : Tabs) (st st' : SM.St) (cl : List Clear) (h : covered t st st' cl = true) :
    Covers t st st' cl := by
  unfold covered at h
  rw [List.all_eq_true] at h
  refine ⟨?_, ?_, ?_, ?_⟩
  · intro q x hm hne
    have hq : q ∈ st.ids ++ st'.ids := List.mem_append_left _ (mem_ids_of_isSome st .cells q x hm)
    have := h q hq
    simp only [Bool.and_eq_true, Bool.or_eq_true] at this
    rcases this.1.1.1 with h1 | h1
    · exact absurd (sameNs_sound t st st' q h1) hne
    · rw [List.all_eq_true] at h1
      exact h1 _ (mem_cellsOf t st q x hm)
  · intro q x hm hne
    have hq : q ∈ st.ids ++ st'.ids := List.mem_append_left _ (mem_ids_of_isSome st .cells q x hm)
    have := h q hq
    simp only [Bool.and_eq_true, Bool.or_eq_true] at this
    have h2 := this.1.1.2
    rw [List.all_eq_true] at h2
    have hk := mem_keys_of_isSome st .cells q x hm
    simp only [List.mem_map] at hk
    obtain ⟨e, he, hx⟩ := hk
    have := h2 e he
    simp only [Bool.or_eq_true, beq_iff_eq] at this
    rw [hx] at this
    rcases this with h3 | h3
    · exact absurd h3 hne
    · exact h3
  · intro q x hne c hc
    have hsome : (st.mem .refs q x).isSome = true ∨ (st'.mem .refs q x).isSome = true := by
      cases h1 : st.mem .refs q x with
      | some m => exact Or.inl rfl
      | none =>
        cases h2 : st'.mem .refs q x with
        | some m => exact Or.inr rfl
        | none => rw [h1, h2] at hne; exact absurd rfl hne
    have hq : q ∈ st.ids ++ st'.ids := by
      rcases hsome with h1 | h1
      · exact List.mem_append_left _ (mem_ids_of_isSome st .refs q x h1)
      · exact List.mem_append_right _ (mem_ids_of_isSome st' .refs q x h1)
    have := h q hq
    simp only [Bool.and_eq_true] at this
    have h3 := this.1.2
    rw [List.all_eq_true] at h3
    have hx : x ∈ (conts st .refs q).map (·.1) ++ (conts st' .refs q).map (·.1) := by
      rcases hsome with h1 | h1
      · exact List.mem_append_left _ (mem_keys_of_isSome st .refs q x h1)
      · exact List.mem_append_right _ (mem_keys_of_isSome st' .refs q x h1)
    have := h3 x hx
    simp only [Bool.or_eq_true, beq_iff_eq, Bool.and_eq_true] at this
    rcases this with h4 | h4
    · exact absurd h4 hne
    · have h5 := h4.1
      rw [List.all_eq_true] at h5
      exact h5 c hc
  · intro q x hne hs
    have hq : q ∈ st.ids ++ st'.ids := List.mem_append_left _ (mem_ids_of_isSome st .refs q x hs)
    have := h q hq
    simp only [Bool.and_eq_true] at this
    have h3 := this.1.2
    rw [List.all_eq_true] at h3
    have hx : x ∈ (conts st .refs q).map (·.1) ++ (conts st' .refs q).map (·.1) :=
      List.mem_append_left _ (mem_keys_of_isSome st .refs q x hs)
    have := h3 x hx
    simp only [Bool.or_eq_true, beq_iff_eq, Bool.and_eq_true] at this
    rcases this with h4 | h4
    · exact absurd h4 hne
    · rcases h4.2 with h5 | h5
      · rw [Option.isNone_iff_eq_none] at h5
        rw [h5] at hs; cases hs
      · simpa using h5

variable {lt : Node → Node → Prop}

/-- **a structural edit whose clearing covers what changed keeps the certificate invariant**: the
clearing is performed under the old definitions, then the definitions are those of `st'` -/
theorem struct_ci (P : Params) {t : Tabs} {st st' : SM.St} {s : Exec.St} {cl : List Clear}
    (hw : WF (envOf P t st) lt) (hci : CI (envOf P t st) lt s) (hcov : CoversG t st st' cl) :
    CI (envOf P t st') lt (doClears (envOf P t st) s cl) := by
  obtain ⟨h1, _, _, _, hT, hCl, hA, _⟩ := doClears_facts hw.scoping hw.noCatch cl s hci
  refine redefine_ci h1 hw.scoping hw.noCatch (redef_envOf P t st st') ?_ ?_ ?_ ?_
  · -- every cells whose definition changes is clean
    intro c hc
    by_cases hal : (envOf P t st).alive c = true
    · obtain ⟨q, x, m, hd, hm, hcid⟩ := (alive_iff P t st c).mp hal
      obtain ⟨q', x', hd', hch⟩ := hc
      rw [hd] at hd'
      simp only [Option.some.injEq, Prod.mk.injEq] at hd'
      obtain ⟨rfl, rfl⟩ := hd'
      have hs : (st.mem .cells q x).isSome = true := by rw [hm]; rfl
      rcases hch with hch | ⟨_, hch⟩
      · have := hCl _ (hcov.cells q x hs hch)
        rw [hcid] at this
        exact this.clean
      · have := hT _ (hcov.ns q x hs hch)
        rw [hcid] at this
        exact this
    · have hal' : (envOf P t st).alive c = false := by simpa using hal
      exact (noNodes_of_dead h1 c hal').clean
  · -- a cells that keeps an input keeps its flag and its existence
    intro n hn hc
    have hheld := h1.gi.inputsHeld n hn
    have hgn := (h1.gi.heldNodes n hheld).1
    have hca := (h1.gi.heldNodes n hheld).2
    have hal := h1.alive.nodes _ hgn
    obtain ⟨q, x, m, hd, hm, hcid⟩ := (alive_iff P t st n.1).mp hal
    have hs : (st.mem .cells q x).isSome = true := by rw [hm]; rfl
    have hsame : st'.mem .cells q x = st.mem .cells q x := by
      apply Classical.byContradiction
      intro hne
      have := hCl _ (hcov.cells q x hs hne)
      rw [hcid] at this
      exact this _ hgn rfl
    refine ⟨?_, ?_⟩
    · rw [cached_of_info P t st' n.1 q x m hd (by rw [hsame, hm]) hcid, ← cached_of_info P t st n.1 q x m hd hm hcid]
      exact hca
    · exact (alive_iff P t st' n.1).mpr ⟨q, x, m, hd, by rw [hsame, hm], hcid⟩
  · -- the cells that can read a changed reference by name are clean
    intro r hr c hc
    obtain ⟨q, x, hd, _, hne⟩ := hr
    simp only [envOf, hd] at hc
    exact hT c (hcov.slotNs q x hne c hc)
  · -- a changed reference that existed has no recorded reader left
    intro r hr hs
    obtain ⟨q, x, hd, hrid, hne⟩ := hr
    have hs' : (refPay t st q x).isSome = true := by
      simp only [envOf, hd, hrid, beq_self_eq_true, if_true, Option.isSome_map] at hs
      exact hs
    have := hA _ (hcov.slotAttr q x hne hs')
    rw [hrid] at this
    exact this

end MxModel.Edit
