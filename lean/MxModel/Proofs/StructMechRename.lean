import MxModel.Proofs.StructMechLive
/-!
# What an accepted `renameCells` does to the definitions

`rename_cells` renames the cells of `p`, the copies derived from it, and - as the code does - the
overriding cells of that name in sub spaces (`St.renameTargets`); where a target other than `p` already
has a cells of the new name the old one is dropped.  On the definitions: in every target the definition
under `old` is gone and the definition under `new` is the one the target had under `new`, else the one
it had under `old`; nothing else changes.
-/
namespace MxModel.SM
open MxModel.C3

/-- the spaces `renameCells p old new` renames in: `p`, and the sub spaces whose cells `old` is their own
or derived from `p`'s -/
def St.renameTargets (st : St) (p : Path) (old : String) : List Path :=
  (p :: st.subs p).filter (fun q =>
    match st.mem .cells q old with
    | none => false
    | some m =>
      q == p || !m.derived ||
        (match st.firstDef .cells (st.tail q) old with
         | some (b, _) => b == p
         | none => false))

/-- the definitions of a target after the renaming -/
def renamedDef (st : St) (old new : String) (q : Path) (n : String) : Option Nat :=
  if n = old then none
  else if n = new then (if (st.mem .cells q new).isSome then st.defd .cells q new else st.defd .cells q old)
  else st.defd .cells q n

theorem defd_renameIn (s : St) (p : Path) (old new : String) (hon : old ≠ new) (q : Path) (mq : Member)
    (hm : s.mem .cells q old = some mq) (hpn : q = p → s.mem .cells q new = none)
    (a' : Attr) (q' : Path) (n : String) :
    (s.renameIn p old new q).defd a' q' n =
      if a' = .cells ∧ q' = q then renamedDef s old new q n else s.defd a' q' n := by
  have hq : q ∈ s.ids := mem_ids_of_mem_isSome s .cells q old (by rw [hm]; rfl)
  have hdold : s.defd .cells q old = if mq.derived then none else some mq.payload := by
    unfold St.defd; rw [hm]
  unfold St.renameIn
  rw [hm]
  simp only
  by_cases hc : a' = .cells ∧ q' = q
  · obtain ⟨rfl, rfl⟩ := hc
    simp only [and_self, if_true]
    unfold renamedDef
    split
    · rename_i hcond
      simp only [Bool.and_eq_true, bne_iff_ne, ne_eq] at hcond
      unfold St.defd
      rw [mem_delMem]
      by_cases h1 : n = old
      · simp [h1]
      · simp only [h1, and_false, if_false]
        by_cases h2 : n = new
        · subst h2; simp [hcond.2]
        · simp only [h2, if_false]
    · rename_i hcond
      have hq' : q' ∈ (s.delMem .cells q' old).ids := by rw [(shape_delMem s .cells q' old).ids]; exact hq
      have hnew : (s.mem .cells q' new).isSome = false := by
        by_cases hqp : q' = p
        · rw [hpn hqp]; rfl
        · cases hx : (s.mem .cells q' new).isSome with
          | false => rfl
          | true =>
            exfalso; apply hcond
            simp [hqp, hx]
      unfold St.defd
      rw [mem_setMem _ _ _ _ _ hq', mem_delMem]
      by_cases h1 : n = old
      · subst h1
        have : ¬ n = new := hon
        simp [this]
      · by_cases h2 : n = new
        · subst h2
          simp only [true_and, and_self, if_true, h1, if_false, hnew, Bool.false_eq_true]
          rw [← hdold]; unfold St.defd; rw [hm]
        · simp only [h1, h2, and_false, if_false]
  · simp only [hc, if_false]
    have hc' : ¬ (q' = q ∧ a' = Attr.cells) := fun h' => hc ⟨h'.2, h'.1⟩
    split
    · unfold St.defd
      rw [mem_delMem]
      have : ¬ (q' = q ∧ a' = Attr.cells ∧ n = old) := fun h' => hc' ⟨h'.1, h'.2.1⟩
      simp [this]
    · have hq' : q ∈ (s.delMem .cells q old).ids := by rw [(shape_delMem s .cells q old).ids]; exact hq
      unfold St.defd
      rw [mem_setMem _ _ _ _ _ hq', mem_delMem]
      have h1 : ¬ (q' = q ∧ a' = Attr.cells ∧ n = old) := fun h' => hc' ⟨h'.1, h'.2.1⟩
      have h2 : ¬ (q' = q ∧ a' = Attr.cells ∧ n = new) := fun h' => hc' ⟨h'.1, h'.2.1⟩
      simp [h1, h2]

theorem mem_renameIn_other (s : St) (p : Path) (old new : String) (q q' : Path) (n : String) (h : q' ≠ q) :
    (s.renameIn p old new q).mem .cells q' n = s.mem .cells q' n := by
  rw [St.mem_eq, St.mem_eq, cont_renameIn_other s p old new q .cells q' (fun h' => h h'.2)]

theorem defd_renameFold (p : Path) (old new : String) (hon : old ≠ new) : ∀ (T : List Path) (s : St),
    T.Nodup → (∀ q ∈ T, (s.mem .cells q old).isSome = true) → (p ∈ T → s.mem .cells p new = none) →
    ∀ a' q' n, (T.foldl (fun s q => s.renameIn p old new q) s).defd a' q' n =
      if a' = .cells ∧ q' ∈ T then renamedDef s old new q' n else s.defd a' q' n := by
  intro T
  induction T with
  | nil => intro s _ _ _ a' q' n; simp
  | cons t T ih =>
    intro s hnd hold hpn a' q' n
    simp only [List.nodup_cons] at hnd
    simp only [List.foldl_cons]
    cases hmt : s.mem .cells t old with
    | none =>
      have := hold t (by simp)
      rw [hmt] at this; cases this
    | some mq =>
      have hstep := defd_renameIn s p old new hon t mq hmt (fun e => by subst e; exact hpn (by simp))
      have hold' : ∀ q ∈ T, ((s.renameIn p old new t).mem .cells q old).isSome = true := by
        intro q hq
        rw [mem_renameIn_other s p old new t q old (fun e => hnd.1 (e ▸ hq))]
        exact hold q (List.mem_cons_of_mem _ hq)
      have hpn' : p ∈ T → (s.renameIn p old new t).mem .cells p new = none := by
        intro hp
        rw [mem_renameIn_other s p old new t p new (fun e => hnd.1 (e ▸ hp))]
        exact hpn (List.mem_cons_of_mem _ hp)
      rw [ih (s.renameIn p old new t) hnd.2 hold' hpn' a' q' n]
      by_cases hc : a' = .cells ∧ q' ∈ T
      · obtain ⟨rfl, hq'⟩ := hc
        have hne : q' ≠ t := fun e => hnd.1 (e ▸ hq')
        have hmem : q' ∈ t :: T := List.mem_cons_of_mem _ hq'
        simp only [true_and, hq', hmem, if_true]
        unfold renamedDef
        rw [mem_renameIn_other s p old new t q' new hne]
        have hd : ∀ m, (s.renameIn p old new t).defd .cells q' m = s.defd .cells q' m := by
          intro m
          rw [hstep .cells q' m]
          simp [hne]
        rw [hd new, hd old, hd n]
      · simp only [hc, if_false]
        rw [hstep a' q' n]
        by_cases hc2 : a' = .cells ∧ q' = t
        · obtain ⟨rfl, rfl⟩ := hc2
          simp
        · have : ¬ (a' = .cells ∧ q' ∈ t :: T) := by
            rintro ⟨h1, h2⟩
            rcases List.mem_cons.mp h2 with h2 | h2
            · exact hc2 ⟨h1, h2⟩
            · exact hc ⟨h1, h2⟩
          simp only [hc2, this, if_false]

theorem subs_nodup (st : St) (h : st.ids.Nodup) (p : Path) : (p :: st.subs p).Nodup := by
  simp only [List.nodup_cons]
  refine ⟨fun hp => ((mem_subs p p).mp hp).2.1 rfl, ?_⟩
  unfold St.subs
  exact h.sublist List.filter_sublist

/-- **an accepted `renameCells p old new`**, completely: the spaces, bases and model-level references stay;
in every target the definition under `old` is gone and the one under `new` is the target's own `new` if
it had one, else what it had under `old`; every other definition stays -/
theorem renameCells_full (kw : List String) (st st' : St) (h : Inv st) (p : Path) (old new : String)
    (hop : st.renameCells kw p old new = some st') :
    Shape st st' ∧ ∀ a q n, st'.defd a q n =
      if a = .cells ∧ q ∈ st.renameTargets p old then renamedDef st old new q n else st.defd a q n := by
  have hspec := (renameCells_spec kw st st' h.wf.keys p old new hop).1
  refine ⟨hspec, ?_⟩
  unfold St.renameCells at hop
  cases hm : st.mem .cells p old with
  | none => rw [hm] at hop; cases hop
  | some m =>
    rw [hm] at hop
    simp only at hop
    split at hop
    · cases hop
    · split at hop
      · cases hop
      · rename_i hca
        split at hop
        · cases hop
        · simp only [Option.some.injEq] at hop
          subst hop
          have hp : p ∈ st.ids := mem_ids_of_mem_isSome st .cells p old (by rw [hm]; rfl)
          have hpne : p ≠ [] := (h.wf.tree p hp).1
          have hca' : st.canAdd p new .cells = true := of_not_not_true hca
          have hpnew : st.mem .cells p new = none := by
            unfold St.canAdd at hca'
            have hpb : (p == []) = false := by simpa using hpne
            simp only [hpb, Bool.false_eq_true, if_false] at hca'
            split at hca'
            · cases hca'
            · rename_i hk0
              have hkp : st.kindOf p new = none := by
                cases hk : st.kindOf p new with
                | none => rfl
                | some _ => rw [hk] at hk0; simp at hk0
              exact (kindOf_none st p new hkp).1
          have hon : old ≠ new := by
            rintro rfl
            rw [hpnew] at hm; cases hm
          have hTnd : (st.renameTargets p old).Nodup := (subs_nodup st h.wf.nodup p).sublist List.filter_sublist
          have hTold : ∀ q ∈ st.renameTargets p old, (st.mem .cells q old).isSome = true := by
            intro q hq
            unfold St.renameTargets at hq
            have := (List.mem_filter.mp hq).2
            cases hmq : st.mem .cells q old with
            | none => rw [hmq] at this; cases this
            | some _ => rfl
          have hfold := defd_renameFold p old new hon (st.renameTargets p old) st hTnd hTold (fun _ => hpnew)
          have RN := renamed_foldl p old new (st.renameTargets p old) st h.wf.keys
          generalize hT : (p :: st.subs p).filter _ = T
          have hTe : T = st.renameTargets p old := by rw [← hT]; rfl
          subst hTe
          intro a q n
          have R := rederived_updateAll
            ((st.renameTargets p old).foldl (fun s q => s.renameIn p old new q) st) RN.keys
            (((st.renameTargets p old).foldl (fun s q => s.renameIn p old new q) st).subs p)
          rw [R.defs a q n]
          exact hfold a q n

end MxModel.SM
