import MxModel.Proofs.EditMachineClear
import MxModel.Proofs.StructMechRun
/-!
# The definitions read off the structural state: identities, growth of the tables, coverage

* `AllocOK t st`: every member of `st` has an identity; `Tabs.grow` establishes it and only appends
  (`Ext`); the definitions `envOf P t st` do not change when identities of non-members are added
  (`envOf_grow`).
* `covered_sound`: if the Boolean check `Edit.covered` holds for the states before / after a structural
  edit and the clearing list, then after the clearing every definition that differs between
  `envOf P t st` and `envOf P t st'` belongs to a cells that is `Clean` / a reference without readers –
  the premises of `redefine_ci`.
* `struct_ci`: a covered structural step keeps the certificate invariant.
-/
namespace MxModel.Edit
open MxModel.Exec MxModel.C02 MxModel.SM

/-! ## tables -/

theorem addAll_spec (l : List (Path × String)) : ∀ tab : List (Path × String),
    ∃ l', addAll tab l = tab ++ l' ∧ (∀ e ∈ l', e ∉ tab) ∧ (∀ e ∈ l, e ∈ addAll tab l) := by
  induction l with
  | nil => intro tab; exact ⟨[], by simp [addAll], (fun _ h => nomatch h), (fun _ h => nomatch h)⟩
  | cons a l ih =>
    intro tab
    have hstep : addAll tab (a :: l) = addAll (if tab.contains a then tab else tab ++ [a]) l := by
      simp [addAll]
    rw [hstep]
    by_cases ha : tab.contains a = true
    · simp only [ha, if_true]
      obtain ⟨l', h1, h2, h3⟩ := ih tab
      refine ⟨l', h1, h2, ?_⟩
      intro e he
      simp only [List.mem_cons] at he
      rcases he with rfl | he
      · rw [h1]; exact List.mem_append_left _ (by simpa using ha)
      · exact h3 e he
    · simp only [ha, if_false, Bool.false_eq_true]
      obtain ⟨l', h1, h2, h3⟩ := ih (tab ++ [a])
      refine ⟨a :: l', by rw [h1]; simp, ?_, ?_⟩
      · intro e he
        simp only [List.mem_cons] at he
        rcases he with rfl | he
        · simpa using ha
        · exact fun hc => h2 e he (List.mem_append_left _ hc)
      · intro e he
        simp only [List.mem_cons] at he
        rcases he with rfl | he
        · rw [h1]; simp
        · exact h3 e he

/-- `t'` has the identities of `t` and more, none of them for a pair `t` knows -/
structure Ext (t t' : Tabs) : Prop where
  cells : ∃ l, t'.ctab = t.ctab ++ l ∧ ∀ e ∈ l, e ∉ t.ctab
  refs : ∃ l, t'.rtab = t.rtab ++ l ∧ ∀ e ∈ l, e ∉ t.rtab
  slots : t'.slots = t.slots
  gv : t'.gv = t.gv
  spell : t'.spell = t.spell

theorem ext_grow (t : Tabs) (st : SM.St) : Ext t (t.grow st) := by
  obtain ⟨l1, h1, h2, _⟩ := addAll_spec (cellMembers st) t.ctab
  obtain ⟨l2, h3, h4, _⟩ := addAll_spec (refMembers st) t.rtab
  obtain ⟨l3, h5, h6, _⟩ := addAll_spec (globalSlots st) (addAll t.rtab (refMembers st))
  refine ⟨⟨l1, h1, h2⟩, ⟨l2 ++ l3, ?_, ?_⟩, rfl, rfl, rfl⟩
  · show addAll (addAll t.rtab (refMembers st)) (globalSlots st) = _
    rw [h5, h3, List.append_assoc]
  · intro e he
    rcases List.mem_append.mp he with he | he
    · exact h4 e he
    · exact fun hc => h6 e he (by rw [h3]; exact List.mem_append_left _ hc)

theorem conts_eq_cont (st : SM.St) (a : Attr) (q : Path) : conts st a q = st.cont a q := rfl

theorem mem_conts (st : SM.St) (a : Attr) (q : Path) (n : String) : st.mem a q n = mget (conts st a q) n :=
  St.mem_eq st a q n

theorem mem_keys_of_isSome (st : SM.St) (a : Attr) (q : Path) (n : String) (h : (st.mem a q n).isSome = true) :
    n ∈ (conts st a q).map (·.1) := by
  rw [mem_conts] at h
  exact (mget_isSome_iff _ n).mp h

theorem isSome_of_mem_keys (st : SM.St) (a : Attr) (q : Path) (n : String) (h : n ∈ (conts st a q).map (·.1)) :
    (st.mem a q n).isSome = true := by
  rw [mem_conts]
  exact (mget_isSome_iff _ n).mpr h

theorem mem_ids_of_isSome (st : SM.St) (a : Attr) (q : Path) (n : String) (h : (st.mem a q n).isSome = true) :
    q ∈ st.ids := by
  apply Classical.byContradiction
  intro hq
  rw [St.mem_of_not_mem st a q n hq] at h; cases h

theorem mem_cellMembers (st : SM.St) (q : Path) (n : String) (h : (st.mem .cells q n).isSome = true) :
    (q, n) ∈ cellMembers st := by
  have hk := mem_keys_of_isSome st .cells q n h
  unfold conts at hk
  cases hf : st.find q with
  | none => rw [hf] at hk; simp at hk
  | some s =>
    rw [hf] at hk
    obtain ⟨hs, hid⟩ := find_some_mem st q s hf
    simp only [Space.get, List.mem_map] at hk
    obtain ⟨e, he, hen⟩ := hk
    simp only [cellMembers, List.mem_flatMap, List.mem_map]
    exact ⟨s, hs, e, he, by rw [hid, hen]⟩

theorem mem_refMembers (st : SM.St) (q : Path) (n : String) (h : (st.mem .refs q n).isSome = true) :
    (q, n) ∈ refMembers st := by
  have hk := mem_keys_of_isSome st .refs q n h
  unfold conts at hk
  cases hf : st.find q with
  | none => rw [hf] at hk; simp at hk
  | some s =>
    rw [hf] at hk
    obtain ⟨hs, hid⟩ := find_some_mem st q s hf
    simp only [Space.get, List.mem_map] at hk
    obtain ⟨e, he, hen⟩ := hk
    simp only [refMembers, List.mem_flatMap, List.mem_map]
    exact ⟨s, hs, e, he, by rw [hid, hen]⟩

/-- every member has an identity -/
structure AllocOK (t : Tabs) (st : SM.St) : Prop where
  cells : ∀ q n, (st.mem .cells q n).isSome = true → (q, n) ∈ t.ctab
  refs : ∀ q x, (st.mem .refs q x).isSome = true → (q, x) ∈ t.rtab
  /-- the slots through which a model-level reference is seen -/
  gslots : ∀ q x, q ∈ st.ids → x ∈ st.globals → (q, x) ∈ t.rtab
  /-- the declared attribute slots -/
  slots : ∀ e ∈ t.slots, e ∈ t.rtab

theorem allocOK_grow (t : Tabs) (st : SM.St) (hs : ∀ e ∈ t.slots, e ∈ t.rtab) : AllocOK (t.grow st) st := by
  obtain ⟨_, _, _, h3⟩ := addAll_spec (cellMembers st) t.ctab
  obtain ⟨l2, h4, _, h6⟩ := addAll_spec (refMembers st) t.rtab
  obtain ⟨l3, h7, _, h9⟩ := addAll_spec (globalSlots st) (addAll t.rtab (refMembers st))
  have hsub : ∀ e, e ∈ addAll t.rtab (refMembers st) → e ∈ (t.grow st).rtab := by
    intro e he
    show e ∈ addAll (addAll t.rtab (refMembers st)) (globalSlots st)
    rw [h7]; exact List.mem_append_left _ he
  refine ⟨fun q n h => h3 _ (mem_cellMembers st q n h), fun q x h => hsub _ (h6 _ (mem_refMembers st q x h)), ?_, ?_⟩
  · intro q x hq hx
    apply h9
    simp only [globalSlots, List.mem_flatMap, List.mem_map]
    exact ⟨q, hq, x, hx, rfl⟩
  · intro e he
    apply hsub
    rw [h4]; exact List.mem_append_left _ (hs e he)

theorem allocOK_empty : AllocOK {} ({} : SM.St) := by
  refine ⟨?_, ?_, ?_, ?_⟩
  · intro q n h
    rw [St.mem_of_not_mem _ _ q n (by simp [St.ids])] at h
    cases h
  · intro q n h
    rw [St.mem_of_not_mem _ _ q n (by simp [St.ids])] at h
    cases h
  · intro q x hq _
    simp [St.ids] at hq
  · intro e he
    cases he

theorem allocOK_init (slots : List (Path × String)) : AllocOK (W.init slots).tabs ({} : SM.St) := by
  refine ⟨?_, ?_, ?_, ?_⟩
  · intro q n h
    rw [St.mem_of_not_mem _ _ q n (by simp [St.ids])] at h
    cases h
  · intro q n h
    rw [St.mem_of_not_mem _ _ q n (by simp [St.ids])] at h
    cases h
  · intro q x hq _
    simp [St.ids] at hq
  · intro e he
    exact he

theorem ids_of_has (st : SM.St) (q : Path) (h : st.has q = true) : q ∈ st.ids := by
  apply Classical.byContradiction
  intro hq
  unfold St.has at h
  rw [(find_none_iff st q).mpr hq] at h
  cases h

/-- a slot that denotes a reference has an identity -/
theorem AllocOK.pay {t : Tabs} {st : SM.St} (ha : AllocOK t st) (q : Path) (x : String)
    (h : (refPay t st q x).isSome = true) : (q, x) ∈ t.rtab := by
  unfold refPay at h
  cases hm : st.mem .refs q x with
  | some m => exact ha.refs q x (by rw [hm]; rfl)
  | none =>
    rw [hm] at h
    simp only at h
    split at h
    · rename_i hc
      simp only [Bool.and_eq_true] at hc
      unfold gpay at h
      split at h
      · rename_i hg
        apply ha.gslots q x
        · apply Classical.byContradiction
          intro hq
          have h1 := hc.1
          unfold St.has at h1
          rw [(find_none_iff st q).mpr hq] at h1
          cases h1
        · simpa using hg
      · cases h
    · cases h

/-! ### decoding -/

theorem getElem?_idxOf_of_mem {l : List (Path × String)} {e : Path × String} (h : e ∈ l) :
    l[l.idxOf e]? = some e := by
  have hlt : l.idxOf e < l.length := List.idxOf_lt_length_iff.mpr h
  rw [List.getElem?_eq_getElem hlt, List.getElem_idxOf hlt]

theorem cellOf_cid (t : Tabs) (q : Path) (n : String) (h : (q, n) ∈ t.ctab) : t.cellOf (t.cid q n) = some (q, n) :=
  getElem?_idxOf_of_mem h

theorem refOf_rid (t : Tabs) (q : Path) (x : String) (h : (q, x) ∈ t.rtab) : t.refOf (t.rid q x) = some (q, x) :=
  getElem?_idxOf_of_mem h

theorem idxOf_ext {l l' : List (Path × String)} {e : Path × String} (h : e ∈ l) :
    (l ++ l').idxOf e = l.idxOf e := by
  rw [List.idxOf_append, if_pos h]

theorem Ext.cid {t t' : Tabs} (h : Ext t t') (q : Path) (n : String) (hm : (q, n) ∈ t.ctab) :
    t'.cid q n = t.cid q n := by
  obtain ⟨l, h1, _⟩ := h.cells
  unfold Tabs.cid
  rw [h1, idxOf_ext hm]

theorem Ext.rid {t t' : Tabs} (h : Ext t t') (q : Path) (x : String) (hm : (q, x) ∈ t.rtab) :
    t'.rid q x = t.rid q x := by
  obtain ⟨l, h1, _⟩ := h.refs
  unfold Tabs.rid
  rw [h1, idxOf_ext hm]

/-- an identity `t'` has and `t` lacks is of a pair `t` does not know -/
theorem getElem?_ext {l l' : List (Path × String)} (c : Nat) :
    (l ++ l')[c]? = l[c]? ∨ (l[c]? = none ∧ ∀ e, (l ++ l')[c]? = some e → e ∈ l') := by
  by_cases hc : c < l.length
  · exact Or.inl (List.getElem?_append_left hc)
  · right
    have hge : l.length ≤ c := Nat.le_of_not_lt hc
    refine ⟨List.getElem?_eq_none hge, ?_⟩
    intro e he
    rw [List.getElem?_append_right hge] at he
    exact List.mem_of_getElem? he

/-! ## the definitions do not depend on identities of non-members -/

theorem nsPlain_ext {t t' : Tabs} (h : Ext t t') {st : SM.St} (ha : AllocOK t st) (q : Path) (hq : q ∈ st.ids) :
    nsPlain t' st q = nsPlain t st q := by
  funext x
  unfold nsPlain
  by_cases hc : (st.mem .cells q x).isSome = true
  · simp only [hc, if_true, h.cid q x (ha.cells q x hc)]
  · simp only [hc, Bool.false_eq_true, if_false]
    by_cases hg : st.globals.contains x = true
    · simp only [hg, if_true]
      rw [h.rid q x (ha.gslots q x hq (by simpa using hg))]
    · simp only [hg, Bool.false_eq_true, if_false]
      by_cases hch : (st.childNames q).contains x = true
      · simp only [hch, if_true]
      · simp only [hch, Bool.false_eq_true, if_false]
        by_cases hr : (st.mem .refs q x).isSome = true
        · simp only [hr, if_true, h.rid q x (ha.refs q x hr)]
        · simp only [hr, Bool.false_eq_true, if_false]

theorem qualOf_ext {t t' : Tabs} (h : Ext t t') (q : Path) (x : String) : qualOf t' q x = qualOf t q x := by
  unfold qualOf; rw [h.slots, h.spell]

theorem slotBinding_ext {t t' : Tabs} (h : Ext t t') {st : SM.St} (ha : AllocOK t st) (e : Path × String)
    (he : e ∈ t.slots) : slotBinding t' e = slotBinding t e := by
  unfold slotBinding
  rw [h.rid e.1 e.2 (ha.slots e he)]

theorem nsAt_ext {t t' : Tabs} (h : Ext t t') {st : SM.St} (ha : AllocOK t st) (q : Path) (hq : q ∈ st.ids) :
    nsAt t' st q = nsAt t st q := by
  funext x
  unfold nsAt
  rw [qualOf_ext h]
  cases hx : qualOf t q x with
  | some e => exact slotBinding_ext h ha e (List.mem_of_find?_eq_some hx)
  | none => simp only [nsPlain_ext h ha q hq]

theorem refPay_ext {t t' : Tabs} (h : Ext t t') (st : SM.St) (q : Path) (x : String) :
    refPay t' st q x = refPay t st q x := by
  unfold refPay gpay
  rw [h.gv]

theorem cellInfo_ext {t t' : Tabs} (h : Ext t t') {st : SM.St} (ha : AllocOK t st) (c : CellId) :
    cellInfo t' st c = cellInfo t st c := by
  obtain ⟨l, h1, h2⟩ := h.cells
  unfold cellInfo Tabs.cellOf
  rw [h1]
  rcases getElem?_ext (l := t.ctab) (l' := l) c with he | ⟨hn, he⟩
  · rw [he]
    cases hc : t.ctab[c]? with
    | none => rfl
    | some e =>
      obtain ⟨q, x⟩ := e
      simp only
      rw [h.cid q x (List.mem_of_getElem? hc)]
  · rw [hn]
    cases hc : (t.ctab ++ l)[c]? with
    | none => rfl
    | some e =>
      obtain ⟨q, x⟩ := e
      have hnot : (q, x) ∉ t.ctab := h2 _ (he _ hc)
      have : st.mem .cells q x = none := by
        cases hm : st.mem .cells q x with
        | none => rfl
        | some m => exact absurd (ha.cells q x (by rw [hm]; rfl)) hnot
      simp [this]

theorem cellsOf_ext {t t' : Tabs} (h : Ext t t') {st : SM.St} (ha : AllocOK t st) (q : Path) :
    cellsOf t' st q = cellsOf t st q := by
  unfold cellsOf
  apply List.map_congr_left
  intro e he
  apply h.cid
  apply ha.cells
  exact isSome_of_mem_keys st .cells q e.1 (List.mem_map_of_mem he)

theorem refsOf_ext {t t' : Tabs} (h : Ext t t') {st : SM.St} (ha : AllocOK t st) (q : Path) :
    refsOf t' st q = refsOf t st q := by
  unfold refsOf
  apply List.map_congr_left
  intro e he
  apply h.rid
  apply ha.refs
  exact isSome_of_mem_keys st .refs q e.1 (List.mem_map_of_mem he)

theorem envOf_ext_formula (P : Params) {t t' : Tabs} (h : Ext t t') {st : SM.St} (ha : AllocOK t st) :
    (envOf P t' st).formula = (envOf P t st).formula := by
  funext n
  simp only [envOf, cellInfo_ext h ha]
  cases hi : cellInfo t st n.1 with
  | none => rfl
  | some i =>
    obtain ⟨q, x, m⟩ := i
    simp only
    have hq : q ∈ st.ids := by
      unfold cellInfo at hi
      split at hi
      · rename_i q' x' _
        split at hi
        · simp only [Option.map_eq_some_iff, Prod.mk.injEq] at hi
          obtain ⟨m', hm', rfl, rfl, rfl⟩ := hi
          exact mem_ids_of_isSome st .cells _ _ (by rw [hm']; rfl)
        · cases hi
      · cases hi
    rw [nsAt_ext h ha q hq]

theorem envOf_ext_cached (P : Params) {t t' : Tabs} (h : Ext t t') {st : SM.St} (ha : AllocOK t st) :
    (envOf P t' st).cached = (envOf P t st).cached := by
  funext n
  simp only [envOf, cellInfo_ext h ha]

theorem envOf_ext_allowNone (P : Params) {t t' : Tabs} (h : Ext t t') {st : SM.St} (ha : AllocOK t st) :
    (envOf P t' st).allowNone = (envOf P t st).allowNone := by
  funext n
  simp only [envOf, cellInfo_ext h ha]

theorem envOf_ext_alive (P : Params) {t t' : Tabs} (h : Ext t t') {st : SM.St} (ha : AllocOK t st) :
    (envOf P t' st).alive = (envOf P t st).alive := by
  funext c
  simp only [envOf, cellInfo_ext h ha]

theorem envOf_ext_refs (P : Params) {t t' : Tabs} (h : Ext t t') {st : SM.St} (ha : AllocOK t st) :
    (envOf P t' st).refs = (envOf P t st).refs := by
  funext r
  obtain ⟨l, h1, h2⟩ := h.refs
  simp only [envOf, Tabs.refOf]
  rw [h1]
  rcases getElem?_ext (l := t.rtab) (l' := l) r with he | ⟨hn, he⟩
  · rw [he]
    cases hr : t.rtab[r]? with
    | none => rfl
    | some e =>
      obtain ⟨q, x⟩ := e
      simp only
      have hmem : (q, x) ∈ t.rtab := List.mem_of_getElem? hr
      have : t'.rid q x = t.rid q x := h.rid q x hmem
      rw [this, refPay_ext h]
  · rw [hn]
    cases hc : (t.rtab ++ l)[r]? with
    | none => rfl
    | some e =>
      obtain ⟨q, x⟩ := e
      have hnot : (q, x) ∉ t.rtab := h2 _ (he _ hc)
      have : refPay t st q x = none := by
        cases hm : refPay t st q x with
        | none => rfl
        | some m => exact absurd (ha.pay q x (by rw [hm]; rfl)) hnot
      simp [refPay_ext h, this]

theorem envOf_ext_observers (P : Params) {t t' : Tabs} (h : Ext t t') {st : SM.St} (ha : AllocOK t st)
    (r : RefId) (c : CellId) (hc : c ∈ (envOf P t st).observers r) : c ∈ (envOf P t' st).observers r := by
  obtain ⟨l, h1, _⟩ := h.refs
  simp only [envOf, Tabs.refOf] at hc ⊢
  rw [h1]
  rcases getElem?_ext (l := t.rtab) (l' := l) r with he | ⟨hn, _⟩
  · rw [he]
    cases hr : t.rtab[r]? with
    | none => rw [hr] at hc; cases hc
    | some e =>
      obtain ⟨q, x⟩ := e
      rw [hr] at hc
      simp only at hc ⊢
      rw [cellsOf_ext h ha]; exact hc
  · rw [hn] at hc; cases hc

theorem nameReadsIn_mono {R R' : RefId → Prop} (hsub : ∀ r, R r → R' r) :
    ∀ p : Prog, NameReadsIn R p → NameReadsIn R' p := by
  intro p
  induction p with
  | ret v => intro h; exact h
  | raise e => intro h; exact h
  | reraise e => intro h; exact h
  | read a r k ih => intro h; exact ⟨fun ha => hsub r (h.1 ha), fun x => ih x (h.2 x)⟩
  | call n k ih => intro h; exact fun r => ih r (h r)

/-- the regime does not depend on identities of non-members -/
theorem wf_ext (P : Params) {t t' : Tabs} (h : Ext t t') {st : SM.St} (ha : AllocOK t st)
    {lt : Node → Node → Prop} (hw : WF (envOf P t st) lt) : WF (envOf P t' st) lt := by
  refine ⟨?_, ?_, ?_⟩
  · intro n; rw [envOf_ext_formula P h ha]; exact hw.ranked n
  · intro n; rw [envOf_ext_formula P h ha]; exact hw.noCatch n
  · intro n
    rw [envOf_ext_formula P h ha]
    exact nameReadsIn_mono (fun r hr => envOf_ext_observers P h ha r n.1 hr) _ (hw.scoping n)

theorem ci_ext (P : Params) {t t' : Tabs} (h : Ext t t') {st : SM.St} (ha : AllocOK t st)
    {lt : Node → Node → Prop} (hw : WF (envOf P t st) lt) {s : Exec.St} (hci : CI (envOf P t st) lt s) :
    CI (envOf P t' st) lt s :=
  ci_congr hci hw.scoping hw.noCatch (envOf_ext_formula P h ha) (envOf_ext_cached P h ha)
    (envOf_ext_allowNone P h ha) (envOf_ext_alive P h ha) (envOf_ext_refs P h ha)

end MxModel.Edit
