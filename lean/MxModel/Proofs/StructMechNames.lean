import MxModel.Proofs.StructMechEffect
/-!
# Only valid names ever become names (C11)

`NamesOK kw st`: every component of every space id and every name with a definition (cells or reference)
is a valid name (`Names.isValidName kw`: an identifier, not a keyword, not starting with an underscore).
NOT the model-level references: `model.name = value` (`ModelImpl.set_attr`) tests no name, `model._x = 1`
is accepted by the code (`St.setGlobal`), so nothing can be said about their names.  With `Inv` (a member that is there is defined somewhere along the
linearisation) the same holds for every member, derived or not.  Preserved by every accepted operation:
each creating operation checks the name it introduces (`new_cells` the name the cells GETS), everything
else only moves or removes names - read off `apply_spec`.
-/
namespace MxModel.SM
open MxModel.C3

structure NamesOK (kw : List String) (st : St) : Prop where
  ids : ∀ q ∈ st.ids, ∀ c ∈ q, Names.isValidName kw c = true
  defs : ∀ a q n, (st.defd a q n).isSome = true → Names.isValidName kw n = true

/-- … hence every member name, derived ones included -/
theorem NamesOK.mems {kw : List String} {st : St} (hn : NamesOK kw st) (h : Inv st) (a : Attr) (q : Path)
    (n : String) (hm : (st.mem a q n).isSome = true) : Names.isValidName kw n = true := by
  rw [h.mem_eq_derivation a q n] at hm
  cases hd : st.defd a q n with
  | some v => exact hn.defs a q n (by rw [hd]; rfl)
  | none =>
    rw [hd] at hm
    simp only at hm
    cases hf : st.firstDef a (st.tail q) n with
    | none => rw [hf] at hm; cases hm
    | some d =>
      obtain ⟨_, h2⟩ := firstDef_some st a _ n d.1 d.2 hf
      exact hn.defs a d.1 n (by rw [h2]; rfl)

theorem namesOK_empty (kw : List String) : NamesOK kw ({} : St) := by
  refine ⟨?_, ?_⟩
  · intro q hq; cases hq
  · intro a q n hd
    rw [St.defd_of_not_mem _ a q n (by simp [St.ids])] at hd; cases hd

theorem setRefs_valid (kw : List String) (p : Path) (refs : List (String × Nat)) :
    ∀ (st st' : St), st.setRefs kw p refs = some st' → ∀ e ∈ refs, Names.isValidName kw e.1 = true := by
  induction refs with
  | nil => intro _ _ _ e he; cases he
  | cons x rest ih =>
    intro st st' hop e he
    simp only [St.setRefs] at hop
    cases hs : st.setRef kw p x.1 x.2 with
    | none => rw [hs] at hop; cases hop
    | some s =>
      rw [hs] at hop
      rcases List.mem_cons.mp he with rfl | he
      · have := setRef_isSome kw st p e.1 e.2
        rw [hs] at this
        unfold St.acceptsSetRef at this
        simp only [Option.isSome_some] at this
        have h2 := this.symm
        simp only [Bool.and_eq_true] at h2
        exact h2.1.2
      · exact ih s st' hop e he

theorem refsDef_isSome (refs : List (String × Nat)) (n : String) :
    ∀ d : Option Nat, (refsDef d refs n).isSome = true → d.isSome = true ∨ ∃ e ∈ refs, e.1 = n := by
  induction refs with
  | nil => intro d h; exact Or.inl h
  | cons x rest ih =>
    intro d h
    simp only [refsDef, List.foldl_cons] at h
    rcases ih _ h with h1 | ⟨e, he, hen⟩
    · by_cases hx : x.1 = n
      · exact Or.inr ⟨x, by simp, hx⟩
      · simp only [hx, if_false] at h1; exact Or.inl h1
    · exact Or.inr ⟨e, List.mem_cons_of_mem _ he, hen⟩

/-- **every accepted operation keeps the names valid** -/
theorem namesOK_apply (kw : List String) (st st' : St) (op : Op) (h : Inv st) (hn : NamesOK kw st)
    (hop : st.apply kw op = some st') : NamesOK kw st' := by
  have hacc : st.accepts kw op = true := by rw [← apply_isSome, hop]; rfl
  have E := apply_spec kw st st' h.wf.keys op hop
  -- the two generic shapes: "one name defined / everything else as before" and "nothing new"
  have hdefines : ∀ (a : Attr) (p : Path) (name : String) (v : Nat), Shape st st' → Defines st st' a p name v →
      Names.isValidName kw name = true → NamesOK kw st' := by
    intro a p name v hs hd hv
    refine ⟨by rw [hs.ids]; exact hn.ids, ?_⟩
    intro a' q n' hd'
    rw [hd a' q n'] at hd'
    split at hd'
    · rename_i hc; rw [hc.2.2]; exact hv
    · exact hn.defs a' q n' hd'
  have hsub : (∀ q ∈ st'.ids, q ∈ st.ids) → (∀ a q n, (st'.defd a q n).isSome = true → (st.defd a q n).isSome = true) →
      NamesOK kw st' := by
    intro h1 h2
    exact ⟨fun q hq => hn.ids q (h1 q hq), fun a q n hd => hn.defs a q n (h2 a q n hd)⟩
  cases op with
  | newSpace parent name bases refs =>
    obtain ⟨hfresh, hids, hglob, _, hdefs⟩ := E
    simp only [St.accepts, Bool.and_eq_true] at hacc
    obtain ⟨hacc1, hacc2⟩ := hacc
    unfold St.acceptsNewSpace at hacc1
    simp only [Bool.and_eq_true, Bool.or_eq_true, beq_iff_eq] at hacc1
    obtain ⟨⟨⟨⟨hpar, _⟩, _⟩, hvalid⟩, _⟩ := hacc1
    refine ⟨?_, ?_⟩
    · intro q hq c hc
      rw [hids, List.mem_append, List.mem_singleton] at hq
      rcases hq with hq | rfl
      · exact hn.ids q hq c hc
      · rw [List.mem_append, List.mem_singleton] at hc
        rcases hc with hc | rfl
        · rcases hpar with rfl | hp
          · cases hc
          · exact hn.ids parent ((has_iff_mem_ids st parent).mp hp) c hc
        · exact hvalid
    · intro a q n hd
      rw [hdefs a q n] at hd
      split at hd
      · rcases refsDef_isSome refs n none hd with h0 | ⟨e, he, hen⟩
        · cases h0
        · cases hs : st.newSpace kw parent name bases with
          | none => rw [hs] at hacc2; cases hacc2
          | some st1 =>
            rw [hs] at hacc2
            simp only at hacc2
            cases hs2 : st1.setRefs kw (parent ++ [name]) refs with
            | none => rw [hs2] at hacc2; cases hacc2
            | some s2 => rw [← hen]; exact setRefs_valid kw _ refs st1 s2 hs2 e he
      · exact hn.defs a q n hd
  | delSpace p =>
    apply hsub
    · intro q hq; exact ((E.ids q).mp hq).1
    · intro a q n hd
      rw [E.defs a q n] at hd
      split at hd
      · cases hd
      · exact hd
  | newCells p name fname v =>
    simp only [St.accepts] at hacc
    unfold St.acceptsNewCells at hacc
    simp only [Bool.and_eq_true] at hacc
    exact hdefines .cells p _ v E.1 E.2 hacc.1.2
  | setFormula p name v =>
    simp only [St.accepts] at hacc
    exact hdefines .cells p name v E.1 E.2 (hn.mems h .cells p name hacc)
  | delCells p name =>
    apply hsub
    · intro q hq; rw [E.1.ids] at hq; exact hq
    · intro a q n hd
      rw [E.2 a q n] at hd
      split at hd
      · cases hd
      · exact hd
  | renameCells p old new =>
    simp only [St.accepts] at hacc
    unfold St.acceptsRename at hacc
    simp only [Bool.and_eq_true] at hacc
    obtain ⟨⟨⟨hold, hnew⟩, _⟩, _⟩ := hacc
    refine ⟨by rw [E.1.ids]; exact hn.ids, ?_⟩
    intro a q n hd
    by_cases hc : a = .refs ∨ (n ≠ old ∧ n ≠ new)
    · rw [E.2 a q n hc] at hd; exact hn.defs a q n hd
    · have hc2 : ¬ (n ≠ old ∧ n ≠ new) := fun h' => hc (Or.inr h')
      by_cases ho : n = old
      · subst ho; exact hn.mems h .cells p n hold
      · by_cases hw : n = new
        · subst hw; exact hnew
        · exact absurd ⟨ho, hw⟩ hc2
  | addBases p bs =>
    apply hsub
    · intro q hq; rw [E.ids] at hq; exact hq
    · intro a q n hd; rw [E.defs a q n] at hd; exact hd
  | removeBases p bs =>
    apply hsub
    · intro q hq; rw [E.ids] at hq; exact hq
    · intro a q n hd; rw [E.defs a q n] at hd; exact hd
  | setRef p name v =>
    simp only [St.accepts] at hacc
    unfold St.acceptsSetRef at hacc
    simp only [Bool.and_eq_true] at hacc
    exact hdefines .refs p name v E.1 E.2 hacc.1.2
  | delRef p name =>
    apply hsub
    · intro q hq; rw [E.1.ids] at hq; exact hq
    · intro a q n hd
      rw [E.2 a q n] at hd
      split at hd
      · cases hd
      · exact hd
  | setGlobal name =>
    have hsp : ∀ a q n, st'.defd a q n = st.defd a q n := by
      intro a q n; unfold St.defd St.mem St.find; rw [E.1]
    refine ⟨?_, ?_⟩
    · intro q hq; unfold St.ids at hq; rw [E.1] at hq; exact hn.ids q hq
    · intro a q n hd; rw [hsp] at hd; exact hn.defs a q n hd
  | delGlobal name =>
    have hsp : ∀ a q n, st'.defd a q n = st.defd a q n := by
      intro a q n; unfold St.defd St.mem St.find; rw [E.1]
    refine ⟨?_, ?_⟩
    · intro q hq; unfold St.ids at hq; rw [E.1] at hq; exact hn.ids q hq
    · intro a q n hd; rw [hsp] at hd; exact hn.defs a q n hd

/-- the invariant of the mechanism with the name clause (C11: "only valid identifiers not starting with
an underscore ever become names") -/
structure InvN (kw : List String) (st : St) : Prop extends Inv st where
  names : NamesOK kw st

theorem invN_step (kw : List String) (st : St) (op : Op) (h : InvN kw st) : InvN kw (st.step kw op).1 := by
  unfold St.step
  cases hop : st.apply kw op with
  | none => exact h
  | some st' => exact ⟨inv_apply kw st st' op h.toInv hop, namesOK_apply kw st st' op h.toInv h.names hop⟩

theorem invN_run (kw : List String) (ops : List Op) : ∀ (st : St), InvN kw st → InvN kw (St.run kw st ops) := by
  induction ops with
  | nil => intro st h; exact h
  | cons op ops ih =>
    intro st h
    unfold St.run
    simp only [List.foldl_cons]
    exact ih _ (invN_step kw st op h)

/-- **every state reachable from the empty model satisfies the invariant including the name clause** -/
theorem run_invN (kw : List String) (ops : List Op) : InvN kw (St.run kw {} ops) :=
  invN_run kw ops {} ⟨inv_empty, namesOK_empty kw⟩

end MxModel.SM
