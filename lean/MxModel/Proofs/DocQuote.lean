import MxModel.Kernels.DocQuote
/-! Helper lemmas for `Props/C04.lean` about `Kernels/DocQuote.lean`. -/
namespace MxModel.DocQuote

/-! ### the escape table -/

/-- the table the theorems of this file were proved for; `escapeTable` (regenerated from the code)
is compared with it by the kernel on every build -/
def escapeTableModelled : List (Char × List Char) :=
  [('\\', ['\\', '\\']),
   (Char.ofNat 0, ['\\', 'x', '0', '0']),
   ('\r', ['\\', 'r']),
   (Char.ofNat 0x0b, ['\\', 'x', '0', 'b']),
   (Char.ofNat 0x0c, ['\\', 'x', '0', 'c']),
   (Char.ofNat 0x1c, ['\\', 'x', '1', 'c']),
   (Char.ofNat 0x1d, ['\\', 'x', '1', 'd']),
   (Char.ofNat 0x1e, ['\\', 'x', '1', 'e']),
   (Char.ofNat 0x85, ['\\', 'x', '8', '5']),
   (Char.ofNat 0x2028, ['\\', 'u', '2', '0', '2', '8']),
   (Char.ofNat 0x2029, ['\\', 'u', '2', '0', '2', '9'])]

/-- the escape table of the code is the one modelled -/
theorem escapeTable_eq : escapeTable = escapeTableModelled := by decide +kernel

theorem lookup_mem' {α β : Type} [BEq α] [LawfulBEq α] (l : List (α × β)) (a : α) (b : β)
    (h : l.lookup a = some b) : (a, b) ∈ l := by
  induction l with
  | nil => simp at h
  | cons x xs ih =>
    obtain ⟨k, v⟩ := x
    simp only [List.lookup] at h
    split at h
    · rename_i heq
      have : a = k := by simpa using heq
      simp at h; subst this; subst h; simp
    · exact List.mem_cons_of_mem _ (ih h)

theorem lookup_none_not_key {α β : Type} [BEq α] [LawfulBEq α] (l : List (α × β)) (a : α)
    (h : l.lookup a = none) : ∀ p ∈ l, p.1 ≠ a := by
  induction l with
  | nil => intro p hp; cases hp
  | cons x xs ih =>
    obtain ⟨k, v⟩ := x
    simp only [List.lookup] at h
    split at h
    · cases h
    · rename_i heq
      intro p hp
      rcases List.mem_cons.mp hp with rfl | hp
      · intro e
        have : (a == k) = true := by simp only [beq_iff_eq]; exact e.symm
        rw [this] at heq; cases heq
      · exact ih h p hp

theorem escapeOf_some {c : Char} {e : List Char} (h : escapeOf c = some e) : (c, e) ∈ escapeTable :=
  lookup_mem' _ _ _ h

/-- the backslash and every character that is unsafe in a source text is a key of the table -/
theorem unsafe_are_keys : ∀ c ∈ '\\' :: sourceUnsafe, ∃ p ∈ escapeTable, p.1 = c := by
  decide +kernel

theorem escapeOf_none {c : Char} (h : escapeOf c = none) : c ≠ '\\' ∧ c ∉ sourceUnsafe := by
  have hk := lookup_none_not_key _ _ h
  constructor
  · intro e
    obtain ⟨p, hp, hpc⟩ := unsafe_are_keys c (by simp [e])
    exact hk p hp hpc
  · intro hin
    obtain ⟨p, hp, hpc⟩ := unsafe_are_keys c (List.mem_cons_of_mem _ hin)
    exact hk p hp hpc

/-- every entry is in the table under its own key (the table is the function) -/
theorem escapeOf_table : ∀ p ∈ escapeTable, escapeOf p.1 = some p.2 := by decide +kernel

/-! ### newline normalisation -/

theorem nlAux_append_noCr (a t : List Char) (h : '\r' ∉ a) :
    nlAux false (a ++ t) = a ++ nlAux false t := by
  induction a with
  | nil => rfl
  | cons c r ih =>
    simp only [List.mem_cons, not_or] at h
    have hc : c ≠ '\r' := fun e => h.1 e.symm
    simp [nlAux, hc, ih h.2]

theorem universalNl_noCr (a : List Char) (h : '\r' ∉ a) : universalNl a = a := by
  have := nlAux_append_noCr a [] h
  simpa [universalNl, nlAux] using this

/-! ### the tokenizer -/

theorem scanTok_quote (run : Nat) (rest : List Char) :
    scanTok run ('"' :: rest) =
      if run + 1 = 3 then some (['"'], rest)
      else (scanTok (run + 1) rest).map (fun p => ('"' :: p.1, p.2)) := by
  rw [scanTok.eq_def]; simp

theorem scanTok_bs (run : Nat) (e : Char) (rest : List Char) :
    scanTok run ('\\' :: e :: rest) = (scanTok 0 rest).map (fun p => ('\\' :: e :: p.1, p.2)) := by
  rw [scanTok.eq_def]; simp

theorem scanTok_other (run : Nat) (c : Char) (rest : List Char) (hc : c ≠ '"') (hb : c ≠ '\\') :
    scanTok run (c :: rest) = (scanTok 0 rest).map (fun p => (c :: p.1, p.2)) := by
  rw [scanTok.eq_def]; simp [hc, hb]

/-- the tokenizer never looks beyond the closing quotes: what follows a token stays -/
theorem scanTok_append (q : Nat) (p : List Char) : ∀ (t r s : List Char),
    scanTok q p = some (t, r) → scanTok q (p ++ s) = some (t, r ++ s) := by
  fun_induction scanTok q p with
  | case1 => intro t r s h; simp at h
  | case2 run rest hr =>
    intro t r s h
    simp only [Option.some.injEq, Prod.mk.injEq] at h
    obtain ⟨rfl, rfl⟩ := h
    simp [scanTok_quote, hr]
  | case3 run rest hr ih =>
    intro t r s h
    simp only [Option.map_eq_some_iff] at h
    obtain ⟨⟨t', r'⟩, hs, he⟩ := h
    simp only [Prod.mk.injEq] at he
    obtain ⟨rfl, rfl⟩ := he
    simp [scanTok_quote, hr, ih _ _ s hs]
  | case4 run hq =>
    intro t r s h; simp at h
  | case5 run e rest' hq ih =>
    intro t r s h
    simp only [Option.map_eq_some_iff] at h
    obtain ⟨⟨t', r'⟩, hs, he⟩ := h
    simp only [Prod.mk.injEq] at he
    obtain ⟨rfl, rfl⟩ := he
    simp [scanTok_bs, ih _ _ s hs]
  | case6 run c rest hc hb ih =>
    intro t r s h
    simp only [Option.map_eq_some_iff] at h
    obtain ⟨⟨t', r'⟩, hs, he⟩ := h
    simp only [Prod.mk.injEq] at he
    obtain ⟨rfl, rfl⟩ := he
    rw [List.cons_append, scanTok_other _ _ _ hc hb, ih _ _ s hs]; rfl

/-- the tokenizer passes over one escape of the table and its run counter is 0 afterwards -/
theorem scanTok_escape {c : Char} {e : List Char} (h : (c, e) ∈ escapeTable) (q : Nat) (x : List Char) :
    scanTok q (e ++ x) = (scanTok 0 x).map (fun r => (e ++ r.1, r.2)) := by
  rw [escapeTable_eq] at h
  simp only [escapeTableModelled, List.mem_cons, List.not_mem_nil, or_false, Prod.mk.injEq] at h
  rcases h with ⟨_, rfl⟩ | ⟨_, rfl⟩ | ⟨_, rfl⟩ | ⟨_, rfl⟩ | ⟨_, rfl⟩ | ⟨_, rfl⟩ | ⟨_, rfl⟩ | ⟨_, rfl⟩ |
    ⟨_, rfl⟩ | ⟨_, rfl⟩ | ⟨_, rfl⟩ <;>
  simp [scanTok_bs, scanTok_other, Option.map_map, Function.comp_def]

theorem scanTok_qqq (tail : List Char) : scanTok 0 (qqq ++ tail) = some (qqq, tail) := by
  simp [qqq, scanTok_quote]

/-! ### the writer, one character at a time -/

theorem quoteBody_quote_esc (q : Nat) (rest : List Char) (h : q + 1 = 3 ∨ rest = []) :
    quoteBody q ('"' :: rest) = '\\' :: '"' :: quoteBody 0 rest := by
  rw [quoteBody]; rw [if_pos rfl, if_pos h]

theorem quoteBody_quote_keep (q : Nat) (rest : List Char) (h : ¬ (q + 1 = 3 ∨ rest = [])) :
    quoteBody q ('"' :: rest) = '"' :: quoteBody (q + 1) rest := by
  rw [quoteBody]; rw [if_pos rfl, if_neg h]

theorem quoteBody_esc (q : Nat) (c : Char) (rest e : List Char) (hc : c ≠ '"') (he : escapeOf c = some e) :
    quoteBody q (c :: rest) = e ++ quoteBody 0 rest := by
  rw [quoteBody]; rw [if_neg hc, he]

theorem quoteBody_plain (q : Nat) (c : Char) (rest : List Char) (hc : c ≠ '"') (he : escapeOf c = none) :
    quoteBody q (c :: rest) = c :: quoteBody 0 rest := by
  rw [quoteBody]; rw [if_neg hc, he]; rfl

/-- **the tokenizer on the writer's output**: run counter of the tokenizer = counter of the
writer; the closing quotes are reached with counter 0, so the token ends exactly there -/
theorem scanTok_quoteBody (d : List Char) : ∀ (q : Nat) (tail : List Char), q ≤ 2 → (d = [] → q = 0) →
    scanTok q (quoteBody q d ++ (qqq ++ tail)) = some (quoteBody q d ++ qqq, tail) := by
  induction d with
  | nil =>
    intro q tail _ h0
    rw [h0 rfl]
    simpa [quoteBody] using scanTok_qqq tail
  | cons c rest ih =>
    intro q tail hq _
    by_cases hc : c = '"'
    · subst hc
      by_cases hcond : q + 1 = 3 ∨ rest = []
      · have ih0 := ih 0 tail (by omega) (fun _ => rfl)
        rw [quoteBody_quote_esc _ _ hcond]
        simp only [List.cons_append]
        rw [scanTok_bs, ih0]; rfl
      · have h3 : ¬ q + 1 = 3 := fun e => hcond (Or.inl e)
        have hne : rest ≠ [] := fun e => hcond (Or.inr e)
        have ih1 := ih (q + 1) tail (by omega) (fun e => absurd e hne)
        rw [quoteBody_quote_keep _ _ hcond]
        simp only [List.cons_append]
        rw [scanTok_quote, if_neg h3, ih1]; rfl
    · have ih0 := ih 0 tail (by omega) (fun _ => rfl)
      cases he : escapeOf c with
      | some e =>
        rw [quoteBody_esc _ _ _ _ hc he, List.append_assoc,
          scanTok_escape (escapeOf_some he), ih0]
        simp
      | none =>
        have hb := (escapeOf_none he).1
        rw [quoteBody_plain _ _ _ hc he]
        simp only [List.cons_append]
        rw [scanTok_other _ _ _ hc hb, ih0]; rfl

/-! ### the escape decoder -/

theorem dec_text_plain (c : Char) (r : List Char) (hb : c ≠ '\\') :
    dec .text (c :: r) = (dec .text r).map (c :: ·) := by
  rw [dec, if_neg hb]

theorem dec_bs_quote (x : List Char) : dec .text ('\\' :: '"' :: x) = (dec .text x).map ('"' :: ·) := by
  simp [dec, escKind]

/-- every escape the writer uses is decoded to the character it was written for -/
theorem dec_escape {c : Char} {e : List Char} (h : (c, e) ∈ escapeTable) (x : List Char) :
    dec .text (e ++ x) = (dec .text x).map (c :: ·) := by
  rw [escapeTable_eq] at h
  simp only [escapeTableModelled, List.mem_cons, List.not_mem_nil, or_false, Prod.mk.injEq] at h
  rcases h with ⟨rfl, rfl⟩ | ⟨rfl, rfl⟩ | ⟨rfl, rfl⟩ | ⟨rfl, rfl⟩ | ⟨rfl, rfl⟩ | ⟨rfl, rfl⟩ | ⟨rfl, rfl⟩ |
    ⟨rfl, rfl⟩ | ⟨rfl, rfl⟩ | ⟨rfl, rfl⟩ | ⟨rfl, rfl⟩ <;>
  simp [dec, escKind, hexVal, emit]

/-- **the decoder on the writer's output** -/
theorem dec_quoteBody (d : List Char) : ∀ q : Nat, dec .text (quoteBody q d) = some d := by
  induction d with
  | nil => intro q; simp [quoteBody, dec]
  | cons c rest ih =>
    intro q
    by_cases hc : c = '"'
    · subst hc
      by_cases hcond : q + 1 = 3 ∨ rest = []
      · rw [quoteBody_quote_esc _ _ hcond, dec_bs_quote, ih]; rfl
      · rw [quoteBody_quote_keep _ _ hcond, dec_text_plain _ _ (by decide), ih]; rfl
    · cases he : escapeOf c with
      | some e => rw [quoteBody_esc _ _ _ _ hc he, dec_escape (escapeOf_some he), ih]; rfl
      | none =>
        rw [quoteBody_plain _ _ _ hc he, dec_text_plain _ _ (escapeOf_none he).1, ih]; rfl

/-! ### what the written literal is made of -/

theorem escape_sourceSafe : ∀ p ∈ escapeTable, ∀ x ∈ p.2, x ∉ sourceUnsafe := by decide

theorem quoteBody_sourceSafe (d : List Char) : ∀ (q : Nat) (x : Char), x ∈ quoteBody q d → x ∉ sourceUnsafe := by
  induction d with
  | nil => intro q x h; simp [quoteBody] at h
  | cons c rest ih =>
    intro q x h
    by_cases hc : c = '"'
    · subst hc
      by_cases hcond : q + 1 = 3 ∨ rest = []
      · rw [quoteBody_quote_esc _ _ hcond] at h
        simp only [List.mem_cons] at h
        rcases h with rfl | rfl | h
        · decide
        · decide
        · exact ih _ _ h
      · rw [quoteBody_quote_keep _ _ hcond] at h
        simp only [List.mem_cons] at h
        rcases h with rfl | h
        · decide
        · exact ih _ _ h
    · cases he : escapeOf c with
      | some e =>
        rw [quoteBody_esc _ _ _ _ hc he, List.mem_append] at h
        rcases h with h | h
        · exact escape_sourceSafe _ (escapeOf_some he) _ h
        · exact ih _ _ h
      | none =>
        rw [quoteBody_plain _ _ _ hc he] at h
        simp only [List.mem_cons] at h
        rcases h with rfl | h
        · exact (escapeOf_none he).2
        · exact ih _ _ h

theorem quoteDocstring_sourceSafe (d : List Char) (x : Char) (h : x ∈ quoteDocstring d) : x ∉ sourceUnsafe := by
  simp only [quoteDocstring, List.mem_append] at h
  rcases h with (h | h) | h
  · simp only [qqq, List.mem_cons, List.not_mem_nil, or_false, or_self] at h; subst h; decide
  · exact quoteBody_sourceSafe _ _ _ h
  · simp only [qqq, List.mem_cons, List.not_mem_nil, or_false, or_self] at h; subst h; decide

theorem quoteDocstring_noCr (d : List Char) : '\r' ∉ quoteDocstring d :=
  fun h => quoteDocstring_sourceSafe d _ h (by decide)

/-! ### from tokenizer and decoder to `lexLit` and `readLiteral` -/

theorem lexLit_quoteDocstring (d tail : List Char) :
    lexLit (quoteDocstring d ++ tail) = some (quoteBody 0 d, universalNl tail) := by
  unfold lexLit
  rw [universalNl, nlAux_append_noCr _ _ (quoteDocstring_noCr d)]
  have h := scanTok_quoteBody d 0 (nlAux false tail) (by omega) (fun _ => rfl)
  simp only [quoteDocstring, qqq, List.append_assoc, List.cons_append, List.nil_append] at h ⊢
  rw [h]
  simp [universalNl]

theorem readLiteral_eq_some (text v : List Char) :
    readLiteral text = some v ↔ ∃ body, lexLit text = some (body, []) ∧ dec .text body = some v := by
  unfold readLiteral
  split
  · rename_i body h; rw [h]; simp
  · rename_i h
    constructor
    · intro e; cases e
    · rintro ⟨body, e, _⟩; exact absurd e (h body)

/-! ### the line re-join of a def's source -/

theorem otherBoundaries_unsafe : ∀ x ∈ otherBoundaries, x ∈ sourceUnsafe := by decide

/-- a stretch of text without line boundaries other than the line feed, followed by more
text, passes through `"\n".join(text.splitlines())` unchanged -/
theorem splitJoin_append_safe (a b : List Char) (ha : ∀ x ∈ a, x ∉ sourceUnsafe) (hb : b ≠ []) :
    splitJoin false (a ++ b) = a ++ splitJoin false b := by
  induction a with
  | nil => rfl
  | cons c r ih =>
    have hc : c ∉ sourceUnsafe := ha c (List.mem_cons_self)
    have hr : ∀ x ∈ r, x ∉ sourceUnsafe := fun x hx => ha x (List.mem_cons_of_mem _ hx)
    have hob : c ∉ otherBoundaries := fun h => hc (otherBoundaries_unsafe _ h)
    have hcr : c ≠ '\r' := fun e => hc (by rw [e]; decide)
    have hne : r ++ b ≠ [] := by simp [hb]
    rw [List.cons_append, splitJoin]
    by_cases hn : c = '\n'
    · subst hn
      simp [hne, ih hr]
    · simp [hn, hob, ih hr]

end MxModel.DocQuote
