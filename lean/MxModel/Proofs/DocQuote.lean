import MxModel.Kernels.DocQuote
/-! Helper lemmas for `Props/C04.lean` about `Kernels/DocQuote.lean`. -/
namespace MxModel.DocQuote

abbrev qqq : List Ch := [.q, .q, .q]

/-! ### newline normalisation -/

theorem universalNl_noCr (t : List Ch) : Ch.cr ∉ universalNl t := by
  fun_induction universalNl t <;> simp_all
  rename_i h _; exact fun e => h e.symm

theorem universalNl_id (t : List Ch) (h : Ch.cr ∉ t) : universalNl t = t := by
  fun_induction universalNl t <;> simp_all

theorem universalNl_q (t : List Ch) : universalNl (.q :: t) = .q :: universalNl t := by
  simp [universalNl]

/-- normalisation never makes a text longer and changes it iff it contains a carriage return -/
theorem universalNl_eq_self_iff (t : List Ch) : universalNl t = t ↔ Ch.cr ∉ t := by
  constructor
  · intro h; rw [← h]; exact universalNl_noCr t
  · exact universalNl_id t

/-! ### the scanner -/

/-- the value is never longer than what was scanned, closing quotes not counted -/
theorem scan_len (t : List Ch) : ∀ v r, scan t = some (v, r) → v.length + r.length + 3 ≤ t.length := by
  fun_induction scan t with
  | case1 => intro v r h; simp at h
  | case2 => intro v r h; simp at h
  | case3 c rest ih =>
    intro v r h
    simp only [Option.map_eq_some_iff] at h
    obtain ⟨⟨v', r'⟩, hs, he⟩ := h
    simp only [Prod.mk.injEq] at he
    obtain ⟨rfl, rfl⟩ := he
    have := ih v' r' hs
    have hd : (decodeEsc c).length ≤ 2 := by cases c <;> simp [decodeEsc]
    simp; omega
  | case4 rest hq =>
    intro v r h
    simp only [Option.some.injEq, Prod.mk.injEq] at h
    obtain ⟨rfl, rfl⟩ := h
    match rest, hq with
    | .q :: .q :: tl, _ => simp
  | case5 rest hq ih =>
    intro v r h
    simp only [Option.map_eq_some_iff] at h
    obtain ⟨⟨v', r'⟩, hs, he⟩ := h
    simp only [Prod.mk.injEq] at he
    obtain ⟨rfl, rfl⟩ := he
    have := ih v' r' hs
    simp; omega
  | case6 rest ih | case7 rest ih | case8 rest ih | case9 c rest ih =>
    intro v r h
    simp only [Option.map_eq_some_iff] at h
    obtain ⟨⟨v', r'⟩, hs, he⟩ := h
    simp only [Prod.mk.injEq] at he
    obtain ⟨rfl, rfl⟩ := he
    have := ih v' r' hs
    simp; omega

/-- a scanned value has no carriage return unless the text had one -/
theorem scan_noCr (t : List Ch) : Ch.cr ∉ t → ∀ v r, scan t = some (v, r) → Ch.cr ∉ v := by
  fun_induction scan t with
  | case1 => intro _ v r h; simp at h
  | case2 => intro _ v r h; simp at h
  | case3 c rest ih =>
    intro hc v r h
    simp only [Option.map_eq_some_iff] at h
    obtain ⟨⟨v', r'⟩, hs, he⟩ := h
    simp only [Prod.mk.injEq] at he
    obtain ⟨rfl, rfl⟩ := he
    simp only [List.mem_cons, not_or] at hc
    have := ih hc.2.2 v' r' hs
    have hd : Ch.cr ∉ decodeEsc c := by
      cases c <;> simp [decodeEsc]
      exact hc.2.1 rfl
    simp [hd, this]
  | case4 rest hq =>
    intro _ v r h
    simp only [Option.some.injEq, Prod.mk.injEq] at h
    obtain ⟨rfl, rfl⟩ := h
    simp
  | case5 rest hq ih =>
    intro hc v r h
    simp only [Option.map_eq_some_iff] at h
    obtain ⟨⟨v', r'⟩, hs, he⟩ := h
    simp only [Prod.mk.injEq] at he
    obtain ⟨rfl, rfl⟩ := he
    simp only [List.mem_cons, not_or] at hc
    have := ih hc.2 v' r' hs
    simp [this]
  | case6 rest ih | case8 rest ih | case9 c rest ih =>
    intro hc v r h
    simp only [Option.map_eq_some_iff] at h
    obtain ⟨⟨v', r'⟩, hs, he⟩ := h
    simp only [Prod.mk.injEq] at he
    obtain ⟨rfl, rfl⟩ := he
    simp only [List.mem_cons, not_or] at hc
    have := ih hc.2 v' r' hs
    simp [this]
  | case7 rest ih =>
    intro hc; simp at hc

/-! ### the shape predicates, one character at a time -/

theorem startsQQ_append (r s : List Ch) (h : startsQQ r = true) : startsQQ (r ++ s) = true := by
  match r, h with
  | .q :: .q :: tl, _ => simp [startsQQ]

theorem hasTriple_q (r : List Ch) : hasTriple (.q :: r) = (startsQQ r || hasTriple r) := by
  match r with
  | [] => simp [hasTriple, startsQQ]
  | [.q] => simp [hasTriple, startsQQ]
  | .q :: .q :: tl => simp [hasTriple, startsQQ]
  | .q :: .bs :: tl | .q :: .nl :: tl | .q :: .cr :: tl | .q :: .en :: tl | .q :: .plain _ :: tl =>
    simp [hasTriple, startsQQ]
  | .bs :: tl | .nl :: tl | .cr :: tl | .en :: tl | .plain _ :: tl => simp [hasTriple, startsQQ]

theorem hasTriple_other (c : Ch) (r : List Ch) (h : c ≠ .q) : hasTriple (c :: r) = hasTriple r := by
  cases c <;> simp_all [hasTriple]

theorem endsWithQ_cons (c : Ch) (r : List Ch) (h : r ≠ []) : endsWithQ (c :: r) = endsWithQ r := by
  cases r with
  | nil => exact absurd rfl h
  | cons x xs => simp [endsWithQ, List.getLast?_cons_cons]

theorem endsWithQ_single (c : Ch) : endsWithQ [c] = (c == .q) := by
  simp [endsWithQ]

theorem endsWithQ_cons2 (c d : Ch) (r : List Ch) (hd : d ≠ .q) :
    endsWithQ (c :: d :: r) = endsWithQ r := by
  cases r with
  | nil => simp [endsWithQ, hd]
  | cons x xs => rw [endsWithQ_cons _ _ (by simp), endsWithQ_cons _ _ (by simp)]


/-! ### the two directions of the round trip, on the scanner -/

/-- the three shape conditions of `SafeDoc` (the carriage-return condition is separate) -/
def Safe3 (doc : List Ch) : Prop := hasTriple doc = false ∧ endsWithQ doc = false ∧ bsOk doc = true

theorem scan_map_eq {t : List Ch} {f : List Ch → List Ch} {v r : List Ch}
    (h : (scan t).map (fun p => (f p.1, p.2)) = some (v, r)) :
    ∃ v', scan t = some (v', r) ∧ f v' = v := by
  simp only [Option.map_eq_some_iff] at h
  obtain ⟨⟨v', r'⟩, hs, he⟩ := h
  simp only [Prod.mk.injEq] at he
  exact ⟨v', by rw [hs, he.2], he.1⟩

/-- if the scanner returns exactly the document, the document is safe -/
theorem scan_safe : ∀ doc : List Ch, Ch.cr ∉ doc → scan (doc ++ qqq) = some (doc, []) → Safe3 doc
  | [], _, _ => by simp [Safe3, hasTriple, endsWithQ, bsOk]
  | [.bs], _, h => by simp [scan, startsQQ] at h
  | .bs :: c :: r, hcr, h => by
    simp only [List.mem_cons, not_or] at hcr
    have h' : (scan (r ++ qqq)).map (fun p => (decodeEsc c ++ p.1, p.2)) = some (.bs :: c :: r, []) := by
      simpa [scan] using h
    obtain ⟨v', hs, hv⟩ := scan_map_eq h'
    have hl := scan_len _ _ _ hs
    simp only [List.length_append, List.length_nil, List.length_cons] at hl
    cases c with
    | q => simp [decodeEsc] at hv
    | bs => simp [decodeEsc] at hv; subst hv; simp at hl; omega
    | nl => simp [decodeEsc] at hv; subst hv; simp at hl; omega
    | en => simp [decodeEsc] at hv
    | cr => exact absurd rfl hcr.2.1
    | plain ch =>
      simp [decodeEsc] at hv; replace hv := hv.symm; subst hv
      obtain ⟨h1, h2, h3⟩ := scan_safe r hcr.2.2 hs
      refine ⟨?_, ?_, ?_⟩
      · rw [hasTriple_other _ _ (by simp), hasTriple_other _ _ (by simp)]; exact h1
      · cases r with
        | nil => simp [endsWithQ]
        | cons x xs => rw [endsWithQ_cons _ _ (by simp), endsWithQ_cons _ _ (by simp)]; exact h2
      · simpa [bsOk] using h3
  | .q :: r, hcr, h => by
    simp only [List.mem_cons, not_or] at hcr
    have hsq : startsQQ (r ++ qqq) = false := by
      cases hq : startsQQ (r ++ qqq) with
      | false => rfl
      | true => simp [scan, hq] at h
    have h' : (scan (r ++ qqq)).map (fun p => (Ch.q :: p.1, p.2)) = some (.q :: r, []) := by
      simpa [scan, hsq] using h
    obtain ⟨v', hs, hv⟩ := scan_map_eq h'
    simp at hv; replace hv := hv.symm; subst hv
    obtain ⟨h1, h2, h3⟩ := scan_safe r hcr.2 hs
    refine ⟨?_, ?_, ?_⟩
    · rw [hasTriple_q, h1]
      cases hq : startsQQ r with
      | false => rfl
      | true => rw [startsQQ_append _ _ hq] at hsq; cases hsq
    · cases r with
      | nil => simp [startsQQ] at hsq
      | cons x xs => rw [endsWithQ_cons _ _ (by simp)]; exact h2
    · simpa [bsOk] using h3
  | .nl :: r, hcr, h => by
    simp only [List.mem_cons, not_or] at hcr
    have h' : (scan (r ++ qqq)).map (fun p => (Ch.nl :: p.1, p.2)) = some (.nl :: r, []) := by
      simpa [scan] using h
    obtain ⟨v', hs, hv⟩ := scan_map_eq h'
    simp at hv; replace hv := hv.symm; subst hv
    obtain ⟨h1, h2, h3⟩ := scan_safe r hcr.2 hs
    refine ⟨by rw [hasTriple_other _ _ (by simp)]; exact h1, ?_, by simpa [bsOk] using h3⟩
    cases r with
    | nil => simp [endsWithQ]
    | cons x xs => rw [endsWithQ_cons _ _ (by simp)]; exact h2
  | .en :: r, hcr, h => by
    simp only [List.mem_cons, not_or] at hcr
    have h' : (scan (r ++ qqq)).map (fun p => (Ch.en :: p.1, p.2)) = some (.en :: r, []) := by
      simpa [scan] using h
    obtain ⟨v', hs, hv⟩ := scan_map_eq h'
    simp at hv; replace hv := hv.symm; subst hv
    obtain ⟨h1, h2, h3⟩ := scan_safe r hcr.2 hs
    refine ⟨by rw [hasTriple_other _ _ (by simp)]; exact h1, ?_, by simpa [bsOk] using h3⟩
    cases r with
    | nil => simp [endsWithQ]
    | cons x xs => rw [endsWithQ_cons _ _ (by simp)]; exact h2
  | .plain ch :: r, hcr, h => by
    simp only [List.mem_cons, not_or] at hcr
    have h' : (scan (r ++ qqq)).map (fun p => (Ch.plain ch :: p.1, p.2)) = some (.plain ch :: r, []) := by
      simpa [scan] using h
    obtain ⟨v', hs, hv⟩ := scan_map_eq h'
    simp at hv; replace hv := hv.symm; subst hv
    obtain ⟨h1, h2, h3⟩ := scan_safe r hcr.2 hs
    refine ⟨by rw [hasTriple_other _ _ (by simp)]; exact h1, ?_, by simpa [bsOk] using h3⟩
    cases r with
    | nil => simp [endsWithQ]
    | cons x xs => rw [endsWithQ_cons _ _ (by simp)]; exact h2
  | .cr :: r, hcr, _ => by simp at hcr

/-- a safe document is scanned back unchanged and the closing quotes end the text -/
theorem scan_of_safe : ∀ doc : List Ch, Safe3 doc → scan (doc ++ qqq) = some (doc, [])
  | [], _ => by simp [scan, startsQQ]
  | [.bs], h => by simp [Safe3, bsOk] at h
  | .bs :: c :: r, ⟨h1, h2, h3⟩ => by
    cases c with
    | q | bs | nl | en | cr => simp [bsOk] at h3
    | plain ch =>
      have ih := scan_of_safe r ⟨by
          rw [hasTriple_other _ _ (by simp), hasTriple_other _ _ (by simp)] at h1; exact h1, by
          cases r with
          | nil => simp [endsWithQ]
          | cons x xs =>
            rw [endsWithQ_cons _ _ (by simp), endsWithQ_cons _ _ (by simp)] at h2; exact h2, by
          simpa [bsOk] using h3⟩
      simp [scan, ih, decodeEsc]
  | .q :: r, ⟨h1, h2, h3⟩ => by
    rw [hasTriple_q] at h1
    simp only [Bool.or_eq_false_iff] at h1
    have hne : r ≠ [] := by
      intro e; subst e; simp [endsWithQ] at h2
    have h2' : endsWithQ r = false := by rw [endsWithQ_cons _ _ hne] at h2; exact h2
    have ih := scan_of_safe r ⟨h1.2, h2', by simpa [bsOk] using h3⟩
    have hsq : startsQQ (r ++ qqq) = false := by
      match r, hne, h1.1, h2' with
      | [x], _, _, hx => cases x <;> simp_all [startsQQ, endsWithQ]
      | x :: y :: tl, _, hs, _ =>
        cases x <;> cases y <;> simp_all [startsQQ]
    simp [scan, hsq, ih]
  | .nl :: r, ⟨h1, h2, h3⟩ => by
    have ih := scan_of_safe r ⟨by rw [hasTriple_other _ _ (by simp)] at h1; exact h1, by
        cases r with
        | nil => simp [endsWithQ]
        | cons x xs => rw [endsWithQ_cons _ _ (by simp)] at h2; exact h2, by
        simpa [bsOk] using h3⟩
    simp [scan, ih]
  | .en :: r, ⟨h1, h2, h3⟩ => by
    have ih := scan_of_safe r ⟨by rw [hasTriple_other _ _ (by simp)] at h1; exact h1, by
        cases r with
        | nil => simp [endsWithQ]
        | cons x xs => rw [endsWithQ_cons _ _ (by simp)] at h2; exact h2, by
        simpa [bsOk] using h3⟩
    simp [scan, ih]
  | .cr :: r, ⟨h1, h2, h3⟩ => by
    have ih := scan_of_safe r ⟨by rw [hasTriple_other _ _ (by simp)] at h1; exact h1, by
        cases r with
        | nil => simp [endsWithQ]
        | cons x xs => rw [endsWithQ_cons _ _ (by simp)] at h2; exact h2, by
        simpa [bsOk] using h3⟩
    simp [scan, ih]
  | .plain ch :: r, ⟨h1, h2, h3⟩ => by
    have ih := scan_of_safe r ⟨by rw [hasTriple_other _ _ (by simp)] at h1; exact h1, by
        cases r with
        | nil => simp [endsWithQ]
        | cons x xs => rw [endsWithQ_cons _ _ (by simp)] at h2; exact h2, by
        simpa [bsOk] using h3⟩
    simp [scan, ih]

/-! ### from the scanner to `readLit ∘ writeDoc` -/

theorem lexLit_writeDoc (doc : List Ch) : lexLit (writeDoc doc) = scan (universalNl (doc ++ qqq)) := by
  simp [lexLit, writeDoc, universalNl_q]

theorem readLit_eq_some (text v : List Ch) : readLit text = some v ↔ lexLit text = some (v, []) := by
  unfold readLit
  split
  · rename_i v' h; rw [h]; simp
  · rename_i h
    constructor
    · intro e; cases e
    · intro e; exact absurd e (h v)

end MxModel.DocQuote
