import MxModel.Proofs.StructMechMapPaths
import MxModel.Proofs.StructMechNames
/-!
# `rename_space` keeps the invariant of the mechanism

`relabel p new` (the code's mapping, the identity outside the tree of the renamed space) is not injective
on ALL paths (`parent ++ [new]` is the image of itself and of `p`), but it agrees, on every path a state
accepted by `renameSpace` holds, with the bijection `swapAt parent old new` (below `parent`, transpose
the names `old` / `new` of the next component): the precondition `_can_add(parent, new)` says that
there is no space `parent ++ [new]`, and ids are closed under prefixes.  `swapAt` is an involution, maps
the root to the root and children to children, so `inv_mapPaths` applies.
-/
namespace MxModel.SM
open MxModel.C3

theorem isPrefix_iff (p q : Path) : isPrefix p q = true ↔ p <+: q := by
  unfold isPrefix
  rw [beq_iff_eq, List.prefix_iff_eq_take]
  exact ⟨fun h => h.symm, fun h => h.symm⟩

/-- the transposition of two names -/
def swapName (a b c : String) : String := if c = a then b else if c = b then a else c

theorem swapName_invol (a b c : String) : swapName a b (swapName a b c) = c := by
  unfold swapName
  by_cases h1 : c = a
  · subst h1
    by_cases h2 : b = c
    · subst h2; simp
    · simp [h2]
  · by_cases h2 : c = b
    · subst h2; simp [h1]
    · simp [h1, h2]

def swapHead (a b : String) : Path → Path
  | [] => []
  | c :: r => swapName a b c :: r

/-- below `parent`, the component after `parent` is transposed -/
def swapAt (parent : Path) (a b : String) (q : Path) : Path :=
  if isPrefix parent q then parent ++ swapHead a b (q.drop parent.length) else q

theorem swapAt_append (parent : Path) (a b : String) (d : Path) :
    swapAt parent a b (parent ++ d) = parent ++ swapHead a b d := by
  unfold swapAt
  rw [(isPrefix_iff parent (parent ++ d)).mpr (List.prefix_append _ _)]
  simp

theorem swapAt_self (parent : Path) (a b : String) : swapAt parent a b parent = parent := by
  have := swapAt_append parent a b []
  simpa [swapHead] using this

theorem swapAt_of_not_prefix (parent : Path) (a b : String) (q : Path) (h : ¬ parent <+: q) :
    swapAt parent a b q = q := by
  unfold swapAt
  have : isPrefix parent q = false := by
    cases hh : isPrefix parent q with
    | false => rfl
    | true => exact absurd ((isPrefix_iff parent q).mp hh) h
  rw [this]; rfl

theorem swapAt_invol (parent : Path) (a b : String) (q : Path) :
    swapAt parent a b (swapAt parent a b q) = q := by
  by_cases h : parent <+: q
  · obtain ⟨d, rfl⟩ := h
    rw [swapAt_append, swapAt_append]
    cases d with
    | nil => rfl
    | cons c r => simp [swapHead, swapName_invol]
  · rw [swapAt_of_not_prefix parent a b q h, swapAt_of_not_prefix parent a b q h]

theorem swapAt_inj (parent : Path) (a b : String) (x y : Path)
    (h : swapAt parent a b x = swapAt parent a b y) : x = y := by
  rw [← swapAt_invol parent a b x, h, swapAt_invol]

theorem swapAt_nil (parent : Path) (a b : String) : swapAt parent a b [] = [] := by
  by_cases h : parent <+: []
  · have : parent = [] := List.prefix_nil.mp h
    subst this
    exact swapAt_self [] a b
  · exact swapAt_of_not_prefix parent a b [] h

/-- children are mapped to children; the name changes only directly below `parent` -/
theorem swapAt_snoc (parent : Path) (a b : String) (q : Path) (n : String) :
    swapAt parent a b (q ++ [n]) = swapAt parent a b q ++ [if q = parent then swapName a b n else n] := by
  by_cases h : parent <+: q
  · obtain ⟨d, rfl⟩ := h
    rw [List.append_assoc, swapAt_append, swapAt_append]
    cases d with
    | nil => simp [swapHead]
    | cons c r =>
      have : parent ++ c :: r ≠ parent := by
        intro e
        have := congrArg List.length e
        simp at this
      simp [swapHead, this]
  · have hq : q ≠ parent := fun e => h (by rw [e]; exact List.prefix_refl _)
    rw [swapAt_of_not_prefix parent a b q h]
    simp only [hq, if_false]
    by_cases h2 : parent <+: q ++ [n]
    · rcases List.prefix_concat_iff.mp h2 with e | e
      · rw [← e, swapAt_self]
      · exact absurd e h
    · exact swapAt_of_not_prefix parent a b _ h2

/-- the code's mapping agrees with the bijection on every path that is not at or below `parent ++ [new]` -/
theorem relabel_eq_swapAt (parent : Path) (old new : String) (q : Path) (hq : ¬ (parent ++ [new]) <+: q) :
    relabel (parent ++ [old]) new q = swapAt parent old new q := by
  by_cases h : parent <+: q
  · obtain ⟨d, rfl⟩ := h
    rw [swapAt_append]
    cases d with
    | nil =>
      have : ¬ (parent ++ [old]) <+: parent ++ [] := by
        intro hp
        have := hp.length_le
        simp at this
        omega
      unfold relabel
      have hf : isPrefix (parent ++ [old]) (parent ++ []) = false := by
        cases hh : isPrefix (parent ++ [old]) (parent ++ []) with
        | false => rfl
        | true => exact absurd ((isPrefix_iff _ _).mp hh) this
      rw [hf]; simp [swapHead]
    | cons c r =>
      have hc : c ≠ new := by
        intro e; subst e
        exact hq ((List.prefix_append_right_inj parent).mpr (by simp))
      unfold relabel
      by_cases hco : c = old
      · subst hco
        have ht : isPrefix (parent ++ [c]) (parent ++ c :: r) = true :=
          (isPrefix_iff _ _).mpr ((List.prefix_append_right_inj parent).mpr (by simp))
        rw [ht]
        simp [swapHead, swapName]
      · have hf : isPrefix (parent ++ [old]) (parent ++ c :: r) = false := by
          cases hh : isPrefix (parent ++ [old]) (parent ++ c :: r) with
          | false => rfl
          | true =>
            have := (List.prefix_append_right_inj parent).mp ((isPrefix_iff _ _).mp hh)
            simp at this
            exact absurd this.symm hco
        rw [hf]
        simp [swapHead, swapName, hco, hc]
  · rw [swapAt_of_not_prefix parent old new q h]
    unfold relabel
    have hf : isPrefix (parent ++ [old]) q = false := by
      cases hh : isPrefix (parent ++ [old]) q with
      | false => rfl
      | true => exact absurd ((List.prefix_append parent [old]).trans ((isPrefix_iff _ _).mp hh)) h
    rw [hf]; rfl

/-! ## ids are closed under non-empty prefixes -/

theorem WF.prefix_mem_ids {st : St} (h : WF st) (a : Path) (ha : a ≠ []) :
    ∀ (t : Path), (a ++ t) ∈ st.ids → a ∈ st.ids := by
  have key : ∀ (k : Nat) (t : Path), t.length = k → (a ++ t) ∈ st.ids → a ∈ st.ids := by
    intro k
    induction k with
    | zero =>
      intro t ht hx
      have : t = [] := List.length_eq_zero_iff.mp ht
      subst this
      simpa using hx
    | succ k ih =>
      intro t ht hx
      have ht0 : t ≠ [] := by intro e; subst e; simp at ht
      obtain ⟨t', n, rfl⟩ : ∃ t' n, t = t' ++ [n] :=
        ⟨t.dropLast, t.getLast ht0, (List.dropLast_concat_getLast ht0).symm⟩
      apply ih t' (by simpa using ht)
      have := (h.tree _ hx).2
      rw [← List.append_assoc, List.dropLast_concat] at this
      rcases this with e | e
      · exact absurd (List.append_eq_nil_iff.mp e).1 ha
      · exact e
  intro t
  exact key t.length t rfl

theorem WF.no_id_below {st : St} (h : WF st) (a : Path) (ha : a ≠ []) (hn : a ∉ st.ids) (x : Path)
    (hx : x ∈ st.ids) : ¬ a <+: x := by
  rintro ⟨t, rfl⟩
  exact hn (h.prefix_mem_ids a ha t hx)

/-! ## what `_can_add(parent, new, UserSpaceImpl)` gives -/

theorem canAdd_space_free {st : St} (h : WF st) (parent : Path) (new : String)
    (hc : st.canAdd parent new .space = true) :
    (parent ++ [new]) ∉ st.ids ∧ st.mem .cells parent new = none ∧ st.mem .refs parent new = none ∧
      (parent = [] → new ∉ st.globals) := by
  unfold St.canAdd at hc
  by_cases hp : parent = []
  · subst hp
    simp only [BEq.rfl, if_true, Bool.not_eq_true', Bool.or_eq_false_iff, List.contains_eq_mem,
      decide_eq_false_iff_not] at hc
    have h0 : ([] : Path) ∉ st.ids := fun hh => (h.tree [] hh).1 rfl
    refine ⟨fun hh => hc.1 ((mem_childNames st [] new).mpr hh), St.mem_of_not_mem st _ [] new h0,
      St.mem_of_not_mem st _ [] new h0, fun _ => hc.2⟩
  · have hpb : (parent == []) = false := by
      cases hh : parent == [] with
      | false => rfl
      | true => exact absurd (beq_iff_eq.mp hh) hp
    rw [hpb] at hc
    simp only [Bool.false_eq_true, if_false] at hc
    split at hc
    · cases hc
    · rename_i hk
      have hk' : st.kindOf parent new = none := by
        cases hh : st.kindOf parent new with
        | none => rfl
        | some k => rw [hh] at hk; exact absurd rfl hk
      unfold St.kindOf at hk'
      split at hk'
      · cases hk'
      · rename_i h1
        split at hk'
        · cases hk'
        · rename_i h2
          split at hk'
          · cases hk'
          · rename_i h3
            simp only [Bool.or_eq_true, not_or, Bool.not_eq_true, Option.isSome_eq_false_iff,
              Option.isNone_iff_eq_none, List.contains_eq_mem, decide_eq_true_eq] at h1 h2 h3
            refine ⟨fun hh => h3 ((mem_childNames st parent new).mpr hh), ?_, ?_, fun e => absurd e hp⟩
            · simpa using h1
            · simpa using h2.1

/-! ## the invariant -/

theorem mapPaths_congr (st : St) (ρ ρ' : Path → Path)
    (h : ∀ s ∈ st.spaces, ρ s.id = ρ' s.id ∧ ∀ b ∈ s.bases, ρ b = ρ' b) :
    st.mapPaths ρ = { st.mapPaths ρ' with namers := st.namers.map (fun e => (ρ e.1, e.2)) } := by
  unfold St.mapPaths
  simp only [St.mk.injEq, and_true]
  apply List.map_congr_left
  intro s hs
  obtain ⟨h1, h2⟩ := h s hs
  unfold Space.mapPaths
  rw [h1, List.map_congr_left h2]

/-- what an accepted `renameSpace` is: the bijection applied to every id and base (and the code's
mapping to the keys of the name counters) -/
theorem renameSpace_ok (kw : List String) (st st' : St) (h : WF st) (p : Path) (new : String)
    (hop : st.renameSpace kw p new = .ok st') :
    ∃ parent old, p = parent ++ [old] ∧ p ∈ st.ids ∧ Names.isValidName kw new = true ∧
      st.canAdd parent new .space = true ∧
      st' = { st.mapPaths (swapAt parent old new) with namers := st.namers.map (fun e => (relabel p new e.1, e.2)) } ∧
      ∀ x ∈ st.ids, relabel p new x = swapAt parent old new x := by
  unfold St.renameSpace at hop
  split at hop
  · cases hop
  · rename_i h1
    split at hop
    · cases hop
    · rename_i h2
      split at hop
      · cases hop
      · rename_i h3
        simp only [Bool.or_eq_true, beq_iff_eq, Bool.not_eq_true', not_or, Bool.not_eq_false] at h1 h2 h3
        simp only [Except.ok.injEq] at hop
        obtain ⟨hp0, hhas⟩ := h1
        have hpid : p ∈ st.ids := (has_iff_mem_ids st p).mp hhas
        have hpe : p = p.dropLast ++ [p.getLast hp0] := (List.dropLast_concat_getLast hp0).symm
        have hfree := (canAdd_space_free h p.dropLast new h3).1
        have hno := h.no_id_below (p.dropLast ++ [new]) (by simp) hfree
        refine ⟨p.dropLast, p.getLast hp0, hpe, hpid, h2, h3, ?_,
          fun x hx => relabel_eq_swapAt' p hp0 new x (hno _ hx)⟩
        rw [← hop]
        apply mapPaths_congr
        intro s hs
        have hsid : s.id ∈ st.ids := List.mem_map.mpr ⟨s, hs, rfl⟩
        refine ⟨?_, ?_⟩
        · exact relabel_eq_swapAt' p hp0 new s.id (hno _ hsid)
        · intro b hb
          have hbid : b ∈ st.ids := by
            apply h.bases s.id b
            unfold St.basesOf
            rw [find_of_mem st h.nodup s hs]
            exact hb
          exact relabel_eq_swapAt' p hp0 new b (hno _ hbid)
where
  relabel_eq_swapAt' (p : Path) (hp0 : p ≠ []) (new : String) (q : Path)
      (hq : ¬ (p.dropLast ++ [new]) <+: q) :
      relabel p new q = swapAt p.dropLast (p.getLast hp0) new q := by
    have := relabel_eq_swapAt p.dropLast (p.getLast hp0) new q hq
    rwa [List.dropLast_concat_getLast hp0] at this

/-- **an accepted `rename_space` keeps the invariant** (derivation from scratch, well-formedness,
disjoint names) -/
theorem inv_renameSpace (kw : List String) (st st' : St) (h : Inv st) (p : Path) (new : String)
    (hop : st.renameSpace kw p new = .ok st') : Inv st' := by
  obtain ⟨parent, old, rfl, hpid, _, hca, rfl, _⟩ := renameSpace_ok kw st st' h.wf _ new hop
  apply inv_namers
  obtain ⟨hfree, hc, hr, hg⟩ := canAdd_space_free h.wf parent new hca
  apply inv_mapPaths _ st (swapAt_inj parent old new) (swapAt_nil parent old new)
    (fun q n => ⟨_, swapAt_snoc parent old new q n⟩) ?_ h
  intro q n n' hqn he
  rw [swapAt_snoc] at he
  have hn' : n' = if q = parent then swapName old new n else n := by
    have := (List.append_inj' he rfl).2
    simpa using this.symm
  by_cases hq : q = parent
  · subst hq
    simp only [if_true] at hn'
    by_cases h1 : n = old
    · right
      subst h1
      have : n' = new := by rw [hn']; simp [swapName]
      subst this
      exact ⟨hc, hr, hg⟩
    · by_cases h2 : n = new
      · subst h2; exact absurd hqn hfree
      · left; rw [hn']; simp [swapName, h1, h2]
  · left; rw [hn']; simp [hq]

/-! ## valid names -/

theorem mem_swapAt (parent : Path) (a b : String) (q : Path) (c : String) (hc : c ∈ swapAt parent a b q) :
    c ∈ q ∨ c = a ∨ c = b := by
  by_cases h : parent <+: q
  · obtain ⟨d, rfl⟩ := h
    rw [swapAt_append] at hc
    cases d with
    | nil => left; simpa [swapHead] using hc
    | cons c0 r =>
      simp only [swapHead, List.mem_append, List.mem_cons] at hc
      rcases hc with hc | hc | hc
      · left; simp [hc]
      · unfold swapName at hc
        split at hc
        · right; right; exact hc
        · split at hc
          · right; left; exact hc
          · left; simp [hc]
      · left; simp [hc]
  · rw [swapAt_of_not_prefix parent a b q h] at hc
    exact Or.inl hc

/-- **an accepted `rename_space` introduces only a valid name** -/
theorem namesOK_renameSpace (kw : List String) (st st' : St) (h : Inv st) (hn : NamesOK kw st) (p : Path)
    (new : String) (hop : st.renameSpace kw p new = .ok st') : NamesOK kw st' := by
  obtain ⟨parent, old, rfl, hpid, hv, _, rfl, _⟩ := renameSpace_ok kw st st' h.wf _ new hop
  refine ⟨?_, ?_⟩
  · intro q' hq' c hc
    obtain ⟨q, hq, rfl⟩ := (mem_ids_mapPaths (swapAt parent old new) st q').mp hq'
    rcases mem_swapAt parent old new q c hc with e | e | e
    · exact hn.ids q hq c e
    · subst e; exact hn.ids _ hpid c (by simp)
    · subst e; exact hv
  · intro a q' n hd
    have : (st.mapPaths (swapAt parent old new)).defd a q' n = st.defd a (swapAt parent old new q') n := by
      have := defd_mapPaths (swapAt parent old new) st (swapAt_inj parent old new) a (swapAt parent old new q') n
      rwa [swapAt_invol] at this
    have hd' : ((st.mapPaths (swapAt parent old new)).defd a q' n).isSome = true := hd
    rw [this] at hd'
    exact hn.defs a _ n hd'

/-! ## derivation from scratch commutes with the renaming -/

/-- **an accepted `rename_space` is the relabelling `ρ = relabel p new` of the whole structural state**:
the spaces are the images of the spaces; the direct bases and the C3 linearisation of `ρ q` are the
images of those of `q`; the member table and the definitions of `ρ q` are those of `q`. -/
theorem renameSpace_commutes (kw : List String) (st st' : St) (h : Inv st) (p : Path) (new : String)
    (hop : st.renameSpace kw p new = .ok st') :
    st'.ids = st.ids.map (relabel p new) ∧ st'.globals = st.globals ∧
    ∀ q ∈ st.ids,
      st'.basesOf (relabel p new q) = (st.basesOf q).map (relabel p new) ∧
      st'.mro (relabel p new q) = (st.mro q).map (List.map (relabel p new)) ∧
      st'.tail (relabel p new q) = (st.tail q).map (relabel p new) ∧
      ∀ a n, st'.mem a (relabel p new q) n = st.mem a q n ∧ st'.defd a (relabel p new q) n = st.defd a q n := by
  obtain ⟨parent, old, hp, hpid, _, _, rfl, hag⟩ := renameSpace_ok kw st st' h.wf _ new hop
  have hρ := swapAt_inj parent old new
  have hmap : ∀ l : List Path, (∀ x ∈ l, x ∈ st.ids) → l.map (relabel p new) = l.map (swapAt parent old new) :=
    fun l hl => List.map_congr_left (fun x hx => hag x (hl x hx))
  refine ⟨?_, rfl, ?_⟩
  · rw [hmap st.ids (fun _ hx => hx)]
    exact ids_mapPaths _ st
  · intro q hq
    rw [hag q hq]
    have htail : ∀ x ∈ st.tail q, x ∈ st.ids := fun x hx => h.wf.tail_mem_ids q x hx
    refine ⟨?_, ?_, ?_, ?_⟩
    · rw [hmap _ (fun b hb => h.wf.bases q b hb)]
      exact basesOf_mapPaths _ st hρ q
    · have : (st.mro q).map (List.map (relabel p new)) = (st.mro q).map (List.map (swapAt parent old new)) := by
        rw [h.wf.mro_all q]
        simp only [Option.map_some, List.map_cons, hag q hq, hmap _ htail]
      rw [this]
      have := mro_mapPaths _ st hρ q
      exact this
    · rw [hmap _ htail]
      exact tail_mapPaths _ st hρ q
    · intro a n
      exact ⟨mem_mapPaths _ st hρ a q n, defd_mapPaths _ st hρ a q n⟩

/-! ## histories with renames -/

theorem applyR_renameSpace (kw : List String) (st : St) (p : Path) (new : String) :
    st.applyR kw (.renameSpace p new) =
      (match st.renameSpace kw p new with | .ok st' => some st' | .error _ => none) := rfl

theorem invN_stepR (kw : List String) (st : St) (op : OpR) (h : InvN kw st) : InvN kw (st.stepR kw op).1 := by
  cases op with
  | op o =>
    have : st.stepR kw (.op o) = st.step kw o := rfl
    rw [this]
    exact invN_step kw st o h
  | renameSpace p new =>
    unfold St.stepR
    rw [applyR_renameSpace]
    cases hop : st.renameSpace kw p new with
    | error e => exact h
    | ok st' => exact ⟨inv_renameSpace kw st st' h.toInv p new hop, namesOK_renameSpace kw st st' h.toInv h.names p new hop⟩

theorem invN_runR (kw : List String) (ops : List OpR) : ∀ (st : St), InvN kw st → InvN kw (St.runR kw st ops) := by
  induction ops with
  | nil => intro st h; exact h
  | cons op ops ih =>
    intro st h
    unfold St.runR
    simp only [List.foldl_cons]
    exact ih _ (invN_stepR kw st op h)

/-- **every state reachable from the empty model by the twelve operations AND `rename_space` satisfies
the invariant including the name clause** -/
theorem runR_invN (kw : List String) (ops : List OpR) : InvN kw (St.runR kw {} ops) :=
  invN_runR kw ops {} ⟨inv_empty, namesOK_empty kw⟩

theorem runR_inv (kw : List String) (ops : List OpR) : Inv (St.runR kw {} ops) := (runR_invN kw ops).toInv

/-- histories without renames are the histories of `St.run` -/
theorem runR_map_op (kw : List String) (ops : List Op) : ∀ (st : St), St.runR kw st (ops.map .op) = St.run kw st ops := by
  induction ops with
  | nil => intro st; rfl
  | cons o ops ih =>
    intro st
    unfold St.runR St.run
    simp only [List.map_cons, List.foldl_cons]
    exact ih _

/-- a refused `rename_space` changes nothing (the step function keeps the state) -/
theorem stepR_refused (kw : List String) (st : St) (p : Path) (new : String) (e : RenameErr)
    (h : st.renameSpace kw p new = .error e) : st.stepR kw (.renameSpace p new) = (st, false) := by
  unfold St.stepR
  rw [applyR_renameSpace, h]

end MxModel.SM
