import MxModel.Proofs.SerialParse
/-! The schedule of the instructions of a description: which instructions run in which phase. -/
namespace MxModel.Serial
open MxModel.PathCodec MxModel.Generated

/-- instruction `o` runs in phase `k` -/
def phk (k : Nat) (o : Op) : Bool := decide (o.phase = some k)

theorem schedule_eq {α : Type} (ph : α → Option Nat) (l : List α) :
    schedule ph l = l.filter (fun i => ph i = some 0) ++ l.filter (fun i => ph i = some 1) ++
      l.filter (fun i => ph i = some 2) ++ l.filter (fun i => ph i = some 3) ++ l.filter (fun i => ph i = some 4) := by
  simp [schedule, readerPhases_length, List.range_succ]

theorem phase_trailerOps (c : CellsD) : ∀ o ∈ trailerOps c, o.phase = some 0 := by
  intro o ho
  unfold trailerOps at ho
  cases hf : c.formula <;> cases hd : c.doc <;> cases ha : c.allowNone <;> cases hc : c.isCached <;>
    simp [hf, hd, ha, hc] at ho <;>
    (first | (rcases ho with rfl | rfl | rfl) | (rcases ho with rfl | rfl) | (cases ho)) <;>
    first | exact phase_cellsDoc _ _ | exact phase_cellsAllowNone _ _ | exact phase_cellsCached _ _

theorem phase_refOpOf (isModel : Bool) (model : Name) (owner : Path) (r : Name × RefVal × Name) :
    (refOpOf isModel model owner r).phase = some 3 := by
  unfold refOpOf
  split
  · exact phase_setRef _ _ _
  · exact phase_setAttr _ _

theorem phase_dynOpOf (model : Name) (path : Path) (d : DynInput) : (dynOpOf model path d).phase = some 4 :=
  phase_dynInput _ _ _

/-- what a cells definition contributes to the first phase -/
def cellOps0 (c : CellsD) : List Op := Op.newCells c.name (readFormula c.formula) :: trailerOps c

theorem filter_cellOps (c : CellsD) :
    (cellOps c).filter (phk 0) = cellOps0 c ∧ (cellOps c).filter (phk 1) = [] ∧
    (cellOps c).filter (phk 2) = [Op.loadPickle c.name c.inputs] ∧ (cellOps c).filter (phk 3) = [] ∧
    (cellOps c).filter (phk 4) = [] := by
  have h0 : (trailerOps c).filter (phk 0) = trailerOps c :=
    List.filter_eq_self.mpr (fun o ho => by simp [phk, phase_trailerOps c o ho])
  have hk : ∀ k, k ≠ 0 → (trailerOps c).filter (phk k) = [] := fun k hk =>
    List.filter_eq_nil_iff.mpr (fun o ho => by simp [phk, phase_trailerOps c o ho]; omega)
  unfold cellOps cellOps0
  refine ⟨?_, ?_, ?_, ?_, ?_⟩ <;>
    simp [List.filter_cons, List.filter_append, phk, phase_newCells, phase_loadPickle, h0, hk] <;>
    simp [← phk, h0, hk]

def docOps (d : Option Text) : List Op :=
  match d with
  | some d => [Op.setDoc d]
  | none => []

theorem filter_docOps (d : Option Text) (k : Nat) :
    (docOps d).filter (phk k) = if k = 0 then docOps d else [] := by
  cases d with
  | none => simp [docOps]
  | some d =>
    by_cases hk : k = 0
    · simp [docOps, phk, phase_setDoc, hk]
    · simp [docOps, phk, phase_setDoc, hk]; omega

theorem filter_all_phase (l : List Op) (j k : Nat) (h : ∀ o ∈ l, o.phase = some j) :
    l.filter (phk k) = if j = k then l else [] := by
  by_cases hjk : j = k
  · rw [if_pos hjk]
    exact List.filter_eq_self.mpr (fun o ho => by simp [phk, h o ho, hjk])
  · rw [if_neg hjk]
    exact List.filter_eq_nil_iff.mpr (fun o ho => by simp [phk, h o ho, hjk])

def refOps (model : Name) (parent : Path) (i : SpaceInfo) : List Op :=
  (spaceRefs i).map (refOpOf false model (parent ++ [i.name]))

def dynOpsOf (model : Name) (parent : Path) (i : SpaceInfo) : List Op :=
  i.dynInputs.map (dynOpOf model (parent ++ [i.name]))

theorem opsOfSpace_eq (model : Name) (parent : Path) (i : SpaceInfo) :
    opsOfSpace model parent i = docOps i.doc ++
      [Op.setFormula (readOptFormula i.formula), Op.addBases (i.bases.map (dotted model)),
       Op.setAllowNone i.allowNone] ++ i.cells.flatMap cellOps ++ refOps model parent i ++
      dynOpsOf model parent i := by
  unfold opsOfSpace stmtOpsOfSpace docOps refOps dynOpsOf
  cases i.doc <;> simp

/-- the instructions of one space, phase by phase -/
theorem filter_opsOfSpace (model : Name) (parent : Path) (i : SpaceInfo) :
    (opsOfSpace model parent i).filter (phk 0) =
      docOps i.doc ++ [Op.setFormula (readOptFormula i.formula), Op.setAllowNone i.allowNone] ++
        i.cells.flatMap cellOps0 ∧
    (opsOfSpace model parent i).filter (phk 1) = [Op.addBases (i.bases.map (dotted model))] ∧
    (opsOfSpace model parent i).filter (phk 2) = i.cells.map (fun c => Op.loadPickle c.name c.inputs) ∧
    (opsOfSpace model parent i).filter (phk 3) = refOps model parent i ∧
    (opsOfSpace model parent i).filter (phk 4) = dynOpsOf model parent i := by
  have hr : ∀ k, (refOps model parent i).filter (phk k) = if 3 = k then refOps model parent i else [] :=
    fun k => filter_all_phase _ 3 k (fun o ho => by
      simp only [refOps, List.mem_map] at ho
      obtain ⟨r, _, rfl⟩ := ho
      exact phase_refOpOf _ _ _ _)
  have hd : ∀ k, (dynOpsOf model parent i).filter (phk k) = if 4 = k then dynOpsOf model parent i else [] :=
    fun k => filter_all_phase _ 4 k (fun o ho => by
      simp only [dynOpsOf, List.mem_map] at ho
      obtain ⟨r, _, rfl⟩ := ho
      exact phase_dynOpOf _ _ _)
  have hc0 : (i.cells.flatMap cellOps).filter (phk 0) = i.cells.flatMap cellOps0 := by
    rw [List.filter_flatMap]; congr 1; funext c; exact (filter_cellOps c).1
  have hc1 : (i.cells.flatMap cellOps).filter (phk 1) = [] := by
    rw [List.filter_flatMap]; simp [(filter_cellOps _).2.1]
  have hc2 : (i.cells.flatMap cellOps).filter (phk 2) = i.cells.map (fun c => Op.loadPickle c.name c.inputs) := by
    rw [List.filter_flatMap]
    simp only [(filter_cellOps _).2.2.1]
    induction i.cells with
    | nil => rfl
    | cons c rest ih => simp [List.flatMap_cons, ih]
  have hc3 : (i.cells.flatMap cellOps).filter (phk 3) = [] := by
    rw [List.filter_flatMap]; simp [(filter_cellOps _).2.2.2.1]
  have hc4 : (i.cells.flatMap cellOps).filter (phk 4) = [] := by
    rw [List.filter_flatMap]; simp [(filter_cellOps _).2.2.2.2]
  rw [opsOfSpace_eq]
  refine ⟨?_, ?_, ?_, ?_, ?_⟩ <;>
    simp only [List.filter_append, filter_docOps, hr, hd, hc0, hc1, hc2, hc3, hc4] <;>
    simp [List.filter_cons, phk, phase_setFormula, phase_addBases, phase_setAllowNone]

end MxModel.Serial
