import MxModel.Proofs.StructMechApi
/-!
# Every reachable state of the incremental mechanism satisfies `Inv`

`inv_apply`: every accepted operation preserves the invariant (one lemma per constructor of `Op`,
files `StructMechOps1` … `StructMechOps5`, `StructMechApi`); `run_inv`: induction over the operation list.
-/
namespace MxModel.SM

theorem inv_empty : Inv ({} : St) := by
  have hids : ({} : St).ids = [] := rfl
  refine ⟨⟨by rw [hids]; simp, ?_, ?_, ?_, ?_⟩, ?_, ⟨?_, ?_, ?_⟩⟩
  · intro q b hb
    rw [St.basesOf_of_not_mem _ q (by rw [hids]; simp)] at hb; cases hb
  · intro q hq; rw [hids] at hq; cases hq
  · intro a q
    rw [St.cont_of_not_mem _ a q (by rw [hids]; simp)]; simp [keys]
  · intro q hq; rw [hids] at hq; cases hq
  · intro a q n
    exact Good1.of_not_mem _ a q n (by rw [hids]; simp)
  · intro q n hh
    rw [St.mem_of_not_mem _ .cells q n (by rw [hids]; simp)] at hh; cases hh
  · intro q n hn
    rw [mem_childNames, hids] at hn; cases hn
  · intro n hn; cases hn

/-- **every accepted operation preserves the invariant** -/
theorem inv_apply (kw : List String) (st st' : St) (op : Op) (h : Inv st)
    (hop : st.apply kw op = some st') : Inv st' := by
  cases op with
  | newSpace parent name bases refs => exact inv_newSpaceRefs kw st st' h parent name bases refs hop
  | delSpace p => exact inv_delSpaceOp st st' h p hop
  | newCells p name fname v => exact inv_newCellsNamed kw st st' h p name fname v hop
  | setFormula p name v => exact inv_setFormula st st' h p name v hop
  | delCells p name => exact inv_delMember st st' h .cells p name hop
  | renameCells p old new => exact inv_renameCells kw st st' h p old new hop
  | addBases p bs => exact inv_addBases st st' h p bs hop
  | removeBases p bs => exact inv_removeBases st st' h p bs hop
  | setRef p name v => exact inv_setRef kw st st' h p name v hop
  | delRef p name => exact inv_delMember st st' h .refs p name hop
  | setGlobal name => exact inv_setGlobal st st' h name hop
  | delGlobal name => exact inv_delGlobal st st' h name hop

theorem inv_step (kw : List String) (st : St) (op : Op) (h : Inv st) : Inv (st.step kw op).1 := by
  unfold St.step
  cases hop : st.apply kw op with
  | none => exact h
  | some st' => exact inv_apply kw st st' op h hop

theorem inv_run (kw : List String) (ops : List Op) : ∀ (st : St), Inv st → Inv (St.run kw st ops) := by
  induction ops with
  | nil => intro st h; exact h
  | cons op ops ih =>
    intro st h
    unfold St.run
    simp only [List.foldl_cons]
    exact ih _ (inv_step kw st op h)

/-- **every state reachable from the empty model satisfies the invariant** -/
theorem run_inv (kw : List String) (ops : List Op) : Inv (St.run kw {} ops) :=
  inv_run kw ops {} inv_empty

end MxModel.SM
