import MxModel.Proofs.IOSpecFrame
/-! The invariant `RInv` (C18's statement on the model) and its preservation by the operations of
the ReferenceManager. -/
namespace MxModel.IOSpec

/-- the entry of `_valid_to_refs` for value `v` of model `m` is right: it lists, without
repetition, exactly the live references of the model bound to `v`; there is no entry only if
no tracked reference is bound to `v` -/
def EntryOK (refs : List Ref) (m : Nat) (v : Val) : Option (List Ref) → Prop
  | some l => l ≠ [] ∧ l.Nodup ∧ v.tracked = true ∧
      ∀ r, r ∈ l ↔ (r ∈ refs ∧ r.owner.model = m ∧ r.val = v)
  | none => ∀ r ∈ refs, r.owner.model = m → r.val = v → v.tracked = false

structure RInvX (ex : Spec → Prop) (st : St) : Prop where
  ridLt : ∀ r ∈ st.refs, r.rid < st.nextRid
  /-- one reference per (parent, name) -/
  refKey : ∀ r ∈ st.refs, ∀ r' ∈ st.refs, r.owner = r'.owner → r.name = r'.name → r = r'
  /-- `_valid_to_refs` lists exactly the references bound to each value -/
  entry : ∀ m v, EntryOK st.refs m v (alookup st.v2r (m, v))
  keys : (st.v2r.map (·.1)).Nodup
  /-- every spec's value is bound to a reference of its model (`ex`: the spec `new_pandas` has
  just created and is about to bind) -/
  specRef : ∀ σ ∈ st.specs, ¬ ex σ → ∃ r ∈ st.refs, r.owner.model = σ.group ∧ r.val = σ.val
  /-- one spec per value and model -/
  specVal : ∀ σ ∈ st.specs, ∀ τ ∈ st.specs, σ.group = τ.group → σ.val = τ.val → σ = τ
  specPandas : ∀ σ ∈ st.specs, σ.val.isPandas = true
  sid : SidOK (sp st)

/-- the invariant of C18 -/
abbrev RInv (st : St) : Prop := RInvX (fun _ => False) st

/-- `RInvX` without "one reference per (parent, name)": holds also in the middle of `change_ref`,
when the new reference is registered and the previous one not yet dropped -/
structure RCore (ex : Spec → Prop) (st : St) : Prop where
  ridLt : ∀ r ∈ st.refs, r.rid < st.nextRid
  entry : ∀ m v, EntryOK st.refs m v (alookup st.v2r (m, v))
  keys : (st.v2r.map (·.1)).Nodup
  specRef : ∀ σ ∈ st.specs, ¬ ex σ → ∃ r ∈ st.refs, r.owner.model = σ.group ∧ r.val = σ.val
  specVal : ∀ σ ∈ st.specs, ∀ τ ∈ st.specs, σ.group = τ.group → σ.val = τ.val → σ = τ
  specPandas : ∀ σ ∈ st.specs, σ.val.isPandas = true
  sid : SidOK (sp st)

variable {ex : Spec → Prop}

theorem RInvX.core {st : St} (h : RInvX ex st) : RCore ex st :=
  ⟨h.ridLt, h.entry, h.keys, h.specRef, h.specVal, h.specPandas, h.sid⟩

theorem RCore.withKey {st : St} (c : RCore ex st)
    (k : ∀ r ∈ st.refs, ∀ r' ∈ st.refs, r.owner = r'.owner → r.name = r'.name → r = r') : RInvX ex st :=
  ⟨c.ridLt, k, c.entry, c.keys, c.specRef, c.specVal, c.specPandas, c.sid⟩

theorem tracked_of_isPandas {v : Val} (h : v.isPandas = true) : v.tracked = true := by
  cases v <;> simp_all [Val.isPandas, Val.tracked]

theorem entryOK_congr {refs refs' : List Ref} {m : Nat} {v : Val} {e : Option (List Ref)}
    (h : ∀ r, (r ∈ refs' ∧ r.owner.model = m ∧ r.val = v) ↔ (r ∈ refs ∧ r.owner.model = m ∧ r.val = v))
    (he : EntryOK refs m v e) : EntryOK refs' m v e := by
  cases e with
  | none =>
    intro r hr hm hv
    exact he r ((h r).mp ⟨hr, hm, hv⟩).1 hm hv
  | some l =>
    obtain ⟨h1, h2, h3, h4⟩ := he
    exact ⟨h1, h2, h3, fun r => (h4 r).trans (h r).symm⟩

/-- with the invariant, removing the name `n` of `o` removes exactly the reference found there -/
theorem mem_refErase_of_lookup {st : St} (h : RInvX ex st) {o : Owner} {n : String} {prev : Ref}
    (hl : refLookup st.refs o n = some prev) (r : Ref) :
    r ∈ refErase st.refs o n ↔ r ∈ st.refs ∧ r ≠ prev := by
  obtain ⟨hp, ho, hn⟩ := refLookup_some hl
  rw [mem_refErase]
  constructor
  · rintro ⟨hr, hne⟩
    exact ⟨hr, fun e => hne (e ▸ ⟨ho, hn⟩)⟩
  · rintro ⟨hr, hne⟩
    exact ⟨hr, fun ⟨e1, e2⟩ => hne (h.refKey r hr prev hp (e1.trans ho.symm) (e2.trans hn.symm))⟩

/-! ### `new_ref` -/

theorem rcore_rmNewRef {st : St} (h : RCore ex st) (o : Owner) (n : String) (v : Val) :
    RCore ex (rmNewRef st o n v) := by
  have hfresh : ∀ r ∈ st.refs, r ≠ mkRef st o n v := by
    intro r hr e
    have := h.ridLt r hr
    rw [e] at this
    simp [mkRef] at this
  have hsid : SidOK (sp (rmNewRef st o n v)) := by rw [sp_rmNewRef]; exact h.sid
  have hrefs : (rmNewRef st o n v).refs = st.refs ++ [mkRef st o n v] := by
    unfold rmNewRef; split <;> rfl
  have hspecs : (rmNewRef st o n v).specs = st.specs := by
    unfold rmNewRef; split <;> rfl
  have hrid : (rmNewRef st o n v).nextRid = st.nextRid + 1 := by
    unfold rmNewRef; split <;> rfl
  refine ⟨?_, ?_, ?_, ?_, ?_, ?_, hsid⟩
  · intro r hr
    rw [hrefs] at hr; rw [hrid]
    simp only [List.mem_append, List.mem_singleton] at hr
    rcases hr with hr | rfl
    · have := h.ridLt r hr; omega
    · simp [mkRef]
  · intro m' v'
    rw [hrefs]
    have hold := h.entry m' v'
    by_cases htr : v.tracked = true
    · have hv2r : (rmNewRef st o n v).v2r =
          ainsert st.v2r (o.model, v) ((alookup st.v2r (o.model, v)).getD [] ++ [mkRef st o n v]) := by
        unfold rmNewRef; simp only [htr, if_true]; rfl
      rw [hv2r, alookup_ainsert]
      by_cases hk : (o.model, v) = (m', v')
      · simp only [hk, if_true]
        obtain ⟨rfl, rfl⟩ := Prod.mk.inj hk
        cases he : alookup st.v2r (o.model, v) with
        | none =>
          rw [he] at hold
          refine ⟨by simp, by simp, htr, ?_⟩
          intro r
          simp only [Option.getD_none, List.nil_append, List.mem_singleton, List.mem_append]
          constructor
          · rintro rfl; exact ⟨Or.inr rfl, rfl, rfl⟩
          · rintro ⟨hr | hr, hm, hv⟩
            · have := hold r hr hm hv; rw [htr] at this; cases this
            · exact hr
        | some l =>
          rw [he] at hold
          obtain ⟨h1, h2, h3, h4⟩ := hold
          refine ⟨by simp, ?_, htr, ?_⟩
          · simp only [Option.getD_some]
            rw [List.nodup_append]
            refine ⟨h2, by simp, ?_⟩
            intro a ha b hb
            simp only [List.mem_singleton] at hb
            subst hb
            exact hfresh a ((h4 a).mp ha).1
          · intro r
            simp only [Option.getD_some, List.mem_append, List.mem_singleton, h4 r]
            constructor
            · rintro (hr | rfl)
              · exact ⟨Or.inl hr.1, hr.2⟩
              · exact ⟨Or.inr rfl, rfl, rfl⟩
            · rintro ⟨hr | hr, hm, hv⟩
              · exact Or.inl ⟨hr, hm, hv⟩
              · exact Or.inr hr
      · simp only [hk, if_false]
        refine entryOK_congr ?_ hold
        intro r
        simp only [List.mem_append, List.mem_singleton]
        constructor
        · rintro ⟨hr | rfl, hm, hv⟩
          · exact ⟨hr, hm, hv⟩
          · exact absurd (by simp [mkRef] at hm hv; rw [hm, hv]) hk
        · rintro ⟨hr, hm, hv⟩; exact ⟨Or.inl hr, hm, hv⟩
    · have hv2r : (rmNewRef st o n v).v2r = st.v2r := by
        unfold rmNewRef; simp only [htr]; rfl
      rw [hv2r]
      cases he : alookup st.v2r (m', v') with
      | none =>
        rw [he] at hold
        intro r hr hm hv
        simp only [List.mem_append, List.mem_singleton] at hr
        rcases hr with hr | rfl
        · exact hold r hr hm hv
        · simp only [mkRef] at hv; subst hv; simpa using htr
      | some l =>
        rw [he] at hold
        obtain ⟨h1, h2, h3, h4⟩ := hold
        refine ⟨h1, h2, h3, ?_⟩
        intro r
        simp only [h4 r, List.mem_append, List.mem_singleton]
        constructor
        · rintro ⟨hr, hm, hv⟩; exact ⟨Or.inl hr, hm, hv⟩
        · rintro ⟨hr | rfl, hm, hv⟩
          · exact ⟨hr, hm, hv⟩
          · simp only [mkRef] at hv; subst hv; exact absurd h3 htr
  · unfold rmNewRef
    split
    · exact ainsert_keys_nodup h.keys _ _
    · exact h.keys
  · intro σ hσ hex
    rw [hspecs] at hσ; rw [hrefs]
    obtain ⟨r, hr, hm, hv⟩ := h.specRef σ hσ hex
    exact ⟨r, by simp [hr], hm, hv⟩
  · rw [hspecs]; exact h.specVal
  · rw [hspecs]; exact h.specPandas

theorem rinv_rmNewRef {st : St} (h : RInvX ex st) {o : Owner} {n : String} (v : Val)
    (hl : refLookup st.refs o n = none) : RInvX ex (rmNewRef st o n v) := by
  refine (rcore_rmNewRef h.core o n v).withKey ?_
  have hrefs : (rmNewRef st o n v).refs = st.refs ++ [mkRef st o n v] := by
    unfold rmNewRef; split <;> rfl
  intro r hr r' hr' ho hn
  rw [hrefs] at hr hr'
  simp only [List.mem_append, List.mem_singleton] at hr hr'
  rcases hr with hr | rfl <;> rcases hr' with hr' | rfl
  · exact h.refKey r hr r' hr' ho hn
  · exact absurd ⟨ho, hn⟩ (refLookup_none hl r hr)
  · exact absurd ⟨ho.symm, hn.symm⟩ (refLookup_none hl r' hr')
  · rfl

/-! ### `del_ref` -/

/-- the state after one tracked reference `prev` went away and its entry was repaired -/
theorem rcore_after_del {st s' : St} (h : RCore ex st) {prev : Ref} {l : List Ref}
    (hp : prev ∈ st.refs)
    (hl : alookup st.v2r (prev.owner.model, prev.val) = some l)
    (hrefs : ∀ r, r ∈ s'.refs ↔ r ∈ st.refs ∧ r ≠ prev)
    (hrid : s'.nextRid = st.nextRid)
    (hcase : (l.erase prev = [] ∧ s'.v2r = aerase st.v2r (prev.owner.model, prev.val) ∧
                ∀ τ, τ ∈ s'.specs ↔ τ ∈ st.specs ∧ ¬ (τ.group = prev.owner.model ∧ τ.val = prev.val)) ∨
             (l.erase prev ≠ [] ∧ s'.v2r = ainsert st.v2r (prev.owner.model, prev.val) (l.erase prev) ∧
                s'.specs = st.specs))
    (hsid : SidOK (sp s')) : RCore ex s' := by
  have hE := h.entry prev.owner.model prev.val
  rw [hl] at hE
  obtain ⟨e1, e2, e3, e4⟩ := hE
  have hl' : ∀ r, r ∈ l.erase prev ↔ r ≠ prev ∧ r ∈ l := fun r => e2.mem_erase_iff
  have hsub : ∀ τ ∈ s'.specs, τ ∈ st.specs := by
    intro τ hτ
    rcases hcase with ⟨_, _, hs⟩ | ⟨_, _, hs⟩
    · exact ((hs τ).mp hτ).1
    · rw [hs] at hτ; exact hτ
  refine ⟨?_, ?_, ?_, ?_, ?_, ?_, hsid⟩
  · intro r hr; rw [hrid]; exact h.ridLt r ((hrefs r).mp hr).1
  · intro m v
    have hold := h.entry m v
    by_cases hk : (prev.owner.model, prev.val) = (m, v)
    · obtain ⟨rfl, rfl⟩ := Prod.mk.inj hk
      rcases hcase with ⟨hemp, hv, _⟩ | ⟨hne, hv, _⟩
      · rw [hv, alookup_aerase]; simp only [if_true]
        intro r hr hm hvv
        have hr' := (hrefs r).mp hr
        have : r ∈ l.erase prev := (hl' r).mpr ⟨hr'.2, (e4 r).mpr ⟨hr'.1, hm, hvv⟩⟩
        rw [hemp] at this; cases this
      · rw [hv, alookup_ainsert]; simp only [if_true]
        refine ⟨hne, e2.erase _, e3, ?_⟩
        intro r
        rw [hl' r, e4 r, hrefs r]
        constructor
        · rintro ⟨h1, h2, h3, h4⟩; exact ⟨⟨h2, h1⟩, h3, h4⟩
        · rintro ⟨⟨h2, h1⟩, h3, h4⟩; exact ⟨h1, h2, h3, h4⟩
    · have hlk : alookup s'.v2r (m, v) = alookup st.v2r (m, v) := by
        rcases hcase with ⟨_, hv, _⟩ | ⟨_, hv, _⟩
        · rw [hv, alookup_aerase]; simp [hk]
        · rw [hv, alookup_ainsert]; simp [hk]
      rw [hlk]
      refine entryOK_congr ?_ hold
      intro r
      rw [hrefs r]
      constructor
      · rintro ⟨⟨h1, _⟩, h3, h4⟩; exact ⟨h1, h3, h4⟩
      · rintro ⟨h1, h3, h4⟩
        refine ⟨⟨h1, ?_⟩, h3, h4⟩
        rintro rfl
        exact hk (by rw [h3, h4])
  · rcases hcase with ⟨_, hv, _⟩ | ⟨_, hv, _⟩
    · rw [hv]; exact aerase_keys_nodup h.keys _
    · rw [hv]; exact ainsert_keys_nodup h.keys _ _
  · intro σ hσ hex
    obtain ⟨r, hr, hm, hv⟩ := h.specRef σ (hsub σ hσ) hex
    by_cases hrp : r = prev
    · subst hrp
      rcases hcase with ⟨_, _, hs⟩ | ⟨hne, _, _⟩
      · exact absurd ⟨hm.symm, hv.symm⟩ ((hs σ).mp hσ).2
      · obtain ⟨r2, hr2⟩ := List.exists_mem_of_ne_nil _ hne
        have h2 := (hl' r2).mp hr2
        have h3 := (e4 r2).mp h2.2
        exact ⟨r2, (hrefs r2).mpr ⟨h3.1, h2.1⟩, h3.2.1.trans hm, h3.2.2.trans hv⟩
    · exact ⟨r, (hrefs r).mpr ⟨hr, hrp⟩, hm, hv⟩
  · intro σ hσ τ hτ; exact h.specVal σ (hsub σ hσ) τ (hsub τ hτ)
  · intro σ hσ; exact h.specPandas σ (hsub σ hσ)

/-- with the invariant, deleting the spec found for (m, v) removes exactly the specs for (m, v) -/

theorem rinv_after_del {st s' : St} (h : RInvX ex st) {prev : Ref} {l : List Ref}
    (hp : prev ∈ st.refs)
    (hl : alookup st.v2r (prev.owner.model, prev.val) = some l)
    (hrefs : ∀ r, r ∈ s'.refs ↔ r ∈ st.refs ∧ r ≠ prev)
    (hrid : s'.nextRid = st.nextRid)
    (hcase : (l.erase prev = [] ∧ s'.v2r = aerase st.v2r (prev.owner.model, prev.val) ∧
                ∀ τ, τ ∈ s'.specs ↔ τ ∈ st.specs ∧ ¬ (τ.group = prev.owner.model ∧ τ.val = prev.val)) ∨
             (l.erase prev ≠ [] ∧ s'.v2r = ainsert st.v2r (prev.owner.model, prev.val) (l.erase prev) ∧
                s'.specs = st.specs))
    (hsid : SidOK (sp s')) : RInvX ex s' :=
  (rcore_after_del h.core hp hl hrefs hrid hcase hsid).withKey
    (fun r hr r' hr' => h.refKey r ((hrefs r).mp hr).1 r' ((hrefs r').mp hr').1)

/-- a reference to an untracked value (an Interface) goes away: nothing else changes -/
theorem rcore_remove_untracked {st s' : St} (h : RCore ex st) {prev : Ref}
    (ht : ¬ prev.val.tracked = true)
    (hrefs : ∀ r, r ∈ s'.refs ↔ r ∈ st.refs ∧ r ≠ prev)
    (hrid : s'.nextRid = st.nextRid) (hv : s'.v2r = st.v2r) (hs : s'.specs = st.specs)
    (hsid : SidOK (sp s')) : RCore ex s' := by
  refine ⟨?_, ?_, by rw [hv]; exact h.keys, ?_, by rw [hs]; exact h.specVal,
    by rw [hs]; exact h.specPandas, hsid⟩
  · intro r hr; rw [hrid]; exact h.ridLt r ((hrefs r).mp hr).1
  · intro m v
    have hold := h.entry m v
    rw [hv]
    cases he : alookup st.v2r (m, v) with
    | none =>
      rw [he] at hold
      intro r hr; exact hold r ((hrefs r).mp hr).1
    | some l0 =>
      rw [he] at hold
      obtain ⟨h1, h2, h3, h4⟩ := hold
      refine ⟨h1, h2, h3, fun r => ?_⟩
      rw [h4 r, hrefs r]
      constructor
      · rintro ⟨a, b, c⟩
        refine ⟨⟨a, ?_⟩, b, c⟩
        rintro rfl
        rw [c] at ht; exact ht h3
      · rintro ⟨⟨a, _⟩, b, c⟩; exact ⟨a, b, c⟩
  · intro σ hσ hex
    rw [hs] at hσ
    obtain ⟨r, hr, hm, hv'⟩ := h.specRef σ hσ hex
    refine ⟨r, (hrefs r).mpr ⟨hr, ?_⟩, hm, hv'⟩
    rintro rfl
    have := tracked_of_isPandas (h.specPandas σ hσ)
    rw [← hv'] at this; exact ht this

theorem mem_delSpec_of_getSpec {st : St} (h : RCore ex st) {m : Nat} {v : Val} {σ : Spec}
    (hg : getSpecFromValue st m v = some σ) (τ : Spec) :
    (τ ∈ st.specs ∧ τ.sid ≠ σ.sid) ↔ (τ ∈ st.specs ∧ ¬ (τ.group = m ∧ τ.val = v)) := by
  obtain ⟨hσ, hm, hv⟩ := getSpec_some hg
  constructor
  · rintro ⟨hτ, hne⟩
    refine ⟨hτ, fun ⟨e1, e2⟩ => hne ?_⟩
    rw [h.specVal τ hτ σ hσ (e1.trans hm.symm) (e2.trans hv.symm)]
  · rintro ⟨hτ, hne⟩
    refine ⟨hτ, fun e => hne ?_⟩
    have := h.sid.sidUnique τ hτ σ hσ e
    rw [this]; exact ⟨hm, hv⟩

theorem dropIfEmpty_case {st s : St} (h : RCore ex st) (hv2r : s.v2r = st.v2r) (hspecs : s.specs = st.specs)
    (m : Nat) (v : Val) (l' : List Ref) :
    (l' = [] ∧ (dropIfEmpty s m v l').v2r = aerase st.v2r (m, v) ∧
        ∀ τ, τ ∈ (dropIfEmpty s m v l').specs ↔ τ ∈ st.specs ∧ ¬ (τ.group = m ∧ τ.val = v)) ∨
    (l' ≠ [] ∧ (dropIfEmpty s m v l').v2r = ainsert st.v2r (m, v) l' ∧
        (dropIfEmpty s m v l').specs = st.specs) := by
  have hgs : getSpecFromValue s m v = getSpecFromValue st m v := by
    unfold getSpecFromValue; rw [hspecs]
  unfold dropIfEmpty
  by_cases hl : l' = []
  · left
    simp only [hl, if_true, true_and]
    rw [hgs]
    cases hg : getSpecFromValue st m v with
    | none =>
      simp only [hv2r, hspecs, true_and]
      intro τ
      constructor
      · intro hτ; exact ⟨hτ, getSpec_none hg τ hτ⟩
      · exact fun hτ => hτ.1
    | some σ =>
      simp only [delSpec, hv2r, hspecs, true_and]
      intro τ
      simp only [List.mem_filter, decide_eq_true_eq]
      exact mem_delSpec_of_getSpec h hg τ
  · right
    simp [hl, hv2r, hspecs]

theorem eq_singleton_of_erase_nil {l : List Ref} {p : Ref} (hin : p ∈ l) (he : l.erase p = []) :
    l = [p] := by
  cases l with
  | nil => cases hin
  | cons a rest =>
    rw [List.erase_cons] at he
    split at he
    · rename_i hb
      have := eq_of_beq hb
      subst this; rw [he]
    · cases he

theorem refs_dropIfEmpty (s : St) (m : Nat) (v : Val) (l : List Ref) :
    (dropIfEmpty s m v l).refs = s.refs ∧ (dropIfEmpty s m v l).nextRid = s.nextRid := by
  unfold dropIfEmpty
  split
  · split <;> exact ⟨rfl, rfl⟩
  · exact ⟨rfl, rfl⟩

/-- `del_ref` of an existing name: succeeds, keeps the invariant, removes exactly that reference;
a spec disappears only if no reference of the model is bound to its value any more -/
theorem rmDelRef_spec {st : St} (h : RInvX ex st) {o : Owner} {n : String} {prev : Ref}
    (hl : refLookup st.refs o n = some prev) :
    (rmDelRef st o n).2 = .ok () ∧ RInvX ex (rmDelRef st o n).1 ∧
    (rmDelRef st o n).1.refs = refErase st.refs o n ∧
    (rmDelRef st o n).1.nextRid = st.nextRid ∧
    (∀ τ ∈ (rmDelRef st o n).1.specs, τ ∈ st.specs) ∧
    (∀ σ ∈ st.specs, σ ∉ (rmDelRef st o n).1.specs →
        σ.group = o.model ∧ σ.val = prev.val ∧
        alookup st.v2r (o.model, prev.val) = some [prev] ∧
        ∀ r ∈ (rmDelRef st o n).1.refs, ¬ (r.owner.model = o.model ∧ r.val = prev.val)) := by
  obtain ⟨hp, ho, hn⟩ := refLookup_some hl
  have hsid : SidOK (sp (rmDelRef st o n).1) := sidOK_strans (Q := fun _ _ => True) (strans_rmDelRef st o n) h.sid
  have herase := mem_refErase_of_lookup h hl
  by_cases ht : prev.val.tracked = true
  · -- the entry exists and contains prev
    have hE := h.entry prev.owner.model prev.val
    cases hlk : alookup st.v2r (prev.owner.model, prev.val) with
    | none =>
      rw [hlk] at hE
      have := hE prev hp rfl rfl
      rw [ht] at this; cases this
    | some l =>
      rw [hlk] at hE
      obtain ⟨e1, e2, e3, e4⟩ := hE
      have hin : prev ∈ l := (e4 prev).mpr ⟨hp, rfl, rfl⟩
      have hlk' : alookup st.v2r (o.model, prev.val) = some l := by rw [← ho]; exact hlk
      have heq : rmDelRef st o n =
          (dropIfEmpty (implDelRef st o n) o.model prev.val (l.erase prev), .ok ()) := by
        unfold rmDelRef
        simp only [hl, ht, Bool.not_true, Bool.false_eq_true, if_false, hlk']
        cases l with
        | nil => exact absurd rfl e1
        | cons a rest => simp only [hin, if_true]
      have hcase := dropIfEmpty_case (s := implDelRef st o n) h.core rfl rfl o.model prev.val (l.erase prev)
      have hr := refs_dropIfEmpty (implDelRef st o n) o.model prev.val (l.erase prev)
      have heq1 : (rmDelRef st o n).1 = dropIfEmpty (implDelRef st o n) o.model prev.val (l.erase prev) := by
        rw [heq]
      refine ⟨by rw [heq], ?_⟩
      rw [heq1]
      have hinv : RInvX ex (dropIfEmpty (implDelRef st o n) o.model prev.val (l.erase prev)) := by
        refine rinv_after_del h hp hlk ?_ ?_ ?_ (by rw [heq1] at hsid; exact hsid)
        · intro r; rw [hr.1]; exact herase r
        · rw [hr.2]; rfl
        · rw [ho]; exact hcase
      refine ⟨hinv, hr.1, hr.2, ?_, ?_⟩
      · intro τ hτ
        rcases hcase with ⟨_, _, hs⟩ | ⟨_, _, hs⟩
        · exact ((hs τ).mp hτ).1
        · rw [hs] at hτ; exact hτ
      · intro σ hσ hgone
        rcases hcase with ⟨hemp, _, hs⟩ | ⟨_, _, hs⟩
        · have : ¬ ¬ (σ.group = o.model ∧ σ.val = prev.val) := fun hc => hgone ((hs σ).mpr ⟨hσ, hc⟩)
          have hm := Decidable.not_not.mp this
          refine ⟨hm.1, hm.2, ?_, ?_⟩
          · rw [hlk', eq_singleton_of_erase_nil hin hemp]
          · intro r hr0 ⟨hm1, hv1⟩
            rw [hr.1] at hr0
            have hr1 := (herase r).mp hr0
            have : r ∈ l.erase prev := e2.mem_erase_iff.mpr ⟨hr1.2, (e4 r).mpr ⟨hr1.1, by rw [ho]; exact hm1, hv1⟩⟩
            rw [hemp] at this; cases this
        · rw [hs] at hgone; exact absurd hσ hgone
  · -- untracked: only the reference goes
    have heq : rmDelRef st o n = (implDelRef st o n, .ok ()) := by
      unfold rmDelRef
      simp only [hl, ht, Bool.not_false, if_true]
    have heq1 : (rmDelRef st o n).1 = implDelRef st o n := by rw [heq]
    refine ⟨by rw [heq], ?_⟩
    rw [heq1]
    refine ⟨?_, rfl, rfl, fun τ hτ => hτ, fun σ hσ hgone => absurd hσ hgone⟩
    refine ⟨?_, ?_, ?_, h.keys, ?_, h.specVal, h.specPandas, h.sid⟩
    · intro r hr; exact h.ridLt r ((herase r).mp hr).1
    · intro r hr r' hr'; exact h.refKey r ((herase r).mp hr).1 r' ((herase r').mp hr').1
    · intro m v
      have hold := h.entry m v
      show EntryOK (refErase st.refs o n) m v (alookup st.v2r (m, v))
      cases he : alookup st.v2r (m, v) with
      | none =>
        rw [he] at hold
        intro r hr; exact hold r ((herase r).mp hr).1
      | some l0 =>
        rw [he] at hold
        obtain ⟨h1, h2, h3, h4⟩ := hold
        refine ⟨h1, h2, h3, fun r => ?_⟩
        rw [h4 r, herase r]
        constructor
        · rintro ⟨a, b, c⟩
          refine ⟨⟨a, ?_⟩, b, c⟩
          rintro rfl
          rw [c] at ht; exact ht h3
        · rintro ⟨⟨a, _⟩, b, c⟩; exact ⟨a, b, c⟩
    · intro σ hσ hex
      obtain ⟨r, hr, hm, hv⟩ := h.specRef σ hσ hex
      refine ⟨r, (herase r).mpr ⟨hr, ?_⟩, hm, hv⟩
      rintro rfl
      have := tracked_of_isPandas (h.specPandas σ hσ)
      rw [← hv] at this; exact ht this

/-! ### `change_ref`: the new reference is registered (`new_ref`'s bookkeeping), then the previous
one is dropped (`del_ref`'s bookkeeping); in between the parent has two references of one name,
which `RCore` allows -/

theorem refLookup_refErase (refs : List Ref) (o : Owner) (n : String) :
    refLookup (refErase refs o n) o n = none := by
  unfold refLookup
  rw [List.find?_eq_none]
  intro r hr
  have := (mem_refErase.mp hr).2
  simpa using this

theorem refs_rmNewRef (st : St) (o : Owner) (n : String) (v : Val) :
    (rmNewRef st o n v).refs = st.refs ++ [mkRef st o n v] ∧ (rmNewRef st o n v).specs = st.specs := by
  unfold rmNewRef; split <;> exact ⟨rfl, rfl⟩

/-- the state of `change_ref` after the new reference was registered -/
def afterAppend (st : St) (o : Owner) (n : String) (v : Val) : St :=
  if v.tracked then v2rAppend (implChangeRef st o n v) o.model v (mkRef st o n v)
  else implChangeRef st o n v

theorem afterAppend_fields (st : St) (o : Owner) (n : String) (v : Val) :
    (afterAppend st o n v).refs = refErase st.refs o n ++ [mkRef st o n v] ∧
    (afterAppend st o n v).v2r = (rmNewRef st o n v).v2r ∧
    (afterAppend st o n v).specs = (rmNewRef st o n v).specs ∧
    (afterAppend st o n v).nextRid = (rmNewRef st o n v).nextRid := by
  unfold afterAppend rmNewRef
  split <;> exact ⟨rfl, rfl, rfl, rfl⟩

theorem rmChangeRef_eq_changeDrop {st : St} {o : Owner} {n : String} {prev : Ref} (v : Val)
    (hl : refLookup st.refs o n = some prev) :
    rmChangeRef st o n v = (changeDrop (afterAppend st o n v) o.model prev, .ok ()) := by
  unfold rmChangeRef afterAppend
  simp only [hl]
  split <;> rfl

/-- `change_ref` of an existing name: succeeds and keeps the invariant; a spec disappears only if it
was the spec of the previous value and no reference of the model – the new one included – is bound
to that value afterwards -/
theorem rmChangeRef_spec {st : St} (h : RInvX ex st) {o : Owner} {n : String} {prev : Ref} (v : Val)
    (hl : refLookup st.refs o n = some prev) :
    (rmChangeRef st o n v).2 = .ok () ∧ RInvX ex (rmChangeRef st o n v).1 ∧
    (rmChangeRef st o n v).1.refs = refErase st.refs o n ++ [mkRef st o n v] ∧
    (∀ τ ∈ (rmChangeRef st o n v).1.specs, τ ∈ st.specs) ∧
    (∀ σ ∈ st.specs, σ ∉ (rmChangeRef st o n v).1.specs →
        σ.group = o.model ∧ σ.val = prev.val ∧
        ∀ r ∈ (rmChangeRef st o n v).1.refs, ¬ (r.owner.model = o.model ∧ r.val = prev.val)) := by
  obtain ⟨hp, ho, hn⟩ := refLookup_some hl
  have hsid : SidOK (sp (rmChangeRef st o n v).1) := sidOK_strans (Q := fun _ _ => True) (strans_rmChangeRef st o n v) h.sid
  rw [rmChangeRef_eq_changeDrop v hl] at hsid ⊢
  simp only at hsid ⊢
  obtain ⟨a1, a2, a3, a4⟩ := afterAppend_fields st o n v
  obtain ⟨n1, n2⟩ := refs_rmNewRef st o n v
  have cstar : RCore ex (rmNewRef st o n v) := rcore_rmNewRef h.core o n v
  have hnewne : mkRef st o n v ≠ prev := by
    intro e
    have := h.ridLt prev hp
    rw [← e] at this
    simp [mkRef] at this
  have hpstar : prev ∈ (rmNewRef st o n v).refs := by rw [n1]; simp [hp]
  have hrefsS : ∀ r, r ∈ (afterAppend st o n v).refs ↔ r ∈ (rmNewRef st o n v).refs ∧ r ≠ prev := by
    intro r
    rw [a1, n1]
    simp only [List.mem_append, List.mem_singleton, mem_refErase_of_lookup h hl r]
    constructor
    · rintro (⟨x, y⟩ | rfl)
      · exact ⟨Or.inl x, y⟩
      · exact ⟨Or.inr rfl, hnewne⟩
    · rintro ⟨x | x, y⟩
      · exact Or.inl ⟨x, y⟩
      · exact Or.inr x
  -- one reference per name in the result
  have hkey : ∀ r ∈ (afterAppend st o n v).refs, ∀ r' ∈ (afterAppend st o n v).refs,
      r.owner = r'.owner → r.name = r'.name → r = r' := by
    have hnone := refLookup_refErase st.refs o n
    intro r hr r' hr' e1 e2
    rw [a1] at hr hr'
    simp only [List.mem_append, List.mem_singleton] at hr hr'
    rcases hr with hr | rfl <;> rcases hr' with hr' | rfl
    · exact h.refKey r (mem_refErase.mp hr).1 r' (mem_refErase.mp hr').1 e1 e2
    · exact absurd ⟨e1, e2⟩ (refLookup_none hnone r hr)
    · exact absurd ⟨e1.symm, e2.symm⟩ (refLookup_none hnone r' hr')
    · rfl
  by_cases ht : prev.val.tracked = true
  · -- the entry of the previous value exists (in the state after the append) and contains prev
    have hE := cstar.entry prev.owner.model prev.val
    cases hlk : alookup (rmNewRef st o n v).v2r (prev.owner.model, prev.val) with
    | none =>
      rw [hlk] at hE
      have := hE prev hpstar rfl rfl
      rw [ht] at this; cases this
    | some l =>
      rw [hlk] at hE
      obtain ⟨e1, e2, e3, e4⟩ := hE
      have hlkS : alookup (afterAppend st o n v).v2r (o.model, prev.val) = some l := by
        have hkeq : (o.model, prev.val) = (prev.owner.model, prev.val) := by rw [ho]
        rw [a2, hkeq]; exact hlk
      have hcd : changeDrop (afterAppend st o n v) o.model prev =
          dropIfEmpty (afterAppend st o n v) o.model prev.val (l.erase prev) := by
        unfold changeDrop; rw [hlkS]
      rw [hcd] at hsid ⊢
      have hcase := dropIfEmpty_case (s := afterAppend st o n v) cstar a2 a3 o.model prev.val (l.erase prev)
      obtain ⟨r1, r2⟩ := refs_dropIfEmpty (afterAppend st o n v) o.model prev.val (l.erase prev)
      have hcore : RCore ex (dropIfEmpty (afterAppend st o n v) o.model prev.val (l.erase prev)) := by
        refine rcore_after_del cstar hpstar hlk ?_ ?_ ?_ hsid
        · intro r; rw [r1]; exact hrefsS r
        · rw [r2, a4]
        · rw [ho]; exact hcase
      refine ⟨trivial, hcore.withKey (by rw [r1]; exact hkey), by rw [r1, a1], ?_, ?_⟩
      · intro τ hτ
        rcases hcase with ⟨_, _, hs⟩ | ⟨_, _, hs⟩
        · have := ((hs τ).mp hτ).1; rw [n2] at this; exact this
        · rw [hs, n2] at hτ; exact hτ
      · intro σ hσ hgone
        rcases hcase with ⟨hemp, _, hs⟩ | ⟨_, _, hs⟩
        · have hσ' : σ ∈ (rmNewRef st o n v).specs := by rw [n2]; exact hσ
          have : ¬ ¬ (σ.group = o.model ∧ σ.val = prev.val) := fun hc => hgone ((hs σ).mpr ⟨hσ', hc⟩)
          have hm := Decidable.not_not.mp this
          refine ⟨hm.1, hm.2, ?_⟩
          intro r hr ⟨hm1, hv1⟩
          rw [r1] at hr
          have hr' := (hrefsS r).mp hr
          have : r ∈ l.erase prev :=
            e2.mem_erase_iff.mpr ⟨hr'.2, (e4 r).mpr ⟨hr'.1, by rw [ho]; exact hm1, hv1⟩⟩
          rw [hemp] at this; cases this
        · rw [hs, n2] at hgone; exact absurd hσ hgone
  · -- the previous value is an Interface: no entry, nothing to drop
    have hnone : alookup (afterAppend st o n v).v2r (o.model, prev.val) = none := by
      rw [a2]
      cases hlk : alookup (rmNewRef st o n v).v2r (o.model, prev.val) with
      | none => rfl
      | some l =>
        have := cstar.entry o.model prev.val
        rw [hlk] at this
        exact absurd this.2.2.1 ht
    have hcd : changeDrop (afterAppend st o n v) o.model prev = afterAppend st o n v := by
      unfold changeDrop; rw [hnone]
    rw [hcd] at hsid ⊢
    have hcore : RCore ex (afterAppend st o n v) :=
      rcore_remove_untracked cstar ht hrefsS a4 a2 a3 hsid
    refine ⟨trivial, hcore.withKey hkey, a1, ?_, ?_⟩
    · intro τ hτ; rw [a3, n2] at hτ; exact hτ
    · intro σ hσ hgone; rw [a3, n2] at hgone; exact absurd hσ hgone

end MxModel.IOSpec
