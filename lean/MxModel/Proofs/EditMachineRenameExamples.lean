import MxModel.Proofs.EditMachineRename
import MxModel.Proofs.EditMachineExamples
import MxModel.Proofs.EditMachineGlobalsExamples
/-!
# Histories with renames: admissibility from sources, the examples

`rOps` (all cached, sources `y * 2`): `A` with child `A.Ch`, `T(A)`; everything evaluated, an input in `A.f`;
`A.rename("Z")` discards everything `A` and `A.Ch` hold – the input too – and keeps what the sub space `T` holds.
`uOps`: `A.u` uncached, `A.f = u()`; the clearing of the code before d7248bc leaves the node of `u`.
-/
namespace MxModel.Edit
open MxModel.Exec MxModel.C02 MxModel.SM

theorem slots_stepG (P : Params) (w : W) (op : OpG) : (stepG P w op).tabs.slots = w.tabs.slots := by
  cases op with
  | op o =>
    cases o with
    | struct o =>
      simp only [stepG]
      split
      · cases hop : w.sm.apply P.kw o with
        | none => rfl
        | some st' => rfl
      · rfl
    | eval q n key => exact slots_step P w _
    | setValue q n key v => exact slots_step P w _
    | clearAt q n key => rfl
    | clear q n => rfl
    | clearAll q n => rfl
  | setGlobal x v =>
    simp only [stepG]
    cases hop : w.sm.apply P.kw (.setGlobal x) with
    | none => rfl
    | some st' => rfl
  | delGlobal x =>
    simp only [stepG]
    cases hop : w.sm.apply P.kw (.delGlobal x) with
    | none => rfl
    | some st' => rfl

theorem slots_stepR (P : Params) (w : W) (op : OpR) (hs : w.tabs.slots = []) : (stepR P w op).tabs.slots = [] := by
  cases op with
  | g o => show (stepG P w o).tabs.slots = []; rw [slots_stepG, hs]
  | renameSpace p new =>
    simp only [stepR]
    cases hop : w.sm.renameSpace P.kw p new with
    | error e => exact hs
    | ok st' => show mapFst _ w.tabs.slots = []; rw [hs]; rfl

/-- **every history with renames is admissible** for sources that catch nothing, read by plain names only and
call nothing, when no attribute slot is declared -/
theorem admissibleR_of_sources (P : Params) (lt : Node → Node → Prop) (ho : StrictOrder lt)
    (hnc : ∀ v key, NsNoCatch (P.srcOf v key)) (hsc : ∀ v key, NsScoped (P.srcOf v key))
    (hcalls : ∀ v key, NsNoCalls (P.srcOf v key)) :
    ∀ (ops : List OpR) (w : W), CIG P lt w → WF (w.env P) lt → w.tabs.slots = [] → AdmissibleR P lt w ops := by
  intro ops
  induction ops with
  | nil => intro w _ _ _; trivial
  | cons op rest ih =>
    intro w h hw hs
    have c' := stepR_cig ho w op hw h
    have hs' := slots_stepR P w op hs
    have hw' : WF ((stepR P w op).env P) lt :=
      wf_envOf P _ _ lt c'.alloc hs' hnc hsc (ranked_envOf_noCalls P _ _ lt hcalls)
    exact ⟨hw', ih _ c' hw' hs'⟩

/-- **every history with renames is admissible** for sources that read references through attribute paths only
(declared slots, whatever spaces they lie in), call nothing and catch nothing -/
theorem admissibleR_of_attr_sources (P : Params) (lt : Node → Node → Prop)
    (hnc : ∀ v key, NsNoCatch (P.srcOf v key)) (hao : ∀ v key, NsAttrOnly (P.srcOf v key))
    (hcalls : ∀ v key, NsNoCalls (P.srcOf v key)) :
    ∀ (ops : List OpR) (w : W), AdmissibleR P lt w ops := by
  intro ops
  induction ops with
  | nil => intro w; trivial
  | cons op rest ih =>
    intro w
    exact ⟨wf_envOf_attrOnly P _ _ lt hnc hao hcalls, ih _⟩

/-! ## the examples -/

/-- a slot in a renamed space (`gP`: every cells is `lambda: S.x`, slot `(S, x)` declared): `m.x = 1`; `T.c()` is 1;
`S.rename("Z")` keeps it (the formula reaches the space through a reference to the OBJECT; the slot is still
spelled `S.x`); `Z.x = 5` (an own reference of the renamed space) clears the reader through the SAME slot
identity; `T.c()` is 5 -/
def sOps : List OpR := [
  .g (.setGlobal "x" 1),
  .g (.op (.struct (.newSpace [] "S" [] []))),
  .g (.op (.struct (.newSpace [] "T" [] []))),
  .g (.op (.struct (.newCells ["T"] "c" "c" 0))),
  .g (.op (.eval ["T"] "c" [])),
  .renameSpace ["S"] "Z",
  .g (.op (.eval ["T"] "c" [])),
  .g (.op (.struct (.setRef ["Z"] "x" 5))),
  .g (.op (.eval ["T"] "c" []))]

theorem sOps_admissible : AdmissibleR gP idLt (W.init gSlots) sOps :=
  admissibleR_of_attr_sources gP idLt (fun _ _ => (readAttr_ok _).1) (fun _ _ => (readAttr_ok _).2.1)
    (fun _ _ => (readAttr_ok _).2.2) sOps _

def rOps : List OpR := [
  .g (.op (.struct (.newSpace [] "A" [] []))),
  .g (.op (.struct (.newSpace ["A"] "Ch" [] []))),
  .g (.op (.struct (.newCells ["A"] "f" "f" 0))),
  .g (.op (.struct (.setRef ["A"] "y" 1))),
  .g (.op (.struct (.newCells ["A", "Ch"] "g" "g" 0))),
  .g (.op (.struct (.setRef ["A", "Ch"] "y" 2))),
  .g (.op (.struct (.newSpace [] "T" [["A"]] []))),
  .g (.op (.eval ["A"] "f" [])),
  .g (.op (.eval ["A", "Ch"] "g" [])),
  .g (.op (.eval ["T"] "f" [])),
  .g (.op (.setValue ["A"] "f" [.int 1] (.int 7))),
  .renameSpace ["A"] "Z",
  .g (.op (.eval ["Z"] "f" [])),
  .g (.op (.eval ["Z", "Ch"] "g" []))]

theorem rOps_admissible : AdmissibleR eP idLt (W.init []) rOps :=
  admissibleR_of_sources eP idLt idLt_strict eP_noCatch eP_scoped eP_noCalls rOps _ (cig_init eP idLt [])
    (wf_init eP idLt []) rfl

/-- `return 5` -/
def ret5 : SProg := .ret (.int 5)

/-- `return u()` -/
def callU : SProg :=
  SProg.callN "u" [] (fun r => match r with | .ok v => .ret v | .err e => .reraise e) (fun _ => .raise (.user 3))
    (.raise (.user 4))

/-- payload 1: `def u(): return 5`, UNCACHED; every other payload: `def f(): return u()`, cached -/
def uP : Params where
  srcOf := fun v _ => if v = 1 then ret5 else callU
  valOf := fun v => .int v
  flagOf := fun v => v != 1
  anOf := fun _ => false
  maxdepth := 50
  kw := []

/-- `A.u` uncached, `A.f = lambda: u()`; `A.f()` -/
def uOps : List OpR := [
  .g (.op (.struct (.newSpace [] "A" [] []))),
  .g (.op (.struct (.newCells ["A"] "u" "u" 1))),
  .g (.op (.struct (.newCells ["A"] "f" "f" 0))),
  .g (.op (.eval ["A"] "f" []))]

end MxModel.Edit
