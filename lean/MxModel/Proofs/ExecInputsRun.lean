import MxModel.Proofs.ExecInputs
import MxModel.Proofs.ExecKeep
/-!
# Definitions and inputs depend on the edits only

For a history of the thirteen-operation language: the definitions reached (`envStep`: no operation
looks at the mechanism state to decide how the definitions change) and the user's inputs reached
(`inpStep`: which elements hold an assigned value, and which value – determined by the assignments,
the clears of those elements, and the edits accompanied by `clear_obj` of their cells; evaluations,
reference edits, `clear()`, edits of other cells never touch them) are the same whether or not the
evaluations of the history are performed.  Hence the model to which only the edits were applied has
the same definitions and the same inputs as the live model (`run_noEvals`).
-/
namespace MxModel.C02
open MxModel.Exec

/-- how one operation changes the definitions -/
def envStep (env : Env) : Op → Env
  | .setRef r v => env.withRef r (some v)
  | .delRef r => if (env.refs r).isSome then env.withRef r none else env
  | .setFormula c f => if env.alive c then env.withFormula c f else env
  | .setCached c b => if env.cached c = b || !env.alive c then env else env.withCached c b
  | .delCell c => if env.alive c then env.withAlive c false else env
  | .newCell c f b an => if env.alive c then env else env.withCell c f b an
  | .maxdepth k => env.withMaxdepth k
  | _ => env

theorem step_env (env : Env) (s : St) (op : Op) : (step (env, s) op).1 = envStep env op := by
  cases op <;> simp only [step, envStep] <;> (try split) <;> rfl

theorem run_env (ops : List Op) : ∀ (env : Env) (s : St), (run (env, s) ops).1 = ops.foldl envStep env := by
  induction ops with
  | nil => intro env s; rfl
  | cons op rest ih =>
    intro env s
    simp only [run, List.foldl]
    have : step (env, s) op = ((step (env, s) op).1, (step (env, s) op).2) := rfl
    rw [this, step_env]
    exact ih _ _

def isEval : Op → Bool
  | .eval _ => true
  | _ => false

/-- the history without its evaluations: "only the edits" -/
def noEvals (ops : List Op) : List Op := ops.filter (fun op => !isEval op)

theorem foldl_envStep_noEvals (ops : List Op) : ∀ env : Env,
    (noEvals ops).foldl envStep env = ops.foldl envStep env := by
  induction ops with
  | nil => intro env; rfl
  | cons op rest ih =>
    intro env
    cases op <;> simp only [noEvals, List.filter, isEval, Bool.not_true, Bool.not_false, List.foldl] <;>
      exact ih _

/-- admissibility is a property of the definitions reached, not of the state -/
theorem admissible_env (lt : Node → Node → Prop) (ops : List Op) : ∀ (env : Env) (s s' : St),
    Admissible lt (env, s) ops → Admissible lt (env, s') ops := by
  induction ops with
  | nil => intro _ _ _ _; trivial
  | cons op rest ih =>
    intro env s s' h
    have e1 : step (env, s) op = (envStep env op, (step (env, s) op).2) := by rw [← step_env]
    have e2 : step (env, s') op = (envStep env op, (step (env, s') op).2) := by rw [← step_env]
    simp only [Admissible] at h ⊢
    rw [e1] at h; rw [e2]
    exact ⟨h.1, ih _ _ _ h.2⟩

theorem admissible_noEvals (lt : Node → Node → Prop) (ops : List Op) : ∀ (env : Env) (s : St),
    Admissible lt (env, s) ops → Admissible lt (env, s) (noEvals ops) := by
  induction ops with
  | nil => intro _ _ _; trivial
  | cons op rest ih =>
    intro env s h
    have e1 : step (env, s) op = (envStep env op, (step (env, s) op).2) := by rw [← step_env]
    by_cases hev : isEval op = true
    · have : noEvals (op :: rest) = noEvals rest := by simp [noEvals, List.filter, hev]
      rw [this]
      have hs : envStep env op = env := by cases op <;> simp_all [isEval, envStep]
      have h2 := h.2
      rw [e1, hs] at h2
      exact ih env s (admissible_env lt rest env _ s h2)
    · have hev' : isEval op = false := by simpa using hev
      have : noEvals (op :: rest) = op :: noEvals rest := by simp [noEvals, List.filter, hev']
      rw [this]
      refine ⟨h.1, ?_⟩
      have h2 := h.2
      rw [e1] at h2 ⊢
      exact ih _ _ h2

/-! ### the inputs -/

/-- the operations that may drop the input `m` -/
def Touches (m : Node) : Op → Prop
  | .setValue n _ => n = m
  | .clearAt n => n = m
  | .clearAll c => c = m.1
  | .setFormula c _ => c = m.1
  | .setCached c _ => c = m.1
  | .delCell c => c = m.1
  | _ => False

/-- how one operation changes the user's inputs -/
def inpStep (env : Env) (inp : Node → Option Val) : Op → (Node → Option Val)
  | .setValue n v =>
    if (env.cached n.1 && env.alive n.1) = true then
      (if (v = .none && !env.allowNone n.1) = true then inp else fun m => if m = n then some v else inp m)
    else inp
  | .clearAt n => fun m => if m = n then none else inp m
  | .clearAll c => fun m => if m.1 = c then none else inp m
  | .setFormula c _ => if env.alive c then fun m => if m.1 = c then none else inp m else inp
  | .setCached c b =>
    if (env.cached c = b || !env.alive c) = true then inp else fun m => if m.1 = c then none else inp m
  | .delCell c => if env.alive c then fun m => if m.1 = c then none else inp m else inp
  | _ => inp

theorem inpStep_untouched (env : Env) (inp : Node → Option Val) (op : Op) (m : Node) (h : ¬ Touches m op) :
    inpStep env inp op m = inp m := by
  cases op with
  | setValue n v =>
    have hn : ¬ m = n := fun h' => h h'.symm
    simp only [inpStep]; split
    · split
      · rfl
      · simp [hn]
    · rfl
  | clearAt n => have hn : ¬ m = n := fun h' => h h'.symm; simp [inpStep, hn]
  | clearAll c => have hn : ¬ m.1 = c := fun h' => h h'.symm; simp [inpStep, hn]
  | setFormula c f =>
    have hn : ¬ m.1 = c := fun h' => h h'.symm
    simp only [inpStep]; split
    · simp [hn]
    · rfl
  | setCached c b =>
    have hn : ¬ m.1 = c := fun h' => h h'.symm
    simp only [inpStep]; split
    · rfl
    · simp [hn]
  | delCell c =>
    have hn : ¬ m.1 = c := fun h' => h h'.symm
    simp only [inpStep]; split
    · simp [hn]
    · rfl
  | eval _ => rfl
  | clear _ => rfl
  | setRef _ _ => rfl
  | delRef _ => rfl
  | newCell _ _ _ _ => rfl
  | maxdepth _ => rfl
  | admin _ => rfl

variable {env : Env} {lt : Node → Node → Prop}

/-- an operation that does not touch the input `m` keeps it, with its value -/
theorem step_keeps_input (ho : StrictOrder lt) (hw : WF env lt) {s : St} (h : CI env lt s)
    (hr : RgNoInputs s) (op : Op) (m : Node) (w : Val) (hop : ¬ Touches m op)
    (hin : m ∈ s.inputs) (hl : lookup s.data m = some w) :
    lookup (step (env, s) op).2.data m = some w ∧ m ∈ (step (env, s) op).2.inputs := by
  have hi := InpInv.of_ci h hr
  have fin : ∀ {s' : St}, Kept s s' (.elem m) → lookup s'.data m = some w ∧ m ∈ s'.inputs :=
    fun k => ⟨((k.data m rfl).1).trans hl, ((k.data m rfl).2).mpr hin⟩
  have kcv : ∀ n ci, n ≠ m → Kept s (s.clearValueAt n ci) (.elem m) := fun n ci hn =>
    kept_clearValueAt s n ci _ (fun _ _ => hi.not_reach _ m hin (by intro h'; cases h'; exact hn rfl))
  cases op with
  | eval n =>
    simp only [step]
    split
    · exact ⟨(h.gi.topCall ho hw.ranked h.quiet.stack h.quiet.idx n).2.2.2 m w hl,
        by rw [(evalTop_keeps env n s).2]; exact hin⟩
    · exact ⟨hl, hin⟩
  | setValue n v =>
    have hn : n ≠ m := fun h' => hop h'
    simp only [step]
    split
    · obtain ⟨k1, k2⟩ := fin (kcv n true hn)
      unfold St.setValue
      split
      · exact ⟨hl, hin⟩
      · simp only []
        generalize s.clearValueAt n true = s1 at k1 k2
        have hd : (({ s1 with data := insert s1.data n v } : St).addNode (.elem n)).data = insert s1.data n v :=
          (sameCache_addNode _ _).data
        have hi' : (({ s1 with data := insert s1.data n v } : St).addNode (.elem n)).inputs = s1.inputs :=
          (sameCache_addNode _ _).inputs
        refine ⟨?_, ?_⟩
        · show lookup (({ s1 with data := insert s1.data n v } : St).addNode (.elem n)).data m = some w
          rw [hd, lookup_insert, if_neg hn]; exact k1
        · simp only [hi']
          split
          · exact k2
          · exact List.mem_append_left _ k2
    · exact ⟨hl, hin⟩
  | clearAt n => exact fin (kcv n true (fun h' => hop h'))
  | clear c =>
    refine fin (kept_clearAllValues s hi.edgeOK c false _ ?_)
    intro n _ _ hni
    refine hi.not_reach _ m hin ?_
    intro h'; cases h'
    rcases hni with hni | hni
    · cases hni
    · exact hni hin
  | clearAll c =>
    refine fin (kept_clearAllValues s hi.edgeOK c true _ ?_)
    intro n hn _ _
    refine hi.not_reach _ m hin ?_
    intro h'; cases h'
    exact hop hn.symm
  | setRef r v => exact fin (kept_input_setRef hi r m hin)
  | delRef r =>
    simp only [step]
    split
    · exact fin (kept_input_delRef hi r m hin)
    · exact ⟨hl, hin⟩
  | setFormula c f =>
    simp only [step]
    split
    · exact fin (kept_input_clearObj hi c m hin (fun h' => hop h'.symm))
    · exact ⟨hl, hin⟩
  | setCached c b =>
    simp only [step]
    split
    · exact ⟨hl, hin⟩
    · exact fin (kept_input_clearObj hi c m hin (fun h' => hop h'.symm))
  | delCell c =>
    simp only [step]
    split
    · exact fin (kept_input_delCell hi c m hin (fun h' => hop h'.symm))
    · exact ⟨hl, hin⟩
  | newCell c f b an =>
    simp only [step]
    split
    · exact ⟨hl, hin⟩
    · exact fin (kept_input_newCell hi c m hin)
  | maxdepth k => exact ⟨hl, hin⟩
  | admin a => exact ⟨hl, hin⟩

/-- inputs appear only through an assignment -/
theorem step_inputs_sub {s : St} (h : CI env lt s) (op : Op) (m : Node)
    (hm : m ∈ (step (env, s) op).2.inputs) : m ∈ s.inputs ∨ ∃ v, op = .setValue m v := by
  have he := h.gi.edgeOK
  have clr : ∀ {s' : St} {R : List GNode} {D : RefId × Node → Prop}, Clr s R D s' → m ∈ s'.inputs → m ∈ s.inputs :=
    fun hc hm => ((hc.mem_inputs m).mp hm).1
  cases op with
  | eval n =>
    simp only [step] at hm
    split at hm
    · rw [(evalTop_keeps env n s).2] at hm; exact Or.inl hm
    · exact Or.inl hm
  | setValue n v =>
    simp only [step] at hm
    split at hm
    · unfold St.setValue at hm
      split at hm
      · exact Or.inl hm
      · simp only [] at hm
        obtain ⟨R, hc, _⟩ := clr_clearValueAt s (fun _ => False) he n true
        generalize s.clearValueAt n true = s1 at hm hc
        have hi' : (({ s1 with data := insert s1.data n v } : St).addNode (.elem n)).inputs = s1.inputs :=
          (sameCache_addNode _ _).inputs
        simp only [hi'] at hm
        split at hm
        · exact Or.inl (clr hc hm)
        · simp only [List.mem_append, List.mem_singleton] at hm
          rcases hm with hm | hm
          · exact Or.inl (clr hc hm)
          · exact Or.inr ⟨v, by rw [hm]⟩
    · exact Or.inl hm
  | clearAt n => obtain ⟨R, hc, _⟩ := clr_clearValueAt s (fun _ => False) he n true; exact Or.inl (clr hc hm)
  | clear c => obtain ⟨R, hc, _⟩ := clr_clearAllValues s (fun _ => False) he c false; exact Or.inl (clr hc hm)
  | clearAll c => obtain ⟨R, hc, _⟩ := clr_clearAllValues s (fun _ => False) he c true; exact Or.inl (clr hc hm)
  | setRef r v => obtain ⟨R, D, hc, _, _⟩ := clr_setRef env s he r; exact Or.inl (clr hc hm)
  | delRef r =>
    simp only [step] at hm
    split at hm
    · obtain ⟨R, hc, _⟩ := clr_delRef env s he r; exact Or.inl (clr hc hm)
    · exact Or.inl hm
  | setFormula c f =>
    simp only [step] at hm
    split at hm
    · obtain ⟨R, hc, _, _⟩ := clr_clearObj s (fun _ => False) he c; exact Or.inl (clr hc hm)
    · exact Or.inl hm
  | setCached c b =>
    simp only [step] at hm
    split at hm
    · exact Or.inl hm
    · obtain ⟨R, hc, _, _⟩ := clr_clearObj s (fun _ => False) he c; exact Or.inl (clr hc hm)
  | delCell c =>
    simp only [step] at hm
    split at hm
    · obtain ⟨R1, R2, _, _, hc, _, _⟩ := delCell_clr (env := env) s he c; exact Or.inl (clr hc hm)
    · exact Or.inl hm
  | newCell c f b an =>
    simp only [step] at hm
    split at hm
    · exact Or.inl hm
    · obtain ⟨R, hc, _⟩ := clr_notifyAll env s (fun _ => False) he (env.siblings c); exact Or.inl (clr hc hm)
  | maxdepth k => exact Or.inl hm
  | admin a => exact Or.inl hm

theorem inpOf_of_unheld {s : St} {m : Node} (h : lookup s.data m = none) : inpOf s m = none := by
  unfold inpOf; split
  · exact h
  · rfl

/-- a clearing whose removed set contains the node of `m` (if it has one) leaves `m` without value -/
theorem clr_unheld {s s' : St} {R : List GNode} {D : RefId × Node → Prop} (g : GI env lt s) (hc : Clr s R D s')
    (m : Node) (hR : GNode.elem m ∈ s.gn → GNode.elem m ∈ R) : lookup s'.data m = none := by
  rw [hc.lookup]
  split
  · rfl
  · rename_i hnR
    cases hl : lookup s.data m with
    | none => rfl
    | some v => exact absurd (hR (g.heldNodes m (by rw [hl]; rfl)).1) hnR

/-- **the inputs after an operation are a function of the definitions, the inputs before, and the
operation** – nothing else of the mechanism state matters -/
theorem inpOf_step (ho : StrictOrder lt) (hw : WF env lt) {s : St} (h : CI env lt s) (hr : RgNoInputs s)
    (op : Op) : inpOf (step (env, s) op).2 = inpStep env (inpOf s) op := by
  funext m
  have he := h.gi.edgeOK
  by_cases ht : Touches m op
  · -- the operation is about `m` itself (or its cells)
    cases op with
    | setValue n v =>
      have hn : n = m := ht
      subst hn
      simp only [step, inpStep]
      split
      · unfold St.setValue
        split
        · rfl
        · simp only []
          generalize s.clearValueAt n true = s1
          have hd : (({ s1 with data := insert s1.data n v } : St).addNode (.elem n)).data = insert s1.data n v :=
            (sameCache_addNode _ _).data
          have hi' : (({ s1 with data := insert s1.data n v } : St).addNode (.elem n)).inputs = s1.inputs :=
            (sameCache_addNode _ _).inputs
          simp only [if_true]
          unfold inpOf
          simp only [hi']
          have hmem : n ∈ (if s1.inputs.contains n = true then s1.inputs else s1.inputs ++ [n]) := by
            split
            · rename_i hcn; simpa using hcn
            · simp
          rw [if_pos hmem]
          show lookup (({ s1 with data := insert s1.data n v } : St).addNode (.elem n)).data n = some v
          rw [hd, lookup_insert, if_pos rfl]
      · rfl
    | clearAt n =>
      have hn : n = m := ht
      subst hn
      simp only [step, inpStep, if_true]
      exact inpOf_of_unheld (clearValueAt_unheld h.gi n)
    | clearAll c =>
      have hn : c = m.1 := ht
      subst hn
      simp only [step, inpStep, if_true]
      obtain ⟨R, hc, hR⟩ := clr_clearAllValues s (fun _ => False) he m.1 true
      refine inpOf_of_unheld (clr_unheld h.gi hc m (fun hgn => ?_))
      rcases h.gi.nodesHeld m hgn with hh | hh
      · exact hR m rfl hh (Or.inl rfl) hgn
      · rw [h.quiet.stack] at hh; cases hh
    | setFormula c f =>
      have hn : c = m.1 := ht
      subst hn
      simp only [step, inpStep]
      split
      · simp only [if_true]
        obtain ⟨R, hc, hR, _⟩ := clr_clearObj s (fun _ => False) he m.1
        exact inpOf_of_unheld (clr_unheld h.gi hc m (fun hgn => hR m rfl hgn))
      · rfl
    | setCached c b =>
      have hn : c = m.1 := ht
      subst hn
      simp only [step, inpStep]
      split
      · rfl
      · simp only [if_true]
        obtain ⟨R, hc, hR, _⟩ := clr_clearObj s (fun _ => False) he m.1
        exact inpOf_of_unheld (clr_unheld h.gi hc m (fun hgn => hR m rfl hgn))
    | delCell c =>
      have hn : c = m.1 := ht
      subst hn
      simp only [step, inpStep]
      split
      · simp only [if_true]
        obtain ⟨R1, R2, _, _, hc, hR, _⟩ := delCell_clr (env := env) s he m.1
        exact inpOf_of_unheld (clr_unheld h.gi hc m (fun hgn => List.mem_append_left _ (hR _ hgn rfl)))
      · rfl
    | eval _ => exact ht.elim
    | clear _ => exact ht.elim
    | setRef _ _ => exact ht.elim
    | delRef _ => exact ht.elim
    | newCell _ _ _ _ => exact ht.elim
    | maxdepth _ => exact ht.elim
    | admin _ => exact ht.elim
  · rw [inpStep_untouched env _ op m ht]
    by_cases hin : m ∈ s.inputs
    · cases hl : lookup s.data m with
      | none => have := h.gi.inputsHeld m hin; rw [hl] at this; cases this
      | some w =>
        obtain ⟨k1, k2⟩ := step_keeps_input ho hw h hr op m w ht hin hl
        unfold inpOf
        rw [if_pos k2, if_pos hin, k1, hl]
    · have hnot : m ∉ (step (env, s) op).2.inputs := by
        intro hm
        rcases step_inputs_sub h op m hm with h1 | ⟨v, h1⟩
        · exact hin h1
        · subst h1; exact ht rfl
      unfold inpOf
      rw [if_neg hnot, if_neg hin]

/-- the inputs a history reaches, computed from the definitions and the operations alone -/
def inpRun : Env → (Node → Option Val) → List Op → (Node → Option Val)
  | _, inp, [] => inp
  | env, inp, op :: ops => inpRun (envStep env op) (inpStep env inp op) ops

theorem run_inp (ho : StrictOrder lt) : ∀ (ops : List Op) (st : Env × St), WF st.1 lt → CI st.1 lt st.2 →
    RgNoInputs st.2 → Admissible lt st ops → inpOf (run st ops).2 = inpRun st.1 (inpOf st.2) ops := by
  intro ops
  induction ops with
  | nil => intro _ _ _ _ _; rfl
  | cons op rest ih =>
    intro st hw h hr hadm
    obtain ⟨env, s⟩ := st
    have e1 : step (env, s) op = (envStep env op, (step (env, s) op).2) := by rw [← step_env]
    have h1 := step_ci lt ho (env, s) op hw h
    have hr1 := step_rgNoInputs (env, s) op h hr
    have hadm1 := hadm.1
    have hadm2 := hadm.2
    simp only [run, List.foldl, inpRun]
    rw [e1] at h1 hadm1 hadm2 ⊢
    have := ih (envStep env op, (step (env, s) op).2) hadm1 h1 hr1 hadm2
    simp only [run] at this
    rw [this, inpOf_step ho hw h hr op]

theorem inpStep_eval (env : Env) (inp : Node → Option Val) (op : Op) (h : isEval op = true) :
    inpStep env inp op = inp ∧ envStep env op = env := by
  cases op <;> simp_all [isEval, inpStep, envStep]

theorem inpRun_noEvals (ops : List Op) : ∀ (env : Env) (inp : Node → Option Val),
    inpRun env inp (noEvals ops) = inpRun env inp ops := by
  induction ops with
  | nil => intro _ _; rfl
  | cons op rest ih =>
    intro env inp
    by_cases hev : isEval op = true
    · have : noEvals (op :: rest) = noEvals rest := by simp [noEvals, List.filter, hev]
      rw [this, ih]
      simp only [inpRun, (inpStep_eval env inp op hev).1, (inpStep_eval env inp op hev).2]
    · have hev' : isEval op = false := by simpa using hev
      have : noEvals (op :: rest) = op :: noEvals rest := by simp [noEvals, List.filter, hev']
      rw [this]
      simp only [inpRun]
      exact ih _ _

/-- **the live model and the model to which only the edits were applied have the same definitions and
the same inputs**, and both satisfy the certificate invariant -/
theorem run_noEvals (lt : Node → Node → Prop) (ho : StrictOrder lt) (env0 : Env) (hw0 : WF env0 lt)
    (ops : List Op) (hadm : Admissible lt (env0, {}) ops) :
    (run (env0, {}) (noEvals ops)).1 = (run (env0, {}) ops).1 ∧
    inpOf (run (env0, {}) (noEvals ops)).2 = inpOf (run (env0, {}) ops).2 ∧
    CI (run (env0, {}) ops).1 lt (run (env0, {}) (noEvals ops)).2 ∧
    CI (run (env0, {}) ops).1 lt (run (env0, {}) ops).2 ∧ WF (run (env0, {}) ops).1 lt := by
  have hadm' := admissible_noEvals lt ops env0 {} hadm
  have henv : (run (env0, {}) (noEvals ops)).1 = (run (env0, {}) ops).1 := by
    rw [run_env, run_env, foldl_envStep_noEvals]
  have hr0 : RgNoInputs ({} : St) := fun e he => by simp at he
  have hi1 := run_inp ho ops (env0, {}) hw0 (CI.empty env0 lt) hr0 hadm
  have hi2 := run_inp ho (noEvals ops) (env0, {}) hw0 (CI.empty env0 lt) hr0 hadm'
  obtain ⟨c1, w1⟩ := run_ci lt ho ops (env0, {}) hw0 (CI.empty env0 lt) hadm
  obtain ⟨c2, _⟩ := run_ci lt ho (noEvals ops) (env0, {}) hw0 (CI.empty env0 lt) hadm'
  refine ⟨henv, ?_, henv ▸ c2, c1, w1⟩
  rw [hi1, hi2, inpRun_noEvals]

end MxModel.C02
